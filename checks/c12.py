"""C12 -- moves: ownership model in lock-step with the upstream log of the move harness for every allocator type,
content of memory handed out before a move verified after it, release through the new owner, in all configurations."""
import subprocess
from vlib import build, runner

TYPES = ['pool_node', 'pool_array', 'pool_small', 'coll_node', 'coll_array', 'coll_small', 'stack', 'stack_fixed', 'stack_tracked', 'iteration',
         'arena_cached', 'arena_uncached', 'src_growing', 'src_fixed', 'src_static', 'src_virtual', 'list_unordered', 'list_ordered', 'list_small']


def gen_script(rng, ty):
    lines = ['move %s %s' % (ty, rng.choice(['low', 'high']))]
    st = ['E'] * 4
    made = 0
    for _ in range(rng.randint(8, 45)):
        r = rng.random()
        live = [k for k in range(4) if st[k] == 'L']; objs = [k for k in range(4) if st[k] != 'E']; empty = [k for k in range(4) if st[k] == 'E']
        if (r < 0.2 or not objs) and empty and (made < 4 or ty not in ('src_static', 'list_unordered', 'list_ordered', 'list_small')):
            k = rng.choice(empty); lines.append('new %d' % k); st[k] = 'L'; made += 1
        elif r < 0.40 and live:
            lines.append('use %d %d' % (rng.choice(live), rng.choice([1, 2, 3, 7, 12, 30])))
        elif r < 0.45 and live and ty.startswith(('pool_', 'list_')):
            # exactly full (no free node left), moved at once, then everything released through the new owner
            k = rng.choice(live); lines.append('fill %d' % k)
            others = [x for x in objs if x != k]
            how = rng.choice(['mc', 'ma', 'sw'])
            if how == 'mc' and empty:
                j = rng.choice(empty); lines.append('mc %d %d' % (k, j)); st[j] = 'L'; st[k] = 'M'; lines.append('rel %d %d' % (j, rng.randint(1, 10 ** 6)))
            elif how == 'ma' and others:
                j = rng.choice(others); lines.append('ma %d %d' % (k, j)); st[j] = 'L'; st[k] = 'M'; lines.append('rel %d %d' % (j, rng.randint(1, 10 ** 6)))
            elif others:
                j = rng.choice(others); lines.append('sw %d %d' % (k, j)); st[k], st[j] = st[j], st[k]; lines.append('rel %d %d' % (j, rng.randint(1, 10 ** 6)))
        elif r < 0.50 and live:
            lines.append('rel %d %d' % (rng.choice(live), rng.choice([0, rng.randint(1, 10 ** 6)])))
        elif r < 0.55 and live:
            # leave gaps: some nodes free, some live, then move at once and release the rest in a shuffled order through the new owner
            k = rng.choice(live); lines.append('use %d %d' % (k, rng.choice([6, 12, 20]))); lines.append('relp %d %d %d' % (k, rng.randint(0, 2), 3))
            others = [x for x in objs if x != k]
            how = rng.choice(['mc', 'mc', 'ma', 'sw'])
            if how == 'mc' and empty:
                j = rng.choice(empty); lines.append('mc %d %d' % (k, j)); st[j] = 'L'; st[k] = 'M'; lines.append('rel %d %d' % (j, rng.randint(1, 10 ** 6)))
            elif how == 'ma' and others:
                j = rng.choice(others); lines.append('ma %d %d' % (k, j)); st[j] = 'L'; st[k] = 'M'; lines.append('rel %d %d' % (j, rng.randint(1, 10 ** 6)))
            elif others:
                j = rng.choice(others); lines.append('sw %d %d' % (k, j)); st[k], st[j] = st[j], st[k]; lines.append('rel %d %d' % (j, rng.randint(1, 10 ** 6)))
        elif r < 0.68 and objs and empty:
            i = rng.choice(objs); j = rng.choice(empty); lines.append('mc %d %d' % (i, j)); st[j] = st[i]; st[i] = 'M'
        elif r < 0.84 and len(objs) >= 2:
            i, j = rng.sample(objs, 2); lines.append('ma %d %d' % (i, j)); st[j] = st[i]; st[i] = 'M'
        elif r < 0.92 and len(objs) >= 2:
            i, j = rng.sample(objs, 2); lines.append('sw %d %d' % (i, j)); st[i], st[j] = st[j], st[i]
        elif objs:
            k = rng.choice(objs); lines.append('del %d' % k); st[k] = 'E'
    lines.append('chk')
    return '\n'.join(lines) + '\n'


def oracle(log):
    """C12 on the implementation's log alone: contents intact, upstream balanced, nothing returned twice, moves touch no block"""
    msgs = []
    held = set(); returned = set(); prev_figs = {}
    for ln in log.split('\n'):
        if ln.startswith('corrupt'):
            msgs.append((ln[8:] if ln.startswith("corrupt tracker") else "memory handed out before a move was modified or is no longer where it was: " + ln))
            continue
        parts = ln.split('|')
        if len(parts) < 3:
            continue
        head = parts[0].strip()
        t = parts[1].split(); i = 0
        ups = []; downs = []
        while i < len(t):
            if t[i] == 'U+' and i + 3 < len(t):
                if t[i + 3] != 'fail':
                    ups.append(int(t[i + 3]))
                i += 4
            elif t[i] == 'U-' and i + 3 < len(t):
                downs.append(int(t[i + 3])); i += 4
            else:
                if t[i].startswith('U!'):
                    msgs.append('upstream error %s at: %s' % (t[i], head))
                i += 1
        for b in ups:
            held.add(b)
        for b in downs:
            if b in returned:
                msgs.append('block %d returned upstream twice (second time at "%s")' % (b, head))
            elif b not in held:
                msgs.append('block %d returned upstream but never acquired (at "%s")' % (b, head))
            held.discard(b); returned.add(b)
        op = head.split()[0] if head else ''
        figs = {}
        for tok in parts[2].split():
            q = tok.split(':')
            if len(q) in (3, 4) and q[0].isdigit():
                figs[int(q[0])] = (q[1], int(q[2]))
                # deeply tracked types: the block source deep inside must report to the tracker of the object it is part of
                if len(q) == 4 and q[3] != q[0]:
                    who = {'n': 'no tracker at all (null)', 'x': 'a tracker that belongs to no existing object (destroyed or temporary)'}.get(q[3], 'the tracker inside the object of slot ' + q[3])
                    msgs.append('after "%s" the deeply tracked allocator in slot %s reports its growth to %s' % (head, q[0], who))
        hp = head.split()
        if op in ('mc', 'ma', 'sw') and len(hp) >= 3 and '=' in hp and hp[hp.index('=') + 1] in ('moved', 'assigned', 'swapped') and prev_figs:
            i, j = int(hp[1]), int(hp[2])
            if op == 'sw':
                if figs.get(i) != prev_figs.get(j) or figs.get(j) != prev_figs.get(i):
                    msgs.append('swap did not exchange the memory completely: capacity figures %s / %s before, %s / %s after "%s"' % (prev_figs.get(i), prev_figs.get(j), figs.get(i), figs.get(j), head))
            elif prev_figs.get(i, ('E', 0))[0] == 'L' and figs.get(j) != prev_figs.get(i):
                msgs.append('the capacity figure did not travel with the memory: source had %s, target has %s after "%s"' % (prev_figs.get(i), figs.get(j), head))
        if figs:
            prev_figs = figs
        if op in ('mc', 'sw') and (ups or downs):
            msgs.append('"%s" touched the upstream source: %s' % (head, parts[1].strip()))
        if op == 'end':
            if 'live_blocks=0' not in parts[2] or 'errors=0' not in parts[2] or 'stale_writes=0' not in parts[2]:
                msgs.append('at exit: ' + parts[2].strip())
    return msgs


def run(ctx):
    ctx.regen(); ctx.prove()
    thorough = ctx.tier == 'thorough'
    rng = ctx.rng
    try:
        rexe = ctx.replay_exe()
    except build.BuildError as e:
        ctx.tie_broken.append('replay driver: ' + str(e)[:300]); rexe = None
    cfgs = ['base', 'dbg8', 'rel'] + (['chk', 'dbg16'] if thorough else [])
    build.warm(cfgs, [('move', ['h_move.cpp'], {})])
    exe = {c: build.build_harness('move', c, ['h_move.cpp']) for c in cfgs}
    cases = []
    for ty in TYPES:
        for i in range(12 if thorough else 4):
            sc = gen_script(rng, ty)
            for c in cfgs:
                cases.append(dict(exe=exe[c], script=sc, replay_args=['move'], tag=(ty, c)))
    res = runner.run_cases(cases, rexe)
    tot = {}; per = {}
    for r in res:
        ty, c = r['case']['tag']; per[ty] = per.get(ty, 0) + 1
        for k, v in r['summ'].items():
            tot[k] = tot.get(k, 0) + v
        msgs = oracle(r['log'])
        if r['rc'] != 0:
            ctx.tie_broken.append('move harness exit %d (%s, %s)' % (r['rc'], ty, c))
            outl = [l for l in r['log'].split('\n') if '=' in l]
            sc = r['case']['script'].split('\n')
            msgs.insert(0, 'the program was stopped (exit status %d) by a valid sequence of moves; last completed operation: "%s"' % (r['rc'], outl[-1].split('|')[0].strip() if outl else ''))
        if r['div']:
            ctx.tie_broken.append('correspondence (%s, %s): %s' % (ty, c, r['div'][0][:300]))
        if msgs and len(ctx.violations) < 3:
            ctx.violation('%s/%s' % (ty, c), 'C12 fails on the implementation (%s): %s' % (ty, msgs[0]), dict(harness='h_move.cpp', config=c, script=r['case']['script'].split('\n'), all=msgs[:5]))
    # moved-from objects under the leak accounting: histories with move constructions and move assignments whose allocations go through
    # the traits (so that they are counted); a moved-from object must report nothing for memory that went to, and was released through,
    # the new owner
    from checks import c15, poolgen
    lcfgs = ['base', 'dbg8']
    lexe = {c: build.build_harness('pool', c, ['h_pool.cpp']) for c in lcfgs}
    lcases = []
    for i in range(60 if thorough else 16):
        t = poolgen.gen_target(rng)
        sc = c15.gen_leak_script(rng, t)
        if 'mv' not in sc and 'ma ' not in sc:
            continue
        for c in lcfgs:
            lcases.append(dict(exe=lexe[c], script=sc, replay_args=['leak'], tag=(t['line'], c)))
    lres = runner.run_cases(lcases, rexe)
    for r in lres:
        lmsgs = c15.oracle(r['log'])
        if lmsgs and len(ctx.violations) < 3:
            ctx.violation('leak-accounting/%s/%s' % r['case']['tag'], 'C12 fails on the implementation: after moves an object reported memory it no longer owns (or kept quiet about memory it does): ' + lmsgs[0],
                          dict(harness='h_pool.cpp', config=r['case']['tag'][1], script=r['case']['script'].split('\n'), all=lmsgs[:5]))
    ctx.tie_broken = ctx.tie_broken[:6]
    ctx.cov.update(dict(
        tie=dict(kind='Exec lock-step of the ownership model: for every operation the set of blocks returned upstream must equal the model\'s, the moved-from / live / empty state of the four slots must agree, at exit the remaining objects return exactly what the model says they own; for the deeply tracked stack the slot whose tracker the block source deep inside reports to is compared with DeepTracker.dt_step after every operation (std::swap as move construction into a temporary, two move assignments, destruction); independent oracle: byte patterns written into memory obtained before a move are verified after every operation and before release through the new owner, no block returned twice or never, moves and swaps make no upstream call, no stale write into returned blocks, no abort in any configuration (assertions on in dbg8)',
                 configs=cfgs, types=TYPES, histories=len(cases), leak_accounting_histories_with_moves=len(lcases), model_steps=tot.get('ops', 0), move_constructions=tot.get('moves', 0), move_assignments=tot.get('assigns', 0), swaps=tot.get('swaps', 0), destructions=tot.get('dels', 0), deep_tracker_model_steps=tot.get('tracker_steps', 0), divergences=tot.get('diverged', 0)),
        evaluations=len(cases), distinct_nontrivial=len(set(c['script'] for c in cases)),
        rule='per type seeded histories over four slots: construct, take memory (forcing growth), release through the current owner, move-construct into an empty slot, move-assign onto live (non-empty) and moved-from targets, swap (friend swap where the type has one, std::swap otherwise) of live and moved-from objects, destroy live and moved-from objects, chains of moves; object placed below and above its memory; distinct = distinct scripts'))
    if res:
        ctx.samples.append(dict(target=res[0]['case']['tag'], script=res[0]['case']['script'].split('\n')[:14], log=[l[:160] for l in res[0]['log'].split('\n')[:8]]))
