"""C10 -- containers over std_allocator: equality algebra, protocol model in lock-step with container programs over two
origin-tracking allocators, node size constants regenerated from the working tree against what containers really ask for."""
import os, subprocess
from vlib import build, nodesizes

KINDS = ['list', 'forward_list', 'set', 'unordered_set', 'map', 'vector', 'deque']


def gen_prog(rng, n):
    lines = []
    for _ in range(n):
        k = rng.choice(KINDS)
        r = rng.random()
        i = rng.randint(0, 3); j = rng.choice([x for x in range(4) if x != i])
        if r < 0.4:
            lines.append('%s ins %d %d' % (k, i, rng.randint(0, 50)))
        elif r < 0.5:
            lines.append('%s erase %d' % (k, i))
        elif r < 0.55:
            lines.append('%s clear %d' % (k, i))
        else:
            lines.append('%s %s %d %d' % (k, rng.choice(['copy', 'move', 'swap', 'swap', 'cc', 'mc']), i, j))
    return '\n'.join(lines) + '\n'


def run(ctx):
    ctx.regen(); ctx.prove()
    thorough = ctx.tier == 'thorough'
    rng = ctx.rng
    try:
        rexe = ctx.replay_exe()
    except build.BuildError as e:
        ctx.tie_broken.append('replay driver: ' + str(e)[:300]); rexe = None
    try:
        ns = nodesizes.generate()
    except build.BuildError as e:
        ctx.tie_broken.append('node size generation from the working tree failed: ' + str(e)[-400:]); ns = None
    cfgs = ['base', 'dbg8'] if thorough else ['base']
    tot = {}; probes = 0; progs = 0; eqs = 0; worst = None
    for c in cfgs:
        extra = ['-iquote', os.path.dirname(ns), '-UFOONATHAN_MEMORY_NO_NODE_SIZE'] if ns else []
        exe = build.build_harness('container', c, ['h_container.cpp'], extra=extra)
        outs = []
        # equality
        o = subprocess.run([exe, 'eq'], stdout=subprocess.PIPE, stderr=subprocess.PIPE, text=True, timeout=120)
        outs.append(o.stdout)
        for ln in o.stdout.split('\n'):
            if ln.startswith('eq '):
                eqs += 1
                kv = dict(x.split('=') for x in ln.split() if '=' in x)
                if kv['equal'] != kv['same_resource'] and len(ctx.violations) < 3:
                    ctx.violation('eq/' + ln.split(' equal=')[0], 'C10 fails on the implementation: std_allocator equality: "%s" compares %s although memory from one may %sbe released through the other'
                                  % (ln.split(' equal=')[0][3:], 'equal' if kv['equal'] == '1' else 'unequal', '' if kv['same_resource'] == '1' else 'not '), dict(harness='h_container.cpp eq', config=c, output=ln))
        # node sizes
        if ns:
            o = subprocess.run([exe, 'probe'], stdout=subprocess.PIPE, stderr=subprocess.PIPE, text=True, timeout=300)
            outs.append(o.stdout)
            if o.returncode != 0 and len(ctx.violations) < 3:
                ctx.violation('probe-crash/' + c, 'C10 fails on the implementation: the node size probe was stopped (exit status %d)' % o.returncode, dict(harness='h_container.cpp probe', config=c, output=o.stdout[-300:]))
            for ln in o.stdout.split('\n'):
                if ln.startswith('probe '):
                    probes += 1
                    kv = dict(x.split('=') for x in ln.split() if '=' in x)
                    if int(kv['actual']) > int(kv['promised']) and len(ctx.violations) < 3:
                        t = ln.split()
                        ctx.violation('probe/' + ' '.join(t[1:5]), 'C10 fails on the implementation: %s of %s (size %s, alignment %s) asks for nodes of %s bytes, %s_node_size promises %s' % (t[1], t[2], t[3], t[4], kv['actual'], t[1], kv['promised']),
                                      dict(harness='h_container.cpp probe', config=c, output=ln, node_size_header=ns))
                elif ln.startswith('poolserve') and 'REFUSED' in ln and len(ctx.violations) < 3:
                    ctx.violation('poolserve/' + ln, 'C10 fails on the implementation: a pool created with the node size constant refused the container: ' + ln, dict(harness='h_container.cpp probe', config=c, output=ln))
        # programs
        for k in range(40 if thorough else 10):
            sc = gen_prog(rng, 300)
            o = subprocess.run([exe, 'prog'], input=sc, stdout=subprocess.PIPE, stderr=subprocess.PIPE, text=True, timeout=300)
            outs.append(o.stdout); progs += 1
            if o.returncode != 0 and len(ctx.violations) < 3:
                ctx.violation('prog-crash/%s/%d' % (c, k), 'C10 fails on the implementation: a container program was stopped (exit status %d) after: %s' % (o.returncode, o.stdout.strip().split('\n')[-1][:100]), dict(harness='h_container.cpp prog', config=c, script=sc.split('\n')))
            for ln in o.stdout.split('\n'):
                bad = None
                if ' errors=' in ln and 'errors=0' not in ln:
                    bad = ln.split('::')[-1].strip() if '::' in ln else 'a release did not match its allocation'
                elif 'DIFFERENT' in ln:
                    bad = 'the container holds other elements than the same program on std::allocator'
                elif ln.startswith('end ') and 'live=0' not in ln:
                    bad = 'memory still allocated when every container is gone: ' + ln
                if bad and len(ctx.violations) < 3:
                    lines = sc.split('\n')
                    ctx.violation('prog/%s/%s' % (c, ln.split('=')[0].strip()), 'C10 fails on the implementation: %s (at "%s")' % (bad, ln.split('|')[0].strip()), dict(harness='h_container.cpp prog', config=c, script=lines, output=ln))
        if rexe:
            rr = subprocess.run([rexe, 'container'], input='\n'.join(outs), stdout=subprocess.PIPE, text=True).stdout
            for ln in rr.split('\n'):
                if ln.startswith('SUMMARY'):
                    for kv in ln.split()[1:]:
                        a, b = kv.split('='); tot[a] = tot.get(a, 0) + int(b)
                elif ln.startswith('DIVERGE'):
                    ctx.tie_broken.append('correspondence (%s): %s' % (c, ln[:300]))
    ctx.tie_broken = ctx.tie_broken[:6]
    ctx.level = 'proof'
    ctx.cov.update(dict(
        tie=dict(kind='(1) equality of std_allocator handles (references to two allocator objects, rebound and copied handles, a stateless allocator, type-erased any_std_allocator) against Container.heq; (2) container programs on list, forward_list, set, unordered_set, map, vector, deque over two origin-tracking allocators: which allocator each of four containers refers to after every operation is compared with the protocol model, every release is checked against the origin of the block (and its size / alignment), contents against the same program on std::allocator, smart pointers likewise; (3) the node size header is regenerated from the working tree\'s own cmake/get_container_node_sizes.cmake and cmake/get_node_size.cpp on every new tree and every X_node_size<T> is compared with what the container really asks a probing allocator for',
                 configs=cfgs, equality_cases=eqs, node_size_probes=probes, programs=progs, model_steps=tot.get('ops', 0), divergences=tot.get('diverged', 0)),
        evaluations=eqs + probes + progs, distinct_nontrivial=eqs + probes + progs,
        rule='element layouts: sizes 1..128 x alignments 1..16 (29 layouts), std::string and long keys, hashes that are and are not cached in the node, for 11 node-size constants; programs: seeded sequences of insert / erase / clear / copy- and move-assignment / swap / copy- and move-construction between containers bound to the same and to different allocators; distinct = cases',
        not_modelled=['libstdc++\'s container implementations (only the standard\'s protocol is modelled; conformance is sampled by the programs)', 'splice is in the model but not in the programs']))
    ctx.assumptions += ['libstdc++ follows the allocator-aware container protocol of the standard (sampled, not proved)']
    ctx.samples.append(dict(program=gen_prog(ctx.rng, 6).split('\n')))
