"""C08 -- composable deallocation recognises exactly its own memory; nested fallback routing."""
import subprocess
from vlib import build


def fb_script(rng, n):
    lines = []
    live = 0
    phase = 'fill'
    for i in range(n):
        if i % 40 == 0:
            phase = rng.choice(['fill', 'drain', 'mix'])
        r = rng.random()
        if phase == 'fill':
            alloc = r < 0.8
        elif phase == 'drain':
            alloc = r < 0.2
        else:
            alloc = r < 0.5
        if alloc or live == 0:
            k = rng.random()
            if k < 0.55:
                lines.append('an')
            elif k < 0.75:
                lines.append('tan')
            else:
                lines.append('aa %d 16' % rng.choice([1, 2, 2, 3, 4]))
            live += 1
        else:
            k = rng.random()
            if k < 0.1:
                lines.append('tdx')
            else:
                lines.append('%s %d' % ('d' if k < 0.7 else 'td', rng.choice([0, 0, live - 1, rng.randint(0, max(0, live - 1))])))
                live -= 1
    return lines


def fb_oracle(lines):
    """per line: exactly one sub-allocator's capacity moves; the release goes back to the one that served, in full"""
    served = []   # list of (leaf, amount)
    for ln in lines:
        parts = ln.split('|')
        if len(parts) != 3:
            continue
        head = parts[0]; b = [int(x) for x in parts[1].split()]; a = [int(x) for x in parts[2].split()]
        ch = [(i, y - x) for i, (x, y) in enumerate(zip(b, a)) if x != y]
        lhs, rhs = head.split('=', 1); t = lhs.split(); r = rhs.split()
        if t[0] in ('an', 'aa', 'tan'):
            if r and r[0] == 'ok':
                if len(ch) != 1 or ch[0][1] >= 0:
                    return ln, 'an allocation changed the capacity of %d sub-allocators' % len(ch)
                served.append((ch[0][0], -ch[0][1]))
            elif ch:
                return ln, 'a failed allocation changed capacities'
        elif t[0] == 'tdx':
            if ch or r != ['foreign', 'false']:
                return ln, 'foreign memory was accepted or changed the allocator'
        elif t[0] in ('d', 'td'):
            if not served:
                continue
            k = int(t[1]) % len(served)
            leaf, amount = served.pop(k)
            if t[0] == 'td' and r[:2] != ['tried', 'true']:
                return ln, 'try_deallocate refused memory that the allocator handed out (served by sub-allocator %d)' % leaf
            if len(ch) != 1 or ch[0][1] <= 0:
                return ln, 'the release changed the capacity of %d sub-allocators' % len(ch)
            if ch[0][0] != leaf:
                return ln, 'memory served by sub-allocator %d was released to sub-allocator %d' % (leaf, ch[0][0])
            if ch[0][1] != amount:
                return ln, 'memory served as %d bytes was released as %d bytes' % (amount, ch[0][1])
    return None


def fbl_script(rng, n):
    lines = ['rooms %d %d %d' % (rng.choice([1, 2, 3, 5]), rng.choice([1, 2, 4]), rng.choice([1, 3, 6]))]
    live = 0
    for i in range(n):
        if i % 30 == 0:
            p_alloc = rng.choice([0.8, 0.5, 0.25])
        if live == 0 or rng.random() < p_alloc:
            al = rng.choice([1, 2, 4, 8, 16, 64])
            if rng.random() < 0.5:
                lines.append('%s %d %d' % (rng.choice(['an', 'an', 'tan']), rng.choice([1, 8, 16, 24, 32, 100, 4096]), al))
            else:
                lines.append('%s %d %d %d' % (rng.choice(['aa', 'aa', 'taa']), rng.choice([1, 1, 2, 3, 4, 16]), rng.choice([1, 8, 16, 24, 32]), al))
            live += 1
        elif rng.random() < 0.08:
            lines.append('tdx')
        else:
            lines.append('%s %d' % (rng.choice(['d', 'd', 'td']), rng.choice([0, live - 1, rng.randint(0, live - 1)])))
            live -= 1
    return lines


def fbl_oracle(lines):
    """serving call (suffix ok) and releasing call (suffix true / own) must agree in leaf, kind, count, size, alignment"""
    hs = []
    for ln in lines:
        if '|' not in ln:
            continue
        head, log = ln.split('|', 1)
        lhs, rhs = head.split('=', 1); t = lhs.split(); r = rhs.split()
        calls = [x.split(':') for x in log.split()]
        if any(c[5] == 'FOREIGN' for c in calls):
            return ln, 'a sub-allocator was handed memory it does not own'
        if t[0] in ('an', 'tan', 'aa', 'taa'):
            ok = [c for c in calls if c[5] == 'ok']
            if len(ok) != 1:
                return ln, '%d sub-allocators served one request' % len(ok)
            c = ok[0]
            arr = t[0] in ('aa', 'taa')
            want = (int(t[1]) * int(t[2]), int(t[3])) if arr else (int(t[1]), int(t[2]))
            if int(c[2]) * int(c[3]) < want[0] or int(c[4]) < want[1]:
                return ln, 'the serving sub-allocator was asked for less than requested'
            hs.append((c[0], c[1][-1], c[2], c[3], c[4]))
        elif t[0] in ('d', 'td'):
            if not hs:
                continue
            k = int(t[1]) % len(hs)
            served = hs.pop(k)
            got = [c for c in calls if c[5] in ('true', 'own')]
            if r[0] != 'true':
                return ln, 'try_deallocate refused memory handed out by sub-allocator %s' % served[0]
            if len(got) != 1:
                return ln, 'the release was accepted by %d sub-allocators' % len(got)
            g = (got[0][0], got[0][1][-1], got[0][2], got[0][3], got[0][4])
            if g[0] != served[0]:
                return ln, 'memory served by sub-allocator %s was released to %s' % (served[0], g[0])
            if g != served:
                return ln, 'memory served as %s(%s,%s,%s) was released as %s(%s,%s,%s)' % (('node' if served[1] == 'n' else 'array',) + served[2:] + ('node' if g[1] == 'n' else 'array',) + g[2:])
        elif t[0] == 'tdx':
            if r[0] != 'false' or any(c[5] != 'false' for c in calls):
                return ln, 'foreign memory was accepted'
    return None


def run(ctx):
    ctx.regen(); ctx.prove()
    thorough = ctx.tier == 'thorough'
    rng = ctx.rng
    try:
        rexe = ctx.replay_exe()
    except build.BuildError as e:
        ctx.tie_broken.append('replay driver: ' + str(e)[:300]); rexe = None
    own_lines = ['%d %d %d' % (ns, n, al) for ns in ([8, 16, 24, 64] if not thorough else [8, 9, 12, 16, 17, 24, 32, 40, 64, 128]) for n in ([5, 20] if not thorough else [1, 3, 5, 20, 60]) for al in (1, 8)]
    scripts = [fb_script(rng, 400 if not thorough else 2000) for _ in range(6 if not thorough else 30)]
    lscripts = [fbl_script(rng, 300 if not thorough else 1500) for _ in range(8 if not thorough else 40)]
    lsteps = 0
    tot = {}; tests = 0; own_cases = 0; types = set(); steps = 0
    for c in ['base', 'rel', 'dbg8']:
        exe = build.build_harness('compose08', c, ['h_compose.cpp'], extra=['-DH_C08'])
        out = subprocess.run([exe, 'own'], input='\n'.join(own_lines) + '\n', stdout=subprocess.PIPE, stderr=subprocess.PIPE, text=True, timeout=600)
        if out.returncode != 0:
            ctx.tie_broken.append('compose harness (own) exit %d in %s: %s' % (out.returncode, c, out.stderr[-300:]))
            if len(ctx.violations) < 3:
                last = out.stdout.strip().split('\n')[-1]
                ctx.violation('crash-own/%s' % c, 'C08 fails on the implementation: crash (exit %d) in the ownership tests after: %s' % (out.returncode, last), dict(harness='h_compose.cpp own', config=c, input=own_lines, after=last))
        for ln in out.stdout.split('\n'):
            if not ln.startswith('own '):
                continue
            own_cases += 1
            kv = dict(x.split('=') for x in ln.split() if '=' in x)
            name = ln.split(' size=')[0][4:]
            types.add(name)
            tests += int(kv['tests'])
            msg = None
            if kv['wrong_true'] != '0':
                msg = '%s accepted %s pointers it did not hand out (live allocations of a sibling / one past the end)' % (name, kv['wrong_true'])
            elif kv['wrong_false'] != '0':
                msg = '%s refused %s of its own live allocations' % (name, kv['wrong_false'])
            elif kv['changed_on_false'] != '0':
                msg = '%s changed state on %s refused releases' % (name, kv['changed_on_false'])
            elif int(kv['own_ok']) != int(kv['allocs'].split('/')[0]):
                msg = '%s accepted %s of its %s own allocations' % (name, kv['own_ok'], kv['allocs'].split('/')[0])
            if msg and len(ctx.violations) < 3:
                ctx.violation('own/%s/%s/%s' % (name, kv['size'], c), 'C08 fails on the implementation: ' + msg + ' (node size %s, alignment %s)' % (kv['size'], kv['al']), dict(harness='h_compose.cpp own', config=c, output=ln))
        for si, sc in enumerate(scripts):
            out = subprocess.run([exe, 'fb'], input='\n'.join(sc) + '\n', stdout=subprocess.PIPE, stderr=subprocess.PIPE, text=True, timeout=600)
            outl = [l for l in out.stdout.split('\n') if '|' in l]
            steps += len(outl)
            if out.returncode != 0:
                ctx.tie_broken.append('compose harness (fb) exit %d in %s: %s' % (out.returncode, c, out.stderr[-300:]))
                if len(ctx.violations) < 3:
                    ctx.violation('crash-fb/%s' % c, 'C08 fails on the implementation: crash (exit %d) in nested fallback script %d after %d operations' % (out.returncode, si, len(outl)), dict(harness='h_compose.cpp fb', config=c, script=sc[:len(outl) + 1]))
            bad = fb_oracle(outl)
            if bad and len(ctx.violations) < 3:
                ln, why = bad
                ctx.violation('fb/%s' % c, 'C08 fails on the implementation: %s at "%s"' % (why, ln.strip()), dict(harness='h_compose.cpp fb', config=c, script=sc[:outl.index(ln) + 1], output=ln))
            if rexe:
                rr = subprocess.run([rexe, 'compose', 'fb'], input=out.stdout, stdout=subprocess.PIPE, text=True).stdout
                for ln in rr.split('\n'):
                    if ln.startswith('SUMMARY'):
                        for kv in ln.split()[1:]:
                            k, v = kv.split('='); tot[k] = tot.get(k, 0) + int(v)
                    elif ln.startswith('DIVERGE'):
                        ctx.tie_broken.append('correspondence (%s): %s' % (c, ln[:300]))
        for si, sc in enumerate(lscripts if c != 'rel' else []):
            out = subprocess.run([exe, 'fbl'], input='\n'.join(sc) + '\n', stdout=subprocess.PIPE, stderr=subprocess.PIPE, text=True, timeout=600)
            outl = [l for l in out.stdout.split('\n') if '|' in l]
            lsteps += len(outl)
            if out.returncode != 0:
                ctx.tie_broken.append('compose harness (fbl) exit %d in %s: %s' % (out.returncode, c, out.stderr[-300:]))
                if len(ctx.violations) < 3:
                    ctx.violation('crash-fbl/%s' % c, 'C08 fails on the implementation: crash (exit %d) in instrumented fallback script %d after %d operations' % (out.returncode, si, len(outl)), dict(harness='h_compose.cpp fbl', config=c, script=sc[:len(outl) + 2]))
            bad = fbl_oracle(outl)
            if bad and len(ctx.violations) < 3:
                ln, why = bad
                ctx.violation('fbl/%s' % c, 'C08 fails on the implementation: %s at "%s"' % (why, ln.strip()), dict(harness='h_compose.cpp fbl', config=c, script=sc[:outl.index(ln) + 2], output=ln))
            if rexe:
                rr = subprocess.run([rexe, 'compose', 'fbl'], input=out.stdout, stdout=subprocess.PIPE, text=True).stdout
                for ln in rr.split('\n'):
                    if ln.startswith('SUMMARY'):
                        for kv in ln.split()[1:]:
                            k, v = kv.split('='); tot[k] = tot.get(k, 0) + int(v)
                    elif ln.startswith('DIVERGE'):
                        ctx.tie_broken.append('correspondence (%s): %s' % (c, ln[:300]))
    ctx.tie_broken = ctx.tie_broken[:6]
    ctx.cov.update(dict(
        tie=dict(kind='(1) call shapes of the eight members of fallback_allocator regenerated from the class template (clang AST), obligation re-checked by vm_compute; (2) ownership: two sibling allocators of each type over one upstream that places their blocks back to back; every live allocation of the sibling, the address one past each, and the end address of every upstream block are offered to try_deallocate_node (must be refused, state unchanged), then every own allocation (must be accepted exactly once); (3) nested fallback_allocator<fallback_allocator<pool, pool>, pool>: capacities of the three leaves before/after every operation compared with Compose.alloc_leaf / dealloc_leaf; (4) depth-3 fallback tree ((L0|L1)|L2)|L3 over instrumented composable leaves with limited room: the complete per-leaf call log of every operation (which leaves are asked, with which function and parameters, which one serves / accepts) compared with the model',
                 configs=['base', 'rel', 'dbg8'], allocator_types=sorted(types), ownership_cases=own_cases, ownership_probes=tests,
                 fallback_scripts=len(scripts) * 3, fallback_steps=steps, instrumented_scripts=len(lscripts) * 2, instrumented_steps=lsteps, replayed=tot.get('total', 0), divergences=tot.get('diverged', 0)),
        evaluations=tests + steps + lsteps, distinct_nontrivial=own_cases + steps + lsteps,
        rule='ownership: node sizes 8..64 (thorough ..128) x 5..20 allocations per sibling x alignments 1, 8 for node/array/small pools, two collections, memory_stack, iteration_allocator<2>, aligned<pool>, fallback<pool,pool>; fallback: seeded scripts in fill / drain / mix phases (node, composable node, array requests; releases by throwing and composable interface in arbitrary order; foreign pointer probes) so the default and the inner fallback run full and empty again; distinct = ownership cases + script steps'))
    ctx.samples += [own_lines[0], scripts[0][:12]]
