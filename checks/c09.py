"""C09 -- adapters forward faithfully: generated call-shape obligation + chain theorems + leaf call logs of real compositions."""
import subprocess
from vlib import build

SIZES = [1, 2, 3, 7, 8, 9, 15, 16, 24, 31, 32, 33, 63, 64, 65, 99, 100, 101, 127, 128, 255, 256, 257, 1000, 4096, 65535, 65536, 70000, 1 << 20]
ALIGNS = [1, 2, 4, 8, 16, 32, 64, 128, 256, 4096]
COMPS = list(range(1, 19))


def gen_lines(rng, thorough):
    lines = []
    n = 6000 if thorough else 1200
    for _ in range(n):
        comp = rng.choice(COMPS)
        kind = rng.choice(['n', 'a'])
        pre = rng.choice(['', '', 't'])
        size = rng.choice(SIZES) if rng.random() < 0.8 else rng.randint(1, 300)
        al = rng.choice(ALIGNS)
        if kind == 'a':
            size = min(size, 5000)
            count = rng.choice([1, 1, 2, 3, 4, 7, 8, 13, 64]) if rng.random() < 0.8 else rng.randint(1, 40)
            # products on both sides of the segregator thresholds
            if rng.random() < 0.3:
                t = rng.choice([64, 100]); size = rng.choice([1, 2, 4, 8, 10, 16, 20, 25, 32, 50]); count = max(1, (t + rng.choice([-size, 0, size])) // size)
            req = '%d %d %d' % (count, size, al)
        else:
            req = '%d %d' % (size, al)
        lines.append('%d %sa%s %s' % (comp, pre, kind, req))
        lines.append('%d %sd%s %s' % (comp, pre, kind, req))
    for comp in (1, 2, 3, 4, 9):
        for k in ([1, 1, 2, 3, 5, 17, 100] if not thorough else list(range(1, 40)) + [100, 1000]):
            lines.append('%d std %d' % (comp, k))
    for b in sorted(set(SIZES[:-1] + [rng.randint(1, 3000) for _ in range(40 if not thorough else 400)])):
        for al in (1, 8, 16, 64):
            lines.append('0 res %d %d' % (b, al))
    for b in sorted(set(SIZES[:8] + [rng.randint(1, 3000) for _ in range(12 if not thorough else 100)])):
        for al in (1, 8, 16, 64):
            lines.append('0 mra %d %d' % (b, al))
    for k in (1, 2, 3, 9, 64):
        lines.append('0 uniq %d' % k)
    return lines


def parse(tok):
    p = tok.split(':')
    return p[0], p[1], int(p[2]), int(p[3]), int(p[4])


def oracle(line, prev):
    """C09 on the implementation line alone.  prev: the allocation line with the same request (for release lines)"""
    lhs, rest = line.split(' =', 1)
    t = lhs.split(); obs = rest.split()
    if 'notcomposable' in obs:
        return None
    leafs = [parse(x) for x in obs if x[0] == 'L']; trk = [parse(x) for x in obs if x[0] == 'T']
    op = t[1]
    if op in ('an', 'aa', 'dn', 'da', 'tan', 'taa', 'tdn', 'tda'):
        arr = op in ('aa', 'da', 'taa', 'tda')
        c, s, a = (int(t[2]), int(t[3]), int(t[4])) if arr else (1, int(t[2]), int(t[3]))
        if len(leafs) != 1:
            return 'the wrapped allocator was called %d times for one request' % len(leafs)
        l = leafs[0]
        if l[1][:-1] != op[:-1]:
            return 'request %s reached the wrapped allocator as %s' % (op, l[1])
        if l[2] * l[3] < c * s:
            return 'request for %d x %d bytes reached the wrapped allocator as %d x %d' % (c, s, l[2], l[3])
        if l[4] < a:
            return 'alignment %d was lowered to %d' % (a, l[4])
        minal = {1: 32, 8: 16, 9: 64, 11: 32, 12: 16, 13: 128, 15: 32, 16: 64, 17: 128}.get(int(t[0]))
        if minal and l[4] < minal:
            return 'the aligned_allocator (minimum alignment %d) passed alignment %d on' % (minal, l[4])
        if prev is not None:
            pl = [parse(x) for x in prev.split(' =', 1)[1].split() if x[0] == 'L']
            if pl and (pl[0][0], pl[0][1][-1], pl[0][2], pl[0][3], pl[0][4]) != (l[0], l[1][-1], l[2], l[3], l[4]):
                return 'release reached %s as %s(%d,%d,%d) but the allocation went to %s as %s(%d,%d,%d)' % (l[0], l[1], l[2], l[3], l[4], pl[0][0], pl[0][1], pl[0][2], pl[0][3], pl[0][4])
        comp = int(t[0])
        want_t = comp in (2, 8, 9, 12, 13, 18) or (comp == 10 and l[0] == 'L1') or (comp in (14, 15) and op[0] != 't')
        if comp in (14, 15) and op[0] == 't' and trk:
            return 'the tracker was told of an operation that the wrapped allocator refused'
        if want_t and len(trk) != 1:
            return 'the tracker saw a successful operation %d times' % len(trk)
        if not want_t and trk:
            return 'a tracker event without a tracker'
        if trk and trk[0][2] * trk[0][3] != c * s:
            return 'the tracker was told %d x %d for a request of %d x %d' % (trk[0][2], trk[0][3], c, s)
    elif op in ('std', 'res'):
        if len(leafs) != 2:
            return 'expected one allocation and one release at the wrapped allocator, saw %d calls' % len(leafs)
        a_, d_ = leafs
        if (a_[1], d_[1]) not in (('an', 'dn'), ('aa', 'da')) or a_[2:] != d_[2:] or a_[0] != d_[0]:
            return 'released as %s(%d,%d,%d) what was allocated as %s(%d,%d,%d)' % (d_[1], d_[2], d_[3], d_[4], a_[1], a_[2], a_[3], a_[4])
        if op == 'res':
            if a_[2] * a_[3] < int(t[2]) or a_[4] < int(t[3]):
                return 'asked the wrapped allocator for %d bytes at %d for a request of %s bytes at %s' % (a_[2] * a_[3], a_[4], t[2], t[3])
        else:
            sT, aT = {1: (1, 1), 2: (24, 1), 3: (64, 32), 4: (70000, 1)}.get(int(t[0]), (8, 8))
            if a_[2] * a_[3] < int(t[2]) * sT or a_[4] < aT:
                return 'asked the wrapped allocator for %d bytes at %d for %s objects of size %d, alignment %d' % (a_[2] * a_[3], a_[4], t[2], sT, aT)
    elif op == 'mra':
        # memory_resource_allocator: node request, array of three through the traits, two 24-byte objects through std_allocator
        want = [(1, int(t[2]), int(t[3])), (1, 3 * int(t[2]), int(t[3])), (1, 48, 1)]
        if len(leafs) != 6:
            return 'expected three allocations and three releases at the memory resource, saw %d calls' % len(leafs)
        for (a_, d_), w in zip(zip(leafs[0::2], leafs[1::2]), want):
            if (a_[1], d_[1]) != ('an', 'dn') or a_[2:] != d_[2:]:
                return 'the memory resource got back (%d bytes, alignment %d) what it had handed out as (%d bytes, alignment %d)' % (d_[3], d_[4], a_[3], a_[4])
            if a_[3] < w[1] or a_[4] < w[2]:
                return 'the memory resource was asked for %d bytes at %d for a request of %d bytes at %d' % (a_[3], a_[4], w[1], w[2])
    elif op == 'uniq':
        if len(leafs) % 2:
            return 'unpaired calls at the wrapped allocator'
        for a_, d_ in zip(leafs[0::2], leafs[1::2]):
            if a_[1] in ('an', 'aa') and d_[1] in ('an', 'aa'):
                return 'the memory allocated as %s(%d,%d,%d) for a smart pointer was never released (the next call at the wrapped allocator is another allocation)' % (a_[1], a_[2], a_[3], a_[4])
            if (a_[1], d_[1]) not in (('an', 'dn'), ('aa', 'da')) or a_[2:] != d_[2:]:
                return 'smart pointer released as %s(%d,%d,%d) what was allocated as %s(%d,%d,%d)' % (d_[1], d_[2], d_[3], d_[4], a_[1], a_[2], a_[3], a_[4])
    return None


def run(ctx):
    ctx.regen(); ctx.prove()
    thorough = ctx.tier == 'thorough'
    try:
        rexe = ctx.replay_exe()
    except build.BuildError as e:
        ctx.tie_broken.append('replay driver: ' + str(e)[:300]); rexe = None
    lines = gen_lines(ctx.rng, thorough)
    tot = {}; n = 0; ops = {}
    for c in ['base', 'dbg8']:
        exe = build.build_harness('compose', c, ['h_compose.cpp'])
        out = subprocess.run([exe, 'fwd'], input='\n'.join(lines) + '\n', stdout=subprocess.PIPE, stderr=subprocess.PIPE, text=True, timeout=600)
        outl = [l for l in out.stdout.split('\n') if ' =' in l]
        if out.returncode != 0:
            ctx.tie_broken.append('compose harness exit %d in %s: %s' % (out.returncode, c, out.stderr[-200:]))
            nxt = lines[len(outl)] if len(outl) < len(lines) else ''
            if len(ctx.violations) < 3:
                ctx.violation('crash/%s' % c, 'C09 fails on the implementation: crash (exit %d) while running: %s' % (out.returncode, nxt), dict(harness='h_compose.cpp fwd', config=c, input=nxt))
        prev = {}
        for ln in outl:
            n += 1
            lhs = ln.split(' =')[0]; t = lhs.split()
            ops[t[1]] = ops.get(t[1], 0) + 1
            p = None
            if t[1] in ('dn', 'da', 'tdn', 'tda'):
                p = prev.get((t[0], t[1].replace('d', 'a', 1), tuple(t[2:])))
            else:
                prev[(t[0], t[1], tuple(t[2:]))] = ln
            why = oracle(ln, p)
            if why and len(ctx.violations) < 3:
                ctx.violation('%s/%s' % (lhs, c), 'C09 fails on the implementation: %s (composition %s, request "%s")' % (why, t[0], lhs), dict(harness='h_compose.cpp fwd', config=c, input=lhs, output=ln, allocation=p))
        if rexe:
            rr = subprocess.run([rexe, 'compose', 'fwd'], input=out.stdout, stdout=subprocess.PIPE, text=True).stdout
            for ln in rr.split('\n'):
                if ln.startswith('SUMMARY'):
                    for kv in ln.split()[1:]:
                        k, v = kv.split('='); tot[k] = tot.get(k, 0) + int(v)
                elif ln.startswith('DIVERGE'):
                    ctx.tie_broken.append('correspondence (%s): %s' % (c, ln[:300]))
    ctx.tie_broken = ctx.tie_broken[:6]
    ctx.cov.update(dict(
        tie=dict(kind='(1) call shapes of tracked_allocator, aligned_allocator, allocator_storage, binary_segregator, memory_resource_adapter and std_allocator regenerated from the class templates (clang AST) and the obligation re-checked by vm_compute; (2) Exec: leaf and tracker call logs of fifteen real template compositions (depth 1..3, two of them over a leaf that refuses every composable request: aligned, tracked, direct / reference / type-erased storage, thread_safe_allocator, reference storage with std::mutex, segregators, and their nestings), std_allocator over five value types (1 byte .. 70000 bytes, alignment 32), memory_resource_adapter, allocate_unique / allocate_shared / unique_base_ptr of a 70008-byte derived type compared with Compose.forward',
                 configs=['base', 'dbg8'], cases=tot.get('total', 0), divergences=tot.get('diverged', 0), ops=ops),
        evaluations=n, distinct_nontrivial=len(set(lines)),
        rule='seeded requests: node and array, throwing and composable interface, sizes 1..1 MiB incl. both sides of thresholds 64/100 and of max_node_size 256, 65535/65536/70000, count 1 arrays, alignments 1..4096; each allocation line followed by the release with the same request; distinct = distinct request lines'))
    ctx.samples += lines[:3] + [lines[-1]]
