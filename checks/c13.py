"""C13 -- thread_safe_allocator: generated lock table obligation + interleaving theorem + instrumented real threads."""
import subprocess
from vlib import build


def run(ctx):
    ctx.regen(); ctx.prove()
    thorough = ctx.tier == 'thorough'
    rng = ctx.rng
    try:
        rexe = ctx.replay_exe()
    except build.BuildError as e:
        ctx.tie_broken.append('replay driver: ' + str(e)[:300]); rexe = None
    exe = build.build_harness('thread', 'base', ['h_thread.cpp'])
    runs = []
    for nt in ([2, 3, 4, 8] if not thorough else [2, 3, 4, 5, 6, 8, 12, 16]):
        for rep in range(3 if not thorough else 10):
            runs.append((nt, 300 if not thorough else 1500, rng.randint(1, 10 ** 6)))
    steps = 0; div = 0; passes = 0
    members = [0] * 11
    for nt, nops, seed in runs:
        out = subprocess.run([exe, str(nt), str(nops), str(seed)], stdout=subprocess.PIPE, stderr=subprocess.PIPE, text=True, timeout=300)
        if out.returncode != 0:
            ctx.tie_broken.append('thread harness exit %d (threads=%d seed=%d): %s' % (out.returncode, nt, seed, out.stderr[-200:]))
            if len(ctx.violations) < 3:
                ctx.violation('crash:%d:%d' % (nt, seed), 'C13 fails on the implementation: crash (exit %d) under %d threads' % (out.returncode, nt), dict(harness='h_thread.cpp', args=[nt, nops, seed]))
            continue
        res = [l for l in out.stdout.split('\n') if l.startswith('result')]
        facts = [l for l in out.stdout.split('\n') if l.startswith('facts')]
        if res:
            kv = dict(x.split('=') for x in res[0].split()[1:] if '=' in x)
            for i, v in enumerate(kv.get('members', '').strip(',').split(',')):
                if v:
                    members[i] += int(v)
            msgs = []
            if kv.get('overlap') != '0':
                msgs.append('%s overlapping entries into the wrapped allocator' % kv.get('overlap'))
            if kv.get('nolock') != '0':
                msgs.append('%s entries into the wrapped allocator by a thread that does not hold the mutex' % kv.get('nolock'))
            if kv.get('bad_unlock') != '0' or kv.get('locks') != kv.get('unlocks'):
                msgs.append('mutex unlocked by a non-owner or lock/unlock counts differ (%s/%s, bad=%s)' % (kv.get('locks'), kv.get('unlocks'), kv.get('bad_unlock')))
            if kv.get('stateless_locks') != '0':
                msgs.append('a stateless allocator took the lock %s times' % kv.get('stateless_locks'))
            if facts and ('stateful_mutex=1' not in facts[0] or 'stateless_nomutex=1' not in facts[0]):
                msgs.append('mutex selection: ' + facts[0])
            if msgs and len(ctx.violations) < 3:
                ctx.violation('threads:%d:%d' % (nt, seed), 'C13 fails on the implementation: ' + msgs[0] + ' (%d threads, seed %d)' % (nt, seed),
                              dict(harness='h_thread.cpp', args=[nt, nops, seed], result=res[0][:300], all=msgs))
        if rexe:
            rr = subprocess.run([rexe, 'thread'], input=out.stdout, stdout=subprocess.PIPE, text=True).stdout
            for ln in rr.split('\n'):
                if ln.startswith('SUMMARY'):
                    kv = dict(x.split('=') for x in ln.split()[1:]); steps += int(kv['steps']); div += int(kv['diverged'])
                elif ln.startswith('DIVERGE'):
                    ctx.tie_broken.append('correspondence (threads=%d seed=%d): %s' % (nt, seed, ln[:250]))
    # stateless allocators used concurrently without a lock: balanced histories from all threads, the shared leak counters must end at zero
    stateless = []
    for nt in ([8, 16, 8, 16, 4, 12] if not thorough else [2, 4, 8, 16] * 5):
        out = subprocess.run([exe, 'stateless', str(nt), str(400000 if not thorough else 600000)], stdout=subprocess.PIPE, stderr=subprocess.PIPE, text=True, timeout=900)
        leaks = [l for l in out.stdout.split('\n') if l.startswith('LEAK')]
        stateless.append(dict(threads=nt, exit=out.returncode, leaks=leaks[:3]))
        if (out.returncode != 0 or leaks) and len(ctx.violations) < 3:
            ctx.violation('stateless/%d' % nt, 'C13 fails on the implementation: %d threads using a stateless allocator concurrently (balanced allocate/deallocate pairs) leave its bookkeeping inconsistent: %s' % (nt, leaks[0] if leaks else 'exit status %d' % out.returncode),
                          dict(harness='h_thread.cpp', args=['stateless', nt, 400000 if not thorough else 600000], output=out.stdout[-300:]))
    ctx.tie_broken = ctx.tie_broken[:6]
    ctx.cov['generated_obligations'] = 0
    ctx.cov.update(dict(
        tie=dict(kind='(1) lock table regenerated from the class-template patterns of allocator_storage and locked_allocator (clang AST) and the obligation re-checked by vm_compute; (2) instrumented mutex + instrumented wrapped allocator under real threads: every entry must be by the mutex owner and never overlap; the recorded event trace (lock/enter/leave/unlock per thread) must be a run of the interleaving model',
                 thread_counts=sorted(set(r[0] for r in runs)), runs=len(runs), trace_steps_validated=steps, divergences=div,
                 calls_per_forwarding_member=members, stateless_concurrent=stateless),
        evaluations=len(runs), distinct_nontrivial=len(runs),
        rule='2..8 (thorough ..16) real threads, each a seeded sequence over all eleven forwarding members and the lock() proxy (plain, const, and moved into a longer-lived object with 0..3 passes); a stateless allocator under the same threads must take no lock; distinct = distinct (threads, seed) runs',
        assumed=['std::mutex provides mutual exclusion and happens-before', 'sequential consistency of the atomic steps of the model (the code uses the default memory order)']))
    ctx.assumptions += ['std::mutex correctness; sequentially consistent interleaving semantics']
    ctx.samples.append(dict(args=list(runs[0]), note='h_thread <threads> <ops per thread> <seed>'))
