"""script generator for the pool / pool-collection harness (h_pool.cpp)"""

def al_for(ns):
    return min(ns & -ns, 16) if ns > 0 else 1


def gen_target(rng, kind=None):
    kind = kind or rng.choice(['pool', 'pool', 'coll'])
    pt = rng.choice(['node', 'array', 'small'])
    src = rng.choice(['grow', 'grow', 'fixed'])
    pos = rng.choice(['low', 'high'])
    if kind == 'pool':
        ns = rng.choice([1, 2, 4, 7, 8, 12, 16, 16, 24, 32, 40, 48, 64, 100, 128])
        lns = ns if pt == 'small' else max(ns, 8)
        n = rng.choice([1, 2, 5, 20, 50, 300])
        if pt == 'small':
            bs = 16 + ((n + 254) // 255) * (((32 + 255 * ns) + 7) // 8 * 8) if rng.random() < 0.5 else rng.choice([1024, 4096, 8192])
            bs = max(bs, 16 + 32 + 2 * ns + 16)
        else:
            bs = 16 + lns * n if rng.random() < 0.6 else rng.choice([256, 1024, 4096])
            bs = max(bs, 16 + lns)
        return dict(kind='pool', pt=pt, ns=ns, lns=lns, bs=bs, src=src, pos=pos,
                    line='pool %s %d %d %s %s' % (pt, ns, bs, src, pos))
    bd = rng.choice(['identity', 'log2'])
    mx = rng.choice([16, 32, 64, 100, 256])
    bs = rng.choice([1024, 2048, 4096, 4096, 16384])
    # the first block must hold the free-list array (one list object per bucket) with room to spare
    nlists = (mx - (1 if pt == 'small' else 8) + 1) if bd == 'identity' else 10
    bs = max(bs, 16 + nlists * 64 * 3)
    # rarely met shapes: a block source handing out any number of blocks of one size ("const": what static_block_allocator and
    # virtual_block_allocator do), collections with one list or a few, first blocks whose default capacity (block / lists) is
    # near the largest node size -- below it, between it and the next power of two, just above the small list's chunk header
    r = rng.random()
    if r < 0.25:
        src = 'const'
    if r < 0.10 or 0.50 <= r < 0.58:
        mx = rng.choice([8, 8, 9, 12] if pt != 'small' else [8, 4, 1, 2, 9])
        nlists = (mx - (1 if pt == 'small' else 8) + 1) if bd == 'identity' else 10
        bs = max(rng.choice([1024, 2048, 4096]), 16 + nlists * 64 * 3)
    if 0.58 <= r < 0.80:
        nl = max(1, mx - (0 if pt == 'small' else 7)) if bd == 'identity' else max(1, (mx - 1).bit_length() - (-1 if pt == 'small' else 2))
        c = rng.randint(max(8, mx - 4), 2 * mx + 48)
        bs = 16 + nl * max(c, 64) + rng.randint(0, 40)
    return dict(kind='coll', pt=pt, bd=bd, mx=mx, bs=bs, src=src, pos=pos,
                line='coll %s %s %d %d %s %s' % (pt, bd, mx, bs, src, pos))


def req_sizes(rng, t):
    if t['kind'] == 'pool':
        l = t['lns']
        return [l, l, l, max(1, l - 1), 1, max(1, l // 2)]
    mx = t['mx']
    return [1, 2, 3, 4, 7, 8, 9, 15, 16, 17, 24, 31, 32, 33, 63, 64, 65, 100, mx, mx - 1, mx // 2]


def gen_script(rng, t, nops=None, faults=False, misuse=False):
    lines = [t['line']]
    nops = nops or rng.randint(20, 120)
    sizes = [s for s in req_sizes(rng, t) if s >= 1]
    arrays_ok = t['pt'] != 'small'
    i = 0
    while i < nops:
        r = rng.random()
        i += 1
        size = rng.choice(sizes)
        if t['kind'] == 'coll':
            size = min(size, t['mx'])
            al = rng.choice([1, al_for(size)])
        else:
            al = rng.choice([1, al_for(t['lns'])])
        if t['kind'] == 'coll' and rng.random() < 0.03:
            # moves in the middle of a history: the collection goes on from where it was
            lines.append(rng.choice(['mv', 'ma fresh', 'ma used']))
            continue
        if t['kind'] == 'coll' and rng.random() < 0.04:
            # memory_pool_collection::reserve(node_size, capacity): whole nodes of the bucket, well inside a block
            # (documented requirement: capacity below next_capacity(); kept below half a block so that fences and padding fit as well)
            b = max(size, 1 if t['pt'] == 'small' else 8); b = 1 << (b - 1).bit_length()
            cap = b * rng.choice([1, 2, 3, 5, 8]) + (32 if t['pt'] == 'small' else 0)
            if cap <= (t['bs'] - 16) // 2:
                lines.append('rs %d %d' % (size, cap))
            continue
        if r < 0.38:
            lines.append('%s %d %d' % (rng.choice(['an', 'an', 'an', 'tn']), size, al))
        elif r < 0.50 and arrays_ok:
            es = rng.choice([size, size, 1, 3, 5, 8, 12])
            if t['kind'] == 'coll':
                es = min(es, t['mx'])
            else:
                es = min(es, t['lns'])
            cnt = rng.choice([1, 2, 3, 3, 4, 5, 7, 10, 17])
            lines.append('%s %d %d %d' % (rng.choice(['aa', 'aa', 'ta']), cnt, es, rng.choice([1, al_for(es)]) if t['kind'] == 'coll' else 1))
        elif r < 0.80:
            lines.append('d %d%s' % (rng.randint(0, 1000), rng.choice(['', '', ' t'])))
        elif r < 0.84:
            # fill to exhaustion of the current memory, then release in some order
            for _ in range(rng.randint(5, 60)):
                lines.append('tn %d %d' % (size, 1))
            lines.append('dall %s' % rng.choice(['fwd', 'rev', 'alt', 'half']))
        elif r < 0.86:
            lines.append('q %d' % size)
        elif r < 0.88:
            # take single nodes until the allocator refuses: everything the capacity figures promise must be obtainable
            lines.append('drain %d' % (t['lns'] if t['kind'] == 'pool' else size))
            lines.append('dall %s' % rng.choice(['fwd', 'rev', 'alt', 'half']))
        elif r < 0.895:
            # a request aligned above what the node size guarantees must be refused (bad_alignment / null), never served misaligned
            lst = t['lns'] if t['kind'] == 'pool' else size
            lines.append('%s %d %d' % (rng.choice(['an', 'tn']), size if t['kind'] == 'coll' else rng.choice(sizes), min(2 * al_for(lst), 32)))
        elif r < 0.91:
            # oversize / over-aligned requests must be refused without touching anything
            big = (t['lns'] + rng.choice([1, 8, 1000])) if t['kind'] == 'pool' else (t['mx'] * 2 + rng.choice([1, 5, 1000]))
            lines.append('%s %d %d' % (rng.choice(['an', 'tn']), big, 1))
        elif r < 0.94 and faults:
            lines.append('fail %d' % rng.randint(1, 2))
        elif r < 0.96:
            lines.append('sweep')
        else:
            lines.append('dall %s' % rng.choice(['fwd', 'rev', 'alt']))
    lines.append('dall %s' % rng.choice(['fwd', 'rev', 'alt']))
    if arrays_ok:
        # plain cycles between two capacity queries, through the throwing and the composable members, with element sizes
        # below the node size of their bucket: what one call takes the matching call gives back
        for _ in range(3):
            es = rng.choice([1, 3, 5, 12, 20]); es = min(es, t['mx'] if t['kind'] == 'coll' else t['lns'])
            cnt = rng.choice([2, 3, 4, 6])
            op = rng.choice(['aa', 'ta'])
            lines += ['q %d' % es, '%s %d %d 1' % (op, cnt, es), 'd 0%s' % (' t' if op == 'ta' else ''), 'q %d' % es]
    if arrays_ok and t['kind'] == 'coll':
        # exactly one node left on a list: an array of one element is a single-node request and must come from the list
        es = rng.choice(sizes)
        lines += ['drain %d' % es, 'd 0', 'q %d' % es, 'aa 1 %d 1' % es, 'dall fwd']
    lines.append('q %d' % sizes[0])
    # one more allocate/release cycle after everything was released: must not grow
    lines.append('an %d 1' % sizes[0])
    lines.append('d 0')
    lines.append('destroy')
    return '\n'.join(lines) + '\n'


def gen_fragment_script(rng):
    """arrays taken from a fragmented free list: fill the pool, release runs of 1..4 neighbouring nodes in varying order,
    take arrays of 2..4 nodes, release everything, then drain the pool node by node (everything promised must be obtainable)"""
    pt = rng.choice(['node', 'array'])
    ns = rng.choice([8, 16, 24, 40])
    k = rng.choice([8, 12, 20, 33])
    src = rng.choice(['grow', 'fixed'])
    t = dict(kind='pool', pt=pt, ns=ns, lns=ns, bs=16 + ns * k, src=src, pos=rng.choice(['low', 'high']))
    t['line'] = 'pool %s %d %d %s %s' % (pt, ns, t['bs'], src, t['pos'])
    lines = [t['line']]
    for cycle in range(rng.randint(2, 4)):
        lines += ['tn %d 1' % ns] * k
        # handles are numbered in allocation order; the selector "d i" releases the i-th live one
        live = list(range(k))
        # runs of neighbouring nodes separated by at least one live node; released longest first and each in descending
        # address order (mostly), so that the list presents short ascending runs before the longer ones
        runs = []
        i = rng.choice([0, 1])
        while i < k:
            ln = rng.choice([1, 2, 2, 3, 3, 4, 5])
            runs.append(list(range(i, min(k, i + ln))))
            i += ln + rng.choice([1, 1, 2])
        if rng.random() < 0.7:
            runs.sort(key=len, reverse=True)
        else:
            rng.shuffle(runs)
        for run in runs:
            order = run[::-1] if rng.random() < 0.8 else run
            for h in order:
                lines.append('d %d' % live.index(h)); live.remove(h)
        for _ in range(rng.randint(1, 3)):
            lines.append('%s %d %d 1' % (rng.choice(['ta', 'ta', 'aa' if src == 'grow' else 'ta']), rng.choice([2, 3, 3, 4, 5]), ns))
        lines.append('dall %s' % rng.choice(['fwd', 'rev', 'alt']))
        lines.append('drain %d' % ns)
        lines.append('dall %s' % rng.choice(['fwd', 'rev', 'alt']))
    lines.append('destroy')
    return t, '\n'.join(lines) + '\n'

def boundary_colls():
    """collections whose first block makes the default capacity (block / number of lists) land on the boundaries of the
    constructor's size check: at the requested maximum, just below / at / above the largest list's node size (which exceeds the
    maximum with log2 buckets) and around node size + chunk header for the small list; growing and constant-size sources"""
    out = []
    for pt, fl, me in (('node', 48, 8), ('array', 48, 8), ('small', 56, 1)):
        for bd, mx in (('log2', 100), ('log2', 33), ('identity', 64), ('identity', 16), ('identity', 8)):
            if bd == 'identity':
                nl, top = max(1, mx - me + 1), max(mx, me)
            else:
                top = max(me, 1 << (mx - 1).bit_length()); nl = top.bit_length() - me.bit_length() + 1
            for c in sorted(set([mx, top - 1, top, top + 31, top + 33, top + 72])):
                if c < fl + 16:          # the first block must hold the list array itself
                    continue
                for src in ('grow', 'const'):
                    bs = 16 + nl * c + (nl // 2)
                    t = dict(kind='coll', pt=pt, bd=bd, mx=mx, bs=bs, src=src, pos='low')
                    t['line'] = 'coll %s %s %d %d %s low' % (pt, bd, mx, bs, src)
                    out.append(t)
    return out


def special_colls():
    """hand-written collection histories for paths the random scripts reach rarely: small-node collections over one fixed / constant
    block drained through the composable members, so that the block's remainder (several chunks of the small list) is handed to a
    pool by insert_rest and later reservations must not touch it again"""
    out = []
    for src in ('fixed', 'const'):
        for mx, bs in ((4, 4096), (2, 2048), (8, 6000)):
            t = dict(kind='coll', pt='small', bd='identity', mx=mx, bs=bs, src=src, pos='low')
            t['line'] = 'coll small identity %d %d %s low' % (mx, bs, src)
            lines = [t['line']] + ['drain %d' % sz for sz in range(1, mx + 1)] + ['sweep'] + ['tn %d 1' % sz for sz in range(1, mx + 1)] + ['sweep', 'dall alt', 'drain 1', 'sweep', 'dall fwd', 'destroy']
            out.append((t, '\n'.join(lines) + '\n'))
    return out
