"""C01 -- live allocations disjoint, inside owned memory, never written by the allocator."""
import os
from vlib import build, runner, smallgen
from checks import poolrun, c07, c06


def run(ctx):
    ctx.regen(); ctx.prove()
    thorough = ctx.tier == 'thorough'
    cfgs = ['base', 'rel', 'chk', 'dbg8', 'dbg16'] if thorough else ['base', 'dbg8', 'rel']
    try:
        rexe = ctx.replay_exe()
    except build.BuildError as e:
        ctx.tie_broken.append('replay driver: ' + str(e)[:300]); rexe = None
    n = 6 if thorough else 1
    cases = poolrun.make_cases(ctx, 40 * n, 40 * n, 20 * n, 45 * n, cfgs)
    # the small free list driven directly, in lock-step with SmallList (chunk order, free chains, both cursors, every address)
    build.warm(cfgs, [('invalid', ['h_invalid.cpp'], dict(extra=['-I', os.path.join(build.REPO, 'src')]))])
    ex_list = {c: build.build_harness('invalid', c, ['h_invalid.cpp'], extra=['-I', os.path.join(build.REPO, 'src')]) for c in cfgs}
    for i in range(20 * n):
        sc = smallgen.gen_small_chunks(ctx.rng, bads=False)
        for c in cfgs:
            cases.append(dict(exe=ex_list[c], script=sc, replay_args=['ordered', 'small'], tag=('list', sc.split('\n')[0], c)))
    res = runner.run_cases(cases, rexe)
    exec_cov = poolrun.exec_lockstep(ctx, res, rexe)
    ops = 0; div = 0; per = {}
    for r in res:
        kind, tgt, c = r['case']['tag']; per[kind] = per.get(kind, 0) + 1
        ops += r['summ'].get('ops', 0)
        mine = r['div'] if kind == 'list' else [d for d in r['div'] if poolrun.concerns(d, 'C01')]
        if r['rc'] != 0:
            ctx.tie_broken.append('harness exit %d on %s in %s' % (r['rc'], tgt, c))
        if mine:
            div += len(mine); ctx.tie_broken.append('correspondence: %s (%s cfg=%s)' % (mine[0][:300], tgt, c))
        if kind in ('pool', 'coll'):
            msgs = poolrun.live_overlap_oracle(r['log'])
        elif kind == 'list':
            msgs = smallgen.live_oracle(r['log'])
        elif kind == 'iter':
            N = int(tgt.split('<')[1].split('>')[0])
            msgs = [m for m in c07.oracle(r['log'], N, 0) if 'overlap' in m or 'outside' in m or 'modified' in m]
        else:
            msgs = [m for m in c06.oracle(r['log'])[0] if 'modified' in m]
            msgs += ['write into memory already returned upstream: ' + l for l in r['log'].split('\n') if l.startswith('end ') and 'stale_writes=' in l and 'stale_writes=0' not in l]
        if r['rc'] != 0:
            msgs.append('crashed (exit status %d) after: %s' % (r['rc'], r['log'].strip().split('\n')[-1][:80]))
        if msgs and len(ctx.violations) < 3:
            ctx.violation('%s:%s/%s' % (kind, tgt, c), 'C01 fails on the implementation: ' + msgs[0],
                          dict(harness='h_%s.cpp' % ('pool' if kind == 'coll' else 'invalid' if kind == 'list' else kind), config=c, script=r['case']['script'].split('\n'), all=msgs[:5]))
    ctx.tie_broken = ctx.tie_broken[:6]
    ctx.cov.update(dict(
        tie=dict(kind='pools/collections: Spec acceptance (ranges handed to the lists must be disjoint and inside held blocks, results must be free nodes); stacks and iteration allocators: Exec lock-step; the real detail::small_free_memory_list driven directly in lock-step with SmallList (chunk order, every free chain, alloc and dealloc cursor, every address returned); live allocations carry content patterns verified at release and in sweeps; memory returned upstream is checked for later writes',
                 configs=cfgs, histories_by_kind=per, histories=len(cases), operations=ops, exec_pool=exec_cov, divergences=div),
        evaluations=len(cases), distinct_nontrivial=len(set(c['script'] for c in cases)),
        rule='seeded histories on memory_pool<node|array|small>, memory_pool_collection (identity/log2), memory_stack, iteration_allocator<1..5> over growing/fixed sources, object placed below and above its memory, with upstream failures; distinct = distinct scripts',
        not_covered_by_this_check=['static_allocator, temporary_allocator, low-level allocators (see C11/C14/C17 for their runs)', 'virtual/static block sources under pools (C05 runs them under arenas)']))
    if res:
        ctx.samples.append(dict(target=res[-1]['case']['tag'], script=res[-1]['case']['script'].split('\n')[:12], log=res[-1]['log'].split('\n')[:10]))
