"""C20 -- exception safety: every helper x every length x every failing index, event lists compared with ExcSafety.create_array."""
import subprocess
from vlib import proc, build


def gen_lines(thorough):
    u = []; j = []
    maxn = 64 if thorough else 16
    for helper in ('array', 'anyarray', 'arraynm', 'anyarraynm'):
        for leaf in ('up', 'pool'):
            for n in range(0, maxn + 1):
                for t in range(-1, n):
                    u.append('u %s %s %d %d' % (helper, leaf, n, t))
    for helper in ('single', 'anysingle', 'shared', 'singlearg', 'anysinglearg', 'sharedarg'):
        for leaf in ('up', 'pool'):
            for t in (-1, 0):
                u.append('u %s %s 1 %d' % (helper, leaf, t))
    # joint: every constructor form, element counts 0..16, failure at every Elem construction index of the case, plus clone/move failures
    for form in ('size', 'value', 'range', 'ilist'):
        for na in ([3] if form == 'ilist' else range(0, maxn + 1)):
            cc = 2 * na if form == 'ilist' else na     # counted constructions of the creation (the initializer list holds copies)
            for t in range(-1, cc):
                j.append('j %s %d 2 %d 1 %d none' % (form, 64 + na * 24, na, t))
            for post in ('clone', 'move'):
                for t in range(cc, cc + na):       # the failing construction is one of the copy / move constructions of the second object
                    j.append('j %s %d 2 %d 1 %d %s' % (form, 64 + na * 24, na, t, post))
    # a joint_array failing inside the object's constructor gives its joint memory back (allocator usable): form x length x failing index
    for form in ('size', 'value', 'range', 'ilist', 'copy', 'move'):
        for n in ([3] if form == 'ilist' else range(1, min(maxn, 16) + 1)):
            cc = 2 * n if form == 'ilist' else n
            for t in range(0, cc):
                j.append('r %s %d 0 %d 0 %d none' % (form, 64 + n * 72, n, t))   # room for the member array (ilist form: three elements), the source of a copy / move and the retried one
    return u, j


def joint_oracle(line):
    lhs, rest = line.split(' =', 1)
    if lhs.startswith('r '):
        kv = dict(x.split('=', 1) for x in rest.replace('|', ' ').split() if '=' in x)
        if kv.get('retry') == 'boom' and kv.get('before') != kv.get('after'):
            return 'a joint_array whose element %s threw kept %d bytes of joint memory (capacity_left %s before the attempt, %s after it)' % (lhs.split()[6], int(kv['before']) - int(kv['after']), kv['before'], kv['after'])
        if kv.get('retry') == 'boom' and kv.get('second') != 'ok':
            return 'after a failed joint_array construction the same request no longer fits (%s)' % kv.get('second')
        lhs = 'j' + lhs[1:]; t0 = lhs.split(); t0[4] = '0'; t0[6] = '-1'; lhs = ' '.join(t0)
    t = lhs.split(); thr = int(t[6]); na = int(t[4]); post = t[7]
    cc = 2 * na if t[1] == 'ilist' else na
    toks = rest.replace('|', ' ').split()
    kv = {}
    for x in toks:
        if '=' in x:
            a, b = x.split('=', 1); kv[a] = b
    if kv.get('constructed') != kv.get('destroyed'):
        return 'constructed %s elements but destroyed %s' % (kv.get('constructed'), kv.get('destroyed'))
    if kv.get('double') != '0' or kv.get('live') != '0':
        return 'an element was destroyed twice or not at all (double=%s live=%s)' % (kv.get('double'), kv.get('live'))
    if kv.get('usable') != '1':
        return 'allocator unusable afterwards'
    ups = [(toks[i + 1], toks[i + 2], toks[i + 3]) for i, x in enumerate(toks) if x == 'U+']
    downs = [(toks[i + 1], toks[i + 2], toks[i + 3]) for i, x in enumerate(toks) if x == 'U-']
    if sorted(ups) != sorted(downs):
        return 'memory obtained %s but released %s' % (ups, downs)
    if 0 <= thr < cc and 'ctor=throw:boom' not in toks:
        return 'the exception thrown by element %d did not propagate out of the creation' % thr
    if thr >= cc and post in ('clone', 'move') and thr < cc + na and not any(x.startswith('clone=throw:boom') for x in toks):
        return 'the exception thrown while copying/moving element %d did not propagate' % (thr - cc)
    return None


def run(ctx):
    ctx.regen(); ctx.prove()
    thorough = ctx.tier == 'thorough'
    try:
        rexe = ctx.replay_exe()
    except build.BuildError as e:
        ctx.tie_broken.append('replay driver: ' + str(e)[:300]); rexe = None
    u, j = gen_lines(thorough)
    tot = {}; nj = 0
    for c in ['base', 'dbg8']:
        exe = build.build_harness('exc', c, ['h_exc.cpp'])
        out = proc.run([exe], input='\n'.join(u) + '\n', timeout=300)
        if out.returncode != 0:
            ctx.tie_broken.append('exception harness exit %d in %s: %s' % (out.returncode, c, out.stderr[-200:]))
            done = len([l for l in out.stdout.split('\n') if l.startswith('u ')])
            if len(ctx.violations) < 3 and done < len(u):
                ctx.violation('crash:%s/%s' % (u[done], c), 'C20 fails on the implementation: crash (exit %d) in case "%s"' % (out.returncode, u[done]), dict(harness='h_exc.cpp', config=c, input=u[done]))
        if rexe:
            rr = subprocess.run([rexe, 'exc'], input=out.stdout, stdout=subprocess.PIPE, text=True).stdout
            for ln in rr.split('\n'):
                if ln.startswith('SUMMARY'):
                    for kv in ln.split()[1:]:
                        k, v = kv.split('='); tot[k] = tot.get(k, 0) + int(v)
                elif ln.startswith('DIVERGE'):
                    ctx.tie_broken.append('correspondence (%s): %s' % (c, ln[:300]))
                    # a divergence of the event list from the model is itself a concrete failing case of the property
                    if len(ctx.violations) < 3:
                        case = ln.split('::')[1].split('=')[0].strip()
                        ctx.violation('%s/%s' % (case, c), 'C20 fails on the implementation: %s' % ln[8:260], dict(harness='h_exc.cpp', config=c, input=case))
        exj = build.build_harness('joint', c, ['h_joint.cpp'])
        outj = proc.run([exj], input='\n'.join(j) + '\n', timeout=300)
        if outj.returncode != 0:
            ctx.tie_broken.append('joint harness exit %d in %s' % (outj.returncode, c))
            done = len([l for l in outj.stdout.split('\n') if l.startswith(('j ', 'r '))])
            if len(ctx.violations) < 3 and done < len(j):
                ctx.violation('crash:%s/%s' % (j[done], c), 'C20 fails on the implementation: crash (exit %d) in case "%s"' % (outj.returncode, j[done]), dict(harness='h_joint.cpp', config=c, input=j[done]))
        if rexe:
            rr = subprocess.run([rexe, 'exc'], input=outj.stdout, stdout=subprocess.PIPE, text=True).stdout
            for ln in rr.split('\n'):
                if ln.startswith('SUMMARY'):
                    for kv in ln.split()[1:]:
                        k, v = kv.split('=')
                        if k in ('diverged', 'joint_event_lists'):
                            tot[k] = tot.get(k, 0) + int(v)
                elif ln.startswith('DIVERGE'):
                    ctx.tie_broken.append('correspondence (joint, %s): %s' % (c, ln[:300]))
                    if len(ctx.violations) < 3:
                        case = ln.split('::')[1].split(' =')[0].strip()
                        ctx.violation('%s/%s' % (case, c), 'C20 fails on the implementation: the events of the joint helper differ from the model: %s' % ln[8:300], dict(harness='h_joint.cpp', config=c, input=case))
        for ln in outj.stdout.split('\n'):
            if ln.startswith(('j ', 'r ')) and ' =' in ln:
                nj += 1
                why = joint_oracle(ln)
                if why and len(ctx.violations) < 3:
                    ctx.violation('%s/%s' % (ln.split(' =')[0], c), 'C20 fails on the implementation: %s (%s)' % (why, ln.split(' =')[0]), dict(harness='h_joint.cpp', config=c, input=ln.split(' =')[0], output=ln))
    ctx.tie_broken = ctx.tie_broken[:6]
    ctx.cov.update(dict(
        tie=dict(kind='event list (allocation, per-element construction/destruction by index, release, propagated exception) of allocate_unique<T>, allocate_unique<T[]> (plain and any_allocator), allocate_shared on an instrumented leaf and on a real pool/stack must equal ExcSafety.create_array; joint_ptr creation with the size / value / range joint_array constructors, clone_joint and move-with-allocator: the event list (node obtained, element ids built, throw, element ids destroyed, node given back) must equal JointExc.jx_case; the initializer-list form and failures caught inside the object\'s constructor are checked by counters (constructed = destroyed, none twice, memory balanced, joint memory given back, exception propagated, allocator usable)',
                 configs=['base', 'dbg8'], helper_cases=tot.get('total', 0), throwing_cases=tot.get('throwing_cases', 0), joint_cases=nj, joint_event_lists=tot.get('joint_event_lists', 0), divergences=tot.get('diverged', 0),
                 exhaustive_over='lengths 0..%d x every failing index' % (64 if thorough else 16)),
        evaluations=tot.get('total', 0) + nj, distinct_nontrivial=len(set(u)) + len(set(j)), exhaustive=True,
        rule='complete enumeration: array lengths 0..16 (thorough 0..64) x failing index -1 (none) and 0..n-1 for each helper and leaf; joint arrays: each constructor form x element count x failing index, and failures inside the copy/move constructions of clone and move; distinct = distinct case lines'))
    ctx.samples += u[40:42] + j[20:22]
