"""shared driver: pools, collections (+ stacks, iteration allocators) through their harnesses and replays"""
import re
from vlib import build, runner
from checks import poolgen, stackgen

SCFG = {'rel': (0, 0), 'base': (0, 1), 'chk': (0, 1), 'dbg8': (8, 1), 'dbg16': (16, 1), 'fen8': (8, 1)}

# divergence message -> properties it concerns
CLASSES = [
    (r'capacity_left|pool_capacity_left|next_capacity|grew \(upstream|does not hold that many', {'C04', 'C18'}),
    (r'inserted range|not a run of nodes|overlaps|implementation-side oracle :: corrupt|write into memory|stale', {'C01'}),
    (r'not aligned', {'C02'}),
    (r'throwing function returned null|try_ function threw|try_ function called|handler not called|exception |oversize request|above max_node_size|must raise', {'C03'}),
    (r'nofill', {'C17'}),
    (r'blocks not returned|block returned upstream|never returned|constructor threw', {'C05'}),
    (r'model rejects the release|refused the allocator', {'C04', 'C08'}),
    (r'model address|model serves|model returns null|model throws|marker|upstream calls differ', {'C01', 'C02', 'C03'}),
]


def concerns(div_line, pid):
    for pat, props in CLASSES:
        if re.search(pat, div_line):
            return pid in props
    return True


def build_all(cfgs):
    build.warm(cfgs, [('pool', ['h_pool.cpp'], {}), ('stack', ['h_stack.cpp'], {}), ('iter', ['h_iter.cpp'], {})])
    return ({c: build.build_harness('pool', c, ['h_pool.cpp']) for c in cfgs},
            {c: build.build_harness('stack', c, ['h_stack.cpp']) for c in cfgs},
            {c: build.build_harness('iter', c, ['h_iter.cpp']) for c in cfgs})


def corpus_cases(exes, cfgs):
    import os, glob
    out = []
    for p in sorted(glob.glob(os.path.join(build.VERIF, 'corpus', 'pool', '*.txt'))):
        sc = open(p).read()
        for c in cfgs:
            out.append(dict(exe=exes[c], script=sc, replay_args=['pool'], tag=('pool', 'corpus:' + os.path.basename(p), c)))
    return out


def make_cases(ctx, n_pool, n_coll, n_stack, n_iter, cfgs, faults=True):
    rng = ctx.rng
    ex_pool, ex_stack, ex_iter = build_all(cfgs)
    cases = corpus_cases(ex_pool, cfgs)
    for kind, n in (('pool', n_pool), ('coll', n_coll)):
        for i in range(n):
            t = poolgen.gen_target(rng, kind)
            sc = poolgen.gen_script(rng, t, faults=faults and i % 3 == 0)
            for c in cfgs:
                cases.append(dict(exe=ex_pool[c], script=sc, replay_args=['pool'], tag=(kind, t['line'], c)))
    if n_coll:
        import random as _random
        for k, t in enumerate(poolgen.boundary_colls()):
            sc = poolgen.gen_script(_random.Random(1000 + k), t, nops=10)
            for c in cfgs:
                cases.append(dict(exe=ex_pool[c], script=sc, replay_args=['pool'], tag=('coll', t['line'] + ' (boundary)', c)))
    if n_coll:
        for t, sc in poolgen.special_colls():
            for c in cfgs:
                cases.append(dict(exe=ex_pool[c], script=sc, replay_args=['pool'], tag=('coll', t['line'] + ' (drained)', c)))
    for i in range(n_pool // 2):
        t, sc = poolgen.gen_fragment_script(rng)
        for c in cfgs:
            cases.append(dict(exe=ex_pool[c], script=sc, replay_args=['pool'], tag=('pool', t['line'] + ' (fragmented arrays)', c)))
    for i in range(n_stack):
        sc = stackgen.gen_script(rng, faults=faults and i % 3 == 0)
        for c in cfgs:
            cases.append(dict(exe=ex_stack[c], script=sc, replay_args=['stack', str(SCFG[c][0])], tag=('stack', sc.split('\n')[0], c)))
    from checks import c07
    for i in range(n_iter):
        N = rng.randint(1, 5); bs = rng.choice([100, 1025, 777, 4097, 64 * N + 3])
        sc = c07.gen_script(rng, N, bs)
        for c in cfgs:
            cases.append(dict(exe=ex_iter[c], script=sc, replay_args=['iter', str(SCFG[c][0]), str(SCFG[c][1])], tag=('iter', 'iteration_allocator<%d>(%d)' % (N, bs), c)))
    return cases


def live_overlap_oracle(log):
    """C01 on a pool/collection log: results are disjoint from everything live, inside upstream blocks, content intact"""
    msgs = []
    live = {}      # handle -> (off, bytes)
    blocks = []    # (off, size)
    for ln in log.split('\n'):
        parts = ln.split('|')
        if len(parts) < 2:
            if ln.startswith('corrupt'):
                msgs.append('the allocator wrote into a live allocation: ' + ln)
            if ln.startswith('end ') and 'stale_writes=' in ln and 'stale_writes=0' not in ln:
                msgs.append('write into memory already returned upstream: ' + ln)
            continue
        t = parts[1].split(); i = 0
        while i < len(t):
            if t[i] == 'U+' and t[i + 3] != 'fail':
                blocks.append((int(t[i + 3]), int(t[i + 1]))); i += 4
            elif t[i] == 'U-':
                b = (int(t[i + 3]), int(t[i + 1]))
                if b in blocks:
                    blocks.remove(b)
                i += 4
            else:
                i += 1
        head = parts[0]
        if '=' not in head:
            continue
        lhs, rhs = [x.strip().split() for x in head.split('=', 1)]
        if not lhs:
            continue
        if lhs[0] in ('an', 'tn', 'aa', 'ta') and rhs[:1] == ['ok']:
            off = int(rhs[1]); h = rhs[2]
            nbytes = int(lhs[1]) * int(lhs[2]) if lhs[0] in ('aa', 'ta') else int(lhs[1])
            for h2, (o2, b2) in live.items():
                if off < o2 + b2 and o2 < off + nbytes:
                    msgs.append('%s at [%d,+%d) overlaps live allocation %s [%d,+%d)' % (' '.join(lhs), off, nbytes, h2, o2, b2))
                    break
            if not any(bo + 16 <= off and off + nbytes <= bo + bs for bo, bs in blocks):
                msgs.append('%s at [%d,+%d) is not inside the usable part of any upstream block held' % (' '.join(lhs), off, nbytes))
            live[h] = (off, nbytes)
        elif lhs[0] in ('dn', 'da', 'tdn', 'tda') and rhs[:1] == ['true']:
            live.pop('h' + lhs[1], None)
        elif lhs[0] == 'destroy':
            live.clear()
    return msgs


def exec_lockstep(ctx, res, rexe):
    """memory_pool logs replayed through the Exec pool models (arena + list; every address, every upstream request, every
    range handed to the list): node_pool without the double-free check -> PoolExec (intrusive list), array_pool and node_pool
    with the check -> OrderedPoolExec (address-ordered list), small_node_pool -> SmallPoolExec (chunked list);
    memory_pool_collection<node_pool|array_pool> -> CollExec over the intrusive / address-ordered list"""
    import subprocess
    steps = 0; div = 0; n = 0; per = {}
    if not rexe:
        return dict(exec_pool_logs=0, exec_pool_steps=0, exec_pool_divergences=0)
    for r in res:
        kind, tgt, c = r['case']['tag']
        head = str(r['case']['script']).split('\n')[0]
        if kind not in ('pool', 'coll'):
            continue
        dbl = bool(build.CONFIGS[c]['DBL'])
        if head.startswith('pool small '):
            topic = ['small']
        elif head.startswith('pool array ') or (head.startswith('pool node ') and dbl):
            topic = ['ordered', '1' if dbl else '0']
        elif head.startswith('pool node '):
            topic = ['0']
        elif head.startswith('coll node ') or head.startswith('coll array ') or head.startswith('coll small '):
            topic = ['coll', '1' if dbl else '0', str(build.CONFIGS[c]['FENCE'])]
        else:
            continue
        n += 1
        out = subprocess.run([rexe, 'poolexec'] + topic, input=r['log'], stdout=subprocess.PIPE, text=True).stdout
        for ln in out.split('\n'):
            if ln.startswith('SUMMARY'):
                kv = dict(x.split('=') for x in ln.split()[1:])
                steps += int(kv.get('exec_steps', 0))
                per[topic[0]] = per.get(topic[0], 0) + int(kv.get('exec_steps', 0))
            elif ln.startswith('DIVERGE'):
                div += 1
                if div <= 3:
                    ctx.tie_broken.append('correspondence (Exec pool): %s (%s cfg=%s)' % (ln[:300], tgt, c))
    return dict(exec_pool_logs=n, exec_pool_steps=steps, exec_pool_divergences=div, exec_pool_steps_intrusive=per.get('0', 0),
                exec_pool_steps_ordered=per.get('ordered', 0), exec_pool_steps_small=per.get('small', 0), exec_pool_steps_collection=per.get('coll', 0))
