"""C03 -- failure is signalled: fault injection at upstream calls, oversize requests, exhausted fixed sources."""
import subprocess
from vlib import build, runner, proc
from checks import poolrun, poolgen, stackgen


def oracle(log):
    msgs = []
    for ln in log.split('\n'):
        parts = ln.split('|')
        head = parts[0]
        if '=' not in head:
            continue
        lhs, rhs = [x.strip().split() for x in head.split('=', 1)]
        if not lhs or not rhs:
            continue
        op = lhs[0]
        throwing = op in ('an', 'aa', 'a', 'ab')
        trying = op in ('tn', 'ta', 't')
        if throwing and rhs[0] == 'null':
            msgs.append('throwing function returned null: ' + head.strip())
        if throwing and rhs[0] == 'ok' and len(rhs) > 1 and rhs[1] == '0':
            msgs.append('throwing function returned a null address: ' + head.strip())
        if trying and rhs[0] == 'throw':
            msgs.append('try_ function threw: ' + head.strip())
        if trying and len(parts) > 1 and 'U+' in parts[1]:
            msgs.append('try_ function called the upstream source: ' + ln.strip())
        if rhs[0] == 'throw':
            cls = rhs[1]
            kv = dict(x.split('=') for x in rhs[2:] if '=' in x)
            if cls in ('other', 'other_std'):
                msgs.append('exception outside the std::bad_alloc family: ' + head.strip())
            if cls in ('oom', 'oofm') and kv.get('oom') not in (None, '1'):
                msgs.append('out_of_memory handler called %s times: %s' % (kv.get('oom'), head.strip()))
            if cls.startswith('bad_') and cls != 'bad_alloc' and kv.get('bad') not in (None, '1'):
                msgs.append('bad_allocation_size handler called %s times: %s' % (kv.get('bad'), head.strip()))
    return msgs


def gen_arena_faults(rng):
    """block-level histories on arenas over growing and fixed sources: upstream failures at arbitrary positions, then retries"""
    src = rng.choice(['fixed', 'fixed', 'grow', 'static', 'virtual'])
    cached = rng.choice(['cached', 'uncached'])
    bs = rng.choice([64, 256, 1000, 4096])
    if src in ('static', 'virtual'):
        # sources with a fixed number of equal blocks: run them dry (also more than once), give blocks back, take them again
        bs = rng.choice([1024, 2048, 4096]) if src == 'static' else rng.choice([4096, 8192])
        nb = 16384 // bs if src == 'static' else rng.randint(1, 4)
        lines = ['arena %s %s %d %d' % (cached, src, bs, nb)]
        for _ in range(rng.randint(2, 4)):
            lines += ['ab'] * (nb + rng.randint(1, 2))
            lines += ['db'] * rng.randint(1, nb)
            if rng.random() < 0.5:
                lines.append('shrink')
            lines += ['ab'] * rng.randint(1, 2)
            lines += ['db'] * nb + ['shrink', 'q']
        lines.append('destroy')
        return '\n'.join(lines) + '\n'
    lines = ['arena %s %s %d 0' % (cached, src, bs)]
    nab = 0
    for _ in range(rng.randint(8, 40)):
        r = rng.random()
        if r < 0.35:
            if src == 'grow' and nab >= 10:
                lines.append('db'); continue
            lines.append('ab'); nab += 1
        elif r < 0.6:
            lines.append('db')
        elif r < 0.75:
            lines.append('shrink')
        elif r < 0.9:
            lines.append('fail 1'); lines.append('ab'); lines.append('ab'); nab += 1
        else:
            lines.append('q')
    lines.append('destroy')
    return '\n'.join(lines) + '\n'


def arena_oracle(log):
    """a refused block request leaves the arena as it was and able to serve the next request"""
    msgs = []
    prev = None; fixed = False; nb = 0
    for ln in log.split('\n'):
        parts = [x.strip() for x in ln.split('|')]
        if len(parts) < 3:
            continue
        if parts[0].startswith('arena '):
            fixed = ' fixed ' in parts[0]
            h = parts[0].split()
            nb = int(h[4]) if len(h) > 4 and h[2] in ('static', 'virtual') else 0
        st = dict(x.split('=') for x in parts[2].split() if '=' in x)
        lhs, rhs = [x.strip() for x in parts[0].split('=', 1)]
        if lhs == 'ab' and rhs.startswith('throw'):
            if prev is not None and st != prev:
                msgs.append('a refused allocate_block changed the arena: %s -> %s' % (prev, st))
            injected = 'fail' in parts[1] and nb == 0      # sources with a fixed number of blocks log their own refusals as failures
            held = int(prev.get('size', 0)) + int(prev.get('cache', 0)) if prev is not None else 0
            if not injected and prev is not None and not (fixed and held >= 1) and not (nb and held >= nb):
                msgs.append('allocate_block refused (%s) although the source can deliver a block: state %s' % (rhs, prev))
        prev = st
    return msgs


def run(ctx):
    ctx.regen(); ctx.prove()
    thorough = ctx.tier == 'thorough'
    rng = ctx.rng
    cfgs = ['base', 'rel', 'dbg8', 'fen8'] if thorough else ['base', 'dbg8', 'fen8']
    try:
        rexe = ctx.replay_exe()
    except build.BuildError as e:
        ctx.tie_broken.append('replay driver: ' + str(e)[:300]); rexe = None
    n = 6 if thorough else 1
    cases = poolrun.make_cases(ctx, 30 * n, 40 * n, 25 * n, 10 * n, cfgs, faults=True)
    ex_pool = poolrun.build_all(cfgs)[0]
    # exhaustion of fixed sources through both interfaces, then continued use
    for i in range(20 * n):
        t = poolgen.gen_target(rng)
        t['line'] = t['line'].replace(' grow ', ' fixed ')
        size = t['lns'] if t['kind'] == 'pool' else rng.choice([8, 16, t['mx']])
        lines = [t['line']] + ['%s %d 1' % (rng.choice(['an', 'tn', 'tn']), size) for _ in range(rng.randint(20, 400))]
        lines += ['dall half', 'tn %d 1' % size, 'an %d 1' % size, 'dall rev', 'an %d 1' % size, 'destroy']
        for c in cfgs:
            cases.append(dict(exe=ex_pool[c], script='\n'.join(lines) + '\n', replay_args=['pool'], tag=('exhaust', t['line'], c)))
    # array requests just below / at / above what the next block can hold (size checks must account for fences and padding)
    for i in range(12 * n):
        bd = rng.choice(['identity', 'log2']); pt = rng.choice(['array', 'array', 'node']); mx = rng.choice([16, 32, 64]); bs = rng.choice([1024, 2048, 4096])
        es = rng.choice([8, 16, mx, 5, 12]); es = min(es, mx)
        nlists = (mx - 8 + 1) if bd == 'identity' else 10
        bs = max(bs, (16 + nlists * 64 * 3 + 1023) // 1024 * 1024)     # the first block must hold the free-list array
        lines = ['coll %s %s %d %d grow low' % (pt, bd, mx, bs)]
        nextcap = 2 * bs - 16
        for d in rng.sample([0, 1, 7, 8, 15, 16, 17, 23, 24, 31, 32, 33, 40, 47, 48, 56, 64, 80, -8, -16], 6):
            cnt = max(1, (nextcap - d) // es)
            lines.append('aa %d %d 1' % (cnt, es)); lines.append('d 0'); nextcap = nextcap  # next_capacity moves on growth; later requests probe other distances
        lines += ['an %d 1' % es, 'dall fwd', 'destroy']
        for c in cfgs:
            cases.append(dict(exe=ex_pool[c], script='\n'.join(lines) + '\n', replay_args=['pool'], tag=('edge', lines[0], c)))
    build.warm(cfgs, [('arena', ['h_arena.cpp'], {})])
    ex_arena = {c: build.build_harness('arena', c, ['h_arena.cpp']) for c in cfgs}
    for i in range(20 * n):
        sc = gen_arena_faults(rng)
        for c in cfgs:
            cases.append(dict(exe=ex_arena[c], script=sc, replay_args=['arena'], tag=('arena', sc.split('\n')[0], c)))
    # new_allocator when operator new refuses: every chain of new_handlers (throwing, uninstalling itself, installing the next
    # one, making memory available) ends in a pointer or in out_of_memory -- never in null, never in a loop
    nl_lines = []
    tables = [(-1, ''), (0, 't'), (0, 'u'), (0, 'f'), (1, 'u,i0'), (1, 't,i0'), (1, 'f,i0'), (2, 'u,i0,i1'), (3, 't,u,f,i1'), (4, 'u,i0,i1,i2,i3'), (2, 'f,f,i0')]
    for _ in range(20 if thorough else 6):
        k = rng.randint(1, 6); tb = []
        for h in range(k + 1):
            tb.append(rng.choice(['t', 'u', 'f'] + (['i%d' % rng.randint(0, h - 1)] * 3 if h else [])))
        tables.append((k, ','.join(tb)))
    for c in cfgs[:2]:
        exn = build.build_harness('newfail', c, ['h_newfail.cpp'])
        for first, tb in tables:
            o = proc.run([exn, str(first), tb], timeout=30)
            ln = (o.stdout.strip().split('\n') or [''])[-1]
            why = None
            if o.returncode != 0 or not ln.startswith('newfail = '):
                why = 'new_allocator did not come back from a refused request (exit status %s, %s)' % (o.returncode, ln or 'no answer: the retry loop keeps calling a handler')
            else:
                t = ln.split()
                kvs = dict(x.split('=') for x in t[3:] if '=' in x)
                if t[2] not in ('ok', 'oom'):
                    why = 'a refused request ended as "%s" instead of a pointer or out_of_memory' % t[2]
                elif t[2] == 'oom' and kvs.get('oom') != '1':
                    why = 'out_of_memory thrown but its handler was called %s times' % kvs.get('oom')
                elif kvs.get('intact') != '1' or kvs.get('later') != 'ok':
                    why = 'after the failure: earlier allocation intact=%s, later request %s' % (kvs.get('intact'), kvs.get('later'))
                nl_lines.append('n %d %s %s' % (first, tb or 't', ln[len('newfail '):]))
            if why and len(ctx.violations) < 3:
                ctx.violation('newfail/%d/%s/%s' % (first, tb, c), 'C03 fails on the implementation: ' + why + ' (first handler %d, handler table "%s")' % (first, tb), dict(harness='h_newfail.cpp', config=c, args=[str(first), tb], output=o.stdout[-300:]))
    if rexe and nl_lines:
        rr = subprocess.run([rexe, 'lowlevel', 'newloop'], input='\n'.join(nl_lines) + '\n', stdout=subprocess.PIPE, text=True).stdout
        for ln in rr.split('\n'):
            if ln.startswith('DIVERGE'):
                ctx.tie_broken.append('correspondence (new_handler loop): ' + ln[:300])
    res = runner.run_cases(cases, rexe)
    exec_cov = poolrun.exec_lockstep(ctx, res, rexe)
    ops = 0; div = 0; per = {}; throws = 0; nulls = 0; injected = 0
    for r in res:
        kind, tgt, c = r['case']['tag']; per[kind] = per.get(kind, 0) + 1
        ops += r['summ'].get('ops', 0)
        throws += r['log'].count('= throw '); nulls += r['log'].count('= null'); injected += r['log'].count(' fail |') + r['log'].count(' fail U')
        mine = [d for d in r['div'] if poolrun.concerns(d, 'C03')]
        if r['rc'] != 0:
            ctx.tie_broken.append('harness exit %d on %s in %s' % (r['rc'], tgt, c))
        if mine:
            div += len(mine); ctx.tie_broken.append('correspondence: %s (%s cfg=%s)' % (mine[0][:300], tgt, c))
        msgs = oracle(r['log'])
        if kind == 'arena':
            msgs += arena_oracle(r['log'])
        if r['rc'] != 0:
            msgs.append('crashed instead of signalling a failure (exit status %d) after: %s' % (r['rc'], r['log'].strip().split('\n')[-1][:80]))
        if msgs and len(ctx.violations) < 3:
            ctx.violation('%s:%s/%s' % (kind, tgt, c), 'C03 fails on the implementation: ' + msgs[0],
                          dict(harness='h_%s.cpp' % ('pool' if kind in ('coll', 'exhaust', 'edge') else kind), config=c, script=r['case']['script'].split('\n')[:80], all=msgs[:5]))
    ctx.tie_broken = ctx.tie_broken[:6]
    ctx.cov.update(dict(
        tie=dict(kind='logs replayed against the models with the k-th upstream call failing; exception class, handler invocation count, null/throw discipline and the state after every refused request are compared; histories continue after failures',
                 configs=cfgs, histories_by_kind=per, histories=len(cases), operations=ops, exec_pool=exec_cov, exceptions_observed=throws, nulls_observed=nulls, upstream_failures_injected=injected, divergences=div),
        evaluations=len(cases), distinct_nontrivial=len(set(c['script'] for c in cases)),
        rule='seeded histories with injected upstream failures, oversize and over-aligned requests, fixed sources driven to exhaustion through throwing and composable interfaces and used again after release; distinct = distinct scripts'))
    if res:
        ctx.samples.append(dict(target=res[-1]['case']['tag'], script=res[-1]['case']['script'].split('\n')[:12], log=res[-1]['log'].split('\n')[:10]))
