"""script generator for the memory_stack harness (h_stack.cpp)"""


def gen_script(rng, faults=False, fixed=None, nops=None, shrink=True):
    bs = rng.choice([64, 100, 256, 256, 1024, 4096])
    src = 'fixed' if (fixed if fixed is not None else rng.random() < 0.2) else 'grow'
    lines = ['stack %d %s%s' % (bs, src, rng.choice(['', '', ' down']))]     # down: the upstream hands out falling addresses
    nops = nops or rng.randint(15, 90)
    depth = 0          # markers currently valid (nested)
    recorded = []      # requests since marker 0 that are still in effect, for replay equality
    reclen = []        # len(recorded) when each valid marker was taken
    clean = True       # no shrink_to_fit / injected failure since marker 0 was taken
    for _ in range(nops):
        r = rng.random()
        if r < 0.50:
            al = rng.choice([1, 1, 2, 4, 8, 8, 16, 16, 32, 64, 256, 4096])
            size = rng.choice([0, 1, 3, 8, 16, 17, 24, 40, 64, 100, bs // 3, bs // 2, bs - 16, bs, 2 * bs, 3 * bs + 1])
            ln = '%s %d %d' % (rng.choice(['a', 'a', 'a', 't']), size, al)
            lines.append(ln)
            if depth:
                recorded.append(ln)
        elif r < 0.66:
            lines.append('top'); depth += 1; reclen.append(len(recorded))
        elif r < 0.82 and depth:
            k = rng.randint(0, depth - 1)
            if k == 0 and recorded and clean and rng.random() < 0.8:
                # replay equality: unwind, issue again the requests that were in effect, (then unwind again)
                lines.append('unwind 0')
                lines.append('#replay-begin')
                lines += recorded
                lines.append('#replay-end')
            lines.append('unwind %d' % k)
            depth = k + 1
            recorded = recorded[:reclen[k]]; reclen = reclen[:k + 1]
        elif r < 0.835 and depth >= 2:
            # unwind guards (memory_stack_raii_unwind): the inner one is move-assigned from the outer one
            k1 = rng.randint(0, depth - 2); k2 = rng.randint(k1 + 1, depth - 1)
            lines.append('raii %d %d' % (k1, k2 - k1 - 1))
            depth = k1 + 1
            recorded = recorded[:reclen[k1]]; reclen = reclen[:k1 + 1]
        elif r < 0.845:
            # a moved-from unwind guard dies before its target, allocations in between (harness expands it to top / a / a / unwind)
            lines.append('raii2'); depth += 1; reclen.append(len(recorded))
        elif r < 0.86 and shrink:
            lines.append('shrink'); clean = False
        elif r < 0.92:
            lines.append('q')
        elif r < 0.95 and faults:
            lines.append('fail %d' % rng.randint(1, 2)); clean = False
        elif r < 0.97:
            lines.append('mv')
        else:
            lines.append('q')
    if depth:
        lines.append('unwind 0')
    lines.append('q')
    lines.append('destroy')
    return '\n'.join(lines) + '\n'
