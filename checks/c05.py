"""C05 -- upstream blocks: Exec lock-step of memory_arena<> against Arena.astep, plus the bracket oracle on the
upstream log of every arena-based allocator (stack, pools, collections, iteration) with injected upstream failures."""
from vlib import build, runner
from checks import stackgen, poolgen

SCFG = {'rel': 0, 'base': 0, 'dbg8': 8, 'dbg16': 16}


def gen_arena(rng, faults):
    src = rng.choice(['grow', 'grow', 'fixed', 'static', 'virtual'])
    cached = rng.choice(['cached', 'uncached'])
    if src == 'static':
        bs = rng.choice([1024, 2048, 4096]); nb = 16384 // bs
    elif src == 'virtual':
        bs = rng.choice([4096, 8192]); nb = rng.randint(1, 5)
    else:
        bs = rng.choice([64, 256, 1000, 4096]); nb = 0
    lines = ['arena %s %s %d %d' % (cached, src, bs, nb)]
    n = rng.randint(10, 60)
    nab = 0
    for _ in range(n):
        r = rng.random()
        if r < 0.45:
            if src == 'grow' and nab >= 11:   # the growing source doubles its block size on every upstream call
                lines.append('db'); continue
            lines.append('ab'); nab += 1
        elif r < 0.75:
            lines.append('db')
        elif r < 0.82:
            lines.append('shrink')
        elif r < 0.88:
            lines.append('q')
        elif r < 0.92:
            lines.append('owns %d' % rng.choice([65536, 65584, 65600, 66000, 70000, 65568 + bs - 1, 65568 + bs]))
        elif r < 0.96 and faults and src in ('grow', 'fixed', 'virtual'):
            lines.append('fail %d' % rng.randint(1, 2))     # the k-th next upstream call (virtual source: the k-th next commit) fails
        elif r < 0.98 and src in ('grow', 'fixed'):
            lines.append('mfb')         # move assignment from a busy arena over a second, distinguishable source
            if src == 'grow':
                nab += 2
        else:
            lines.append('mv')
            if rng.random() < 0.5:
                lines.append('mfa')     # a fresh arena assigned into the moved-from one
    lines.append('destroy')
    return '\n'.join(lines) + '\n'


def bracket_oracle(log):
    """the upstream log of one run: well-bracketed, same (address,size,alignment), balanced at exit"""
    msgs = []
    held = []
    stats = dict(up=0, down=0, failed=0)
    cache = 0
    for ln in log.split('\n'):
        parts = ln.split('|')
        if len(parts) < 2:
            if ln.startswith('end ') and ('live_blocks=0' not in ln or 'errors=0' not in ln or ('stale_writes=' in ln and 'stale_writes=0' not in ln)):
                msgs.append('upstream balance at exit: ' + ln)
            continue
        t = parts[1].split()
        had_cache = cache
        i = 0
        # a move assignment from an arena over a second source: that arena's blocks form a new bracket sequence, the
        # target's old blocks are all returned (to the old source, in order) during the assignment
        mfb = parts[0].split()[:1] == ['mfb'] and 'skipped' not in parts[0]
        held2 = []
        while i < len(t):
            if t[i] == 'U+':
                if t[i + 3] == 'fail':
                    stats['failed'] += 1
                elif mfb:
                    held2.append((int(t[i + 3]), int(t[i + 1]), int(t[i + 2]))); stats['up'] += 1
                else:
                    held.append((int(t[i + 3]), int(t[i + 1]), int(t[i + 2]))); stats['up'] += 1
                    if had_cache > 0 and parts[0].split()[:1] == ['ab']:
                        msgs.append('a new block was requested while %d cached block(s) were available: %s' % (had_cache, ln))
                i += 4
            elif t[i] == 'U-':
                b = (int(t[i + 3]), int(t[i + 1]), int(t[i + 2])); stats['down'] += 1
                if mfb and held2 and held2[-1] == b:
                    held2.pop()
                elif not held:
                    msgs.append('block %s returned but nothing is held' % (b,))
                elif held[-1] != b:
                    if b in held:
                        msgs.append('block %s returned out of order (newest held is %s)' % (b, held[-1])); held.remove(b)
                    else:
                        msgs.append('block %s returned with different address/size/alignment or twice (newest held %s)' % (b, held[-1]))
                else:
                    held.pop()
                i += 4
            else:
                i += 1
        if mfb:
            if held:
                msgs.append('move assignment: %d block(s) of the target were not returned to its source: %s' % (len(held), held[:3]))
            held = held2
        if len(parts) > 2 and 'cache=' in parts[2]:
            cache = int(parts[2].split('cache=')[1].split()[0])
    if held:
        msgs.append('%d block(s) never returned: %s' % (len(held), held[:3]))
    return msgs, stats


def run(ctx):
    ctx.regen()
    ctx.prove()
    thorough = ctx.tier == 'thorough'
    rng = ctx.rng
    cfgs = ['base', 'dbg8', 'rel'] if not thorough else ['base', 'rel', 'dbg8', 'dbg16']
    try:
        rexe = ctx.replay_exe()
    except build.BuildError as e:
        ctx.tie_broken.append('replay driver: ' + str(e)[:300]); rexe = None
    cases = []
    build.warm(cfgs, [('arena', ['h_arena.cpp'], {}), ('stack', ['h_stack.cpp'], {}), ('pool', ['h_pool.cpp'], {}), ('iter', ['h_iter.cpp'], {})])
    ex_arena = {c: build.build_harness('arena', c, ['h_arena.cpp']) for c in cfgs}
    ex_stack = {c: build.build_harness('stack', c, ['h_stack.cpp']) for c in cfgs}
    ex_pool = {c: build.build_harness('pool', c, ['h_pool.cpp']) for c in cfgs}
    ex_iter = {c: build.build_harness('iter', c, ['h_iter.cpp']) for c in cfgs}
    n = 300 if thorough else 50
    for i in range(n):
        sc = gen_arena(rng, faults=(i % 2 == 0))
        for c in cfgs:
            cases.append(dict(exe=ex_arena[c], script=sc, replay_args=['arena'], tag=('arena', sc.split('\n')[0], c)))
    # block sources with a fixed number of equal blocks (static storage, reserved virtual memory) run dry, blocks returned and
    # taken again: a block that went back must be available again (also where the pointer check is compiled out)
    from checks import c03
    k = 0
    while k < max(6, n // 6):
        sc = c03.gen_arena_faults(rng)
        if ' static ' not in sc and ' virtual ' not in sc:
            continue
        k += 1
        for c in cfgs:
            cases.append(dict(exe=ex_arena[c], script=sc, replay_args=['arena'], tag=('arena', sc.split('\n')[0] + ' (run dry)', c)))
    for i in range(n // 2):
        sc = stackgen.gen_script(rng, faults=True)
        if rng.random() < 0.4:
            sc = sc.replace('\ndestroy\n', '\nmv\nmfa\ndestroy\n')
        for c in cfgs:
            cases.append(dict(exe=ex_stack[c], script=sc, replay_args=['stack', str(SCFG[c])], tag=('stack', sc.split('\n')[0], c)))
    for i in range(n // 2):
        t = poolgen.gen_target(rng)
        sc = poolgen.gen_script(rng, t, nops=rng.randint(10, 50), faults=True)
        if rng.random() < 0.5:
            sc = sc.replace('\ndestroy\n', '\n%s\nq 1\ndestroy\n' % rng.choice(['mv', 'ma fresh', 'ma used', 'mv\nmfa', 'mv\nmfa\nmv']))
        for c in cfgs:
            cases.append(dict(exe=ex_pool[c], script=sc, replay_args=['pool'], tag=('pool', t['line'], c)))
    for i in range(n // 3):
        N = rng.randint(1, 5)
        sc = 'init %d %d\n' % (N, rng.choice([100, 1025, 4096])) + ''.join(rng.choice(['a 8 8\n', 'n\n', 'a 100 1\n', 'mv\n', 'ma\n', 'mv\nmfa\n']) for _ in range(rng.randint(3, 20)))
        for c in cfgs:
            cases.append(dict(exe=ex_iter[c], script=sc, replay_args=['iter', str(SCFG[c]), '0' if c == 'rel' else '1'], tag=('iter', sc.split('\n')[0], c)))
    res = runner.run_cases(cases, rexe)
    tot = dict(up=0, down=0, failed=0); ops = 0; div = 0; cache_hits = 0
    per = {}
    for r in res:
        kind, tgt, c = r['case']['tag']
        per[kind] = per.get(kind, 0) + 1
        ops += r['summ'].get('ops', 0); cache_hits += r['summ'].get('cache_hits', 0)
        if r['rc'] != 0:
            ctx.tie_broken.append('harness exit %d on %s in %s' % (r['rc'], tgt, c))
        if r['div'] and kind in ('arena', 'stack'):
            div += len(r['div'])
            ctx.tie_broken.append('correspondence: %s (%s cfg=%s)' % (r['div'][0], tgt, c))
        msgs, st = bracket_oracle(r['log'])
        if kind == 'arena' and '(run dry)' in tgt:
            msgs = msgs + c03.arena_oracle(r['log'])
        for k in tot:
            tot[k] += st[k]
        if r['rc'] != 0:
            msgs.append('crashed (exit status %d) after: %s' % (r['rc'], r['log'].strip().split('\n')[-1][:80]))
        if msgs and len(ctx.violations) < 3:
            ctx.violation('%s:%s/%s' % (kind, tgt, c), 'C05 fails on the implementation: ' + msgs[0],
                          dict(harness='h_%s.cpp' % kind, config=c, script=r['case']['script'].split('\n'), all=msgs[:5]))
    ctx.tie_broken = ctx.tie_broken[:6]
    ctx.cov.update(dict(
        tie=dict(kind='Exec lock-step of memory_arena (block returned, size/cache_size/next_block_size/owns, every upstream call) and memory_stack; bracket oracle on the upstream log of pools, collections and iteration allocators',
                 configs=cfgs, histories_by_kind=per, histories=len(cases), operations=ops, cache_hits=cache_hits,
                 upstream_allocations=tot['up'], upstream_releases=tot['down'], injected_or_source_failures=tot['failed'], divergences=div,
                 sources=['growing', 'fixed', 'static_block_allocator', 'virtual_block_allocator']),
        evaluations=len(cases), distinct_nontrivial=len(set(c['script'] for c in cases)),
        rule='seeded histories of allocate_block/deallocate_block/shrink_to_fit/owns/move on cached and uncached arenas over four block sources, stack/pool/collection/iteration histories with the k-th upstream call failing, moves, move-assignments onto used and fresh targets and into moved-from objects; distinct = distinct scripts'))
    if res:
        ctx.samples.append(dict(target=res[0]['case']['tag'], script=res[0]['case']['script'].split('\n')[:12], log=res[0]['log'].split('\n')[:12]))
