"""C07 -- iteration_allocator<N>: Exec lock-step of the real allocator against Iteration.it_step, N = 1..5."""
import os
from vlib import build, common, runner

CFG = {'rel': (0, 0), 'base': (0, 1), 'dbg8': (8, 1), 'dbg16': (16, 1)}   # fence, fill


def gen_script(rng, N, bs):
    lines = ['init %d %d' % (N, bs)]
    nops = rng.randint(10, 70)
    region = max(bs // N, 1)
    for _ in range(nops):
        r = rng.random()
        if r < 0.18:
            lines.append('n')
        elif r < 0.28:
            lines.append('c')
        elif r < 0.31:
            lines.append(rng.choice(['mv', 'mv', 'ma']))      # a move in the middle of an iteration: tops and contents travel
        elif r < 0.40:
            # exact fit / one over / one under at a random alignment (harness computes the size from capacity_left)
            lines.append('x %d %d %s' % (rng.choice([1, 1, 2, 4, 8, 16, 32, 64, 256]), rng.choice([-1, 0, 0, 1]), rng.choice('at')))
        else:
            al = rng.choice([1, 1, 2, 4, 8, 8, 16, 16, 32, 64, 128, 4096])
            size = rng.choice([0, 1, 2, 3, 7, 8, 9, 15, 16, 17, 24, 31, 32, 33, 64, 100, region // 7 + 1, region // 3 + 1, region // 2, region, region + 1, bs])
            lines.append('%s %d %d' % (rng.choice('aaat'), size, al))
    lines.append('c')
    # make sure several switches happen so that lifetimes are exercised all the way round
    for _ in range(N + 1):
        lines.append('a %d 8' % rng.choice([1, 8, 24]))
        lines.append('n')
    lines.append('c')
    return '\n'.join(lines) + '\n'


def oracle(log, N, fence):
    """property-level check of the implementation log alone; returns list of messages"""
    msgs = []
    base = size = None
    its = 0
    live = []   # (off, size, born)
    for ln in log.split('\n'):
        t = ln.split('|')[0].split()
        if not t:
            continue
        if t[0] == 'init' and len(t) == 5 and t[3] == '=' and t[4].isdigit():
            base = int(t[4]); size = int(t[2])
        elif t[0] in ('a', 't') and len(t) >= 5 and t[4] == 'ok':
            sz, al, off = int(t[1]), int(t[2]), int(t[5])
            if off % al:
                msgs.append('result %d not aligned to %d' % (off, al))
            if not (base <= off and off + sz <= base + size):
                msgs.append('allocation [%d,+%d) outside the block [%d,+%d)' % (off, sz, base, size))
            for (o2, s2, b2) in live:
                if its - b2 < N and off < o2 + s2 and o2 < off + sz and sz > 0 and s2 > 0:
                    msgs.append('allocation [%d,+%d) overlaps live allocation [%d,+%d) made %d iteration(s) ago' % (off, sz, o2, s2, its - b2))
            live.append((off, sz, its))
        elif t[0] in ('a', 't') and len(t) >= 5 and t[3] == '=' and t[4] == 'throw' and t[0] == 't':
            msgs.append('try_allocate threw')
        elif t[0] == 'a' and len(t) >= 5 and t[4] == 'null':
            msgs.append('throwing allocate returned null')
        elif t[0] == 'n':
            its += 1
            live = [l for l in live if its - l[2] < N]
            kv = dict(x.split('=') for x in t[3:] if '=' in x)
            if 'cap' in kv and kv['cap'] != kv.get('region'):
                msgs.append('switching to iteration %s did not make its region available again: capacity_left is %s of %s bytes' % (t[2], kv['cap'], kv.get('region')))
        elif t[0] == 'corrupt':
            msgs.append('content of a live allocation was modified: ' + ln)
        elif t[0] == 'nofill':
            msgs.append('fresh memory does not carry the new-memory pattern: ' + ln)
    return msgs


def run(ctx):
    ctx.regen()
    ctx.prove()
    thorough = ctx.tier == 'thorough'
    rng = ctx.rng
    cfgs = ['base', 'rel', 'dbg8', 'dbg16'] if thorough else ['base', 'dbg8', 'rel']
    build.warm(cfgs, [('iter', ['h_iter.cpp'], {})])
    exes = {c: build.build_harness('iter', c, ['h_iter.cpp']) for c in cfgs}
    try:
        rexe = ctx.replay_exe()
    except build.BuildError as e:
        ctx.tie_broken.append('replay driver: ' + str(e)[:300]); rexe = None
    cases = []
    nper = 40 if thorough else 8
    residues = set()
    for N in range(1, 6):
        sizes = [100, 1024, 1025, 4096 + 1, 7, 64 * N + 3]
        for k in range(nper):
            bs = sizes[k % len(sizes)] + (k // len(sizes)) * rng.randint(1, 50) if k < 12 else rng.randint(N, 20000)
            bs = max(bs, 1)
            residues.add((N, bs % N))
            sc = gen_script(rng, N, bs)
            for c in cfgs:
                cases.append(dict(exe=exes[c], script=sc, replay_args=['iter', str(CFG[c][0]), str(CFG[c][1])], tag=(N, bs, c)))
    # corpus first
    res = runner.run_cases(cases, rexe)
    ops = 0; div = 0; crashes = 0; hist = {}
    for r in res:
        N, bs, c = r['case']['tag']
        ops += r['summ'].get('ops', 0)
        for ln in r['log'].split('\n'):
            if ln[:2] in ('a ', 't ', 'n ', 'c '):
                k = ln[0] + (':' + ln.split('=')[1].split()[0] if ln[0] in 'at' and '=' in ln else '')
                hist[k] = hist.get(k, 0) + 1
        bad = False
        if r['rc'] != 0:
            crashes += 1; bad = True
            ctx.tie_broken.append('harness exit %d on iteration_allocator<%d>(%d) in %s' % (r['rc'], N, bs, c))
        if r['div']:
            div += len(r['div']); bad = True
            ctx.tie_broken.append('correspondence: %s (N=%d block=%d cfg=%s)' % (r['div'][0], N, bs, c))
        msgs = oracle(r['log'], N, CFG[c][0])
        if r['rc'] != 0:
            msgs.append('the allocator crashed (exit status %d) after: %s' % (r['rc'], r['log'].strip().split('\n')[-1][:80]))
        if msgs and len(ctx.violations) < 3:
            ctx.violation('iter<%d>(%d)/%s' % (N, bs, c), 'C07 fails on the implementation: ' + msgs[0],
                          dict(harness='h_iter.cpp', config=c, script=r['case']['script'].split('\n'), log_tail=r['log'].split('\n')[-6:], all=msgs[:5]))
    ctx.tie_broken = ctx.tie_broken[:6]
    ctx.cov.update(dict(
        tie=dict(kind='Exec lock-step: every result address, null/throw outcome, current iteration and every capacity_left(i) equal to Iteration.it_step',
                 configs=cfgs, targets=['iteration_allocator<%d, fixed_block_allocator<upstream>>' % n for n in range(1, 6)],
                 histories=len(cases), operations=ops, divergences=div, crashes=crashes, residues_size_mod_N=len(residues), op_histogram=hist),
        evaluations=len(cases), distinct_nontrivial=len(set(c['script'] for c in cases)),
        rule='seeded histories of allocate/try_allocate/next_iteration/capacity queries with exact-fit, one-over and over-aligned requests; block sizes cover every residue mod N for N=1..5; distinct = distinct scripts'))
    if res:
        ctx.samples.append(dict(target='iteration_allocator<%d>(%d) cfg=%s' % res[0]['case']['tag'], script=res[0]['case']['script'].split('\n')[:12], log=res[0]['log'].split('\n')[:12]))
