"""C02 -- size, count and alignment honoured."""
from vlib import build, runner
from checks import poolrun


def oracle(log, kind):
    msgs = []
    for ln in log.split('\n'):
        head = ln.split('|')[0]
        if '=' not in head:
            continue
        lhs, rhs = [x.strip().split() for x in head.split('=', 1)]
        if not lhs or rhs[:1] != ['ok']:
            continue
        if lhs[0] in ('an', 'tn', 'a', 't') and len(lhs) >= 3:
            off = int(rhs[1]); al = int(lhs[2])
        elif lhs[0] in ('aa', 'ta'):
            off = int(rhs[1]); al = int(lhs[3])
        else:
            continue
        if off == 0:
            msgs.append('null returned as success: ' + ln)
        if al > 0 and off % al:
            msgs.append('%s returned %d, not aligned to %d' % (' '.join(lhs), off, al))
    return msgs


def inside_oracle(log):
    """stack / iteration logs: every served request lies, with all its bytes, inside an upstream block that is held"""
    msgs = []
    blocks = []
    for ln in log.split('\n'):
        parts = ln.split('|')
        if len(parts) > 1:
            t = parts[1].split(); i = 0
            while i < len(t):
                if t[i] == 'U+' and i + 3 < len(t) and t[i + 3] != 'fail':
                    blocks.append((int(t[i + 3]), int(t[i + 1]))); i += 4
                elif t[i] == 'U-' and i + 3 < len(t):
                    b = (int(t[i + 3]), int(t[i + 1]))
                    if b in blocks:
                        blocks.remove(b)
                    i += 4
                else:
                    i += 1
        head = parts[0]
        if '=' not in head:
            continue
        lhs, rhs = [x.strip().split() for x in head.split('=', 1)]
        if lhs and lhs[0] in ('a', 't') and len(lhs) >= 3 and rhs[:1] == ['ok']:
            off = int(rhs[1]); size = int(lhs[1])
            if blocks and not any(bo <= off and off + size <= bo + bs for bo, bs in blocks):
                msgs.append('%s returned [%d,+%d), which is not inside any block the allocator holds (%s)' % (' '.join(lhs), off, size, blocks[-3:]))
    return msgs


def run(ctx):
    ctx.regen(); ctx.prove()
    thorough = ctx.tier == 'thorough'
    cfgs = ['base', 'rel', 'dbg8', 'dbg16'] if thorough else ['base', 'dbg8', 'dbg16']
    try:
        rexe = ctx.replay_exe()
    except build.BuildError as e:
        ctx.tie_broken.append('replay driver: ' + str(e)[:300]); rexe = None
    n = 6 if thorough else 1
    cases = poolrun.make_cases(ctx, 35 * n, 35 * n, 25 * n, 15 * n, cfgs, faults=False)
    res = runner.run_cases(cases, rexe)
    exec_cov = poolrun.exec_lockstep(ctx, res, rexe)
    ops = 0; div = 0; per = {}; checked = 0
    for r in res:
        kind, tgt, c = r['case']['tag']; per[kind] = per.get(kind, 0) + 1
        ops += r['summ'].get('ops', 0)
        mine = [d for d in r['div'] if poolrun.concerns(d, 'C02')]
        if r['rc'] != 0:
            ctx.tie_broken.append('harness exit %d on %s in %s' % (r['rc'], tgt, c))
        if mine:
            div += len(mine); ctx.tie_broken.append('correspondence: %s (%s cfg=%s)' % (mine[0][:300], tgt, c))
        msgs = oracle(r['log'], kind)
        if kind in ('pool', 'coll'):
            msgs += [m for m in poolrun.live_overlap_oracle(r['log']) if 'not inside' in m]
        if kind in ('stack', 'iter'):
            msgs += inside_oracle(r['log'])
        if r['rc'] != 0:
            msgs.append('crashed (exit status %d) while using the memory it was given, after: %s' % (r['rc'], r['log'].strip().split('\n')[-1][:100]))
        checked += r['log'].count('= ok ')
        if msgs and len(ctx.violations) < 3:
            ctx.violation('%s:%s/%s' % (kind, tgt, c), 'C02 fails on the implementation: ' + msgs[0],
                          dict(harness='h_%s.cpp' % ('pool' if kind == 'coll' else kind), config=c, script=r['case']['script'].split('\n'), all=msgs[:5]))
    # joint memory (bumped from the object's own block, fence size 0 whatever the configuration): every piece aligned as its
    # element type asks and inside the joint memory, in the fence configurations too
    from checks import c11
    from vlib import proc
    jlines = c11.gen_lines(ctx.rng, thorough); joint_checked = 0
    for c in [x for x in cfgs if x != 'rel']:
        exe = build.build_harness('joint', c, ['h_joint.cpp'])
        out = proc.run([exe], input='\n'.join(jlines) + '\n', timeout=300)
        for ln in out.stdout.split('\n'):
            if ln.startswith('j ') and ' =' in ln:
                joint_checked += 1
                why = c11.oracle(ln)
                if why and ('not aligned' in why or 'outside' in why or 'overlap' in why) and len(ctx.violations) < 3:
                    ctx.violation('joint/%s/%s' % (ln.split(' =')[0], c), 'C02 fails on the implementation: joint memory: %s (%s)' % (why, ln.split(' =')[0]), dict(harness='h_joint.cpp', config=c, input=ln.split(' =')[0], output=ln))
        if out.returncode != 0 and len(ctx.violations) < 3:
            ctx.violation('joint-crash/%s' % c, 'C02 fails on the implementation: joint allocations crashed (exit status %d) after: %s' % (out.returncode, out.stdout.strip().split('\n')[-1][:100]), dict(harness='h_joint.cpp', config=c))
    ctx.tie_broken = ctx.tie_broken[:6]
    ctx.cov.update(dict(
        joint_cases_checked=joint_checked,
        tie=dict(kind='results replayed against the models (pools: must be runs of ceil(bytes/node size) consecutive free nodes; stacks/iteration: exact address); every byte of count*size is written and read back by the harness; alignment of every result checked against the request',
                 configs=cfgs, histories_by_kind=per, histories=len(cases), operations=ops, exec_pool=exec_cov, successful_allocations_checked=checked, divergences=div),
        evaluations=len(cases), distinct_nontrivial=len(set(c['script'] for c in cases)),
        rule='seeded histories with sizes around node/bucket boundaries, arrays whose element size differs from the node size, alignments up to 4096 on stacks and iteration allocators, fence sizes 0/8/16; distinct = distinct scripts'))
    if res:
        ctx.samples.append(dict(target=res[-1]['case']['tag'], script=res[-1]['case']['script'].split('\n')[:12], log=res[-1]['log'].split('\n')[:10]))
