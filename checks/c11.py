"""C11 -- joint allocations: member layouts, raw joint_allocator requests, overflow / exact fit, reset, clone, move."""
import subprocess
from vlib import proc, build


def gen_lines(rng, thorough):
    lines = []
    forms = ['size', 'value', 'range', 'ilist']
    n = 3000 if thorough else 500
    for _ in range(n):
        form = rng.choice(forms)
        nc = rng.choice([0, 1, 2, 3, 5, 7, 8, 9, 13, 16, 17]); na = 3 if form == 'ilist' else rng.choice([0, 1, 2, 3, 4, 7]); nb = rng.choice([0, 0, 1, 2, 3])
        raw = [(rng.choice([0, 1, 2, 3, 5, 8, 12, 16, 24]), rng.choice([1, 2, 4, 8, 16])) for _ in range(rng.choice([0, 0, 1, 2, 4]))]
        # what the layout needs if nothing is wasted, then capacities around it: far below, one short, exact-ish, roomy
        need = nc + na * 24 + nb * 16 + sum(r[0] for r in raw) + 40
        cap = max(0, rng.choice([0, need // 2, need - 17, need - 9, need - 8, need - 1, need, need + 1, need + 7, need + 64, rng.randint(0, need + 80)]))
        post = rng.choice(['none', 'reset', 'clone', 'move', 'swap', 'assignnull', 'moveassign2', 'swap2', 'movector2'])
        lines.append('j %s %d %d %d %d -1 %s %s' % (form, cap, nc, na, nb, post, ' '.join('%d %d' % r for r in raw)))
    return lines


def vec_lines(rng):
    out = []
    for how in ('move', 'copy', 'assign'):
        for (na, nb) in [(3, 5), (8, 2), (0, 4), (6, 6), (rng.randint(1, 10), rng.randint(1, 10))]:
            out.append('v %s %d 0 %d %d -1 none' % (how, 8 * (max(na, nb) * 3 + 4), na, nb))
    return out


def oracle(line):
    """C11 on the implementation line alone: every piece inside [sizeof T, sizeof T + cap), aligned, disjoint; release = allocation"""
    lhs, rest = line.split(' =', 1)
    t = lhs.split(); cap = int(t[2]); nc, na, nb = int(t[3]), int(t[4]), int(t[5]); form = t[1]
    toks = rest.replace('|', ' ').split()
    kv = {}
    for x in toks:
        if '=' in x:
            a, b = x.split('=', 1); kv.setdefault(a, b)
    if kv.get('outside', '0') != '0':
        return '%s element(s) were constructed outside the block of the object (a write past the end of the joint memory)' % kv['outside']
    if 'U!foreign' in toks or 'owner=WRONG' in toks:
        return 'after a move between joint_ptrs of two allocator objects the block is owned by / released through the wrong allocator object'
    if 'ctor=ok' not in toks:
        return None
    sT = int(kv['sT']); eS = int(kv.get('eS', 8)); eA = int(kv.get('eA', eS))
    pieces = []
    first = {}
    for x in toks:
        for nm, size, al in (('c@', nc, 1), ('a@', na * eS, eA), ('b@', nb * 16, 16)):
            if x.startswith(nm) and nm not in first and size > 0:
                first[nm] = 1; pieces.append((int(x[len(nm):]), size, al, nm))
        if x.startswith('n(') and not x.endswith('@throw'):
            inside, off = x[2:].split(')@'); size, al = [int(v) for v in inside.split(',')]
            if size > 0:
                pieces.append((int(off), size, al, x))
    ups = [i for i, x in enumerate(toks) if x == 'U+']
    obj = int(toks[ups[0] + 3]) if ups else 0
    for off, size, al, nm in pieces:
        if off < sT or off + size > sT + cap:
            return 'piece %s [%d,+%d) lies outside the joint memory [%d,%d) of the object' % (nm, off, size, sT, sT + cap)
        if (obj + off) % al:
            return 'piece %s at object+%d is not aligned to %d' % (nm, off, al)
    ps = sorted(pieces)
    for (o1, s1, _, n1), (o2, s2, _, n2) in zip(ps, ps[1:]):
        if o1 + s1 > o2:
            return 'pieces %s and %s overlap' % (n1, n2)
    # release parameters
    downs = [(int(toks[i + 1]), int(toks[i + 2]), int(toks[i + 3])) for i, x in enumerate(toks) if x == 'U-']
    up0 = (int(toks[ups[0] + 1]), int(toks[ups[0] + 2]), int(toks[ups[0] + 3]))
    if downs.count(up0) != 1:
        return 'the object block %s was released %d times with matching parameters (releases: %s)' % (up0, downs.count(up0), downs)
    return None


def run(ctx):
    ctx.regen(); ctx.prove()
    thorough = ctx.tier == 'thorough'
    try:
        rexe = ctx.replay_exe()
    except build.BuildError as e:
        ctx.tie_broken.append('replay driver: ' + str(e)[:300]); rexe = None
    lines = gen_lines(ctx.rng, thorough) + vec_lines(ctx.rng)
    tot = {}; n = 0
    for c in ['base', 'dbg8']:
        exe = build.build_harness('joint', c, ['h_joint.cpp'])
        out = proc.run([exe], input='\n'.join(lines) + '\n', timeout=300)
        if out.returncode != 0:
            ctx.tie_broken.append('joint harness exit %d in %s: %s' % (out.returncode, c, out.stderr[-200:]))
            if len(ctx.violations) < 3:
                last = out.stdout.strip().split('\n')[-1] if out.stdout.strip() else ''
                nxt = lines[len(out.stdout.strip().split('\n'))] if len(out.stdout.strip().split('\n')) < len(lines) else ''
                ctx.violation('crash/%s' % c, 'C11 fails on the implementation: crash (exit %d) while running: %s' % (out.returncode, nxt), dict(harness='h_joint.cpp', config=c, input=nxt, after=last))
        for ln in out.stdout.split('\n'):
            if ln.startswith('v ') and ' =' in ln:
                n += 1
                kvv = dict(x.split('=') for x in ln.split(' =', 1)[1].split() if '=' in x and not x.startswith('|'))
                whyv = None
                if kvv.get('a_inside') != '1' or kvv.get('b_inside') != '1':
                    whyv = 'after a container %s between two joint objects the elements of a container lie outside its own object\'s joint memory (a_inside=%s b_inside=%s)' % (ln.split()[1], kvv.get('a_inside'), kvv.get('b_inside'))
                elif kvv.get('content') != '1':
                    whyv = 'container content wrong after %s between joint objects' % ln.split()[1]
                if whyv and len(ctx.violations) < 3:
                    ctx.violation('%s/%s' % (ln.split(' =')[0], c), 'C11 fails on the implementation: %s (%s)' % (whyv, ln.split(' =')[0]), dict(harness='h_joint.cpp', config=c, input=ln.split(' =')[0], output=ln))
            if ln.startswith('j ') and ' =' in ln:
                n += 1
                why = oracle(ln)
                if why and len(ctx.violations) < 3:
                    ctx.violation('%s/%s' % (ln.split(' =')[0], c), 'C11 fails on the implementation: %s (%s)' % (why, ln.split(' =')[0]), dict(harness='h_joint.cpp', config=c, input=ln.split(' =')[0], output=ln))
            elif ln.startswith('end ') and ('live_blocks=0' not in ln or 'errors=0' not in ln) and len(ctx.violations) < 3:
                ctx.violation('balance/%s' % c, 'C11 fails on the implementation: leaf allocator balance at exit: ' + ln, dict(config=c))
        if rexe:
            rr = subprocess.run([rexe, 'joint'], input=out.stdout, stdout=subprocess.PIPE, text=True).stdout
            for ln in rr.split('\n'):
                if ln.startswith('SUMMARY'):
                    for kv in ln.split()[1:]:
                        k, v = kv.split('='); tot[k] = tot.get(k, 0) + int(v)
                elif ln.startswith('DIVERGE'):
                    ctx.tie_broken.append('correspondence (%s): %s' % (c, ln[:300]))
            # life cycle: for every object that was built (no overflow, no exception) the events -- node obtained, elements of
            # the member array built, [clone / move into another allocator], elements destroyed, node given back -- must be
            # JointExc.jx_case's (C11_every_element_destroyed_exactly_once, C11_elements_destroyed_before_the_block_is_freed)
            life = [ln for ln in out.stdout.split('\n') if ln.startswith('j ') and ' =' in ln and 'ctor=ok' in ln
                    and ln.split()[7] in ('none', 'reset', 'clone', 'move') and ln.split()[6] == '-1']
            rl = subprocess.run([rexe, 'exc'], input='\n'.join(life) + '\n', stdout=subprocess.PIPE, text=True).stdout
            for ln in rl.split('\n'):
                if ln.startswith('SUMMARY'):
                    for kv in ln.split()[1:]:
                        k, v = kv.split('=')
                        if k == 'joint_event_lists':
                            tot['lifecycles'] = tot.get('lifecycles', 0) + int(v)
                        elif k == 'diverged':
                            tot['diverged'] = tot.get('diverged', 0) + int(v)
                elif ln.startswith('DIVERGE'):
                    ctx.tie_broken.append('correspondence (life cycle, %s): %s' % (c, ln[:300]))
                    if len(ctx.violations) < 3:
                        case = ln.split('::')[1].split(' =')[0].strip()
                        ctx.violation('%s/%s' % (case, c), 'C11 fails on the implementation: the elements of the object are not built once, destroyed once (first to last) and the block freed afterwards: %s' % ln[8:300], dict(harness='h_joint.cpp', config=c, input=case))
    ctx.tie_broken = ctx.tie_broken[:6]
    ctx.cov.update(dict(
        tie=dict(kind='Exec lock-step: offsets of the three member joint_arrays (size / value / initializer-list / range constructors) and of raw joint_allocator requests, capacity_left, leaf request/release parameters, clone request size compared with Joint.jstep; life cycle of every object that was built (node obtained, elements built, clone / move, elements destroyed first to last, node given back) compared event by event with JointExc.jx_case',
                 configs=['base', 'dbg8'], cases=tot.get('total', 0), overflows=tot.get('overflows', 0), exact_fits=tot.get('exact_fits', 0), clones=tot.get('clones', 0), lifecycles_compared=tot.get('lifecycles', 0), divergences=tot.get('diverged', 0)),
        evaluations=n, distinct_nontrivial=len(set(lines)),
        rule='seeded member layouts (char / 8-byte / 16-byte-aligned elements, counts 0..17, raw requests of sizes 0..24 and alignments 1..16) with additional sizes from 0 through one short of, exactly at and above what the layout needs, object addresses = 0 and 8 mod 16; followed by reset, = nullptr, clone, move-with-allocator or swap; distinct = distinct case lines'))
    ctx.samples += lines[:3]
