"""C04 -- no capacity lost: Spec replay of pool/collection logs (capacity compared after every operation)"""
from vlib import smallgen
from vlib import build, runner
from checks import poolrun


def oracle(log):
    msgs = []
    cap0 = None; last_cap = None; live = 0; kind = None; cyc = None; prevq = None
    for ln in log.split('\n'):
        parts = ln.split('|')
        if len(parts) < 3 or '=' not in parts[0]:
            continue
        lhs, rhs = [x.strip().split() for x in parts[0].split('=', 1)]
        caps = dict(kv.split('=') for kv in parts[2].split() if '=' in kv)
        if lhs[0] == 'pool' and rhs[:1] == ['ok']:
            kind = 'pool'; cap0 = int(caps['cap'])
        # an allocate/release cycle between two capacity queries for the same size, without growth: the bucket's capacity is as before
        if lhs and lhs[0] == 'q' and 'pcap' in caps:
            if cyc and cyc['size'] == lhs[1] and cyc['allocs'] == 1 and cyc['rels'] == 1 and not cyc['grew'] and int(caps['pcap']) < cyc['pcap']:
                msgs.append('one %s / release cycle lost capacity: pool_capacity_left(%s) was %d before and is %d after' % (cyc['what'], lhs[1], cyc['pcap'], int(caps['pcap'])))
            cyc = dict(size=lhs[1], pcap=int(caps['pcap']), allocs=0, rels=0, grew=False, what='')
        elif cyc and lhs:
            if 'U+' in parts[1]:
                cyc['grew'] = True
            if lhs[0] in ('an', 'tn', 'aa', 'ta'):
                cyc['allocs'] += 1 if rhs[:1] == ['ok'] else 5; cyc['what'] = ' '.join(lhs)
            elif lhs[0] in ('dn', 'da', 'tdn', 'tda') and rhs[:1] == ['true']:
                cyc['rels'] += 1
            elif lhs[0] not in ('d',):
                cyc['allocs'] += 5      # anything else in between: not a plain cycle
        if lhs and lhs[0] == 'coll' and rhs[:1] == ['ok']:
            kind = 'coll'
        if kind == 'coll' and lhs:
            toks = parts[1].split()
            if lhs[0] == 'rs' and rhs[:1] == ['reserved'] and 'I' not in toks:
                msgs.append('reserve(%s, %s) took memory from the block (capacity_left now %s) and handed nothing to the pool: that capacity is lost' % (lhs[1], lhs[2], caps.get('cap')))
            if lhs[0] == 'aa' and lhs[1] == '1' and prevq and prevq[0] == lhs[2] and prevq[1] >= 1 and (toks or rhs[:1] != ['ok']):
                msgs.append('allocate_array(1, %s) did not come from the list although pool_capacity_left(%s) was %d: %s' % (lhs[2], lhs[2], prevq[1], ' '.join(rhs[:2]) + ' |' + parts[1][:60]))
            prevq = (lhs[1], int(caps['pcap'])) if lhs[0] == 'q' and 'pcap' in caps else None
            if lhs[0] == 'an' and 'I' in toks and 'U+' in toks[toks.index('I'):]:
                msgs.append('%s asked the block source for memory although the list had just been given nodes (%s)' % (' '.join(lhs), parts[1].strip()[:80]))
        if kind != 'pool' or not lhs:
            continue
        cap_before = last_cap
        if 'cap' in caps:
            last_cap = int(caps['cap'])
        grew = 'U+' in parts[1] and 'fail' not in parts[1]
        if lhs[0] in ('an', 'tn'):
            if grew and cap_before and cap_before > 0:
                msgs.append('%s asked the block source for memory while capacity_left was %d' % (' '.join(lhs), cap_before))
            if rhs[:1] == ['ok']:
                live += 1
            if lhs[0] == 'tn' and rhs[:1] == ['null'] and cap_before is not None and 'ns' in caps and int(lhs[1]) <= int(caps['ns']) and lhs[2] == '1' and cap_before >= int(caps['ns']):
                msgs.append('try_allocate_node refused although capacity_left reports %d bytes (%d nodes) free: released nodes cannot be had again' % (cap_before, cap_before // int(caps['ns'])))
        elif lhs[0] in ('aa', 'ta') and rhs[:1] == ['ok']:
            live += 1
        elif lhs[0] in ('dn', 'da', 'tdn', 'tda') and rhs[:1] == ['true']:
            live -= 1
            if live == 0 and last_cap is not None and cap0 is not None and last_cap < cap0:
                msgs.append('everything released but capacity_left is %d, was %d at the start' % (last_cap, cap0))
    return msgs


def gen_list_script(rng, kind):
    """valid histories on a free list driven directly: regions inserted in arbitrary order, nodes and arrays taken, released in arbitrary order"""
    ns = rng.choice([8, 16, 16, 24, 40])
    lines = ['%s %d%s' % (kind, ns, (' ' + rng.choice(['low', 'high'])) if kind == 'ord' else '')]
    regions = []; off = 256
    for _ in range(rng.randint(1, 4)):
        cnt = rng.randint(2, 24); regions.append((off, cnt * ns)); off += cnt * ns + rng.choice([0, 0, 16, 64, 1024]) // 16 * 16
    rng.shuffle(regions)
    lines.append('ins %d %d' % regions[0]); pending = regions[1:]
    live = 0
    for _ in range(rng.randint(20, 150)):
        r = rng.random()
        if pending and r < 0.05:
            lines.append('ins %d %d' % pending.pop())
        elif r < 0.35:
            lines.append('a'); live += 1
        elif r < 0.5:
            lines.append('aa %d' % (ns * rng.choice([2, 2, 3, 4, 5]) - rng.choice([0, 0, 1, ns // 2]))); live += 1
        elif r < 0.9:
            lines.append('d %d' % rng.choice([0, 0, 1, rng.randint(0, 60), max(0, live - 1)])); live = max(0, live - 1)
        else:
            lines.append('q')
    lines += ['d 0'] * (live + 2) + ['q']
    return '\n'.join(lines) + '\n'


def run(ctx):
    ctx.regen(); ctx.prove()
    thorough = ctx.tier == 'thorough'
    cfgs = ['base', 'chk', 'dbg8', 'rel'] if thorough else ['base', 'chk', 'rel']
    try:
        rexe = ctx.replay_exe()
    except build.BuildError as e:
        ctx.tie_broken.append('replay driver: ' + str(e)[:300]); rexe = None
    cases = poolrun.make_cases(ctx, 400 if thorough else 50, 300 if thorough else 40, 0, 0, cfgs)
    # the free lists themselves, driven directly, in lock-step with their Exec models (link order / sorted order, cursor)
    import os
    build.warm(cfgs, [('invalid', ['h_invalid.cpp'], dict(extra=['-I', os.path.join(build.REPO, 'src')]))])
    ex_list = {c: build.build_harness('invalid', c, ['h_invalid.cpp'], extra=['-I', os.path.join(build.REPO, 'src')]) for c in cfgs}
    for i in range(120 if thorough else 20):
        for kind, topic in (('unord', 'unord'), ('ord', 'ord')):
            sc = gen_list_script(ctx.rng, kind)
            for c in cfgs:
                cases.append(dict(exe=ex_list[c], script=sc, replay_args=['ordered', topic], tag=('list', sc.split('\n')[0], c)))
        sc = smallgen.gen_small_chunks(ctx.rng, bads=False)
        for c in cfgs:
            cases.append(dict(exe=ex_list[c], script=sc, replay_args=['ordered', 'small'], tag=('list', sc.split('\n')[0], c)))
    res = runner.run_cases(cases, rexe)
    exec_cov = poolrun.exec_lockstep(ctx, res, rexe)
    ops = arrays = grows = 0; div = 0; per = {}
    for r in res:
        kind, tgt, c = r['case']['tag']; per[kind] = per.get(kind, 0) + 1
        ops += r['summ'].get('ops', 0); arrays += r['summ'].get('arrays', 0); grows += r['summ'].get('growths', 0)
        mine = r['div'] if kind == 'list' else [d for d in r['div'] if poolrun.concerns(d, 'C04')]
        if r['rc'] != 0:
            ctx.tie_broken.append('harness exit %d on %s in %s' % (r['rc'], tgt, c))
        if mine:
            div += len(mine); ctx.tie_broken.append('correspondence: %s (%s cfg=%s)' % (mine[0][:300], tgt, c))
        msgs = oracle(r['log'])
        if r['rc'] != 0:
            msgs.append('crashed (exit status %d) after: %s' % (r['rc'], r['log'].strip().split('\n')[-1][:80]))
        if msgs and len(ctx.violations) < 3:
            ctx.violation('%s/%s' % (tgt, c), 'C04 fails on the implementation: ' + msgs[0],
                          dict(harness='h_pool.cpp', config=c, script=r['case']['script'].split('\n'), all=msgs[:5]))
    ctx.tie_broken = ctx.tie_broken[:6]
    ctx.cov.update(dict(
        tie=dict(kind='Spec acceptance: every result must be a run of free nodes of a range handed to the list (insert hook), capacity_left / pool_capacity_left / next_capacity compared with the model after every operation, growth only when the list is empty; the real free_memory_list, ordered_free_memory_list and small_free_memory_list driven directly in lock-step with UnorderedList / OrderedList / SmallList (every node in link order, cursors, which run an array request takes, chunk order and free chains)',
                 configs=cfgs, histories_by_kind=per, histories=len(cases), operations=ops, exec_pool=exec_cov, array_requests=arrays, growths=grows, divergences=div),
        evaluations=len(cases), distinct_nontrivial=len(set(c['script'] for c in cases)),
        rule='seeded interleavings of node/array allocate/release through allocator_traits and composable traits on memory_pool<node|array|small> and memory_pool_collection<.., identity|log2> over growing/fixed sources, element sizes that round to a different node count, fill-to-exhaustion phases, object below/above its memory; distinct = distinct scripts'))
    if res:
        ctx.samples.append(dict(target=res[-1]['case']['tag'], script=res[-1]['case']['script'].split('\n')[:12], log=res[-1]['log'].split('\n')[:10]))
