"""C16 -- invalid releases are reported / stop the program, valid ones never: ordered list in lock-step, small list checks,
LIFO block sources, unwind above the top, pools through the public interface; valid histories in every configuration."""
import os, subprocess
from vlib import build, runner
from checks import poolrun

STOPS = ('reported', 'abort')


def gen_ord(rng, dbl):
    ns = rng.choice([8, 16, 16, 24, 40])
    pos = rng.choice(['low', 'high'])
    lines = ['ord %d %s' % (ns, pos)]
    # several memory regions with gaps (as blocks of a growing pool would be), inserted in arbitrary address order
    regions = []
    off = 256
    for _ in range(rng.randint(1, 4)):
        cnt = rng.randint(2, 24)
        regions.append((off, cnt * ns)); off += cnt * ns + rng.choice([16, 64, 1024])
    rng.shuffle(regions)
    lines.append('ins %d %d' % regions[0])
    pending = regions[1:]
    live = 0
    for _ in range(rng.randint(20, 120)):
        r = rng.random()
        if pending and r < 0.05:
            lines.append('ins %d %d' % pending.pop()); continue
        if r < 0.35:
            lines.append('a'); live += 1
        elif r < 0.45:
            lines.append('aa %d' % (ns * rng.choice([2, 2, 3, 4]) - rng.choice([0, 0, 1, ns // 2]))); live += 1
        elif r < 0.80:
            lines.append('d %d' % rng.choice([0, 0, rng.randint(0, 50), max(0, live - 1)])); live = max(0, live - 1)
        elif r < 0.90 and dbl:
            lines.append('dbl %d' % rng.choice([0, 0, 1, rng.randint(0, 60), 10 ** 6 - 1]))
        elif r < 0.95 and dbl:
            # an array release whose first node is free (the nodes behind it may be free as well, or live)
            lines.append('dbla %d %d' % (rng.choice([0, 1, rng.randint(0, 60), 10 ** 6 - 1]), rng.choice([2, 2, 3, 4])))
        else:
            lines.append('q')
    if dbl:
        lines += ['dbl 0', 'dbl 1', 'dbl %d' % rng.randint(0, 40), 'dbla %d 2' % rng.randint(0, 40), 'dbla 0 3']
    return '\n'.join(lines) + '\n'


def gen_small(rng):
    ns = rng.choice([1, 2, 4, 8, 8, 16, 24, 100])
    lines = ['small %d %s' % (ns, rng.choice(['low', 'high']))]
    size = rng.choice([1024, 4096, 8192 + 40])
    lines.append('ins 0 %d' % size)
    second = rng.random() < 0.4
    base2 = (size + 512 + 15) // 16 * 16      # insert() requires max_alignment
    if second:
        lines.append('ins %d %d' % (base2, 2048))
    live = 0
    for _ in range(rng.randint(20, 100)):
        r = rng.random()
        if r < 0.4:
            lines.append('a'); live += 1
        elif r < 0.65:
            lines.append('d %d' % rng.randint(0, 40)); live = max(0, live - 1)
        elif r < 0.77:
            lines.append('bad dbl %d' % rng.choice([0, 10 ** 6 - 1, rng.randint(0, 30)]))
        elif r < 0.88:
            lines.append('bad mis %d %d' % (rng.randint(0, 30), rng.randint(0, 200)))
        else:
            # before the memory, in the chunk header, between the blocks, behind everything, one past the last node
            lines.append('bad outside %d' % rng.choice([-64, -1, 0, 8, 24, 31, size, size + 100, size + 511, base2 + 8, base2 + 2048, 100000]))
    return '\n'.join(lines) + '\n'


from vlib.smallgen import gen_small_chunks


def gen_lifo(rng):
    kind = rng.choice(['static', 'virtual', 'fixed'])
    bs = 4096 if kind == 'virtual' else rng.choice([256, 1024])
    lines = ['lifo %s %d %d' % (kind, bs, 6)]
    for _ in range(rng.randint(6, 30)):
        lines.append(rng.choice(['ab', 'ab', 'db', 'bad %d' % rng.randint(0, 5), 'badfree']))
        if kind == 'fixed' and rng.random() < 0.25:
            # an acquisition that fails upstream hands nothing out: a block returned afterwards is still a bad call
            lines += ['db', 'fail', 'ab', 'badfree']
    return '\n'.join(lines) + '\n'


def gen_lstack(rng):
    """valid histories only: a stack over a LIFO-only block source grows over several blocks, unwinds (blocks go to the cache),
    shrinks or is destroyed with used and cached blocks at once"""
    kind = rng.choice(['static', 'virtual'])
    bs = rng.choice([256, 512, 1024])
    top = 3000 if kind == 'virtual' else bs // 2
    lines = ['lstack %s %d' % (kind, bs)]
    for _ in range(rng.randint(8, 40)):
        r = rng.random()
        if r < 0.50:
            lines.append('a %d' % rng.choice([8, 40, top // 2, top, top]))
        elif r < 0.62:
            lines.append('m')
        elif r < 0.80:
            lines.append('u %d' % rng.randint(0, 3))
        elif r < 0.88:
            lines.append('s')
        else:
            lines.append('r')
    return '\n'.join(lines) + '\n'


def gen_unwind(rng):
    lines = ['unwind %d %s' % (rng.choice([128, 256, 1024]), rng.choice(['up', 'down']))]
    for _ in range(rng.randint(6, 40)):
        r = rng.random()
        if r < 0.4:
            lines.append('a %d' % rng.choice([1, 8, 16, 40, 100]))
        elif r < 0.6:
            lines.append('m')
        elif r < 0.75:
            lines.append('u %d' % rng.randint(0, 5))
        else:
            lines.append('bad %d %d' % (rng.randint(0, 5), rng.choice([1, 8, 64, 300, 2000])))
    return '\n'.join(lines) + '\n'


def gen_pool(rng):
    pt = rng.choice(['node', 'array', 'small'])
    lines = ['pool %s %d %d' % (pt, rng.choice([8, 16, 24, 64]), rng.choice([256, 1024, 4096]))]
    for _ in range(rng.randint(10, 60)):
        r = rng.random()
        if r < 0.40:
            lines.append('a')
        elif r < 0.65:
            lines.append('d %d' % rng.randint(0, 30))
        elif r < 0.75 and pt != 'small':
            lines.append('aa %d' % rng.choice([2, 2, 3, 5]))
        elif r < 0.83 and pt != 'small':
            lines.append('da %d' % rng.randint(0, 10))
        elif r < 0.90 and pt != 'small':
            # deallocate_array a second time, earlier and latest released arrays
            lines.append('dbla %d' % rng.choice([0, 10 ** 6 - 1, rng.randint(0, 10)]))
        else:
            lines.append('dbl %d' % rng.choice([0, 10 ** 6 - 1, rng.randint(0, 20)]))
    return '\n'.join(lines) + '\n'


def oracle(kind, log, cfgflags):
    """the property on the implementation alone: every covered bad call is reported or stops the program, and changes nothing"""
    msgs = []
    dbl, ptr = cfgflags
    for ln in log.split('\n'):
        parts = ln.split('|')
        if '=' not in parts[0]:
            continue
        lhs, rhs = [x.strip().split() for x in parts[0].split('=', 1)]
        if not lhs or not rhs or rhs[0] == 'skipped':
            continue
        bad = (lhs[0] in ('dbl', 'dbla', 'bad', 'badfree'))
        if not bad:
            continue
        cls = rhs[0]
        covered = True
        if kind in ('ord', 'pool') or (kind == 'small' and len(rhs) > 1 and rhs[1].startswith('dbl')):
            covered = bool(dbl)
        if kind == 'pool' and lhs[0] in ('dbl', 'dbla') and 'pool small' in log.split('\n')[0]:
            covered = bool(dbl)
        if not ptr:
            covered = False
        if covered and cls not in STOPS:
            how = {'reported-after-change': 'reported only after the allocator state had been changed', 'hang': 'never answered (the call does not return and nothing is reported)',
                   'accepted': 'accepted without a report', 'crash': 'ended in a crash (SIGSEGV) with the state already changed'}.get(cls, cls)
            msgs.append('%s: the bad call "%s" was %s' % (kind, ' '.join(lhs + ['->'] + rhs[1:4]), how))
    return msgs


def run(ctx):
    ctx.regen(); ctx.prove()
    thorough = ctx.tier == 'thorough'
    rng = ctx.rng
    try:
        rexe = ctx.replay_exe()
    except build.BuildError as e:
        ctx.tie_broken.append('replay driver: ' + str(e)[:300]); rexe = None
    cfgs = ['chk', 'dbg8', 'base'] + (['dbg16'] if thorough else [])
    flags = {c: (build.CONFIGS[c]['DBL'], build.CONFIGS[c]['PTR']) for c in cfgs}
    build.warm(cfgs, [('invalid', ['h_invalid.cpp'], dict(extra=['-I', os.path.join(build.REPO, 'src')])), ('pool', ['h_pool.cpp'], {})])
    exe = {c: build.build_harness('invalid', c, ['h_invalid.cpp'], extra=['-I', os.path.join(build.REPO, 'src')]) for c in cfgs}
    n = 6 if thorough else 1
    cases = []
    for i in range(40 * n):
        for c in cfgs:
            cases.append(dict(exe=exe[c], script=gen_ord(rng, flags[c][0]), replay_args=['ordered', 'ord'], tag=('ord', c)))
    for i in range(25 * n):
        sc = gen_small(rng)
        for c in cfgs:
            cases.append(dict(exe=exe[c], script=sc, replay_args=['ordered', 'small'], tag=('small', c)))
    for i in range(25 * n):
        sc = gen_small_chunks(rng)
        for c in cfgs:
            cases.append(dict(exe=exe[c], script=sc, replay_args=['ordered', 'small'], tag=('small', c)))
    for i in range(15 * n):
        for g, k in ((gen_lifo, 'lifo'), (gen_unwind, 'unwind'), (gen_pool, 'pool'), (gen_lstack, 'lstack')):
            sc = g(rng)
            for c in cfgs:
                if k == 'pool' and not flags[c][0]:
                    continue      # without the double-free option a double release silently corrupts the list: not covered
                cases.append(dict(exe=exe[c], script=sc, replay_args=None, tag=(k, c)))
    res = runner.run_cases([c for c in cases if c['replay_args']], rexe) + runner.run_cases([c for c in cases if not c['replay_args']], None)
    per = {}; outcomes = {}; ops = 0; div = 0; badcalls = 0
    for r in res:
        kind, c = r['case']['tag']
        per[kind] = per.get(kind, 0) + 1
        ops += r['summ'].get('ops', 0)
        if r['rc'] != 0:
            ctx.tie_broken.append('harness exit %d (%s, %s)' % (r['rc'], kind, c))
            if len(ctx.violations) < 3:
                # the parent process only performs valid operations: a stop there is a false report (or a crash)
                ctx.violation('valid-stopped/%s/%s' % (kind, c), 'C16 fails on the implementation: a valid history was stopped (exit status %d) after: %s' % (r['rc'], r['log'].strip().split('\n')[-1][:100]),
                              dict(harness='h_invalid.cpp', config=c, script=r['case']['script'].split('\n')))
        if r['div']:
            div += len(r['div']); ctx.tie_broken.append('correspondence (%s, %s): %s' % (kind, c, r['div'][0][:300]))
        for ln in r['log'].split('\n'):
            t = ln.split('=', 1)
            if len(t) == 2 and t[0].split()[:1] and t[0].split()[0] in ('dbl', 'dbla', 'bad', 'badfree'):
                o = t[1].split()[0]
                if o != 'skipped':
                    badcalls += 1; outcomes[kind + ':' + o] = outcomes.get(kind + ':' + o, 0) + 1
        msgs = oracle(kind, r['log'], flags[c])
        if msgs and len(ctx.violations) < 3:
            ctx.violation('%s/%s/%s' % (kind, c, msgs[0][:60]), 'C16 fails on the implementation: ' + msgs[0], dict(harness='h_invalid.cpp', config=c, script=r['case']['script'].split('\n'), all=msgs[:5]))
    # valid histories through the public interface in the checking configurations: no report, no stop
    vcases = poolrun.make_cases(ctx, 12 * n, 10 * n, 8 * n, 0, ['chk', 'dbg8'], faults=False)
    vres = runner.run_cases(vcases, None)
    for r in vres:
        kind, tgt, c = r['case']['tag']
        if r['rc'] != 0 and len(ctx.violations) < 3:
            ctx.violation('valid/%s/%s' % (tgt, c), 'C16 fails on the implementation: a valid history was reported or stopped (exit status %d) after: %s' % (r['rc'], r['log'].strip().split('\n')[-1][:100]),
                          dict(harness='h_%s.cpp' % ('pool' if kind in ('pool', 'coll') else kind), config=c, script=r['case']['script'].split('\n')[:200]))
    ctx.tie_broken = ctx.tie_broken[:6]
    ctx.cov.update(dict(
        tie=dict(kind='(1) Exec lock-step of the real detail::ordered_free_memory_list (free nodes in list order and the last-deallocation cursor after every insert / allocate / array allocate / release, list object below and above its memory) against OrderedList; every double release runs in a forked child and its outcome class (reported / abort) must equal the model\'s (Reported / Unreachable or AssertFail); (2) small_free_memory_list: the chunk layout and free chains are dumped and InvalidRelease.s_dealloc must give the observed class for every bad pointer (outside, between boundaries, double) and the same chains after every valid release; a refused release must leave the chains unchanged; (3) LIFO sources, unwind above the top and pools through the public interface: outcome classes checked by the oracle',
                 configs=cfgs, histories_by_kind=per, lockstep_operations=ops, bad_calls=badcalls, outcomes=outcomes, divergences=div, valid_histories_in_checking_configs=len(vcases)),
        evaluations=len(cases) + len(vcases), distinct_nontrivial=len(set(c['script'] for c in cases)) + len(set(c['script'] for c in vcases)),
        rule='seeded histories; offending pointer = first / last / most recently freed / arbitrary free node (ordered list, pools), outside every chunk (before, in the header, between blocks, behind, one past the end), between node boundaries, already free (small list); blocks returned out of order or without a loan (static, virtual, fixed sources); markers above the top in the same and in a later block; valid pool / collection / stack histories in the chk and dbg8 configurations must run without any report; distinct = distinct scripts'))
    ctx.assumptions += ['double-free detection on node/array pools exists only with FOONATHAN_MEMORY_DEBUG_DOUBLE_DEALLOC_CHECK (configurations chk, dbg8, dbg16); intrusive lists have no foreign-pointer check and none is claimed',
                        'at the moment of a report the list state AND every byte of the managed memory must be what they were before the call (ordered and small list: the freed pattern is written only after the checks, fixes c0de011 and 6025e9a)']
    if res:
        ctx.samples.append(dict(kind=res[0]['case']['tag'], script=res[0]['case']['script'].split('\n')[:10], log=[l[:200] for l in res[0]['log'].split('\n')[:6]]))
