"""C19 -- arithmetic kernel: translator-regenerated GenArith.v + theorems + differential run."""
import os, subprocess, math
from vlib import proc, build, common

M64 = (1 << 64) - 1


def boundary_values(rng, extra=0):
    vs = set()
    for k in range(65):
        for d in (-2, -1, 0, 1, 2, 3):
            v = (1 << k) + d
            if 0 <= v <= M64:
                vs.add(v)
    for k in range(64):
        for j in range(0, k, 7):
            vs.add(((1 << k) + (1 << j)) & M64)
            vs.add(((1 << k) - (1 << j)) & M64)
    for _ in range(extra):
        vs.add(rng.getrandbits(64))
        vs.add(rng.getrandbits(rng.randint(1, 64)))
    return sorted(vs)


def gen_cases(ctx):
    rng = ctx.rng
    thorough = ctx.tier == 'thorough'
    vals = boundary_values(rng, 4000 if thorough else 400)
    small = list(range(0, 4096 if thorough else 1024))
    aligns = [1 << k for k in range(64)]
    cases = []
    classes = {}

    def add(cls, fn, *args):
        cases.append((fn, args)); classes[cls] = classes.get(cls, 0) + 1
    for v in vals + small:
        add('unary-boundary' if v >= 4096 else 'unary-small', 'is_valid_alignment', v)
        add('unary', 'alignment_for', v)
        add('unary', 'is_power_of_two', v)
        add('unary', 'identity_index_from_size', v)
        add('unary', 'identity_size_from_index', v)
        add('unary', 'arena_min_block_size', v)
        if v != 0:
            add('log', 'ilog2_base', v); add('log', 'ilog2', v); add('log', 'ilog2_ceil', v); add('log', 'log2_index_from_size', v)
        add('unary', 'small_chunk_count', v)
    for i in range(64):
        add('shift', 'log2_size_from_index', i)
    # binary: every alignment x boundary values, complete small domain x small alignments
    sub = vals if thorough else vals[::3]
    for a in aligns:
        for v in sub:
            add('align-pow2', 'round_up_to_multiple_of_alignment', v, a)
            add('align-pow2', 'align_offset', v, a)
            add('align-pow2', 'is_aligned', v, a)
    for a in aligns[:13]:
        for v in small:
            add('align-small-complete', 'round_up_to_multiple_of_alignment', v, a)
            add('align-small-complete', 'align_offset', v, a)
            add('align-small-complete', 'is_aligned', v, a)
    # invalid (non power of two) alignments: pure functions are still defined; translator validation only
    for _ in range(3000 if thorough else 500):
        a = rng.choice(vals); v = rng.choice(vals)
        add('align-arbitrary', 'round_up_to_multiple_of_alignment', v, a)
        add('align-arbitrary', 'align_offset', v, a)
        add('align-arbitrary', 'is_aligned', v, a)
    # size formulas
    for ns in list(range(0, 70)) + [255, 256, 257, 511, 512, 513] + rng.sample(vals, 30):
        for n in list(range(0, 40)) + [254, 255, 256, 509, 510, 511, 765, 1000, 2000] + rng.sample(vals, 10):
            add('block-size', 'free_list_min_block_size', ns, n)
            add('block-size', 'ordered_list_min_block_size', ns, n)
            add('block-size', 'small_list_min_block_size', ns, n)
    for ns in list(range(1, 70)) + [255, 256, 511, 512]:
        for sz in rng.sample(range(0, 1 << 20), 40) + rng.sample(vals, 10):
            add('usable', 'free_list_usable_size', ns, sz)
            add('usable', 'ordered_list_usable_size', ns, sz)
            add('usable', 'small_list_usable_size', ns, sz)
    for num, den in ((2, 1), (3, 2), (1, 1)):
        for v in vals:
            add('grow', 'grow_block_size', num, den, v)
    add('const', 'implementation_offset')
    for i in range(5):
        add('const', 'const', i)
    # bucket selection: every size 1..max for three list types, two policies, several maxima
    maxima = [8, 9, 63, 64, 65, 100, 512, 1000] + ([4096, 5000] if thorough else [])
    for lt in (0, 1, 2):
        for pol in (0, 1):
            for mx in maxima:
                if pol == 0 and mx > 1000:
                    continue
                if mx in (9, 64, 100):
                    for mode in (0, 1, 2):
                        add('bucket', 'bucket_max', lt, pol, mx, mode)
                for s in range(1, mx + 1):
                    add('bucket', 'bucket', lt, pol, mx, s)
                    if mx in (9, 64, 100):
                        add('bucket', 'bucket_moved', lt, pol, mx, s); add('bucket', 'bucket_assigned', lt, pol, mx, s)
                    if mx == 64:
                        add('bucket', 'bucket_static', lt, pol, mx, s)
    # log2 buckets for maxima beyond 2^31 (sampled sizes around every power of two): the index arithmetic is 64-bit
    for lt in (0, 1, 2):
        for mx in (2 ** 31, 2 ** 32 + 5, 2 ** 40):
            add('bucket', 'bucket_max', lt, 1, mx, 0)
            for k in range(3, mx.bit_length()):
                for s in (2 ** k - 1, 2 ** k, 2 ** k + 1):
                    if 1 <= s <= mx:
                        add('bucket', 'bucket', lt, 1, mx, s)
    return cases, classes


# ---------------- reference (mathematical) oracle, used only in the failing-input search --------------
def v2(x):
    return (x & -x).bit_length() - 1


def oracle(fn, args, r):
    """returns None if r agrees with the mathematical definition on this input (or the input is outside the
    property's domain), else a description"""
    if fn == 'round_up_to_multiple_of_alignment':
        s, a = args
        if a & (a - 1) or a == 0 or s + a > (1 << 64):
            return None
        exp = -(-s // a) * a
        if exp > M64:
            return None
        return None if r == exp else 'least multiple of %d >= %d is %d, got %d' % (a, s, exp, r)
    if fn == 'align_offset':
        s, a = args
        if a & (a - 1) or a == 0:
            return None
        exp = (-s) % a
        return None if r == exp else 'align_offset(%d,%d) should be %d, got %d' % (s, a, exp, r)
    if fn == 'is_aligned':
        s, a = args
        if a & (a - 1) or a == 0:
            return None
        exp = int(s % a == 0)
        return None if r == exp else 'is_aligned(%d,%d) should be %d' % (s, a, exp)
    if fn == 'is_valid_alignment':
        x, = args
        exp = int(x != 0 and x & (x - 1) == 0)
        return None if r == exp else 'is_valid_alignment(%d) should be %d' % (x, exp)
    if fn == 'alignment_for':
        x, = args
        if x == 0:
            return None
        exp = min(1 << v2(x), 16)
        return None if r == exp else 'alignment_for(%d) should be %d, got %d' % (x, exp, r)
    if fn == 'ilog2':
        x, = args
        return None if r == x.bit_length() - 1 else 'ilog2(%d) should be %d, got %d' % (x, x.bit_length() - 1, r)
    if fn in ('ilog2_ceil', 'log2_index_from_size'):
        x, = args
        exp = (x - 1).bit_length()
        return None if r == exp else '%s(%d) should be %d, got %d' % (fn, x, exp, r)
    if fn == 'bucket_max':
        lt, pol, mx, mode = args
        how = ['as constructed', 'after move construction', 'after move assignment onto an array built for a smaller maximum'][mode]
        if r < mx or (pol == 1 and r >= 2 * mx) or (pol == 0 and r != mx):
            return 'list array for maximum node size %d reports max_node_size() = %d %s (list type %d, policy %d)' % (mx, r, how, lt, pol)
        return None
    if fn in ('bucket', 'bucket_moved', 'bucket_assigned', 'bucket_static'):
        lt, pol, mx, s = args
        if r < s:
            return 'bucket for size %d has node size %d < size (list type %d, policy %d%s)' % (s, r, lt, pol, {'bucket': '', 'bucket_moved': ', after move construction of the list array', 'bucket_assigned': ', after move assignment of the list array', 'bucket_static': ', list array constructed during static initialisation'}[fn])
        me = 1 if lt == 2 else 8
        if pol == 1 and r >= 2 * s and r > me:
            return 'log2 bucket for size %d has node size %d >= 2*size' % (s, r)
        return None
    return None


def run(ctx):
    ctx.regen()
    pr = ctx.prove()
    exe = build.build_harness('arith', 'base', ['h_arith.cpp'], extra=['-fno-access-control'])
    cases, classes = gen_cases(ctx)
    inp = '\n'.join(fn + ''.join(' %x' % a for a in args) for fn, args in cases) + '\n'
    r = proc.run([exe], input=inp, timeout=600)
    log = r.stdout
    if r.returncode != 0:
        ctx.tie_broken.append('arith harness exited with %d' % r.returncode)
    try:
        rexe = ctx.replay_exe()
        rout = subprocess.run([rexe, 'arith'], input=log, stdout=subprocess.PIPE, text=True).stdout
    except build.BuildError as e:
        ctx.tie_broken.append('replay driver: ' + str(e)[:300]); rout = 'SUMMARY total=0 mismatches=0 unknown=0'

    class _R: pass
    rr = _R(); rr.stdout = rout
    summ = [l for l in rr.stdout.split('\n') if l.startswith('SUMMARY')]
    mism = [l for l in rr.stdout.split('\n') if l.startswith('MISMATCH') or l.startswith('UNKNOWN')]
    total = 0
    if summ:
        kv = dict(x.split('=') for x in summ[0].split()[1:])
        total = int(kv['total'])
        if int(kv['mismatches']) or int(kv['unknown']):
            ctx.tie_broken.append('differential: %s generated-model/implementation mismatches, e.g. %s' % (kv['mismatches'], mism[:3]))
    else:
        ctx.tie_broken.append('replay produced no summary: ' + rr.stdout[-300:])
    # property oracle on the implementation's answers (search for a concrete failing input)
    nbad = 0
    lines = log.split('\n')
    distinct = set()
    for ln in lines:
        if ' = ' not in ln:
            continue
        lhs, rhs = ln.split(' = ')
        toks = lhs.split()
        fn = toks[0]; args = tuple(int(x, 16) for x in toks[1:]); res = int(rhs, 16)
        distinct.add((fn, args))
        why = oracle(fn, args, res)
        if why:
            nbad += 1
            if nbad <= 3:
                ctx.violation('%s(%s)' % (fn, ','.join('%x' % a for a in args)), 'C19 fails on the implementation: ' + why,
                              dict(function=fn, args_hex=['%x' % a for a in args], result_hex='%x' % res, how='echo "<fn> <hex args>" | harness arith'))
    ctx.cov.update(dict(
        tie=dict(kind='translator (clang JSON AST -> Gallina, regenerated this run) + differential evaluation extracted-vs-compiled',
                 functions_translated=len([t for t in ctx.targets if 'params_out' in t]), functions_refused=len(ctx.gen_errors),
                 differential_evaluations=total, distinct_inputs=len(distinct), input_classes=classes, mismatches=len(mism),
                 oracle_failures=nbad),
        evaluations=total, distinct_nontrivial=len(distinct),
        rule='inputs: 2^k-2..2^k+3 for every k, sums/differences of two powers, seeded random 64-bit values, the complete domain below 2^10 (2^12 thorough) against all 64 power-of-two alignments; every bucket size 1..max for 3 list types x 2 policies; distinct = distinct (function, arguments) pairs'))
    ctx.samples += [l for l in lines[5000:5003] if l] + [l for l in lines if l.startswith('bucket')][100:102] + [l for l in lines if l.startswith('round_up')][777:779]
