"""C18 -- capacity figures: min_block_size enumeration on the real lists/pools vs the carving model and the generated formulas,
counters compared in lock-step on pool/collection/stack histories."""
import subprocess
from vlib import proc, build, runner
from checks import poolrun


def upper_bound_oracle(log):
    """a request above the reported maximum never succeeds"""
    msgs = []
    ns = None; maxn = None
    for ln in log.split('\n'):
        parts = ln.split('|')
        if len(parts) < 3 or '=' not in parts[0]:
            continue
        lhs, rhs = [x.strip().split() for x in parts[0].split('=', 1)]
        caps = dict(kv.split('=') for kv in parts[2].split() if '=' in kv)
        if 'ns' in caps:
            ns = int(caps['ns'])
        if 'maxn' in caps:
            maxn = int(caps['maxn'])
        if lhs and lhs[0] in ('an', 'tn') and rhs[:1] == ['ok']:
            size = int(lhs[1])
            if ns is not None and lhs and size > ns:
                msgs.append('node request of %d bytes succeeded on a pool whose max_node_size is %d' % (size, ns))
            if maxn is not None and size > maxn:
                msgs.append('node request of %d bytes succeeded on a collection whose max_node_size is %d' % (size, maxn))
    return msgs


def run(ctx):
    ctx.regen(); ctx.prove()
    thorough = ctx.tier == 'thorough'
    rng = ctx.rng
    try:
        rexe = ctx.replay_exe()
    except build.BuildError as e:
        ctx.tie_broken.append('replay driver: ' + str(e)[:300]); rexe = None
    # (1) enumeration of min_block_size on the real free lists (the property's stated domain in the thorough tier)
    exe = build.build_harness('minblock', 'base', ['h_minblock.cpp'])
    lines = []
    if thorough:
        for t in (0, 1, 2):
            for ns in range(1, 513):
                for n in range(1, 2001):
                    lines.append('L %d %d %d' % (t, ns, n))
    else:
        nss = list(range(1, 66)) + [100, 127, 128, 255, 256, 257, 511, 512]
        for t in (0, 1, 2):
            for ns in nss:
                for n in list(range(1, 30)) + [254, 255, 256, 509, 510, 511, 764, 765, 766, 1000, 1020, 1021, 2000] + rng.sample(range(30, 2000), 25):
                    lines.append('L %d %d %d' % (t, ns, n))
    for _ in range(3000 if thorough else 600):
        lines.append('S %d %d' % (rng.choice(list(range(1, 40)) + [64, 100, 255, 256]), rng.randint(600, 200000)))
    for _ in range(3000 if thorough else 400):
        lines.append('P %d %d %d' % (rng.randint(0, 2), rng.choice(list(range(1, 70)) + [128, 512]), rng.choice([1, 2, 25, 254, 255, 256, 510, 1000, rng.randint(1, 2000)])))
    out = proc.run([exe], input='\n'.join(lines) + '\n', timeout=600)
    if out.returncode != 0:
        ctx.tie_broken.append('min_block_size harness exit %d' % out.returncode)
    enum_total = 0; enum_div = 0
    # property oracle on the implementation's answers alone (does not need the model)
    for ln in out.stdout.split('\n'):
        t = ln.split()
        if len(t) >= 7 and t[0] in ('L', 'P') and t[4] == '=':
            got = int(t[6]); n = int(t[3])
            if got < n and len(ctx.violations) < 3:
                kind = {'0': 'node', '1': 'array', '2': 'small'}[t[1]]
                ctx.violation('minblock:%s:%s:%s' % (kind, t[2], t[3]),
                              'C18 fails on the implementation: %s %s with node size %s built from min_block_size(%s, %s) = %s bytes holds only %d nodes' % (kind, 'list' if t[0] == 'L' else 'pool', t[2], t[2], t[3], t[5], got),
                              dict(harness='h_minblock.cpp', input=' '.join(t[:4]), output=ln))
    if rexe:
        rr = subprocess.run([rexe, 'minblock'], input=out.stdout, stdout=subprocess.PIPE, text=True).stdout
        for ln in rr.split('\n'):
            if ln.startswith('SUMMARY'):
                kv = dict(x.split('=') for x in ln.split()[1:]); enum_total = int(kv['total']); enum_div = int(kv['diverged'])
            elif ln.startswith('DIVERGE'):
                ctx.tie_broken.append('correspondence: ' + ln[:300])

    # (2) counters in lock-step on histories
    cfgs = ['base', 'dbg8'] if not thorough else ['base', 'rel', 'dbg8', 'dbg16']
    cases = poolrun.make_cases(ctx, 30 if not thorough else 200, 25 if not thorough else 150, 20 if not thorough else 100, 0, cfgs, faults=False)
    res = runner.run_cases(cases, rexe)
    ops = 0; div = 0; per = {}
    for r in res:
        kind, tgt, c = r['case']['tag']; per[kind] = per.get(kind, 0) + 1
        ops += r['summ'].get('ops', 0)
        mine = [d for d in r['div'] if poolrun.concerns(d, 'C18') or 'capacity' in d]
        if r['rc'] != 0:
            ctx.tie_broken.append('harness exit %d on %s in %s' % (r['rc'], tgt, c))
        if mine:
            div += len(mine); ctx.tie_broken.append('correspondence: %s (%s cfg=%s)' % (mine[0][:300], tgt, c))
            if len(ctx.violations) < 3 and 'capacity' in mine[0]:
                ctx.violation('%s:%s/%s' % (kind, tgt, c), 'C18 fails on the implementation: a capacity figure does not move by exactly what the operation consumed/returned: ' + mine[0][:200],
                              dict(harness='h_%s.cpp' % ('pool' if kind == 'coll' else kind), config=c, script=r['case']['script'].split('\n')))
        msgs = upper_bound_oracle(r['log']) if kind in ('pool', 'coll') else []
        if msgs and len(ctx.violations) < 3:
            ctx.violation('%s:%s/%s' % (kind, tgt, c), 'C18 fails on the implementation: ' + msgs[0], dict(config=c, script=r['case']['script'].split('\n')))
    # (3) the maximum a bucket array reports must stay true through moves (arrays built for different maxima assigned onto each other)
    from checks import c19
    aexe = build.build_harness('arith', 'base', ['h_arith.cpp'], extra=['-fno-access-control'])
    mcases = [(lt, pol, mx, mode) for lt in (0, 1, 2) for pol in (0, 1) for mx in (9, 16, 64, 100, 200) for mode in (0, 1, 2)]
    mout = proc.run([aexe], input='\n'.join('bucket_max %x %x %x %x' % c for c in mcases) + '\n', timeout=120).stdout
    maxima_checked = 0
    for ln in mout.split('\n'):
        if ' = ' not in ln:
            continue
        lhs, rhs = ln.split(' = '); toks = lhs.split(); args = tuple(int(x, 16) for x in toks[1:]); maxima_checked += 1
        why = c19.oracle(toks[0], args, int(rhs, 16))
        if why and len(ctx.violations) < 3:
            ctx.violation('bucket_max(%s)' % ','.join('%d' % a for a in args), 'C18 fails on the implementation: a reported maximum is not true: ' + why,
                          dict(harness='h_arith.cpp', config='base', input=lhs, output=ln))
    if maxima_checked != len(mcases):
        ctx.tie_broken.append('bucket maxima: %d of %d answers' % (maxima_checked, len(mcases)))
    ctx.tie_broken = ctx.tie_broken[:6]
    ctx.cov.update(dict(
        tie=dict(kind='(1) real free lists / pools built from min_block_size(ns, n): node count compared with the carving model and with n, block size with the generated formula; (2) capacity_left / pool_capacity_left / next_capacity compared with the models after every operation of seeded histories',
                 enumeration_cases=enum_total, enumeration_exhaustive_over_stated_domain=thorough, enumeration_divergences=enum_div,
                 configs=cfgs, histories_by_kind=per, histories=len(cases), operations=ops, bucket_maxima_checked=maxima_checked, divergences=div),
        evaluations=enum_total + len(cases), distinct_nontrivial=len(set(lines)) + len(set(c['script'] for c in cases)),
        rule='list type x node size x node count around chunk boundaries (255k-1,255k,255k+1) and seeded; thorough: the complete domain node size 1..512 x count 1..2000 x 3 list types; plus seeded histories; distinct = distinct inputs/scripts'))
    ctx.samples += [l for l in out.stdout.split('\n')[:3]] + [dict(target=res[-1]['case']['tag'], log=res[-1]['log'].split('\n')[:6])]
