"""C17 -- fences and fill patterns: corruption experiments on the four low-level allocators replayed against Debug.lowlevel_cycle."""
import subprocess
from vlib import proc, build, runner
from checks import poolrun


def gen_lines(rng, thorough):
    lines = []
    allocs = ['heap', 'malloc', 'new', 'virtual']
    sizes = [1, 7, 8, 16, 24, 32, 100] + ([3, 64, 255, 1000, 4096, 5000] if thorough else [255])
    vals_quick = [0, 1, 0xFC, 0xFE, 0xFF, 0xCD, 0xDD]
    for a in allocs:
        fence = 4096 if a == 'virtual' else 16
        for size in sizes:
            al = rng.choice([1, 2, 4, 8, 16])
            lines.append('c %s %d %d 0' % (a, size, al))
            # every byte offset of both fences (sampled for the page-sized fences), several values
            offs = list(range(-fence, 0)) + list(range(size, size + fence))
            if a == 'virtual':
                offs = [-4096, -4095, -2049, -17, -16, -9, -8, -1, size, size + 1, size + 7, size + 8, size + 15, size + 4095] + rng.sample(offs, 24 if not thorough else 200)
            for o in offs:
                vs = range(256) if (thorough and a != 'virtual' and size <= 16) else [rng.choice(vals_quick), rng.randrange(256)]
                for v in vs:
                    lines.append('c %s %d %d 1 %d %d' % (a, size, al, o, v))
            # several corrupted bytes, also inside one machine word, front and back together
            for _ in range(40 if thorough else 12):
                k = rng.randint(2, 5)
                base = rng.choice(offs)
                ws = []
                for j in range(k):
                    o = base + rng.randint(0, 7) if rng.random() < 0.7 else rng.choice(offs)
                    if -fence <= o < 0 or size <= o < size + fence:
                        ws.append((o, rng.randrange(256)))
                if ws:
                    lines.append('c %s %d %d %d %s' % (a, size, al, len(ws), ' '.join('%d %d' % w for w in ws)))
            # the same stray value in several machine words of one fence (a memset over the fence, equal bytes 8 apart):
            # a word-wise comparison that folds words together must not let them cancel
            for side in (-fence, size):
                for v in ([0, 0xFF, 0xCD] if not thorough else [0, 1, 0xFF, 0xCD, 0xFC, 0x02]):
                    ws = [(side + j, v) for j in range(16)]
                    lines.append('c %s %d %d %d %s' % (a, size, al, len(ws), ' '.join('%d %d' % w for w in ws)))
                for _ in range(6 if not thorough else 20):
                    o = side + rng.randrange(0, fence - 8); v = rng.randrange(256)
                    d = 8 * rng.randint(1, max(1, (side + fence - 1 - o) // 8))
                    ws = [(o, v), (o + d, v)]
                    lines.append('c %s %d %d %d %s' % (a, size, al, len(ws), ' '.join('%d %d' % w for w in ws)))
            ws = [(-fence + j, 0) for j in range(16)] + [(size + j, 0) for j in range(16)]
            lines.append('c %s %d %d %d %s' % (a, size, al, len(ws), ' '.join('%d %d' % w for w in ws)))
            # in-bounds writes only: never reported
            for _ in range(6):
                ws = [(rng.randrange(size), rng.randrange(256)) for _ in range(rng.randint(1, 6))]
                lines.append('c %s %d %d %d %s' % (a, size, al, len(ws), ' '.join('%d %d' % w for w in ws)))
    return lines


def oracle(line):
    """property check on one implementation line: returns message or None"""
    lhs, rhs = line.split(' = ')
    t = lhs.split(); size = int(t[2]); n = int(t[4])
    ws = [(int(t[5 + 2 * i]), int(t[6 + 2 * i])) for i in range(n)]
    r = rhs.split(); fence = int(r[0].split('=')[1]); ncalls = int(r[1].split('=')[1]); calls = [int(x) for x in r[2:2 + ncalls]]
    mem = {}
    for o, v in ws:
        mem[o] = v
    front = sorted(o for o, v in mem.items() if -fence <= o < 0 and v != 0xFD)
    back = sorted(o for o, v in mem.items() if size <= o < size + fence and v != 0xFD)
    exp = ([front[0]] if front else []) + ([back[0]] if back else [])
    if fence == 0:
        exp = []
    if calls != exp:
        if exp and not calls:
            return 'fence corruption at node%+d not reported' % exp[0]
        if calls and not exp:
            return 'write inside the node (or of the fence pattern itself) reported as overflow at node%+d' % calls[0]
        return 'overflow handler called with %s, the first corrupted byte(s) are %s' % (['node%+d' % c for c in calls], ['node%+d' % e for e in exp])
    if 'pre=1' not in rhs:
        return 'fresh node does not carry 0xCD between 0xFD fences / is misaligned'
    return None


def run(ctx):
    ctx.regen(); ctx.prove()
    thorough = ctx.tier == 'thorough'
    cfgs = ['dbg8', 'dbg16', 'fen8', 'base']
    try:
        rexe = ctx.replay_exe()
    except build.BuildError as e:
        ctx.tie_broken.append('replay driver: ' + str(e)[:300]); rexe = None
    lines = gen_lines(ctx.rng, thorough)
    total = 0; div = 0; reported = 0; clean = 0; per = {}
    for c in cfgs:
        exe = build.build_harness('lowlevel', c, ['h_lowlevel.cpp'])
        use = lines
        if build.CONFIGS[c]['FENCE'] == 0:
            # no fences in this configuration: only experiments that stay inside the node are legal
            def inb(l):
                t = l.split(); size = int(t[2]); n = int(t[4])
                return all(0 <= int(t[5 + 2 * i]) < size for i in range(n))
            use = [l for l in lines if inb(l)]
        out = proc.run([exe], input='\n'.join(use) + '\n', timeout=600)
        if out.returncode != 0:
            ctx.tie_broken.append('low-level harness exit %d in %s' % (out.returncode, c))
        n = 0
        for ln in out.stdout.split('\n'):
            if ln.startswith('c ') and ' = ' in ln:
                n += 1
                why = oracle(ln)
                if why and len(ctx.violations) < 3:
                    ctx.violation('%s/%s' % (ln.split(' = ')[0], c), 'C17 fails on the implementation: %s (%s, config %s)' % (why, ln.split(' = ')[0], c),
                                  dict(harness='h_lowlevel.cpp', config=c, input=ln.split(' = ')[0], output=ln))
        per[c] = n
        if rexe:
            rr = subprocess.run([rexe, 'lowlevel'], input=out.stdout, stdout=subprocess.PIPE, text=True).stdout
            for ln in rr.split('\n'):
                if ln.startswith('SUMMARY'):
                    kv = dict(x.split('=') for x in ln.split()[1:])
                    total += int(kv['total']); div += int(kv['diverged']); reported += int(kv['reported']); clean += int(kv['clean'])
                elif ln.startswith('DIVERGE'):
                    ctx.tie_broken.append('correspondence (%s): %s' % (c, ln[:300]))
    # fill patterns of the other allocators: nofill / nofreedfill lines of pool, stack and iteration runs
    pcfgs = ['base', 'dbg8']
    cases = poolrun.make_cases(ctx, 15, 15, 10, 8, pcfgs, faults=False)
    res = runner.run_cases(cases, rexe)
    fills = 0
    for r in res:
        kind, tgt, c = r['case']['tag']
        fills += r['log'].count('= ok ')
        bad = [l for l in r['log'].split('\n') if l.startswith('nofill') or l.startswith('nofreedfill')]
        if bad and len(ctx.violations) < 3:
            ctx.violation('%s:%s/%s' % (kind, tgt, c), 'C17 fails on the implementation: fill pattern missing: ' + bad[0],
                          dict(config=c, script=r['case']['script'].split('\n')))
        hit = [l for l in r['log'].split('\n') if l.startswith('corrupt')]
        if hit and len(ctx.violations) < 3:
            ctx.violation('%s:%s/%s/neighbour' % (kind, tgt, c), 'C17 fails on the implementation: releasing memory (freed-memory fill, list links) wrote into a neighbouring live allocation: ' + hit[0],
                          dict(config=c, script=r['case']['script'].split('\n')))
        if r['rc'] != 0 and len(ctx.violations) < 3:
            ctx.violation('%s:%s/%s/stopped' % (kind, tgt, c), 'C17 fails on the implementation: the run was stopped (exit status %d) after: %s' % (r['rc'], r['log'].strip().split('\n')[-1][:100]),
                          dict(config=c, script=r['case']['script'].split('\n')))
    ctx.tie_broken = ctx.tie_broken[:6]
    ctx.cov.update(dict(
        tie=dict(kind='every experiment (allocate, corrupt chosen bytes, deallocate with a capturing overflow handler) replayed through Debug.lowlevel_cycle: the sequence of reported addresses must be equal; fresh nodes checked for 0xCD between 0xFD fences; pool/stack/iteration results checked for the new-memory pattern and released pool nodes for the freed pattern outside the link bytes',
                 configs=cfgs, experiments_per_config=per, experiments=total, reported=reported, not_reported=clean, divergences=div,
                 allocators=['heap_allocator', 'malloc_allocator', 'new_allocator', 'virtual_memory_allocator'], pattern_checks_on_other_allocators=fills),
        evaluations=total, distinct_nontrivial=len(set(lines)),
        rule='every byte offset of both 16-byte fences (sampled for the page-sized fences of the virtual allocator) x byte values (all 256 for small nodes in thorough), multi-byte corruptions inside one word and across both fences, equal stray values in several words of one fence (whole-fence memset, equal bytes 8k apart), in-bounds write sets, the fence value itself; node sizes 1..5000; distinct = distinct experiment lines'))
    ctx.samples += lines[3:5] + [l for l in lines if l.count(' ') > 8][:2]
