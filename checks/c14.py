"""C14 -- temporary allocators: nested scopes restore the stack; under a deterministic scheduler every shared-memory step of
the stack list is interleaved as the script says and the trace must be a run of the transition system."""
import itertools
from vlib import build, runner


def gen_case(rng, nthreads=None):
    n = nthreads or rng.choice([2, 2, 3, 3, 4])
    lines = ['main %d' % rng.choice([0, 1])]
    for t in range(1, n + 1):
        acts = []
        for _ in range(rng.randint(1, 6)):
            r = rng.random()
            if r < 0.3:
                acts.append('get')
            elif r < 0.45:
                acts.append('init')
            elif r < 0.6:
                acts.append('idtor')
            elif r < 0.8:
                acts.append('use %d' % rng.randint(1, 30))
            else:
                acts.append('scope %d' % rng.randint(1, 10 ** 6))
        acts.append('exit')
        lines.append('T %d %s' % (t, '; '.join(acts)))
    # a schedule with bursts (one thread runs several steps) and fine interleavings
    sched = []
    for _ in range(rng.randint(10, 60)):
        t = rng.randint(1, n)
        sched += [t] * rng.choice([1, 1, 1, 2, 3, 6])
    lines.append('S ' + ' '.join(map(str, sched)))
    return '\n'.join(lines) + '\n'


def gen_mode1(rng):
    """stack mode 1: the per-thread stack is created, destroyed by an initializer's destructor and created again"""
    n = rng.choice([1, 2, 3])
    lines = ['main 0']
    for t in range(1, n + 1):
        acts = []
        for _ in range(rng.randint(1, 4)):
            acts += [rng.choice(['init', 'init', 'get']), rng.choice(['use %d' % rng.randint(1, 20), 'scope %d' % rng.randint(1, 10 ** 6)])]
            if rng.random() < 0.8:
                acts += ['idtor', rng.choice(['use %d' % rng.randint(1, 20), 'get', 'scope %d' % rng.randint(1, 10 ** 6), 'init'])]
        acts.append('exit')
        lines.append('T %d %s' % (t, '; '.join(acts)))
    lines.append('S ' + ' '.join(str(rng.randint(1, n)) for _ in range(20)))
    return '\n'.join(lines) + '\n'


def systematic_cases(limit):
    """two threads, each asks for a stack and exits; every interleaving of their scheduling points (prefix of length 12)"""
    out = []
    for main in (0, 1):
        for acts in (('get; exit', 'get; exit'), ('init; idtor; get; exit', 'get; exit'), ('get; exit', 'init; idtor; exit')):
            count = 0
            for bits in itertools.product((1, 2), repeat=9):
                if count >= limit:
                    break
                count += 1
                out.append('main %d\nT 1 %s\nT 2 %s\nS %s\n' % (main, acts[0], acts[1], ' '.join(map(str, bits))))
    return out


def oracle(log):
    msgs = []
    holding = {}          # thread -> stack id
    last_stack = {}
    for ln in log.split('\n'):
        if ln.startswith('LEAK'):
            msgs.append('memory still allocated at program exit: ' + ln)
            continue
        if ln.startswith('STUCK'):
            msgs.append('a thread never reached its next scheduling point: ' + ln)
            continue
        parts = ln.split('|')
        t = parts[0].split()
        if len(t) < 5 or t[0] != 'S' or len(parts) < 3:
            continue
        th, frm, to, action = int(t[1]), int(t[2]), int(t[3]), t[4]
        obs_t = dict(x.split('=') for x in parts[1].split() if '=' in x)
        obs_u = dict(x.split('=') for x in parts[2].split() if '=' in x)
        if 'scope-MISMATCH' in parts[0]:
            msgs.append('after the end of a temporary_allocator scope the stack is not as it was at its construction: ' + parts[0].split('scope-MISMATCH')[1].strip())
        cur = int(obs_t.get('T%d' % th, -1))
        if to == 0 and action in ('get', 'init', 'use', 'scope') and cur >= 0:
            holding[th] = cur
        if to == 0 and action == 'idtor' and 'idtor' in t[5:]:
            holding.pop(th, None)
        if to == 9:
            s = holding.pop(th, None)
            if s is not None and obs_u.get('U%d' % s) == '1' and s not in holding.values():
                msgs.append('thread %d has exited but its temporary stack %d is still marked in use (it can never be reused)' % (th, s))
        # no two live threads hold one stack; what is held is marked in use
        seen = {}
        for a, s in holding.items():
            if s in seen:
                msgs.append('threads %d and %d use the same temporary stack %d (after "%s")' % (seen[s], a, s, parts[0].strip()))
            seen[s] = a
            if obs_u.get('U%d' % s) == '0':
                msgs.append('thread %d uses temporary stack %d, which is marked free (after "%s")' % (a, s, parts[0].strip()))
    return msgs


def run(ctx):
    ctx.regen(); ctx.prove()
    thorough = ctx.tier == 'thorough'
    rng = ctx.rng
    try:
        rexe = ctx.replay_exe()
    except build.BuildError as e:
        ctx.tie_broken.append('replay driver: ' + str(e)[:300]); rexe = None
    cfgs = ['base', 'dbg8'] + (['rel'] if thorough else [])
    build.warm(cfgs, [('temp', ['h_temp.cpp'], {})])
    exe = {c: build.build_harness('temp', c, ['h_temp.cpp']) for c in cfgs}
    scripts = systematic_cases(200 if thorough else 40) + [gen_case(rng) for _ in range(600 if thorough else 120)]
    cases = [dict(exe=exe[c], script=sc, replay_args=['temp', 'fixed'], tag=(('systematic' if i < len(scripts) - (600 if thorough else 120) else 'seeded'), c)) for i, sc in enumerate(scripts) for c in cfgs]
    res = runner.run_cases(cases, rexe, workers=8)
    tot = {}; per = {}
    for r in res:
        kind, c = r['case']['tag']; per[kind] = per.get(kind, 0) + 1
        for k, v in r['summ'].items():
            tot[k] = tot.get(k, 0) + v
        msgs = oracle(r['log'])
        if r['rc'] != 0:
            ctx.tie_broken.append('temp harness exit %d (%s)' % (r['rc'], c))
            msgs.insert(0, 'the program was stopped (exit status %d); last step: %s' % (r['rc'], r['log'].strip().split('\n')[-1][:120]))
        if r['div']:
            ctx.tie_broken.append('correspondence (%s): %s' % (c, r['div'][0][:300]))
        if msgs and len(ctx.violations) < 3:
            ctx.violation('%s/%s' % (c, msgs[0][:50]), 'C14 fails on the implementation: ' + msgs[0], dict(harness='h_temp.cpp', config=c, script=r['case']['script'].split('\n'), all=msgs[:5]))
    # stack mode 1 (one thread_local stack per thread): the same scripts without a shared list
    exe1 = build.build_harness('temp', 'base', ['h_temp.cpp'], tsmode=1)
    m1 = [dict(exe=exe1, script=gen_mode1(rng), replay_args=None, tag=('mode1', 'base')) for _ in range(150 if thorough else 40)]
    for r in runner.run_cases(m1, None, workers=8):
        msgs = oracle(r['log'])
        if r['rc'] != 0:
            msgs.insert(0, 'stack mode 1: the program was stopped (exit status %d); last step: %s' % (r['rc'], r['log'].strip().split('\n')[-1][:120]))
        if msgs and len(ctx.violations) < 3:
            ctx.violation('mode1/%s' % msgs[0][:50], 'C14 fails on the implementation (stack mode 1): ' + msgs[0], dict(harness='h_temp.cpp', config='base, FOONATHAN_MEMORY_TEMPORARY_STACK_MODE=1', script=r['case']['script'].split('\n'), all=msgs[:5]))
    # free-running threads: the atomic adoption step under real concurrency (supports the atomicity the model assumes)
    import subprocess
    stress = []
    for nt in (2, 4, 8):
        out = subprocess.run([exe['base'], 'stress', str(3000 if thorough else 400), str(nt)], stdout=subprocess.PIPE, stderr=subprocess.PIPE, text=True, timeout=900)
        ln = [l for l in out.stdout.split('\n') if l.startswith('stress')]
        stress.append(ln[0] if ln else 'exit %d' % out.returncode)
        if (out.returncode != 0 or not ln or 'shared=0' not in ln[0]) and len(ctx.violations) < 3:
            ctx.violation('stress/%d' % nt, 'C14 fails on the implementation: under %d free-running threads released together two live threads got the same temporary stack (%s)' % (nt, ln[0] if ln else 'exit %d' % out.returncode),
                          dict(harness='h_temp.cpp stress', args=['stress', 3000 if thorough else 400, nt], output=out.stdout[-300:]))
    ctx.tie_broken = ctx.tie_broken[:6]
    ctx.cov.update(dict(
        tie=dict(kind='guarded scheduling points before every shared-memory step of the stack list (find_unused load and each compare-exchange, the node constructor\'s load and push, clear, destroy); a scheduler releases exactly one of 2..4 real threads per step as the script says; after every step the stack each thread got and the in_use_ flag of every stack are compared with TempList.tstep run on the same schedule (which node is adopted, when a new one is created, what thread exit and initializer destruction clear); nested temporary_allocator scopes compare top / capacity_left / block count after each scope with the values at its construction; the leak checker\'s output at program exit is compared with the model\'s freed flag',
                 configs=cfgs, schedules_by_kind=per, schedules=len(cases), scheduler_steps=tot.get('steps', 0), model_events=tot.get('events', 0), adoptions=tot.get('adopted', 0), creations=tot.get('created', 0), divergences=tot.get('diverged', 0), mode1_runs=len(m1), free_running=stress),
        evaluations=len(cases) + len(m1), distinct_nontrivial=len(set(c['script'] for c in cases)) + len(m1),
        rule='systematic: two threads (get / initializer scope / exit) under every schedule prefix of length 9, main thread with and without a stack of its own; seeded: 2..4 threads with 1..6 actions each (get, initializer construction and destruction, allocations, nested scopes growing the stack by several blocks, exit) under bursty and fine-grained schedules; stack mode 1 with the same scripts; distinct = distinct (script, schedule) pairs',
        assumed=['sequentially consistent interleaving of the atomic steps (the code uses the default memory order); std::atomic and thread_local work as specified']))
    ctx.assumptions += ['interleaving semantics: one shared-memory step at a time (sequential consistency); real hardware reorderings are not modelled']
    if res:
        ctx.samples.append(dict(script=res[-1]['case']['script'].split('\n'), log=[l[:140] for l in res[-1]['log'].split('\n')[:8]]))
