"""C15 -- leak reports: histories with a capturing leak handler on pools, collections and stacks replayed against Leak.lrun;
process-wide report of the low-level allocators at exit."""
import subprocess
from vlib import proc, build, runner
from checks import poolgen


def gen_leak_script(rng, t):
    lines = [t['line']]
    sizes = [s for s in poolgen.req_sizes(rng, t) if s >= 1]
    for _ in range(rng.randint(5, 60)):
        r = rng.random()
        size = rng.choice(sizes)
        if t['kind'] == 'coll':
            size = min(size, t['mx'])
        if r < 0.45:
            lines.append('an %d 1' % size)
        elif r < 0.6 and t['pt'] != 'small':
            es = rng.choice([size, 1, 3, 5, 8, 12])
            es = min(es, t['mx'] if t['kind'] == 'coll' else t['lns'])
            lines.append('aa %d %d 1' % (rng.choice([1, 2, 3, 5, 9]), es))
        elif r < 0.85:
            lines.append('d %d' % rng.randint(0, 1000))
        elif r < 0.92:
            lines.append('mv')
        else:
            lines.append('ma %s' % rng.choice(['used', 'fresh']))
    if rng.random() < 0.4:
        lines.append('dall %s' % rng.choice(['fwd', 'rev']))     # balanced: must stay silent
    lines.append('destroy')
    return '\n'.join(lines) + '\n'


def gen_stack_script(rng):
    lines = ['stack %d grow' % rng.choice([256, 1024])]
    k = 0
    for _ in range(rng.randint(4, 40)):
        r = rng.random()
        if r < 0.5:
            lines.append('an %d %d' % (rng.choice([1, 8, 24, 100, 300]), rng.choice([1, 8, 16]))); k += 1
        elif r < 0.6:
            lines.append('aa %d %d 8' % (rng.choice([1, 3, 7]), rng.choice([4, 8, 12]))); k += 1
        elif r < 0.68:
            # a request that cannot be served (larger than any block the stack may take) throws: it must not be counted
            lines.append(rng.choice(['an %d 8' % rng.choice([1 << 20, 1 << 24]), 'aa 4096 4096 8']))
        elif r < 0.85 and k:
            lines.append('%s %d' % ('dn', rng.randrange(k)))
        elif r < 0.93:
            lines.append('mv')
        else:
            lines.append('ma %s' % rng.choice(['used', 'fresh']))
    lines.append('destroy')
    # a handle may be released only once and with its own kind: dedupe releases, fix the kind
    seen = set(); out = []; kinds = []
    for l in lines:
        t = l.split()
        if t[0] in ('an', 'aa') and not (int(t[1]) >= (1 << 20) or (t[0] == 'aa' and int(t[1]) * int(t[2]) >= (1 << 20))):
            kinds.append(t[0])
        if t[0] == 'dn':
            if t[1] in seen:
                continue
            seen.add(t[1]); l = ('da ' if kinds[int(t[1])] == 'aa' else 'dn ') + t[1]
        out.append(l)
    return '\n'.join(out) + '\n'


def oracle(log):
    """net bytes from the log itself"""
    net = 0; handles = {}; expect_assign = []; observed = None
    for ln in log.split('\n'):
        parts = ln.split('|'); head = parts[0]
        if '=' not in head:
            continue
        lhs, rhs = [x.strip().split() for x in head.split('=', 1)]
        if not lhs:
            continue
        if lhs[0] in ('an', 'aa') and rhs[:1] == ['ok']:
            b = int(lhs[1]) if lhs[0] == 'an' else int(lhs[1]) * int(lhs[2])
            handles[rhs[2]] = b; net += b
        elif lhs[0] in ('dn', 'da') and rhs[:1] == ['true']:
            net -= handles.get('h' + lhs[1], 0)
        elif lhs[0] == 'ma' and len(lhs) > 1 and lhs[1] == 'used':
            if 'held=0' not in rhs:       # the allocation made in the assigned-to object can itself be refused (tight blocks)
                expect_assign.append(1)
        elif lhs[0] == 'destroy':
            am = ln.split('amounts=')[1].split()[0] if 'amounts=' in ln else '[]'
            observed = [int(x) for x in am.strip('[]').split(',') if x]
    if observed is None:
        return []
    exp = expect_assign + ([net] if net != 0 else [])
    if observed != exp:
        return ['leak handler called with %s, exact accounting gives %s' % (observed, exp)]
    return []


def run(ctx):
    ctx.regen(); ctx.prove()
    thorough = ctx.tier == 'thorough'
    rng = ctx.rng
    cfgs = ['base', 'dbg8']
    try:
        rexe = ctx.replay_exe()
    except build.BuildError as e:
        ctx.tie_broken.append('replay driver: ' + str(e)[:300]); rexe = None
    build.warm(cfgs, [('pool', ['h_pool.cpp'], {}), ('stack', ['h_stack.cpp'], {}), ('llleak', ['h_llleak.cpp'], {})])
    ex_pool = {c: build.build_harness('pool', c, ['h_pool.cpp']) for c in cfgs}
    ex_stack = {c: build.build_harness('stack', c, ['h_stack.cpp']) for c in cfgs}
    cases = []
    n = 400 if thorough else 60
    for i in range(n):
        t = poolgen.gen_target(rng)
        sc = gen_leak_script(rng, t)
        for c in cfgs:
            cases.append(dict(exe=ex_pool[c], script=sc, replay_args=['leak'], tag=(t['kind'], t['line'], c)))
    for i in range(n // 2):
        sc = gen_stack_script(rng)
        for c in cfgs:
            cases.append(dict(exe=ex_stack[c], script=sc, replay_args=['leak'], tag=('stack', sc.split('\n')[0], c)))
    res = runner.run_cases(cases, rexe)
    ops = 0; div = 0; per = {}; reports = 0; silent = 0
    for r in res:
        kind, tgt, c = r['case']['tag']; per[kind] = per.get(kind, 0) + 1
        ops += r['summ'].get('ops', 0); k = r['summ'].get('reports', 0); reports += k; silent += (k == 0)
        if r['rc'] != 0:
            ctx.tie_broken.append('harness exit %d on %s in %s' % (r['rc'], tgt, c))
        if r['div']:
            div += len(r['div']); ctx.tie_broken.append('correspondence: %s (%s cfg=%s)' % (r['div'][0][:300], tgt, c))
        msgs = oracle(r['log'])
        if msgs and len(ctx.violations) < 3:
            ctx.violation('%s:%s/%s' % (kind, tgt, c), 'C15 fails on the implementation: ' + msgs[0],
                          dict(harness='h_%s.cpp' % ('stack' if kind == 'stack' else 'pool'), config=c, script=r['case']['script'].split('\n')))
    # stateless low-level allocators: one report at exit with the process-wide net (actual sizes incl. fences)
    ll = 0; glines = []
    for c in cfgs:
        exe = build.build_harness('llleak', c, ['h_llleak.cpp'])
        fence = build.CONFIGS[c]['FENCE'] and build.CONFIGS[c]['FILL']
        for a in ('heap', 'malloc', 'new', 'virtual'):
            for (nalloc, nrel, size) in [(5, 3, 100), (4, 4, 10), (1, 0, 1), (7, 2, 33)] + ([(rng.randint(1, 30), 0, rng.randint(1, 5000)) for _ in range(6)] if thorough else []):
                nrel = min(nrel, nalloc)
                out = proc.run([exe, a, str(nalloc), str(nrel), str(size)], timeout=120).stdout
                ll += 1
                rep = [l for l in out.split('\n') if l.startswith('REPORT')]
                per_node = (32 if (fence and a != 'virtual') else 0)
                net = sum(size + i + per_node for i in range(nrel, nalloc))
                exp = [net] if net else []
                got = [int(l.split()[-1]) for l in rep]
                glines.append('g %d %d %d %d observed=[%s]' % (1 if per_node else 0, nalloc, nrel, size, ','.join(str(x) for x in got)))
                if got != exp and len(ctx.violations) < 3:
                    ctx.violation('lowlevel:%s:%d:%d:%d/%s' % (a, nalloc, nrel, size, c),
                                  'C15 fails on the implementation: %s_allocator leaked %d bytes net but reported %s at exit' % (a, net, got),
                                  dict(harness='h_llleak.cpp', config=c, args=[a, nalloc, nrel, size], output=out))
    # the same processes against the model of the process-wide checker (Leak.gl_run)
    if rexe and glines:
        rr = subprocess.run([rexe, 'leak', 'global'], input='\n'.join(glines) + '\n', stdout=subprocess.PIPE, text=True).stdout
        for ln in rr.split('\n'):
            if ln.startswith('DIVERGE'):
                div += 1; ctx.tie_broken.append('correspondence (process-wide checker): ' + ln[:300])
    ctx.tie_broken = ctx.tie_broken[:6]
    ctx.cov.update(dict(
        tie=dict(kind='leak handler captured; sequence of reported amounts of every history must equal Leak.lrun on the same operations; low-level allocators run in child processes and must report the net once during static destruction, as Leak.gl_run (process-wide checker: counter objects, shared count) does on the same operations',
                 configs=cfgs, histories_by_kind=per, histories=len(cases), operations=ops, reports_observed=reports, silent_histories=silent,
                 lowlevel_processes=ll, divergences=div),
        evaluations=len(cases) + ll, distinct_nontrivial=len(set(c['script'] for c in cases)),
        rule='seeded traits-level histories (node and array requests whose element size differs from the node size) on pools, collections and stacks, leaving arbitrary subsets unreleased, with move constructions and move assignments onto fresh and onto leaking targets; distinct = distinct scripts'))
    if res:
        ctx.samples.append(dict(target=res[0]['case']['tag'], script=res[0]['case']['script'].split('\n')[:10], log=res[0]['log'].split('\n')[-3:]))
