"""C06 -- memory_stack markers/unwind: Exec lock-step of memory_stack<> against Stack.step + property oracle on the log."""
from vlib import build, runner
from checks import stackgen

CFG = {'rel': 0, 'base': 0, 'dbg8': 8, 'dbg16': 16}


def oracle(log):
    """C06 checked on the implementation's own log"""
    msgs = []
    markers = []        # (name, idx, top, end, cap)
    rec = []            # (request line, result) in effect since marker 0
    reclen = []
    expect = None
    stats = dict(replays=0, unwinds=0); prev_caps = None
    alive = []          # (offset, size, number of markers in effect when it was made): memory no unwind has released yet
    for ln in log.split('\n'):
        if ln.startswith('#replay-begin'):
            expect = list(rec); pos = 0; stats['replays'] += 1
            continue
        if ln.startswith('#replay-end'):
            expect = None
            continue
        if ln.startswith('marker_order_violation'):
            msgs.append('the comparison operators of two live markers contradict the allocation order: ' + ln[len('marker_order_violation '):])
            continue
        parts = ln.split('|')
        head = parts[0]
        if '=' not in head:
            if head.startswith('corrupt'):
                msgs.append('content of an allocation made before the marker was modified: ' + ln)
            continue
        lhs, rhs = [x.strip() for x in head.split('=', 1)]
        caps = dict(kv.split('=') for kv in parts[2].split() if '=' in kv) if len(parts) > 2 else {}
        t = lhs.split()
        # a move of the stack is not an operation on its memory: capacity and the block it would use next stay as they were
        if t[0] == 'mv' and prev_caps and caps and (caps.get('cap'), caps.get('next')) != (prev_caps.get('cap'), prev_caps.get('next')):
            msgs.append('moving the stack changed what it holds: capacity_left %s -> %s, next_capacity %s -> %s (blocks kept for reuse were lost)' % (prev_caps.get('cap'), caps.get('cap'), prev_caps.get('next'), caps.get('next')))
        if caps:
            prev_caps = caps
        if t[0] in ('ma', 'mfa', 'destroy'):
            alive = []
        if t[0] in ('a', 't'):
            res = rhs.split(' oom=')[0]
            rr = res.split()
            if len(rr) >= 2 and rr[0] == 'ok' and rr[1].lstrip('-').isdigit() and len(t) >= 2 and int(t[1]) > 0:
                off, size = int(rr[1]), int(t[1])
                for (o2, s2, d2) in alive:
                    if off < o2 + s2 and o2 < off + size and len(msgs) < 5:
                        msgs.append('"%s" returned [%d,+%d), which overlaps [%d,+%d): memory handed out earlier and not released by any unwind since (a marker or an unwind guard gave it up too early)' % (lhs, off, size, o2, s2))
                alive.append((off, size, len(markers)))
            if expect is not None:
                if pos < len(expect):
                    if expect[pos] != (lhs, res):
                        msgs.append('replay after unwind differs: %s gave "%s" the first time and "%s" on replay' % (lhs, expect[pos][1], res))
                    pos += 1
            if markers:
                rec.append((lhs, res))
        elif t[0] == 'top':
            r = rhs.split()
            m = (r[0], int(r[1]), int(r[2]), int(r[3]), int(caps.get('cap', -1)))
            if markers and not ((markers[-1][1], markers[-1][2]) <= (m[1], m[2])):
                msgs.append('marker order: newer marker %s compares below older %s' % (m, markers[-1]))
            markers.append(m); reclen.append(len(rec))
        elif t[0] == 'unwind' and rhs.startswith('done'):
            k = int(t[1]); stats['unwinds'] += 1
            if k < len(markers):
                if int(caps.get('cap', -2)) != markers[k][4]:
                    msgs.append('capacity_left after unwind to %s is %s, was %d when the marker was taken' % (markers[k][0], caps.get('cap'), markers[k][4]))
                if 'U-' in parts[1]:
                    msgs.append('unwind returned a block upstream (must be kept for reuse until shrink_to_fit)')
                markers = markers[:k + 1]; rec = rec[:reclen[k]]; reclen = reclen[:k + 1]
            alive = [x for x in alive if x[2] <= k]
    return msgs, stats


def run(ctx):
    ctx.regen()
    ctx.prove()
    thorough = ctx.tier == 'thorough'
    rng = ctx.rng
    cfgs = ['base', 'rel', 'dbg8', 'dbg16'] if thorough else ['base', 'dbg8', 'rel']
    build.warm(cfgs, [('stack', ['h_stack.cpp'], {})])
    exes = {c: build.build_harness('stack', c, ['h_stack.cpp']) for c in cfgs}
    try:
        rexe = ctx.replay_exe()
    except build.BuildError as e:
        ctx.tie_broken.append('replay driver: ' + str(e)[:300]); rexe = None
    cases = []
    n = 400 if thorough else 60
    for i in range(n):
        sc = stackgen.gen_script(rng, faults=(i % 4 == 0), shrink=(i % 3 != 1))
        for c in cfgs:
            cases.append(dict(exe=exes[c], script=sc, replay_args=['stack', str(CFG[c])], tag=(sc.split('\n')[0], c)))
    res = runner.run_cases(cases, rexe)
    tot = dict(ops=0, growths=0, unwinds=0, cross_block_unwinds=0)
    div = 0; replays = 0
    for r in res:
        for k in tot:
            tot[k] += r['summ'].get(k, 0)
        tgt, c = r['case']['tag']
        if r['rc'] != 0:
            ctx.tie_broken.append('harness exit %d on %s in %s' % (r['rc'], tgt, c))
        if r['div']:
            div += len(r['div'])
            ctx.tie_broken.append('correspondence: %s (%s cfg=%s)' % (r['div'][0], tgt, c))
        msgs, st = oracle(r['log'])
        replays += st['replays']
        if r['rc'] != 0:
            msgs.append('memory_stack crashed (exit status %d) after: %s' % (r['rc'], r['log'].strip().split('\n')[-1][:80]))
        if msgs and len(ctx.violations) < 3:
            ctx.violation('%s/%s' % (tgt, c), 'C06 fails on the implementation: ' + msgs[0],
                          dict(harness='h_stack.cpp', config=c, script=r['case']['script'].split('\n'), all=msgs[:5]))
    ctx.tie_broken = ctx.tie_broken[:6]
    ctx.cov.update(dict(
        tie=dict(kind='Exec lock-step: every address, null/throw class, marker (index, top, end), capacity_left, next_capacity and every upstream call equal to Stack.step',
                 configs=cfgs, targets=['memory_stack<growing_block_allocator<upstream>>', 'memory_stack<fixed_block_allocator<upstream>>'],
                 histories=len(cases), operations=tot['ops'], growths=tot['growths'], unwinds=tot['unwinds'],
                 cross_block_unwinds=tot['cross_block_unwinds'], replay_blocks=replays, divergences=div),
        evaluations=len(cases), distinct_nontrivial=len(set(c['script'] for c in cases)),
        rule='seeded histories of allocate/try_allocate/top/unwind (nested, across blocks)/shrink_to_fit/move with replay blocks after unwinds; over-aligned (up to 4096) and block-sized requests; distinct = distinct scripts'))
    if res:
        ctx.samples.append(dict(target=res[0]['case']['tag'], script=res[0]['case']['script'].split('\n')[:14], log=res[0]['log'].split('\n')[:14]))
