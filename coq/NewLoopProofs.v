From Coq Require Import List Arith Bool Lia.
From FM Require Import NewLoop.
Import ListNotations.

(* with handlers that install one another only downwards, the loop started with handler h ends within h + 3 rounds: it never
   runs out of fuel, so the caller gets a pointer or null -- and lowlevel_allocator turns null into out_of_memory *)
Lemma new_loop_ends table : descending table -> forall fuel avail cur,
  (match cur with Some h => h + 3 | None => 2 end) <= fuel -> fst (new_loop fuel table avail cur) <> NFuel.
Proof.
  intros Hd. induction fuel as [|f IH]; intros avail cur Hf; [destruct cur; lia|].
  cbn [new_loop]. destruct avail; [discriminate|]. destruct cur as [h|]; [|discriminate].
  destruct (table h) eqn:E; [discriminate| | |].
  - specialize (IH false None ltac:(cbn; lia)). destruct (new_loop f table false None). exact IH.
  - specialize (IH false (Some next) ltac:(pose proof (Hd h next E); cbn; lia)). destruct (new_loop f table false (Some next)). exact IH.
  - assert (H : fst (new_loop f table true (Some h)) <> NFuel) by (destruct f; [lia|cbn; discriminate]).
    destruct (new_loop f table true (Some h)). exact H.
Qed.

Theorem failure_is_signalled table avail cur fuel : descending table ->
  (match cur with Some h => h + 3 | None => 2 end) <= fuel ->
  fst (ll_allocate fuel table avail cur) = LPtr \/ fst (ll_allocate fuel table avail cur) = LThrowOom 1.
Proof.
  intros Hd Hf. unfold ll_allocate. pose proof (new_loop_ends table Hd fuel avail cur Hf) as H.
  destruct (new_loop fuel table avail cur) as [[| |] c]; cbn [fst] in *; [left; reflexivity|right; reflexivity|contradiction].
Qed.

(* no handler is called twice: the handlers called are strictly descending (at most one of them twice in a row is excluded:
   after HbFree memory is available and the loop ends) *)
Fixpoint strictly_desc (l : list nat) : Prop :=
  match l with a :: ((b :: _) as tl) => b < a /\ strictly_desc tl | _ => True end.
Lemma new_loop_calls_desc table : descending table -> forall fuel avail cur,
  strictly_desc (snd (new_loop fuel table avail cur)) /\
  (forall x, hd_error (snd (new_loop fuel table avail cur)) = Some x -> cur = Some x).
Proof.
  intros Hd. induction fuel as [|f IH]; intros avail cur; cbn [new_loop]; [split; [exact I|discriminate]|].
  destruct avail; [split; [exact I|discriminate]|]. destruct cur as [h|]; [|split; [exact I|discriminate]].
  destruct (table h) eqn:E.
  - cbn. split; [exact I|intros x Hx; inversion Hx; reflexivity].
  - destruct (IH false None) as [I1 I2]. destruct (new_loop f table false None) as [o c]. cbn [snd hd_error] in *. split; [|intros x Hx; inversion Hx; reflexivity].
    destruct c as [|b c']; [exact I|]. specialize (I2 b eq_refl). discriminate.
  - destruct (IH false (Some next)) as [I1 I2]. destruct (new_loop f table false (Some next)) as [o c]. cbn [snd hd_error] in *. split; [|intros x Hx; inversion Hx; reflexivity].
    destruct c as [|b c']; [exact I|]. specialize (I2 b eq_refl). inversion I2; subst. split; [exact (Hd h b E)|exact I1].
  - assert (Hc : snd (new_loop f table true (Some h)) = []) by (destruct f; reflexivity).
    destruct (new_loop f table true (Some h)) as [o c]. cbn [snd] in *. subst c. cbn. split; [exact I|intros x Hx; inversion Hx; reflexivity].
Qed.

Theorem no_handler_called_twice table fuel avail cur : descending table -> strictly_desc (snd (ll_allocate fuel table avail cur)).
Proof.
  intros Hd. unfold ll_allocate. pose proof (proj1 (new_loop_calls_desc table Hd fuel avail cur)) as H.
  destruct (new_loop fuel table avail cur) as [[| |] c]; exact H.
Qed.
