From Coq Require Import ZArith NArith List Lia Bool ZifyN ZifyBool.
From FM Require Import Wrap Bits GenArith ArithModel ArithProofs FixedStack.
Import ListNotations.
Local Open Scope Z_scope.
Ltac Zify.zify_post_hook ::= Z.div_mod_to_equations.

Lemma align_off_bounds a al : 0 < al -> 0 <= align_off a al < al.
Proof. intros. unfold align_off. apply Z.mod_pos_bound. assumption. Qed.

Lemma align_off_aligns a al : 0 < al -> (a + align_off a al) mod al = 0.
Proof.
  intros Hal. unfold align_off.
  pose proof (Z.mod_pos_bound a al Hal) as Hb. pose proof (Z.div_mod a al ltac:(lia)) as Hd.
  destruct (Z.eq_dec (a mod al) 0) as [E|E].
  - rewrite E, Z.sub_0_r, Z.mod_same, Z.add_0_r by lia. assumption.
  - rewrite (Z.mod_small (al - a mod al)) by lia.
    replace (a + (al - a mod al)) with ((a / al + 1) * al) by lia. apply Z.mod_mul. lia.
Qed.

(* the Z-level helper is the generated kernel function (so a change to align_offset in the C++ source
   invalidates everything below) *)
Lemma align_off_is_kernel k a : (k < 64)%N -> 0 <= a < 2^64 ->
  Z.of_N (align_offset (Z.to_N a) (2^k)%N) = align_off a (2^(Z.of_N k)).
Proof.
  intros Hk Ha. rewrite align_offset_spec; [|assumption|lia].
  unfold align_off. rewrite N2Z.inj_mod, N2Z.inj_sub.
  - rewrite N2Z.inj_mod, N2Z.inj_pow, Z2N.id by lia. reflexivity.
  - pose proof (pow2_pos k). apply N.lt_le_incl, N.mod_lt. lia.
Qed.

Lemma fs_alloc_spec fence cur e size al p top' :
  0 < al -> 0 <= fence -> 0 <= size ->
  fs_alloc fence cur e size al = Some (p, top') ->
  cur <> 0 /\ cur + fence <= p /\ p < cur + fence + al /\ p mod al = 0 /\ top' = p + size + fence /\ top' <= e.
Proof.
  intros Hal Hf Hs. unfold fs_alloc.
  destruct (Z.eqb_spec cur 0) as [|Hc]; [discriminate|].
  pose proof (align_off_bounds (cur + fence) al Hal) as Hb.
  pose proof (align_off_aligns (cur + fence) al Hal) as Ha.
  set (o := align_off (cur + fence) al) in *.
  destruct (Z.gtb_spec (fence + o + size + fence) (e - cur)); [discriminate|].
  intros E. injection E as <- <-. repeat split; try lia.
Qed.

Lemma fs_alloc_none_iff fence cur e size al :
  fs_alloc fence cur e size al = None <->
  cur = 0 \/ fence + align_off (cur + fence) al + size + fence > e - cur.
Proof.
  unfold fs_alloc. destruct (Z.eqb_spec cur 0) as [|Hc].
  - split; [intros _; left; assumption|reflexivity].
  - destruct (Z.gtb_spec (fence + align_off (cur + fence) al + size + fence) (e - cur)).
    + split; [intros _; right; lia|reflexivity].
    + split; [discriminate|intros [|]; [contradiction|lia]].
Qed.

Lemma fs_alloc_delta fence cur e size al p top' :
  fs_alloc fence cur e size al = Some (p, top') -> top' - cur = fence + align_off (cur + fence) al + size + fence.
Proof.
  unfold fs_alloc. destruct (cur =? 0); [discriminate|].
  destruct (_ >? _); [discriminate|]. intros E. injection E as <- <-. lia.
Qed.
