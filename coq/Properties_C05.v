(* C05 -- every upstream block is returned exactly once, unchanged, in reverse order.
   Statements only.  Arena.v / Stack.v are Exec models tied to memory_arena<> and memory_stack<> by lock-step
   replay of every upstream call; pools and collections are covered by the destruction check of PoolSpec. *)
From Coq Require Import ZArith List Bool.
From FM Require Import InvalidRelease SmallList SmallRefine OrderedList OrderedRefine CollExec CollExecProofs CollInst CollSizes CollInstProofs UnorderedList UnorderedRefine PoolSpec PoolSpecProofs SlotProofs ListLib SmallCarve FixedStack Stack StackProofs Arena ArenaProofs.
Import ListNotations.
Local Open Scope Z_scope.

(* arena, cached or not, any block source, with or without a failing source: the upstream calls of each
   operation append an acquired block or give back the newest block held, with its address and size *)
Theorem C05_arena_step_is_lifo : forall a o ans, ar_wf a ->
  apply_calls (ar_order a) (snd (astep a o ans)) = Some (ar_order (fst (fst (astep a o ans)))).
Proof. exact astep_lifo. Qed.
Print Assumptions C05_arena_step_is_lifo.

Theorem C05_arena_wf_preserved : forall a o ans, ar_wf a -> ar_wf (fst (fst (astep a o ans))).
Proof. exact astep_wf. Qed.
Print Assumptions C05_arena_wf_preserved.

(* any history followed by destruction: everything acquired has been returned exactly once, newest first *)
Theorem C05_arena_history_balanced : forall h a, ar_wf a ->
  let '(a', calls) := ar_run a h in
  apply_calls (ar_order a) (calls ++ ar_destroy_calls a') = Some [].
Proof. exact ar_history_balanced. Qed.
Print Assumptions C05_arena_history_balanced.

Theorem C05_cached_blocks_reused_first : forall a ans, ar_cache a <> [] -> snd (astep a ABlock ans) = [].
Proof. exact ar_cache_first. Qed.
Print Assumptions C05_cached_blocks_reused_first.

Theorem C05_source_failure_changes_nothing : forall a ans,
  snd (fst (astep a ABlock ans)) = AThrowUpstream \/ snd (fst (astep a ABlock ans)) = AThrowFixed ->
  fst (fst (astep a ABlock ans)) = a.
Proof. exact ar_failure_unchanged. Qed.
Print Assumptions C05_source_failure_changes_nothing.

(* memory_stack: the same discipline for every stack operation, and destruction returns everything *)
Theorem C05_stack_step_is_lifo : forall fence s o ans,
  let '(s', out, calls, w) := step fence s o ans in
  apply_calls (order s) calls = Some (order s').
Proof. exact step_lifo. Qed.
Print Assumptions C05_stack_step_is_lifo.

Theorem C05_stack_destroy_returns_all : forall s, apply_calls (order s) (destroy_calls s) = Some [].
Proof. exact destroy_returns_all. Qed.
Print Assumptions C05_stack_destroy_returns_all.

Theorem C05_stack_upstream_only_when_cache_empty : forall fence s o ans,
  let '(s', out, calls, w) := step fence s o ans in
  (exists sz a, In (UAlloc sz a) calls) -> s_cache s = [].
Proof. exact upstream_only_when_cache_empty. Qed.
Print Assumptions C05_stack_upstream_only_when_cache_empty.

Example C05_nonvacuous :
  let a0 := ar_init AGrow true 256 in
  let '(a1, calls) := ar_run a0 [(ABlock, Some 4096); (ABlock, Some 8192); (ADealloc, None); (ABlock, None); (ABlock, None); (AShrink, None)] in
  length (ar_used a1) = 2%nat /\ length calls = 3%nat /\ apply_calls (ar_order a0) (calls ++ ar_destroy_calls a1) = Some [].
Proof. vm_compute. repeat split; reflexivity. Qed.

(* the Exec models of memory_pool_collection (CollExec.v): in every state a history can reach, the destructor -- the arena's -- gives
   back exactly the blocks the Spec holds, newest first, each once, with the address and size they were obtained with *)
Theorem C05_collection_exec_destruction_returns_every_block : forall s sp, UCPR s sp ->
  ar_destroy_calls (cc_ar _ s) = map (fun b => UFree (fst b) (snd b)) (a_held sp) /\ destroy_ok sp (a_held sp) = true.
Proof. exact ucoll_destruction_returns_every_block. Qed.
Print Assumptions C05_collection_exec_destruction_returns_every_block.
Theorem C05_ordered_collection_exec_destruction_returns_every_block : forall s sp, OCPR s sp ->
  ar_destroy_calls (cc_ar _ s) = map (fun b => UFree (fst b) (snd b)) (a_held sp) /\ destroy_ok sp (a_held sp) = true.
Proof. exact ocoll_destruction_returns_every_block. Qed.
Print Assumptions C05_ordered_collection_exec_destruction_returns_every_block.
Theorem C05_small_collection_exec_destruction_returns_every_block : forall s sp, SCPR s sp ->
  ar_destroy_calls (cc_ar _ s) = map (fun b => UFree (fst b) (snd b)) (a_held sp) /\ destroy_ok sp (a_held sp) = true.
Proof. exact scoll_destruction_returns_every_block. Qed.
Print Assumptions C05_small_collection_exec_destruction_returns_every_block.
