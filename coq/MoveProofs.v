From Coq Require Import ZArith List Bool Arith Lia Permutation.
From FM Require Import Move.
Import ListNotations.
Local Open Scope Z_scope.

Lemma get_set_same w k s : get (set w k s) k = s.
Proof. revert w. induction k as [|k IH]; intros [|x w]; cbn; try reflexivity; apply IH. Qed.
Lemma get_nil k : get [] k = SEmpty.
Proof. unfold get. destruct k; reflexivity. Qed.
Lemma get_set_other w k j s : k <> j -> get (set w k s) j = get w j.
Proof.
  revert w j. induction k as [|k IH]; intros w j H.
  - destruct j as [|j]; [lia|]. destruct w as [|x w]; unfold get; cbn; [destruct j; reflexivity|reflexivity].
  - destruct w as [|x w]; destruct j as [|j]; unfold get in *; cbn; try reflexivity.
    + rewrite (IH [] j) by lia. destruct j; reflexivity.
    + apply IH. lia.
Qed.

(* what the world owns changes by exactly the slot that is set *)
Lemma owned_cons x w : owned (x :: w) = owned_slot x ++ owned w.
Proof. reflexivity. Qed.
Lemma get_cons_S x w k : get (x :: w) (S k) = get w k.
Proof. reflexivity. Qed.

Lemma owned_set w k s : Permutation (owned_slot s ++ owned w) (owned_slot (get w k) ++ owned (set w k s)).
Proof.
  revert w. induction k as [|k IH]; intros [|x w].
  - cbn. rewrite !app_nil_r. reflexivity.
  - change (set (x :: w) 0 s) with (s :: w). change (get (x :: w) 0) with x. rewrite !owned_cons. apply Permutation_app_swap_app.
  - change (set [] (S k) s) with (SEmpty :: set [] k s). rewrite get_nil, owned_cons. cbn [owned_slot app].
    specialize (IH []). rewrite get_nil in IH. cbn [owned_slot app] in IH. exact IH.
  - change (set (x :: w) (S k) s) with (x :: set w k s). rewrite get_cons_S, !owned_cons.
    eapply Permutation_trans; [apply Permutation_app_swap_app|].
    eapply Permutation_trans; [apply Permutation_app_head; apply IH|]. apply Permutation_app_swap_app.
Qed.

Lemma remove1_perm b l l' : remove1 b l = Some l' -> Permutation l (b :: l').
Proof.
  revert l'. induction l as [|x tl IH]; intros l' H; cbn in H; [discriminate|].
  destruct (Z.eqb_spec x b) as [->|]; [injection H as <-; reflexivity|].
  destruct (remove1 b tl) as [tl'|]; [|discriminate]. injection H as <-. rewrite (IH tl' eq_refl). apply perm_swap.
Qed.

(* conservation: what was owned plus what the operation acquires = what is owned afterwards plus what it returned upstream *)
Theorem step_conserves w o w' r : mstep w o = Some (w', r) -> Permutation (acquired_by o ++ owned w) (r ++ owned w').
Proof.
  destruct o as [k bs|k bs|k b|i j|i j|i j|k]; cbn [mstep acquired_by]; intros H.
  - destruct (get w k) eqn:G; [|discriminate]. injection H as <- <-. pose proof (owned_set w k (SObj false bs)) as P. rewrite G in P. exact P.
  - destruct (get w k) as [|m b] eqn:G; [discriminate|]. injection H as <- <-. pose proof (owned_set w k (SObj false (bs ++ b))) as P. rewrite G in P. cbn [owned_slot app] in *.
    apply (Permutation_app_inv_l b). rewrite <- P. rewrite !app_assoc. apply Permutation_app_tail. apply Permutation_app_comm.
  - destruct (get w k) as [|m bl] eqn:G; [discriminate|]. destruct (remove1 b bl) as [bl'|] eqn:R; [|discriminate]. injection H as <- <-.
    pose proof (owned_set w k (SObj m bl')) as P. rewrite G in P. cbn [owned_slot] in P. apply remove1_perm in R. cbn [app].
    apply (Permutation_app_inv_l bl'). eapply Permutation_trans; [exact P|]. eapply Permutation_trans; [apply Permutation_app_tail; exact R|]. cbn [app]. apply Permutation_middle.
  - destruct (Nat.eqb_spec i j) as [|Hij]; [discriminate|]. destruct (get w i) as [|m b] eqn:Gi; [discriminate|]. destruct (get w j) eqn:Gj; [|discriminate]. injection H as <- <-.
    pose proof (owned_set w j (SObj m b)) as P1. rewrite Gj in P1.
    pose proof (owned_set (set w j (SObj m b)) i (SObj true [])) as P2. rewrite get_set_other, Gi in P2 by lia. cbn [owned_slot app] in *.
    apply (Permutation_app_inv_l b). exact (Permutation_trans P1 P2).
  - destruct (Nat.eqb_spec i j) as [|Hij]; [discriminate|]. destruct (get w i) as [|m b] eqn:Gi; [discriminate|]. destruct (get w j) as [|mj old] eqn:Gj; [discriminate|]. injection H as <- <-.
    pose proof (owned_set w j (SObj m b)) as P1. rewrite Gj in P1.
    pose proof (owned_set (set w j (SObj m b)) i (SObj true [])) as P2. rewrite get_set_other, Gi in P2 by lia. cbn [owned_slot app] in *.
    apply (Permutation_app_inv_l b). eapply Permutation_trans; [exact P1|]. eapply Permutation_trans; [apply Permutation_app_head; exact P2|]. apply Permutation_app_swap_app.
  - destruct (Nat.eqb_spec i j) as [|Hij]; [discriminate|]. destruct (get w i) as [|mi bi] eqn:Gi; [discriminate|]. destruct (get w j) as [|mj bj] eqn:Gj; [discriminate|]. injection H as <- <-.
    pose proof (owned_set w j (SObj mi bi)) as P1. rewrite Gj in P1.
    pose proof (owned_set (set w j (SObj mi bi)) i (SObj mj bj)) as P2. rewrite get_set_other, Gi in P2 by lia. cbn [owned_slot app] in *.
    apply (Permutation_app_inv_l bi). exact (Permutation_trans P1 P2).
  - destruct (get w k) as [|m b] eqn:G; [discriminate|]. injection H as <- <-. pose proof (owned_set w k SEmpty) as P. rewrite G in P. exact P.
Qed.

Theorem run_conserves : forall os w w' r, mrun w os = Some (w', r) -> Permutation (flat_map acquired_by os ++ owned w) (r ++ owned w').
Proof.
  induction os as [|o tl IH]; intros w w' r H; cbn in H.
  - injection H as <- <-. reflexivity.
  - destruct (mstep w o) as [[w1 r1]|] eqn:S; [|discriminate]. destruct (mrun w1 tl) as [[w2 r2]|] eqn:R; [|discriminate]. injection H as <- <-.
    cbn [flat_map]. rewrite <- app_assoc. rewrite (Permutation_app_swap_app (acquired_by o)). rewrite (step_conserves _ _ _ _ S).
    rewrite Permutation_app_swap_app. rewrite (IH _ _ _ R). rewrite app_assoc. reflexivity.
Qed.

(* every block acquired in a history that starts and ends with no objects is returned exactly once *)
Theorem every_block_returned_exactly_once os w' r : mrun [] os = Some (w', r) -> owned w' = [] -> NoDup (flat_map acquired_by os) ->
  Permutation (flat_map acquired_by os) r /\ NoDup r.
Proof.
  intros H E N. pose proof (run_conserves _ _ _ _ H) as P. rewrite E in P. cbn [owned flat_map] in P. rewrite !app_nil_r in P.
  split; [exact P|]. eapply Permutation_NoDup; eassumption.
Qed.

(* at any point: nothing is both returned and still owned, nothing is returned twice (blocks are distinct when acquired) *)
Theorem no_double_release os w' r : mrun [] os = Some (w', r) -> NoDup (flat_map acquired_by os) -> NoDup (r ++ owned w').
Proof.
  intros H N. pose proof (run_conserves _ _ _ _ H) as P. cbn [owned flat_map] in P. rewrite app_nil_r in P. eapply Permutation_NoDup; eassumption.
Qed.

(* the transfer itself *)
Theorem move_construct_transfers w i j w' r : mstep w (MMoveCons i j) = Some (w', r) ->
  r = [] /\ owned_slot (get w' j) = owned_slot (get w i) /\ get w' i = SObj true [].
Proof.
  cbn. destruct (Nat.eqb_spec i j) as [|Hij]; [discriminate|]. destruct (get w i) as [|m b] eqn:Gi; [discriminate|]. destruct (get w j) eqn:Gj; [|discriminate].
  intros H. injection H as <- <-. rewrite get_set_same. rewrite get_set_other, get_set_same by lia. repeat split.
Qed.

Theorem move_assign_transfers w i j w' r : mstep w (MMoveAssign i j) = Some (w', r) ->
  r = owned_slot (get w j) /\ owned_slot (get w' j) = owned_slot (get w i) /\ get w' i = SObj true [].
Proof.
  cbn. destruct (Nat.eqb_spec i j) as [|Hij]; [discriminate|]. destruct (get w i) as [|m b] eqn:Gi; [discriminate|]. destruct (get w j) as [|mj old] eqn:Gj; [discriminate|].
  intros H. injection H as <- <-. rewrite get_set_same. rewrite get_set_other, get_set_same by lia. repeat split.
Qed.

Theorem swap_exchanges w i j w' r : mstep w (MSwap i j) = Some (w', r) ->
  r = [] /\ get w' j = get w i /\ get w' i = get w j.
Proof.
  cbn. destruct (Nat.eqb_spec i j) as [|Hij]; [discriminate|]. destruct (get w i) as [|mi bi] eqn:Gi; [discriminate|]. destruct (get w j) as [|mj bj] eqn:Gj; [discriminate|].
  intros H. injection H as <- <-. rewrite get_set_same. rewrite get_set_other, get_set_same by lia. repeat split.
Qed.

(* a moved-from object is harmless: destroying it or assigning to it returns nothing *)
Theorem moved_from_is_harmless w k : get w k = SObj true [] ->
  (exists w', mstep w (MDel k) = Some (w', [])) /\
  (forall i, i <> k -> forall m b, get w i = SObj m b -> exists w', mstep w (MMoveAssign i k) = Some (w', [])).
Proof.
  intros G. split.
  - cbn. rewrite G. eexists. reflexivity.
  - intros i Hik m b Gi. cbn. destruct (Nat.eqb_spec i k); [contradiction|]. rewrite Gi, G. eexists. reflexivity.
Qed.
