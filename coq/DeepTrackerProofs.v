From Coq Require Import List Arith Bool Lia.
From FM Require Import DeepTracker.
Import ListNotations.

(* every object's deep pointer refers to the tracker inside that very object *)
Definition TInv (w : tworld) : Prop := forall k tp, w k = TObj tp -> tp = Some k.

Lemma tset_same w k s : tset w k s k = s. Proof. unfold tset. rewrite Nat.eqb_refl. reflexivity. Qed.
Lemma tset_other w k s m : m <> k -> tset w k s m = w m.
Proof. intros H. unfold tset. destruct (Nat.eqb_spec m k); [contradiction|reflexivity]. Qed.

Lemma tinv_set_own w k : TInv w -> TInv (tset w k (TObj (Some k))).
Proof.
  intros H m tp. destruct (Nat.eq_dec m k) as [->|Hne]; [rewrite tset_same; intros E; injection E as <-; reflexivity|rewrite tset_other by assumption; apply H].
Qed.
Lemma tinv_set_empty w k : TInv w -> TInv (tset w k TEmpty).
Proof.
  intros H m tp. destruct (Nat.eq_dec m k) as [->|Hne]; [rewrite tset_same; discriminate|rewrite tset_other by assumption; apply H].
Qed.

Lemma movecons_inv w i j w' : TInv w -> t_movecons w i j = Some w' -> TInv w'.
Proof.
  unfold t_movecons. intros H. destruct (Nat.eqb i j); [discriminate|]. destruct (w i); [discriminate|]. destruct (w j); [|discriminate].
  intros E; injection E as <-. apply tinv_set_own. assumption.
Qed.
Lemma moveassign_inv w i j w' : TInv w -> t_moveassign true w i j = Some w' -> TInv w'.
Proof.
  unfold t_moveassign. intros H. destruct (Nat.eqb i j); [discriminate|]. destruct (w i); [discriminate|]. destruct (w j); [discriminate|].
  intros E; injection E as <-. apply tinv_set_own. assumption.
Qed.
Lemma del_inv w k w' : TInv w -> t_del w k = Some w' -> TInv w'.
Proof. unfold t_del. intros H. destruct (w k); [discriminate|]. intros E; injection E as <-. apply tinv_set_empty. assumption. Qed.

Theorem dt_step_inv w o w' : TInv w -> dt_step true w o = Some w' -> TInv w'.
Proof.
  intros H. destruct o as [k|i j|i j|i j t|k]; cbn [dt_step].
  - destruct (w k); [|discriminate]. intros E; injection E as <-. apply tinv_set_own. assumption.
  - apply movecons_inv. assumption.
  - apply moveassign_inv. assumption.
  - destruct (t_movecons w i t) as [w1|] eqn:E1; [|discriminate]. destruct (t_moveassign true w1 j i) as [w2|] eqn:E2; [|discriminate].
    destruct (t_moveassign true w2 t j) as [w3|] eqn:E3; [|discriminate]. intros E4.
    eapply del_inv; [|exact E4]. eapply moveassign_inv; [|exact E3]. eapply moveassign_inv; [|exact E2]. eapply movecons_inv; [|exact E1]. assumption.
  - apply del_inv. assumption.
Qed.

Lemma tinv_empty : TInv tw_empty. Proof. intros k tp E. discriminate. Qed.

(* every history of constructions, move constructions, move assignments, swaps and destructions *)
Theorem dt_run_inv : forall os w w', TInv w -> dt_run true w os = Some w' -> TInv w'.
Proof.
  induction os as [|o tl IH]; intros w w' H; cbn [dt_run]; [intros E; injection E as <-; assumption|].
  destruct (dt_step true w o) as [w1|] eqn:E1; [|discriminate]. apply IH. eapply dt_step_inv; eassumption.
Qed.

(* hence no object ever reports to the tracker of another object, moved-from or destroyed: the tracker a deep pointer refers
   to belongs to an object that exists -- the one that holds the pointer *)
Theorem deep_pointer_never_dangles os w k m : dt_run true tw_empty os = Some w -> w k = TObj (Some m) -> m = k /\ w m <> TEmpty.
Proof.
  intros R E. pose proof (dt_run_inv os tw_empty w tinv_empty R k (Some m) E) as H. injection H as ->. split; [reflexivity|]. rewrite E. discriminate.
Qed.
Theorem deep_pointer_never_null os w k : dt_run true tw_empty os = Some w -> w k <> TObj None.
Proof. intros R E. pose proof (dt_run_inv os tw_empty w tinv_empty R k None E). discriminate. Qed.

(* without the set_tracker call in the move assignment the statement is false: after  a; b; b = move(a); ~a  the object in
   slot 1 reports its growth to the tracker of the destroyed object of slot 0 -- and after a swap to the tracker of the temporary *)
Theorem moveassign_without_repoint_refuted :
  exists w, dt_run false tw_empty [TNew 0; TNew 1; TMoveAssign 0 1; TDel 0] = Some w /\ w 1 = TObj (Some 0) /\ w 0 = TEmpty.
Proof. eexists. split; [reflexivity|]. split; reflexivity. Qed.
Theorem swap_without_repoint_refuted :
  exists w, dt_run false tw_empty [TNew 0; TNew 1; TSwap 0 1 4] = Some w /\ w 1 = TObj (Some 4) /\ w 4 = TEmpty.
Proof. eexists. split; [reflexivity|]. split; reflexivity. Qed.

Example deep_tracker_nonvacuous :
  exists w, dt_run true tw_empty [TNew 0; TNew 1; TMoveCons 0 2; TMoveAssign 2 1; TSwap 1 0 4; TDel 2] = Some w /\ w 0 = TObj (Some 0) /\ w 1 = TObj (Some 1) /\ w 2 = TEmpty.
Proof. eexists. split; [reflexivity|]. repeat split; reflexivity. Qed.
