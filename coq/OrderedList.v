(* ordered_free_memory_list (src/detail/free_list.cpp): Exec model of the address-ordered XOR list with its
   two sentinels and the last-deallocation cursor.  The list is the extended sequence
       index 0 = begin sentinel, 1..n = free nodes in list order, n+1 = end sentinel;
   the sentinels have addresses of their own (pb, pe: they live inside the list object, anywhere relative to the
   pool's memory), and the code compares pointers with them in a few places -- the model does the same. *)
From Coq Require Import ZArith List Bool Lia Arith.
Import ListNotations.
Local Open Scope Z_scope.

Record olist := { pb : Z; pe : Z; nodes : list Z; ldp : nat; nsz : Z }.
(* ldp: index of last_dealloc_prev_ in the extended sequence; last_dealloc_ is always its successor *)

Definition n_of (l : olist) : nat := length (nodes l).
Definition ext (l : olist) (i : nat) : Z :=
  match i with
  | O => pb l
  | S j => if Nat.ltb j (n_of l) then nth j (nodes l) 0 else pe l
  end.

Inductive res (A : Type) := Ret (a : A) | Reported | Unreachable | AssertFail | Crash.
Arguments Ret {A}. Arguments Reported {A}. Arguments Unreachable {A}. Arguments AssertFail {A}. Arguments Crash {A}.

(* find_pos_interval's loop: forward cursor at index a, backward cursor at index b;
   the answer k means: insert between index k and k+1 *)
Fixpoint walk (fuel : nat) (dbl : bool) (l : olist) (m : Z) (a b : nat) : res nat :=
  match fuel with
  | O => Crash
  | S fuel' =>
      if ext l a >? m then Ret (a - 1)%nat
      else if ext l b <? m then Ret b
      else if dbl && ((ext l a =? m) || (ext l b =? m)) then Reported
      else if ext l a <? ext l b then walk fuel' dbl l m (S a) (b - 1)%nat
      else if dbl then Reported else Crash   (* "ran outside of list": {nullptr, nullptr} is then dereferenced *)
  end.

Definition interval (asserts dbl : bool) (l : olist) (m : Z) (a b : nat) : res nat :=
  if asserts && negb ((ext l a <? m) && (m <? ext l b)) then AssertFail
  else walk (S (S (n_of l))) dbl l m a b.

(* find_pos as it is in the working tree (with the end-sentinel test in the fourth branch) *)
Definition find_pos (asserts dbl : bool) (l : olist) (m : Z) : res nat :=
  let n := n_of l in
  if ext l 1 >? m then Ret 0%nat
  else if ext l n <? m then Ret n
  else if (ext l (ldp l) <? m) && (m <? ext l (S (ldp l))) then Ret (ldp l)
  else if Nat.eqb (S (ldp l)) (S n) || (m <? ext l (S (ldp l))) then interval asserts dbl l m 1%nat (ldp l)
  else if m >? ext l (S (ldp l)) then interval asserts dbl l m (S (ldp l)) n
  else Unreachable.

Definition set_nodes (l : olist) (ns : list Z) (c : nat) : olist :=
  {| pb := pb l; pe := pe l; nodes := ns; ldp := c; nsz := nsz l |}.

Fixpoint block_nodes (count : nat) (m step : Z) : list Z :=
  match count with O => [] | S c => m :: block_nodes c (m + step) step end.

Definition insert_at (ns : list Z) (k : nat) (new : list Z) : list Z := firstn k ns ++ new ++ skipn k ns.

(* deallocate(ptr) *)
Definition o_dealloc (asserts dbl : bool) (l : olist) (m : Z) : res olist :=
  match find_pos asserts dbl l m with
  | Ret k => Ret (set_nodes l (insert_at (nodes l) k [m]) k)
  | Reported => Reported | Unreachable => Unreachable | AssertFail => AssertFail | Crash => Crash
  end.

Definition nodes_for (l : olist) (bytes : Z) : nat := Z.to_nat ((bytes + nsz l - 1) / nsz l).

(* deallocate(ptr, n) with n > node size *)
Definition o_dealloc_array (asserts dbl : bool) (l : olist) (m bytes : Z) : res olist :=
  if bytes <=? nsz l then o_dealloc asserts dbl l m
  else match find_pos asserts dbl l m with
       | Ret k => Ret (set_nodes l (insert_at (nodes l) k (block_nodes (nodes_for l bytes) m (nsz l))) k)
       | Reported => Reported | Unreachable => Unreachable | AssertFail => AssertFail | Crash => Crash
       end.

(* insert(mem, size): size / node_size nodes; the cursor moves only if the block lands directly behind last_dealloc_prev_ *)
Definition o_insert (asserts dbl : bool) (l : olist) (m size : Z) : res olist :=
  let cnt := Z.to_nat (size / nsz l) in
  match find_pos asserts dbl l m with
  | Ret k => Ret (set_nodes l (insert_at (nodes l) k (block_nodes cnt m (nsz l)))
                            (if Nat.ltb k (ldp l) then (ldp l + cnt)%nat else ldp l))
  | Reported => Reported | Unreachable => Unreachable | AssertFail => AssertFail | Crash => Crash
  end.

(* allocate(): the first node *)
Definition o_alloc (l : olist) : option (Z * olist) :=
  match nodes l with
  | [] => None
  | x :: tl => Some (x, set_nodes l tl (if Nat.leb (ldp l) 1 then 0%nat else (ldp l - 1)%nat))
  end.

(* xor_list_search_array: the first run of enough consecutive nodes, taken from its start *)
(* length of the maximal run of consecutive nodes starting at the head *)
Fixpoint run_len (ns : list Z) (step : Z) : nat :=
  match ns with
  | [] => O
  | x :: tl => match tl with
               | y :: _ => if x + step =? y then S (run_len tl step) else 1%nat
               | [] => 1%nat
               end
  end.

(* the search restarts after a discontinuity, i.e. it jumps over the whole run that was too short *)
Fixpoint find_run (fuel : nat) (ns : list Z) (step : Z) (need : nat) (idx : nat) : option nat :=
  match fuel with
  | O => None
  | S f =>
      match ns with
      | [] => None
      | _ :: _ =>
          let r := run_len ns step in
          if Nat.leb need r then Some idx else find_run f (skipn r ns) step need (idx + r)%nat
      end
  end.

(* allocate(n) with n > node size *)
Definition o_alloc_array (l : olist) (bytes : Z) : option (Z * olist) :=
  if bytes <=? nsz l then o_alloc l
  else
    let need := nodes_for l bytes in
    match find_run (S (n_of l)) (nodes l) (nsz l) need 0%nat with
    | None => None
    | Some i =>
        (* extended indices: first = i+1, last = i+need, prev = i, next = i+need+1 (before removal) *)
        let f := S i in let la := (i + need)%nat in
        let ld_addr := ext l (S (ldp l)) in
        let c := if (ext l f <=? ld_addr) && (ld_addr <=? ext l la) then i
                 else if Nat.eqb (ldp l) la then i
                 else if Nat.ltb la (ldp l) then (ldp l - need)%nat else ldp l in
        Some (nth i (nodes l) 0, set_nodes l (firstn i (nodes l) ++ skipn (i + need) (nodes l)) c)
    end.

Definition o_empty (pb0 pe0 ns0 : Z) : olist := {| pb := pb0; pe := pe0; nodes := []; ldp := 0; nsz := ns0 |}.
