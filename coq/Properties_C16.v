(* C16 -- invalid releases covered by the debug checks are reported (or stop the program), valid ones never are.
   Statements only.  OrderedList.v: the ordered list's position search with sentinels and cursor (the double-release
   test lives inside it); InvalidRelease.v: small list tests, LIFO block sources; Stack.v: unwind. *)
From Coq Require Import ZArith List Bool.
From FM Require Import OrderedList OrderedListProofs InvalidRelease InvalidReleaseProofs Stack FixedStack SmallList SmallListProofs StackProofs Arena ArenaProofs LifoBridge ArenaLifo.
Import ListNotations.
Local Open Scope Z_scope.

(* ---- pools on the ordered list (array_pool always, node_pool with the double-free option) ---- *)
(* a node that is on the free list -- first, last, the most recently freed one, any one in the middle; any sentinel
   addresses, any cursor -- never goes through: reported by the handler, or the program is stopped
   (unreachable-code abort for the most recently freed node; a failed assertion where assertions are on) *)
Theorem C16_ordered_double_release_is_stopped : forall asserts l m, OInv l -> In m (nodes l) ->
  o_dealloc asserts true l m = Reported \/ o_dealloc asserts true l m = Unreachable \/ o_dealloc asserts true l m = AssertFail.
Proof. exact dealloc_double_stopped. Qed.
Print Assumptions C16_ordered_double_release_is_stopped.

(* a valid release (the node is not on the list) is never reported, in any configuration, and keeps the list sorted with
   the cursor inside: so the next release is searched correctly again *)
Theorem C16_ordered_valid_release_is_accepted : forall asserts dbl l m, OInv l -> ~ In m (nodes l) ->
  exists l', o_dealloc asserts dbl l m = Ret l' /\ OInv l' /\ (forall x, In x (nodes l') <-> x = m \/ In x (nodes l)) /\ n_of l' = S (n_of l).
Proof. exact dealloc_valid. Qed.
Print Assumptions C16_ordered_valid_release_is_accepted.

(* the same for arrays (deallocate(ptr, n) with n above the node size, i.e. deallocate_array of the pools): memory whose
   first node is on the free list never goes through -- whatever the nodes behind it are --, and the model writes nothing
   before the search has answered (the code's order since fix 6025e9a: the fill pattern comes after the check) *)
Theorem C16_ordered_array_double_release_is_stopped : forall asserts l m bytes, OInv l -> In m (nodes l) ->
  o_dealloc_array asserts true l m bytes = Reported \/ o_dealloc_array asserts true l m bytes = Unreachable \/ o_dealloc_array asserts true l m bytes = AssertFail.
Proof. exact dealloc_array_double_stopped. Qed.
Print Assumptions C16_ordered_array_double_release_is_stopped.

(* a valid array release (no node of the list inside the array's extent) is never reported, in any configuration; every node
   the array occupied is on the list afterwards and the list keeps its invariant *)
Theorem C16_ordered_valid_array_release_is_accepted : forall asserts dbl l m bytes, OInv l -> nsz l < bytes ->
  (forall x, In x (nodes l) -> x < m \/ m + Z.of_nat (nodes_for l bytes) * nsz l <= x) ->
  exists l', o_dealloc_array asserts dbl l m bytes = Ret l' /\ OInv l' /\
             (forall x, In x (nodes l') <-> In x (block_nodes (nodes_for l bytes) m (nsz l)) \/ In x (nodes l)) /\
             n_of l' = (n_of l + nodes_for l bytes)%nat.
Proof. exact dealloc_array_valid. Qed.
Print Assumptions C16_ordered_valid_array_release_is_accepted.

(* ---- small-node pools ---- *)
(* outside the node memory of every chunk: reported -- or, for the one address that is the header of the chunk the search
   starts from, stopped by the unreachable-code abort *)
Theorem C16_small_outside_every_chunk_reported : forall dbl l p,
  (forall c, In c (sl_chunks l) -> p < c_mem c \/ c_mem c + c_nodes c * sl_ns l <= p) ->
  s_dealloc true dbl l p = (if p =? sl_dc l then SmAbort else SmReported).
Proof. exact small_outside_reported. Qed.
Print Assumptions C16_small_outside_every_chunk_reported.

Theorem C16_small_between_node_boundaries_reported : forall dbl l p c,
  find (fun c => c_from (sl_ns l) c p) (sl_chunks l) = Some c -> (p - c_mem c) mod sl_ns l <> 0 -> s_dealloc true dbl l p = SmReported.
Proof. exact small_misaligned_reported. Qed.
Print Assumptions C16_small_between_node_boundaries_reported.

Theorem C16_small_double_release_reported : forall l p c,
  find (fun c => c_from (sl_ns l) c p) (sl_chunks l) = Some c -> In ((p - c_mem c) / sl_ns l) (c_free c) -> s_dealloc true true l p = SmReported.
Proof. exact small_double_reported. Qed.
Print Assumptions C16_small_double_release_reported.

Theorem C16_small_valid_release_is_accepted : forall ptr dbl l p c,
  find (fun c => c_from (sl_ns l) c p) (sl_chunks l) = Some c -> (p - c_mem c) mod sl_ns l = 0 -> ~ In ((p - c_mem c) / sl_ns l) (c_free c) ->
  exists l', s_dealloc ptr dbl l p = SmOk l'.
Proof. exact small_valid_accepted. Qed.
Print Assumptions C16_small_valid_release_is_accepted.

(* ... and the same for deallocate as the code runs it (SmallList.sm_deallocate: the chunk is searched for at the deallocation
   cursor, at the allocation cursor, then in the half of the address-ordered chunk ring on the pointer's side of the cursor,
   inwards from both ends).  base is the address of the list object; chunks are sorted and disjoint (SmInv).
   A pointer that lies in no chunk: the search ends -- it never runs round the ring for ever -- and the release is reported
   (the unreachable-code abort when the pointer is exactly the address of the cursor's chunk header); nothing is changed. *)
Theorem C16_small_list_search_reports_foreign_pointer : forall base dbl l p, SmInv l -> (forall c, In c (sm_chunks l) -> c_from (sm_ns l) c p = false) ->
  sm_deallocate base true dbl l p = if pos_addr base l (sm_dc l) =? p then MAbort else MReported.
Proof. exact sm_deallocate_foreign. Qed.
Print Assumptions C16_small_list_search_reports_foreign_pointer.

(* a pointer inside a chunk but between node boundaries, or a node that is already on a free chain, is reported *)
Theorem C16_small_list_search_reports_bad_node : forall base l p j c, SmInv l -> nth_error (sm_chunks l) j = Some c -> c_from (sm_ns l) c p = true ->
  (forall e, In e (sm_chunks l) -> c_from (sm_ns l) e base = false) ->
  ((p - c_mem c) mod sm_ns l <> 0 -> forall dbl, sm_deallocate base true dbl l p = MReported) /\
  (In p (free_addrs (sm_ns l) (sm_chunks l)) -> sm_deallocate base true true l p = MReported).
Proof. exact sm_deallocate_bad_node. Qed.
Print Assumptions C16_small_list_search_reports_bad_node.

(* a valid release is never reported: the search finds the node's chunk wherever the cursors are, in every configuration *)
Theorem C16_small_list_search_accepts_valid_release : forall base pc dbl l p c, SmInv l -> In c (sm_chunks l) -> c_from (sm_ns l) c p = true ->
  (p - c_mem c) mod sm_ns l = 0 -> ~ In p (free_addrs (sm_ns l) (sm_chunks l)) -> (forall e, In e (sm_chunks l) -> c_from (sm_ns l) e base = false) ->
  exists l', sm_deallocate base pc dbl l p = MOk l' /\ sm_dealloc l p = Some l'.
Proof. exact sm_deallocate_valid. Qed.
Print Assumptions C16_small_list_search_accepts_valid_release.

(* ---- LIFO-only block sources ---- *)
Theorem C16_static_source_out_of_order_reported : forall base bs k i, 0 < bs -> 0 <= i -> i < k - 1 ->
  static_dealloc true {| lf_base := base; lf_cur := base + k * bs; lf_bs := bs |} (base + i * bs) bs = LReported.
Proof. exact static_out_of_order_reported. Qed.
Print Assumptions C16_static_source_out_of_order_reported.

Theorem C16_virtual_source_out_of_order_reported : forall base bs k i, 0 < bs -> 0 <= i -> i < k - 1 ->
  virtual_dealloc true {| lf_base := base; lf_cur := base + k * bs; lf_bs := bs |} (base + i * bs) = LReported.
Proof. exact virtual_out_of_order_reported. Qed.
Print Assumptions C16_virtual_source_out_of_order_reported.

Theorem C16_lifo_sources_accept_the_newest_block : forall ptr base bs k, 0 < bs -> 1 <= k ->
  static_dealloc ptr {| lf_base := base; lf_cur := base + k * bs; lf_bs := bs |} (base + (k - 1) * bs) bs
    = LOk {| lf_base := base; lf_cur := base + (k - 1) * bs; lf_bs := bs |} /\
  virtual_dealloc ptr {| lf_base := base; lf_cur := base + k * bs; lf_bs := bs |} (base + (k - 1) * bs)
    = LOk {| lf_base := base; lf_cur := base + (k - 1) * bs; lf_bs := bs |}.
Proof. intros. split; [apply static_newest_accepted|apply virtual_newest_accepted]; assumption. Qed.
Print Assumptions C16_lifo_sources_accept_the_newest_block.

Theorem C16_fixed_source_return_without_loan_reported : forall bs size, bs <> 0 -> fixed_dealloc true bs size = None.
Proof. exact fixed_return_without_loan_reported. Qed.
Print Assumptions C16_fixed_source_return_without_loan_reported.

(* ---- memory_stack::unwind to a marker above the current top: reported, nothing changed ---- *)
Theorem C16_unwind_above_top_reported : forall fence s m answer,
  ((length (s_used s) - 1 < m_index m)%nat \/ (m_index m = (length (s_used s) - 1)%nat /\ s_top s < m_top m)) ->
  step fence s (SUnwind m) answer = (s, SReported, [], []).
Proof. intros fence s m answer [H|[H1 H2]]; [apply unwind_later_block_reported|apply unwind_same_block_above_top_reported]; assumption. Qed.
Print Assumptions C16_unwind_above_top_reported.

Example C16_nonvacuous :
  let l := {| pb := 10; pe := 18; nodes := [1040; 1072; 1152; 1168]; ldp := 1; nsz := 16 |} in
  (o_dealloc false true l 1040, o_dealloc false true l 1072, o_dealloc false true l 1168, o_dealloc true true l 1168,
   match o_dealloc false true l 1056 with Ret l' => nodes l' | _ => [] end)
  = (Reported, Unreachable, Reported, AssertFail, [1040; 1056; 1072; 1152; 1168]).
Proof. vm_compute. reflexivity. Qed.

(* ---- no false report on valid histories of the LIFO-only block sources ---- *)
(* a call sequence that returns blocks newest-first (StackProofs.apply_calls: the discipline proved for arenas and stacks) is
   never reported by static_block_allocator (virt = false: address and size) nor by virtual_block_allocator (virt = true), and the
   source stays consistent with the blocks that are out *)
Theorem C16_lifo_discipline_is_never_reported : forall virt cs s held held',
  lifo_consistent s held -> apply_calls held cs = Some held' -> lifo_run virt s cs <> LRep.
Proof. exact lifo_discipline_no_false_report. Qed.
Print Assumptions C16_lifo_discipline_is_never_reported.

(* hence an arena (a memory_stack's block bookkeeping) over such a source: any history of block requests, releases (to the cache
   or to the source), shrink_to_fit, with any answers, followed by destruction with used and cached blocks at once *)
Theorem C16_arena_over_lifo_source_never_reported : forall virt cached base bs h,
  let s0 := {| lf_base := base; lf_cur := base; lf_bs := bs |} in
  let '(a', calls) := ar_run (ar_init AConst cached bs) h in
  lifo_run virt s0 (calls ++ ar_destroy_calls a') <> LRep.
Proof. exact arena_over_lifo_source_never_reported. Qed.
Print Assumptions C16_arena_over_lifo_source_never_reported.
