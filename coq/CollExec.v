(* memory_pool_collection over an uncached arena: Exec model of its operations -- the fixed stack that carves the current
   block (fences included), the array of free lists, reserve_memory / try_reserve_memory / insert_rest, the node and
   array functions with their three growth stages -- built from the Exec models of the arena (Arena.v), the bump
   allocator (FixedStack.v) and a free list given through its guarded step function (UnorderedRefine.ugstep for
   node_pool, OrderedRefine.ogstep for array_pool and for node_pool when the double-free check is compiled in).
   Each operation also yields the events the Spec (PoolSpec.acc_op) is given for it.
   None: the model does not describe the call (a request larger than max_node_size, which is refused before any list is
   looked at; a bucket whose nodes are smaller than the request -- excluded by the C19 theorems about free_list_array::get; a release of memory that is not out; an internal assertion of the implementation would have fired). *)
From Coq Require Import ZArith NArith List Bool Lia.
From FM Require Import GenArith FixedStack SmallCarve PoolSpec Stack Arena UnorderedList UnorderedRefine.
Import ListNotations.
Local Open Scope Z_scope.

Section Coll.
Variable G : Type.                                  (* a free list together with the memory its user holds *)
Variable gns : G -> Z.                              (* node_size() *)
Variable gfree : G -> Z.                            (* nodes on the list; empty() is gfree = 0 *)
Variable gstep : G -> u_op -> option (G * option Z).
Variable bkt : Z -> Z.                              (* node size of the list free_list_array::get(size) selects *)
Variable gusable : Z -> Z -> Z.                     (* usable_size(size) of a list with the given node size *)

Record cpool := { cc_ar : arena; cc_top : Z; cc_lists : list G; cc_fence : Z; cc_max : Z }.

Definition cc_with (s : cpool) (a : arena) (top : Z) (ls : list G) : cpool :=
  {| cc_ar := a; cc_top := top; cc_lists := ls; cc_fence := cc_fence s; cc_max := cc_max s |}.

Fixpoint c_find (ns : Z) (gs : list G) : option G :=
  match gs with [] => None | g :: tl => if gns g =? ns then Some g else c_find ns tl end.
Fixpoint c_set (g' : G) (gs : list G) : list G :=
  match gs with [] => [] | g :: tl => if gns g =? gns g' then g' :: tl else g :: c_set g' tl end.

(* block_end() and def_capacity() = (current_block().size - overhead) / pools_.size() *)
Definition cc_end (s : cpool) : Z := match ar_used (cc_ar s) with b :: _ => b_end b | [] => 0 end.
(* a reservation of def_capacity() bytes fits into a fresh block together with its fences and the padding behind the first *)
Definition cc_overhead (s : cpool) : Z := if cc_fence s =? 0 then 0 else 2 * cc_fence s + maxalZ.
Definition cc_defcap (s : cpool) : Z :=
  match ar_used (cc_ar s) with
  | b :: _ => (if cc_overhead s <? b_usable b then b_usable b - cc_overhead s else 0) / Z.of_nat (length (cc_lists s))
  | [] => 0
  end.
Definition cc_capacity_left (s : cpool) : Z := cc_end s - cc_top s.

(* one call of a member of the selected list *)
Definition cc_list_step (s : cpool) (ns : Z) (o : u_op) : option (cpool * option Z) :=
  match c_find ns (cc_lists s) with
  | Some g => match gstep g o with
              | Some (g', res) => Some (cc_with s (cc_ar s) (cc_top s) (c_set g' (cc_lists s)), res)
              | None => None
              end
  | None => None
  end.
(* pool.insert(mem, size); a range that does not hold one node is never handed over *)
Definition cc_insert (s : cpool) (ns m size : Z) : option (cpool * list ev) :=
  if ns <=? gusable ns size
  then match cc_list_step s ns (UIns m size) with Some (s', _) => Some (s', [EIns ns m size]) | None => None end
  else None.

(* insert_rest(pool): what is left of the current block goes to the pool if it holds a node *)
Definition cc_insert_rest (s : cpool) (ns : Z) : option (cpool * list ev) :=
  let remaining := cc_end s - cc_top s in
  if remaining =? 0 then Some (s, [])
  else
    let offset := align_off (cc_top s) maxalZ in
    if (offset <? remaining) && (ns <=? gusable ns (remaining - offset))
    then cc_insert (cc_with s (cc_ar s) (cc_top s + remaining) (cc_lists s)) ns (cc_top s + offset) (remaining - offset)
    else Some (s, []).

(* stack_ = allocate_block() *)
Definition cc_new_block (s : cpool) (answer : option Z) : cpool * bool * list ev :=
  match astep (cc_ar s) ABlock answer with
  | (a', ABlk m sz, _) => (cc_with s a' m (cc_lists s), true, [EUp (m - hdrZ) (sz + hdrZ)])
  | (a', AThrowUpstream, _) => (cc_with s a' (cc_top s) (cc_lists s), false, [EUpFail])
  | (a', _, _) => (cc_with s a' (cc_top s) (cc_lists s), false, [])
  end.

(* reserve_memory(pool, capacity): from the current block, else the rest goes to the pool and a new block is taken;
   Some (state, Some mem, events) or Some (state, None, events) when the block source throws *)
Definition cc_reserve (s : cpool) (ns capacity : Z) (answer : option Z) : option (cpool * option Z * list ev) :=
  match fs_alloc (cc_fence s) (cc_top s) (cc_end s) capacity maxalZ with
  | Some (m, top') => Some (cc_with s (cc_ar s) top' (cc_lists s), Some m, [])
  | None =>
      match cc_insert_rest s ns with
      | None => None
      | Some (s1, ev1) =>
          match cc_new_block s1 answer with
          | (s2, true, ev2) =>
              match fs_alloc (cc_fence s2) (cc_top s2) (cc_end s2) capacity maxalZ with
              | Some (m, top') => Some (cc_with s2 (cc_ar s2) top' (cc_lists s2), Some m, ev1 ++ ev2)
              | None => None                       (* FOONATHAN_MEMORY_ASSERT(mem) *)
              end
          | (s2, false, ev2) => Some (s2, None, ev1 ++ ev2)
          end
      end
  end.

(* try_reserve_memory(pool, capacity): never asks the block source *)
Definition cc_try_reserve (s : cpool) (ns capacity : Z) : option (cpool * list ev) :=
  match fs_alloc (cc_fence s) (cc_top s) (cc_end s) capacity maxalZ with
  | Some (m, top') => cc_insert (cc_with s (cc_ar s) top' (cc_lists s)) ns m capacity
  | None => cc_insert_rest s ns
  end.

(* reserve_memory + pool.insert(block.memory, block.size) *)
Definition cc_grow (s : cpool) (ns capacity : Z) (answer : option Z) : option (cpool * bool * list ev) :=
  match cc_reserve s ns capacity answer with
  | None => None
  | Some (s1, None, evs) => Some (s1, false, evs)
  | Some (s1, Some m, evs) =>
      match cc_insert s1 ns m capacity with Some (s2, ev2) => Some (s2, true, evs ++ ev2) | None => None end
  end.

Definition cc_nfree (s : cpool) (ns : Z) : option Z := match c_find ns (cc_lists s) with Some g => Some (gfree g) | None => None end.

(* pool.allocate() with the list not empty *)
Definition cc_take_node (s : cpool) (ns : Z) : option (cpool * Z) :=
  match cc_list_step s ns UAlloc with Some (s', Some x) => Some (s', x) | _ => None end.
(* pool.empty() ? nullptr : pool.allocate(bytes) *)
Definition cc_take_array (s : cpool) (ns bytes : Z) : option (cpool * option Z) :=
  match cc_nfree s ns with
  | None => None
  | Some n =>
      if n =? 0 then Some (s, None)
      else if bytes <=? ns then match cc_take_node s ns with Some (s', x) => Some (s', Some x) | None => None end
      else cc_list_step s ns (UAllocArr bytes)
  end.

(* allocate_node(node_size): an empty pool is first given memory of the current block -- a default reservation or, failing that,
   the block's remainder (try_reserve_memory) -- and only if that leaves it empty a new block is taken (reserve_memory) *)
Definition cc_alloc_node (s : cpool) (size : Z) (answer : option Z) : option (cpool * obs * list ev) :=
  let ns := bkt size in
  if (size <=? 0) || (cc_max s <? size) || (bkt size <? size) then None else
  match cc_nfree s ns with
  | None => None
  | Some n =>
      if 0 <? n
      then match cc_take_node s ns with Some (s', x) => Some (s', ObsOk x, []) | None => None end
      else match cc_try_reserve s ns (cc_defcap s) with
           | None => None
           | Some (s0, ev0) =>
               match cc_nfree s0 ns with
               | None => None
               | Some n0 =>
                   if 0 <? n0
                   then match cc_take_node s0 ns with Some (s', x) => Some (s', ObsOk x, ev0) | None => None end
                   else match cc_grow s0 ns (cc_defcap s0) answer with
                        | None => None
                        | Some (s1, false, evs) => Some (s1, ObsThrow, ev0 ++ evs)
                        | Some (s1, true, evs) => match cc_take_node s1 ns with Some (s', x) => Some (s', ObsOk x, ev0 ++ evs) | None => None end
                        end
               end
           end
  end.

(* try_allocate_node(node_size) *)
Definition cc_try_alloc_node (s : cpool) (size : Z) : option (cpool * obs * list ev) :=
  let ns := bkt size in
  if (size <=? 0) || (cc_max s <? size) || (bkt size <? size) then None else
  match cc_nfree s ns with
  | None => None
  | Some n =>
      if 0 <? n
      then match cc_take_node s ns with Some (s', x) => Some (s', ObsOk x, []) | None => None end
      else match cc_try_reserve s ns (cc_defcap s) with
           | None => None
           | Some (s1, evs) =>
               match cc_nfree s1 ns with
               | None => None
               | Some n1 => if n1 =? 0 then Some (s1, ObsNull, evs)
                            else match cc_take_node s1 ns with Some (s', x) => Some (s', ObsOk x, evs) | None => None end
               end
           end
  end.

(* allocate_array(count, node_size) on bytes = count * node_size: from the list; else reserve the default capacity and
   try again; else -- unless the next block cannot hold the array -- reserve the array's size rounded to whole nodes *)
Definition cc_alloc_array (s : cpool) (size bytes : Z) (answer1 answer2 : option Z) : option (cpool * obs * list ev) :=
  let ns := bkt size in
  if (size <=? 0) || (cc_max s <? size) || (bkt size <? size) || (bytes <? size) then None else
  match cc_take_array s ns bytes with
  | None => None
  | Some (s', Some x) => Some (s', ObsOk x, [])
  | Some (_, None) =>
      match cc_grow s ns (cc_defcap s) answer1 with
      | None => None
      | Some (s1, false, evs) => Some (s1, ObsThrow, evs)
      | Some (s1, true, evs) =>
          match cc_take_array s1 ns bytes with
          | None => None
          | Some (s', Some x) => Some (s', ObsOk x, evs)
          | Some (_, None) =>
              let overhead := 2 * cc_fence s + maxalZ + ns in
              (* next_capacity() in std::size_t: a fixed source whose block is out reports 0 - offset, i.e. 2^64 - 16 *)
              let next := (ar_next_block_size (cc_ar s1)) mod 2^64 in
              if (if overhead <? next then next - overhead else 0) <? bytes then Some (s1, ObsThrow, evs)     (* bad_array_size *)
              else match cc_grow s1 ns ((bytes + ns - 1) / ns * ns) answer2 with
                   | None => None
                   | Some (s2, false, ev2) => Some (s2, ObsThrow, evs ++ ev2)
                   | Some (s2, true, ev2) =>
                       match cc_take_array s2 ns bytes with
                       | Some (s', Some x) => Some (s', ObsOk x, evs ++ ev2)
                       | _ => None                    (* FOONATHAN_MEMORY_ASSERT(mem) *)
                       end
                   end
          end
      end
  end.

(* try_allocate_array(count, node_size) *)
Definition cc_try_alloc_array (s : cpool) (size bytes : Z) : option (cpool * obs * list ev) :=
  let ns := bkt size in
  if (size <=? 0) || (cc_max s <? size) || (bkt size <? size) || (bytes <? size) then None else
  match cc_nfree s ns with
  | None => None
  | Some n =>
      if 0 <? n
      then match cc_take_array s ns bytes with
           | Some (s', Some x) => Some (s', ObsOk x, [])
           | Some (s', None) => Some (s', ObsNull, [])
           | None => None
           end
      else match cc_try_reserve s ns (cc_defcap s) with
           | None => None
           | Some (s1, evs) =>
               match cc_take_array s1 ns bytes with
               | Some (s', Some x) => Some (s', ObsOk x, evs)
               | Some (s', None) => Some (s', ObsNull, evs)
               | None => None
               end
           end
  end.

(* deallocate_node / deallocate_array of memory that is out with that size *)
Definition cc_dealloc (s : cpool) (size bytes p : Z) : option (cpool * obs * list ev) :=
  let ns := bkt size in
  if (size <=? 0) || (cc_max s <? size) || (bkt size <? size) then None else
  match cc_list_step s ns (if bytes <=? ns then UDealloc p else UDeallocArr p bytes) with
  | Some (s', _) => Some (s', ObsTrue, [])
  | None => None
  end.

(* reserve(node_size, capacity): reserve_memory and insert into the pool of that size; true / false: done / the block source threw *)
Definition cc_reserve_op (s : cpool) (size capacity : Z) (answer : option Z) : option (cpool * bool * list ev) :=
  if (size <=? 0) || (cc_max s <? size) || (bkt size <? size) then None else cc_grow s (bkt size) capacity answer.

(* ---------- histories ---------- *)
Inductive coll_op :=
  | CAllocNode (size : Z) (answer : option Z) | CTryAllocNode (size : Z)
  | CAllocArray (size bytes : Z) (answer1 answer2 : option Z) | CTryAllocArray (size bytes : Z)
  | CDealloc (size bytes p : Z).
Definition cc_spec_op (o : coll_op) : op :=
  match o with
  | CAllocNode size _ => OAlloc false false (bkt size) size
  | CTryAllocNode size => OAlloc true false (bkt size) size
  | CAllocArray size bytes _ _ => OAlloc false true (bkt size) bytes
  | CTryAllocArray size bytes => OAlloc true true (bkt size) bytes
  | CDealloc size bytes p => ODealloc (bkt size) bytes p
  end.
Definition cc_step (s : cpool) (o : coll_op) : option (cpool * obs * list ev) :=
  match o with
  | CAllocNode size answer => cc_alloc_node s size answer
  | CTryAllocNode size => cc_try_alloc_node s size
  | CAllocArray size bytes a1 a2 => cc_alloc_array s size bytes a1 a2
  | CTryAllocArray size bytes => cc_try_alloc_array s size bytes
  | CDealloc size bytes p => cc_dealloc s size bytes p
  end.
Fixpoint cc_run (s : cpool) (os : list coll_op) : option (cpool * list (op * list ev * obs)) :=
  match os with
  | [] => Some (s, [])
  | o :: tl => match cc_step s o with
               | Some (s', r, evs) => match cc_run s' tl with Some (s'', tr) => Some (s'', (cc_spec_op o, evs, r) :: tr) | None => None end
               | None => None
               end
  end.

(* ---------- the constructor: first block, then the list array on the block's stack ---------- *)
(* mk: the lists as free_list_array constructs them in the array at a given address (the ordered list's sentinels lie inside
   the list object); nlists = no_elements_ *)
Definition cc_construct (mk : Z -> list G) (nlists : nat) (k : akind) (fence max block_size flsize flalign : Z) (answer : option Z)
  : option (cpool * bool * list ev) :=
  let s0 := {| cc_ar := ar_init k false block_size; cc_top := 0; cc_lists := []; cc_fence := fence; cc_max := max |} in
  match cc_new_block s0 answer with
  | (s1, false, evs) => Some (s1, false, evs)
  | (s1, true, evs) =>
      match fs_alloc fence (cc_top s1) (cc_end s1) (Z.of_nat nlists * flsize) flalign with
      | Some (m, top') =>
          let s2 := cc_with s1 (cc_ar s1) top' (mk m) in
          (* the largest pool must get a node out of a default-sized reservation, else bad_node_size (the object is torn down) *)
          Some (s2, max <=? gusable max (cc_defcap s2), evs ++ [EResv m (Z.of_nat nlists * flsize)])
      | None => None                                   (* "insufficient memory for free lists" *)
      end
  end.
End Coll.
