(* C12: ownership of upstream blocks under move construction, move assignment, swap and destruction.
   Objects live in numbered slots; an object owns a list of blocks (newest first); a moved-from object owns none. *)
From Coq Require Import ZArith List Bool Arith Lia.
Import ListNotations.
Local Open Scope Z_scope.

Inductive slot := SEmpty | SObj (moved : bool) (blocks : list Z).
Definition world := list slot.

Inductive mop :=
  | MNew (k : nat) (bs : list Z)        (* construct in an empty slot; the constructor acquires bs *)
  | MGrow (k : nat) (bs : list Z)       (* the object acquires further blocks *)
  | MDrop (k : nat) (b : Z)             (* the object returns one of its blocks (uncached arena, shrink_to_fit) *)
  | MMoveCons (i j : nat)               (* new (slot j) T(std::move(obj i)) *)
  | MMoveAssign (i j : nat)             (* obj j = std::move(obj i) *)
  | MSwap (i j : nat)
  | MDel (k : nat).                     (* destructor *)

Definition get (w : world) (k : nat) : slot := nth k w SEmpty.
Fixpoint set (w : world) (k : nat) (s : slot) : world :=
  match w, k with
  | [], O => [s]
  | [], S k' => SEmpty :: set [] k' s
  | _ :: tl, O => s :: tl
  | x :: tl, S k' => x :: set tl k' s
  end.

Fixpoint remove1 (b : Z) (l : list Z) : option (list Z) :=
  match l with
  | [] => None
  | x :: tl => if x =? b then Some tl else match remove1 b tl with Some tl' => Some (x :: tl') | None => None end
  end.

(* result: the new world and the blocks returned upstream by this operation, in order *)
Definition mstep (w : world) (o : mop) : option (world * list Z) :=
  match o with
  | MNew k bs => match get w k with SEmpty => Some (set w k (SObj false bs), []) | _ => None end
  | MGrow k bs => match get w k with SObj m b => Some (set w k (SObj false (bs ++ b)), []) | _ => None end
  | MDrop k b => match get w k with
                 | SObj m bl => match remove1 b bl with Some bl' => Some (set w k (SObj m bl'), [b]) | None => None end
                 | _ => None end
  | MMoveCons i j =>
      if Nat.eqb i j then None else
      match get w i, get w j with
      | SObj m b, SEmpty => Some (set (set w j (SObj m b)) i (SObj true []), [])
      | _, _ => None
      end
  | MMoveAssign i j =>
      if Nat.eqb i j then None else
      match get w i, get w j with
      | SObj m b, SObj _ old => Some (set (set w j (SObj m b)) i (SObj true []), old)
      | _, _ => None
      end
  | MSwap i j =>
      if Nat.eqb i j then None else
      match get w i, get w j with
      | SObj mi bi, SObj mj bj => Some (set (set w j (SObj mi bi)) i (SObj mj bj), [])
      | _, _ => None
      end
  | MDel k => match get w k with SObj _ b => Some (set w k SEmpty, b) | _ => None end
  end.

Definition owned_slot (s : slot) : list Z := match s with SObj _ b => b | SEmpty => [] end.
Definition owned (w : world) : list Z := flat_map owned_slot w.
Definition acquired_by (o : mop) : list Z := match o with MNew _ bs | MGrow _ bs => bs | _ => [] end.

Fixpoint mrun (w : world) (os : list mop) : option (world * list Z) :=
  match os with
  | [] => Some (w, [])
  | o :: tl => match mstep w o with
               | None => None
               | Some (w', r) => match mrun w' tl with Some (w'', r') => Some (w'', r ++ r') | None => None end
               end
  end.
