(* Helpers to state obligations over the generated call-shape table (GenShapes.members). *)
From Coq Require Import String List Bool.
From FM Require Import GenShapes.
Import ListNotations.
Local Open Scope string_scope.

Definition seqb (a b : string) : bool := String.eqb a b.
Fixpoint slist_eqb (a b : list string) : bool :=
  match a, b with
  | [], [] => true
  | x :: a', y :: b' => seqb x y && slist_eqb a' b'
  | _, _ => false
  end.
Definition smem (x : string) (l : list string) : bool := existsb (seqb x) l.

Definition mem_of (c n : string) : list member := filter (fun m => seqb (m_class m) c && seqb (m_name m) n) members.
Definition is_nil {A} (l : list A) : bool := match l with [] => true | _ => false end.

(* calls of a member in order *)
Definition calls_of (m : member) : list (string * list string) :=
  flat_map (fun e => match e with SCall c a => [(c, a)] | _ => [] end) (m_events m).

(* is there a lock declaration before the first call to one of the given callees? (true also if there is no such call) *)
Fixpoint locked_before (names : list string) (locked : bool) (evs : list sev) : bool :=
  match evs with
  | [] => true
  | SLock :: tl => locked_before names true tl
  | SCall c _ :: tl => if smem c names then locked else locked_before names locked tl
  | _ :: tl => locked_before names locked tl
  end.

Definition has_call (c : string) (args : list string) (m : member) : bool :=
  existsb (fun x => seqb (fst x) c && slist_eqb (snd x) args) (calls_of m).
Definition has_call_named (c : string) (m : member) : bool := existsb (fun x => seqb (fst x) c) (calls_of m).
Definition has_assign (l r : string) (m : member) : bool :=
  existsb (fun e => match e with SAssign a b => seqb a l && seqb b r | _ => false end) (m_events m).
Definition has_if (c : string) (m : member) : bool :=
  existsb (fun e => match e with SIf a => seqb a c | _ => false end) (m_events m).

(* events between an SIf with the given condition and its SEndIf *)
Fixpoint inside_if (c : string) (evs : list sev) : list sev :=
  match evs with
  | [] => []
  | SIf a :: tl => if seqb a c then (fix take (l : list sev) := match l with [] => [] | SEndIf :: _ => [] | e :: r => e :: take r end) tl else inside_if c tl
  | _ :: tl => inside_if c tl
  end.
Fixpoint before_if (c : string) (evs : list sev) : list sev :=
  match evs with
  | [] => []
  | SIf a :: tl => if seqb a c then [] else SIf a :: before_if c tl
  | e :: tl => e :: before_if c tl
  end.
Definition calls_in (evs : list sev) : list (string * list string) :=
  flat_map (fun e => match e with SCall c a => [(c, a)] | _ => [] end) evs.
Definition has_call_in (c : string) (args : list string) (evs : list sev) : bool :=
  existsb (fun x => seqb (fst x) c && slist_eqb (snd x) args) (calls_in evs).

(* the then-branch (up to SElse / SEndIf) and the else-branch (SElse .. SEndIf) of the first if with the given condition (no nesting inside) *)
Fixpoint upto_else (l : list sev) : list sev := match l with [] => [] | SElse :: _ => [] | SEndIf :: _ => [] | e :: r => e :: upto_else r end.
Fixpoint from_else (l : list sev) : list sev := match l with [] => [] | SEndIf :: _ => [] | SElse :: r => upto_else r | _ :: r => from_else r end.
Fixpoint then_branch (c : string) (evs : list sev) : list sev :=
  match evs with [] => [] | SIf a :: tl => if seqb a c then upto_else tl else then_branch c tl | _ :: tl => then_branch c tl end.
Fixpoint else_branch (c : string) (evs : list sev) : list sev :=
  match evs with [] => [] | SIf a :: tl => if seqb a c then from_else tl else else_branch c tl | _ :: tl => else_branch c tl end.
