(* C12, deeply tracked allocators (tracking.hpp): the tracker object lives inside the tracked_allocator object, and the block
   source deep inside the wrapped allocator holds a pointer to it (deeply_tracked_block_allocator::tracker_).  Objects live in
   numbered slots; what is modelled is which slot's tracker each object's deep pointer refers to.
     constructor / move constructor: the members are moved (the pointer value is copied with the block source), then
                                     set_tracker(&get_tracker()) points it at the new object's own tracker; the source keeps its value;
     move assignment:                the same, into an existing object;
     std::swap:                      T tmp(move(a)); a = move(b); b = move(tmp); ~tmp   (tmp in a slot of its own);
     destructor:                     the slot is empty afterwards (its tracker is gone).
   `repoint = false` is the variant whose move assignment forgets the set_tracker call (for the refutation only). *)
From Coq Require Import List Arith Bool Lia.
Import ListNotations.

Inductive tslot := TEmpty | TObj (tp : option nat).
Definition tworld := nat -> tslot.
Definition tw_empty : tworld := fun _ => TEmpty.
Definition tset (w : tworld) (k : nat) (s : tslot) : tworld := fun m => if Nat.eqb m k then s else w m.

Inductive top := TNew (k : nat) | TMoveCons (i j : nat) | TMoveAssign (i j : nat) | TSwap (i j t : nat) | TDel (k : nat).

Definition t_movecons (w : tworld) (i j : nat) : option tworld :=
  if Nat.eqb i j then None else
  match w i, w j with TObj _, TEmpty => Some (tset w j (TObj (Some j))) | _, _ => None end.
Definition t_moveassign (repoint : bool) (w : tworld) (i j : nat) : option tworld :=
  if Nat.eqb i j then None else
  match w i, w j with TObj tpi, TObj _ => Some (tset w j (TObj (if repoint then Some j else tpi))) | _, _ => None end.
Definition t_del (w : tworld) (k : nat) : option tworld :=
  match w k with TObj _ => Some (tset w k TEmpty) | TEmpty => None end.

Definition dt_step (repoint : bool) (w : tworld) (o : top) : option tworld :=
  match o with
  | TNew k => match w k with TEmpty => Some (tset w k (TObj (Some k))) | _ => None end
  | TMoveCons i j => t_movecons w i j
  | TMoveAssign i j => t_moveassign repoint w i j
  | TSwap i j t =>
      match t_movecons w i t with
      | Some w1 => match t_moveassign repoint w1 j i with
                   | Some w2 => match t_moveassign repoint w2 t j with
                                | Some w3 => t_del w3 t
                                | None => None end
                   | None => None end
      | None => None end
  | TDel k => t_del w k
  end.

Fixpoint dt_run (repoint : bool) (w : tworld) (os : list top) : option tworld :=
  match os with
  | [] => Some w
  | o :: tl => match dt_step repoint w o with Some w' => dt_run repoint w' tl | None => None end
  end.

(* what the harness prints per slot: the slot whose tracker the deep pointer refers to *)
Definition t_view (w : tworld) (k : nat) : option (option nat) := match w k with TEmpty => None | TObj tp => Some tp end.
