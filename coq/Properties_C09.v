(* C09 -- adapters forward every request faithfully and release with matching parameters.  Statements only.
   Compose.v models what a request becomes on its way through a chain of wrappers of any length;
   ShapesC09.v: obligations computed on the call shapes regenerated from the wrapper class templates. *)
From Coq Require Import ZArith List Bool.
From FM Require Import Compose ComposeProofs ShapesC09.
Import ListNotations.
Local Open Scope Z_scope.

(* any chain (any depth) of storage / thread-safe / tracked / aligned / segregator wrappers: same kind, count and size
   reach the leaf, and the alignment is never lowered *)
Theorem C09_chain_forwards_faithfully : forall ws c, forallb (fun w => negb (reshaping w)) ws = true ->
  lc_kind (forward ws c) = lc_kind c /\ lc_count (forward ws c) = lc_count c /\ lc_size (forward ws c) = lc_size c /\
  lc_align c <= lc_align (forward ws c).
Proof. exact forward_plain. Qed.
Print Assumptions C09_chain_forwards_faithfully.

(* with the type-erased storage anywhere in the chain: the bytes asked of the leaf are the bytes requested, alignment never lowered *)
Theorem C09_chain_with_type_erasure_keeps_bytes : forall ws c, forallb (fun w => negb (adapting w)) ws = true ->
  bytes_of (forward ws c) = bytes_of c /\ lc_align c <= lc_align (forward ws c).
Proof. exact forward_bytes. Qed.
Print Assumptions C09_chain_with_type_erasure_keeps_bytes.

(* memory_resource_adapter: the node or array it asks for covers the bytes, at the requested alignment -- for every size, on both sides of max_node_size *)
Theorem C09_resource_adapter_covers_request : forall max c, 0 < max -> 0 <= lc_size c ->
  lc_size c <= bytes_of (through (WResource max) c) /\ lc_align (through (WResource max) c) = lc_align c.
Proof. exact resource_covers. Qed.
Print Assumptions C09_resource_adapter_covers_request.

(* std_allocator<T>: n objects are exactly n * sizeof(T) bytes at alignof(T), for every T and n >= 1 *)
Theorem C09_std_allocator_covers_request : forall sT aT c, 1 <= lc_count c ->
  bytes_of (through (WStd sT aT) c) = lc_count c * sT /\ lc_align (through (WStd sT aT) c) = aT.
Proof. exact std_covers. Qed.
Print Assumptions C09_std_allocator_covers_request.

(* allocators that define only the node functions -- memory_resource_allocator over any memory resource --: through the
   allocator traits (and hence through std_allocator, deleters, every wrapper) an array reaches the resource as ONE node
   request for exactly count * size bytes at the requested alignment, a node request unchanged; the release repeats it *)
Theorem C09_node_only_allocators_get_arrays_as_one_node : forall c,
  lc_kind (through WNodeOnly c) = KNode /\ lc_size (through WNodeOnly c) = bytes_of c /\ lc_align (through WNodeOnly c) = lc_align c /\
  lc_leaf (through WNodeOnly c) = lc_leaf c.
Proof. exact node_only_covers. Qed.
Print Assumptions C09_node_only_allocators_get_arrays_as_one_node.

(* what reaches the leaf is a function of the user's request alone: the release repeats leaf, kind, count, size and alignment *)
Theorem C09_release_repeats_the_request : forall ws c1 c2, c1 = c2 -> forward ws c1 = forward ws c2.
Proof. exact release_matches. Qed.
Print Assumptions C09_release_repeats_the_request.

Theorem C09_segregator_decision_ignores_alignment_and_pointer : forall t c c',
  lc_kind c = lc_kind c' -> lc_count c = lc_count c' -> lc_size c = lc_size c' ->
  lc_leaf (through (WSegregator t) c) = lc_leaf (through (WSegregator t) c').
Proof. exact segregator_decision. Qed.
Print Assumptions C09_segregator_decision_ignores_alignment_and_pointer.

(* the source: tracked_allocator (throwing and composable members, tracker told once, composable only on success),
   aligned_allocator, allocator_storage, the type-erased basic_allocator, binary_segregator, memory_resource_adapter, std_allocator and the six deleter classes (node by sizeof / alignof of the value type, array by the stored element count, polymorphic by the stored size and alignment) have the call shapes
   the model's wrappers stand for *)
Theorem C09_wrapper_members_have_the_modelled_shape :
  tracked_ok && aligned_ok && storage_forwards_ok && segregator_ok && resource_adapter_ok && std_allocator_ok && any_ok && deleters_ok = true.
Proof. exact C09_shapes_hold. Qed.
Print Assumptions C09_wrapper_members_have_the_modelled_shape.

Example C09_nonvacuous :
  let req := {| lc_leaf := 0; lc_kind := KArray; lc_count := 3; lc_size := 24; lc_align := 8 |} in
  (forward [WPass; WAligned 32; WSegregator 64; WPass] req,
   forward [WResource 256] {| lc_leaf := 0; lc_kind := KNode; lc_count := 1; lc_size := 1000; lc_align := 16 |},
   forward [WStd 70000 1; WAligned 16] {| lc_leaf := 0; lc_kind := KNode; lc_count := 2; lc_size := 0; lc_align := 0 |})
  = ({| lc_leaf := 1; lc_kind := KArray; lc_count := 3; lc_size := 24; lc_align := 32 |},
     {| lc_leaf := 0; lc_kind := KArray; lc_count := 4; lc_size := 256; lc_align := 16 |},
     {| lc_leaf := 0; lc_kind := KArray; lc_count := 2; lc_size := 70000; lc_align := 16 |}).
Proof. vm_compute. reflexivity. Qed.
