From Coq Require Import ZArith NArith List Lia Bool Arith ZifyBool ZifyNat ZifyN.
From FM Require Import Wrap GenArith FixedStack FixedStackProofs Iteration.
Import ListNotations.
Local Open Scope Z_scope.
Ltac Zify.zify_post_hook ::= Z.div_mod_to_equations.

(* ---------- region arithmetic, for all N >= 1 and all sizes ---------- *)
Lemma istart_0 S n : (0 < n)%nat -> istart S n 0 = 0.
Proof. intros. unfold istart. rewrite Z.mul_0_l. apply Z.div_0_l. lia. Qed.
Lemma istart_N S n : (0 < n)%nat -> istart S n n = S.
Proof. intros. unfold istart. rewrite Z.mul_comm. apply Z.div_mul. lia. Qed.
Lemma istart_mono S n i j : (0 < n)%nat -> 0 <= S -> (i <= j)%nat -> istart S n i <= istart S n j.
Proof. intros. unfold istart. apply Z.div_le_mono; [lia|]. apply Z.mul_le_mono_nonneg_r; lia. Qed.

Theorem regions_partition S n : (0 < n)%nat -> 0 <= S ->
  istart S n 0 = 0 /\ istart S n n = S /\
  (forall i j, (i < j)%nat -> (j <= n)%nat -> istart S n (Datatypes.S i) <= istart S n j) /\
  (forall i, (i < n)%nat -> 0 <= istart S n i /\ istart S n (Datatypes.S i) <= S).
Proof.
  intros Hn HS. split; [apply istart_0; assumption|]. split; [apply istart_N; assumption|]. split.
  - intros i j Hij Hj. apply istart_mono; lia.
  - intros i Hi. split.
    + rewrite <- (istart_0 S n Hn). apply istart_mono; lia.
    + rewrite <- (istart_N S n Hn) at 2. apply istart_mono; lia.
Qed.

(* the generated block_start is this formula (no wrap when the block lies in the address space) *)
Lemma block_start_is_kernel base size n i : (0 < n)%nat -> 0 <= size -> 0 <= base -> (i <= n)%nat ->
  base + size < 2^64 -> Z.of_nat n * size < 2^64 ->
  Z.of_N (iteration_block_start (Z.to_N base) (Z.to_N size) (N.of_nat n) (N.of_nat i)) = base + istart size n i.
Proof.
  intros Hn Hs Hb Hi Hlt Hmul. unfold iteration_block_start, istart. cbv zeta.
  assert (Hi2 : Z.of_nat i * size <= Z.of_nat n * size) by nia.
  assert (Hq : Z.of_nat i * size / Z.of_nat n <= size).
  { apply Z.div_le_upper_bound; nia. }
  assert (Hq0 : 0 <= Z.of_nat i * size / Z.of_nat n) by (apply Z.div_pos; nia).
  unfold wadd64, wmul64, wrap64.
  rewrite (N.mod_small (N.of_nat i * Z.to_N size)).
  2:{ apply N2Z.inj_lt. rewrite N2Z.inj_mul, nat_N_Z, Z2N.id by lia. change (Z.of_N (2^64)) with (2^64). lia. }
  assert (E : Z.of_N (N.of_nat i * Z.to_N size / N.of_nat n) = Z.of_nat i * size / Z.of_nat n).
  { rewrite N2Z.inj_div, N2Z.inj_mul, !nat_N_Z, Z2N.id by lia. reflexivity. }
  rewrite N.mod_small.
  - rewrite N2Z.inj_add, E, Z2N.id by lia. reflexivity.
  - apply N2Z.inj_lt. rewrite N2Z.inj_add, E, Z2N.id by lia. change (Z.of_N (2^64)) with (2^64). lia.
Qed.

(* ---------- invariant ---------- *)
Definition disj (a b : arec) : Prop := a_ptr a + a_size a <= a_ptr b \/ a_ptr b + a_size b <= a_ptr a.

Fixpoint pairwise (l : list arec) : Prop :=
  match l with [] => True | a :: tl => Forall (disj a) tl /\ pairwise tl end.

Record Inv (s : ist) : Prop := {
  inv_n    : (0 < iN s)%nat;
  inv_cur  : (icur s < iN s)%nat;
  inv_size : 0 <= isize s;
  inv_base : 0 < ibase s;
  inv_tops : forall i, (i < iN s)%nat -> rstart s i <= itops s i <= rstart s (S i);
  inv_live : forall a, In a (ilive s) -> (a_reg a < iN s)%nat /\ 0 <= a_size a /\
                                         rstart s (a_reg a) <= a_ptr a /\ a_ptr a + a_size a <= itops s (a_reg a);
  inv_pair : pairwise (ilive s) }.

Lemma rstart_mono s i j : (0 < iN s)%nat -> 0 <= isize s -> (i <= j)%nat -> rstart s i <= rstart s j.
Proof. intros. unfold rstart. pose proof (istart_mono (isize s) (iN s) i j). lia. Qed.

Lemma init_inv base size n : (0 < n)%nat -> 0 <= size -> 0 < base -> Inv (it_init base size n).
Proof.
  intros Hn Hs Hb. constructor; cbn; try assumption; try lia.
  intros i Hi. unfold rstart; cbn. pose proof (istart_mono size n i (S i) Hn Hs). lia.
Qed.

Lemma pairwise_filter f l : pairwise l -> pairwise (filter f l).
Proof.
  induction l as [|a l IH]; cbn; [trivial|]. intros [Ha Hl]. destruct (f a); cbn.
  - split; [|apply IH; assumption]. rewrite Forall_forall in *. intros x Hx. apply filter_In in Hx. apply Ha. tauto.
  - apply IH; assumption.
Qed.

Section Step.
Variable fence : Z.
Variable fill : bool.
Hypothesis Hfence : 0 <= fence.

Lemma step_inv s o : Inv s ->
  (match o with IAlloc _ size al => 0 <= size /\ 0 < al | INext => True end) ->
  Inv (fst (it_step fence fill s o)).
Proof.
  intros [Hn Hc Hs Hb Ht Hl Hp] Hop. destruct o as [thr size al|]; cbn [it_step].
  - destruct Hop as [Hsz Hal].
    destruct (fs_alloc fence (itops s (icur s)) (rstart s (S (icur s))) size al) as [[p top']|] eqn:E; cbn [fst].
    2:{ constructor; assumption. }
    apply fs_alloc_spec in E; try assumption. destruct E as (Hne & Hlo & Hhi & Hmod & Htop & Hend).
    pose proof (Ht (icur s) Hc) as [Ht1 Ht2].
    constructor; cbn; try assumption.
    + intros i Hi. unfold rstart in *; cbn. unfold upd. destruct (Nat.eqb_spec i (icur s)) as [->|Hne'].
      * lia.
      * apply Ht; assumption.
    + intros a [<-|Ha]; cbn.
      * unfold rstart in *; cbn. unfold upd. rewrite Nat.eqb_refl. repeat split; lia.
      * destruct (Hl a Ha) as (H1 & H2 & H3 & H4). unfold rstart in *; cbn. unfold upd.
        destruct (Nat.eqb_spec (a_reg a) (icur s)) as [E'|E']; repeat split; try lia. rewrite E' in H4. lia.
    + split; [|assumption]. rewrite Forall_forall. intros a Ha. unfold disj; cbn.
      destruct (Hl a Ha) as (H1 & H2 & H3 & H4).
      destruct (Nat.eq_dec (a_reg a) (icur s)) as [E'|E'].
      * rewrite E' in H4. right. lia.
      * pose proof (Ht (a_reg a) H1) as [Ha1 Ha2].
        destruct (Nat.lt_ge_cases (a_reg a) (icur s)) as [Hlt|Hge].
        -- right. pose proof (rstart_mono s (S (a_reg a)) (icur s) Hn Hs ltac:(lia)). lia.
        -- left. pose proof (rstart_mono s (S (icur s)) (a_reg a) Hn Hs ltac:(lia)). lia.
  - set (c := (S (icur s) mod iN s)%nat).
    assert (Hcn : (c < iN s)%nat) by (apply Nat.mod_upper_bound; lia).
    destruct (fill && (itops s c <? rstart s c)) eqn:Ecr; cbn [fst]; [constructor; assumption|].
    constructor; cbn; try assumption.
    + intros i Hi. unfold rstart in *; cbn. unfold upd. destruct (Nat.eqb_spec i c) as [->|Hne'].
      * pose proof (istart_mono (isize s) (iN s) c (S c) Hn Hs). lia.
      * apply Ht; assumption.
    + intros a Ha. apply filter_In in Ha as [Ha Hr]. destruct (Hl a Ha) as (H1 & H2 & H3 & H4).
      unfold rstart in *; cbn. unfold upd.
      destruct (Nat.eqb_spec (a_reg a) c) as [E'|E']; [discriminate Hr|]. repeat split; assumption.
    + apply pairwise_filter; assumption.
Qed.

(* result of a successful allocation: inside the current region, aligned, disjoint from everything live *)
Theorem alloc_ok s thr size al p : Inv s -> 0 <= size -> 0 < al ->
  snd (it_step fence fill s (IAlloc thr size al)) = IOk p ->
  p <> 0 /\ p mod al = 0 /\ rstart s (icur s) <= p /\ p + size <= rstart s (S (icur s)) /\
  ibase s <= p /\ p + size <= ibase s + isize s /\
  forall a, In a (ilive s) -> a_ptr a + a_size a <= p \/ p + size <= a_ptr a.
Proof.
  intros I Hsz Hal. pose proof (step_inv s (IAlloc thr size al) I (conj Hsz Hal)) as I'.
  cbn [it_step] in *.
  destruct (fs_alloc fence (itops s (icur s)) (rstart s (S (icur s))) size al) as [[q top']|] eqn:E; cbn [fst snd] in *.
  2:{ destruct thr; discriminate. }
  intros Ho. injection Ho as ->.
  destruct I as [Hn Hc Hs Hb Ht Hl Hp].
  apply fs_alloc_spec in E; try assumption. destruct E as (Hne & Hlo & Hhi & Hmod & Htop & Hend).
  pose proof (Ht (icur s) Hc) as [Ht1 Ht2].
  pose proof (regions_partition (isize s) (iN s) Hn Hs) as (P0 & PN & _ & Pin).
  destruct (Pin (icur s) Hc) as [Pin1 Pin2]. unfold rstart in *.
  repeat split; try lia.
  intros a Ha. destruct I' as [_ _ _ _ _ _ [Hf _]]. cbn in Hf. rewrite Forall_forall in Hf.
  specialize (Hf a Ha). unfold disj in Hf; cbn in Hf. lia.
Qed.

(* a failed request leaves the state unchanged *)
Theorem alloc_fail_unchanged s thr size al :
  snd (it_step fence fill s (IAlloc thr size al)) = (if thr then IThrow else INull) ->
  fst (it_step fence fill s (IAlloc thr size al)) = s.
Proof.
  cbn [it_step]. destruct (fs_alloc fence (itops s (icur s)) (rstart s (S (icur s))) size al) as [[q top']|]; cbn.
  - destruct thr; discriminate.
  - reflexivity.
Qed.

(* switching makes the full region available again *)
Theorem switch_full_capacity s s' c : Inv s -> it_step fence fill s INext = (s', INextOut c) ->
  icur s' = c /\ c = (S (icur s) mod iN s)%nat /\ it_capacity_left s' c = rstart s (S c) - rstart s c.
Proof.
  intros I. cbn [it_step].
  destruct (fill && (itops s (S (icur s) mod iN s) <? rstart s (S (icur s) mod iN s))); [discriminate|].
  intros E. injection E as <- <-. cbn. split; [reflexivity|]. split; [reflexivity|].
  unfold it_capacity_left, rstart; cbn. unfold upd. rewrite Nat.eqb_refl. lia.
Qed.

(* under the invariant next_iteration never crashes (the negative fill length is unreachable) *)
Theorem next_never_crashes s : Inv s -> snd (it_step fence fill s INext) <> ICrash.
Proof.
  intros [Hn Hc Hs Hb Ht Hl Hp]. cbn [it_step].
  set (c := (S (icur s) mod iN s)%nat).
  assert (Hcn : (c < iN s)%nat) by (apply Nat.mod_upper_bound; lia).
  destruct (Ht c Hcn) as [H1 _].
  destruct (Z.ltb_spec (itops s c) (rstart s c)); [lia|]. rewrite andb_false_r. cbn. discriminate.
Qed.

(* ---------- lifetime: exactly N iterations ---------- *)
Definition ttl (s : ist) (a : arec) : nat :=
  if Nat.eqb (a_reg a) (icur s) then iN s else ((a_reg a + iN s - icur s) mod iN s)%nat.

Definition is_next (o : iop) : bool := match o with INext => true | _ => false end.
Definition count_next (ops : list iop) : nat := length (filter is_next ops).

Definition op_ok (o : iop) : Prop := match o with IAlloc _ size al => 0 <= size /\ 0 < al | INext => True end.

Lemma ttl_pos s a : (0 < iN s)%nat -> (a_reg a < iN s)%nat -> (icur s < iN s)%nat -> (0 < ttl s a <= iN s)%nat.
Proof.
  intros Hn Ha Hc. unfold ttl. destruct (Nat.eqb_spec (a_reg a) (icur s)) as [E|E]; [lia|].
  destruct (Nat.lt_ge_cases (a_reg a) (icur s)).
  - rewrite Nat.mod_small by lia. lia.
  - replace (a_reg a + iN s - icur s)%nat with ((a_reg a - icur s) + 1 * iN s)%nat by lia.
    rewrite Nat.mod_add by lia. rewrite Nat.mod_small by lia. lia.
Qed.

Lemma next_ttl s a : Inv s -> In a (ilive s) -> (1 < ttl s a)%nat ->
  let s' := fst (it_step fence fill s INext) in
  In a (ilive s') /\ ttl s' a = (ttl s a - 1)%nat.
Proof.
  intros I Ha Ht. pose proof (next_never_crashes s I) as Hnc.
  destruct I as [Hn Hc Hs Hb Htp Hl Hp]. destruct (Hl a Ha) as (Hr & _).
  cbn [it_step] in *. set (c := (S (icur s) mod iN s)%nat) in *.
  destruct (fill && (itops s c <? rstart s c)); [exfalso; apply Hnc; reflexivity|]. cbn [fst]. cbv zeta.
  assert (Hcv : c = if Nat.eqb (S (icur s)) (iN s) then 0%nat else S (icur s)).
  { unfold c. destruct (Nat.eqb_spec (S (icur s)) (iN s)) as [E|E].
    - rewrite E. apply Nat.mod_same. lia.
    - apply Nat.mod_small. lia. }
  unfold ttl in *; cbn. 
  destruct (Nat.eqb_spec (a_reg a) (icur s)) as [E1|E1].
  - (* own region: ttl = N > 1 *)
    assert (Hne : a_reg a <> c).
    { rewrite Hcv. destruct (Nat.eqb_spec (S (icur s)) (iN s)); lia. }
    split.
    + apply filter_In. split; [assumption|]. apply negb_true_iff, Nat.eqb_neq. assumption.
    + destruct (Nat.eqb_spec (a_reg a) c); [contradiction|].
      rewrite Hcv. destruct (Nat.eqb_spec (S (icur s)) (iN s)) as [E|E].
      * rewrite E1. replace (icur s + iN s - 0)%nat with (icur s + 1 * iN s)%nat by lia.
        rewrite Nat.mod_add by lia. rewrite Nat.mod_small by lia. lia.
      * rewrite E1. replace (icur s + iN s - S (icur s))%nat with (iN s - 1)%nat by lia.
        rewrite Nat.mod_small by lia. lia.
  - assert (Hd : ((a_reg a + iN s - icur s) mod iN s)%nat = if Nat.ltb (a_reg a) (icur s) then (a_reg a + iN s - icur s)%nat else (a_reg a - icur s)%nat).
    { destruct (Nat.ltb_spec (a_reg a) (icur s)).
      - apply Nat.mod_small. lia.
      - replace (a_reg a + iN s - icur s)%nat with ((a_reg a - icur s) + 1 * iN s)%nat by lia.
        rewrite Nat.mod_add by lia. apply Nat.mod_small. lia. }
    rewrite Hd in Ht.
    assert (Hne : a_reg a <> c).
    { rewrite Hcv. destruct (Nat.eqb_spec (S (icur s)) (iN s)); destruct (Nat.ltb_spec (a_reg a) (icur s)); lia. }
    split.
    + apply filter_In. split; [assumption|]. apply negb_true_iff, Nat.eqb_neq. assumption.
    + destruct (Nat.eqb_spec (a_reg a) c); [contradiction|]. rewrite Hd.
      rewrite Hcv. destruct (Nat.eqb_spec (S (icur s)) (iN s)) as [E|E].
      * replace (a_reg a + iN s - 0)%nat with (a_reg a + 1 * iN s)%nat by lia.
        rewrite Nat.mod_add by lia. rewrite Nat.mod_small by lia.
        destruct (Nat.ltb_spec (a_reg a) (icur s)); lia.
      * destruct (Nat.ltb_spec (a_reg a) (icur s)).
        -- rewrite Nat.mod_small by lia. lia.
        -- replace (a_reg a + iN s - S (icur s))%nat with ((a_reg a - S (icur s)) + 1 * iN s)%nat by lia.
           rewrite Nat.mod_add by lia. rewrite Nat.mod_small by lia. lia.
Qed.

Lemma alloc_keeps s thr size al a : In a (ilive s) ->
  let s' := fst (it_step fence fill s (IAlloc thr size al)) in In a (ilive s') /\ ttl s' a = ttl s a.
Proof.
  intros Ha. cbn [it_step].
  destruct (fs_alloc fence (itops s (icur s)) (rstart s (S (icur s))) size al) as [[q top']|]; cbn.
  - split; [right; assumption|reflexivity].
  - split; [assumption|reflexivity].
Qed.

Theorem lifetime_N : forall ops s a, Inv s -> Forall op_ok ops -> In a (ilive s) ->
  (count_next ops < ttl s a)%nat -> In a (ilive (it_run fence fill s ops)).
Proof.
  induction ops as [|o ops IH]; intros s a I Hok Ha Hc; cbn [it_run]; [assumption|].
  inversion Hok as [|? ? Ho Hok']; subst.
  pose proof (step_inv s o I) as I'.
  destruct o as [thr size al|].
  - destruct (alloc_keeps s thr size al a Ha) as [Ha' Ht'].
    apply IH; [apply I'; exact Ho|assumption|assumption|]. rewrite Ht'. unfold count_next in *. cbn in Hc. assumption.
  - unfold count_next in Hc. cbn in Hc.
    destruct (next_ttl s a I Ha ltac:(lia)) as [Ha' Ht'].
    apply IH; [apply I'; constructor|assumption|assumption|]. rewrite Ht'. unfold count_next. lia.
Qed.

(* an allocation just made has the full N iterations in front of it *)
Corollary fresh_allocation_lives_N s thr size al p ops : Inv s -> 0 <= size -> 0 < al ->
  snd (it_step fence fill s (IAlloc thr size al)) = IOk p -> Forall op_ok ops ->
  (count_next ops < iN s)%nat ->
  In {| a_ptr := p; a_size := size; a_reg := icur s |} (ilive (it_run fence fill (fst (it_step fence fill s (IAlloc thr size al))) ops)).
Proof.
  intros I Hsz Hal Ho Hok Hc.
  pose proof (step_inv s (IAlloc thr size al) I (conj Hsz Hal)) as I'.
  apply lifetime_N; try assumption.
  - cbn [it_step] in *. destruct (fs_alloc fence (itops s (icur s)) (rstart s (S (icur s))) size al) as [[q top']|]; cbn in *.
    + injection Ho as ->. left. reflexivity.
    + destruct thr; discriminate.
  - cbn [it_step] in *. destruct (fs_alloc fence (itops s (icur s)) (rstart s (S (icur s))) size al) as [[q top']|]; cbn in *.
    + unfold ttl; cbn. rewrite Nat.eqb_refl. assumption.
    + destruct thr; discriminate.
Qed.

(* ---------- the allocator never writes into an allocation that is live after the step ---------- *)
Theorem writes_avoid_live s o : Inv s -> op_ok o ->
  forall w a, In w (it_writes fence s o) -> In a (ilive (fst (it_step fence fill s o))) ->
    (match o with IAlloc _ _ _ => In a (ilive s) | INext => True end) ->
    snd w <= 0 \/ a_ptr a + a_size a <= fst w \/ fst w + snd w <= a_ptr a.
Proof.
  intros I Hok w a Hw Ha Hold. pose proof (next_never_crashes s I) as Hnc.
  destruct I as [Hn Hc Hs Hb Ht Hl Hp].
  destruct o as [thr size al|]; cbn [it_writes it_step] in *.
  - destruct Hok as [Hsz Hal].
    destruct (fs_alloc fence (itops s (icur s)) (rstart s (S (icur s))) size al) as [[q top']|] eqn:E; [|destruct Hw].
    destruct Hw as [<-|[]]. cbn.
    apply fs_alloc_spec in E; try assumption. destruct E as (Hne & Hlo & Hhi & Hmod & Htop & Hend).
    destruct (Hl a Hold) as (H1 & H2 & H3 & H4). pose proof (Ht (icur s) Hc) as [Ht1 Ht2].
    destruct (Nat.eq_dec (a_reg a) (icur s)) as [E'|E'].
    + rewrite E' in H4. right; left. lia.
    + pose proof (Ht (a_reg a) H1) as [Ha1 Ha2].
      destruct (Nat.lt_ge_cases (a_reg a) (icur s)) as [Hlt|Hge].
      * right; left. pose proof (rstart_mono s (S (a_reg a)) (icur s) Hn Hs ltac:(lia)). lia.
      * right; right. pose proof (rstart_mono s (S (icur s)) (a_reg a) Hn Hs ltac:(lia)). lia.
  - set (c := (S (icur s) mod iN s)%nat) in *.
    assert (Hcn : (c < iN s)%nat) by (apply Nat.mod_upper_bound; lia).
    destruct Hw as [<-|[]]. cbn.
    destruct (fill && (itops s c <? rstart s c)); [exfalso; apply Hnc; reflexivity|]. cbn in Ha.
    apply filter_In in Ha as [Ha Hr]. apply negb_true_iff, Nat.eqb_neq in Hr.
    destruct (Hl a Ha) as (H1 & H2 & H3 & H4). pose proof (Ht c Hcn) as [Ht1 Ht2].
    pose proof (Ht (a_reg a) H1) as [Ha1 Ha2].
    destruct (Nat.lt_ge_cases (a_reg a) c) as [Hlt|Hge].
    + right; left. pose proof (rstart_mono s (S (a_reg a)) c Hn Hs ltac:(lia)). lia.
    + right; right. pose proof (rstart_mono s (S c) (a_reg a) Hn Hs ltac:(lia)). lia.
Qed.

Lemma run_inv : forall ops s, Inv s -> Forall op_ok ops -> Inv (it_run fence fill s ops).
Proof.
  induction ops as [|o ops IH]; intros s I Hok; cbn [it_run]; [assumption|].
  inversion Hok; subst. apply IH; [|assumption]. apply step_inv; [assumption|].
  destruct o; assumption.
Qed.
End Step.

(* ---------- the constructor as it was: regions disagree with block_start ---------- *)
Theorem ctor_region_refuted : exists size n i, (i < n)%nat /\
  itops (it_init_orig 4096 size n) i < rstart (it_init_orig 4096 size n) i /\
  snd (it_step 0 true (fst (it_step 0 true (it_init_orig 4096 size n) INext)) INext) = ICrash.
Proof. exists 1025, 3%nat, 2%nat. vm_compute. repeat split; reflexivity. Qed.
