From Coq Require Import List Bool Arith Lia.
From FM Require Import ExcSafety.
Import ListNotations.

Lemma build_none : forall fuel i n, n - i <= fuel -> build fuel i n None = (map XCons (seq i (n - i)), true).
Proof.
  induction fuel as [|f IH]; intros i n Hf.
  - replace (n - i) with 0 by lia. reflexivity.
  - cbn [build]. destruct (Nat.ltb_spec i n) as [Hlt|Hge].
    + rewrite IH by lia. replace (n - i) with (S (n - S i)) by lia. reflexivity.
    + replace (n - i) with 0 by lia. reflexivity.
Qed.

Lemma build_some : forall fuel i n k, i <= k -> k < n -> n - i <= fuel ->
  build fuel i n (Some k) = (map XCons (seq i (k - i)), false).
Proof.
  induction fuel as [|f IH]; intros i n k Hik Hkn Hf; [lia|].
  cbn [build]. destruct (Nat.ltb_spec i n) as [Hlt|Hge]; [|lia].
  destruct (Nat.eqb_spec k i) as [->|Hne].
  - rewrite Nat.sub_diag. reflexivity.
  - rewrite IH by lia. replace (k - i) with (S (k - S i)) by lia. reflexivity.
Qed.

Lemma count_map_cons i l : count (is_cons i) (map XCons l) = length (filter (Nat.eqb i) l).
Proof. unfold count. induction l as [|x l IH]; cbn; [reflexivity|]. destruct (Nat.eqb i x); cbn; rewrite IH; reflexivity. Qed.
Lemma count_map_dtor i l : count (is_dtor i) (map XDtor l) = length (filter (Nat.eqb i) l).
Proof. unfold count. induction l as [|x l IH]; cbn; [reflexivity|]. destruct (Nat.eqb i x); cbn; rewrite IH; reflexivity. Qed.
Lemma count_cons_dtor i l : count (is_cons i) (map XDtor l) = 0.
Proof. unfold count. induction l; cbn; [reflexivity|assumption]. Qed.
Lemma count_dtor_cons i l : count (is_dtor i) (map XCons l) = 0.
Proof. unfold count. induction l; cbn; [reflexivity|assumption]. Qed.
Lemma count_app p a b : count p (a ++ b) = count p a + count p b.
Proof. unfold count. rewrite filter_app, app_length. reflexivity. Qed.

Lemma filter_eq_seq i s n : length (filter (Nat.eqb i) (seq s n)) = if andb (Nat.leb s i) (Nat.ltb i (s + n)) then 1 else 0.
Proof.
  revert s. induction n as [|n IH]; intros s; cbn [seq filter length].
  - destruct (Nat.leb_spec s i), (Nat.ltb_spec i (s + 0)); cbn [andb]; try reflexivity; lia.
  - destruct (Nat.eqb_spec i s) as [->|Hne]; cbn [length]; rewrite IH.
    + destruct (Nat.leb_spec (S s) s); [lia|]. cbn [andb]. rewrite Nat.leb_refl. destruct (Nat.ltb_spec s (s + S n)); [reflexivity|lia].
    + destruct (Nat.leb_spec (S s) i), (Nat.leb_spec s i), (Nat.ltb_spec i (S s + n)), (Nat.ltb_spec i (s + S n)); cbn [andb]; try reflexivity; lia.
Qed.

(* C20, array helpers: for every length n and every failing index k < n:
   elements 0..k-1 are constructed once and destroyed once, nothing else is constructed or destroyed,
   the memory is obtained once and released once, and the exception propagates *)
Theorem create_array_failure n k i : k < n ->
  let ev := create_array n (Some k) in
  count (is_cons i) ev = (if Nat.ltb i k then 1 else 0) /\
  count (is_dtor i) ev = (if Nat.ltb i k then 1 else 0) /\
  count is_alloc ev = 1 /\ count is_free ev = 1 /\ count is_throw ev = 1 /\ exists pre, ev = pre ++ [XThrow].
Proof.
  intros Hk. unfold create_array. rewrite (build_some n 0 n k) by lia. rewrite Nat.sub_0_r. cbv zeta.
  rewrite map_length, seq_length. unfold dtors.
  rewrite !count_app, count_map_cons, count_map_dtor, count_cons_dtor, count_dtor_cons, !filter_eq_seq. cbn [Nat.leb andb plus].
  assert (A : forall p, (forall j, p (XCons j) = false) -> (forall j, p (XDtor j) = false) -> forall l, count p (map XCons l) = 0 /\ count p (map XDtor l) = 0).
  { intros p H1 H2 l. unfold count. split; induction l; cbn; rewrite ?H1, ?H2; auto. }
  destruct (A is_alloc (fun _ => eq_refl) (fun _ => eq_refl) (seq 0 k)) as [A1 A2].
  destruct (A is_free (fun _ => eq_refl) (fun _ => eq_refl) (seq 0 k)) as [F1 F2].
  destruct (A is_throw (fun _ => eq_refl) (fun _ => eq_refl) (seq 0 k)) as [T1 T2].
  rewrite A1, A2, F1, F2, T1, T2. cbn [count filter is_alloc is_free is_throw is_cons is_dtor length plus].
  repeat split; try lia.
  exists ([XAlloc] ++ map XCons (seq 0 k) ++ map XDtor (seq 0 k) ++ [XFree]).
  rewrite <- !app_assoc. reflexivity.
Qed.

(* success: every element constructed once and (at release) destroyed once; one allocation, one release, no exception *)
Theorem create_array_success n i :
  let ev := create_array n None in
  count (is_cons i) ev = (if Nat.ltb i n then 1 else 0) /\
  count (is_dtor i) ev = (if Nat.ltb i n then 1 else 0) /\
  count is_alloc ev = 1 /\ count is_free ev = 1 /\ count is_throw ev = 0.
Proof.
  unfold create_array. rewrite build_none by lia. rewrite Nat.sub_0_r. cbv zeta. unfold dtors.
  rewrite !count_app, count_map_cons, count_map_dtor, count_cons_dtor, count_dtor_cons, !filter_eq_seq. cbn [Nat.leb andb plus].
  assert (A : forall p, (forall j, p (XCons j) = false) -> (forall j, p (XDtor j) = false) -> forall l, count p (map XCons l) = 0 /\ count p (map XDtor l) = 0).
  { intros p H1 H2 l. unfold count. split; induction l; cbn; rewrite ?H1, ?H2; auto. }
  destruct (A is_alloc (fun _ => eq_refl) (fun _ => eq_refl) (seq 0 n)) as [A1 A2].
  destruct (A is_free (fun _ => eq_refl) (fun _ => eq_refl) (seq 0 n)) as [F1 F2].
  destruct (A is_throw (fun _ => eq_refl) (fun _ => eq_refl) (seq 0 n)) as [T1 T2].
  rewrite A1, A2, F1, F2, T1, T2. cbn [count filter is_alloc is_free is_throw is_cons is_dtor length plus].
  repeat split; lia.
Qed.
