(* Invariant of the pool Spec model and the properties that follow from it for every accepted history. *)
From Coq Require Import ZArith NArith List Bool Lia ZifyBool.
From FM Require Import Wrap GenArith FixedStack SmallCarve PoolSpec SlotProofs ListLib.
Import ListNotations.
Local Open Scope Z_scope.

Lemma rng_disj_sym a b : rng_disj a b -> rng_disj b a.
Proof. unfold rng_disj. tauto. Qed.

(* ---------- find_list / set_list ---------- *)
Lemma find_list_In ns ls l : find_list ns ls = Some l -> In l ls /\ l_ns l = ns.
Proof.
  induction ls as [|x ls IH]; cbn; [discriminate|].
  destruct (Z.eqb_spec (l_ns x) ns) as [E|E].
  - intros H; injection H as <-. split; [left; reflexivity|assumption].
  - intros H. destruct (IH H). split; [right; assumption|assumption].
Qed.

Lemma set_list_keys l' ls : map l_ns (set_list l' ls) = map l_ns ls.
Proof.
  induction ls as [|x ls IH]; cbn; [reflexivity|].
  destruct (Z.eqb_spec (l_ns x) (l_ns l')) as [E|E]; cbn; [rewrite E; reflexivity|rewrite IH; reflexivity].
Qed.

Lemma set_list_In l' ls x : In x (set_list l' ls) -> x = l' \/ (In x ls /\ l_ns x <> l_ns l').
Proof.
  induction ls as [|y ls IH]; cbn; [intros []|].
  destruct (Z.eqb_spec (l_ns y) (l_ns l')) as [E|E]; cbn.
  - intros [<-|H]; [left; reflexivity|]. right. split; [right; assumption|].
    (* needs NoDup keys: handled by callers through set_list_In_nodup *)
Abort.

Lemma set_list_In_nodup l' ls x : NoDup (map l_ns ls) -> In x (set_list l' ls) ->
  x = l' \/ (In x ls /\ l_ns x <> l_ns l').
Proof.
  induction ls as [|y ls IH]; cbn; [intros _ []|].
  intros Hnd. inversion Hnd as [|? ? Hnin Hnd']; subst.
  destruct (Z.eqb_spec (l_ns y) (l_ns l')) as [E|E]; cbn.
  - intros [<-|H]; [left; reflexivity|]. right. split; [right; assumption|].
    intro E'. apply Hnin. rewrite E, <- E'. apply in_map. assumption.
  - intros [<-|H]; [right; split; [left; reflexivity|assumption]|].
    destruct (IH Hnd' H) as [->|[H1 H2]]; [left; reflexivity|right; split; [right; assumption|assumption]].
Qed.

Lemma find_set_same l' ls ns : l_ns l' = ns -> (exists l, find_list ns ls = Some l) -> find_list ns (set_list l' ls) = Some l'.
Proof.
  intros <-. induction ls as [|y ls IH]; cbn; [intros [l H]; discriminate|].
  destruct (Z.eqb_spec (l_ns y) (l_ns l')) as [E|E]; cbn.
  - intros _. rewrite Z.eqb_refl. reflexivity.
  - intros H. destruct (Z.eqb_spec (l_ns y) (l_ns l')); [contradiction|]. apply IH. exact H.
Qed.

Lemma find_set_other l' ls ns : l_ns l' <> ns -> find_list ns (set_list l' ls) = find_list ns ls.
Proof.
  intros Hne. induction ls as [|y ls IH]; cbn; [reflexivity|].
  destruct (Z.eqb_spec (l_ns y) (l_ns l')) as [E|E]; cbn.
  - destruct (Z.eqb_spec (l_ns l') ns); [contradiction|]. destruct (Z.eqb_spec (l_ns y) ns); [congruence|reflexivity].
  - destruct (Z.eqb_spec (l_ns y) ns); [reflexivity|assumption].
Qed.

Lemma find_list_complete ns ls l : NoDup (map l_ns ls) -> In l ls -> l_ns l = ns -> find_list ns ls = Some l.
Proof.
  induction ls as [|y ls IH]; cbn; [intros _ []|].
  intros Hnd [->|Hin] E.
  - rewrite E, Z.eqb_refl. reflexivity.
  - inversion Hnd as [|? ? Hnin Hnd']; subst. destruct (Z.eqb_spec (l_ns y) (l_ns l)) as [E'|E'].
    + exfalso. apply Hnin. rewrite E'. apply in_map. assumption.
    + apply IH; [assumption|assumption|reflexivity].
Qed.

(* ---------- per-list and global invariant ---------- *)
Definition nodes_sum (rs : list tagged) (l : lst) : Z :=
  fold_right (fun x acc => (if fst x =? l_ns l then nodes_of (l_kind l) (l_ns l) (snd x) else 0) + acc) 0 rs.
Definition k_sum (al : list (Z * Z)) : Z := fold_right (fun a acc => snd a + acc) 0 al.

Record LInv (rs : list tagged) (l : lst) : Prop := {
  li_ns : ns_ok (l_kind l) (l_ns l);
  li_nodup : NoDup (live_slots l);
  li_slots : forall a, In a (live_slots l) -> slot_of rs l a = true;
  li_kpos : Forall (fun a => 1 <= snd a) (l_allocs l);
  li_count : l_nfree l = nodes_sum rs l - k_sum (l_allocs l);
  li_nonneg : 0 <= l_nfree l }.

Record Inv (s : ast) : Prop := {
  i_keys : NoDup (map l_ns (a_lists s));
  i_lists : Forall (LInv (a_ranges s)) (a_lists s);
  i_held : pairwise rng_disj (a_held s);
  i_ranges : pairwise rng_disj (map snd (a_ranges s));
  i_pos : Forall (fun x => 0 < snd (snd x)) (a_ranges s);
  i_inside : Forall (fun x => exists b, In b (a_held s) /\ rng_inside (snd x) (usable b)) (a_ranges s) }.

Lemma init_inv ls : NoDup (map l_ns ls) -> Forall (fun l => ns_ok (l_kind l) (l_ns l) /\ l_allocs l = [] /\ l_nfree l = 0) ls ->
  Inv (mk_ast ls).
Proof.
  intros Hk Hl. constructor; cbn; try constructor; try assumption.
  rewrite Forall_forall in *. intros l Hin. destruct (Hl l Hin) as (H1 & H2 & H3).
  constructor; unfold live_slots; rewrite ?H2, ?H3; cbn; try constructor; try assumption; try lia.
Qed.

(* adding a range (for any owner) keeps every list's invariant; the owner's count grows by the new nodes *)
Lemma slot_of_cons x rs l a : slot_of (x :: rs) l a = ((fst x =? l_ns l) && is_slot (l_kind l) (l_ns l) (snd x) a) || slot_of rs l a.
Proof. reflexivity. Qed.

Lemma linv_add_range rs l x : LInv rs l -> fst x <> l_ns l -> LInv (x :: rs) l.
Proof.
  intros [H1 H2 H3 H4 H5 H6] Hne. constructor; try assumption.
  - intros a Ha. rewrite slot_of_cons, (H3 a Ha). apply orb_true_r.
  - rewrite H5. unfold nodes_sum; cbn. destruct (Z.eqb_spec (fst x) (l_ns l)); [contradiction|]. lia.
Qed.

Lemma linv_add_own rs l r : LInv rs l -> 0 <= nodes_of (l_kind l) (l_ns l) r ->
  LInv ((l_ns l, r) :: rs) {| l_kind := l_kind l; l_ns := l_ns l; l_allocs := l_allocs l; l_nfree := l_nfree l + nodes_of (l_kind l) (l_ns l) r |}.
Proof.
  intros [H1 H2 H3 H4 H5 H6] Hn.
  set (l' := {| l_kind := l_kind l; l_ns := l_ns l; l_allocs := l_allocs l; l_nfree := l_nfree l + nodes_of (l_kind l) (l_ns l) r |}).
  assert (Els : live_slots l' = live_slots l) by reflexivity.
  constructor.
  - exact H1.
  - rewrite Els. exact H2.
  - intros a Ha. rewrite Els in Ha. rewrite slot_of_cons.
    change (slot_of rs l' a) with (slot_of rs l a). rewrite (H3 a Ha). apply orb_true_r.
  - exact H4.
  - change (l_nfree l') with (l_nfree l + nodes_of (l_kind l) (l_ns l) r). change (l_allocs l') with (l_allocs l).
    change (nodes_sum ((l_ns l, r) :: rs) l') with ((if l_ns l =? l_ns l then nodes_of (l_kind l) (l_ns l) r else 0) + nodes_sum rs l).
    rewrite Z.eqb_refl. lia.
  - change (l_nfree l') with (l_nfree l + nodes_of (l_kind l) (l_ns l) r). lia.
Qed.

(* ---------- events preserve the invariant ---------- *)
Lemma range_ok_spec s r : range_ok s r = true ->
  0 < snd r /\ (exists b, In b (a_held s) /\ rng_inside r (usable b)) /\ Forall (rng_disj r) (map snd (a_ranges s)).
Proof.
  unfold range_ok. intros H. apply andb_true_iff in H as [H H3]. apply andb_true_iff in H as [H1 H2].
  apply Z.ltb_lt in H1. apply existsb_exists in H2 as (b & Hb & Hin). apply r_inside_spec in Hin.
  rewrite forallb_forall in H3. split; [assumption|]. split; [exists b; split; assumption|].
  rewrite Forall_forall. intros y Hy. apply in_map_iff in Hy as (x & <- & Hx). apply r_disj_spec. apply H3. assumption.
Qed.

Lemma held_mono_inside (rs : list tagged) held b0 :
  Forall (fun x => exists b, In b held /\ rng_inside (snd x) (usable b)) rs ->
  Forall (fun x => exists b, In b (b0 :: held) /\ rng_inside (snd x) (usable b)) rs.
Proof. intros H. eapply Forall_impl; [|exact H]. cbn. intros x (b & Hb & Hi). exists b. split; [right; assumption|assumption]. Qed.

Lemma acc_ev_inv s e s' : Inv s -> acc_ev s e = Some s' -> Inv s'.
Proof.
  intros I H. destruct I as [Ik Il Ih Ir Ip Ii]. destruct e as [addr size| |ns mem size|mem size]; cbn in H.
  - destruct (_ && _) eqn:C in H; [|discriminate]. injection H as <-.
    apply andb_true_iff in C as [C C4]. constructor; cbn; try assumption.
    + split; [|assumption]. rewrite Forall_forall. intros b Hb. rewrite forallb_forall in C4. apply r_disj_spec. apply C4. assumption.
    + apply held_mono_inside. assumption.
  - injection H as <-. constructor; assumption.
  - destruct (find_list ns (a_lists s)) as [l|] eqn:F; [|discriminate].
    destruct (_ && _) eqn:C in H; [|discriminate]. injection H as <-.
    apply andb_true_iff in C as [C _]. apply andb_true_iff in C as [C1 C2]. apply Z.ltb_lt in C1.
    apply range_ok_spec in C2 as (P1 & P2 & P3).
    destruct (find_list_In _ _ _ F) as [Fin Fns]. subst ns.
    constructor; cbn.
    + rewrite set_list_keys. assumption.
    + rewrite Forall_forall in *. intros x Hx.
      apply set_list_In_nodup in Hx; [|assumption]. destruct Hx as [->|[Hx Hne]].
      * apply linv_add_own; [apply Il; assumption|lia].
      * apply linv_add_range; [apply Il; assumption|]. cbn in *. congruence.
    + assumption.
    + split; assumption.
    + constructor; [cbn; assumption|assumption].
    + constructor; [cbn; assumption|assumption].
  - destruct (range_ok s (mem, size)) eqn:C; [|discriminate]. injection H as <-.
    apply range_ok_spec in C as (P1 & P2 & P3).
    constructor; cbn; try assumption.
    + rewrite Forall_forall in *. intros x Hx. apply linv_add_range; [apply Il; assumption|]. cbn.
      pose proof (li_ns _ _ (Il x Hx)) as Hok. destruct (l_kind x); cbn in Hok; lia.
    + split; assumption.
    + constructor; [cbn; assumption|assumption].
    + constructor; [cbn; assumption|assumption].
Qed.

Lemma acc_evs_inv : forall es s s', Inv s -> acc_evs s es = Some s' -> Inv s'.
Proof.
  induction es as [|e es IH]; cbn; intros s s' I H; [injection H as <-; assumption|].
  destruct (acc_ev s e) as [s1|] eqn:E; [|discriminate]. eapply IH; [eapply acc_ev_inv; eassumption|eassumption].
Qed.

(* ---------- taking and returning nodes ---------- *)
Lemma slot_addrs_In ns p k a : In a (slot_addrs ns p k) <-> exists i, (i < k)%nat /\ a = p + Z.of_nat i * ns.
Proof.
  revert p. induction k as [|k IH]; intros p; cbn.
  - split; [intros []|intros (i & Hi & _); lia].
  - rewrite IH. split.
    + intros [<-|(i & Hi & ->)]; [exists 0%nat; split; [lia|cbn; lia]|exists (S i); split; [lia|lia]].
    + intros (i & Hi & ->). destruct i as [|i]; [left; cbn; lia|right; exists i; split; [lia|lia]].
Qed.

Lemma slot_addrs_NoDup ns p k : 0 < ns -> NoDup (slot_addrs ns p k).
Proof.
  intros Hns. revert p. induction k as [|k IH]; intros p; cbn; constructor.
  - rewrite slot_addrs_In. intros (i & _ & E). nia.
  - apply IH.
Qed.

Lemma ns_ok_pos k ns : ns_ok k ns -> 0 < ns.
Proof. destruct k; cbn; lia. Qed.

Lemma zmem_false a l : zmem a l = false -> ~ In a l.
Proof.
  unfold zmem. intros H Hin. assert (existsb (Z.eqb a) l = true) by (apply existsb_exists; exists a; split; [assumption|apply Z.eqb_refl]). congruence.
Qed.

Lemma NoDup_app_intro {A} (l1 l2 : list A) : NoDup l1 -> NoDup l2 -> (forall x, In x l1 -> ~ In x l2) -> NoDup (l1 ++ l2).
Proof.
  induction l1 as [|a l1 IH]; cbn; intros H1 H2 Hd; [assumption|].
  inversion H1; subst. constructor.
  - rewrite in_app_iff. intros [H|H]; [contradiction|]. eapply Hd; [left; reflexivity|exact H].
  - apply IH; [assumption|assumption|]. intros x Hx. apply Hd. right. assumption.
Qed.

Lemma NoDup_app_drop_mid {A} (a b c : list A) : NoDup (a ++ b ++ c) -> NoDup (a ++ c).
Proof.
  induction a as [|x a IH]; cbn.
  - induction b as [|y b IHb]; cbn; [trivial|]. intros H. inversion H; subst. apply IHb. assumption.
  - intros H. inversion H as [|? ? Hnin Hnd]; subst. constructor.
    + rewrite in_app_iff in *. intros [Hx|Hx]; apply Hnin; [left; assumption|right; rewrite in_app_iff; right; assumption].
    + apply IH. assumption.
Qed.

Lemma take_slots_linv rs l p k l' : LInv rs l -> take_slots rs l p k = Some l' ->
  LInv rs l' /\ l_ns l' = l_ns l /\ l_kind l' = l_kind l /\ l_allocs l' = (p, k) :: l_allocs l /\ l_nfree l' = l_nfree l - k.
Proof.
  intros [H1 H2 H3 H4 H5 H6] H. unfold take_slots in H.
  destruct (_ && _) eqn:C in H; [|discriminate]. injection H as <-.
  apply andb_true_iff in C as [C C3]. apply andb_true_iff in C as [C1 C2].
  apply Z.leb_le in C1. apply Z.leb_le in C2. rewrite forallb_forall in C3.
  split; [|cbn; repeat split; reflexivity].
  set (l' := {| l_kind := l_kind l; l_ns := l_ns l; l_allocs := (p, k) :: l_allocs l; l_nfree := l_nfree l - k |}).
  assert (Els : live_slots l' = slot_addrs (l_ns l) p (Z.to_nat k) ++ live_slots l) by reflexivity.
  pose proof (ns_ok_pos _ _ H1) as Hpos.
  constructor.
  - exact H1.
  - rewrite Els. apply NoDup_app_intro; [apply slot_addrs_NoDup; assumption|assumption|].
    intros x Hx. specialize (C3 x Hx). unfold in_free in C3. apply andb_true_iff in C3 as [_ C3].
    apply negb_true_iff in C3. apply zmem_false. assumption.
  - intros a Ha. rewrite Els in Ha. apply in_app_iff in Ha as [Ha|Ha].
    + specialize (C3 a Ha). unfold in_free in C3. apply andb_true_iff in C3 as [C3 _]. exact C3.
    + change (slot_of rs l' a) with (slot_of rs l a). apply H3. assumption.
  - constructor; [cbn; assumption|assumption].
  - change (l_nfree l') with (l_nfree l - k). change (nodes_sum rs l') with (nodes_sum rs l).
    change (k_sum (l_allocs l')) with (k + k_sum (l_allocs l)). lia.
  - change (l_nfree l') with (l_nfree l - k). lia.
Qed.

Lemma remove_alloc_split p k al al' : remove_alloc p k al = Some al' ->
  exists pre post, al = pre ++ (p, k) :: post /\ al' = pre ++ post.
Proof.
  revert al'. induction al as [|[q j] al IH]; cbn; intros al' H; [discriminate|].
  destruct ((q =? p) && (j =? k)) eqn:E.
  - injection H as <-. apply andb_true_iff in E as [E1 E2]. apply Z.eqb_eq in E1, E2. subst.
    exists [], al. split; reflexivity.
  - destruct (remove_alloc p k al) as [tl|]; [|discriminate]. injection H as <-.
    destruct (IH tl eq_refl) as (pre & post & -> & ->). exists ((q, j) :: pre), post. split; reflexivity.
Qed.

Lemma k_sum_app a b : k_sum (a ++ b) = k_sum a + k_sum b.
Proof. unfold k_sum. induction a as [|x a IH]; cbn [app fold_right]; [lia|]. rewrite IH. lia. Qed.

Lemma give_slots_linv rs l p k l' : LInv rs l -> give_slots l p k = Some l' ->
  LInv rs l' /\ l_ns l' = l_ns l /\ l_kind l' = l_kind l /\ l_nfree l' = l_nfree l + k /\
  exists pre post, l_allocs l = pre ++ (p, k) :: post /\ l_allocs l' = pre ++ post.
Proof.
  intros [H1 H2 H3 H4 H5 H6] H. unfold give_slots in H.
  destruct (remove_alloc p k (l_allocs l)) as [al|] eqn:R; [|discriminate]. injection H as <-.
  destruct (remove_alloc_split _ _ _ _ R) as (pre & post & E1 & E2).
  split; [|cbn; repeat split; try reflexivity; exists pre, post; split; assumption].
  set (l' := {| l_kind := l_kind l; l_ns := l_ns l; l_allocs := al; l_nfree := l_nfree l + k |}).
  set (f := fun a : Z * Z => slot_addrs (l_ns l) (fst a) (Z.to_nat (snd a))).
  assert (Eold : live_slots l = flat_map f pre ++ f (p, k) ++ flat_map f post).
  { unfold live_slots. fold f. rewrite E1, flat_map_app. cbn. reflexivity. }
  assert (Enew : live_slots l' = flat_map f pre ++ flat_map f post).
  { unfold live_slots. cbn [l_allocs l_ns l']. fold f. rewrite E2, flat_map_app. reflexivity. }
  assert (Hk : 1 <= k).
  { rewrite E1 in H4. rewrite Forall_forall in H4. apply (H4 (p, k)). apply in_app_iff. right. left. reflexivity. }
  constructor.
  - exact H1.
  - rewrite Enew. rewrite Eold in H2. eapply NoDup_app_drop_mid. exact H2.
  - intros a Ha. change (slot_of rs l' a) with (slot_of rs l a). apply H3. rewrite Eold. rewrite Enew in Ha.
    apply in_app_iff in Ha as [Ha|Ha]; apply in_app_iff; [left; assumption|right; apply in_app_iff; right; assumption].
  - cbn [l_allocs l']. rewrite E2. rewrite E1 in H4. rewrite Forall_forall in *. intros x Hx. apply H4.
    apply in_app_iff in Hx as [Hx|Hx]; apply in_app_iff; [left; assumption|right; right; assumption].
  - change (l_nfree l') with (l_nfree l + k). change (nodes_sum rs l') with (nodes_sum rs l). cbn [l_allocs l'].
    rewrite H5, E1, E2, !k_sum_app. change (k_sum ((p, k) :: post)) with (k + k_sum post). lia.
  - change (l_nfree l') with (l_nfree l + k). lia.
Qed.

Lemma with_list_inv s l l' : Inv s -> find_list (l_ns l) (a_lists s) = Some l -> LInv (a_ranges s) l' -> l_ns l' = l_ns l ->
  Inv (with_list s l').
Proof.
  intros [Ik Il Ih Ir Ip Ii] F HL E. constructor; cbn; try assumption.
  - rewrite set_list_keys. assumption.
  - rewrite Forall_forall in *. intros x Hx. apply set_list_In_nodup in Hx; [|assumption].
    destruct Hx as [->|[Hx _]]; [assumption|apply Il; assumption].
Qed.

Theorem acc_op_inv s o evs r s' : Inv s -> acc_op s o evs r = Some s' -> Inv s'.
Proof.
  intros I H. destruct o as [try_ array ns bytes|ns bytes p]; cbn [acc_op] in H.
  - destruct (find_list ns (a_lists s)) as [l0|] eqn:F0; [|discriminate].
    destruct (_ || _) in H; [discriminate|].
    destruct (acc_evs s evs) as [s1|] eqn:E; [|discriminate].
    pose proof (acc_evs_inv _ _ _ I E) as I1.
    destruct r as [p| | | |]; try discriminate.
    + destruct (find_list ns (a_lists s1)) as [l|] eqn:F1; [|discriminate].
      destruct (take_slots (a_ranges s1) l p (slots_needed ns bytes)) as [l'|] eqn:T; [|discriminate].
      injection H as <-. destruct (find_list_In _ _ _ F1) as [Lin Lns].
      assert (HL : LInv (a_ranges s1) l) by (destruct I1 as [_ Il _ _ _ _]; rewrite Forall_forall in Il; apply Il; assumption).
      destruct (take_slots_linv _ _ _ _ _ HL T) as (HL' & En & _).
      eapply with_list_inv; [assumption| |exact HL'|exact En]. rewrite Lns. exact F1.
    + destruct (try_ && _) in H; [|discriminate]. injection H as <-. assumption.
    + destruct try_; [discriminate|]. injection H as <-. assumption.
  - destruct evs; [|destruct r; discriminate].
    destruct r; try discriminate.
    + destruct (find_list ns (a_lists s)) as [l|] eqn:F; [|discriminate].
      destruct (give_slots l p (slots_needed ns bytes)) as [l'|] eqn:G; [|discriminate].
      injection H as <-. destruct (find_list_In _ _ _ F) as [Lin Lns].
      assert (HL : LInv (a_ranges s) l) by (destruct I as [_ Il _ _ _ _]; rewrite Forall_forall in Il; apply Il; assumption).
      destruct (give_slots_linv _ _ _ _ _ HL G) as (HL' & En & _).
      eapply with_list_inv; [assumption| |exact HL'|exact En]. rewrite Lns. exact F.
    + injection H as <-. assumption.
Qed.

(* ---------- consequences: C01 (disjoint, inside owned memory) ---------- *)
Lemma slot_of_witness rs l a : slot_of rs l a = true ->
  exists x, In x rs /\ fst x = l_ns l /\ is_slot (l_kind l) (l_ns l) (snd x) a = true.
Proof.
  unfold slot_of. intros H. apply existsb_exists in H as (x & Hx & H). apply andb_true_iff in H as [H1 H2].
  apply Z.eqb_eq in H1. exists x. repeat split; assumption.
Qed.

Lemma same_key_same_list ls l1 l2 : NoDup (map l_ns ls) -> In l1 ls -> In l2 ls -> l_ns l1 = l_ns l2 -> l1 = l2.
Proof.
  intros Hnd H1 H2 E. pose proof (find_list_complete (l_ns l1) ls l1 Hnd H1 eq_refl) as F1.
  pose proof (find_list_complete (l_ns l1) ls l2 Hnd H2 (eq_sym E)) as F2. congruence.
Qed.

Theorem live_slots_apart s l1 l2 a b : Inv s -> In l1 (a_lists s) -> In l2 (a_lists s) ->
  In a (live_slots l1) -> In b (live_slots l2) -> (l_ns l1 <> l_ns l2 \/ a <> b) ->
  a + l_ns l1 <= b \/ b + l_ns l2 <= a.
Proof.
  intros [Ik Il Ih Ir Ip Ii] H1 H2 Ha Hb Hne.
  rewrite Forall_forall in Il, Ip.
  destruct (Il l1 H1) as [N1 _ S1 _ _ _]. destruct (Il l2 H2) as [N2 _ S2 _ _ _].
  destruct (slot_of_witness _ _ _ (S1 a Ha)) as (x & Hx & Kx & Sx).
  destruct (slot_of_witness _ _ _ (S2 b Hb)) as (y & Hy & Ky & Sy).
  pose proof (Ip x Hx) as Px. pose proof (Ip y Hy) as Py.
  assert (Qx : 0 <= snd (snd x)) by (apply Z.lt_le_incl; exact Px).
  assert (Qy : 0 <= snd (snd y)) by (apply Z.lt_le_incl; exact Py).
  pose proof (slot_inside (l_kind l1) (l_ns l1) (snd x) a N1 Qx Sx) as [A1 A2].
  pose proof (slot_inside (l_kind l2) (l_ns l2) (snd y) b N2 Qy Sy) as [B1 B2].
  assert (Dxy : {x = y} + {x <> y}).
  { destruct x as [kx [mx sx]], y as [ky [my sy]].
    destruct (Z.eq_dec kx ky), (Z.eq_dec mx my), (Z.eq_dec sx sy); subst; (left; reflexivity) || (right; congruence). }
  destruct Dxy as [->|Dne].
  - assert (l1 = l2) by (apply (same_key_same_list (a_lists s)); try assumption; congruence). subst l2.
    destruct Hne as [Hne|Hne]; [congruence|].
    apply (slot_apart (l_kind l1) (l_ns l1) (snd y)); try assumption.
  - pose proof (pairwise_In rng_disj snd (a_ranges s) x y rng_disj_sym Ir Hx Hy Dne) as D.
    unfold rng_disj in D. lia.
Qed.

Theorem live_slot_inside_held s l a : Inv s -> In l (a_lists s) -> In a (live_slots l) ->
  exists b, In b (a_held s) /\ fst b + hdrZ <= a /\ a + l_ns l <= fst b + snd b.
Proof.
  intros [Ik Il Ih Ir Ip Ii] H1 Ha. rewrite Forall_forall in Il, Ip, Ii.
  destruct (Il l H1) as [N1 _ S1 _ _ _].
  destruct (slot_of_witness _ _ _ (S1 a Ha)) as (x & Hx & Kx & Sx).
  pose proof (Ip x Hx) as Px. assert (Qx : 0 <= snd (snd x)) by (apply Z.lt_le_incl; exact Px).
  pose proof (slot_inside (l_kind l) (l_ns l) (snd x) a N1 Qx Sx) as [A1 A2].
  destruct (Ii x Hx) as (b & Hb & [I1 I2]). exists b. unfold usable in *; cbn in *. split; [assumption|]. lia.
Qed.

(* ---------- C02: what a successful allocation hands out ---------- *)
Lemma slots_needed_covers ns bytes : 0 < ns -> 0 <= bytes -> 1 <= slots_needed ns bytes /\ bytes <= slots_needed ns bytes * ns.
Proof.
  intros Hns Hb. unfold slots_needed. destruct (Z.leb_spec bytes ns); [lia|].
  pose proof (Z.div_mod (bytes + ns - 1) ns ltac:(lia)). pose proof (Z.mod_pos_bound (bytes + ns - 1) ns ltac:(lia)).
  set (q := (bytes + ns - 1) / ns) in *. split; nia.
Qed.

Theorem alloc_result s try_ array ns bytes evs p s' : Inv s -> 0 <= bytes ->
  acc_op s (OAlloc try_ array ns bytes) evs (ObsOk p) = Some s' ->
  exists l', find_list ns (a_lists s') = Some l' /\
    let k := slots_needed ns bytes in
    1 <= k /\ bytes <= k * ns /\
    (forall i, (i < Z.to_nat k)%nat -> In (p + Z.of_nat i * ns) (live_slots l')) /\
    In (p, k) (l_allocs l').
Proof.
  intros I Hb H. cbn [acc_op] in H.
  destruct (find_list ns (a_lists s)) as [l0|] eqn:F0; [|discriminate].
  destruct (_ || _) in H; [discriminate|].
  destruct (acc_evs s evs) as [s1|] eqn:E; [|discriminate].
  pose proof (acc_evs_inv _ _ _ I E) as I1.
  destruct (find_list ns (a_lists s1)) as [l|] eqn:F1; [|discriminate].
  destruct (take_slots (a_ranges s1) l p (slots_needed ns bytes)) as [l'|] eqn:T; [|discriminate].
  injection H as <-. destruct (find_list_In _ _ _ F1) as [Lin Lns].
  assert (HL : LInv (a_ranges s1) l) by (destruct I1 as [_ Il _ _ _ _]; rewrite Forall_forall in Il; apply Il; assumption).
  destruct (take_slots_linv _ _ _ _ _ HL T) as (HL' & En & Ek & Ea & Ef).
  exists l'. split.
  - cbn. apply find_set_same; [congruence|]. exists l. assumption.
  - cbv zeta. pose proof (ns_ok_pos _ _ (li_ns _ _ HL)) as Hpos. rewrite Lns in Hpos.
    destruct (slots_needed_covers ns bytes Hpos Hb) as [K1 K2]. split; [assumption|]. split; [assumption|]. split.
    + intros i Hi. unfold live_slots. rewrite Ea. cbn [flat_map fst snd]. apply in_app_iff. left.
      rewrite En, Lns. apply slot_addrs_In. exists i. split; [assumption|reflexivity].
    + rewrite Ea. left. reflexivity.
Qed.

(* ---------- C03: a refused request changes no allocation; try_ never reaches upstream; throwing never returns null ---------- *)
Lemma acc_ev_allocs s e s' ns : acc_ev s e = Some s' ->
  match find_list ns (a_lists s), find_list ns (a_lists s') with
  | Some l, Some l' => l_allocs l' = l_allocs l /\ l_kind l' = l_kind l /\ l_ns l' = l_ns l /\ l_nfree l <= l_nfree l'
  | None, None => True
  | _, _ => False
  end.
Proof.
  intros H. destruct e as [addr size| |k mem size|mem size]; cbn in H.
  - destruct (_ && _) in H; [|discriminate]. injection H as <-. cbn. destruct (find_list ns (a_lists s)); [repeat split; lia|trivial].
  - injection H as <-. destruct (find_list ns (a_lists s)); [repeat split; lia|trivial].
  - destruct (find_list k (a_lists s)) as [l|] eqn:F; [|discriminate].
    destruct (_ && _) eqn:C in H; [|discriminate]. injection H as <-. cbn.
    apply andb_true_iff in C as [C _]. apply andb_true_iff in C as [C1 _]. apply Z.ltb_lt in C1.
    destruct (find_list_In _ _ _ F) as [Fin Fns].
    destruct (Z.eq_dec k ns) as [->|Hne].
    + rewrite F. rewrite find_set_same; [|reflexivity|exists l; assumption]. cbn. repeat split; try reflexivity; try lia; try congruence.
    + rewrite find_set_other by (cbn; assumption). destruct (find_list ns (a_lists s)); [repeat split; lia|trivial].
  - destruct (range_ok s (mem, size)); [|discriminate]. injection H as <-. cbn. destruct (find_list ns (a_lists s)); [repeat split; lia|trivial].
Qed.

Lemma acc_evs_allocs : forall es s s' ns, acc_evs s es = Some s' ->
  match find_list ns (a_lists s), find_list ns (a_lists s') with
  | Some l, Some l' => l_allocs l' = l_allocs l /\ l_kind l' = l_kind l /\ l_ns l' = l_ns l /\ l_nfree l <= l_nfree l'
  | None, None => True
  | _, _ => False
  end.
Proof.
  induction es as [|e es IH]; cbn; intros s s' ns H.
  - injection H as <-. destruct (find_list ns (a_lists s)); [repeat split; lia|trivial].
  - destruct (acc_ev s e) as [s1|] eqn:E; [|discriminate].
    pose proof (acc_ev_allocs _ _ _ ns E) as H1. pose proof (IH _ _ ns H) as H2.
    destruct (find_list ns (a_lists s)), (find_list ns (a_lists s1)), (find_list ns (a_lists s')); try tauto.
    destruct H1 as (? & ? & ? & ?), H2 as (? & ? & ? & ?). repeat split; try congruence; lia.
Qed.

Theorem refused_request_keeps_allocations s try_ array ns bytes evs r s' key :
  acc_op s (OAlloc try_ array ns bytes) evs r = Some s' -> r = ObsNull \/ r = ObsThrow ->
  match find_list key (a_lists s), find_list key (a_lists s') with
  | Some l, Some l' => l_allocs l' = l_allocs l /\ l_nfree l <= l_nfree l'
  | None, None => True
  | _, _ => False
  end.
Proof.
  intros H Hr. cbn [acc_op] in H.
  destruct (find_list ns (a_lists s)) as [l0|]; [|discriminate].
  destruct (_ || _) in H; [discriminate|].
  destruct (acc_evs s evs) as [s1|] eqn:E; [|discriminate].
  pose proof (acc_evs_allocs _ _ _ key E) as H1.
  destruct Hr as [-> | ->]; (first [destruct (try_ && _) in H | destruct try_]; try discriminate; injection H as <-);
    destruct (find_list key (a_lists s)), (find_list key (a_lists s1)); tauto.
Qed.

Theorem outcome_discipline s try_ array ns bytes evs r s' :
  acc_op s (OAlloc try_ array ns bytes) evs r = Some s' ->
  (try_ = true -> r <> ObsThrow /\ existsb is_up evs = false) /\
  (try_ = false -> r <> ObsNull).
Proof.
  intros H. cbn [acc_op] in H.
  destruct (find_list ns (a_lists s)) as [l0|]; [|discriminate].
  destruct (_ || _) eqn:G in H; [discriminate|].
  apply orb_false_iff in G as [_ G2].
  destruct (acc_evs s evs) as [s1|]; [|discriminate].
  split; intros ->.
  - cbn in G2. split; [|assumption]. destruct r; try discriminate; congruence.
  - destruct r; try discriminate; congruence.
Qed.

(* ---------- C04: growth only when the list is empty; no capacity is ever lost ---------- *)
Theorem node_request_grows_only_when_empty s try_ ns bytes evs r s' l0 :
  acc_op s (OAlloc try_ false ns bytes) evs r = Some s' -> find_list ns (a_lists s) = Some l0 ->
  0 < l_nfree l0 -> existsb is_grow evs = false.
Proof.
  intros H F Hn. cbn [acc_op] in H. rewrite F in H.
  destruct (_ || _) eqn:G in H; [discriminate|].
  apply orb_false_iff in G as [G1 _]. cbn in G1.
  destruct (Z.ltb_spec 0 (l_nfree l0)); [|lia]. cbn in G1. assumption.
Qed.

Lemma k_sum_nonneg al : Forall (fun a : Z * Z => 1 <= snd a) al -> 0 <= k_sum al.
Proof. induction 1 as [|x l Hx Hl IH]; [cbn; lia|]. change (k_sum (x :: l)) with (snd x + k_sum l). lia. Qed.

Theorem capacity_is_exact s l : Inv s -> In l (a_lists s) ->
  l_nfree l = nodes_sum (a_ranges s) l - k_sum (l_allocs l) /\ 0 <= l_nfree l /\
  (l_allocs l = [] -> l_nfree l = nodes_sum (a_ranges s) l).
Proof.
  intros [_ Il _ _ _ _] Hin. rewrite Forall_forall in Il. destruct (Il l Hin) as [_ _ _ _ Hc Hn].
  split; [assumption|]. split; [assumption|]. intros E. rewrite Hc, E. cbn. lia.
Qed.

(* one operation: the allocation list of the addressed list changes as the operation says, nfree moves by exactly the slots *)
Theorem step_moves_exactly s o evs r s' : Inv s -> acc_op s o evs r = Some s' ->
  match o with
  | ODealloc ns bytes p =>
      r = ObsTrue ->
      exists l l', find_list ns (a_lists s) = Some l /\ find_list ns (a_lists s') = Some l' /\
                   l_nfree l' = l_nfree l + slots_needed ns bytes
  | OAlloc _ _ ns bytes =>
      forall p, r = ObsOk p -> evs = [] ->
      exists l l', find_list ns (a_lists s) = Some l /\ find_list ns (a_lists s') = Some l' /\
                   l_nfree l' = l_nfree l - slots_needed ns bytes
  end.
Proof.
  intros I H. destruct o as [try_ array ns bytes|ns bytes p].
  - intros p -> ->. cbn [acc_op acc_evs] in H.
    destruct (find_list ns (a_lists s)) as [l0|] eqn:F0; [|discriminate].
    destruct (_ || _) in H; [discriminate|].
    destruct (take_slots (a_ranges s) l0 p (slots_needed ns bytes)) as [l'|] eqn:T; [|discriminate].
    injection H as <-. destruct (find_list_In _ _ _ F0) as [Lin Lns].
    assert (HL : LInv (a_ranges s) l0) by (destruct I as [_ Il _ _ _ _]; rewrite Forall_forall in Il; apply Il; assumption).
    destruct (take_slots_linv _ _ _ _ _ HL T) as (HL' & En & Ek & Ea & Ef).
    exists l0, l'. split; [reflexivity|]. split; [|assumption]. cbn. apply find_set_same; [congruence|exists l0; assumption].
  - intros ->. cbn [acc_op] in H. destruct evs; [|discriminate].
    destruct (find_list ns (a_lists s)) as [l|] eqn:F; [|discriminate].
    destruct (give_slots l p (slots_needed ns bytes)) as [l'|] eqn:G; [|discriminate].
    injection H as <-. destruct (find_list_In _ _ _ F) as [Lin Lns].
    assert (HL : LInv (a_ranges s) l) by (destruct I as [_ Il _ _ _ _]; rewrite Forall_forall in Il; apply Il; assumption).
    destruct (give_slots_linv _ _ _ _ _ HL G) as (HL' & En & Ek & Ef & _).
    exists l, l'. split; [reflexivity|]. split; [|assumption]. cbn. apply find_set_same; [congruence|exists l; assumption].
Qed.

(* ---------- histories ---------- *)
Definition step := (op * list ev * obs)%type.
Fixpoint run (s : ast) (h : list step) : option ast :=
  match h with
  | [] => Some s
  | (o, evs, r) :: tl => match acc_op s o evs r with None => None | Some s1 => run s1 tl end
  end.

Theorem run_inv : forall h s s', Inv s -> run s h = Some s' -> Inv s'.
Proof.
  induction h as [|[[o evs] r] h IH]; cbn; intros s s' I H; [injection H as <-; assumption|].
  destruct (acc_op s o evs r) as [s1|] eqn:E; [|discriminate]. eapply IH; [eapply acc_op_inv; eassumption|eassumption].
Qed.

Lemma nodes_sum_ext rs l l' : l_kind l' = l_kind l -> l_ns l' = l_ns l -> nodes_sum rs l' = nodes_sum rs l.
Proof. intros E1 E2. unfold nodes_sum. rewrite E1, E2. reflexivity. Qed.

(* the total number of nodes ever linked into a list never shrinks *)
Definition grows (s s' : ast) : Prop := forall key l,
  find_list key (a_lists s) = Some l ->
  exists l', find_list key (a_lists s') = Some l' /\ l_kind l' = l_kind l /\ l_ns l' = l_ns l /\
             nodes_sum (a_ranges s) l <= nodes_sum (a_ranges s') l'.

Lemma grows_refl s : grows s s.
Proof. intros key l F. exists l. repeat split; try reflexivity; try assumption; try lia. Qed.
Lemma grows_trans a b c : grows a b -> grows b c -> grows a c.
Proof.
  intros H1 H2 key l F. destruct (H1 key l F) as (l1 & F1 & K1 & N1 & S1). destruct (H2 key l1 F1) as (l2 & F2 & K2 & N2 & S2).
  exists l2. repeat split; try congruence; try assumption; try lia.
Qed.

Lemma acc_ev_grows s e s' : Inv s -> acc_ev s e = Some s' -> grows s s'.
Proof.
  intros I H key l0 F0. destruct e as [addr size| |k mem size|mem size]; cbn in H.
  - destruct (_ && _) in H; [|discriminate]. injection H as <-. cbn. exists l0. repeat split; try assumption; try reflexivity; try lia.
  - injection H as <-. exists l0. repeat split; try assumption; try reflexivity; try lia.
  - destruct (find_list k (a_lists s)) as [l|] eqn:F; [|discriminate].
    destruct (_ && _) eqn:C in H; [|discriminate]. injection H as <-. cbn.
    apply andb_true_iff in C as [C _]. apply andb_true_iff in C as [C1 _]. apply Z.ltb_lt in C1.
    destruct (find_list_In _ _ _ F) as [Fin Fns]. destruct (find_list_In _ _ _ F0) as [F0in F0ns].
    destruct (Z.eq_dec k key) as [->|Hne].
    + assert (l = l0) by congruence. subst l0.
      eexists. split; [apply find_set_same; [reflexivity|exists l; assumption]|]. cbn. repeat split; try congruence.
      rewrite Z.eqb_refl. unfold nodes_sum. rewrite Fns. lia.
    + exists l0. split; [rewrite find_set_other by (cbn; assumption); assumption|]. repeat split; try reflexivity.
      destruct (Z.eqb_spec k (l_ns l0)); [congruence|]. unfold nodes_sum. lia.
  - destruct (range_ok s (mem, size)); [|discriminate]. injection H as <-. cbn. exists l0. repeat split; try assumption; try reflexivity.
    destruct (find_list_In _ _ _ F0) as [F0in F0ns].
    destruct I as [_ Il _ _ _ _]. rewrite Forall_forall in Il. pose proof (ns_ok_pos _ _ (li_ns _ _ (Il l0 F0in))) as Hp.
    unfold nodes_sum. destruct (l_ns l0) eqn:En; [lia| |]; lia.
Qed.

Lemma acc_evs_grows : forall es s s', Inv s -> acc_evs s es = Some s' -> grows s s'.
Proof.
  induction es as [|e es IH]; cbn; intros s s' I H; [injection H as <-; apply grows_refl|].
  destruct (acc_ev s e) as [s1|] eqn:E; [|discriminate].
  eapply grows_trans; [eapply acc_ev_grows; eassumption|]. eapply IH; [eapply acc_ev_inv; eassumption|assumption].
Qed.

Lemma with_list_grows s l l' : find_list (l_ns l) (a_lists s) = Some l -> l_ns l' = l_ns l -> l_kind l' = l_kind l -> grows s (with_list s l').
Proof.
  intros F En Ek key l0 F0. cbn. destruct (Z.eq_dec (l_ns l') key) as [E|E].
  - assert (l0 = l) by (rewrite <- E, En in F0; congruence). subst l0.
    exists l'. split; [apply find_set_same; [assumption|exists l; assumption]|]. repeat split; try assumption.
    unfold nodes_sum. rewrite En, Ek. lia.
  - exists l0. split; [rewrite find_set_other by assumption; assumption|]. repeat split; try reflexivity; try lia.
Qed.

Lemma acc_op_grows s o evs r s' : Inv s -> acc_op s o evs r = Some s' -> grows s s'.
Proof.
  intros I H. destruct o as [try_ array ns bytes|ns bytes p]; cbn [acc_op] in H.
  - destruct (find_list ns (a_lists s)) as [l0|] eqn:F0; [|discriminate].
    destruct (_ || _) in H; [discriminate|].
    destruct (acc_evs s evs) as [s1|] eqn:E; [|discriminate].
    pose proof (acc_evs_inv _ _ _ I E) as I1. pose proof (acc_evs_grows _ _ _ I E) as G1.
    destruct r as [p| | | |]; try discriminate.
    + destruct (find_list ns (a_lists s1)) as [l|] eqn:F1; [|discriminate].
      destruct (take_slots (a_ranges s1) l p (slots_needed ns bytes)) as [l'|] eqn:T; [|discriminate].
      injection H as <-. destruct (find_list_In _ _ _ F1) as [Lin Lns].
      assert (HL : LInv (a_ranges s1) l) by (destruct I1 as [_ Il _ _ _ _]; rewrite Forall_forall in Il; apply Il; assumption).
      destruct (take_slots_linv _ _ _ _ _ HL T) as (_ & En & Ek & _).
      eapply grows_trans; [exact G1|]. apply (with_list_grows s1 l l'); [rewrite Lns; assumption|assumption|assumption].
    + destruct (try_ && _) in H; [|discriminate]. injection H as <-. assumption.
    + destruct try_; [discriminate|]. injection H as <-. assumption.
  - destruct evs; [|destruct r; discriminate].
    destruct r; try discriminate.
    + destruct (find_list ns (a_lists s)) as [l|] eqn:F; [|discriminate].
      destruct (give_slots l p (slots_needed ns bytes)) as [l'|] eqn:G; [|discriminate].
      injection H as <-. destruct (find_list_In _ _ _ F) as [Lin Lns].
      assert (HL : LInv (a_ranges s) l) by (destruct I as [_ Il _ _ _ _]; rewrite Forall_forall in Il; apply Il; assumption).
      destruct (give_slots_linv _ _ _ _ _ HL G) as (_ & En & Ek & _).
      apply (with_list_grows s l l'); [rewrite Lns; assumption|assumption|assumption].
    + injection H as <-. apply grows_refl.
Qed.

Lemma run_grows : forall h s s', Inv s -> run s h = Some s' -> grows s s'.
Proof.
  induction h as [|[[o evs] r] h IH]; cbn; intros s s' I H; [injection H as <-; apply grows_refl|].
  destruct (acc_op s o evs r) as [s1|] eqn:E; [|discriminate].
  eapply grows_trans; [eapply acc_op_grows; eassumption|]. eapply IH; [eapply acc_op_inv; eassumption|assumption].
Qed.

(* C04: after any history, once everything of a list has been released its capacity is at least what it was *)
Theorem capacity_never_lost h s s' key l l' : Inv s -> run s h = Some s' ->
  find_list key (a_lists s) = Some l -> find_list key (a_lists s') = Some l' ->
  l_allocs l' = [] -> l_nfree l <= l_nfree l'.
Proof.
  intros I R F F' E.
  pose proof (run_inv _ _ _ I R) as I'. pose proof (run_grows _ _ _ I R key l F) as (l2 & F2 & _ & _ & G).
  assert (l2 = l') by congruence. subst l2.
  destruct (find_list_In _ _ _ F) as [Lin _]. destruct (find_list_In _ _ _ F') as [Lin' _].
  destruct (capacity_is_exact s l I Lin) as (C1 & _ & _). destruct (capacity_is_exact s' l' I' Lin') as (_ & _ & C3).
  rewrite (C3 E), C1.
  destruct I as [_ Il _ _ _ _]. rewrite Forall_forall in Il. pose proof (k_sum_nonneg _ (li_kpos _ _ (Il l Lin))). lia.
Qed.

(* a composable single-node request is refused only when its list holds no node: what capacity_left promises can be had *)
Theorem single_node_refusal_means_empty s ns bytes evs s' :
  acc_op s (OAlloc true false ns bytes) evs ObsNull = Some s' ->
  exists l0, find_list ns (a_lists s) = Some l0 /\ l_nfree l0 <= 0.
Proof.
  unfold acc_op. destruct (find_list ns (a_lists s)) as [l0|]; [|discriminate]. intros H. exists l0. split; [reflexivity|].
  destruct (_ || _) in H; [discriminate|]. destruct (acc_evs s evs); [|discriminate].
  cbn [negb andb] in H. destruct (Z.ltb_spec 0 (l_nfree l0)); [discriminate|lia].
Qed.
