From Coq Require Import List.
Import ListNotations.

(* ---------- generic list facts ---------- *)
Fixpoint pairwise {A} (R : A -> A -> Prop) (l : list A) : Prop :=
  match l with [] => True | a :: tl => Forall (R a) tl /\ pairwise R tl end.

Lemma pairwise_In {A B} (R : B -> B -> Prop) (f : A -> B) (l : list A) x y :
  (forall a b, R a b -> R b a) -> pairwise R (map f l) -> In x l -> In y l -> x <> y -> R (f x) (f y).
Proof.
  intros Hsym. induction l as [|a l IH]; cbn; [intros _ []|].
  intros [Ha Hl] [->|Hx] [->|Hy] Hne.
  - congruence.
  - rewrite Forall_forall in Ha. apply Ha. apply in_map. assumption.
  - apply Hsym. rewrite Forall_forall in Ha. apply Ha. apply in_map. assumption.
  - apply IH; assumption.
Qed.

