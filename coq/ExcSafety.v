(* Control-flow models of the object-creating helpers (smart_ptr.hpp, joint_allocator.hpp) as event lists:
   which constructions, destructions, allocations and releases happen when the k-th element construction throws. *)
From Coq Require Import List Bool Arith Lia.
Import ListNotations.

Inductive xev := XAlloc | XFree | XCons (i : nat) | XDtor (i : nat) | XThrow.

(* construct elements i, i+1, .. while i < n; element `fail` throws instead of being built *)
Fixpoint build (fuel i n : nat) (fail : option nat) : list xev * bool :=
  match fuel with
  | O => ([], true)
  | S f => if Nat.ltb i n then
             (if match fail with Some k => Nat.eqb k i | None => false end then ([], false)
              else let '(ev, ok) := build f (S i) n fail in (XCons i :: ev, ok))
           else ([], true)
  end.

Definition dtors (k : nat) : list xev := map XDtor (seq 0 k).

(* allocate_unique<T[]> / joint_array constructors inside joint_ptr::create: allocate, build, on failure destroy the
   built prefix, release the memory, rethrow; on success the owner later destroys all and releases *)
Definition create_array (n : nat) (fail : option nat) : list xev :=
  let '(ev, ok) := build n 0 n fail in
  if ok then [XAlloc] ++ ev ++ dtors n ++ [XFree]
  else [XAlloc] ++ ev ++ dtors (length ev) ++ [XFree; XThrow].

Definition count (p : xev -> bool) (l : list xev) : nat := length (filter p l).
Definition is_cons (i : nat) (e : xev) := match e with XCons j => Nat.eqb i j | _ => false end.
Definition is_dtor (i : nat) (e : xev) := match e with XDtor j => Nat.eqb i j | _ => false end.
Definition is_alloc (e : xev) := match e with XAlloc => true | _ => false end.
Definition is_free (e : xev) := match e with XFree => true | _ => false end.
Definition is_throw (e : xev) := match e with XThrow => true | _ => false end.
