(* memory_pool<small_node_pool> over an uncached arena: Exec model of its operations (it has no arrays), built from the Exec
   models of the arena (Arena.v) and of the small free list (SmallList.v). *)
From Coq Require Import ZArith NArith List Bool Lia.
From FM Require Import GenArith FixedStack SmallCarve PoolSpec Stack Arena InvalidRelease SmallList.
Import ListNotations.
Local Open Scope Z_scope.

Record spool := { sp_ar : arena; sp_g : smg }.
Definition sp_ns (s : spool) : Z := sm_ns (g_l (sp_g s)).

(* allocate_block(): a block from the arena goes to the list *)
Definition sp_grow (s : spool) (answer : option Z) : spool * bool * list ev :=
  match astep (sp_ar s) ABlock answer with
  | (a', ABlk m sz, _) =>
      ({| sp_ar := a'; sp_g := {| g_l := sm_insert (g_l (sp_g s)) m sz; g_live := g_live (sp_g s) |} |}, true,
       [EUp (m - hdrZ) (sz + hdrZ); EIns (sp_ns s) m sz])
  | (a', AThrowUpstream, _) => ({| sp_ar := a'; sp_g := sp_g s |}, false, [EUpFail])
  | (a', _, _) => ({| sp_ar := a'; sp_g := sp_g s |}, false, [])
  end.
Definition sp_take (s : spool) : option (spool * Z) :=
  match sm_alloc (g_l (sp_g s)) with
  | Some (x, l') => Some ({| sp_ar := sp_ar s; sp_g := {| g_l := l'; g_live := x :: g_live (sp_g s) |} |}, x)
  | None => None
  end.
(* allocate_node(): if (free_list_.empty()) allocate_block(); return free_list_.allocate(); *)
Definition sp_alloc_node (s : spool) (answer : option Z) : spool * obs * list ev :=
  if 0 <? sm_capacity (g_l (sp_g s))
  then match sp_take s with Some (s', x) => (s', ObsOk x, []) | None => (s, ObsThrow, []) end
  else match sp_grow s answer with
       | (s1, true, evs) => match sp_take s1 with Some (s', x) => (s', ObsOk x, evs) | None => (s1, ObsThrow, evs) end
       | (s1, false, evs) => (s1, ObsThrow, evs)
       end.
Definition sp_try_alloc_node (s : spool) : spool * obs * list ev :=
  if 0 <? sm_capacity (g_l (sp_g s))
  then match sp_take s with Some (s', x) => (s', ObsOk x, []) | None => (s, ObsNull, []) end
  else (s, ObsNull, []).
Definition sp_dealloc_node (s : spool) (p : Z) : option (spool * obs * list ev) :=
  if existsb (Z.eqb p) (g_live (sp_g s))
  then match sm_dealloc (g_l (sp_g s)) p with
       | Some l' => Some ({| sp_ar := sp_ar s; sp_g := {| g_l := l'; g_live := remove_z p (g_live (sp_g s)) |} |}, ObsTrue, [])
       | None => None
       end
  else None.
Definition sp_init (k : akind) (ns block_size : Z) : spool :=
  {| sp_ar := ar_init k false block_size; sp_g := {| g_l := sm_empty ns; g_live := [] |} |}.
Definition sp_construct (k : akind) (ns block_size : Z) (answer : option Z) : spool * bool * list ev :=
  sp_grow (sp_init k ns block_size) answer.

Inductive spool_op := SPAllocNode (answer : option Z) | SPTryAllocNode | SPDeallocNode (p : Z).
Definition sp_spec_op (ns : Z) (o : spool_op) : op :=
  match o with SPAllocNode _ => OAlloc false false ns ns | SPTryAllocNode => OAlloc true false ns ns | SPDeallocNode p => ODealloc ns ns p end.
Definition sp_step (s : spool) (o : spool_op) : option (spool * obs * list ev) :=
  match o with SPAllocNode a => Some (sp_alloc_node s a) | SPTryAllocNode => Some (sp_try_alloc_node s) | SPDeallocNode p => sp_dealloc_node s p end.
Fixpoint sp_run (s : spool) (os : list spool_op) : option (spool * list (op * list ev * obs)) :=
  match os with
  | [] => Some (s, [])
  | o :: tl => match sp_step s o with
               | Some (s', r, evs) => match sp_run s' tl with Some (s'', tr) => Some (s'', (sp_spec_op (sp_ns s) o, evs, r) :: tr) | None => None end
               | None => None
               end
  end.
