(* memory_arena block bookkeeping: LIFO discipline towards the block source, cache first, everything returned. *)
From Coq Require Import ZArith List Bool Lia.
From FM Require Import FixedStack Stack StackProofs Arena.
Import ListNotations.
Local Open Scope Z_scope.

Definition ar_order (a : arena) : list blk := rev (ar_used a) ++ ar_cache a.

(* an uncached arena never caches *)
Definition ar_wf (a : arena) : Prop := ar_cached a = false -> ar_cache a = [].

Lemma ar_init_wf k c bs : ar_wf (ar_init k c bs).
Proof. intros _. reflexivity. Qed.

Lemma astep_wf a o ans : ar_wf a -> ar_wf (fst (fst (astep a o ans))).
Proof.
  intros W. destruct o; unfold astep.
  - destruct (ar_cache a) as [|b c] eqn:Ec.
    + destruct (ar_kind a), (ar_next a =? 0), ans; cbn; intros H; try reflexivity; exact Ec.
    + intros H. cbn in H. pose proof (W H) as E. rewrite Ec in E. discriminate.
  - destruct (ar_used a) as [|b u]; [exact W|]. destruct (ar_cached a) eqn:Ecd; intros H; cbn in H |- *; [congruence|apply W; assumption].
  - intros _. reflexivity.
Qed.

(* C05: the upstream calls of every operation are a LIFO step on the blocks held (oldest first):
   an acquisition is appended, a release gives back the newest block with its address and size *)
Theorem astep_lifo a o ans : ar_wf a ->
  apply_calls (ar_order a) (snd (astep a o ans)) = Some (ar_order (fst (fst (astep a o ans)))).
Proof.
  intros W. destruct o; unfold astep, ar_order.
  - destruct (ar_cache a) as [|b c] eqn:Ec.
    + destruct (ar_kind a), (ar_next a =? 0), ans; cbn; rewrite ?Ec, ?app_nil_r; reflexivity.
    + cbn. rewrite <- app_assoc. reflexivity.
  - destruct (ar_used a) as [|b u] eqn:Eu; [cbn; rewrite Eu; reflexivity|].
    destruct (ar_cached a) eqn:Ecd.
    + cbn. rewrite <- app_assoc. reflexivity.
    + rewrite (W Ecd). cbn -[rev]. cbn. rewrite !app_nil_r, rev_app_distr. cbn.
      destruct b as [x y]. cbn. rewrite !Z.eqb_refl. cbn. rewrite rev_involutive. reflexivity.
  - cbn. rewrite app_nil_r. apply apply_free_all.
Qed.

(* destruction returns every block still held, newest first (= reverse order of acquisition), each exactly once *)
Theorem ar_destroy_returns_all a : apply_calls (ar_order a) (ar_destroy_calls a) = Some [].
Proof.
  unfold ar_destroy_calls, ar_order.
  replace (map (fun b => UFree (fst b) (snd b)) (rev (ar_cache a)) ++ map (fun b => UFree (fst b) (snd b)) (ar_used a))
    with (map (fun b => UFree (fst b) (snd b)) (rev (rev (ar_used a) ++ ar_cache a))).
  - apply (apply_free_all (rev (ar_used a) ++ ar_cache a) []).
  - rewrite rev_app_distr, rev_involutive, map_app. reflexivity.
Qed.

(* cached blocks are reused before any new block is requested *)
Theorem ar_cache_first a ans : ar_cache a <> [] -> snd (astep a ABlock ans) = [].
Proof. intros H. unfold astep. destruct (ar_cache a); [contradiction|reflexivity]. Qed.

(* a failing block source leaves the arena as it was *)
Theorem ar_failure_unchanged a ans : 
  snd (fst (astep a ABlock ans)) = AThrowUpstream \/ snd (fst (astep a ABlock ans)) = AThrowFixed ->
  fst (fst (astep a ABlock ans)) = a.
Proof.
  unfold astep. destruct (ar_cache a) as [|b c]; [|cbn; intros [H|H]; discriminate].
  destruct (ar_kind a), (ar_next a =? 0), ans; cbn; intros [H|H]; try discriminate; reflexivity.
Qed.

(* whole histories: the blocks held are always exactly those acquired and not yet returned, in acquisition order *)
Fixpoint ar_run (a : arena) (h : list (aop * option Z)) : arena * list ucall :=
  match h with
  | [] => (a, [])
  | (o, ans) :: tl => let r := astep a o ans in let '(a', calls) := ar_run (fst (fst r)) tl in (a', snd r ++ calls)
  end.

Lemma apply_calls_app : forall c1 held c2 mid, apply_calls held c1 = Some mid -> apply_calls held (c1 ++ c2) = apply_calls mid c2.
Proof.
  induction c1 as [|c c1 IH]; intros held c2 mid H; cbn in *; [injection H as <-; reflexivity|].
  destruct c as [sz [x|]|x sz]; cbn in *.
  - apply IH. assumption.
  - apply IH. assumption.
  - destruct (rev held) as [|[a0 s0] r]; [discriminate|]. destruct ((a0 =? x) && (s0 =? sz)); [|discriminate]. apply IH. assumption.
Qed.

Theorem ar_history_balanced : forall h a, ar_wf a ->
  let '(a', calls) := ar_run a h in
  apply_calls (ar_order a) (calls ++ ar_destroy_calls a') = Some [].
Proof.
  induction h as [|[o ans] h IH]; intros a W; cbn [ar_run].
  - cbn [app]. apply ar_destroy_returns_all.
  - cbv zeta. pose proof (astep_lifo a o ans W) as L. pose proof (astep_wf a o ans W) as W'.
    specialize (IH _ W'). destruct (ar_run (fst (fst (astep a o ans))) h) as [a' calls].
    rewrite <- app_assoc. rewrite (apply_calls_app _ _ _ _ L). exact IH.
Qed.
