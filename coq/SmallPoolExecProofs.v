(* The Exec model of memory_pool<small_node_pool> refines the Spec (PoolSpec.acc_op), for every upstream answer that is a
   fresh aligned block with room for a node, over every history. *)
From Coq Require Import ZArith NArith List Bool Lia Permutation.
From FM Require Import Wrap GenArith FixedStack SmallCarve PoolSpec SlotProofs ListLib PoolSpecProofs Stack Arena CapacityProofs
     InvalidRelease SmallList SmallListProofs SmallRefine SmallPoolExec.
Import ListNotations.
Local Open Scope Z_scope.

(* every chunk (header and nodes) lies inside a range handed to the list *)
Definition chunks_in (ns : Z) (rs : list tagged) (cs : list chunk) : Prop :=
  forall c, In c cs -> exists r, In (ns, r) rs /\ fst r <= c_mem c - sm_cmo /\ c_end ns c <= fst r + snd r.

Definition SPR (s : spool) (sp : ast) : Prop :=
  exists l, a_lists sp = [l] /\ Inv sp /\ R (sp_g s) {| ss_rs := a_ranges sp; ss_l := l |} /\
            chunks_in (sp_ns s) (a_ranges sp) (sm_chunks (g_l (sp_g s))) /\
            a_held sp = ar_used (sp_ar s) /\ ar_cache (sp_ar s) = [] /\ ar_cached (sp_ar s) = false.

Definition SWB (sp : ast) (addr size : Z) : Prop :=
  (0 <? addr) && (hdrZ <? size) && (addr mod maxalZ =? 0) && forallb (r_disj (addr, size)) (a_held sp) = true.

Lemma shdr_eq : hdrZ = hdr /\ hdr = 16 /\ maxalZ = 16.
Proof. repeat split; vm_compute; reflexivity. Qed.
Lemma ssingle_find l : find_list (l_ns l) [l] = Some l.
Proof. cbn. rewrite Z.eqb_refl. reflexivity. Qed.
Lemma ssingle_set l l' : l_ns l' = l_ns l -> set_list l' [l] = [l'].
Proof. intros E. cbn. rewrite E, Z.eqb_refl. reflexivity. Qed.

Lemma list_of_R g rs l : R g {| ss_rs := rs; ss_l := l |} -> l = sl (sm_ns (g_l g)) (g_live g) (sm_capacity (g_l g)).
Proof. intros (_ & Hl & _). exact Hl. Qed.

Lemma chunks_in_layout ns rs : forall cs cs', map c_mem cs' = map c_mem cs -> map c_nodes cs' = map c_nodes cs -> chunks_in ns rs cs -> chunks_in ns rs cs'.
Proof.
  induction cs as [|x tl IH]; intros cs' E1 E2 H c Hc; destruct cs' as [|x' tl']; try discriminate; [destruct Hc|].
  cbn [map] in E1, E2. inversion E1 as [[M1 M2]]. inversion E2 as [[N1 N2]]. destruct Hc as [<-|Hc].
  - destruct (H x (or_introl eq_refl)) as (r & Hr & A & B). exists r. split; [exact Hr|]. unfold c_end in *. rewrite M1, N1. split; assumption.
  - apply (IH tl' M2 N2); [|exact Hc]. intros d Hd. apply H. right. exact Hd.
Qed.

Lemma take_ns s s' x : sp_take s = Some (s', x) -> sp_ns s' = sp_ns s.
Proof.
  unfold sp_take, sp_ns. destruct (sm_alloc (g_l (sp_g s))) as [[x0 l']|] eqn:E; [|discriminate]. intros H; inversion H; subst. cbn [sp_g g_l].
  unfold sm_alloc in E. destruct (find_chunk (g_l (sp_g s))) as [[|i]|]; try discriminate.
  destruct (nth_error _ i) as [c|]; [|discriminate]. destruct (c_free c); [discriminate|]. inversion E; reflexivity.
Qed.

(* taking a node from a list that has one *)
Lemma take_refines s sp s' x : SPR s sp -> 0 < sm_capacity (g_l (sp_g s)) -> sp_take s = Some (s', x) ->
  exists l l', a_lists sp = [l] /\ l_ns l = sp_ns s /\ take_slots (a_ranges sp) l x 1 = Some l' /\
               SPR s' {| a_lists := [l']; a_ranges := a_ranges sp; a_held := a_held sp |}.
Proof.
  intros (l & Hls & Hinv & Hr & Hci & Hheld & Hc & Hcd) Hcap Hstep. unfold sp_take in Hstep.
  pose proof (list_of_R _ _ _ Hr) as El. assert (Ens : l_ns l = sp_ns s) by (rewrite El; reflexivity).
  destruct (sm_alloc (g_l (sp_g s))) as [[x0 l1]|] eqn:E; [|discriminate]. inversion Hstep; subst s' x0; clear Hstep.
  assert (Hg : gstep (sp_g s) GAlloc = Some {| g_l := l1; g_live := x :: g_live (sp_g s) |}).
  { cbn [gstep]. destruct (Z.ltb_spec 0 (sm_capacity (g_l (sp_g s)))); [|lia]. rewrite E. reflexivity. }
  destruct (step_refines _ _ _ _ Hr Hg) as (u' & Hu & Hr'). cbn [ss_step ss_l ss_rs result_of g_live hd_error] in Hu.
  destruct (take_slots (a_ranges sp) l x 1) as [l'|] eqn:T; [|discriminate]. inversion Hu; subst u'; clear Hu.
  exists l, l'. split; [exact Hls|]. split; [exact Ens|]. split; [exact T|].
  assert (Ens' : l_ns l' = l_ns l) by (unfold take_slots in T; destruct (_ && _) in T; [|discriminate]; inversion T; reflexivity).
  assert (Hacc : acc_op sp (OAlloc true false (sp_ns s) (sp_ns s)) [] (ObsOk x) = Some (with_list sp l')).
  { unfold acc_op. rewrite Hls, <- Ens, ssingle_find. cbn [existsb andb orb negb acc_evs]. rewrite andb_false_r. cbn [orb].
    rewrite Hls, ssingle_find. unfold slots_needed. rewrite Z.leb_refl, T. reflexivity. }
  pose proof (acc_op_inv _ _ _ _ _ Hinv Hacc) as Hinv'.
  assert (Hw : with_list sp l' = {| a_lists := [l']; a_ranges := a_ranges sp; a_held := a_held sp |}) by (unfold with_list; rewrite Hls, (ssingle_set l l' Ens'); reflexivity).
  rewrite Hw in Hinv'.
  destruct (sm_alloc_spec (g_l (sp_g s)) ltac:(destruct Hr as ((Hi & _) & _); exact Hi) Hcap) as (p & l2 & E2 & _ & _ & _ & A4 & A5 & A6).
  rewrite E in E2. inversion E2; subst p l2; clear E2.
  exists l'. cbn [a_lists a_ranges a_held sp_g sp_ar]. split; [reflexivity|]. split; [exact Hinv'|]. split; [exact Hr'|]. split.
  - unfold sp_ns. cbn [sp_g g_l]. rewrite A4. eapply chunks_in_layout; [exact A5|exact A6|exact Hci].
  - split; [exact Hheld|]. split; assumption.
Qed.

Lemma sgrow_ns s answer s1 ok evs : sp_grow s answer = (s1, ok, evs) -> sp_ns s1 = sp_ns s.
Proof. unfold sp_grow, sp_ns. destruct (astep (sp_ar s) ABlock answer) as [[a' out] calls]. destruct out; intros H; inversion H; reflexivity. Qed.

Theorem sgrow_refines s sp answer s1 ok evs : SPR s sp -> 1 <= sp_ns s ->
  (forall addr, answer = Some addr -> SWB sp addr (ar_next (sp_ar s)) /\
      0 < s_nodes sm_cmo sm_cmax sm_calign (sp_ns s) (ar_next (sp_ar s) - hdr)) ->
  sp_grow s answer = (s1, ok, evs) ->
  exists sp1, acc_evs sp evs = Some sp1 /\ SPR s1 sp1 /\
              (ok = true -> 0 < sm_capacity (g_l (sp_g s1))) /\ (ok = false -> s1 = s /\ sp1 = sp).
Proof.
  intros (l & Hls & Hinv & Hr & Hci & Hheld & Hc & Hcd) Hnsr Hwb Hstep. unfold sp_grow in Hstep.
  pose proof (list_of_R _ _ _ Hr) as El. assert (Ens : l_ns l = sp_ns s) by (rewrite El; reflexivity).
  destruct shdr_eq as (Eh & Eh16 & Emax).
  unfold astep in Hstep. rewrite Hc in Hstep.
  destruct (match ar_kind (sp_ar s) with AFixed => (ar_next (sp_ar s) =? 0) | _ => false end) eqn:Hfix.
  { assert (Hs : (s1, ok, evs) = ({| sp_ar := sp_ar s; sp_g := sp_g s |}, false, [])).
    { rewrite <- Hstep. destruct (ar_kind (sp_ar s)); try discriminate. rewrite Hfix. reflexivity. }
    inversion Hs; subst s1 ok evs; clear Hs Hstep. exists sp. cbn [acc_evs]. split; [reflexivity|].
    assert (Es : {| sp_ar := sp_ar s; sp_g := sp_g s |} = s) by (destruct s; reflexivity). rewrite Es.
    split; [exists l; split; [exact Hls|]; split; [exact Hinv|]; split; [exact Hr|]; split; [exact Hci|]; split; [exact Hheld|]; split; assumption|].
    split; [discriminate|intros _; split; reflexivity]. }
  assert (Hstep' : (s1, ok, evs) =
    match answer with
    | None => ({| sp_ar := sp_ar s; sp_g := sp_g s |}, false, [EUpFail])
    | Some x =>
        let b := (x, ar_next (sp_ar s)) in
        let a' := ar_set (sp_ar s) (b :: ar_used (sp_ar s)) [] (match ar_kind (sp_ar s) with AGrow => 2 * ar_next (sp_ar s) | AFixed => 0 | AConst => ar_next (sp_ar s) end) in
        ({| sp_ar := a'; sp_g := {| g_l := sm_insert (g_l (sp_g s)) (b_mem b) (b_usable b); g_live := g_live (sp_g s) |} |}, true,
         [EUp (b_mem b - hdrZ) (b_usable b + hdrZ); EIns (sp_ns s) (b_mem b) (b_usable b)])
    end).
  { rewrite <- Hstep. destruct (ar_kind (sp_ar s)); try (rewrite Hfix); destruct answer; reflexivity. }
  clear Hstep. destruct answer as [x|].
  - destruct (Hwb x eq_refl) as [Hw Hroom]. cbv zeta in Hstep'.
    set (nx := ar_next (sp_ar s)) in *. set (ns := sp_ns s) in *.
    unfold b_mem, b_usable in Hstep'. cbn [fst snd] in Hstep'.
    replace (x + hdr - hdrZ) with x in Hstep' by lia. replace (nx - hdr + hdrZ) with nx in Hstep' by lia.
    set (m := x + hdr) in *. set (sz := nx - hdr) in *. inversion Hstep'; subst s1 ok evs; clear Hstep'.
    assert (Hup : acc_ev sp (EUp x nx) = Some {| a_lists := a_lists sp; a_ranges := a_ranges sp; a_held := (x, nx) :: a_held sp |}).
    { cbn [acc_ev]. unfold SWB in Hw. rewrite Hw. reflexivity. }
    set (sp1 := {| a_lists := a_lists sp; a_ranges := a_ranges sp; a_held := (x, nx) :: a_held sp |}) in *.
    unfold SWB in Hw. apply andb_prop in Hw. destruct Hw as [Hw W4]. apply andb_prop in Hw. destruct Hw as [Hw W3]. apply andb_prop in Hw. destruct Hw as [W1 W2].
    apply Z.ltb_lt in W1. apply Z.ltb_lt in W2. apply Z.eqb_eq in W3. rewrite forallb_forall in W4.
    assert (Hszp : 0 < sz) by (unfold sz; lia).
    assert (Hfresh : forall y, In y (a_ranges sp) -> rng_disj (m, sz) (snd y)).
    { intros y Hy. destruct Hinv as [_ _ _ _ _ Ii]. rewrite Forall_forall in Ii. destruct (Ii y Hy) as (b & Hb & Hin).
      specialize (W4 b Hb). apply r_disj_spec in W4. unfold rng_disj, rng_inside, usable in *. cbn [fst snd] in *. unfold m, sz. lia. }
    (* the list's insert precondition: every chunk lies inside an old range, which the new block does not touch *)
    assert (Hpre : forallb (fun c => (c_end_b ns c <=? m) || (m + sz <=? c_mem c - sm_cmo)) (sm_chunks (g_l (sp_g s))) = true).
    { apply forallb_forall. intros c Hcin. destruct (Hci c Hcin) as (rr & Hrr & R1 & R2). change (sp_ns s) with ns in Hrr, R2.
      specialize (Hfresh (ns, rr) Hrr). unfold rng_disj in Hfresh. cbn [fst snd] in Hfresh. rewrite c_end_b_eq.
      apply orb_true_intro. destruct Hfresh as [F|F]; [right; apply Z.leb_le; lia|left; apply Z.leb_le; lia]. }
    assert (Hg1 : gstep (sp_g s) (GIns m sz) = Some {| g_l := sm_insert (g_l (sp_g s)) m sz; g_live := g_live (sp_g s) |}).
    { cbn [gstep]. change (sm_ns (g_l (sp_g s))) with ns. rewrite Hpre. destruct (Z.ltb_spec 0 sz); [reflexivity|lia]. }
    destruct (step_refines _ _ _ _ Hr Hg1) as (u1 & Hu1 & Hr1). cbn [ss_step ss_l ss_rs result_of] in Hu1. inversion Hu1; subst u1; clear Hu1.
    rewrite Ens in Hr1. fold ns in Hr1.
    set (l1 := {| l_kind := l_kind l; l_ns := ns; l_allocs := l_allocs l; l_nfree := l_nfree l + nodes_of (l_kind l) ns (m, sz) |}) in *.
    assert (Hkind : l_kind l = LSmall) by (rewrite El; reflexivity).
    assert (Hnodes : nodes_of (l_kind l) ns (m, sz) = s_nodes sm_cmo sm_cmax sm_calign ns sz).
    { rewrite Hkind. unfold nodes_of. cbn [snd]. destruct consts as (-> & -> & -> & -> & -> & ->). reflexivity. }
    assert (Hins : acc_ev sp1 (EIns ns m sz) = Some {| a_lists := [l1]; a_ranges := (ns, (m, sz)) :: a_ranges sp; a_held := (x, nx) :: a_held sp |}).
    { cbn [acc_ev]. unfold sp1 at 1. cbn [a_lists]. rewrite Hls. rewrite <- Ens at 1. rewrite ssingle_find.
      assert (Hn : 0 <? nodes_of (l_kind l) ns (m, sz) = true) by (rewrite Hnodes; apply Z.ltb_lt; exact Hroom).
      assert (Hrok : range_ok sp1 (m, sz) = true).
      { unfold range_ok. cbn [snd fst]. apply andb_true_intro. split; [apply andb_true_intro; split|].
        - apply Z.ltb_lt. exact Hszp.
        - apply existsb_exists. exists (x, nx). split; [left; reflexivity|]. apply r_inside_spec. unfold rng_inside, usable. cbn [fst snd]. unfold m, sz. lia.
        - apply forallb_forall. intros y Hy. apply r_disj_spec. apply Hfresh. exact Hy. }
      assert (Hal : (m mod (match l_kind l with LIntrusive => al_of ns | LSmall => maxalZ end) =? 0) = true).
      { rewrite Hkind. apply Z.eqb_eq. rewrite Emax. unfold m. rewrite Eh16. assert (x mod 16 = 0) by lia.
        apply Z.mod_divide in H; [|lia]. destruct H as [q Hq']. apply Z.mod_divide; [lia|]. exists (q + 1). lia. }
      rewrite Hn, Hrok, Hal. cbn [andb]. unfold sp1. cbn [a_lists a_ranges a_held]. rewrite Hls. fold l1. rewrite (ssingle_set l l1 ltac:(unfold l1; cbn [l_ns]; lia)). reflexivity. }
    set (sp2 := {| a_lists := [l1]; a_ranges := (ns, (m, sz)) :: a_ranges sp; a_held := (x, nx) :: a_held sp |}) in *.
    assert (Hevs : acc_evs sp [EUp x nx; EIns ns m sz] = Some sp2) by (cbn [acc_evs]; rewrite Hup, Hins; reflexivity).
    pose proof (acc_evs_inv _ _ _ Hinv Hevs) as Hinv2.
    pose proof Hr as ((Hsinv & _) & _).
    assert (Hdis : forall c, In c (sm_chunks (g_l (sp_g s))) -> c_end ns c <= m \/ m + sz <= c_mem c - sm_cmo).
    { intros c Hcin. rewrite forallb_forall in Hpre. specialize (Hpre c Hcin). rewrite c_end_b_eq in Hpre. apply orb_prop in Hpre. destruct Hpre as [H|H]; [left|right]; apply Z.leb_le; exact H. }
    destruct (sm_insert_spec (g_l (sp_g s)) m sz Hsinv Hszp Hdis) as (_ & Hcap & _). cbv zeta in Hcap. change (sm_ns (g_l (sp_g s))) with ns in Hcap.
    exists sp2. split; [exact Hevs|]. split.
    { exists l1. unfold sp2 in *. cbn [a_lists a_ranges a_held sp_g sp_ar ar_set ar_used ar_cache ar_cached]. split; [reflexivity|]. split; [exact Hinv2|]. split; [exact Hr1|].
      split.
      - (* chunks of the new list: the carved ones lie in the new range, the old ones where they were *)
        unfold sp_ns. cbn [sp_g g_l sm_insert sm_ns sm_chunks]. change (sm_ns (g_l (sp_g s))) with ns. intros c Hcin.
        apply (Permutation_in _ (insert_sorted_perm _ _ _)) in Hcin. apply in_app_or in Hcin. destruct Hcin as [Hcin|Hcin].
        + exists (m, sz). split; [left; reflexivity|]. cbn [fst snd].
          destruct (carve_props ns m sz Hnsr ltac:(lia)) as (C1 & C2 & C3 & _).
          pose proof (sep_above ns _ m C3 ltac:(lia) C1 c Hcin). unfold ends_below in C2. rewrite Forall_forall in C2. specialize (C2 c Hcin). split; lia.
        + destruct (Hci c Hcin) as (rr & Hrr & R1 & R2). exists rr. split; [right; exact Hrr|]. split; assumption.
      - split; [rewrite Hheld; reflexivity|]. split; [reflexivity|exact Hcd]. }
    split; [intros _; cbn [sp_g g_l]; rewrite Hcap; pose proof (capacity_is_free_count (g_l (sp_g s))); lia|discriminate].
  - inversion Hstep'; subst s1 ok evs; clear Hstep'. exists sp. split; [reflexivity|].
    assert (Es : {| sp_ar := sp_ar s; sp_g := sp_g s |} = s) by (destruct s; reflexivity). rewrite Es.
    split; [exists l; split; [exact Hls|]; split; [exact Hinv|]; split; [exact Hr|]; split; [exact Hci|]; split; [exact Hheld|]; split; assumption|].
    split; [discriminate|intros _; split; reflexivity].
Qed.

Lemma spr_list s sp : SPR s sp -> exists l, a_lists sp = [l] /\ l_ns l = sp_ns s /\ l_nfree l = sm_capacity (g_l (sp_g s)).
Proof. intros (l & Hls & _ & Hr & _). exists l. split; [exact Hls|]. rewrite (list_of_R _ _ _ Hr). split; reflexivity. Qed.

Lemma acc_alloc_unfold sp l ns try_ evs x sp1 l1 l' :
  a_lists sp = [l] -> l_ns l = ns -> ((0 <? l_nfree l) && existsb is_grow evs = false) -> (try_ && existsb is_up evs = false) ->
  acc_evs sp evs = Some sp1 -> a_lists sp1 = [l1] -> l_ns l1 = ns -> take_slots (a_ranges sp1) l1 x 1 = Some l' ->
  acc_op sp (OAlloc try_ false ns ns) evs (ObsOk x) = Some (with_list sp1 l').
Proof.
  intros Hls Ens Hg Hu Hev Hls1 Ens1 T. unfold acc_op. rewrite Hls, <- Ens, ssingle_find. cbn [negb andb orb]. rewrite Hg, Hu. cbn [orb].
  rewrite Hev, Hls1. rewrite Ens, <- Ens1, ssingle_find. unfold slots_needed. rewrite Z.leb_refl, T. reflexivity.
Qed.

Theorem salloc_node_refines s sp answer s' r evs : SPR s sp -> 1 <= sp_ns s ->
  (forall addr, answer = Some addr -> SWB sp addr (ar_next (sp_ar s)) /\
      0 < s_nodes sm_cmo sm_cmax sm_calign (sp_ns s) (ar_next (sp_ar s) - hdr)) ->
  sp_alloc_node s answer = (s', r, evs) ->
  exists sp', acc_op sp (OAlloc false false (sp_ns s) (sp_ns s)) evs r = Some sp' /\ SPR s' sp'.
Proof.
  intros Hpr Hns Hwb Hstep. unfold sp_alloc_node in Hstep. destruct (spr_list _ _ Hpr) as (l & Hls & Ens & Enf).
  destruct (Z.ltb_spec 0 (sm_capacity (g_l (sp_g s)))) as [Hcap|Hcap].
  - destruct (sp_take s) as [[s1 x]|] eqn:E.
    + inversion Hstep; subst s' r evs; clear Hstep.
      destruct (take_refines s sp s1 x Hpr Hcap E) as (l0 & l' & Hls0 & Ens0 & T & Hpr').
      rewrite Hls in Hls0. inversion Hls0; subst l0.
      assert (Ens' : l_ns l' = l_ns l) by (unfold take_slots in T; destruct (_ && _) in T; [|discriminate]; inversion T; reflexivity).
      assert (Hw : with_list sp l' = {| a_lists := [l']; a_ranges := a_ranges sp; a_held := a_held sp |}) by (unfold with_list; rewrite Hls, (ssingle_set l l' Ens'); reflexivity).
      eexists. split; [|exact Hpr']. rewrite <- Hw.
      apply (acc_alloc_unfold sp l (sp_ns s) false [] x sp l l' Hls Ens); [cbn [existsb]; apply andb_false_r|reflexivity|reflexivity|exact Hls|exact Ens|exact T].
    + exfalso. unfold sp_take in E. destruct Hpr as (lx & _ & _ & Hr & _). destruct Hr as ((Hi & _) & _).
      destruct (sm_alloc_spec _ Hi Hcap) as (p & l2 & E2 & _). rewrite E2 in E. discriminate.
  - destruct (sp_grow s answer) as [[s1 ok] evs1] eqn:G.
    destruct (sgrow_refines s sp answer s1 ok evs1 Hpr Hns Hwb G) as (sp1 & Hevs & Hpr1 & Hok & Hno).
    assert (Hthrow : acc_op sp (OAlloc false false (sp_ns s) (sp_ns s)) evs1 ObsThrow = Some sp1).
    { unfold acc_op. rewrite Hls, <- Ens, ssingle_find. rewrite Enf. destruct (Z.ltb_spec 0 (sm_capacity (g_l (sp_g s)))); [lia|]. cbn [negb andb orb]. rewrite Hevs. reflexivity. }
    destruct ok.
    + specialize (Hok eq_refl). destruct (sp_take s1) as [[s2 x]|] eqn:E2; inversion Hstep; subst s' r evs; clear Hstep.
      * destruct (take_refines s1 sp1 s2 x Hpr1 Hok E2) as (l1 & l' & Hls1 & Ens1 & T & Hpr').
        rewrite (sgrow_ns _ _ _ _ _ G) in Ens1.
        assert (Ens' : l_ns l' = l_ns l1) by (unfold take_slots in T; destruct (_ && _) in T; [|discriminate]; inversion T; reflexivity).
        assert (Hw : with_list sp1 l' = {| a_lists := [l']; a_ranges := a_ranges sp1; a_held := a_held sp1 |}) by (unfold with_list; rewrite Hls1, (ssingle_set l1 l' Ens'); reflexivity).
        eexists. split; [|exact Hpr']. rewrite <- Hw.
        apply (acc_alloc_unfold sp l (sp_ns s) false evs1 x sp1 l1 l' Hls Ens); [rewrite Enf; destruct (Z.ltb_spec 0 (sm_capacity (g_l (sp_g s)))); [lia|reflexivity]|reflexivity|exact Hevs|exact Hls1|exact Ens1|exact T].
      * exists sp1. split; [exact Hthrow|exact Hpr1].
    + inversion Hstep; subst s' r evs; clear Hstep. exists sp1. split; [exact Hthrow|exact Hpr1].
Qed.

Theorem stry_alloc_node_refines s sp s' r evs : SPR s sp -> sp_try_alloc_node s = (s', r, evs) ->
  exists sp', acc_op sp (OAlloc true false (sp_ns s) (sp_ns s)) evs r = Some sp' /\ SPR s' sp'.
Proof.
  intros Hpr Hstep. unfold sp_try_alloc_node in Hstep. destruct (spr_list _ _ Hpr) as (l & Hls & Ens & Enf).
  assert (Hnull : l_nfree l = 0 -> acc_op sp (OAlloc true false (sp_ns s) (sp_ns s)) [] ObsNull = Some sp).
  { intros Hz. unfold acc_op. rewrite Hls, <- Ens, ssingle_find. cbn [existsb andb orb negb acc_evs]. rewrite andb_false_r. cbn [orb]. rewrite Hz. reflexivity. }
  destruct (Z.ltb_spec 0 (sm_capacity (g_l (sp_g s)))) as [Hcap|Hcap].
  - destruct (sp_take s) as [[s1 x]|] eqn:E.
    + inversion Hstep; subst s' r evs; clear Hstep.
      destruct (take_refines s sp s1 x Hpr Hcap E) as (l0 & l' & Hls0 & Ens0 & T & Hpr').
      rewrite Hls in Hls0. inversion Hls0; subst l0.
      assert (Ens' : l_ns l' = l_ns l) by (unfold take_slots in T; destruct (_ && _) in T; [|discriminate]; inversion T; reflexivity).
      assert (Hw : with_list sp l' = {| a_lists := [l']; a_ranges := a_ranges sp; a_held := a_held sp |}) by (unfold with_list; rewrite Hls, (ssingle_set l l' Ens'); reflexivity).
      eexists. split; [|exact Hpr']. rewrite <- Hw.
      apply (acc_alloc_unfold sp l (sp_ns s) true [] x sp l l' Hls Ens); [cbn [existsb]; apply andb_false_r|reflexivity|reflexivity|exact Hls|exact Ens|exact T].
    + exfalso. unfold sp_take in E. destruct Hpr as (lx & _ & _ & Hr & _). destruct Hr as ((Hi & _) & _).
      destruct (sm_alloc_spec _ Hi Hcap) as (p & l2 & E2 & _). rewrite E2 in E. discriminate.
  - inversion Hstep; subst s' r evs; clear Hstep. exists sp. split; [|exact Hpr]. apply Hnull. rewrite Enf.
    pose proof (capacity_is_free_count (g_l (sp_g s))). lia.
Qed.

Theorem sdealloc_node_refines s sp p s' r evs : SPR s sp -> sp_dealloc_node s p = Some (s', r, evs) ->
  exists sp', acc_op sp (ODealloc (sp_ns s) (sp_ns s) p) evs r = Some sp' /\ SPR s' sp'.
Proof.
  intros (l & Hls & Hinv & Hr & Hci & Hheld & Hc & Hcd) Hstep. unfold sp_dealloc_node in Hstep.
  pose proof (list_of_R _ _ _ Hr) as El. assert (Ens : l_ns l = sp_ns s) by (rewrite El; reflexivity).
  destruct (existsb (Z.eqb p) (g_live (sp_g s))) eqn:Hex; [|discriminate].
  destruct (sm_dealloc (g_l (sp_g s)) p) as [l1|] eqn:E; [|discriminate]. inversion Hstep; subst s' r evs; clear Hstep.
  assert (Hg : gstep (sp_g s) (GDealloc p) = Some {| g_l := l1; g_live := remove_z p (g_live (sp_g s)) |}) by (cbn [gstep]; rewrite Hex, E; reflexivity).
  destruct (step_refines _ _ _ _ Hr Hg) as (u' & Hu & Hr'). cbn [ss_step ss_l ss_rs result_of] in Hu.
  destruct (give_slots l p 1) as [l'|] eqn:G; [|discriminate]. inversion Hu; subst u'; clear Hu.
  assert (Ens' : l_ns l' = l_ns l) by (unfold give_slots in G; destruct (remove_alloc p 1 (l_allocs l)); [|discriminate]; inversion G; reflexivity).
  assert (Hacc : acc_op sp (ODealloc (sp_ns s) (sp_ns s) p) [] ObsTrue = Some (with_list sp l')).
  { unfold acc_op. rewrite Hls, <- Ens, ssingle_find. unfold slots_needed. rewrite Z.leb_refl, G. reflexivity. }
  pose proof (acc_op_inv _ _ _ _ _ Hinv Hacc) as Hinv'.
  assert (Hw : with_list sp l' = {| a_lists := [l']; a_ranges := a_ranges sp; a_held := a_held sp |}) by (unfold with_list; rewrite Hls, (ssingle_set l l' Ens'); reflexivity).
  rewrite Hw in *. eexists. split; [exact Hacc|].
  (* the chunk layout is unchanged by a release *)
  pose proof Hr as ((Hsinv & Hnd & Hgrid) & _).
  apply existsb_exists in Hex. destruct Hex as [y [Hy Ey]]. apply Z.eqb_eq in Ey. subst y.
  rewrite Forall_forall in Hgrid. destruct (Hgrid p Hy) as (c & Hcin & G1 & G2 & G3).
  assert (Hfrom : c_from (sm_ns (g_l (sp_g s))) c p = true) by (unfold c_from; apply andb_true_intro; unfold c_end in G2; destruct Hsinv as (Hn & _); split; [apply Z.leb_le; lia|apply Z.ltb_lt; lia]).
  assert (Hnot : ~ In p (free_addrs (sm_ns (g_l (sp_g s))) (sm_chunks (g_l (sp_g s))))).
  { intros Hin. apply in_split in Hy. destruct Hy as (l1' & l2' & El'). rewrite El' in Hnd. rewrite <- app_assoc in Hnd. cbn [app] in Hnd.
    apply NoDup_remove_2 in Hnd. apply Hnd. apply in_or_app. right. apply in_or_app. right. exact Hin. }
  destruct (sm_dealloc_spec _ p c Hsinv Hcin Hfrom G3 Hnot) as (l2 & E2 & _ & _ & _ & D4 & D5 & D6). rewrite E in E2. inversion E2; subst l2; clear E2.
  exists l'. cbn [a_lists a_ranges a_held sp_g sp_ar]. split; [reflexivity|]. split; [exact Hinv'|]. split; [exact Hr'|]. split.
  - unfold sp_ns. cbn [sp_g g_l]. rewrite D4. eapply chunks_in_layout; [exact D5|exact D6|exact Hci].
  - split; [exact Hheld|]. split; assumption.
Qed.

(* ---------- histories ---------- *)
Definition sp_answer_ok (s : spool) (sp : ast) (o : spool_op) : Prop :=
  match o with
  | SPAllocNode (Some addr) => SWB sp addr (ar_next (sp_ar s)) /\ 0 < s_nodes sm_cmo sm_cmax sm_calign (sp_ns s) (ar_next (sp_ar s) - hdr)
  | _ => True
  end.

Theorem small_pool_step_refines s sp o s' r evs : SPR s sp -> 1 <= sp_ns s -> sp_answer_ok s sp o ->
  sp_step s o = Some (s', r, evs) -> exists sp', acc_op sp (sp_spec_op (sp_ns s) o) evs r = Some sp' /\ SPR s' sp'.
Proof.
  intros Hpr Hns Hok Hstep. destruct o as [answer| |p]; cbn [sp_step sp_spec_op] in *.
  - inversion Hstep as [H1]. apply (salloc_node_refines s sp answer s' r evs Hpr Hns); [|exact H1]. intros addr ->. exact Hok.
  - inversion Hstep as [H1]. apply (stry_alloc_node_refines s sp s' r evs Hpr H1).
  - apply (sdealloc_node_refines s sp p s' r evs Hpr Hstep).
Qed.

Lemma sp_ns_step s o s' r evs : sp_step s o = Some (s', r, evs) -> sp_ns s' = sp_ns s.
Proof.
  destruct o as [answer| |p]; cbn [sp_step].
  - intros H. inversion H as [H1]; clear H. unfold sp_alloc_node in H1. destruct (0 <? sm_capacity (g_l (sp_g s))).
    + destruct (sp_take s) as [[s1 x]|] eqn:E; inversion H1; subst; [exact (take_ns _ _ _ E)|reflexivity].
    + destruct (sp_grow s answer) as [[s1 ok] evs1] eqn:G. pose proof (sgrow_ns _ _ _ _ _ G) as Eg. destruct ok; [|inversion H1; subst; exact Eg].
      destruct (sp_take s1) as [[s2 x]|] eqn:E2; inversion H1; subst; [rewrite (take_ns _ _ _ E2)|]; exact Eg.
  - intros H. inversion H as [H1]; clear H. unfold sp_try_alloc_node in H1. destruct (0 <? sm_capacity (g_l (sp_g s))); [|inversion H1; reflexivity].
    destruct (sp_take s) as [[s1 x]|] eqn:E; inversion H1; subst; [exact (take_ns _ _ _ E)|reflexivity].
  - unfold sp_dealloc_node. destruct (existsb _ _); [|discriminate]. destruct (sm_dealloc (g_l (sp_g s)) p) as [l'|] eqn:E; [|discriminate].
    intros H. inversion H; subst. unfold sp_ns. cbn [sp_g g_l]. unfold sm_dealloc in E. destruct (chunk_index _ _ _) as [i|]; [|discriminate].
    destruct (nth_error _ i); [|discriminate]. inversion E; reflexivity.
Qed.

Fixpoint sp_answers_ok (s : spool) (sp : ast) (os : list spool_op) : Prop :=
  match os with
  | [] => True
  | o :: tl => sp_answer_ok s sp o /\
      forall s' r evs sp', sp_step s o = Some (s', r, evs) -> acc_op sp (sp_spec_op (sp_ns s) o) evs r = Some sp' -> sp_answers_ok s' sp' tl
  end.

Theorem small_pool_refines_spec : forall os s sp s' tr, SPR s sp -> 1 <= sp_ns s -> sp_answers_ok s sp os ->
  sp_run s os = Some (s', tr) -> exists sp', run sp tr = Some sp' /\ SPR s' sp'.
Proof.
  induction os as [|o tl IH]; intros s sp s' tr Hpr Hns Hok Hrun; cbn [sp_run] in Hrun.
  - inversion Hrun; subst. exists sp. split; [reflexivity|exact Hpr].
  - destruct (sp_step s o) as [[[s1 r] evs]|] eqn:E; [|discriminate].
    destruct (sp_run s1 tl) as [[s2 tr1]|] eqn:E2; [|discriminate]. inversion Hrun; subst s' tr; clear Hrun.
    destruct Hok as [Hok1 Hok2].
    destruct (small_pool_step_refines s sp o s1 r evs Hpr Hns Hok1 E) as (sp1 & Hacc & Hpr1).
    cbn [run]. rewrite Hacc. apply (IH s1 sp1 s2 tr1 Hpr1); [rewrite (sp_ns_step _ _ _ _ _ E); exact Hns|exact (Hok2 _ _ _ _ E Hacc)|exact E2].
Qed.

Lemma sp_init_SPR k ns bs : 1 <= ns -> SPR (sp_init k ns bs) (mk_ast [sl ns [] 0]).
Proof.
  intros Hns. exists (sl ns [] 0). cbn [mk_ast a_lists a_ranges a_held sp_init sp_ar sp_g ar_init ar_used ar_cache ar_cached].
  split; [reflexivity|]. split.
  - apply init_inv; [cbn; constructor; [intros []|constructor]|]. constructor; [|constructor]. cbn. repeat split; lia.
  - split; [apply empty_R; lia|]. split; [intros c []|]. repeat split.
Qed.

Theorem sp_construct_refines k ns bs answer s ok evs : 1 <= ns ->
  (forall addr, answer = Some addr -> SWB (mk_ast [sl ns [] 0]) addr bs /\ 0 < s_nodes sm_cmo sm_cmax sm_calign ns (bs - hdr)) ->
  sp_construct k ns bs answer = (s, ok, evs) -> exists sp, acc_evs (mk_ast [sl ns [] 0]) evs = Some sp /\ SPR s sp.
Proof.
  intros Hns Hwb Hc. unfold sp_construct in Hc.
  destruct (sgrow_refines (sp_init k ns bs) (mk_ast [sl ns [] 0]) answer s ok evs (sp_init_SPR k ns bs Hns) Hns Hwb Hc) as (sp & Hev & Hpr & _).
  exists sp. split; assumption.
Qed.
