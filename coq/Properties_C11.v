(* C11 -- joint allocations stay inside the object's single block and it is freed whole.  Statements only.
   Joint.v models the joint stack behind joint_allocator / joint_array (fixed_memory_stack with fence 0). *)
From Coq Require Import ZArith List Bool.
From FM Require Import FixedStack ListLib Joint JointProofs.
Import ListNotations.
Local Open Scope Z_scope.

(* the invariant (pieces inside [obj + sizeof T, top], stacked one behind the other) holds after every operation *)
Theorem C11_invariant_preserved : forall s o, JInv s -> jop_ok s o -> JInv (fst (jstep s o)).
Proof. exact jstep_inv. Qed.
Print Assumptions C11_invariant_preserved.

(* a served request: aligned as asked, after the object, inside the one block, behind every earlier piece *)
Theorem C11_piece_inside_aligned_disjoint : forall s size al p, JInv s -> 0 <= size -> 0 < al ->
  snd (jstep s (JAlloc size al)) = JOk p ->
  p mod al = 0 /\ j_mem s <= p /\ p + size <= j_end s /\ Forall (pdisj (p, size)) (j_pieces s).
Proof. exact jalloc_ok. Qed.
Print Assumptions C11_piece_inside_aligned_disjoint.

(* overflow: a request throws exactly when padding + size exceed what is left (so an exact fit succeeds), and then changes nothing *)
Theorem C11_overflow_iff_does_not_fit : forall s size al, 0 < al -> j_top s <> 0 ->
  (snd (jstep s (JAlloc size al)) = JThrow <-> align_off (j_top s) al + size > j_end s - j_top s) /\
  (snd (jstep s (JAlloc size al)) = JThrow -> fst (jstep s (JAlloc size al)) = s).
Proof. exact jalloc_overflow_iff. Qed.
Print Assumptions C11_overflow_iff_does_not_fit.

Theorem C11_range_constructor_overflow : forall s n, snd (jstep s (JBump n)) = JThrow <-> n > j_end s - j_top s.
Proof. exact jbump_overflow. Qed.
Print Assumptions C11_range_constructor_overflow.

(* release parameters = allocation parameters, after any sequence of joint operations *)
Theorem C11_release_params_are_allocation_params : forall obj sT cap ops,
  j_release_params (fold_left (fun st o => fst (jstep st o)) ops (j_init obj sT cap)) = (obj, sT + cap).
Proof. exact release_params_are_allocation_params. Qed.
Print Assumptions C11_release_params_are_allocation_params.

Theorem C11_clone_size_within_capacity : forall s, JInv s -> 0 <= j_clone_size s <= j_cap s.
Proof. exact clone_size_bounds. Qed.
Print Assumptions C11_clone_size_within_capacity.

Example C11_nonvacuous :
  let s := fold_left (fun st o => fst (jstep st o)) [JAlloc 5 1; JAlloc 24 8; JAlloc 32 16; JAlloc 7 1] (j_init 65544 64 200) in
  map fst (j_pieces s) = [65680; 65648; 65616; 65608] /\ j_capacity_left s = 200 - 79.
Proof. vm_compute. split; reflexivity. Qed.
