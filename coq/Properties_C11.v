(* C11 -- joint allocations stay inside the object's single block and it is freed whole.  Statements only.
   Joint.v models the joint stack behind joint_allocator / joint_array (fixed_memory_stack with fence 0). *)
From Coq Require Import ZArith List Bool.
From FM Require Import FixedStack ListLib Joint JointProofs JointExc JointExcProofs.
Import ListNotations.
Local Open Scope Z_scope.

(* the invariant (pieces inside [obj + sizeof T, top], stacked one behind the other) holds after every operation *)
Theorem C11_invariant_preserved : forall s o, JInv s -> jop_ok s o -> JInv (fst (jstep s o)).
Proof. exact jstep_inv. Qed.
Print Assumptions C11_invariant_preserved.

(* a served request: aligned as asked, after the object, inside the one block, behind every earlier piece *)
Theorem C11_piece_inside_aligned_disjoint : forall s size al p, JInv s -> 0 <= size -> 0 < al ->
  snd (jstep s (JAlloc size al)) = JOk p ->
  p mod al = 0 /\ j_mem s <= p /\ p + size <= j_end s /\ Forall (pdisj (p, size)) (j_pieces s).
Proof. exact jalloc_ok. Qed.
Print Assumptions C11_piece_inside_aligned_disjoint.

(* overflow: a request throws exactly when padding + size exceed what is left (so an exact fit succeeds), and then changes nothing *)
Theorem C11_overflow_iff_does_not_fit : forall s size al, 0 < al -> j_top s <> 0 ->
  (snd (jstep s (JAlloc size al)) = JThrow <-> align_off (j_top s) al + size > j_end s - j_top s) /\
  (snd (jstep s (JAlloc size al)) = JThrow -> fst (jstep s (JAlloc size al)) = s).
Proof. exact jalloc_overflow_iff. Qed.
Print Assumptions C11_overflow_iff_does_not_fit.

Theorem C11_range_constructor_overflow : forall s n, snd (jstep s (JBump n)) = JThrow <-> n > j_end s - j_top s.
Proof. exact jbump_overflow. Qed.
Print Assumptions C11_range_constructor_overflow.

(* release parameters = allocation parameters, after any sequence of joint operations *)
Theorem C11_release_params_are_allocation_params : forall obj sT cap ops,
  j_release_params (fold_left (fun st o => fst (jstep st o)) ops (j_init obj sT cap)) = (obj, sT + cap).
Proof. exact release_params_are_allocation_params. Qed.
Print Assumptions C11_release_params_are_allocation_params.

Theorem C11_clone_size_within_capacity : forall s, JInv s -> 0 <= j_clone_size s <= j_cap s.
Proof. exact clone_size_bounds. Qed.
Print Assumptions C11_clone_size_within_capacity.

(* ---- "the object is destroyed once and its block is freed whole" (JointExc.v: the events of creation, clone / move into
   another allocator, and reset; the same event lists the harness logs) ---- *)
(* every element of the member array -- of the original and of the clone -- is constructed exactly once and destroyed exactly
   once, nothing else is; as many nodes go back as were obtained; no exception; the first event obtains the node and the last
   one gives a node back: for every element count *)
Theorem C11_every_element_destroyed_exactly_once : forall n post i,
  let ev := jx_case n None post in
  jcount (is_jc i) ev = (if in_range 1 (jx_total n post) i then 1 else 0)%nat /\
  jcount (is_jd i) ev = jcount (is_jc i) ev /\
  jcount is_ja ev = jcount is_jf ev /\
  jcount is_jt ev = 0%nat /\
  exists mid, ev = JxAlloc :: mid ++ [JxFree].
Proof. exact jx_success_lifecycle. Qed.
Print Assumptions C11_every_element_destroyed_exactly_once.

(* the order: elements are destroyed first to last while their node is still there, then the node goes back in one release;
   the clone is built after the original is complete and is gone before the original is touched *)
Theorem C11_elements_destroyed_before_the_block_is_freed : forall n,
  jx_case n None PNone = [JxAlloc] ++ map JxC (seq 1%nat n) ++ map JxD (seq 1%nat n) ++ [JxFree] /\
  jx_case n None PCopy = [JxAlloc] ++ map JxC (seq 1%nat n) ++ [JxAlloc] ++ map JxC (seq (S n) n) ++ map JxD (seq (S n) n) ++ [JxFree]
                          ++ map JxD (seq 1%nat n) ++ [JxFree].
Proof. exact jx_success_shape. Qed.
Print Assumptions C11_elements_destroyed_before_the_block_is_freed.

Example C11_lifecycle_nonvacuous :
  jx_case 2%nat None PCopy = [JxAlloc; JxC 1; JxC 2; JxAlloc; JxC 3; JxC 4; JxD 3; JxD 4; JxFree; JxD 1; JxD 2; JxFree]%nat.
Proof. vm_compute. reflexivity. Qed.

Example C11_nonvacuous :
  let s := fold_left (fun st o => fst (jstep st o)) [JAlloc 5 1; JAlloc 24 8; JAlloc 32 16; JAlloc 7 1] (j_init 65544 64 200) in
  map fst (j_pieces s) = [65680; 65648; 65616; 65608] /\ j_capacity_left s = 200 - 79.
Proof. vm_compute. split; reflexivity. Qed.
