(* Interleaving model of threads using one allocator_storage with a real mutex (thread_safe_allocator).
   A thread's program is a list of blocks: a forwarding member call that takes the lock (one pass through the
   wrapped allocator), the lock() proxy (any number of passes while the proxy lives), or -- what the lock table
   must exclude -- a member that reaches the allocator without the lock.  Any number of threads: the thread
   table is a function from thread ids. *)
From Coq Require Import List Bool Arith Lia.
Import ListNotations.

Inductive block := BLocked (passes : nat) | BUnlocked.

Inductive tstate :=
  | Idle (rest : list block)
  | Holding (passes : nat) (rest : list block)      (* owns the mutex, outside the allocator *)
  | Inside (passes : nat) (rest : list block)       (* owns the mutex, inside the allocator *)
  | InsideU (rest : list block).                    (* inside the allocator without the mutex *)

Record cstate := { owner : option nat; threads : nat -> tstate }.

Definition upd (t : nat) (x : tstate) (f : nat -> tstate) : nat -> tstate := fun i => if Nat.eqb i t then x else f i.

(* one atomic step of thread t, if it is enabled *)
Definition cstep (s : cstate) (t : nat) : option cstate :=
  match threads s t with
  | Idle [] => None
  | Idle (BLocked k :: rest) =>
      match owner s with
      | None => Some {| owner := Some t; threads := upd t (Holding k rest) (threads s) |}       (* mutex.lock() *)
      | Some _ => None                                                                           (* blocked *)
      end
  | Idle (BUnlocked :: rest) => Some {| owner := owner s; threads := upd t (InsideU rest) (threads s) |}
  | Holding (S k) rest => Some {| owner := owner s; threads := upd t (Inside k rest) (threads s) |}
  | Holding 0 rest => Some {| owner := None; threads := upd t (Idle rest) (threads s) |}          (* unlock *)
  | Inside k rest => Some {| owner := owner s; threads := upd t (Holding k rest) (threads s) |}
  | InsideU rest => Some {| owner := owner s; threads := upd t (Idle rest) (threads s) |}
  end.

Fixpoint crun (s : cstate) (sched : list nat) : cstate :=
  match sched with [] => s | t :: tl => crun (match cstep s t with Some s' => s' | None => s end) tl end.

Definition is_inside (x : tstate) : bool := match x with Inside _ _ | InsideU _ => true | _ => false end.
Definition all_locked (p : list block) : bool := forallb (fun b => match b with BLocked _ => true | BUnlocked => false end) p.
Definition start (progs : nat -> list block) : cstate := {| owner := None; threads := fun t => Idle (progs t) |}.

(* the passes through the wrapped allocator as it sees them: (t, true) thread t enters, (t, false) thread t leaves *)
Definition pass_event (s : cstate) (t : nat) (s' : cstate) : list (nat * bool) :=
  match is_inside (threads s t), is_inside (threads s' t) with
  | false, true => [(t, true)]
  | true, false => [(t, false)]
  | _, _ => []
  end.
Fixpoint ctrace (s : cstate) (sched : list nat) : list (nat * bool) :=
  match sched with
  | [] => []
  | t :: tl => match cstep s t with Some s' => pass_event s t s' ++ ctrace s' tl | None => ctrace s tl end
  end.
(* a serial history: passes do not overlap -- an enter is only followed by the leave of the same thread *)
Fixpoint serial (cur : option nat) (tr : list (nat * bool)) : Prop :=
  match tr with
  | [] => True
  | (t, true) :: tl => cur = None /\ serial (Some t) tl
  | (t, false) :: tl => cur = Some t /\ serial None tl
  end.
Definition inside_now (s : cstate) : option nat :=
  match owner s with Some o => if is_inside (threads s o) then Some o else None | None => None end.
