From Coq Require Import ZArith List Bool Lia.
From FM Require Import Leak.
Import ListNotations.
Local Open Scope Z_scope.

Definition alive_ops (ops : list lop) : Prop := Forall (fun o => o <> LDestroy) ops.

Lemma lrun_alive : forall ops s, alive_ops ops -> l_dead s = false ->
  let s' := fold_left lstep ops s in
  l_dead s' = false /\
  l_count s' = l_count s + net ops /\
  l_reports s' = l_reports s ++ assigned_over ops.
Proof.
  induction ops as [|o ops IH]; intros s Ha Hd; cbn [fold_left].
  - cbv zeta. unfold assigned_over. cbn. rewrite app_nil_r. split; [assumption|]. split; [lia|reflexivity].
  - inversion Ha as [|? ? Ho Ha']; subst.
    assert (Hd' : l_dead (lstep s o) = false) by (unfold lstep; rewrite Hd; destruct o; try reflexivity; try assumption; exfalso; apply Ho; reflexivity).
    destruct (IH (lstep s o) Ha' Hd') as (H1 & H2 & H3). cbv zeta. split; [assumption|].
    split.
    + rewrite H2. unfold lstep. rewrite Hd. destruct o; cbn [net l_count]; try lia. exfalso; apply Ho; reflexivity.
    + rewrite H3. unfold assigned_over at 2. cbn [flat_map]. fold (assigned_over ops). unfold lstep. rewrite Hd.
      destruct o; cbn; rewrite ?app_nil_r, <- ?app_assoc; try reflexivity. exfalso; apply Ho; reflexivity.
Qed.

(* C15: whatever the history of allocations, releases and moves, destruction reports the exact net number of bytes,
   exactly once, iff it is non-zero; move construction reports nothing; move assignment reports exactly the
   outstanding amount of the object that is overwritten *)
Theorem leak_exact ops : alive_ops ops ->
  l_reports (lrun (ops ++ [LDestroy])) = assigned_over ops ++ (if net ops =? 0 then [] else [net ops]).
Proof.
  intros Ha. unfold lrun. rewrite fold_left_app.
  destruct (lrun_alive ops {| l_count := 0; l_reports := []; l_dead := false |} Ha eq_refl) as (H1 & H2 & H3).
  cbn [fold_left]. unfold lstep at 1. rewrite H1. cbn [l_reports l_count]. rewrite H3, H2. cbn. reflexivity.
Qed.

Corollary balanced_is_silent ops : alive_ops ops -> net ops = 0 -> assigned_over ops = [] ->
  l_reports (lrun (ops ++ [LDestroy])) = [].
Proof. intros Ha Hn Hm. rewrite leak_exact by assumption. rewrite Hn, Hm. reflexivity. Qed.

(* nothing is reported after destruction, whatever is attempted *)
Theorem destroyed_is_silent ops more : alive_ops ops ->
  l_reports (lrun (ops ++ [LDestroy] ++ more)) = l_reports (lrun (ops ++ [LDestroy])).
Proof.
  intros Ha. unfold lrun. rewrite !fold_left_app.
  set (s := fold_left lstep [LDestroy] (fold_left lstep ops _)).
  assert (Hd : l_dead s = true).
  { unfold s. cbn [fold_left]. destruct (lrun_alive ops {| l_count := 0; l_reports := []; l_dead := false |} Ha eq_refl) as (H1 & _).
    unfold lstep at 1. rewrite H1. reflexivity. }
  clearbody s. induction more as [|o more IH] in s, Hd |- *; cbn; [reflexivity|].
  assert (lstep s o = s) by (unfold lstep; rewrite Hd; reflexivity). rewrite H. apply IH. assumption.
Qed.
