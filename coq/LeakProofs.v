From Coq Require Import ZArith List Bool Lia.
From FM Require Import Leak.
Import ListNotations.
Local Open Scope Z_scope.

Definition alive_ops (ops : list lop) : Prop := Forall (fun o => o <> LDestroy) ops.

Lemma lrun_alive : forall ops s, alive_ops ops -> l_dead s = false ->
  let s' := fold_left lstep ops s in
  l_dead s' = false /\
  l_count s' = l_count s + net ops /\
  l_reports s' = l_reports s ++ assigned_over ops.
Proof.
  induction ops as [|o ops IH]; intros s Ha Hd; cbn [fold_left].
  - cbv zeta. unfold assigned_over. cbn. rewrite app_nil_r. split; [assumption|]. split; [lia|reflexivity].
  - inversion Ha as [|? ? Ho Ha']; subst.
    assert (Hd' : l_dead (lstep s o) = false) by (unfold lstep; rewrite Hd; destruct o; try reflexivity; try assumption; exfalso; apply Ho; reflexivity).
    destruct (IH (lstep s o) Ha' Hd') as (H1 & H2 & H3). cbv zeta. split; [assumption|].
    split.
    + rewrite H2. unfold lstep. rewrite Hd. destruct o; cbn [net l_count]; try lia. exfalso; apply Ho; reflexivity.
    + rewrite H3. unfold assigned_over at 2. cbn [flat_map]. fold (assigned_over ops). unfold lstep. rewrite Hd.
      destruct o; cbn; rewrite ?app_nil_r, <- ?app_assoc; try reflexivity. exfalso; apply Ho; reflexivity.
Qed.

(* C15: whatever the history of allocations, releases and moves, destruction reports the exact net number of bytes,
   exactly once, iff it is non-zero; move construction reports nothing; move assignment reports exactly the
   outstanding amount of the object that is overwritten *)
Theorem leak_exact ops : alive_ops ops ->
  l_reports (lrun (ops ++ [LDestroy])) = assigned_over ops ++ (if net ops =? 0 then [] else [net ops]).
Proof.
  intros Ha. unfold lrun. rewrite fold_left_app.
  destruct (lrun_alive ops {| l_count := 0; l_reports := []; l_dead := false |} Ha eq_refl) as (H1 & H2 & H3).
  cbn [fold_left]. unfold lstep at 1. rewrite H1. cbn [l_reports l_count]. rewrite H3, H2. cbn. reflexivity.
Qed.

Corollary balanced_is_silent ops : alive_ops ops -> net ops = 0 -> assigned_over ops = [] ->
  l_reports (lrun (ops ++ [LDestroy])) = [].
Proof. intros Ha Hn Hm. rewrite leak_exact by assumption. rewrite Hn, Hm. reflexivity. Qed.

(* nothing is reported after destruction, whatever is attempted *)
Theorem destroyed_is_silent ops more : alive_ops ops ->
  l_reports (lrun (ops ++ [LDestroy] ++ more)) = l_reports (lrun (ops ++ [LDestroy])).
Proof.
  intros Ha. unfold lrun. rewrite !fold_left_app.
  set (s := fold_left lstep [LDestroy] (fold_left lstep ops _)).
  assert (Hd : l_dead s = true).
  { unfold s. cbn [fold_left]. destruct (lrun_alive ops {| l_count := 0; l_reports := []; l_dead := false |} Ha eq_refl) as (H1 & _).
    unfold lstep at 1. rewrite H1. reflexivity. }
  clearbody s. induction more as [|o more IH] in s, Hd |- *; cbn; [reflexivity|].
  assert (lstep s o = s) by (unfold lstep; rewrite Hd; reflexivity). rewrite H. apply IH. assumption.
Qed.

(* ---------- process-wide checker ---------- *)
Lemma gl_run_app a b : gl_run (a ++ b) = fold_left gl_step b (gl_run a).
Proof. unfold gl_run. apply fold_left_app. Qed.

Lemma gl_ctors k : forall s, fold_left gl_step (repeat GCounterCtor k) s = {| g_refs := (g_refs s + k)%nat; g_alloc := g_alloc s; g_reports := g_reports s |}.
Proof.
  induction k as [|k IH]; intros s; cbn [repeat fold_left].
  - destruct s; cbn. f_equal. lia.
  - rewrite IH. cbn [gl_step g_refs g_alloc g_reports]. f_equal. lia.
Qed.

Lemma gl_traffic body : forallb is_traffic body = true -> forall s,
  fold_left gl_step body s = {| g_refs := g_refs s; g_alloc := g_alloc s + gnet body; g_reports := g_reports s |}.
Proof.
  induction body as [|o tl IH]; intros Hb s; cbn [fold_left gnet].
  - destruct s; cbn. f_equal. lia.
  - cbn [forallb] in Hb. apply andb_prop in Hb. destruct Hb as [Ho Htl]. rewrite (IH Htl).
    destruct o; try discriminate; cbn [gl_step g_refs g_alloc g_reports]; f_equal; lia.
Qed.

Lemma gl_dtors k : forall s, (g_refs s = k)%nat -> (0 < k)%nat ->
  fold_left gl_step (repeat GCounterDtor k) s =
  {| g_refs := 0; g_alloc := g_alloc s; g_reports := g_reports s ++ (if g_alloc s =? 0 then [] else [g_alloc s]) |}.
Proof.
  induction k as [|k IH]; intros s Hr Hk; [lia|]. cbn [repeat fold_left].
  destruct k as [|k].
  - cbn [repeat fold_left gl_step]. rewrite Hr. cbn [pred Nat.eqb andb]. destruct (g_alloc s =? 0); reflexivity.
  - rewrite IH; [|cbn [gl_step g_refs]; rewrite Hr; reflexivity|lia]. cbn [gl_step g_refs g_alloc g_reports]. rewrite Hr. cbn [pred Nat.eqb andb].
    rewrite app_nil_r. reflexivity.
Qed.

(* static initialisation creates the k counter objects, the program allocates and releases through any number of
   allocator objects, static destruction destroys the counters: exactly one report, of the exact net, iff it is not zero *)
Theorem global_report_exact k body : (0 < k)%nat -> forallb is_traffic body = true ->
  g_reports (gl_run (repeat GCounterCtor k ++ body ++ repeat GCounterDtor k)) = if gnet body =? 0 then [] else [gnet body].
Proof.
  intros Hk Hb. rewrite gl_run_app, fold_left_app. unfold gl_run. rewrite gl_ctors. rewrite (gl_traffic body Hb).
  rewrite gl_dtors; cbn [g_refs g_alloc g_reports]; [|lia|exact Hk]. rewrite Z.add_0_l. reflexivity.
Qed.
