From Coq Require Import ZArith List Bool Lia.
From FM Require Import FixedStack FixedStackProofs ListLib Joint.
Import ListNotations.
Local Open Scope Z_scope.

(* pieces are stacked: every older piece ends at or before the start of every newer one *)
Definition pdisj (newer older : Z * Z) : Prop := fst older + snd older <= fst newer.

Record JInv (s : jst) : Prop := {
  ji_pos : 0 < j_obj s /\ 0 <= j_sT s /\ 0 <= j_cap s;
  ji_top : j_mem s <= j_top s <= j_end s;
  ji_in  : Forall (fun p => 0 <= snd p /\ j_mem s <= fst p /\ fst p + snd p <= j_top s) (j_pieces s);
  ji_dis : pairwise pdisj (j_pieces s) }.

Lemma j_init_inv obj sT cap : 0 < obj -> 0 <= sT -> 0 <= cap -> JInv (j_init obj sT cap).
Proof. intros. constructor; cbn; unfold j_mem, j_end; cbn; try lia; constructor. Qed.

Definition jop_ok (s : jst) (o : jop) : Prop :=
  match o with
  | JAlloc size al => 0 <= size /\ 0 < al
  | JBump n => 0 <= n /\ j_pieces s <> [] /\ (match j_pieces s with (p, sz) :: _ => p + sz = j_top s | [] => True end)
  | JDealloc ptr size => 0 <= size /\ (ptr + size = j_top s -> match j_pieces s with (p, sz) :: _ => p = ptr /\ sz = size | [] => False end)
  end.

(* every piece lies inside the object's single block, behind the object; pieces are pairwise disjoint *)
Theorem jstep_inv s o : JInv s -> jop_ok s o -> JInv (fst (jstep s o)).
Proof.
  intros [Hp Ht Hi Hd] Hok. destruct o as [size al|n|ptr size]; cbn [jstep].
  - destruct Hok as [Hs Hal].
    destruct (fs_alloc 0 (j_top s) (j_end s) size al) as [[p top']|] eqn:E; cbn [fst]; [|constructor; assumption].
    apply fs_alloc_spec in E; try lia. destruct E as (Hne & Hlo & Hhi & Hmod & Htop & Hend).
    constructor; cbn; unfold j_mem, j_end in *; cbn; try assumption; try lia.
    + constructor; [cbn; lia|]. eapply Forall_impl; [|exact Hi]. cbn. intros a Ha. lia.
    + split; [|assumption]. rewrite Forall_forall in *. intros a Ha. specialize (Hi a Ha). unfold pdisj; cbn in *. lia.
  - destruct Hok as (Hn & Hne & Hlast).
    destruct (Z.gtb_spec n (j_end s - j_top s)); cbn [fst]; [constructor; assumption|].
    destruct (j_pieces s) as [|[p sz] tl] eqn:Ep; [contradiction|].
    inversion Hi as [|? ? [H1 [H2 H3]] Hi']; subst. cbn in *. destruct Hd as [Hd1 Hd2].
    constructor; cbn; unfold j_mem, j_end in *; cbn; try assumption; try lia.
    + constructor; [cbn; lia|]. eapply Forall_impl; [|exact Hi']. cbn. intros a Ha. lia.
    + split; [|assumption]. rewrite Forall_forall in *. intros a Ha. specialize (Hd1 a Ha). specialize (Hi' a Ha). unfold pdisj in *; cbn in *. lia.
  - destruct Hok as (Hs & Hmatch). destruct (Z.eqb_spec (ptr + size) (j_top s)) as [E|E]; cbn [fst]; [|constructor; assumption].
    specialize (Hmatch E). destruct (j_pieces s) as [|[p sz] tl] eqn:Ep; [contradiction|]. destruct Hmatch as [-> ->].
    inversion Hi as [|? ? [H1 [H2 H3]] Hi']; subst. cbn in *. destruct Hd as [Hd1 Hd2].
    constructor; cbn; unfold j_mem, j_end in *; cbn; try assumption; try lia.
    rewrite Forall_forall in *. intros a Ha. specialize (Hd1 a Ha). specialize (Hi' a Ha). unfold pdisj in *; cbn in *.
    (* an older piece ends at or before the one being released, or it is empty *)
    lia.
Qed.

(* a served request is aligned, inside [obj + sizeof T, obj + sizeof T + cap) and disjoint from every earlier piece *)
Theorem jalloc_ok s size al p : JInv s -> 0 <= size -> 0 < al ->
  snd (jstep s (JAlloc size al)) = JOk p ->
  p mod al = 0 /\ j_mem s <= p /\ p + size <= j_end s /\ Forall (pdisj (p, size)) (j_pieces s).
Proof.
  intros [Hp Ht Hi Hd] Hs Hal. cbn [jstep].
  destruct (fs_alloc 0 (j_top s) (j_end s) size al) as [[q top']|] eqn:E; cbn [snd]; [|discriminate].
  intros H; injection H as ->. apply fs_alloc_spec in E; try lia. destruct E as (Hne & Hlo & Hhi & Hmod & Htop & Hend).
  split; [assumption|]. split; [lia|]. split; [lia|].
  rewrite Forall_forall in *. intros a Ha. specialize (Hi a Ha). unfold pdisj; cbn. lia.
Qed.

(* a request that does not fit throws and changes nothing; exactly fitting requests are served *)
Theorem jalloc_overflow_iff s size al : 0 < al -> j_top s <> 0 ->
  (snd (jstep s (JAlloc size al)) = JThrow <-> align_off (j_top s) al + size > j_end s - j_top s) /\
  (snd (jstep s (JAlloc size al)) = JThrow -> fst (jstep s (JAlloc size al)) = s).
Proof.
  intros Hal Hne. cbn [jstep].
  pose proof (fs_alloc_none_iff 0 (j_top s) (j_end s) size al) as N. rewrite !Z.add_0_r, !Z.add_0_l in N.
  destruct (fs_alloc 0 (j_top s) (j_end s) size al) as [[q top']|] eqn:E; cbn.
  - split; [|discriminate]. split; [discriminate|]. intros H. exfalso.
    assert (Some (q, top') = None) by (apply N; right; lia). discriminate.
  - split; [|reflexivity]. split; [|reflexivity]. intros _. destruct N as [N _]. destruct (N eq_refl) as [H|H]; [contradiction|lia].
Qed.

Theorem jbump_overflow s n : snd (jstep s (JBump n)) = JThrow <-> n > j_end s - j_top s.
Proof. cbn [jstep]. destruct (Z.gtb_spec n (j_end s - j_top s)); cbn; split; intros H0; try discriminate; try lia; reflexivity. Qed.

(* release: one call with the object's address and exactly the size it was allocated with, whatever was done in between *)
Theorem release_params_invariant : forall ops s, j_release_params (fold_left (fun st o => fst (jstep st o)) ops s) = j_release_params s.
Proof.
  induction ops as [|o ops IH]; intros s; cbn [fold_left]; [reflexivity|]. rewrite IH.
  destruct o as [size al|n|ptr size]; cbn [jstep].
  - destruct (fs_alloc 0 (j_top s) (j_end s) size al) as [[p top']|]; reflexivity.
  - destruct (n >? j_end s - j_top s); reflexivity.
  - destruct (ptr + size =? j_top s); reflexivity.
Qed.

Theorem release_params_are_allocation_params obj sT cap ops :
  j_release_params (fold_left (fun st o => fst (jstep st o)) ops (j_init obj sT cap)) = (obj, sT + cap).
Proof. rewrite release_params_invariant. unfold j_release_params, j_end, j_mem. cbn. f_equal. lia. Qed.

(* clone_joint asks for exactly the memory in use, which lies between 0 and the capacity *)
Theorem clone_size_bounds s : JInv s -> 0 <= j_clone_size s <= j_cap s.
Proof. intros [Hp Ht _ _]. unfold j_clone_size, j_mem, j_end in *. lia. Qed.
