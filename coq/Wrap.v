(* Fixed-width unsigned arithmetic on N: every C++ + - * << ~ is wrapped explicitly at its width. *)
From Coq Require Import NArith Bool Lia.
Local Open Scope N_scope.

Definition W64 : N := 2^64.
Definition wrap64 (x:N) : N := x mod 2^64.
Definition wrap32 (x:N) : N := x mod 2^32.
Definition wrap16 (x:N) : N := x mod 2^16.
Definition wrap8  (x:N) : N := x mod 2^8.

Definition wadd64 x y := wrap64 (x + y).
Definition wsub64 x y := wrap64 (x + 2^64 - wrap64 y).
Definition wmul64 x y := wrap64 (x * y).
Definition wnot64 x := 2^64 - 1 - wrap64 x.
Definition wneg64 x := wrap64 (2^64 - wrap64 x).
Definition wshl64 x s := wrap64 (N.shiftl x s).

Definition wadd32 x y := wrap32 (x + y).
Definition wsub32 x y := wrap32 (x + 2^32 - wrap32 y).
Definition wmul32 x y := wrap32 (x * y).
Definition wnot32 x := 2^32 - 1 - wrap32 x.
Definition wneg32 x := wrap32 (2^32 - wrap32 x).
Definition wshl32 x s := wrap32 (N.shiftl x s).

Definition wadd16 x y := wrap16 (x + y).
Definition wsub16 x y := wrap16 (x + 2^16 - wrap16 y).
Definition wmul16 x y := wrap16 (x * y).

Definition wadd8 x y := wrap8 (x + y).
Definition wsub8 x y := wrap8 (x + 2^8 - wrap8 y).
Definition wmul8 x y := wrap8 (x * y).

(* __builtin_clzll on a non-zero 64-bit value: number of leading zero bits *)
Definition clz64 (x:N) : N := 64 - N.size x.
