(* small_free_memory_list (src/detail/small_free_list.cpp): Exec model.  Chunks in list order (the list is kept ordered by
   address), each with its node memory, node count and free chain (first_free first); the two cursors alloc_chunk_ and
   dealloc_chunk_ as ring positions: 0 = the proxy base_, i+1 = chunk i. *)
From Coq Require Import ZArith List Bool Lia Arith.
From FM Require Import FixedStack SmallCarve InvalidRelease.
Import ListNotations.
Local Open Scope Z_scope.

Definition sm_cmo : Z := 32.      (* chunk_memory_offset, bridged to the generated constant in SmallListProofs *)
Definition sm_cmax : Z := 255.    (* chunk_max_nodes *)
Definition sm_calign : Z := 8.    (* alignof(chunk) *)

Record smlist := { sm_ns : Z; sm_chunks : list chunk; sm_ac : nat; sm_dc : nat }.

Definition sm_empty (ns : Z) : smlist := {| sm_ns := ns; sm_chunks := []; sm_ac := 0; sm_dc := 0 |}.
Definition sm_capacity (l : smlist) : Z := fold_right (fun c acc => Z.of_nat (length (c_free c)) + acc) 0 (sm_chunks l).

Fixpoint iota (n : nat) (from : Z) : list Z := match n with O => [] | S k => from :: iota k (from + 1) end.

(* the chunks insert() carves out of [mem, mem+size) *)
Fixpoint full_chunks (k : nat) (mem stride : Z) : list chunk :=
  match k with
  | O => []
  | S k' => {| c_mem := mem + sm_cmo; c_nodes := sm_cmax; c_free := iota 255 0 |} :: full_chunks k' (mem + stride) stride
  end.
Definition carve (ns mem size : Z) : list chunk :=
  let stride := s_stride sm_cmo sm_cmax sm_calign ns in
  let k := s_nochunks sm_cmo sm_cmax sm_calign ns size in
  let rn := s_rem_nodes sm_cmo sm_cmax sm_calign ns size in
  full_chunks (Z.to_nat k) mem stride ++
  (if sm_cmo + ns <=? s_rem sm_cmo sm_cmax sm_calign ns size
   then [{| c_mem := mem + k * stride + sm_cmo; c_nodes := rn; c_free := iota (Z.to_nat rn) 0 |}] else []).

(* insert_chunks keeps the list ordered by address: the new chunks go in front of the first chunk above them *)
Fixpoint insert_sorted_chunks (cs new : list chunk) (at_ : Z) : list chunk :=
  match cs with
  | [] => new
  | c :: tl => if at_ <? c_mem c then new ++ cs else c :: insert_sorted_chunks tl new at_
  end.
Fixpoint position_of (cs : list chunk) (at_ : Z) : nat :=
  match cs with [] => O | c :: tl => if at_ <? c_mem c then O else S (position_of tl at_) end.

(* a cursor that pointed at chunk i keeps pointing at the same chunk when chunks are inserted in front of it *)
Definition shift_cursor (cur pos count : nat) : nat := if (cur =? 0)%nat then 0%nat else if Nat.leb (S pos) cur then (cur + count)%nat else cur.

Definition sm_insert (l : smlist) (mem size : Z) : smlist :=
  let new := carve (sm_ns l) mem size in
  let pos := position_of (sm_chunks l) (mem + sm_cmo) in
  {| sm_ns := sm_ns l; sm_chunks := insert_sorted_chunks (sm_chunks l) new (mem + sm_cmo);
     sm_ac := shift_cursor (sm_ac l) pos (length new); sm_dc := shift_cursor (sm_dc l) pos (length new) |}.

(* ring positions: 0 = proxy, i+1 = chunk i *)
Definition ring_size (l : smlist) : nat := S (length (sm_chunks l)).
Definition has_room (l : smlist) (pos : nat) : bool :=
  match pos with O => false | S i => match nth_error (sm_chunks l) i with Some c => negb (match c_free c with [] => true | _ => false end) | None => false end end.
Definition ring_next (l : smlist) (p : nat) : nat := if Nat.eqb (S p) (ring_size l) then 0%nat else S p.
Definition ring_prev (l : smlist) (p : nat) : nat := match p with O => (ring_size l - 1)%nat | S q => q end.

(* find_chunk_impl(1): the allocation cursor, the deallocation cursor, then outwards from the allocation cursor in both directions *)
Fixpoint search_out (fuel : nat) (l : smlist) (f b : nat) : option nat :=
  match fuel with
  | O => None
  | S k => if has_room l f then Some f else if has_room l b then Some b else search_out k l (ring_next l f) (ring_prev l b)
  end.
Definition find_chunk (l : smlist) : option nat :=
  if has_room l (sm_ac l) then Some (sm_ac l)
  else if has_room l (sm_dc l) then Some (sm_dc l)
  else search_out (ring_size l) l (ring_next l (sm_ac l)) (ring_prev l (sm_ac l)).

Fixpoint upd_chunk (cs : list chunk) (i : nat) (c : chunk) : list chunk :=
  match cs, i with
  | [], _ => []
  | _ :: tl, O => c :: tl
  | x :: tl, S k => x :: upd_chunk tl k c
  end.

Definition sm_alloc (l : smlist) : option (Z * smlist) :=
  match find_chunk l with
  | Some (S i) =>
      match nth_error (sm_chunks l) i with
      | Some c => match c_free c with
                  | idx :: rest =>
                      Some (c_mem c + idx * sm_ns l,
                            {| sm_ns := sm_ns l; sm_chunks := upd_chunk (sm_chunks l) i {| c_mem := c_mem c; c_nodes := c_nodes c; c_free := rest |};
                               sm_ac := S i; sm_dc := sm_dc l |})
                  | [] => None
                  end
      | None => None
      end
  | _ => None
  end.

Fixpoint chunk_index (ns : Z) (cs : list chunk) (p : Z) : option nat :=
  match cs with
  | [] => None
  | c :: tl => if c_from ns c p then Some O else match chunk_index ns tl p with Some i => Some (S i) | None => None end
  end.

(* deallocate of a valid node (the checks are InvalidRelease.s_dealloc) *)
Definition sm_dealloc (l : smlist) (p : Z) : option smlist :=
  match chunk_index (sm_ns l) (sm_chunks l) p with
  | Some i =>
      match nth_error (sm_chunks l) i with
      | Some c => Some {| sm_ns := sm_ns l;
                          sm_chunks := upd_chunk (sm_chunks l) i {| c_mem := c_mem c; c_nodes := c_nodes c; c_free := (p - c_mem c) / sm_ns l :: c_free c |};
                          sm_ac := sm_ac l; sm_dc := S i |}
      | None => None
      end
  | None => None
  end.

(* ---------- histories: the list together with the nodes its user holds ---------- *)
Record smg := { g_l : smlist; g_live : list Z }.
Inductive sm_op := GIns (mem size : Z) | GAlloc | GDealloc (p : Z).
Definition c_end_b (ns : Z) (c : chunk) : Z := c_mem c + c_nodes c * ns.
Fixpoint remove_z (p : Z) (l : list Z) : list Z := match l with [] => [] | x :: tl => if x =? p then tl else x :: remove_z p tl end.
(* preconditions of the interface: insert gets memory that overlaps no chunk, allocate is called on a non-empty list,
   deallocate gets a node that is out *)
Definition gstep (g : smg) (o : sm_op) : option smg :=
  let l := g_l g in
  match o with
  | GIns mem size =>
      if (0 <? size) && forallb (fun c => (c_end_b (sm_ns l) c <=? mem) || (mem + size <=? c_mem c - sm_cmo)) (sm_chunks l)
      then Some {| g_l := sm_insert l mem size; g_live := g_live g |} else None
  | GAlloc =>
      if 0 <? sm_capacity l
      then match sm_alloc l with Some (p, l') => Some {| g_l := l'; g_live := p :: g_live g |} | None => None end
      else None
  | GDealloc p =>
      if existsb (Z.eqb p) (g_live g)
      then match sm_dealloc l p with Some l' => Some {| g_l := l'; g_live := remove_z p (g_live g) |} | None => None end
      else None
  end.
Fixpoint grun (g : smg) (os : list sm_op) : option smg :=
  match os with [] => Some g | o :: tl => match gstep g o with Some g' => grun g' tl | None => None end end.

(* ---------- deallocate's chunk search: find_chunk_impl(node) ---------- *)
(* The chunk is looked for at the deallocation cursor, at the allocation cursor, and then in the half of the list on the
   node's side of the deallocation cursor, walking inwards from both ends of that half.  base: address of the list object
   (of the proxy chunk_base), which the half test compares with when the cursor is the proxy. *)
Inductive fres := FFound (pos : nat) | FNotFound | FNoHalf | FOutOfFuel.

Definition from_pos (l : smlist) (p : Z) (pos : nat) : bool :=
  match pos with O => false | S i => match nth_error (sm_chunks l) i with Some c => c_from (sm_ns l) c p | None => false end end.

Fixpoint walk_in (fuel : nat) (l : smlist) (p : Z) (first last : nat) : fres :=
  match fuel with
  | O => FOutOfFuel
  | S k => if from_pos l p first then FFound first else if from_pos l p last then FFound last
           else if Nat.eqb first last || Nat.eqb (ring_next l first) last then FNotFound
           else walk_in k l p (ring_next l first) (ring_prev l last)
  end.

Definition pos_addr (base : Z) (l : smlist) (pos : nat) : Z :=
  match pos with O => base | S i => match nth_error (sm_chunks l) i with Some c => c_mem c - sm_cmo | None => base end end.

Definition sm_find_node (base : Z) (l : smlist) (p : Z) : fres :=
  if from_pos l p (sm_dc l) then FFound (sm_dc l)
  else if from_pos l p (sm_ac l) then FFound (sm_ac l)
  else if pos_addr base l (sm_dc l) <? p then walk_in (ring_size l) l p (ring_next l (sm_dc l)) (ring_prev l 0)
  else if p <? pos_addr base l (sm_dc l) then walk_in (ring_size l) l p (ring_next l 0) (ring_prev l (sm_dc l))
  else FNoHalf.

(* deallocate(mem) as the code runs it: the chunk search above, then the stride and double-release checks, then the push *)
Inductive smres := MOk (l : smlist) | MReported | MAbort | MCrash | MHang.
Definition sm_deallocate (base : Z) (ptr_check dbl : bool) (l : smlist) (p : Z) : smres :=
  match sm_find_node base l p with
  | FFound (S i) =>
      match nth_error (sm_chunks l) i with
      | Some c =>
          let off := p - c_mem c in
          if ptr_check && negb (off mod sm_ns l =? 0) then MReported
          else if ptr_check && dbl && existsb (Z.eqb (off / sm_ns l)) (c_free c) then MReported
          else MOk {| sm_ns := sm_ns l;
                      sm_chunks := upd_chunk (sm_chunks l) i {| c_mem := c_mem c; c_nodes := c_nodes c; c_free := off / sm_ns l :: c_free c |};
                      sm_ac := sm_ac l; sm_dc := S i |}
      | None => MCrash
      end
  | FFound O => MCrash
  | FNotFound => if ptr_check then MReported else MCrash   (* chunk == nullptr is dereferenced when the check is compiled out *)
  | FNoHalf => MAbort                                        (* FOONATHAN_MEMORY_UNREACHABLE *)
  | FOutOfFuel => MHang
  end.
