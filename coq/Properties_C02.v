(* C02 -- returned memory honours the requested size, count and alignment.  Statements only. *)
From Coq Require Import ZArith NArith List Bool.
From FM Require Import GenArith FixedStack FixedStackProofs SmallCarve PoolSpec SlotProofs ListLib PoolSpecProofs PoolAlignProofs Stack StackProofs Iteration IterationProofs InvalidRelease SmallList SmallRefine OrderedList OrderedRefine CollExec CollExecProofs CollInst CollSizes CollInstProofs UnorderedList UnorderedRefine Arena.
Import ListNotations.
Local Open Scope Z_scope.

(* the bump allocator behind stacks, iteration regions, static storage, joint memory and pool collections:
   a served request is non-null, aligned to ANY positive alignment asked for (also above max_align_t),
   starts after the front fence, and request + back fence end inside the memory given *)
Theorem C02_bump_allocation : forall fence cur e size al p top',
  0 < al -> 0 <= fence -> 0 <= size ->
  fs_alloc fence cur e size al = Some (p, top') ->
  cur <> 0 /\ cur + fence <= p /\ p < cur + fence + al /\ p mod al = 0 /\ top' = p + size + fence /\ top' <= e.
Proof. exact fs_alloc_spec. Qed.
Print Assumptions C02_bump_allocation.

(* the alignment padding used there is the align_offset of the source, translated on this run *)
Theorem C02_padding_is_source_align_offset : forall k a, (k < 64)%N -> 0 <= a < 2^64 ->
  Z.of_N (align_offset (Z.to_N a) (2^k)%N) = align_off a (2^(Z.of_N k)).
Proof. exact align_off_is_kernel. Qed.
Print Assumptions C02_padding_is_source_align_offset.

(* pools and collections: a successful request for `bytes` is served by k = ceil(bytes / node size) nodes that are
   consecutive in memory (node i at p + i * node size), all handed out, covering the bytes *)
Theorem C02_pool_result_covers_request : forall s try_ array ns bytes evs p s', PoolSpecProofs.Inv s -> 0 <= bytes ->
  acc_op s (OAlloc try_ array ns bytes) evs (ObsOk p) = Some s' ->
  exists l', find_list ns (a_lists s') = Some l' /\
    let k := slots_needed ns bytes in
    1 <= k /\ bytes <= k * ns /\
    (forall i, (i < Z.to_nat k)%nat -> In (p + Z.of_nat i * ns) (live_slots l')) /\
    In (p, k) (l_allocs l').
Proof. exact alloc_result. Qed.
Print Assumptions C02_pool_result_covers_request.

(* every node a pool hands out -- first block or grown block, intrusive or small list, first or later chunk,
   any node size -- is aligned to alignment_for(node size), the alignment the pool promises *)
Theorem C02_pool_nodes_aligned : forall s l a, PoolSpecProofs.Inv s -> AInv s -> In l (a_lists s) -> l_ns l < 2^64 ->
  In a (live_slots l) -> a mod al_of (l_ns l) = 0.
Proof. exact live_slot_aligned. Qed.
Print Assumptions C02_pool_nodes_aligned.

Theorem C02_pool_alignment_invariant_every_history : forall (h : list PoolSpecProofs.step) (s s' : ast),
  PoolSpecProofs.Inv s -> AInv s -> PoolSpecProofs.run s h = Some s' -> AInv s'.
Proof. exact run_ainv. Qed.
Print Assumptions C02_pool_alignment_invariant_every_history.

(* memory_stack: aligned, inside a block it holds, also right after growth *)
Theorem C02_stack_result : forall fence, 0 <= fence -> forall s size al ans s' out calls w,
  SInv s -> 0 <= size -> 0 < al -> answer_ok s ans ->
  step fence s (SAlloc size al) ans = (s', out, calls, w) ->
  SInv s' /\
  match out with
  | SOk p => p <> 0 /\ p mod al = 0 /\
             (exists b, In b (s_used s') /\ b_mem b <= p /\ p + size <= b_end b) /\
             Forall (adisj (p, size)) (s_live s) /\ s_live s' = (p, size) :: s_live s
  | SThrowUpstream | SThrowFixed | SThrowBadSize => s_live s' = s_live s
  | _ => False
  end.
Proof. exact alloc_spec. Qed.
Print Assumptions C02_stack_result.

(* the Exec models of memory_pool_collection (CollExec.v, all three list types): a served request is backed by
   slots_needed(ns, bytes) whole nodes of the serving list, consecutive from the returned address, all out afterwards and
   covering the requested bytes (for an array, element i therefore lies at base + i*size inside them) *)
Theorem C02_collection_exec_served_request_covered : forall log2 s sp o s' x evs, UCPR s sp -> ucoll_answer_ok log2 s sp o ->
  uc_step log2 s o = Some (s', ObsOk x, evs) -> forall try_ arr ns bytes, cc_spec_op (coll_bkt log2) o = OAlloc try_ arr ns bytes -> 0 <= bytes ->
  exists sp', UCPR s' sp' /\ served_covered sp' ns bytes x.
Proof. exact ucoll_served_request_covered. Qed.
Print Assumptions C02_collection_exec_served_request_covered.
Theorem C02_ordered_collection_exec_served_request_covered : forall log2 s sp o s' x evs, OCPR s sp -> ocoll_answer_ok log2 s sp o ->
  oc_step log2 s o = Some (s', ObsOk x, evs) -> forall try_ arr ns bytes, cc_spec_op (coll_bkt log2) o = OAlloc try_ arr ns bytes -> 0 <= bytes ->
  exists sp', OCPR s' sp' /\ served_covered sp' ns bytes x.
Proof. exact ocoll_served_request_covered. Qed.
Print Assumptions C02_ordered_collection_exec_served_request_covered.
Theorem C02_small_collection_exec_served_request_covered : forall log2 s sp o s' x evs, SCPR s sp -> scoll_answer_ok log2 s sp o ->
  sc_step log2 s o = Some (s', ObsOk x, evs) -> forall try_ arr ns bytes, cc_spec_op (coll_bkt_me 1%N log2) o = OAlloc try_ arr ns bytes -> 0 <= bytes ->
  exists sp', SCPR s' sp' /\ served_covered sp' ns bytes x.
Proof. exact scoll_served_request_covered. Qed.
Print Assumptions C02_small_collection_exec_served_request_covered.
