(* C10: allocator-aware containers over std_allocator.
   (1) handles: what a std_allocator refers to, and when two compare equal;
   (2) the container protocol of the standard (construct, copy, move, assign, swap, splice) with the propagation traits as
       parameters: which allocator every node is taken from and given back to;
   (3) node sizes: the generated base constants against the node layouts the containers use. *)
From Coq Require Import ZArith List Bool Arith Lia.
Import ListNotations.

(* ---------- (1) handles ---------- *)
Inductive handle :=
  | HRef (obj : nat)          (* std_allocator over a stateful allocator: refers to the object *)
  | HStateless (ty : nat)     (* over a stateless allocator type: every object of the type is the same resource *)
  | HAny (obj : nat).         (* any_std_allocator: type-erased reference to an object *)

(* the resource memory comes from / goes back to *)
Definition resource (h : handle) : nat * nat :=
  match h with HRef o => (0, o) | HStateless t => (1, t) | HAny o => (0, o) end.
Definition same_resource (a b : handle) : bool :=
  Nat.eqb (fst (resource a)) (fst (resource b)) && Nat.eqb (snd (resource a)) (snd (resource b)).

(* operator== as implemented: by address of the referenced object; stateless always equal; type-erased: by the referenced object *)
Definition heq (any_by_object : bool) (a b : handle) : bool :=
  match a, b with
  | HRef x, HRef y => Nat.eqb x y
  | HStateless t, HStateless u => Nat.eqb t u          (* same template instantiation only *)
  | HAny x, HAny y => if any_by_object then Nat.eqb x y else true
  | _, _ => false
  end.

(* ---------- (2) container protocol ---------- *)
Record traits := { pocca : bool; pocma : bool; pocs : bool }.   (* propagate_on_container_{copy_assignment, move_assignment, swap} *)

Record cont := { k_alloc : nat; k_nodes : list nat }.   (* allocator object the container refers to; origin allocator of each node it holds *)

Inductive cop :=
  | CInsert (i : nat)
  | CErase (i : nat)
  | CCopyAssign (src dst : nat)
  | CMoveAssign (src dst : nat)
  | CSwap (a b : nat)
  | CSplice (src dst : nat)       (* list::splice: nodes move; the standard requires equal allocators *)
  | CClear (i : nat).

Definition cget (w : list cont) (i : nat) : cont := nth i w {| k_alloc := 0; k_nodes := [] |}.
Fixpoint cset (w : list cont) (i : nat) (c : cont) : list cont :=
  match w, i with
  | [], _ => []
  | _ :: tl, O => c :: tl
  | x :: tl, S k => x :: cset tl k c
  end.

(* a release: (allocator object it is handed to, origin of the node) *)
Definition rel := (nat * nat)%type.
Definition releases_of (c : cont) : list rel := map (fun o => (k_alloc c, o)) (k_nodes c).
Definition fresh (a n : nat) : list nat := repeat a n.

Definition kstep (t : traits) (w : list cont) (o : cop) : option (list cont * list rel) :=
  match o with
  | CInsert i => if Nat.ltb i (length w) then let c := cget w i in Some (cset w i {| k_alloc := k_alloc c; k_nodes := k_alloc c :: k_nodes c |}, []) else None
  | CErase i => if Nat.ltb i (length w) then
                  let c := cget w i in
                  match k_nodes c with
                  | [] => Some (w, [])
                  | n :: tl => Some (cset w i {| k_alloc := k_alloc c; k_nodes := tl |}, [(k_alloc c, n)])
                  end else None
  | CClear i => if Nat.ltb i (length w) then let c := cget w i in Some (cset w i {| k_alloc := k_alloc c; k_nodes := [] |}, releases_of c) else None
  | CCopyAssign s d =>
      if Nat.ltb s (length w) && Nat.ltb d (length w) && negb (Nat.eqb s d) then
        let cs := cget w s in let cd := cget w d in
        (* old nodes go back through the old allocator; the copies come from the allocator the target has afterwards *)
        let a' := if pocca t then k_alloc cs else k_alloc cd in
        Some (cset w d {| k_alloc := a'; k_nodes := fresh a' (length (k_nodes cs)) |}, releases_of cd)
      else None
  | CMoveAssign s d =>
      if Nat.ltb s (length w) && Nat.ltb d (length w) && negb (Nat.eqb s d) then
        let cs := cget w s in let cd := cget w d in
        if pocma t || Nat.eqb (k_alloc cs) (k_alloc cd) then
          (* the nodes change hands together with the allocator *)
          Some (cset (cset w d {| k_alloc := if pocma t then k_alloc cs else k_alloc cd; k_nodes := k_nodes cs |}) s {| k_alloc := k_alloc cs; k_nodes := [] |}, releases_of cd)
        else
          (* element-wise move into nodes of the target's own allocator; the source keeps (and later frees) its nodes *)
          Some (cset w d {| k_alloc := k_alloc cd; k_nodes := fresh (k_alloc cd) (length (k_nodes cs)) |}, releases_of cd)
      else None
  | CSwap a b =>
      if Nat.ltb a (length w) && Nat.ltb b (length w) && negb (Nat.eqb a b) then
        let ca := cget w a in let cb := cget w b in
        (* node pointers are always exchanged; the allocators only if the trait says so *)
        Some (cset (cset w a {| k_alloc := if pocs t then k_alloc cb else k_alloc ca; k_nodes := k_nodes cb |})
                   b {| k_alloc := if pocs t then k_alloc ca else k_alloc cb; k_nodes := k_nodes ca |}, [])
      else None
  | CSplice s d =>
      if Nat.ltb s (length w) && Nat.ltb d (length w) && negb (Nat.eqb s d) then
        let cs := cget w s in let cd := cget w d in
        if Nat.eqb (k_alloc cs) (k_alloc cd) then
          Some (cset (cset w d {| k_alloc := k_alloc cd; k_nodes := k_nodes cs ++ k_nodes cd |}) s {| k_alloc := k_alloc cs; k_nodes := [] |}, [])
        else None     (* precondition of splice violated: not part of any valid program *)
      else None
  end.

Fixpoint krun (t : traits) (w : list cont) (os : list cop) : option (list cont * list rel) :=
  match os with
  | [] => Some (w, [])
  | o :: tl => match kstep t w o with
               | None => None
               | Some (w', r) => match krun t w' tl with Some (w'', r') => Some (w'', r ++ r') | None => None end
               end
  end.

Definition cont_ok (c : cont) : bool := forallb (Nat.eqb (k_alloc c)) (k_nodes c).
Definition world_ok (w : list cont) : bool := forallb cont_ok w.
Definition rel_ok (r : rel) : bool := Nat.eqb (fst r) (snd r).

(* ---------- (3) node sizes ---------- *)
(* X_node_size<T> = round_up(base[alignof T] + sizeof T, alignof(void* ) = 8); a node as the container lays it out:
   header bytes, padding up to alignof T, the value, the whole rounded up to the node's alignment *)
Local Open Scope Z_scope.
Definition round_up (x a : Z) : Z := (x + a - 1) / a * a.
Definition node_layout (header halign sizeT alignT : Z) : Z :=
  let al := Z.max halign alignT in round_up (round_up header alignT + sizeT) al.
Definition promised (base sizeT : Z) : Z := round_up (base + sizeT) 8.
