(* the table of list node sizes of a collection: strictly increasing from min_element_size and below 2^64 *)
From Coq Require Import ZArith NArith List Bool Lia.
From FM Require Import CollInst.
Import ListNotations.
Local Open Scope Z_scope.

Fixpoint incb (lo : Z) (l : list Z) : bool := match l with [] => true | x :: tl => (lo <? x) && incb x tl end.
Definition sizes_okb (l : list Z) : bool := incb 7 l && forallb (fun x => x <? 18446744073709551616) l && negb (Nat.eqb (length l) 0).
Lemma incb_spec : forall l lo, incb lo l = true -> Forall (fun x => lo < x) l /\ NoDup l.
Proof.
  induction l as [|x tl IH]; intros lo H; cbn in H; [split; constructor|]. apply andb_true_iff in H as [H1 H2]. apply Z.ltb_lt in H1.
  destruct (IH x H2) as [Hf Hn]. split.
  - constructor; [assumption|]. eapply Forall_impl; [|exact Hf]. cbn. intros; lia.
  - constructor; [|assumption]. intros Hin. rewrite Forall_forall in Hf. specialize (Hf x Hin). lia.
Qed.
Lemma sizes_ok_spec l : sizes_okb l = true -> NoDup l /\ Forall (fun x => 8 <= x < 2^64) l /\ (0 < length l)%nat.
Proof.
  unfold sizes_okb. intros H. apply andb_true_iff in H as [H H3]. apply andb_true_iff in H as [H1 H2]. destruct (incb_spec _ _ H1) as [Hf Hn].
  split; [exact Hn|]. split.
  - rewrite forallb_forall in H2. rewrite Forall_forall in *. intros x Hx. specialize (Hf x Hx). specialize (H2 x Hx). apply Z.ltb_lt in H2. change (2^64) with 18446744073709551616. lia.
  - destruct l; [discriminate|cbn; lia].
Qed.

(* the size table is strictly increasing from min_element_size and below 2^64 for every maximum up to 256, both policies *)
Theorem coll_sizes_ok_upto_256 : forall log2 max, 1 <= max <= 256 -> sizes_okb (coll_sizes log2 max) = true.
Proof.
  assert (H : forallb (fun b => forallb (fun i => sizes_okb (coll_sizes b (Z.of_nat i))) (seq 1 256)) [true; false] = true) by (vm_compute; reflexivity).
  intros log2 max Hm. rewrite forallb_forall in H. assert (Hb : In log2 [true; false]) by (destruct log2; cbn; auto).
  specialize (H log2 Hb). rewrite forallb_forall in H. replace max with (Z.of_nat (Z.to_nat max)) by lia. apply H. apply in_seq. lia.
Qed.


(* bucket selection against the size table: every supported size is served by a list of the table whose nodes are large enough,
   and no list's nodes exceed the maximum the array reports *)
Definition bucket_table_okb (log2 : bool) (max : Z) : bool :=
  let sizes := coll_sizes log2 max in let mx := coll_max log2 max in
  (0 <? mx) && forallb (fun x => x <=? mx) sizes &&
  forallb (fun i => let size := Z.of_nat i in (size <=? coll_bkt log2 size) && existsb (Z.eqb (coll_bkt log2 size)) sizes) (seq 1 (Z.to_nat mx)).
Theorem bucket_table_ok_upto_64 : forall log2 max, 1 <= max <= 64 -> bucket_table_okb log2 max = true.
Proof.
  assert (H : forallb (fun b => forallb (fun i => bucket_table_okb b (Z.of_nat i)) (seq 1 64)) [true; false] = true) by (vm_compute; reflexivity).
  intros log2 max Hm. rewrite forallb_forall in H. assert (Hb : In log2 [true; false]) by (destruct log2; cbn; auto).
  specialize (H log2 Hb). rewrite forallb_forall in H. replace max with (Z.of_nat (Z.to_nat max)) by lia. apply H. apply in_seq. lia.
Qed.
