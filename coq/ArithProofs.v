(* Characterisation of the generated arithmetic kernel (GenArith.v is regenerated from the C++ source on
   every run; these proofs are then re-checked against it). *)
From Coq Require Import NArith ZArith Bool Lia ZifyN ZifyBool.
From FM Require Import Wrap Bits GenArith ArithModel.
Local Open Scope N_scope.
Ltac Zify.zify_post_hook ::= Z.div_mod_to_equations.

Lemma max_alignment_16 : max_alignment = 16. Proof. reflexivity. Qed.

(* ---------- is_valid_alignment ---------- *)
Lemma is_valid_alignment_spec x : x < 2^64 ->
  (is_valid_alignment x = true <-> exists k, x = 2^k).
Proof.
  intros Hx. unfold is_valid_alignment.
  destruct (N.eq_dec x 0) as [->|Hx0].
  - cbn. split; [discriminate|]. intros [k Hk]. pose proof (pow2_pos k). lia.
  - rewrite wsub64_le by lia.
    replace (negb (x =? 0)) with true by (symmetry; apply negb_true_iff, N.eqb_neq; assumption).
    cbn [andb]. rewrite N.eqb_eq. apply pow2_test. lia.
Qed.

Lemma is_valid_alignment_pow2 k : k < 64 -> is_valid_alignment (2^k) = true.
Proof. intros. apply is_valid_alignment_spec; [apply pow2_lt_64; assumption|exists k; reflexivity]. Qed.

(* ---------- round_up_to_multiple_of_alignment ---------- *)
Lemma wsub_wadd_1 s a : s < 2^64 -> a < 2^64 -> 1 <= a ->
  wsub64 (wadd64 s a) 1 = (s + a + 2^64 - 1) mod 2^64.
Proof.
  intros Hs Ha H1. unfold wsub64, wadd64. rewrite (wrap64_small 1) by (cbn; lia). unfold wrap64.
  replace ((s + a) mod 2^64 + 2^64 - 1) with ((s + a) mod 2^64 + (2^64 - 1)) by lia.
  rewrite N.add_mod_idemp_l by (apply N.pow_nonzero; lia). f_equal. lia.
Qed.

Lemma mask_of_pow2 k : k < 64 -> wnot64 (wsub64 (2^k) 1) = 2^64 - 2^k.
Proof.
  intros Hk. pose proof (pow2_pos k). pose proof (pow2_lt_64 k Hk).
  rewrite wsub64_le by lia. rewrite wnot64_small by lia. lia.
Qed.

(* the complete characterisation, wrap-around included *)
Theorem round_up_wrap_char k size : k < 64 -> size < 2^64 ->
  round_up_to_multiple_of_alignment size (2^k) =
    let t := (size + 2^k + 2^64 - 1) mod 2^64 in t - t mod 2^k.
Proof.
  intros Hk Hs. pose proof (pow2_pos k). pose proof (pow2_lt_64 k Hk).
  unfold round_up_to_multiple_of_alignment.
  rewrite wsub_wadd_1 by lia. rewrite mask_of_pow2 by assumption.
  cbv zeta. apply land_pow2_mask; [assumption|]. apply N.mod_lt. apply N.pow_nonzero; lia.
Qed.

Theorem round_up_spec k size : k < 64 -> size + 2^k <= 2^64 ->
  let r := round_up_to_multiple_of_alignment size (2^k) in
  r mod 2^k = 0 /\ size <= r /\ r < size + 2^k.
Proof.
  intros Hk Hs. pose proof (pow2_pos k). pose proof (pow2_lt_64 k Hk).
  cbv zeta. rewrite round_up_wrap_char by lia. cbv zeta.
  replace ((size + 2^k + 2^64 - 1) mod 2^64) with (size + 2^k - 1).
  2:{ replace (size + 2^k + 2^64 - 1) with ((size + 2^k - 1) + 1 * 2^64) by lia.
      rewrite N.mod_add by (apply N.pow_nonzero; lia). symmetry. apply N.mod_small. lia. }
  set (a := 2^k) in *. clearbody a. clear Hk.
  assert (Ha : a <> 0) by lia.
  pose proof (N.div_mod (size + a - 1) a Ha) as Hdm.
  pose proof (N.mod_lt (size + a - 1) a Ha) as Hlt.
  set (q := (size + a - 1) / a) in *. set (r := (size + a - 1) mod a) in *.
  replace (size + a - 1 - r) with (q * a) by lia.
  split; [apply N.mod_mul; assumption|]. nia.
Qed.

(* least multiple: nothing smaller that is >= size is a multiple *)
Theorem round_up_least k size m : k < 64 -> size + 2^k <= 2^64 ->
  size <= m -> m mod 2^k = 0 -> round_up_to_multiple_of_alignment size (2^k) <= m.
Proof.
  intros Hk Hs Hm Hmod. pose proof (round_up_spec k size Hk Hs) as (H1 & H2 & H3). cbv zeta in *.
  set (r := round_up_to_multiple_of_alignment size (2^k)) in *. clearbody r.
  pose proof (pow2_pos k). set (a := 2^k) in *. clearbody a.
  assert (Ha : a <> 0) by lia.
  pose proof (N.div_mod r a Ha). pose proof (N.div_mod m a Ha). rewrite H1 in *. rewrite Hmod in *.
  destruct (N.le_gt_cases r m) as [|Hgt]; [assumption|exfalso].
  assert (m / a < r / a) by nia. nia.
Qed.

(* ---------- align_offset ---------- *)
Theorem align_offset_spec k a : k < 64 -> a < 2^64 ->
  align_offset a (2^k) = (2^k - a mod 2^k) mod 2^k.
Proof.
  intros Hk Ha. pose proof (pow2_pos k). pose proof (pow2_lt_64 k Hk).
  unfold align_offset. rewrite wsub64_le by lia. rewrite land_low_mask. cbv zeta.
  assert (Hne : 2^k <> 0) by lia. pose proof (N.mod_lt a (2^k) Hne) as Hlt.
  set (m := a mod 2^k) in *.
  destruct (N.eqb_spec m 0) as [E|E]; cbn [negb].
  - rewrite E, N.sub_0_r, N.mod_same by assumption. reflexivity.
  - rewrite wsub64_le by lia. symmetry. apply N.mod_small. lia.
Qed.

Theorem align_offset_aligns k a : k < 64 -> a < 2^64 ->
  let d := align_offset a (2^k) in (a + d) mod 2^k = 0 /\ d < 2^k.
Proof.
  intros Hk Ha. cbv zeta. rewrite align_offset_spec by assumption.
  pose proof (pow2_pos k). set (al := 2^k) in *. clearbody al.
  assert (Hne : al <> 0) by lia.
  split; [|apply N.mod_lt; assumption].
  pose proof (N.mod_lt a al Hne). pose proof (N.div_mod a al Hne).
  destruct (N.eq_dec (a mod al) 0) as [E|E].
  - rewrite E, N.sub_0_r, N.mod_same, N.add_0_r by assumption. assumption.
  - rewrite (N.mod_small (al - a mod al)) by lia.
    replace (a + (al - a mod al)) with ((a / al + 1) * al) by lia.
    apply N.mod_mul. assumption.
Qed.

Theorem align_offset_least k a d' : k < 64 -> a < 2^64 ->
  (a + d') mod 2^k = 0 -> align_offset a (2^k) <= d'.
Proof.
  intros Hk Ha Hd. rewrite align_offset_spec by assumption.
  pose proof (pow2_pos k). set (al := 2^k) in *. clearbody al.
  assert (Hne : al <> 0) by lia.
  pose proof (N.mod_lt a al Hne). pose proof (N.div_mod a al Hne).
  pose proof (N.div_mod (a + d') al Hne) as Hd2. rewrite Hd in Hd2.
  destruct (N.eq_dec (a mod al) 0) as [E|E].
  - rewrite E, N.sub_0_r, N.mod_same by assumption. lia.
  - rewrite (N.mod_small (al - a mod al)) by lia.
    set (q := a / al) in *. set (r := a mod al) in *. set (q' := (a + d') / al) in *.
    assert (q < q') by nia. nia.
Qed.

(* ---------- is_aligned ---------- *)
Theorem is_aligned_spec k a : k < 64 -> a < 2^64 ->
  (is_aligned a (2^k) = true <-> a mod 2^k = 0).
Proof.
  intros Hk Ha. pose proof (pow2_pos k). pose proof (pow2_lt_64 k Hk).
  unfold is_aligned. cbv zeta. rewrite wsub64_le by lia. rewrite land_low_mask. apply N.eqb_eq.
Qed.

(* ---------- alignment_for ---------- *)
Theorem alignment_for_spec s k u : s < 2^64 -> s = 2^k * u -> N.odd u = true ->
  alignment_for s = N.min (2^k) 16.
Proof.
  intros Hs Hd Hu.
  assert (Hu1 : 1 <= u). { destruct (N.eq_dec u 0) as [->|]; [discriminate Hu|lia]. }
  pose proof (pow2_pos k).
  assert (Hs1 : 1 <= s) by nia.
  unfold alignment_for. rewrite wsub64_le by lia. rewrite wnot64_small by lia.
  replace (2^64 - 1 - (s - 1)) with (2^64 - s) by lia.
  rewrite (lowbit s k u Hd Hu Hs). cbv zeta. rewrite max_alignment_16.
  set (p := 2^k) in *. clearbody p.
  destruct (N.ltb_spec 16 p); lia.
Qed.

Theorem alignment_for_divides s : 0 < s -> s < 2^64 ->
  exists k, alignment_for s = N.min (2^k) 16 /\ s mod 2^k = 0 /\ s mod 2^(k+1) <> 0.
Proof.
  intros H0 Hs. destruct (odd_decomp s H0) as (k & u & Hd & Hu).
  exists k. split; [apply (alignment_for_spec s k u); assumption|].
  pose proof (pow2_pos k). subst s. split.
  - rewrite N.mul_comm. apply N.mod_mul. lia.
  - rewrite N.add_1_r, N.pow_succ_r'. intro E.
    apply N.mod_divide in E; [|lia]. destruct E as [c Hc].
    assert (u = 2 * c) by nia. subst u. rewrite N.odd_mul in Hu. discriminate Hu.
Qed.

(* ---------- integer logarithms ---------- *)
Lemma ilog2_base_size x : 1 <= x -> x < 2^64 -> ilog2_base x = N.size x.
Proof.
  intros H1 Hx. unfold ilog2_base, clz64. cbv zeta.
  assert (Hsz : N.size x <= 64).
  { rewrite N.size_log2 by lia. assert (N.log2 x < 64) by (apply N.log2_lt_pow2; lia). lia. }
  change (wmul64 sizeof_unsigned_long_long 8) with 64.
  assert (H64 : 64 < 2^64) by reflexivity.
  rewrite wsub64_le by lia. lia.
Qed.

Theorem ilog2_spec x : 1 <= x -> x < 2^64 -> ilog2 x = N.log2 x.
Proof.
  intros H1 Hx. unfold ilog2. rewrite ilog2_base_size by assumption.
  rewrite N.size_log2 by lia.
  assert (N.log2 x < 64) by (apply N.log2_lt_pow2; lia).
  rewrite wsub64_le by lia. lia.
Qed.

Theorem ilog2_floor x : 1 <= x -> x < 2^64 -> 2^(ilog2 x) <= x < 2^(ilog2 x + 1).
Proof.
  intros H1 Hx. rewrite ilog2_spec by assumption. rewrite N.add_1_r. apply N.log2_spec. lia.
Qed.

Lemma is_power_of_two_spec x : 1 <= x -> x < 2^64 -> (is_power_of_two x = true <-> exists k, x = 2^k).
Proof.
  intros H1 Hx. unfold is_power_of_two. rewrite wsub64_le by lia. rewrite N.eqb_eq. apply pow2_test. lia.
Qed.

Theorem ilog2_ceil_spec x : 1 <= x -> x < 2^64 -> ilog2_ceil x = N.log2_up x.
Proof.
  intros H1 Hx. unfold ilog2_ceil. rewrite ilog2_base_size by assumption.
  rewrite N.size_log2 by lia.
  assert (Hl : N.log2 x < 64) by (apply N.log2_lt_pow2; lia).
  destruct (is_power_of_two x) eqn:Hp.
  - apply is_power_of_two_spec in Hp; [|assumption..]. destruct Hp as [k ->].
    rewrite N.log2_pow2, N.log2_up_pow2 by lia. cbn [N.b2n].
    assert (k < 64) by (apply N.log2_lt_pow2 in Hx; [rewrite N.log2_pow2 in Hx; lia|apply pow2_pos]).
    rewrite wsub64_le by lia. lia.
  - cbn [N.b2n]. rewrite wsub64_le by lia. rewrite N.sub_0_r.
    assert (Hne : N.log2 x <> N.log2_up x).
    { intro E. apply N.log2_log2_up_exact in E; [|lia].
      assert (is_power_of_two x = true) by (apply is_power_of_two_spec; assumption). congruence. }
    pose proof (N.le_log2_log2_up x). pose proof (N.le_log2_up_succ_log2 x). lia.
Qed.

Theorem ilog2_ceil_ceiling x : 2 <= x -> x < 2^64 -> 2^(ilog2_ceil x - 1) < x <= 2^(ilog2_ceil x).
Proof.
  intros H1 Hx. rewrite ilog2_ceil_spec by lia.
  pose proof (N.log2_up_spec x ltac:(lia)) as H. rewrite <- N.sub_1_r in H. exact H.
Qed.

(* ---------- bucket selection of memory_pool_collection ---------- *)
Theorem bucket_identity_spec m s : identity_bucket_node_size m s = N.max s m.
Proof.
  unfold identity_bucket_node_size, bucket_index, identity_size_from_index, identity_index_from_size. cbv zeta.
  destruct (N.ltb_spec s m); lia.
Qed.

Lemma log2_size_from_index_pow i : i < 64 -> log2_size_from_index i = 2^i.
Proof.
  intros Hi. unfold log2_size_from_index, wshl64. rewrite N.shiftl_1_l. apply wrap64_small. apply pow2_lt_64. assumption.
Qed.

Lemma log2_up_lt_64 s : 1 <= s -> s <= 2^63 -> N.log2_up s < 64.
Proof.
  intros H1 Hs. assert (N.log2_up s <= N.log2_up (2^63)) by (apply N.log2_up_le_mono; assumption).
  rewrite N.log2_up_pow2 in H by lia. lia.
Qed.

Lemma pow_log2_up_bounds s : 1 <= s -> s <= 2^(N.log2_up s) /\ 2^(N.log2_up s) < 2 * s.
Proof.
  intros H1. destruct (N.eq_dec s 1) as [->|Hne].
  - cbn. lia.
  - pose proof (N.log2_up_spec s ltac:(lia)) as [Hlo Hhi]. split; [assumption|].
    assert (0 < N.log2_up s) by (apply N.log2_up_pos; lia).
    replace (N.log2_up s) with (N.succ (N.pred (N.log2_up s))) at 1 by lia.
    rewrite N.pow_succ_r'. lia.
Qed.

(* power-of-two buckets: node size >= s, and < 2 s unless clamped to the minimum element size *)
Theorem bucket_log2_spec m s : 1 <= m -> m <= 2^63 -> 1 <= s -> s <= 2^63 ->
  let b := log2_bucket_node_size m s in
  s <= b /\ (N.log2_up m <= N.log2_up s -> b < 2 * s) /\ (N.log2_up s < N.log2_up m -> b = 2^(N.log2_up m)).
Proof.
  intros Hm1 Hm Hs1 Hs. cbv zeta.
  unfold log2_bucket_node_size, bucket_index, log2_index_from_size. cbv zeta.
  rewrite !ilog2_ceil_spec by (try assumption; assert (2^63 < 2^64) by (cbn; lia); lia).
  pose proof (log2_up_lt_64 s Hs1 Hs). pose proof (log2_up_lt_64 m Hm1 Hm).
  pose proof (pow_log2_up_bounds s Hs1) as [Hlo Hhi].
  destruct (N.ltb_spec (N.log2_up s) (N.log2_up m)) as [Hc|Hc].
  - rewrite log2_size_from_index_pow by assumption. split; [|split; [lia|reflexivity]].
    assert (2^(N.log2_up s) <= 2^(N.log2_up m)) by (apply pow2_le_mono; lia). lia.
  - rewrite log2_size_from_index_pow by assumption. split; [assumption|]. split; [intros _; assumption|lia].
Qed.
