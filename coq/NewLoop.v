(* new_allocator when the system refuses (src/new_allocator.cpp, detail::new_allocator_impl::allocate, and
   lowlevel_allocator::allocate_node on top of it): the retry loop of the standard new_handler protocol.
   operator new(nothrow) succeeds or not (avail); a handler is identified by a number; what a handler does when called is
   given by a table: throw, uninstall itself, install another handler, or make memory available. *)
From Coq Require Import List Arith Bool Lia.
Import ListNotations.

Inductive hbeh := HbThrow | HbUninstall | HbInstall (next : nat) | HbFree.
Inductive nout := NPtr | NNull | NFuel.

(* returns the outcome and the handlers called, in order.  The installed handler is read again on every round. *)
Fixpoint new_loop (fuel : nat) (table : nat -> hbeh) (avail : bool) (cur : option nat) : nout * list nat :=
  match fuel with
  | O => (NFuel, [])
  | S f =>
      if avail then (NPtr, [])
      else match cur with
           | None => (NNull, [])
           | Some h =>
               match table h with
               | HbThrow => (NNull, [h])
               | HbUninstall => let '(o, c) := new_loop f table avail None in (o, h :: c)
               | HbInstall k => let '(o, c) := new_loop f table avail (Some k) in (o, h :: c)
               | HbFree => let '(o, c) := new_loop f table true cur in (o, h :: c)
               end
           end
  end.

(* lowlevel_allocator::allocate_node: a null from the functor becomes out_of_memory (its handler is called first) *)
Inductive lout := LPtr | LThrowOom (handler_calls : nat) | LHang.
Definition ll_allocate (fuel : nat) (table : nat -> hbeh) (avail : bool) (cur : option nat) : lout * list nat :=
  match new_loop fuel table avail cur with
  | (NPtr, c) => (LPtr, c)
  | (NNull, c) => (LThrowOom 1, c)
  | (NFuel, c) => (LHang, c)
  end.

(* handlers that install one another do so along a finite chain: handler h only ever installs handlers below h *)
Definition descending (table : nat -> hbeh) : Prop := forall h k, table h = HbInstall k -> k < h.
