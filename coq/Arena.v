(* memory_arena<BlockAllocator, Cached>: Exec model of the block bookkeeping (used stack, cache, block source). *)
From Coq Require Import ZArith List Bool Lia.
From FM Require Import FixedStack Stack.
Import ListNotations.
Local Open Scope Z_scope.

Inductive akind := AGrow | AFixed | AConst.     (* growing (x2), fixed (one block), constant-size LIFO sources (static, virtual) *)

Record arena := { ar_used : list blk; ar_cache : list blk; ar_next : Z; ar_kind : akind; ar_cached : bool }.

Inductive aop := ABlock | ADealloc | AShrink.
Inductive aout := ABlk (mem size : Z) | AThrowUpstream | AThrowFixed | ADone | AMisuse.

Definition ar_set (a : arena) used cache next : arena :=
  {| ar_used := used; ar_cache := cache; ar_next := next; ar_kind := ar_kind a; ar_cached := ar_cached a |}.

Definition astep (a : arena) (o : aop) (answer : option Z) : arena * aout * list ucall :=
  match o with
  | ABlock =>
      match ar_cache a with
      | b :: c => (ar_set a (b :: ar_used a) c (ar_next a), ABlk (b_mem b) (b_usable b), [])
      | [] =>
          match ar_kind a, (ar_next a =? 0) with
          | AFixed, true => (a, AThrowFixed, [])
          | _, _ =>
              match answer with
              | None => (a, AThrowUpstream, [UAlloc (ar_next a) None])
              | Some x =>
                  let b := (x, ar_next a) in
                  (ar_set a (b :: ar_used a) [] (match ar_kind a with AGrow => 2 * ar_next a | AFixed => 0 | AConst => ar_next a end),
                   ABlk (b_mem b) (b_usable b), [UAlloc (ar_next a) (Some x)])
              end
          end
      end
  | ADealloc =>
      match ar_used a with
      | [] => (a, AMisuse, [])
      | b :: u =>
          if ar_cached a then (ar_set a u (b :: ar_cache a) (ar_next a), ADone, [])
          else (ar_set a u (ar_cache a) (match ar_kind a with AFixed => snd b | _ => ar_next a end), ADone, [UFree (fst b) (snd b)])
      end
  | AShrink =>
      (ar_set a (ar_used a) [] (match ar_kind a, ar_cache a with AFixed, b :: _ => snd b | _, _ => ar_next a end), ADone,
       map (fun b => UFree (fst b) (snd b)) (rev (ar_cache a)))
  end.

Definition ar_init (k : akind) (cached : bool) (block_size : Z) : arena :=
  {| ar_used := []; ar_cache := []; ar_next := block_size; ar_kind := k; ar_cached := cached |}.

Definition ar_destroy_calls (a : arena) : list ucall :=
  map (fun b => UFree (fst b) (snd b)) (rev (ar_cache a)) ++ map (fun b => UFree (fst b) (snd b)) (ar_used a).

Definition ar_next_block_size (a : arena) : Z :=
  match ar_cache a with b :: _ => b_usable b | [] => ar_next a - hdr end.

Definition ar_owns (a : arena) (p : Z) : bool := existsb (fun b => (b_mem b <=? p) && (p <? b_end b)) (ar_used a).
