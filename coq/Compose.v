(* Wrapper compositions: what a request becomes on its way to the leaf allocator, and which leaf serves it.
   Executable; the per-wrapper behaviour is cross-checked against the generated call shapes (ShapesC0809.v)
   and against leaf call logs of real template compositions. *)
From Coq Require Import ZArith List Bool Lia.
Import ListNotations.
Local Open Scope Z_scope.

Inductive kind := KNode | KArray.
Record lcall := { lc_leaf : nat; lc_kind : kind; lc_count : Z; lc_size : Z; lc_align : Z }.

Inductive wrapper :=
  | WPass                         (* allocator_storage (direct/reference), thread_safe_allocator, tracked_allocator: unchanged *)
  | WAny                          (* type-erased reference storage (any_allocator): an array of one element travels as a node *)
  | WAligned (min_alignment : Z)  (* aligned_allocator *)
  | WSegregator (threshold : Z)   (* binary_segregator<threshold_segregatable>: leaf 0 up to the threshold, else the rest of the chain on leaf 1 *)
  | WStd (sT aT : Z)              (* std_allocator<T>: allocate(n) *)
  | WResource (max : Z)           (* memory_resource_adapter: bytes -> node or array of max-sized elements *)
  | WNodeOnly.                    (* allocator_traits over a RawAllocator without array members (memory_resource_allocator): an array travels as one node of count * size bytes *)

(* a request in flight: kind, count, size, alignment, and the leaf it is heading to *)
Definition through (w : wrapper) (c : lcall) : lcall :=
  match w with
  | WPass => c
  | WAny => match lc_kind c with
            | KArray => if lc_count c =? 1 then {| lc_leaf := lc_leaf c; lc_kind := KNode; lc_count := 1; lc_size := lc_size c; lc_align := lc_align c |} else c
            | KNode => c
            end
  | WAligned m => {| lc_leaf := lc_leaf c; lc_kind := lc_kind c; lc_count := lc_count c; lc_size := lc_size c;
                     lc_align := if m >? lc_align c then m else lc_align c |}
  | WSegregator t =>
      let bytes := match lc_kind c with KNode => lc_size c | KArray => lc_count c * lc_size c end in
      {| lc_leaf := if bytes <=? t then 0%nat else 1%nat; lc_kind := lc_kind c; lc_count := lc_count c; lc_size := lc_size c; lc_align := lc_align c |}
  | WStd sT aT =>
      (* the request carries n in lc_count *)
      if lc_count c =? 1 then {| lc_leaf := lc_leaf c; lc_kind := KNode; lc_count := 1; lc_size := sT; lc_align := aT |}
      else {| lc_leaf := lc_leaf c; lc_kind := KArray; lc_count := lc_count c; lc_size := sT; lc_align := aT |}
  | WResource max =>
      (* the request carries bytes in lc_size *)
      if lc_size c <=? max then {| lc_leaf := lc_leaf c; lc_kind := KNode; lc_count := 1; lc_size := lc_size c; lc_align := lc_align c |}
      else {| lc_leaf := lc_leaf c; lc_kind := KArray; lc_count := lc_size c / max + (if lc_size c mod max =? 0 then 0 else 1); lc_size := max; lc_align := lc_align c |}
  | WNodeOnly =>
      match lc_kind c with
      | KNode => c
      | KArray => {| lc_leaf := lc_leaf c; lc_kind := KNode; lc_count := 1; lc_size := lc_count c * lc_size c; lc_align := lc_align c |}
      end
  end.

(* outermost wrapper first *)
Definition forward (ws : list wrapper) (c : lcall) : lcall := fold_left (fun acc w => through w acc) ws c.

Definition bytes_of (c : lcall) : Z := match lc_kind c with KNode => lc_size c | KArray => lc_count c * lc_size c end.

(* ---------- fallback trees (C08) ---------- *)
Inductive ftree := FLeaf (id : nat) | FFallback (d f : ftree).

(* owns : leaf -> pointer -> bool  (each composable leaf recognises exactly its own memory) *)
Fixpoint try_dealloc_leaf (owns : nat -> Z -> bool) (t : ftree) (p : Z) : option nat :=
  match t with
  | FLeaf id => if owns id p then Some id else None
  | FFallback d f => match try_dealloc_leaf owns d p with Some l => Some l | None => try_dealloc_leaf owns f p end
  end.

(* deallocate: try the default's composable function, otherwise the fallback's ordinary one, which does not ask *)
Fixpoint dealloc_leaf (owns : nat -> Z -> bool) (t : ftree) (p : Z) : nat :=
  match t with
  | FLeaf id => id
  | FFallback d f => match try_dealloc_leaf owns d p with Some l => l | None => dealloc_leaf owns f p end
  end.

(* allocate: can : leaf -> bool says whether that leaf's try_allocate succeeds for this request *)
Fixpoint try_alloc_leaf (can : nat -> bool) (t : ftree) : option nat :=
  match t with
  | FLeaf id => if can id then Some id else None
  | FFallback d f => match try_alloc_leaf can d with Some l => Some l | None => try_alloc_leaf can f end
  end.
Fixpoint alloc_leaf (can : nat -> bool) (t : ftree) : nat :=
  match t with
  | FLeaf id => id
  | FFallback d f => match try_alloc_leaf can d with Some l => l | None => alloc_leaf can f end
  end.

Fixpoint leaves (t : ftree) : list nat := match t with FLeaf id => [id] | FFallback d f => leaves d ++ leaves f end.

(* ---------- ownership test of arena-based composable allocators (memory_block_stack::owns) ---------- *)
(* blocks as the arena holds them: (address of the usable memory, usable size); half-open ranges *)
Definition in_usable (b : Z * Z) (p : Z) : bool := (fst b <=? p) && (p <? fst b + snd b).
Definition owns_blocks (bs : list (Z * Z)) (p : Z) : bool := existsb (fun b => in_usable b p) bs.
