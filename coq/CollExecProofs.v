(* The Exec model of memory_pool_collection refines the Spec: for every state related to a Spec state, every operation the
   model describes -- with any upstream answers that are fresh, aligned blocks -- is accepted by PoolSpec.acc_op with the
   events and the result the model produces, and the relation holds again afterwards.  Proved once, for any free list that
   refines the Spec's list (hypotheses of the section); instantiated in CollInstProofs.v. *)
From Coq Require Import ZArith NArith List Bool Lia Permutation.
From FM Require Import Wrap GenArith FixedStack FixedStackProofs SmallCarve PoolSpec SlotProofs ListLib PoolSpecProofs PoolAlignProofs Stack Arena
     UnorderedList UnorderedRefine CollExec.
Import ListNotations.
Local Open Scope Z_scope.

Lemma chdr_eq : hdrZ = hdr /\ hdr = 16 /\ maxalZ = 16.
Proof. repeat split; vm_compute; reflexivity. Qed.

Lemma Forall2_impl_in {A B} (P Q : A -> B -> Prop) l1 l2 :
  Forall2 P l1 l2 -> (forall a b, In a l1 -> P a b -> Q a b) -> Forall2 Q l1 l2.
Proof.
  induction 1 as [|a b l1 l2 Hab H IH]; intros Himp; constructor.
  - apply Himp; [left; reflexivity|assumption].
  - apply IH. intros a' b' Hin. apply Himp. right. assumption.
Qed.

Lemma set_list_id ns ls l : find_list ns ls = Some l -> set_list l ls = ls.
Proof.
  induction ls as [|l0 tl IH]; cbn; [discriminate|]. destruct (Z.eqb_spec (l_ns l0) ns) as [E|E].
  - intros H. inversion H; subst l0. rewrite Z.eqb_refl. reflexivity.
  - intros H. pose proof (find_list_In _ _ _ H) as [_ Hns]. destruct (Z.eqb_spec (l_ns l0) (l_ns l)) as [E'|E']; [lia|]. rewrite (IH H). reflexivity.
Qed.

Lemma aligned16_al_of ns m : 0 < ns < 2^64 -> m mod 16 = 0 -> m mod al_of ns = 0.
Proof.
  intros Hns Hm. destruct (al_of_cases ns Hns) as [Hc _].
  assert (E : m = 16 * (m / 16)) by (pose proof (Z.div_mod m 16 ltac:(lia)); lia).
  destruct Hc as [->|[->|[->|[->| ->]]]]; rewrite E.
  - apply Z.mod_1_r.
  - replace (16 * (m / 16)) with (8 * (m / 16) * 2) by lia. apply Z.mod_mul. lia.
  - replace (16 * (m / 16)) with (4 * (m / 16) * 4) by lia. apply Z.mod_mul. lia.
  - replace (16 * (m / 16)) with (2 * (m / 16) * 8) by lia. apply Z.mod_mul. lia.
  - replace (16 * (m / 16)) with ((m / 16) * 16) by lia. apply Z.mod_mul. lia.
Qed.

Section CollProofs.
Variable G : Type.
Variable gns : G -> Z.
Variable gfree : G -> Z.
Variable gstep : G -> u_op -> option (G * option Z).
Variable bkt : Z -> Z.
Variable gusable : Z -> Z -> Z.
Variable K : lkind.
Variable GR : G -> uspec -> Prop.

Definition kslotb (rs : list tagged) (ns a : Z) : bool := slot_of rs {| l_kind := K; l_ns := ns; l_allocs := []; l_nfree := 0 |} a.
Hypothesis GR_list : forall g s, GR g s -> l_kind (us_l s) = K /\ l_ns (us_l s) = gns g /\ l_nfree (us_l s) = gfree g.
Hypothesis GR_pos : forall g s, GR g s -> 0 < gns g.
Hypothesis gstep_refines : forall g s o g' res, GR g s -> gstep g o = Some (g', res) -> exists s', us_step s o res = Some s' /\ GR g' s'.
Hypothesis gusable_nodes : forall ns m size, 0 < ns -> ns <= gusable ns size -> 0 < nodes_of K ns (m, size) /\ 0 < size.
Hypothesis gstep_ns : forall g o g' res, gstep g o = Some (g', res) -> gns g' = gns g.
Hypothesis GR_ranges : forall g rs rs' l, (forall a, kslotb rs (gns g) a = kslotb rs' (gns g) a) ->
  GR g {| us_rs := rs; us_l := l |} -> GR g {| us_rs := rs'; us_l := l |}.

Notation cpool := (cpool G).
Notation c_find := (c_find G gns).
Notation c_set := (c_set G gns).

Definition ListsR (rs : list tagged) (gs : list G) (ls : list lst) : Prop :=
  Forall2 (fun g l => GR g {| us_rs := rs; us_l := l |}) gs ls.

Lemma lists_keys rs gs ls : ListsR rs gs ls -> map gns gs = map l_ns ls.
Proof. induction 1 as [|g l gs ls Hgl H IH]; cbn; [reflexivity|]. destruct (GR_list _ _ Hgl) as (_ & E & _). cbn in E. rewrite IH, E. reflexivity. Qed.

Lemma find_rel rs gs ls ns g : ListsR rs gs ls -> c_find ns gs = Some g ->
  exists l, find_list ns ls = Some l /\ GR g {| us_rs := rs; us_l := l |} /\ gns g = ns.
Proof.
  induction 1 as [|g0 l0 gs ls Hgl H IH]; cbn; [discriminate|]. destruct (GR_list _ _ Hgl) as (_ & E & _). cbn in E. rewrite E.
  destruct (Z.eqb_spec (gns g0) ns) as [En|En].
  - intros H1. inversion H1; subst g0. exists l0. repeat split; assumption.
  - apply IH.
Qed.

Lemma set_rel rs rs' gs ls ns g g' l' :
  ListsR rs gs ls -> NoDup (map gns gs) -> c_find ns gs = Some g ->
  GR g' {| us_rs := rs'; us_l := l' |} -> gns g' = ns ->
  (forall gi li, In gi gs -> gns gi <> ns -> GR gi {| us_rs := rs; us_l := li |} -> GR gi {| us_rs := rs'; us_l := li |}) ->
  ListsR rs' (c_set g' gs) (set_list l' ls).
Proof.
  intros H. revert g. induction H as [|g0 l0 gs ls Hgl H IH]; intros g Hnd Hf Hg' Eg' Hother; subst ns; cbn in *; [constructor|].
  destruct (GR_list _ _ Hgl) as (_ & E & _). destruct (GR_list _ _ Hg') as (_ & E' & _). cbn in E, E'. rewrite E, E'.
  inversion Hnd as [|? ? Hnotin Hnd']; subst.
  destruct (Z.eqb_spec (gns g0) (gns g')) as [En|En].
  - constructor; [assumption|]. eapply Forall2_impl_in; [exact H|]. intros gi li Hin Hr. apply Hother; [right; assumption| |assumption].
    intros Eq. apply Hnotin. rewrite En, <- Eq. apply in_map. assumption.
  - constructor.
    + apply Hother; [left; reflexivity|assumption|assumption].
    + apply (IH g); try assumption; [reflexivity|]. intros gi li Hin. apply Hother. right. assumption.
Qed.

Lemma uslotb_other ns ns' r rs a : ns' <> ns -> kslotb ((ns', r) :: rs) ns a = kslotb rs ns a.
Proof.
  intros Hne. unfold kslotb. rewrite slot_of_cons. cbn [fst snd l_ns l_kind].
  destruct (Z.eqb_spec ns' ns) as [|_]; [contradiction|]. reflexivity.
Qed.

(* one call of a member of the selected list, seen by the Spec's list *)
Lemma list_step_rel rs gs ls ns o g g' res :
  ListsR rs gs ls -> NoDup (map gns gs) -> c_find ns gs = Some g -> gstep g o = Some (g', res) ->
  exists l u', find_list ns ls = Some l /\ us_step {| us_rs := rs; us_l := l |} o res = Some u' /\ l_ns (us_l u') = ns /\ l_ns l = ns /\
               l_kind l = K /\ l_nfree l = gfree g /\ l_nfree (us_l u') = gfree g' /\
               ListsR (us_rs u') (c_set g' gs) (set_list (us_l u') ls).
Proof.
  intros HL Hnd Hf Hs. destruct (find_rel _ _ _ _ _ HL Hf) as (l & Hfl & Hgr & Eg).
  destruct (gstep_refines _ _ _ _ _ Hgr Hs) as (u' & Hu & Hgr').
  destruct (GR_list _ _ Hgr) as (Hk & El & Enf). destruct (GR_list _ _ Hgr') as (Hk' & El' & Enf'). cbn [us_l] in *.
  pose proof (gstep_ns _ _ _ _ Hs) as Ens.
  exists l, u'. split; [exact Hfl|]. split; [exact Hu|]. split; [lia|]. split; [lia|]. split; [exact Hk|]. split; [exact Enf|]. split; [exact Enf'|].
  destruct u' as [rs' l']. cbn [us_rs us_l] in *.
  apply (set_rel rs rs' gs ls ns g g' l' HL Hnd Hf Hgr'); [lia|].
  intros gi li Hin Hne Hgi.
  assert (Hrs : rs' = rs \/ exists m size, rs' = (ns, (m, size)) :: rs).
  { unfold us_step in Hu. cbn [us_l us_rs] in Hu. destruct o as [m size| |bytes|p|p bytes].
    - inversion Hu. right. exists m, size. rewrite El, Eg. reflexivity.
    - destruct res; [|discriminate]. destruct (take_slots _ _ _ _); [|discriminate]. inversion Hu. left. reflexivity.
    - destruct res; [destruct (take_slots _ _ _ _); [|discriminate]|]; inversion Hu; left; reflexivity.
    - destruct (give_slots _ _ _); [|discriminate]. inversion Hu. left. reflexivity.
    - destruct (give_slots _ _ _); [|discriminate]. inversion Hu. left. reflexivity. }
  destruct Hrs as [->|(m & size & ->)]; [exact Hgi|].
  apply (GR_ranges gi rs); [|exact Hgi]. intros a. symmetry. apply uslotb_other. lia.
Qed.

(* ---------- the relation between a collection and the Spec's state ---------- *)
Definition Fresh (s : cpool) (sp : ast) : Prop :=
  exists b rest, ar_used (cc_ar _ s) = b :: rest /\ b_mem b <= cc_top _ s <= b_end b /\
    forall x, In x (a_ranges sp) -> fst (snd x) + snd (snd x) <= cc_top _ s \/ b_end b <= fst (snd x).
Definition CR (s : cpool) (sp : ast) : Prop :=
  ListsR (a_ranges sp) (cc_lists _ s) (a_lists sp) /\ Forall (fun g => gns g < 2^64) (cc_lists _ s) /\
  a_held sp = ar_used (cc_ar _ s) /\ ar_cache (cc_ar _ s) = [] /\ ar_cached (cc_ar _ s) = false /\ Fresh s sp /\ 0 <= cc_fence _ s.
Definition CPR (s : cpool) (sp : ast) : Prop := Inv sp /\ CR s sp.
(* [m, m+size) was cut from the current block and is not yet anybody's *)
Definition Reserved (s : cpool) (sp : ast) (m size : Z) : Prop :=
  exists b rest, ar_used (cc_ar _ s) = b :: rest /\ b_mem b <= m /\ m + size <= cc_top _ s /\ m mod 16 = 0 /\
    forall x, In x (a_ranges sp) -> fst (snd x) + snd (snd x) <= m \/ b_end b <= fst (snd x).

Lemma nodup_gns s sp : CPR s sp -> NoDup (map gns (cc_lists _ s)).
Proof. intros (Hinv & HL & _). rewrite (lists_keys _ _ _ HL). apply (i_keys _ Hinv). Qed.

Lemma c_set_forall (P : G -> Prop) g' gs : Forall P gs -> P g' -> Forall P (c_set g' gs).
Proof. induction 1 as [|g0 tl H0 H IH]; intros Hg'; cbn; [constructor|]. destruct (gns g0 =? gns g'); constructor; auto. Qed.


(* ---------- pool.insert of reserved memory ---------- *)
Lemma insert_refines s sp ns m size s' evs :
  CPR s sp -> Reserved s sp m size -> cc_insert _ gns gstep gusable s ns m size = Some (s', evs) ->
  exists sp', acc_evs sp evs = Some sp' /\ CPR s' sp' /\ a_held sp' = a_held sp /\ cc_ar _ s' = cc_ar _ s /\ cc_top _ s' = cc_top _ s /\
              cc_fence _ s' = cc_fence _ s /\ cc_max _ s' = cc_max _ s /\ evs = [EIns ns m size] /\ length (cc_lists _ s') = length (cc_lists _ s).
Proof.
  intros Hcpr Hres Hins. pose proof (nodup_gns _ _ Hcpr) as Hnd. destruct Hcpr as (Hinv & HL & Hsm & Hheld & Hc & Hcd & Hfr & Hfence).
  unfold cc_insert in Hins. destruct (Z.leb_spec ns (gusable ns size)) as [Hsz|]; [|discriminate].
  unfold cc_list_step in Hins. destruct (c_find ns (cc_lists _ s)) as [g|] eqn:Hf; [|discriminate].
  destruct (gstep g (UIns m size)) as [[g' res]|] eqn:Hs; [|discriminate]. inversion Hins; subst s' evs; clear Hins.
  destruct (list_step_rel _ _ _ _ _ _ _ _ HL Hnd Hf Hs) as (l & u' & Hfl & Hu & Ens' & Ens & Hk & Enf & Enf' & HL').
  cbn [us_step us_l us_rs] in Hu. inversion Hu; subst u'; clear Hu. cbn [us_rs us_l] in *.
  destruct (find_rel _ _ _ _ _ HL Hf) as (l0 & Hfl0 & Hgr & Eg). rewrite Hfl in Hfl0. inversion Hfl0; subst l0; clear Hfl0.
  pose proof (GR_pos _ _ Hgr) as Hpos. assert (Hlt : gns g < 2^64) by (rewrite Forall_forall in Hsm; apply Hsm; clear - Hf; induction (cc_lists G s) as [|g0 tl IH]; cbn in Hf; [discriminate|]; destruct (gns g0 =? ns); [inversion Hf; left; reflexivity|right; auto]).
  destruct Hres as (b & rest & Hb & Hbm & Htop & Hal & Hdis). destruct Hfr as (b' & rest' & Hb' & Htb & Hfresh). rewrite Hb in Hb'. inversion Hb'; subst b' rest'; clear Hb'.
  destruct chdr_eq as (Eh & Eh16 & Emax). destruct (gusable_nodes ns m size ltac:(lia) Hsz) as [Hnodes Hsize].
  assert (Hacc : acc_ev sp (EIns ns m size) =
          Some {| a_lists := set_list {| l_kind := l_kind l; l_ns := ns; l_allocs := l_allocs l; l_nfree := l_nfree l + nodes_of (l_kind l) ns (m, size) |} (a_lists sp);
                  a_ranges := (ns, (m, size)) :: a_ranges sp; a_held := a_held sp |}).
  { cbn [acc_ev]. rewrite Hfl. rewrite Hk.
    assert (H1 : (0 <? nodes_of K ns (m, size)) = true) by (apply Z.ltb_lt; exact Hnodes).
    assert (H2 : range_ok sp (m, size) = true).
    { unfold range_ok. cbn [fst snd]. apply andb_true_iff. split; [apply andb_true_iff; split|].
      - apply Z.ltb_lt. lia.
      - apply existsb_exists. exists b. split; [rewrite Hheld, Hb; left; reflexivity|]. apply r_inside_spec. unfold rng_inside, usable, b_mem, b_end in *. cbn [fst snd]. lia.
      - apply forallb_forall. intros x Hx. apply r_disj_spec. unfold rng_disj. cbn [fst snd]. destruct (Hdis x Hx); [right; lia|left; lia]. }
    assert (H3 : (m mod (match K with LIntrusive => al_of ns | LSmall => maxalZ end) =? 0) = true).
    { apply Z.eqb_eq. assert (Ha : m mod al_of ns = 0) by (apply aligned16_al_of; [lia|assumption]). clear - Ha Hal Emax. destruct K; [exact Ha|rewrite Emax; exact Hal]. }
    rewrite H1, H2, H3. reflexivity. }
  eexists. split; [cbn [acc_evs]; rewrite Hacc; reflexivity|].
  split; [|cbn [a_held cc_with cc_ar cc_top cc_fence cc_max cc_lists]; repeat split; try reflexivity].
  - split; [exact (acc_ev_inv _ _ _ Hinv Hacc)|]. cbn [a_lists a_ranges a_held cc_with cc_ar cc_top cc_fence cc_lists].
    split; [rewrite Ens in HL'; exact HL'|]. split; [apply c_set_forall; [assumption|rewrite (gstep_ns _ _ _ _ Hs); assumption]|].
    split; [exact Hheld|]. split; [exact Hc|]. split; [exact Hcd|]. split; [|exact Hfence].
    unfold Fresh. cbn [a_ranges cc_with cc_ar cc_top]. exists b, rest. split; [exact Hb|]. split; [exact Htb|]. intros x [<-|Hx]; [left; cbn [fst snd]; lia|apply Hfresh; assumption].
  - clear - gns. induction (cc_lists G s) as [|g0 tl IH]; cbn; [reflexivity|]. destruct (gns g0 =? gns g'); cbn; [reflexivity|rewrite IH; reflexivity].
Qed.

Lemma acc_evs_app : forall e1 e2 sp, acc_evs sp (e1 ++ e2) = match acc_evs sp e1 with Some s1 => acc_evs s1 e2 | None => None end.
Proof. induction e1 as [|e tl IH]; intros e2 sp; cbn; [reflexivity|]. destruct (acc_ev sp e); [apply IH|reflexivity]. Qed.

Lemma c_set_length g' gs : length (c_set g' gs) = length gs.
Proof. induction gs as [|g0 tl IH]; cbn; [reflexivity|]. destruct (gns g0 =? gns g'); cbn; [reflexivity|rewrite IH; reflexivity]. Qed.

Lemma cc_end_used (s : cpool) b rest : ar_used (cc_ar _ s) = b :: rest -> cc_end _ s = b_end b.
Proof. intros H. unfold cc_end. rewrite H. reflexivity. Qed.

(* moving the top of the stack up inside the current block keeps the relation *)
Lemma cpr_top (s : cpool) sp top' : CPR s sp -> cc_top _ s <= top' <= cc_end _ s -> CPR (cc_with _ s (cc_ar _ s) top' (cc_lists _ s)) sp.
Proof.
  intros (Hinv & HL & Hsm & Hheld & Hc & Hcd & Hfr & Hfence) Ht. split; [exact Hinv|]. unfold CR. cbn [cc_with cc_ar cc_top cc_lists cc_fence].
  repeat (split; [assumption|]). split; [|assumption]. destruct Hfr as (b & rest & Hb & Htb & Hfresh). unfold Fresh. cbn [cc_with cc_ar cc_top].
  rewrite (cc_end_used _ _ _ Hb) in Ht. exists b, rest. split; [exact Hb|]. split; [lia|]. intros x Hx. destruct (Hfresh x Hx); [left; lia|right; assumption].
Qed.

(* ---------- insert_rest ---------- *)
Lemma insert_rest_refines (s : cpool) sp ns (s1 : cpool) evs :
  CPR s sp -> cc_insert_rest _ gns gstep gusable s ns = Some (s1, evs) ->
  exists sp1, acc_evs sp evs = Some sp1 /\ CPR s1 sp1 /\ a_held sp1 = a_held sp /\ cc_ar _ s1 = cc_ar _ s /\
              cc_fence _ s1 = cc_fence _ s /\ cc_max _ s1 = cc_max _ s /\ existsb is_up evs = false /\ length (cc_lists _ s1) = length (cc_lists _ s).
Proof.
  intros Hcpr Hir. unfold cc_insert_rest in Hir.
  assert (Hsame : (s1, evs) = (s, []) -> exists sp1, acc_evs sp evs = Some sp1 /\ CPR s1 sp1 /\ a_held sp1 = a_held sp /\ cc_ar _ s1 = cc_ar _ s /\
              cc_fence _ s1 = cc_fence _ s /\ cc_max _ s1 = cc_max _ s /\ existsb is_up evs = false /\ length (cc_lists _ s1) = length (cc_lists _ s)).
  { intros E. inversion E; subst. exists sp. split; [reflexivity|]. split; [exact Hcpr|]. repeat split; reflexivity. }
  destruct (cc_end _ s - cc_top _ s =? 0); [apply Hsame; inversion Hir; reflexivity|].
  destruct chdr_eq as (Eh & Eh16 & Emax). rewrite Emax in Hir.
  destruct ((align_off (cc_top _ s) 16 <? cc_end _ s - cc_top _ s) && (ns <=? gusable ns (cc_end _ s - cc_top _ s - align_off (cc_top _ s) 16))) eqn:Hcond;
    [|apply Hsame; inversion Hir; reflexivity].
  clear Hsame. apply andb_true_iff in Hcond as [Hoff _]. apply Z.ltb_lt in Hoff.
  pose proof (align_off_bounds (cc_top _ s) 16 ltac:(lia)) as Hob. pose proof (align_off_aligns (cc_top _ s) 16 ltac:(lia)) as Hoa.
  set (off := align_off (cc_top _ s) 16) in *.
  assert (Hcpr2 : CPR (cc_with _ s (cc_ar _ s) (cc_top _ s + (cc_end _ s - cc_top _ s)) (cc_lists _ s)) sp) by (apply cpr_top; [assumption|lia]).
  destruct Hcpr as (Hinv & HL & Hsm & Hheld & Hc & Hcd & Hfr & Hfence). destruct Hfr as (b & rest & Hb & Htb & Hfresh).
  destruct (insert_refines _ sp ns (cc_top _ s + off) (cc_end _ s - cc_top _ s - off) s1 evs Hcpr2) as (sp1 & Ha & Hc1 & Hh & Har & Htop & Hfe & Hmx & Hev & Hlen); [|exact Hir|].
  - exists b, rest. cbn [cc_with cc_ar cc_top]. split; [exact Hb|]. split; [lia|]. split; [lia|]. split; [exact Hoa|]. intros x Hx. destruct (Hfresh x Hx); [left; lia|right; assumption].
  - exists sp1. cbn [cc_with cc_ar cc_fence cc_max cc_lists] in *. split; [exact Ha|]. split; [exact Hc1|]. repeat (split; [assumption|]). split; [rewrite Hev; reflexivity|assumption].
Qed.

(* ---------- a new block from the arena ---------- *)
Definition CWB (sp : ast) (addr size : Z) : Prop :=
  (0 <? addr) && (hdrZ <? size) && (addr mod maxalZ =? 0) && forallb (r_disj (addr, size)) (a_held sp) = true.

Lemma new_block_refines (s : cpool) sp answer (s2 : cpool) ok evs :
  CPR s sp -> (forall addr, answer = Some addr -> CWB sp addr (ar_next (cc_ar _ s))) ->
  cc_new_block _ s answer = (s2, ok, evs) ->
  exists sp2, acc_evs sp evs = Some sp2 /\ CPR s2 sp2 /\ cc_fence _ s2 = cc_fence _ s /\ cc_max _ s2 = cc_max _ s /\ cc_lists _ s2 = cc_lists _ s /\
              (ok = true -> exists b rest, ar_used (cc_ar _ s2) = b :: rest /\ cc_top _ s2 = b_mem b).
Proof.
  intros Hcpr Hwb Hnb. destruct Hcpr as (Hinv & HL & Hsm & Hheld & Hc & Hcd & Hfr & Hfence).
  unfold cc_new_block, astep in Hnb. rewrite Hc in Hnb.
  assert (Hfail : forall e, (s2, ok, evs) = (cc_with _ s (cc_ar _ s) (cc_top _ s) (cc_lists _ s), false, e) -> e = [] \/ e = [EUpFail] ->
     exists sp2, acc_evs sp evs = Some sp2 /\ CPR s2 sp2 /\ cc_fence _ s2 = cc_fence _ s /\ cc_max _ s2 = cc_max _ s /\ cc_lists _ s2 = cc_lists _ s /\
              (ok = true -> exists b rest, ar_used (cc_ar _ s2) = b :: rest /\ cc_top _ s2 = b_mem b)).
  { intros e E He. inversion E; subst s2 ok evs. exists sp. split; [destruct He as [->| ->]; reflexivity|].
    split; [split; [exact Hinv|]; unfold CR, Fresh; cbn [cc_with cc_ar cc_top cc_lists cc_fence]; repeat (split; [assumption|]); assumption|].
    cbn [cc_with cc_fence cc_max cc_lists]. repeat split; try reflexivity. discriminate. }
  destruct (match ar_kind (cc_ar _ s) with AFixed => (ar_next (cc_ar _ s) =? 0) | _ => false end) eqn:Hfix.
  { apply (Hfail []); [|left; reflexivity]. rewrite <- Hnb. destruct (ar_kind (cc_ar _ s)); try discriminate. rewrite Hfix. reflexivity. }
  destruct answer as [x|].
  2:{ apply (Hfail [EUpFail]); [|right; reflexivity]. rewrite <- Hnb. destruct (ar_kind (cc_ar _ s)); try rewrite Hfix; reflexivity. }
  clear Hfail. pose proof (Hwb x eq_refl) as Hw. clear Hwb. destruct chdr_eq as (Eh & Eh16 & Emax).
  set (nx := ar_next (cc_ar _ s)) in *.
  assert (Hnb' : (s2, ok, evs) =
     (cc_with _ s (ar_set (cc_ar _ s) ((x, nx) :: ar_used (cc_ar _ s)) [] (match ar_kind (cc_ar _ s) with AGrow => 2 * nx | AFixed => 0 | AConst => nx end))
        (b_mem (x, nx)) (cc_lists _ s), true, [EUp (b_mem (x, nx) - hdrZ) (b_usable (x, nx) + hdrZ)])).
  { rewrite <- Hnb. destruct (ar_kind (cc_ar _ s)); try rewrite Hfix; reflexivity. }
  clear Hnb. inversion Hnb'; subst s2 ok evs; clear Hnb'.
  unfold b_mem, b_usable. cbn [fst snd]. replace (x + hdr - hdrZ) with x by lia. replace (nx - hdr + hdrZ) with nx by lia.
  assert (Hup : acc_ev sp (EUp x nx) = Some {| a_lists := a_lists sp; a_ranges := a_ranges sp; a_held := (x, nx) :: a_held sp |}).
  { cbn [acc_ev]. unfold CWB in Hw. rewrite Hw. reflexivity. }
  eexists. split; [cbn [acc_evs]; rewrite Hup; reflexivity|].
  unfold CWB in Hw. apply andb_true_iff in Hw as [Hw Hw4]. apply andb_true_iff in Hw as [Hw Hw3]. apply andb_true_iff in Hw as [Hw1 Hw2].
  apply Z.ltb_lt in Hw1, Hw2. rewrite forallb_forall in Hw4.
  split; [|cbn [cc_with cc_fence cc_max cc_lists cc_ar cc_top ar_set ar_used]; repeat split; try reflexivity; intros _; exists (x, nx), (ar_used (cc_ar _ s)); split; reflexivity].
  split; [exact (acc_ev_inv _ _ _ Hinv Hup)|]. unfold CR, Fresh. cbn [a_lists a_ranges a_held cc_with cc_ar cc_top cc_lists cc_fence ar_set ar_used ar_cache ar_cached].
  split; [exact HL|]. split; [exact Hsm|]. split; [rewrite Hheld; reflexivity|]. split; [reflexivity|]. split; [exact Hcd|]. split; [|exact Hfence].
  exists (x, nx), (ar_used (cc_ar _ s)). split; [reflexivity|]. unfold b_mem, b_end. cbn [fst snd]. split; [lia|].
  intros r Hr. pose proof (i_inside _ Hinv) as Hin. rewrite Forall_forall in Hin. destruct (Hin r Hr) as (b0 & Hb0 & Hri).
  specialize (Hw4 b0 Hb0). apply r_disj_spec in Hw4. unfold rng_disj, rng_inside, usable in *. cbn [fst snd] in *. destruct Hw4; [right; lia|left; lia].
Qed.

(* a successful bump allocation in the current block yields reserved memory *)
Lemma fs_reserved (s : cpool) sp cap m top' :
  CPR s sp -> 0 <= cap -> fs_alloc (cc_fence _ s) (cc_top _ s) (cc_end _ s) cap maxalZ = Some (m, top') ->
  CPR (cc_with _ s (cc_ar _ s) top' (cc_lists _ s)) sp /\ Reserved (cc_with _ s (cc_ar _ s) top' (cc_lists _ s)) sp m cap.
Proof.
  intros Hcpr Hcap Hfs. destruct chdr_eq as (Eh & Eh16 & Emax). rewrite Emax in Hfs.
  pose proof Hcpr as (Hinv & HL & Hsm & Hheld & Hc & Hcd & Hfr & Hfence). destruct Hfr as (b & rest & Hb & Htb & Hfresh).
  destruct (fs_alloc_spec (cc_fence _ s) (cc_top _ s) (cc_end _ s) cap 16 m top' ltac:(lia) Hfence Hcap Hfs) as (Hne & Hlo & Hhi & Hal & Htop & Hend).
  split; [apply cpr_top; [assumption|lia]|]. exists b, rest. cbn [cc_with cc_ar cc_top]. split; [exact Hb|]. split; [lia|]. split; [lia|]. split; [exact Hal|].
  intros x Hx. destruct (Hfresh x Hx); [left; lia|right; assumption].
Qed.

(* ---------- reserve_memory ---------- *)
Lemma reserve_refines (s : cpool) sp ns cap answer (s1 : cpool) res evs :
  CPR s sp -> 0 <= cap -> (forall addr, answer = Some addr -> CWB sp addr (ar_next (cc_ar _ s))) ->
  cc_reserve _ gns gstep gusable s ns cap answer = Some (s1, res, evs) ->
  exists sp1, acc_evs sp evs = Some sp1 /\ CPR s1 sp1 /\ (forall m, res = Some m -> Reserved s1 sp1 m cap) /\
              cc_fence _ s1 = cc_fence _ s /\ cc_max _ s1 = cc_max _ s /\ length (cc_lists _ s1) = length (cc_lists _ s).
Proof.
  intros Hcpr Hcap Hwb Hr. unfold cc_reserve in Hr.
  destruct (fs_alloc (cc_fence _ s) (cc_top _ s) (cc_end _ s) cap maxalZ) as [[m top']|] eqn:Hfs.
  - inversion Hr; subst s1 res evs; clear Hr. destruct (fs_reserved _ _ _ _ _ Hcpr Hcap Hfs) as [H1 H2].
    exists sp. split; [reflexivity|]. split; [exact H1|]. split; [intros m0 E; inversion E; subst m0; exact H2|]. cbn [cc_with cc_fence cc_max cc_lists]. repeat split; reflexivity.
  - destruct (cc_insert_rest _ gns gstep gusable s ns) as [[sa ev1]|] eqn:Hir; [|discriminate].
    destruct (insert_rest_refines _ _ _ _ _ Hcpr Hir) as (spa & Ha & Hca & Hha & Hara & Hfa & Hma & _ & Hla).
    destruct (cc_new_block _ sa answer) as [[sb ok] ev2] eqn:Hnb.
    assert (Hwb' : forall addr, answer = Some addr -> CWB spa addr (ar_next (cc_ar _ sa))) by (intros addr E; unfold CWB; rewrite Hha, Hara; apply Hwb; exact E).
    destruct (new_block_refines _ _ _ _ _ _ Hca Hwb' Hnb) as (spb & Hb & Hcb & Hfb & Hmb & Hlb & _).
    assert (Hev : acc_evs sp (ev1 ++ ev2) = Some spb) by (rewrite acc_evs_app, Ha; exact Hb).
    destruct ok.
    + destruct (fs_alloc (cc_fence _ sb) (cc_top _ sb) (cc_end _ sb) cap maxalZ) as [[m top']|] eqn:Hfs2; [|discriminate].
      inversion Hr; subst s1 res evs; clear Hr. destruct (fs_reserved _ _ _ _ _ Hcb Hcap Hfs2) as [H1 H2].
      exists spb. split; [exact Hev|]. split; [exact H1|]. split; [intros m0 E; inversion E; subst m0; exact H2|]. cbn [cc_with cc_fence cc_max cc_lists].
      rewrite Hlb. repeat split; congruence.
    + inversion Hr; subst s1 res evs; clear Hr. exists spb. split; [exact Hev|]. split; [exact Hcb|]. split; [discriminate|]. rewrite Hlb. repeat split; congruence.
Qed.

(* ---------- try_reserve_memory ---------- *)
Lemma try_reserve_refines (s : cpool) sp ns cap (s1 : cpool) evs :
  CPR s sp -> 0 <= cap -> cc_try_reserve _ gns gstep gusable s ns cap = Some (s1, evs) ->
  exists sp1, acc_evs sp evs = Some sp1 /\ CPR s1 sp1 /\ existsb is_up evs = false /\
              cc_fence _ s1 = cc_fence _ s /\ cc_max _ s1 = cc_max _ s /\ length (cc_lists _ s1) = length (cc_lists _ s) /\
              a_held sp1 = a_held sp /\ cc_ar _ s1 = cc_ar _ s.
Proof.
  intros Hcpr Hcap Hr. unfold cc_try_reserve in Hr.
  destruct (fs_alloc (cc_fence _ s) (cc_top _ s) (cc_end _ s) cap maxalZ) as [[m top']|] eqn:Hfs.
  - destruct (fs_reserved _ _ _ _ _ Hcpr Hcap Hfs) as [H1 H2].
    destruct (insert_refines _ _ _ _ _ _ _ H1 H2 Hr) as (sp1 & Ha & Hc1 & Hh & Har & Htop & Hfe & Hmx & Hev & Hlen).
    exists sp1. cbn [cc_with cc_fence cc_max cc_lists cc_ar] in *. split; [exact Ha|]. split; [exact Hc1|]. split; [rewrite Hev; reflexivity|]. repeat split; assumption.
  - destruct (insert_rest_refines _ _ _ _ _ Hcpr Hr) as (sp1 & Ha & Hc1 & Hh & Har & Hfe & Hmx & Hup & Hlen).
    exists sp1. split; [exact Ha|]. split; [exact Hc1|]. split; [exact Hup|]. repeat split; assumption.
Qed.

(* ---------- reserve_memory + insert ---------- *)
Lemma grow_refines (s : cpool) sp ns cap answer (s2 : cpool) ok evs :
  CPR s sp -> 0 <= cap -> (forall addr, answer = Some addr -> CWB sp addr (ar_next (cc_ar _ s))) ->
  cc_grow _ gns gstep gusable s ns cap answer = Some (s2, ok, evs) ->
  exists sp2, acc_evs sp evs = Some sp2 /\ CPR s2 sp2 /\
              cc_fence _ s2 = cc_fence _ s /\ cc_max _ s2 = cc_max _ s /\ length (cc_lists _ s2) = length (cc_lists _ s).
Proof.
  intros Hcpr Hcap Hwb Hg. unfold cc_grow in Hg.
  destruct (cc_reserve _ gns gstep gusable s ns cap answer) as [[[s1 res] ev1]|] eqn:Hr; [|discriminate].
  destruct (reserve_refines _ _ _ _ _ _ _ _ Hcpr Hcap Hwb Hr) as (sp1 & Ha & Hc1 & Hres & Hfe & Hmx & Hlen).
  destruct res as [m|].
  - destruct (cc_insert _ gns gstep gusable s1 ns m cap) as [[sb ev2]|] eqn:Hins; [|discriminate]. inversion Hg; subst s2 ok evs; clear Hg.
    destruct (insert_refines _ _ _ _ _ _ _ Hc1 (Hres m eq_refl) Hins) as (sp2 & Hb & Hc2 & Hh & Har & Htop & Hfe2 & Hmx2 & Hev & Hlen2).
    exists sp2. split; [rewrite acc_evs_app, Ha; exact Hb|]. split; [exact Hc2|]. repeat split; congruence.
  - inversion Hg; subst s2 ok evs; clear Hg. exists sp1. split; [exact Ha|]. split; [exact Hc1|]. repeat split; assumption.
Qed.

(* ---------- calls of the selected list ---------- *)
Lemma nfree_rel (s : cpool) sp ns n : CPR s sp -> cc_nfree _ gns gfree s ns = Some n ->
  exists l, find_list ns (a_lists sp) = Some l /\ l_nfree l = n /\ 0 < ns.
Proof.
  intros (Hinv & HL & _) Hn. unfold cc_nfree in Hn. destruct (c_find ns (cc_lists _ s)) as [g|] eqn:Hf; [|discriminate]. inversion Hn; subst n.
  destruct (find_rel _ _ _ _ _ HL Hf) as (l & Hfl & Hgr & Eg). destruct (GR_list _ _ Hgr) as (_ & _ & E). cbn in E.
  exists l. split; [exact Hfl|]. split; [exact E|]. rewrite <- Eg. apply (GR_pos _ _ Hgr).
Qed.

Lemma list_step_cr (s : cpool) sp ns o (s' : cpool) res : CPR s sp -> cc_list_step _ gns gstep s ns o = Some (s', res) ->
  exists l u', find_list ns (a_lists sp) = Some l /\ us_step {| us_rs := a_ranges sp; us_l := l |} o res = Some u' /\ l_ns l = ns /\
               (us_rs u' = a_ranges sp -> CR s' (with_list sp (us_l u'))).
Proof.
  intros Hcpr Hls. pose proof (nodup_gns _ _ Hcpr) as Hnd. destruct Hcpr as (Hinv & HL & Hsm & Hheld & Hc & Hcd & Hfr & Hfence).
  unfold cc_list_step in Hls. destruct (c_find ns (cc_lists _ s)) as [g|] eqn:Hf; [|discriminate].
  destruct (gstep g o) as [[g' res']|] eqn:Hs; [|discriminate]. inversion Hls; subst s' res'; clear Hls.
  destruct (list_step_rel _ _ _ _ _ _ _ _ HL Hnd Hf Hs) as (l & u' & Hfl & Hu & Ens' & Ens & Hk & Enf & Enf' & HL').
  exists l, u'. split; [exact Hfl|]. split; [exact Hu|]. split; [exact Ens|]. intros Ers. rewrite Ers in HL'.
  unfold CR, with_list, Fresh. cbn [a_lists a_ranges a_held cc_with cc_ar cc_top cc_lists cc_fence].
  split; [exact HL'|]. split; [apply c_set_forall; [assumption|]|repeat (split; [assumption|]); assumption].
  rewrite (gstep_ns _ _ _ _ Hs). rewrite Forall_forall in Hsm. apply Hsm. clear - Hf. induction (cc_lists G s) as [|g0 tl IH]; cbn in Hf; [discriminate|]. destruct (gns g0 =? ns); [inversion Hf; left; reflexivity|right; auto].
Qed.

Lemma take_node_refines (s : cpool) sp ns (s' : cpool) x : CPR s sp -> cc_take_node _ gns gstep s ns = Some (s', x) ->
  exists l l', find_list ns (a_lists sp) = Some l /\ take_slots (a_ranges sp) l x 1 = Some l' /\ CR s' (with_list sp l').
Proof.
  intros Hcpr Ht. unfold cc_take_node in Ht. destruct (cc_list_step _ gns gstep s ns UAlloc) as [[s1 [x1|]]|] eqn:Hls; try discriminate. inversion Ht; subst s1 x1; clear Ht.
  destruct (list_step_cr _ _ _ _ _ _ Hcpr Hls) as (l & u' & Hfl & Hu & Ens & Hcr). cbn [us_step us_l us_rs] in Hu.
  destruct (take_slots (a_ranges sp) l x 1) as [l'|] eqn:T; [|discriminate]. inversion Hu; subst u'. exists l, l'. split; [exact Hfl|]. split; [exact T|]. apply Hcr. reflexivity.
Qed.

Lemma take_array_refines (s : cpool) sp ns bytes (s' : cpool) res : CPR s sp -> cc_take_array _ gns gfree gstep s ns bytes = Some (s', res) ->
  match res with
  | Some x => exists l l', find_list ns (a_lists sp) = Some l /\ take_slots (a_ranges sp) l x (slots_needed ns bytes) = Some l' /\ CR s' (with_list sp l')
  | None => CR s' sp
  end.
Proof.
  intros Hcpr Ht. unfold cc_take_array in Ht. destruct (cc_nfree _ gns gfree s ns) as [n|] eqn:Hn; [|discriminate].
  destruct (n =? 0). { inversion Ht; subst. apply Hcpr. }
  unfold slots_needed. destruct (Z.leb_spec bytes ns) as [Hb|Hb].
  - destruct (cc_take_node _ gns gstep s ns) as [[s1 x]|] eqn:Htn; [|discriminate]. inversion Ht; subst s' res; clear Ht. apply (take_node_refines _ _ _ _ _ Hcpr Htn).
  - destruct (list_step_cr _ _ _ _ _ _ Hcpr Ht) as (l & u' & Hfl & Hu & Ens & Hcr). cbn [us_step us_l us_rs] in Hu. rewrite Ens in Hu. destruct res as [x|].
    + unfold slots_needed in Hu. destruct (Z.leb_spec bytes ns); [lia|].
      destruct (take_slots (a_ranges sp) l x ((bytes + ns - 1) / ns)) as [l'|] eqn:T; [|discriminate]. inversion Hu; subst u'. exists l, l'. split; [exact Hfl|]. split; [exact T|]. apply Hcr. reflexivity.
    + inversion Hu; subst u'. cbn [us_rs us_l] in Hcr. specialize (Hcr eq_refl). unfold with_list in Hcr. rewrite (set_list_id _ _ _ Hfl) in Hcr. destruct sp; exact Hcr.
Qed.

(* ---------- what PoolSpec.acc_op computes for the outcomes of a request ---------- *)
Lemma acc_alloc_ok sp try_ arr ns bytes evs sp1 l0 l l' x :
  find_list ns (a_lists sp) = Some l0 ->
  ((negb arr && (0 <? l_nfree l0) && existsb is_grow evs) || (try_ && existsb is_up evs)) = false ->
  acc_evs sp evs = Some sp1 -> find_list ns (a_lists sp1) = Some l -> take_slots (a_ranges sp1) l x (slots_needed ns bytes) = Some l' ->
  acc_op sp (OAlloc try_ arr ns bytes) evs (ObsOk x) = Some (with_list sp1 l').
Proof. intros H0 Hc He Hf Ht. unfold acc_op. rewrite H0, Hc, He, Hf, Ht. reflexivity. Qed.
Lemma acc_alloc_throw sp arr ns bytes evs sp1 l0 :
  find_list ns (a_lists sp) = Some l0 -> (negb arr && (0 <? l_nfree l0) && existsb is_grow evs) = false ->
  acc_evs sp evs = Some sp1 -> acc_op sp (OAlloc false arr ns bytes) evs ObsThrow = Some sp1.
Proof. intros H0 Hc He. unfold acc_op. rewrite H0, Hc, He. reflexivity. Qed.
Lemma acc_alloc_null sp arr ns bytes evs sp1 l0 :
  find_list ns (a_lists sp) = Some l0 -> (negb arr && (0 <? l_nfree l0)) = false -> existsb is_up evs = false ->
  acc_evs sp evs = Some sp1 -> acc_op sp (OAlloc true arr ns bytes) evs ObsNull = Some sp1.
Proof. intros H0 Hc Hu He. unfold acc_op. rewrite H0, Hc, Hu, He. reflexivity. Qed.

Lemma cpr_intro (s' : cpool) sp sp' o evs r : Inv sp -> acc_op sp o evs r = Some sp' -> CR s' sp' -> CPR s' sp'.
Proof. intros Hinv Hacc Hcr. split; [exact (acc_op_inv _ _ _ _ _ Hinv Hacc)|exact Hcr]. Qed.

Lemma defcap_nonneg (s : cpool) sp : CPR s sp -> 0 <= cc_defcap _ s.
Proof.
  intros (_ & _ & _ & _ & _ & _ & (b & rest & Hb & Htb & _) & _). unfold cc_defcap. rewrite Hb. unfold b_mem, b_end, b_usable in *.
  set (v := if cc_overhead _ s <? snd b - hdr then snd b - hdr - cc_overhead _ s else 0). assert (0 <= v) by (unfold v; destruct (Z.ltb_spec (cc_overhead _ s) (snd b - hdr)); lia).
  destruct (length (cc_lists _ s)) as [|k]; [cbn; rewrite Zdiv_0_r; lia|]. apply Z.div_pos; lia.
Qed.

(* ---------- the operations ---------- *)
Lemma guard_size size mx b : (size <=? 0) || (mx <? size) || (b <? size) = false -> 0 < size /\ size <= b.
Proof. intros H. apply orb_false_iff in H as [H H3]. apply orb_false_iff in H as [H _]. apply Z.leb_gt in H. apply Z.ltb_ge in H3. split; assumption. Qed.

Theorem alloc_node_refines (s : cpool) sp size answer (s' : cpool) r evs : CPR s sp ->
  (forall addr, answer = Some addr -> CWB sp addr (ar_next (cc_ar _ s))) ->
  cc_alloc_node _ gns gfree gstep bkt gusable s size answer = Some (s', r, evs) ->
  exists sp', acc_op sp (OAlloc false false (bkt size) size) evs r = Some sp' /\ CPR s' sp'.
Proof.
  intros Hcpr Hwb Hst. pose proof Hcpr as [Hinv _]. unfold cc_alloc_node in Hst.
  destruct ((size <=? 0) || (cc_max _ s <? size) || (bkt size <? size)) eqn:Hg; [discriminate|]. apply guard_size in Hg as [Hg Hge].
  set (ns := bkt size) in *.
  destruct (cc_nfree _ gns gfree s ns) as [n|] eqn:Hn; [|discriminate]. destruct (nfree_rel _ _ _ _ Hcpr Hn) as (l0 & Hf0 & En & Hns).
  assert (Hsl : slots_needed ns size = 1) by (unfold slots_needed; destruct (Z.leb_spec size ns); [reflexivity|lia]).
  assert (Hfin : forall (s1 : cpool) sp1 ev1 x, CPR s1 sp1 -> acc_evs sp ev1 = Some sp1 -> ((0 <? l_nfree l0) && existsb is_grow ev1 = false) ->
            cc_take_node _ gns gstep s1 ns = Some (s', x) -> exists sp', acc_op sp (OAlloc false false ns size) ev1 (ObsOk x) = Some sp' /\ CPR s' sp').
  { intros s1 sp1 ev1 x Hc1 Ha Hcond Ht. destruct (take_node_refines _ _ _ _ _ Hc1 Ht) as (l & l' & Hfl & T & Hcr).
    assert (Hacc : acc_op sp (OAlloc false false ns size) ev1 (ObsOk x) = Some (with_list sp1 l')).
    { apply (acc_alloc_ok sp false false ns size ev1 sp1 l0 l l' x Hf0); [cbn [negb andb orb]; rewrite Hcond; reflexivity|exact Ha|exact Hfl|rewrite Hsl; exact T]. }
    eexists. split; [exact Hacc|]. exact (cpr_intro _ _ _ _ _ _ Hinv Hacc Hcr). }
  destruct (Z.ltb_spec 0 n) as [Hpos|Hzero].
  - destruct (cc_take_node _ gns gstep s ns) as [[s1 x]|] eqn:Ht; [|discriminate]. inversion Hst; subst s1 r evs; clear Hst.
    apply (Hfin s sp [] x Hcpr eq_refl); [cbn; apply andb_false_r|exact Ht].
  - assert (Hn0 : (0 <? l_nfree l0) = false) by (apply Z.ltb_ge; lia).
    destruct (cc_try_reserve _ gns gstep gusable s ns (cc_defcap _ s)) as [[s0 ev0]|] eqn:Htr; [|discriminate].
    destruct (try_reserve_refines _ _ _ _ _ _ Hcpr (defcap_nonneg _ _ Hcpr) Htr) as (sp0 & Ha0 & Hc0 & Hup0 & _ & _ & _ & Hheld0 & Har0).
    destruct (cc_nfree _ gns gfree s0 ns) as [n0|] eqn:Hn0'; [|discriminate].
    destruct (0 <? n0).
    + destruct (cc_take_node _ gns gstep s0 ns) as [[s1 x]|] eqn:Ht; [|discriminate]. inversion Hst; subst s1 r evs; clear Hst.
      apply (Hfin s0 sp0 ev0 x Hc0 Ha0); [rewrite Hn0; reflexivity|exact Ht].
    + assert (Hwb0 : forall addr, answer = Some addr -> CWB sp0 addr (ar_next (cc_ar _ s0))) by (intros addr E; unfold CWB; rewrite Hheld0, Har0; apply Hwb; exact E).
      destruct (cc_grow _ gns gstep gusable s0 ns (cc_defcap _ s0) answer) as [[[s1 ok] ev1]|] eqn:Hgr; [|discriminate].
      destruct (grow_refines _ _ _ _ _ _ _ _ Hc0 (defcap_nonneg _ _ Hc0) Hwb0 Hgr) as (sp1 & Ha & Hc1 & _).
      assert (Hev : acc_evs sp (ev0 ++ ev1) = Some sp1) by (rewrite acc_evs_app, Ha0; exact Ha).
      destruct ok.
      * destruct (cc_take_node _ gns gstep s1 ns) as [[s2 x]|] eqn:Ht; [|discriminate]. inversion Hst; subst s2 r evs; clear Hst.
        apply (Hfin s1 sp1 (ev0 ++ ev1) x Hc1 Hev); [rewrite Hn0; reflexivity|exact Ht].
      * inversion Hst; subst s1 r evs; clear Hst.
        assert (Hacc : acc_op sp (OAlloc false false ns size) (ev0 ++ ev1) ObsThrow = Some sp1) by (apply (acc_alloc_throw sp false ns size (ev0 ++ ev1) sp1 l0 Hf0); [rewrite Hn0; reflexivity|exact Hev]).
        exists sp1. split; [exact Hacc|exact Hc1].
Qed.

Theorem try_alloc_node_refines (s : cpool) sp size (s' : cpool) r evs : CPR s sp ->
  cc_try_alloc_node _ gns gfree gstep bkt gusable s size = Some (s', r, evs) ->
  exists sp', acc_op sp (OAlloc true false (bkt size) size) evs r = Some sp' /\ CPR s' sp'.
Proof.
  intros Hcpr Hst. pose proof Hcpr as [Hinv _]. unfold cc_try_alloc_node in Hst.
  destruct ((size <=? 0) || (cc_max _ s <? size) || (bkt size <? size)) eqn:Hg; [discriminate|]. apply guard_size in Hg as [Hg Hge].
  set (ns := bkt size) in *.
  destruct (cc_nfree _ gns gfree s ns) as [n|] eqn:Hn; [|discriminate]. destruct (nfree_rel _ _ _ _ Hcpr Hn) as (l0 & Hf0 & En & Hns).
  assert (Hsl : slots_needed ns size = 1) by (unfold slots_needed; destruct (Z.leb_spec size ns); [reflexivity|lia]).
  destruct (Z.ltb_spec 0 n) as [Hpos|Hzero].
  - destruct (cc_take_node _ gns gstep s ns) as [[s1 x]|] eqn:Ht; [|discriminate]. inversion Hst; subst s1 r evs; clear Hst.
    destruct (take_node_refines _ _ _ _ _ Hcpr Ht) as (l & l' & Hfl & T & Hcr).
    assert (Hacc : acc_op sp (OAlloc true false ns size) [] (ObsOk x) = Some (with_list sp l')).
    { apply (acc_alloc_ok sp true false ns size [] sp l0 l l' x Hf0); [cbn; rewrite andb_false_r; reflexivity|reflexivity|exact Hfl|rewrite Hsl; exact T]. }
    eexists. split; [exact Hacc|]. exact (cpr_intro _ _ _ _ _ _ Hinv Hacc Hcr).
  - assert (Hn0 : (0 <? l_nfree l0) = false) by (apply Z.ltb_ge; lia).
    destruct (cc_try_reserve _ gns gstep gusable s ns (cc_defcap _ s)) as [[s1 ev1]|] eqn:Hgr; [|discriminate].
    destruct (try_reserve_refines _ _ _ _ _ _ Hcpr (defcap_nonneg _ _ Hcpr) Hgr) as (sp1 & Ha & Hc1 & Hup & _).
    destruct (cc_nfree _ gns gfree s1 ns) as [n1|] eqn:Hn1; [|discriminate].
    destruct (n1 =? 0).
    + inversion Hst; subst s1 r evs; clear Hst.
      assert (Hacc : acc_op sp (OAlloc true false ns size) ev1 ObsNull = Some sp1) by (apply (acc_alloc_null sp false ns size ev1 sp1 l0 Hf0); [rewrite Hn0; reflexivity|exact Hup|exact Ha]).
      exists sp1. split; [exact Hacc|exact Hc1].
    + destruct (cc_take_node _ gns gstep s1 ns) as [[s2 x]|] eqn:Ht; [|discriminate]. inversion Hst; subst s2 r evs; clear Hst.
      destruct (take_node_refines _ _ _ _ _ Hc1 Ht) as (l & l' & Hfl & T & Hcr).
      assert (Hacc : acc_op sp (OAlloc true false ns size) ev1 (ObsOk x) = Some (with_list sp1 l')).
      { apply (acc_alloc_ok sp true false ns size ev1 sp1 l0 l l' x Hf0); [rewrite Hn0, Hup; reflexivity|exact Ha|exact Hfl|rewrite Hsl; exact T]. }
      eexists. split; [exact Hacc|]. exact (cpr_intro _ _ _ _ _ _ Hinv Hacc Hcr).
Qed.

Theorem dealloc_refines (s : cpool) sp size bytes p (s' : cpool) r evs : CPR s sp ->
  cc_dealloc _ gns gstep bkt s size bytes p = Some (s', r, evs) ->
  exists sp', acc_op sp (ODealloc (bkt size) bytes p) evs r = Some sp' /\ CPR s' sp'.
Proof.
  intros Hcpr Hst. pose proof Hcpr as [Hinv _]. unfold cc_dealloc in Hst.
  destruct ((size <=? 0) || (cc_max _ s <? size) || (bkt size <? size)) eqn:Hg; [discriminate|]. set (ns := bkt size) in *.
  destruct (cc_list_step _ gns gstep s ns (if bytes <=? ns then UDealloc p else UDeallocArr p bytes)) as [[s1 res]|] eqn:Hls; [|discriminate].
  inversion Hst; subst s1 r evs; clear Hst.
  destruct (list_step_cr _ _ _ _ _ _ Hcpr Hls) as (l & u' & Hfl & Hu & Ens & Hcr).
  assert (Hgive : exists l', give_slots l p (slots_needed ns bytes) = Some l' /\ u' = {| us_rs := a_ranges sp; us_l := l' |}).
  { unfold slots_needed. destruct (bytes <=? ns) eqn:Hb; cbn [us_step us_l us_rs] in Hu; rewrite ?Ens in Hu.
    - destruct (give_slots l p 1) as [l'|]; [|discriminate]. inversion Hu. exists l'. split; reflexivity.
    - unfold slots_needed in Hu. rewrite Hb in Hu. destruct (give_slots l p ((bytes + ns - 1) / ns)) as [l'|]; [|discriminate]. inversion Hu. exists l'. split; reflexivity. }
  destruct Hgive as (l' & Hgv & ->). cbn [us_rs us_l] in Hcr.
  assert (Hacc : acc_op sp (ODealloc ns bytes p) [] ObsTrue = Some (with_list sp l')) by (unfold acc_op; rewrite Hfl, Hgv; reflexivity).
  eexists. split; [exact Hacc|]. exact (cpr_intro _ _ _ _ _ _ Hinv Hacc (Hcr eq_refl)).
Qed.

Lemma guard_size3 size mx b bytes : (size <=? 0) || (mx <? size) || (b <? size) || (bytes <? size) = false -> 0 < size /\ size <= bytes.
Proof. intros H. apply orb_false_iff in H as [H H3]. apply orb_false_iff in H as [H _]. apply orb_false_iff in H as [H _]. apply Z.leb_gt in H. apply Z.ltb_ge in H3. split; assumption. Qed.

(* the upstream answers an array request may use: the first for the default-capacity stage, the second -- judged in the state
   that stage leaves -- for the stage that reserves the array's own size *)
Definition array_answers_ok (s : cpool) (sp : ast) (size : Z) (answer1 answer2 : option Z) : Prop :=
  (forall addr, answer1 = Some addr -> CWB sp addr (ar_next (cc_ar _ s))) /\
  (forall s1 ev1 sp1, cc_grow _ gns gstep gusable s (bkt size) (cc_defcap _ s) answer1 = Some (s1, true, ev1) -> acc_evs sp ev1 = Some sp1 ->
     forall addr, answer2 = Some addr -> CWB sp1 addr (ar_next (cc_ar _ s1))).

Theorem alloc_array_refines (s : cpool) sp size bytes answer1 answer2 (s' : cpool) r evs : CPR s sp ->
  array_answers_ok s sp size answer1 answer2 ->
  cc_alloc_array _ gns gfree gstep bkt gusable s size bytes answer1 answer2 = Some (s', r, evs) ->
  exists sp', acc_op sp (OAlloc false true (bkt size) bytes) evs r = Some sp' /\ CPR s' sp'.
Proof.
  intros Hcpr [Hwb1 Hwb2] Hst. pose proof Hcpr as [Hinv _]. unfold cc_alloc_array in Hst.
  destruct ((size <=? 0) || (cc_max _ s <? size) || (bkt size <? size) || (bytes <? size)) eqn:Hg; [discriminate|]. apply guard_size3 in Hg as [Hg Hgb].
  set (ns := bkt size) in *.
  destruct (cc_take_array _ gns gfree gstep s ns bytes) as [[s0 res0]|] eqn:Ht0; [|discriminate].
  assert (Hf0 : exists l0, find_list ns (a_lists sp) = Some l0 /\ 0 < ns).
  { unfold cc_take_array in Ht0. destruct (cc_nfree _ gns gfree s ns) as [n|] eqn:Hn; [|discriminate]. destruct (nfree_rel _ _ _ _ Hcpr Hn) as (l0 & H0 & _ & Hp). exists l0. split; assumption. }
  destruct Hf0 as (l0 & Hf0 & Hns).
  pose proof (take_array_refines _ _ _ _ _ _ Hcpr Ht0) as H0. destruct res0 as [x|].
  { inversion Hst; subst s0 r evs; clear Hst. destruct H0 as (l & l' & Hfl & T & Hcr).
    assert (Hacc : acc_op sp (OAlloc false true ns bytes) [] (ObsOk x) = Some (with_list sp l')) by (apply (acc_alloc_ok sp false true ns bytes [] sp l0 l l' x Hf0); [reflexivity|reflexivity|exact Hfl|exact T]).
    eexists. split; [exact Hacc|]. exact (cpr_intro _ _ _ _ _ _ Hinv Hacc Hcr). }
  clear H0 Ht0 s0.
  destruct (cc_grow _ gns gstep gusable s ns (cc_defcap _ s) answer1) as [[[s1 ok] ev1]|] eqn:Hgr; [|discriminate].
  destruct (grow_refines _ _ _ _ _ _ _ _ Hcpr (defcap_nonneg _ _ Hcpr) Hwb1 Hgr) as (sp1 & Ha & Hc1 & Hfe1 & _).
  destruct ok.
  2:{ inversion Hst; subst s1 r evs; clear Hst.
      assert (Hacc : acc_op sp (OAlloc false true ns bytes) ev1 ObsThrow = Some sp1) by (apply (acc_alloc_throw sp true ns bytes ev1 sp1 l0 Hf0); [reflexivity|exact Ha]).
      exists sp1. split; [exact Hacc|exact Hc1]. }
  destruct (cc_take_array _ gns gfree gstep s1 ns bytes) as [[s2 res1]|] eqn:Ht1; [|discriminate].
  pose proof (take_array_refines _ _ _ _ _ _ Hc1 Ht1) as H1. destruct res1 as [x|].
  { inversion Hst; subst s2 r evs; clear Hst. destruct H1 as (l & l' & Hfl & T & Hcr).
    assert (Hacc : acc_op sp (OAlloc false true ns bytes) ev1 (ObsOk x) = Some (with_list sp1 l')) by (apply (acc_alloc_ok sp false true ns bytes ev1 sp1 l0 l l' x Hf0); [reflexivity|exact Ha|exact Hfl|exact T]).
    eexists. split; [exact Hacc|]. exact (cpr_intro _ _ _ _ _ _ Hinv Hacc Hcr). }
  clear H1 Ht1 s2.
  destruct ((if 2 * cc_fence _ s + maxalZ + ns <? ar_next_block_size (cc_ar _ s1) mod 2^64 then ar_next_block_size (cc_ar _ s1) mod 2^64 - (2 * cc_fence _ s + maxalZ + ns) else 0) <? bytes).
  { inversion Hst; subst s1 r evs; clear Hst.
    assert (Hacc : acc_op sp (OAlloc false true ns bytes) ev1 ObsThrow = Some sp1) by (apply (acc_alloc_throw sp true ns bytes ev1 sp1 l0 Hf0); [reflexivity|exact Ha]).
    exists sp1. split; [exact Hacc|exact Hc1]. }
  destruct (cc_grow _ gns gstep gusable s1 ns ((bytes + ns - 1) / ns * ns) answer2) as [[[s2 ok2] ev2]|] eqn:Hgr2; [|discriminate].
  assert (Hcap2 : 0 <= (bytes + ns - 1) / ns * ns) by (apply Z.mul_nonneg_nonneg; [apply Z.div_pos; lia|lia]).
  destruct (grow_refines _ _ _ _ _ _ _ _ Hc1 Hcap2 (Hwb2 s1 ev1 sp1 eq_refl Ha) Hgr2) as (sp2 & Hb & Hc2 & _).
  assert (Hev : acc_evs sp (ev1 ++ ev2) = Some sp2) by (rewrite acc_evs_app, Ha; exact Hb).
  destruct ok2.
  2:{ inversion Hst; subst s2 r evs; clear Hst.
      assert (Hacc : acc_op sp (OAlloc false true ns bytes) (ev1 ++ ev2) ObsThrow = Some sp2) by (apply (acc_alloc_throw sp true ns bytes (ev1 ++ ev2) sp2 l0 Hf0); [reflexivity|exact Hev]).
      exists sp2. split; [exact Hacc|exact Hc2]. }
  destruct (cc_take_array _ gns gfree gstep s2 ns bytes) as [[s3 [x|]]|] eqn:Ht2; try discriminate.
  inversion Hst; subst s3 r evs; clear Hst. pose proof (take_array_refines _ _ _ _ _ _ Hc2 Ht2) as (l & l' & Hfl & T & Hcr).
  assert (Hacc : acc_op sp (OAlloc false true ns bytes) (ev1 ++ ev2) (ObsOk x) = Some (with_list sp2 l')) by (apply (acc_alloc_ok sp false true ns bytes (ev1 ++ ev2) sp2 l0 l l' x Hf0); [reflexivity|exact Hev|exact Hfl|exact T]).
  eexists. split; [exact Hacc|]. exact (cpr_intro _ _ _ _ _ _ Hinv Hacc Hcr).
Qed.

Theorem try_alloc_array_refines (s : cpool) sp size bytes (s' : cpool) r evs : CPR s sp ->
  cc_try_alloc_array _ gns gfree gstep bkt gusable s size bytes = Some (s', r, evs) ->
  exists sp', acc_op sp (OAlloc true true (bkt size) bytes) evs r = Some sp' /\ CPR s' sp'.
Proof.
  intros Hcpr Hst. pose proof Hcpr as [Hinv _]. unfold cc_try_alloc_array in Hst.
  destruct ((size <=? 0) || (cc_max _ s <? size) || (bkt size <? size) || (bytes <? size)) eqn:Hg; [discriminate|]. apply guard_size3 in Hg as [Hg Hgb].
  set (ns := bkt size) in *.
  destruct (cc_nfree _ gns gfree s ns) as [n|] eqn:Hn; [|discriminate]. destruct (nfree_rel _ _ _ _ Hcpr Hn) as (l0 & Hf0 & En & Hns).
  assert (Hfin : forall (s1 : cpool) sp1 ev1 res, CPR s1 sp1 -> acc_evs sp ev1 = Some sp1 -> existsb is_up ev1 = false ->
            cc_take_array _ gns gfree gstep s1 ns bytes = Some (s', res) -> r = (match res with Some x => ObsOk x | None => ObsNull end) ->
            exists sp', acc_op sp (OAlloc true true ns bytes) ev1 r = Some sp' /\ CPR s' sp').
  { intros s1 sp1 ev1 res Hc1 Ha Hup Ht ->. pose proof (take_array_refines _ _ _ _ _ _ Hc1 Ht) as H1. destruct res as [x|].
    - destruct H1 as (l & l' & Hfl & T & Hcr).
      assert (Hacc : acc_op sp (OAlloc true true ns bytes) ev1 (ObsOk x) = Some (with_list sp1 l')) by (apply (acc_alloc_ok sp true true ns bytes ev1 sp1 l0 l l' x Hf0); [rewrite Hup; reflexivity|exact Ha|exact Hfl|exact T]).
      eexists. split; [exact Hacc|]. exact (cpr_intro _ _ _ _ _ _ Hinv Hacc Hcr).
    - assert (Hacc : acc_op sp (OAlloc true true ns bytes) ev1 ObsNull = Some sp1) by (apply (acc_alloc_null sp true ns bytes ev1 sp1 l0 Hf0); [reflexivity|exact Hup|exact Ha]).
      exists sp1. split; [exact Hacc|]. exact (cpr_intro _ _ _ _ _ _ Hinv Hacc H1). }
  destruct (0 <? n).
  - destruct (cc_take_array _ gns gfree gstep s ns bytes) as [[s1 res]|] eqn:Ht; [|discriminate].
    assert (E : s1 = s' /\ evs = [] /\ r = match res with Some x => ObsOk x | None => ObsNull end) by (destruct res; inversion Hst; repeat split).
    destruct E as (-> & -> & Er). apply (Hfin s sp [] res Hcpr eq_refl eq_refl Ht Er).
  - destruct (cc_try_reserve _ gns gstep gusable s ns (cc_defcap _ s)) as [[s1 ev1]|] eqn:Hgr; [|discriminate].
    destruct (try_reserve_refines _ _ _ _ _ _ Hcpr (defcap_nonneg _ _ Hcpr) Hgr) as (sp1 & Ha & Hc1 & Hup & _).
    destruct (cc_take_array _ gns gfree gstep s1 ns bytes) as [[s2 res]|] eqn:Ht; [|discriminate].
    assert (E : s2 = s' /\ evs = ev1 /\ r = match res with Some x => ObsOk x | None => ObsNull end) by (destruct res; inversion Hst; repeat split).
    destruct E as (-> & -> & Er). apply (Hfin s1 sp1 ev1 res Hc1 Ha Hup Ht Er).
Qed.

(* reserve(): its events are accepted and the relation holds afterwards; the reserved memory is the pool's *)
Theorem reserve_op_refines (s : cpool) sp size cap answer (s2 : cpool) ok evs : CPR s sp -> 0 <= cap ->
  (forall addr, answer = Some addr -> CWB sp addr (ar_next (cc_ar _ s))) ->
  cc_reserve_op _ gns gstep bkt gusable s size cap answer = Some (s2, ok, evs) ->
  exists sp2, acc_evs sp evs = Some sp2 /\ CPR s2 sp2 /\ (ok = true -> exists m, In (EIns (bkt size) m cap) evs).
Proof.
  intros Hcpr Hcap Hwb Hr. unfold cc_reserve_op in Hr. destruct (_ || _); [discriminate|].
  destruct (grow_refines _ _ _ _ _ _ _ _ Hcpr Hcap Hwb Hr) as (sp2 & Ha & Hc2 & _). exists sp2. split; [exact Ha|]. split; [exact Hc2|].
  intros ->. unfold cc_grow in Hr. destruct (cc_reserve _ gns gstep gusable s (bkt size) cap answer) as [[[s1 [m|]] ev1]|]; try discriminate.
  destruct (cc_insert _ gns gstep gusable s1 (bkt size) m cap) as [[sb ev2]|] eqn:Hins; [|discriminate]. inversion Hr; subst.
  exists m. apply in_or_app. right. unfold cc_insert in Hins. destruct (_ <=? _); [|discriminate]. destruct (cc_list_step _ _ _ _ _ _) as [[? ?]|]; [|discriminate]. inversion Hins. left. reflexivity.
Qed.

(* ---------- steps and histories ---------- *)
Definition coll_answer_ok (s : cpool) (sp : ast) (o : coll_op) : Prop :=
  match o with
  | CAllocNode _ answer => forall addr, answer = Some addr -> CWB sp addr (ar_next (cc_ar _ s))
  | CAllocArray size _ a1 a2 => array_answers_ok s sp size a1 a2
  | _ => True
  end.

Theorem coll_step_refines (s : cpool) sp o (s' : cpool) r evs : CPR s sp -> coll_answer_ok s sp o ->
  cc_step _ gns gfree gstep bkt gusable s o = Some (s', r, evs) -> exists sp', acc_op sp (cc_spec_op bkt o) evs r = Some sp' /\ CPR s' sp'.
Proof.
  intros Hcpr Hok Hst. destruct o as [size answer|size|size bytes a1 a2|size bytes|size bytes p]; cbn [cc_step cc_spec_op coll_answer_ok] in *.
  - exact (alloc_node_refines _ _ _ _ _ _ _ Hcpr Hok Hst).
  - exact (try_alloc_node_refines _ _ _ _ _ _ Hcpr Hst).
  - exact (alloc_array_refines _ _ _ _ _ _ _ _ _ Hcpr Hok Hst).
  - exact (try_alloc_array_refines _ _ _ _ _ _ _ Hcpr Hst).
  - exact (dealloc_refines _ _ _ _ _ _ _ _ Hcpr Hst).
Qed.

Fixpoint coll_answers_ok (s : cpool) (sp : ast) (os : list coll_op) : Prop :=
  match os with
  | [] => True
  | o :: tl => coll_answer_ok s sp o /\
      forall s' r evs sp', cc_step _ gns gfree gstep bkt gusable s o = Some (s', r, evs) -> acc_op sp (cc_spec_op bkt o) evs r = Some sp' -> coll_answers_ok s' sp' tl
  end.

Theorem coll_refines_spec : forall os (s : cpool) sp (s' : cpool) tr, CPR s sp -> coll_answers_ok s sp os ->
  cc_run _ gns gfree gstep bkt gusable s os = Some (s', tr) -> exists sp', run sp tr = Some sp' /\ CPR s' sp'.
Proof.
  induction os as [|o tl IH]; intros s sp s' tr Hcpr Hok Hrun; cbn [cc_run] in Hrun.
  - inversion Hrun; subst. exists sp. split; [reflexivity|exact Hcpr].
  - destruct (cc_step _ gns gfree gstep bkt gusable s o) as [[[s1 r] evs]|] eqn:E; [|discriminate].
    destruct (cc_run _ gns gfree gstep bkt gusable s1 tl) as [[s2 tr1]|] eqn:E2; [|discriminate]. inversion Hrun; subst s' tr; clear Hrun.
    destruct Hok as [Hok1 Hok2]. destruct (coll_step_refines _ _ _ _ _ _ Hcpr Hok1 E) as (sp1 & Hacc & Hc1).
    cbn [run]. rewrite Hacc. apply (IH s1 sp1 s2 tr1 Hc1 (Hok2 _ _ _ _ E Hacc) E2).
Qed.

(* ---------- corollaries: the Spec-level theorems read on the Exec collection ---------- *)
(* C02: a served request is backed by k whole nodes of the serving list, consecutive, all of them out afterwards, covering the
   requested bytes *)
Corollary coll_served_request_covered (s : cpool) sp o (s' : cpool) x evs : CPR s sp -> coll_answer_ok s sp o ->
  cc_step _ gns gfree gstep bkt gusable s o = Some (s', ObsOk x, evs) ->
  forall try_ arr ns bytes, cc_spec_op bkt o = OAlloc try_ arr ns bytes -> 0 <= bytes ->
  exists sp' l', CPR s' sp' /\ find_list ns (a_lists sp') = Some l' /\
    1 <= slots_needed ns bytes /\ bytes <= slots_needed ns bytes * ns /\ In (x, slots_needed ns bytes) (l_allocs l') /\
    (forall i, (i < Z.to_nat (slots_needed ns bytes))%nat -> In (x + Z.of_nat i * ns) (live_slots l')).
Proof.
  intros Hcpr Hok Hst try_ arr ns bytes Hop Hb. destruct (coll_step_refines _ _ _ _ _ _ Hcpr Hok Hst) as (sp' & Hacc & Hc').
  rewrite Hop in Hacc. destruct (alloc_result _ _ _ _ _ _ _ _ (proj1 Hcpr) Hb Hacc) as (l' & Hf & H1 & H2 & H3 & H4).
  exists sp', l'. split; [exact Hc'|]. split; [exact Hf|]. split; [exact H1|]. split; [exact H2|]. split; [exact H4|exact H3].
Qed.

(* C03: try_ functions never throw and never reach the block source; throwing functions never return null; a refused
   request leaves every list's allocations as they were and loses no free node *)
Corollary coll_outcome_discipline (s : cpool) sp o (s' : cpool) r evs : CPR s sp -> coll_answer_ok s sp o ->
  cc_step _ gns gfree gstep bkt gusable s o = Some (s', r, evs) ->
  forall try_ arr ns bytes, cc_spec_op bkt o = OAlloc try_ arr ns bytes ->
  (try_ = true -> r <> ObsThrow /\ existsb is_up evs = false) /\ (try_ = false -> r <> ObsNull) /\
  (r = ObsNull \/ r = ObsThrow -> exists sp', CPR s' sp' /\ forall key,
     match find_list key (a_lists sp), find_list key (a_lists sp') with
     | Some l, Some l' => l_allocs l' = l_allocs l /\ l_nfree l <= l_nfree l'
     | None, None => True
     | _, _ => False
     end).
Proof.
  intros Hcpr Hok Hst try_ arr ns bytes Hop. destruct (coll_step_refines _ _ _ _ _ _ Hcpr Hok Hst) as (sp' & Hacc & Hc').
  rewrite Hop in Hacc. destruct (outcome_discipline _ _ _ _ _ _ _ _ Hacc) as [H1 H2]. split; [exact H1|]. split; [exact H2|].
  intros Hr. exists sp'. split; [exact Hc'|]. intros key. exact (refused_request_keeps_allocations _ _ _ _ _ _ _ _ key Hacc Hr).
Qed.

(* C04: over any history of the Exec collection no list loses capacity: once everything taken from a list has been released,
   pool_capacity_left of that list is at least what it was *)
Corollary coll_capacity_never_lost os (s : cpool) sp (s' : cpool) tr : CPR s sp -> coll_answers_ok s sp os ->
  cc_run _ gns gfree gstep bkt gusable s os = Some (s', tr) ->
  exists sp', run sp tr = Some sp' /\ CPR s' sp' /\
    forall key n n', cc_nfree _ gns gfree s key = Some n -> cc_nfree _ gns gfree s' key = Some n' ->
      (forall l', find_list key (a_lists sp') = Some l' -> l_allocs l' = []) -> n <= n'.
Proof.
  intros Hcpr Hok Hrun. destruct (coll_refines_spec _ _ _ _ _ Hcpr Hok Hrun) as (sp' & Hr & Hc'). exists sp'. split; [exact Hr|]. split; [exact Hc'|].
  intros key n n' Hn Hn' Hrel. destruct (nfree_rel _ _ _ _ Hcpr Hn) as (l & Hf & <- & _). destruct (nfree_rel _ _ _ _ Hc' Hn') as (l' & Hf' & <- & _).
  exact (capacity_never_lost _ _ _ _ _ _ (proj1 Hcpr) Hr Hf Hf' (Hrel l' Hf')).
Qed.

(* C05: the collection's destructor is its arena's: the blocks go back newest first, each once, with the address and size they
   were obtained with -- exactly the blocks the Spec holds *)
Corollary coll_destruction_returns_every_block (s : cpool) sp : CPR s sp ->
  ar_destroy_calls (cc_ar _ s) = map (fun b => UFree (fst b) (snd b)) (a_held sp) /\ destroy_ok sp (a_held sp) = true.
Proof.
  intros (_ & _ & _ & Hheld & Hc & _). unfold ar_destroy_calls. rewrite Hc, Hheld. cbn [rev map app]. split; [reflexivity|].
  unfold destroy_ok. rewrite Hheld. rewrite Nat.eqb_refl. cbn [andb]. clear. induction (ar_used (cc_ar _ s)) as [|b tl IH]; cbn; [reflexivity|]. rewrite !Z.eqb_refl. cbn [andb]. exact IH.
Qed.

(* ---------- the constructor ---------- *)
Theorem construct_refines mk nlists k fence max bs flsize flalign answer (s : cpool) ok evs ls :
  Inv (mk_ast ls) -> (forall m, ListsR [] (mk m) ls) -> (forall m, Forall (fun g => gns g < 2^64) (mk m)) ->
  0 <= fence -> 0 < flalign -> 0 < Z.of_nat nlists * flsize ->
  (forall addr, answer = Some addr -> CWB (mk_ast ls) addr bs) ->
  cc_construct _ gusable mk nlists k fence max bs flsize flalign answer = Some (s, ok, evs) ->
  exists sp, acc_evs (mk_ast ls) evs = Some sp /\ (ok = true -> CPR s sp).
Proof.
  intros Hinv HL Hsm Hfence Hfa Hsz Hwb Hc. unfold cc_construct, cc_new_block, astep, ar_init in Hc. cbn [cc_ar ar_cache ar_kind ar_next ar_used] in Hc.
  assert (Hfail : forall e, e = [] \/ e = [EUpFail] -> exists sp, acc_evs (mk_ast ls) e = Some sp /\ (false = true -> CPR s sp)).
  { intros e [->| ->]; exists (mk_ast ls); (split; [reflexivity|discriminate]). }
  destruct (match k with AFixed => (bs =? 0) | _ => false end) eqn:Hfix.
  { assert (E : Some (s, ok, evs) = Some (cc_with _ {| cc_ar := ar_init k false bs; cc_top := 0; cc_lists := []; cc_fence := fence; cc_max := max |} (ar_init k false bs) 0 [], false, [])).
    { rewrite <- Hc. destruct k; try discriminate. rewrite Hfix. reflexivity. }
    inversion E; subst. apply Hfail. left. reflexivity. }
  destruct answer as [x|].
  2:{ assert (E : exists s0, Some (s, ok, evs) = Some (s0, false, [EUpFail])) by (rewrite <- Hc; destruct k; try rewrite Hfix; eexists; reflexivity).
      destruct E as (s0 & E). inversion E; subst. apply Hfail. right. reflexivity. }
  clear Hfail. pose proof (Hwb x eq_refl) as Hw. clear Hwb. destruct chdr_eq as (Eh & Eh16 & Emax).
  set (a' := ar_set (ar_init k false bs) [(x, bs)] [] (match k with AGrow => 2 * bs | AFixed => 0 | AConst => bs end)).
  assert (Hc' : Some (s, ok, evs) =
     match fs_alloc fence (b_mem (x, bs)) (b_end (x, bs)) (Z.of_nat nlists * flsize) flalign with
     | Some (m, top') => Some ({| cc_ar := a'; cc_top := top'; cc_lists := mk m; cc_fence := fence; cc_max := max |},
                               max <=? gusable max (cc_defcap _ {| cc_ar := a'; cc_top := top'; cc_lists := mk m; cc_fence := fence; cc_max := max |}), [EUp (b_mem (x, bs) - hdrZ) (b_usable (x, bs) + hdrZ)] ++ [EResv m (Z.of_nat nlists * flsize)])
     | None => None end).
  { rewrite <- Hc. destruct k; try rewrite Hfix; reflexivity. }
  clear Hc. destruct (fs_alloc fence (b_mem (x, bs)) (b_end (x, bs)) (Z.of_nat nlists * flsize) flalign) as [[m top']|] eqn:Hfs; [|discriminate].
  inversion Hc'; subst s ok evs; clear Hc'.
  destruct (fs_alloc_spec fence (b_mem (x, bs)) (b_end (x, bs)) (Z.of_nat nlists * flsize) flalign m top' Hfa Hfence ltac:(lia) Hfs) as (Hne & Hlo & Hhi & Hal & Htop & Hend).
  unfold b_mem, b_end, b_usable in *. cbn [fst snd] in *. replace (x + hdr - hdrZ) with x by lia. replace (bs - hdr + hdrZ) with bs by lia.
  unfold CWB in Hw. cbn [mk_ast a_held forallb] in Hw.
  assert (Hup : acc_ev (mk_ast ls) (EUp x bs) = Some {| a_lists := ls; a_ranges := []; a_held := [(x, bs)] |}) by (cbn [acc_ev mk_ast a_held a_lists a_ranges forallb]; rewrite Hw; reflexivity).
  set (sz := Z.of_nat nlists * flsize) in *.
  assert (Hrv : acc_ev {| a_lists := ls; a_ranges := []; a_held := [(x, bs)] |} (EResv m sz) = Some {| a_lists := ls; a_ranges := [(0, (m, sz))]; a_held := [(x, bs)] |}).
  { cbn [acc_ev]. assert (Hr : range_ok {| a_lists := ls; a_ranges := []; a_held := [(x, bs)] |} (m, sz) = true).
    { unfold range_ok. cbn [fst snd a_held a_ranges forallb existsb]. rewrite andb_true_r, orb_false_r. apply andb_true_iff. split; [apply Z.ltb_lt; lia|].
      apply r_inside_spec. unfold rng_inside, usable. cbn [fst snd]. lia. }
    rewrite Hr. reflexivity. }
  eexists. split; [cbn [app acc_evs]; rewrite Hup; cbn [acc_evs]; rewrite Hrv; reflexivity|]. intros _.
  split; [exact (acc_ev_inv _ _ _ (acc_ev_inv _ _ _ Hinv Hup) Hrv)|].
  unfold CR, Fresh. cbn [a_lists a_ranges a_held cc_ar cc_top cc_lists cc_fence]. unfold a'. cbn [ar_set ar_used ar_cache ar_cached ar_init].
  split. { eapply Forall2_impl_in; [exact (HL m)|]. intros g l _ Hg. apply (GR_ranges g []); [|exact Hg]. intros a. symmetry. apply uslotb_other. pose proof (GR_pos _ _ Hg). lia. }
  split; [apply Hsm|]. split; [reflexivity|]. split; [reflexivity|]. split; [reflexivity|]. split; [|exact Hfence].
  exists (x, bs), []. split; [reflexivity|]. unfold b_mem, b_end. cbn [fst snd]. split; [lia|]. intros r [<-|[]]. left. cbn [fst snd]. lia.
Qed.

(* ---------- progress: node requests never reach an assertion of the implementation ---------- *)
(* what a list must offer beyond refinement: a non-empty list hands out a node; memory that no range given to the list touches
   can be inserted; usable_size is monotone *)
Hypothesis gprog_alloc : forall g s, GR g s -> 0 < gfree g -> exists g' x, gstep g UAlloc = Some (g', Some x).
Hypothesis gprog_ins : forall g rs l m size, GR g {| us_rs := rs; us_l := l |} -> 0 < size -> gns g <= gusable (gns g) size ->
  (forall x, In x rs -> 0 < snd (snd x) /\ (fst (snd x) + snd (snd x) <= m \/ m + size <= fst (snd x))) ->
  exists g', gstep g (UIns m size) = Some (g', None).
Hypothesis gusable_mono_ns : forall ns ns' size, 0 <= size < 2^64 -> 0 < ns <= ns' -> ns' <= gusable ns' size -> ns <= gusable ns size.
Hypothesis gusable_mono_size : forall ns s1 s2, 0 <= s1 <= s2 -> s2 < 2^64 -> ns <= gusable ns s1 -> ns <= gusable ns s2.

(* what the constructor establishes beyond the relation, and every operation keeps *)
Definition Ext (s : cpool) : Prop :=
  Forall (fun g => gns g <= cc_max _ s) (cc_lists _ s) /\ 0 < cc_max _ s /\ (cc_max _ s <= gusable (cc_max _ s) (cc_defcap _ s) /\ cc_defcap _ s < 2^64) /\
  (forall size, 0 < size <= cc_max _ s -> size <= bkt size /\ c_find (bkt size) (cc_lists _ s) <> None) /\
  (1 <= length (cc_lists _ s))%nat /\
  match ar_kind (cc_ar _ s) with
  | AFixed => ar_next (cc_ar _ s) = 0
  | _ => forall b rest, ar_used (cc_ar _ s) = b :: rest -> snd b <= ar_next (cc_ar _ s)
  end.

Lemma c_find_in ns gs g : c_find ns gs = Some g -> In g gs /\ gns g = ns.
Proof.
  induction gs as [|g0 tl IH]; cbn; [discriminate|]. destruct (Z.eqb_spec (gns g0) ns) as [E|E]; intros H.
  - inversion H; subst g0. split; [left; reflexivity|exact E].
  - destruct (IH H) as [H1 H2]. split; [right; exact H1|exact H2].
Qed.
Lemma c_find_set ns gs g g' : c_find ns gs = Some g -> gns g' = ns -> c_find ns (c_set g' gs) = Some g'.
Proof.
  intros Hf Eg. induction gs as [|g0 tl IH]; cbn in *; [discriminate|]. rewrite Eg. destruct (Z.eqb_spec (gns g0) ns) as [E|E].
  - cbn. rewrite Eg, Z.eqb_refl. reflexivity.
  - cbn. destruct (Z.eqb_spec (gns g0) ns); [contradiction|]. apply IH. exact Hf.
Qed.
Lemma c_find_set_other ns ns' gs g' : gns g' = ns' -> ns <> ns' -> c_find ns (c_set g' gs) = c_find ns gs.
Proof.
  intros Eg Hne. induction gs as [|g0 tl IH]; cbn; [reflexivity|]. rewrite Eg. destruct (Z.eqb_spec (gns g0) ns') as [E|E]; cbn.
  - rewrite Eg. destruct (Z.eqb_spec ns' ns); [congruence|]. destruct (Z.eqb_spec (gns g0) ns); [congruence|reflexivity].
  - destruct (gns g0 =? ns); [reflexivity|exact IH].
Qed.
Lemma c_find_set_some ns gs g' g : c_find (gns g') gs = Some g -> c_find ns (c_set g' gs) <> None <-> c_find ns gs <> None.
Proof.
  intros Hf. destruct (Z.eq_dec ns (gns g')) as [->|Hne].
  - rewrite (c_find_set _ _ _ _ Hf eq_refl), Hf. split; discriminate.
  - rewrite (c_find_set_other ns (gns g') gs g' eq_refl Hne). reflexivity.
Qed.

(* the spec sees no range twice: every range of a related state is positive (Inv) *)
Lemma ranges_pos sp : Inv sp -> forall x, In x (a_ranges sp) -> 0 < snd (snd x).
Proof. intros Hinv x Hx. pose proof (i_pos _ Hinv) as H. rewrite Forall_forall in H. apply H. exact Hx. Qed.

(* pool.insert of reserved memory succeeds and leaves the list with a node *)
Lemma insert_progress (s : cpool) sp ns m size g : CPR s sp -> Reserved s sp m size -> c_find ns (cc_lists _ s) = Some g ->
  ns <= gusable ns size ->
  exists s' evs, cc_insert _ gns gstep gusable s ns m size = Some (s', evs) /\
    (exists n', cc_nfree _ gns gfree s' ns = Some n' /\ 0 < n') /\
    (exists g2 rs l, GR g {| us_rs := rs; us_l := l |} /\ gstep g (UIns m size) = Some (g2, None) /\ c_find ns (cc_lists _ s') = Some g2).
Proof.
  intros Hcpr Hres Hf Hus. pose proof Hcpr as (Hinv & HL & _). destruct (find_rel _ _ _ _ _ HL Hf) as (l & Hfl & Hgr & Eg).
  pose proof (GR_pos _ _ Hgr) as Hpos. destruct (gusable_nodes ns m size ltac:(lia) Hus) as [Hnodes Hsize].
  destruct Hres as (b & rest & Hb & Hbm & Htop & Hal & Hdis).
  assert (Hfr : Fresh s sp) by apply Hcpr. destruct Hfr as (b' & rest' & Hb' & Htb & _). rewrite Hb in Hb'. inversion Hb'; subst b' rest'.
  destruct (gprog_ins g (a_ranges sp) l m size Hgr Hsize ltac:(rewrite Eg; exact Hus)) as (g' & Hs).
  { intros x Hx. split; [apply (ranges_pos _ Hinv); exact Hx|]. destruct (Hdis x Hx); [left; assumption|right; lia]. }
  assert (Hins : cc_insert _ gns gstep gusable s ns m size = Some (cc_with _ s (cc_ar _ s) (cc_top _ s) (c_set g' (cc_lists _ s)), [EIns ns m size])).
  { unfold cc_insert. destruct (Z.leb_spec ns (gusable ns size)); [|lia]. unfold cc_list_step. rewrite Hf, Hs. reflexivity. }
  eexists _, _. split; [exact Hins|]. split.
  2:{ exists g', (a_ranges sp), l. split; [exact Hgr|]. split; [exact Hs|]. cbn [cc_with cc_lists]. apply (c_find_set _ _ _ _ Hf (eq_trans (gstep_ns _ _ _ _ Hs) Eg)). }
  pose proof (nodup_gns _ _ Hcpr) as Hnd.
  destruct (list_step_rel _ _ _ _ _ _ _ _ HL Hnd Hf Hs) as (l1 & u' & Hfl1 & Hu & _ & _ & Hk & Enf & Enf' & _).
  rewrite Hfl in Hfl1. inversion Hfl1; subst l1. cbn [us_step us_l us_rs] in Hu. inversion Hu; subst u'. cbn [us_l l_nfree] in Enf'.
  unfold cc_nfree. cbn [cc_with cc_lists]. rewrite (c_find_set _ _ _ _ Hf (eq_trans (gstep_ns _ _ _ _ Hs) Eg)). eexists. split; [reflexivity|].
  rewrite <- Enf'. destruct (GR_list _ _ Hgr) as (Hk0 & Hns0 & _). cbn [us_l] in Hk0, Hns0. rewrite Hk0, Hns0, Eg.
  assert (0 <= l_nfree l).
  { destruct (find_list_In _ _ _ Hfl) as [Hin _]. destruct (capacity_is_exact sp l Hinv Hin) as (_ & H0 & _). exact H0. }
  lia.
Qed.

Lemma take_progress (s : cpool) sp ns n : CPR s sp -> cc_nfree _ gns gfree s ns = Some n -> 0 < n ->
  exists s' x, cc_take_node _ gns gstep s ns = Some (s', x).
Proof.
  intros (Hinv & HL & _) Hn Hpos. unfold cc_nfree in Hn. destruct (c_find ns (cc_lists _ s)) as [g|] eqn:Hf; [|discriminate]. inversion Hn; subst n.
  destruct (find_rel _ _ _ _ _ HL Hf) as (l & _ & Hgr & _). destruct (gprog_alloc _ _ Hgr Hpos) as (g' & x & Hs).
  unfold cc_take_node, cc_list_step. rewrite Hf, Hs. eexists _, _. reflexivity.
Qed.

(* a reservation of the default capacity fits into a fresh 16-aligned block that is at least as large as the current one *)
Lemma defcap_fits (s : cpool) b rest x nx : ar_used (cc_ar _ s) = b :: rest -> 0 <= cc_fence _ s -> (1 <= length (cc_lists _ s))%nat ->
  0 < cc_defcap _ s -> snd b <= nx -> x mod 16 = 0 -> 0 < x ->
  fs_alloc (cc_fence _ s) (x + 16) (x + nx) (cc_defcap _ s) 16 <> None.
Proof.
  intros Hb Hf Hlen Hpos Hnx Hx Hx0. rewrite fs_alloc_none_iff. intros [H0|Hbig].
  - lia.
  - unfold cc_defcap in *. rewrite Hb in *. unfold b_usable, cc_overhead in *. destruct chdr_eq as (_ & Eh16 & Emax). rewrite Emax, Eh16 in *.
    set (n := Z.of_nat (length (cc_lists _ s))) in *. assert (Hn : 1 <= n) by (unfold n; lia).
    pose proof (align_off_bounds (x + 16 + cc_fence _ s) 16 ltac:(lia)) as Hob.
    destruct (Z.eqb_spec (cc_fence _ s) 0) as [E0|E0].
    + rewrite E0 in *. assert (Hoff : align_off (x + 16 + 0) 16 = 0).
      { unfold align_off. replace (x + 16 + 0) with (x + 1 * 16) by lia. rewrite Z.mod_add, Hx by lia. reflexivity. }
      rewrite Hoff in Hbig. destruct (Z.ltb_spec 0 (snd b - 16)) as [Hu|Hu].
      * assert ((snd b - 16 - 0) / n <= snd b - 16) by (apply Z.div_le_upper_bound; nia). lia.
      * rewrite Zdiv_0_l in Hpos. lia.
    + destruct (Z.ltb_spec (2 * cc_fence _ s + 16) (snd b - 16)) as [Hu|Hu].
      * assert ((snd b - 16 - (2 * cc_fence _ s + 16)) / n <= snd b - 16 - (2 * cc_fence _ s + 16)) by (apply Z.div_le_upper_bound; nia). lia.
      * rewrite Zdiv_0_l in Hpos. lia.
Qed.

Lemma c_find_keys ns : forall l1 l2, map gns l1 = map gns l2 -> (c_find ns l1 <> None <-> c_find ns l2 <> None).
Proof.
  induction l1 as [|a l1 IH]; intros [|b l2] E; cbn in *; try discriminate; [tauto|].
  inversion E as [[Ea0 Et]]. rewrite Ea0. destruct (gns b =? ns); [split; discriminate|apply IH; exact Et].
Qed.

(* Ext is about the lists' node sizes, the maximum, the default capacity and the arena's next block size *)
Lemma ext_same (s s' : cpool) : Ext s -> cc_max _ s' = cc_max _ s -> cc_fence _ s' = cc_fence _ s -> cc_ar _ s' = cc_ar _ s ->
  map gns (cc_lists _ s') = map gns (cc_lists _ s) -> Ext s'.
Proof.
  intros (H1 & H2 & H3 & H4 & H5 & H6) Em Ef Ea El.
  assert (Elen : length (cc_lists _ s') = length (cc_lists _ s)) by (rewrite <- (map_length gns), El, map_length; reflexivity).
  assert (Edef : cc_defcap _ s' = cc_defcap _ s) by (unfold cc_defcap, cc_overhead; rewrite Ea, Ef, Elen; reflexivity).
  assert (Efind : forall ns, c_find ns (cc_lists _ s') <> None <-> c_find ns (cc_lists _ s) <> None) by (intros ns; apply c_find_keys; exact El).
  unfold Ext. rewrite Em, Edef, Ea, Elen. split.
  { rewrite Forall_forall in *. intros g Hg. assert (Hin : In (gns g) (map gns (cc_lists _ s))) by (rewrite <- El; apply in_map; exact Hg).
    apply in_map_iff in Hin as (g0 & E0 & Hg0). rewrite <- E0. apply H1. exact Hg0. }
  split; [exact H2|]. split; [exact H3|]. split; [|split; [exact H5|exact H6]].
  intros size Hs. destruct (H4 size Hs) as [Ha Hb]. split; [exact Ha|]. apply Efind. exact Hb.
Qed.

Lemma c_set_keys g' gs g : c_find (gns g') gs = Some g -> map gns (c_set g' gs) = map gns gs.
Proof.
  intros Hf. induction gs as [|g0 tl IH]; cbn in *; [reflexivity|]. destruct (Z.eqb_spec (gns g0) (gns g')) as [E|E]; cbn; [rewrite E; reflexivity|].
  rewrite IH; [reflexivity|exact Hf].
Qed.

Lemma insert_keys (s : cpool) ns m size (s' : cpool) evs : cc_insert _ gns gstep gusable s ns m size = Some (s', evs) ->
  map gns (cc_lists _ s') = map gns (cc_lists _ s) /\ cc_ar _ s' = cc_ar _ s /\ cc_fence _ s' = cc_fence _ s /\ cc_max _ s' = cc_max _ s /\ cc_top _ s' = cc_top _ s.
Proof.
  unfold cc_insert, cc_list_step. destruct (_ <=? _); [|discriminate]. destruct (c_find ns (cc_lists _ s)) as [g|] eqn:Hf; [|discriminate].
  destruct (gstep g (UIns m size)) as [[g' res]|] eqn:Hs; [|discriminate]. intros H; inversion H; subst s' evs. cbn [cc_with cc_lists cc_ar cc_fence cc_max cc_top].
  split; [|repeat split]. apply (c_set_keys g' _ g). rewrite (gstep_ns _ _ _ _ Hs). destruct (c_find_in _ _ _ Hf) as [_ E]. rewrite E. exact Hf.
Qed.

Lemma insert_rest_progress (s : cpool) sp ns g : CPR s sp -> c_find ns (cc_lists _ s) = Some g ->
  exists s1 ev1, cc_insert_rest _ gns gstep gusable s ns = Some (s1, ev1) /\
    map gns (cc_lists _ s1) = map gns (cc_lists _ s).
Proof.
  intros Hcpr Hf. unfold cc_insert_rest. destruct (cc_end _ s - cc_top _ s =? 0); [eexists _, _; split; reflexivity|].
  destruct chdr_eq as (Eh & Eh16 & Emax). rewrite Emax.
  destruct ((align_off (cc_top _ s) 16 <? cc_end _ s - cc_top _ s) && (ns <=? gusable ns (cc_end _ s - cc_top _ s - align_off (cc_top _ s) 16))) eqn:Hcond;
    [|eexists _, _; split; reflexivity].
  apply andb_true_iff in Hcond as [Hoff Hus]. apply Z.ltb_lt in Hoff. apply Z.leb_le in Hus.
  pose proof (align_off_bounds (cc_top _ s) 16 ltac:(lia)) as Hob. pose proof (align_off_aligns (cc_top _ s) 16 ltac:(lia)) as Hoa.
  set (off := align_off (cc_top _ s) 16) in *.
  assert (Hcpr2 : CPR (cc_with _ s (cc_ar _ s) (cc_top _ s + (cc_end _ s - cc_top _ s)) (cc_lists _ s)) sp) by (apply cpr_top; [assumption|lia]).
  assert (Hres : Reserved (cc_with _ s (cc_ar _ s) (cc_top _ s + (cc_end _ s - cc_top _ s)) (cc_lists _ s)) sp (cc_top _ s + off) (cc_end _ s - cc_top _ s - off)).
  { destruct Hcpr as (Hinv & HL & Hsm & Hheld & Hc & Hcd & (b & rest & Hb & Htb & Hfresh) & Hfence).
    exists b, rest. cbn [cc_with cc_ar cc_top]. split; [exact Hb|]. split; [lia|]. split; [lia|]. split; [exact Hoa|]. intros x Hx. destruct (Hfresh x Hx); [left; lia|right; assumption]. }
  destruct (insert_progress _ sp ns _ _ g Hcpr2 Hres Hf Hus) as (s1 & ev1 & Hins & _).
  exists s1, ev1. split; [exact Hins|]. destruct (insert_keys _ _ _ _ _ _ Hins) as (Hk & _). exact Hk.
Qed.

(* what a successful allocate_block() does to the arena *)
Lemma new_block_ok (s : cpool) answer (s2 : cpool) evs : ar_cache (cc_ar _ s) = [] -> cc_new_block _ s answer = (s2, true, evs) ->
  exists x, answer = Some x /\ ar_used (cc_ar _ s2) = (x, ar_next (cc_ar _ s)) :: ar_used (cc_ar _ s) /\ cc_top _ s2 = x + 16 /\
    cc_lists _ s2 = cc_lists _ s /\ cc_fence _ s2 = cc_fence _ s /\ cc_max _ s2 = cc_max _ s /\ ar_kind (cc_ar _ s2) = ar_kind (cc_ar _ s) /\
    ar_next (cc_ar _ s2) = (match ar_kind (cc_ar _ s) with AGrow => 2 * ar_next (cc_ar _ s) | AFixed => 0 | AConst => ar_next (cc_ar _ s) end) /\
    (ar_kind (cc_ar _ s) = AFixed -> ar_next (cc_ar _ s) <> 0).
Proof.
  intros Hc Hnb. unfold cc_new_block, astep in Hnb. rewrite Hc in Hnb.
  destruct (ar_kind (cc_ar _ s)) eqn:Hk; [| |]; try (destruct (ar_next (cc_ar _ s) =? 0) eqn:Hz; [inversion Hnb|]); (destruct answer as [x|]; [|inversion Hnb]);
    inversion Hnb; subst s2 evs; exists x; cbn [cc_with cc_ar cc_top cc_lists cc_fence cc_max ar_set ar_used ar_kind ar_next b_mem fst]; unfold hdr;
    repeat split; try reflexivity; try assumption; try discriminate.
  intros _ E. rewrite E in Hz. discriminate.
Qed.

Lemma ext_defcap_pos (s : cpool) : Ext s -> 0 < cc_defcap _ s.
Proof. intros (_ & H2 & [H3 _] & _). destruct (gusable_nodes _ 0 _ H2 H3) as [_ H]. exact H. Qed.

Lemma ext_list_usable (s : cpool) sp ns g : CPR s sp -> Ext s -> c_find ns (cc_lists _ s) = Some g -> ns <= gusable ns (cc_defcap _ s).
Proof.
  intros (_ & HL & _) (H1 & H2 & [H3 H3b] & _) Hf. destruct (c_find_in _ _ _ Hf) as [Hin E]. rewrite Forall_forall in H1. specialize (H1 g Hin).
  destruct (find_rel _ _ _ _ _ HL Hf) as (l & _ & Hgr & _). pose proof (GR_pos _ _ Hgr). destruct (gusable_nodes _ 0 _ H2 H3) as [_ Hd].
  apply (gusable_mono_ns ns (cc_max _ s)); [lia|lia|exact H3].
Qed.

(* Ext after a new block: the default capacity does not shrink, the next block is at least as large again *)
Lemma ext_new_block (s s2 : cpool) x : Ext s ->
  ar_used (cc_ar _ s2) = (x, ar_next (cc_ar _ s)) :: ar_used (cc_ar _ s) -> map gns (cc_lists _ s2) = map gns (cc_lists _ s) ->
  cc_fence _ s2 = cc_fence _ s -> cc_max _ s2 = cc_max _ s -> ar_kind (cc_ar _ s2) = ar_kind (cc_ar _ s) ->
  ar_next (cc_ar _ s2) = (match ar_kind (cc_ar _ s) with AGrow => 2 * ar_next (cc_ar _ s) | AFixed => 0 | AConst => ar_next (cc_ar _ s) end) ->
  (ar_kind (cc_ar _ s) = AFixed -> ar_next (cc_ar _ s) <> 0) -> (exists b rest, ar_used (cc_ar _ s) = b :: rest) -> 0 <= ar_next (cc_ar _ s) < 2^64 -> 0 <= cc_fence _ s -> Ext s2.
Proof.
  intros (H1 & H2 & [H3 H3b] & H4 & H5 & H6) Hu El Ef Em Ek En Hfix (b & rest & Hb) Hnn Hfe0.
  assert (Elen : length (cc_lists _ s2) = length (cc_lists _ s)) by (rewrite <- (map_length gns), El, map_length; reflexivity).
  assert (Hkind : ar_kind (cc_ar _ s) <> AFixed) by (intros E; rewrite E in H6; exact (Hfix E H6)).
  assert (Hle : snd b <= ar_next (cc_ar _ s)) by (destruct (ar_kind (cc_ar _ s)); [apply (H6 b rest Hb)|contradiction|apply (H6 b rest Hb)]).
  assert (Hdef : cc_defcap _ s <= cc_defcap _ s2).
  { unfold cc_defcap, cc_overhead. rewrite Hu, Hb, Ef, Elen. unfold b_usable. cbn [snd].
    set (ov := if cc_fence _ s =? 0 then 0 else 2 * cc_fence _ s + maxalZ). set (n := Z.of_nat (length (cc_lists _ s))). assert (1 <= n) by (unfold n; lia).
    apply Z.div_le_mono; [lia|]. destruct (Z.ltb_spec ov (snd b - hdr)), (Z.ltb_spec ov (ar_next (cc_ar _ s) - hdr)); lia. }
  unfold Ext. rewrite Em, Elen. split.
  { rewrite Forall_forall in *. intros g Hg. assert (Hin : In (gns g) (map gns (cc_lists _ s))) by (rewrite <- El; apply in_map; exact Hg).
    apply in_map_iff in Hin as (g0 & E0 & Hg0). rewrite <- E0. apply H1. exact Hg0. }
  split; [exact H2|]. assert (Hd2 : cc_defcap _ s2 < 2^64).
  { unfold cc_defcap, cc_overhead. rewrite Hu, Ef, Elen. unfold b_usable. cbn [snd]. set (n := Z.of_nat (length (cc_lists _ s))). assert (1 <= n) by (unfold n; lia).
    destruct chdr_eq as (_ & Eh16 & Emax). rewrite Emax, Eh16. set (ov := if cc_fence _ s =? 0 then 0 else 2 * cc_fence _ s + 16).
    assert (0 <= ov) by (unfold ov; destruct (Z.eqb_spec (cc_fence _ s) 0); lia).
    destruct (Z.ltb_spec ov (ar_next (cc_ar _ s) - 16)); [|rewrite Zdiv_0_l; lia].
    assert ((ar_next (cc_ar _ s) - 16 - ov) / n <= ar_next (cc_ar _ s) - 16 - ov) by (apply Z.div_le_upper_bound; nia). lia. }
  destruct (gusable_nodes _ 0 _ H2 H3) as [_ Hd0].
  split; [split; [apply (gusable_mono_size _ (cc_defcap _ s) _); [lia|exact Hd2|exact H3]|exact Hd2]|]. split.
  { intros size Hs. destruct (H4 size Hs) as [Ha Hbb]. split; [exact Ha|]. apply (c_find_keys _ _ _ El). exact Hbb. }
  split; [exact H5|]. rewrite Ek, En. destruct (ar_kind (cc_ar _ s)); [|contradiction|]; intros b0 rest0 E0; rewrite Hu in E0; inversion E0; subst b0 rest0; cbn [snd]; lia.
Qed.

(* reserve_memory(pool, capacity) and insert always come back -- with a node when they succeed -- for any capacity that yields a node
   and fits into a fresh block of the next size *)
Lemma grow_progress_gen (s : cpool) sp ns g cap answer : CPR s sp -> Ext s -> c_find ns (cc_lists _ s) = Some g ->
  (forall addr, answer = Some addr -> CWB sp addr (ar_next (cc_ar _ s))) -> ar_next (cc_ar _ s) < 2^64 ->
  0 < cap -> ns <= gusable ns cap ->
  (ar_kind (cc_ar _ s) <> AFixed -> forall x, x mod 16 = 0 -> 0 < x -> fs_alloc (cc_fence _ s) (x + 16) (x + ar_next (cc_ar _ s)) cap 16 <> None) ->
  exists s2 ok evs, cc_grow _ gns gstep gusable s ns cap answer = Some (s2, ok, evs) /\ Ext s2 /\
    (ok = true -> (exists n', cc_nfree _ gns gfree s2 ns = Some n' /\ 0 < n') /\
                  (exists g1 g2 m rs l, GR g1 {| us_rs := rs; us_l := l |} /\ gns g1 = ns /\ gstep g1 (UIns m cap) = Some (g2, None) /\ c_find ns (cc_lists _ s2) = Some g2)).
Proof.
  intros Hcpr Hext Hf Hwb Hn64 Hdpos Hus Hfitx.
  destruct chdr_eq as (Eh & Eh16 & Emax).
  unfold cc_grow, cc_reserve.
  destruct (fs_alloc (cc_fence _ s) (cc_top _ s) (cc_end _ s) cap maxalZ) as [[m top']|] eqn:Hfs.
  - destruct (fs_reserved _ _ _ _ _ Hcpr (Z.lt_le_incl _ _ Hdpos) Hfs) as [H1 H2].
    destruct (insert_progress _ sp ns m cap g H1 H2 Hf Hus) as (s2 & ev2 & Hins & Hn & (g2 & rs & l & Hg1 & Hg2 & Hg3)). rewrite Hins.
    eexists _, _, _. split; [reflexivity|]. split; [|intros _; split; [exact Hn|exists g, g2, m, rs, l; split; [exact Hg1|]; split; [exact (proj2 (c_find_in _ _ _ Hf))|]; split; assumption]].
    destruct (insert_keys _ _ _ _ _ _ Hins) as (Hk & Ha & Hfe & Hm & _). apply (ext_same s); [exact Hext|exact Hm|exact Hfe|exact Ha|exact Hk].
  - destruct (insert_rest_progress _ _ _ _ Hcpr Hf) as (sa & ev1 & Hir & Hka). rewrite Hir.
    destruct (insert_rest_refines _ _ _ _ _ Hcpr Hir) as (spa & Ha & Hca & Hha & Hara & Hfa & Hma & _ & Hla).
    assert (Hexta : Ext sa) by (apply (ext_same s); assumption).
    destruct (cc_new_block _ sa answer) as [[sb ok] ev2] eqn:Hnb.
    assert (Hwb' : forall addr, answer = Some addr -> CWB spa addr (ar_next (cc_ar _ sa))) by (intros addr E; unfold CWB; rewrite Hha, Hara; apply Hwb; exact E).
    destruct (new_block_refines _ _ _ _ _ _ Hca Hwb' Hnb) as (spb & Hb & Hcb & Hfb & Hmb & Hlb & _).
    destruct ok.
    2:{ eexists _, _, _. split; [reflexivity|]. split; [|discriminate].
        apply (ext_same sa); [exact Hexta|exact Hmb|exact Hfb| |rewrite Hlb; reflexivity].
        (* a refused block leaves the arena as it was *)
        clear - Hnb Hca. destruct Hca as (_ & _ & _ & _ & Hc & _). unfold cc_new_block, astep in Hnb. rewrite Hc in Hnb.
        destruct (ar_kind (cc_ar _ sa)); try (destruct (ar_next (cc_ar _ sa) =? 0)); destruct answer; inversion Hnb; reflexivity. }
    assert (Hcache : ar_cache (cc_ar _ sa) = []) by apply Hca.
    destruct (new_block_ok _ _ _ _ Hcache Hnb) as (x & -> & Hu & Htop & Hl2 & Hf2 & Hm2 & Hk2 & Hn2 & Hfix).
    pose proof (Hwb x eq_refl) as Hw. unfold CWB in Hw. apply andb_true_iff in Hw as [Hw _]. apply andb_true_iff in Hw as [Hw Hw3]. apply andb_true_iff in Hw as [Hw1 Hw2].
    apply Z.ltb_lt in Hw1, Hw2. apply Z.eqb_eq in Hw3. rewrite Emax in Hw3.
    assert (Hfr : Fresh s sp) by apply Hcpr. destruct Hfr as (b & rest & Hbu & _ & _).
    assert (Hext0 : Ext s) by exact Hext. destruct Hext0 as (_ & _ & _ & _ & Hlen & Hnext).
    assert (Hle : snd b <= ar_next (cc_ar _ s)).
    { rewrite Hara in Hfix. destruct (ar_kind (cc_ar _ s)) eqn:Hk; [apply (Hnext b rest Hbu)|exfalso; apply (Hfix eq_refl); exact Hnext|apply (Hnext b rest Hbu)]. }
    assert (Hfence : 0 <= cc_fence _ s) by apply Hcpr.
    assert (Hnf : ar_kind (cc_ar _ s) <> AFixed) by (intros E; rewrite Hara in Hfix; rewrite E in Hnext; exact (Hfix E Hnext)).
    pose proof (Hfitx Hnf x Hw3 Hw1) as Hfit.
    assert (Eend : cc_end _ sb = x + ar_next (cc_ar _ s)) by (unfold cc_end; rewrite Hu, Hara; reflexivity).
    rewrite Hf2, Hfa, Htop, Eend, Emax.
    destruct (fs_alloc (cc_fence _ s) (x + 16) (x + ar_next (cc_ar _ s)) cap 16) as [[m top']|] eqn:Hfs2; [|contradiction].
    assert (Hfs2' : fs_alloc (cc_fence _ sb) (cc_top _ sb) (cc_end _ sb) cap maxalZ = Some (m, top')) by (rewrite Hf2, Hfa, Htop, Eend, Emax; exact Hfs2).
    destruct (fs_reserved _ _ _ _ _ Hcb (Z.lt_le_incl _ _ Hdpos) Hfs2') as [H1 H2].
    assert (Hfb' : exists gb, c_find ns (cc_lists _ sb) = Some gb).
    { rewrite Hl2. destruct (c_find ns (cc_lists _ sa)) as [gb|] eqn:E; [exists gb; reflexivity|]. exfalso.
      assert (Hne : c_find ns (cc_lists _ s) <> None) by (rewrite Hf; discriminate). apply (proj2 (c_find_keys ns _ _ Hka)) in Hne. contradiction. }
    destruct Hfb' as (gb & Hfb').
    assert (Hextb : Ext sb).
    { apply (ext_new_block sa sb x Hexta); try assumption; [rewrite Hl2; reflexivity|exists b, rest; rewrite Hara; exact Hbu|rewrite Hara; lia|rewrite Hfa; exact Hfence]. }
    assert (Husb : ns <= gusable ns cap) by exact Hus.
    destruct (insert_progress _ spb ns m cap gb H1 H2 Hfb' Husb) as (s2 & ev3 & Hins & Hn & (g2 & rs & l & Hg1 & Hg2 & Hg3)). rewrite Hins.
    eexists _, _, _. split; [reflexivity|]. split; [|intros _; split; [exact Hn|exists gb, g2, m, rs, l; split; [exact Hg1|]; split; [exact (proj2 (c_find_in _ _ _ Hfb'))|]; split; assumption]].
    destruct (insert_keys _ _ _ _ _ _ Hins) as (Hk & Ha2 & Hfe & Hm & _). apply (ext_same sb); [exact Hextb|exact Hm|exact Hfe|exact Ha2|exact Hk].
Qed.


(* allocate_node's growth -- reserve_memory(pool, def_capacity()) and insert *)
Lemma grow_progress (s : cpool) sp ns g answer : CPR s sp -> Ext s -> c_find ns (cc_lists _ s) = Some g ->
  (forall addr, answer = Some addr -> CWB sp addr (ar_next (cc_ar _ s))) -> ar_next (cc_ar _ s) < 2^64 ->
  exists s2 ok evs, cc_grow _ gns gstep gusable s ns (cc_defcap _ s) answer = Some (s2, ok, evs) /\ Ext s2 /\
    (ok = true -> exists n', cc_nfree _ gns gfree s2 ns = Some n' /\ 0 < n').
Proof.
  intros Hcpr Hext Hf Hwb Hn64. pose proof (ext_list_usable _ _ _ _ Hcpr Hext Hf) as Hus. pose proof (ext_defcap_pos _ Hext) as Hdpos.
  assert (Hfr : Fresh s sp) by apply Hcpr. destruct Hfr as (b & rest & Hbu & _ & _).
  assert (Hfence : 0 <= cc_fence _ s) by apply Hcpr.
  destruct (grow_progress_gen s sp ns g (cc_defcap _ s) answer Hcpr Hext Hf Hwb Hn64 Hdpos Hus) as (s2 & ok & evs & H1 & H2 & H3).
  - intros Hnf x Hx Hx0. pose proof Hext as (_ & _ & _ & _ & Hlen & Hnext).
    destruct (ar_kind (cc_ar _ s)) eqn:Hk; [|contradiction|]; apply (defcap_fits s b rest x _ Hbu Hfence Hlen Hdpos (Hnext b rest Hbu) Hx Hx0).
  - exists s2, ok, evs. split; [exact H1|]. split; [exact H2|]. intros E. exact (proj1 (H3 E)).
Qed.

(* ---------- node requests are always described ---------- *)
Lemma try_reserve_progress (s : cpool) sp ns g : CPR s sp -> Ext s -> c_find ns (cc_lists _ s) = Some g ->
  exists s1 ev1, cc_try_reserve _ gns gstep gusable s ns (cc_defcap _ s) = Some (s1, ev1) /\ map gns (cc_lists _ s1) = map gns (cc_lists _ s) /\
                 cc_ar _ s1 = cc_ar _ s /\ cc_fence _ s1 = cc_fence _ s /\ cc_max _ s1 = cc_max _ s.
Proof.
  intros Hcpr Hext Hf. pose proof (ext_list_usable _ _ _ _ Hcpr Hext Hf) as Hus. pose proof (ext_defcap_pos _ Hext) as Hdpos.
  unfold cc_try_reserve. destruct (fs_alloc (cc_fence _ s) (cc_top _ s) (cc_end _ s) (cc_defcap _ s) maxalZ) as [[m top']|] eqn:Hfs.
  - destruct (fs_reserved _ _ _ _ _ Hcpr (Z.lt_le_incl _ _ Hdpos) Hfs) as [H1 H2].
    destruct (insert_progress _ sp ns m _ g H1 H2 Hf Hus) as (s1 & ev1 & Hins & _). exists s1, ev1. split; [exact Hins|].
    destruct (insert_keys _ _ _ _ _ _ Hins) as (Hk & Ha & Hfe & Hm & _). cbn [cc_with cc_lists cc_ar cc_fence cc_max] in *. repeat split; assumption.
  - destruct (insert_rest_progress _ _ _ _ Hcpr Hf) as (s1 & ev1 & Hir & Hk). exists s1, ev1. split; [exact Hir|]. split; [exact Hk|].
    destruct (insert_rest_refines _ _ _ _ _ Hcpr Hir) as (sp1 & _ & _ & _ & Ha & Hfe & Hm & _). repeat split; assumption.
Qed.

Lemma take_node_ext (s1 : cpool) sp1 ns g1 : CPR s1 sp1 -> Ext s1 -> c_find ns (cc_lists _ s1) = Some g1 -> 0 < gfree g1 ->
  exists s' x, cc_take_node _ gns gstep s1 ns = Some (s', x) /\ Ext s'.
Proof.
  intros Hc1 He1 Hf1 Hp1. assert (Hn : cc_nfree _ gns gfree s1 ns = Some (gfree g1)) by (unfold cc_nfree; rewrite Hf1; reflexivity).
  destruct (take_progress _ _ _ _ Hc1 Hn Hp1) as (s' & x & Ht). exists s', x. split; [exact Ht|].
  unfold cc_take_node, cc_list_step in Ht. rewrite Hf1 in Ht. destruct (gstep g1 UAlloc) as [[g' [x'|]]|] eqn:Hs; inversion Ht; subst s' x'.
  apply (ext_same s1); try reflexivity; [exact He1|]. cbn [cc_with cc_lists]. apply (c_set_keys g' _ g1). rewrite (gstep_ns _ _ _ _ Hs). destruct (c_find_in _ _ _ Hf1) as [_ E]. rewrite E. exact Hf1.
Qed.

Theorem alloc_node_progress (s : cpool) sp size answer : CPR s sp -> Ext s -> 0 < size <= cc_max _ s ->
  (forall addr, answer = Some addr -> CWB sp addr (ar_next (cc_ar _ s))) -> ar_next (cc_ar _ s) < 2^64 ->
  exists s' r evs, cc_alloc_node _ gns gfree gstep bkt gusable s size answer = Some (s', r, evs) /\ Ext s'.
Proof.
  intros Hcpr Hext Hsize Hwb Hn64. pose proof Hext as (_ & _ & _ & H4 & _). destruct (H4 size Hsize) as [Hge Hfind].
  unfold cc_alloc_node.
  assert (Hg : (size <=? 0) || (cc_max _ s <? size) || (bkt size <? size) = false).
  { apply orb_false_iff. split; [apply orb_false_iff; split|]; [apply Z.leb_gt|apply Z.ltb_ge|apply Z.ltb_ge]; lia. }
  rewrite Hg. set (ns := bkt size) in *. destruct (c_find ns (cc_lists _ s)) as [g|] eqn:Hf; [|contradiction].
  unfold cc_nfree at 1. rewrite Hf. destruct (Z.ltb_spec 0 (gfree g)) as [Hpos|Hzero].
  - destruct (take_node_ext s sp ns g Hcpr Hext Hf Hpos) as (s' & x & Ht & He). rewrite Ht. eexists _, _, _. split; [reflexivity|exact He].
  - destruct (try_reserve_progress _ _ _ _ Hcpr Hext Hf) as (s0 & ev0 & Htr & Hk0 & Ha0 & Hfe0 & Hm0). rewrite Htr.
    destruct (try_reserve_refines _ _ _ _ _ _ Hcpr (defcap_nonneg _ _ Hcpr) Htr) as (sp0 & _ & Hc0 & _ & _ & _ & _ & Hheld0 & _).
    assert (He0 : Ext s0) by (apply (ext_same s); assumption).
    destruct (c_find ns (cc_lists _ s0)) as [g0|] eqn:Hf0.
    2:{ exfalso. assert (Hne : c_find ns (cc_lists _ s) <> None) by (rewrite Hf; discriminate). apply (proj2 (c_find_keys ns _ _ Hk0)) in Hne. contradiction. }
    unfold cc_nfree at 1. rewrite Hf0. destruct (Z.ltb_spec 0 (gfree g0)) as [Hp0|Hz0].
    + destruct (take_node_ext s0 sp0 ns g0 Hc0 He0 Hf0 Hp0) as (s' & x & Ht & He). rewrite Ht. eexists _, _, _. split; [reflexivity|exact He].
    + assert (Hwb0 : forall addr, answer = Some addr -> CWB sp0 addr (ar_next (cc_ar _ s0))) by (intros addr E; unfold CWB; rewrite Hheld0, Ha0; apply Hwb; exact E).
      assert (Hn640 : ar_next (cc_ar _ s0) < 2^64) by (rewrite Ha0; exact Hn64).
      destruct (grow_progress _ _ _ _ _ Hc0 He0 Hf0 Hwb0 Hn640) as (s2 & ok & evs & Hgr & Hext2 & Hnode). rewrite Hgr. destruct ok.
      * destruct (Hnode eq_refl) as (n' & Hn' & Hpos').
        destruct (grow_refines _ _ _ _ _ _ _ _ Hc0 (defcap_nonneg _ _ Hc0) Hwb0 Hgr) as (sp2 & _ & Hc2 & _).
        unfold cc_nfree in Hn'. destruct (c_find ns (cc_lists _ s2)) as [g2|] eqn:Hf2; [|discriminate]. inversion Hn'; subst n'.
        destruct (take_node_ext s2 sp2 ns g2 Hc2 Hext2 Hf2 Hpos') as (s' & x & Ht & He). rewrite Ht. eexists _, _, _. split; [reflexivity|exact He].
      * eexists _, _, _. split; [reflexivity|exact Hext2].
Qed.

Theorem try_alloc_node_progress (s : cpool) sp size : CPR s sp -> Ext s -> 0 < size <= cc_max _ s ->
  exists s' r evs, cc_try_alloc_node _ gns gfree gstep bkt gusable s size = Some (s', r, evs) /\ Ext s'.
Proof.
  intros Hcpr Hext Hsize. pose proof Hext as (_ & _ & _ & H4 & _). destruct (H4 size Hsize) as [Hge Hfind].
  unfold cc_try_alloc_node.
  assert (Hg : (size <=? 0) || (cc_max _ s <? size) || (bkt size <? size) = false).
  { apply orb_false_iff. split; [apply orb_false_iff; split|]; [apply Z.leb_gt|apply Z.ltb_ge|apply Z.ltb_ge]; lia. }
  rewrite Hg. set (ns := bkt size) in *. destruct (c_find ns (cc_lists _ s)) as [g|] eqn:Hf; [|contradiction].
  unfold cc_nfree at 1. rewrite Hf.
  assert (Htake : forall (s1 : cpool) sp1 g1, CPR s1 sp1 -> Ext s1 -> c_find ns (cc_lists _ s1) = Some g1 -> 0 < gfree g1 ->
            exists s' x, cc_take_node _ gns gstep s1 ns = Some (s', x) /\ Ext s').
  { intros s1 sp1 g1 Hc1 He1 Hf1 Hp1. assert (Hn : cc_nfree _ gns gfree s1 ns = Some (gfree g1)) by (unfold cc_nfree; rewrite Hf1; reflexivity).
    destruct (take_progress _ _ _ _ Hc1 Hn Hp1) as (s' & x & Ht). exists s', x. split; [exact Ht|].
    unfold cc_take_node, cc_list_step in Ht. rewrite Hf1 in Ht. destruct (gstep g1 UAlloc) as [[g' [x'|]]|] eqn:Hs; inversion Ht; subst s' x'.
    apply (ext_same s1); try reflexivity; [exact He1|]. cbn [cc_with cc_lists]. apply (c_set_keys g' _ g1). rewrite (gstep_ns _ _ _ _ Hs). destruct (c_find_in _ _ _ Hf1) as [_ E]. rewrite E. exact Hf1. }
  destruct (Z.ltb_spec 0 (gfree g)) as [Hpos|Hzero].
  - destruct (Htake s sp g Hcpr Hext Hf Hpos) as (s' & x & Ht & He). rewrite Ht. eexists _, _, _. split; [reflexivity|exact He].
  - pose proof (ext_list_usable _ _ _ _ Hcpr Hext Hf) as Hus. pose proof (ext_defcap_pos _ Hext) as Hdpos.
    assert (Htr : exists s1 ev1, cc_try_reserve _ gns gstep gusable s ns (cc_defcap _ s) = Some (s1, ev1) /\ map gns (cc_lists _ s1) = map gns (cc_lists _ s) /\
                   cc_ar _ s1 = cc_ar _ s /\ cc_fence _ s1 = cc_fence _ s /\ cc_max _ s1 = cc_max _ s).
    { unfold cc_try_reserve. destruct (fs_alloc (cc_fence _ s) (cc_top _ s) (cc_end _ s) (cc_defcap _ s) maxalZ) as [[m top']|] eqn:Hfs.
      - destruct (fs_reserved _ _ _ _ _ Hcpr (Z.lt_le_incl _ _ Hdpos) Hfs) as [H1 H2].
        destruct (insert_progress _ sp ns m _ g H1 H2 Hf Hus) as (s1 & ev1 & Hins & _). exists s1, ev1. split; [exact Hins|].
        destruct (insert_keys _ _ _ _ _ _ Hins) as (Hk & Ha & Hfe & Hm & _). cbn [cc_with cc_lists cc_ar cc_fence cc_max] in *. repeat split; assumption.
      - destruct (insert_rest_progress _ _ _ _ Hcpr Hf) as (s1 & ev1 & Hir & Hk). exists s1, ev1. split; [exact Hir|]. split; [exact Hk|].
        destruct (insert_rest_refines _ _ _ _ _ Hcpr Hir) as (sp1 & _ & _ & _ & Ha & Hfe & Hm & _). repeat split; assumption. }
    destruct Htr as (s1 & ev1 & Htr & Hk & Ha & Hfe & Hm). rewrite Htr.
    destruct (try_reserve_refines _ _ _ _ _ _ Hcpr (defcap_nonneg _ _ Hcpr) Htr) as (sp1 & _ & Hc1 & _).
    assert (He1 : Ext s1) by (apply (ext_same s); assumption).
    destruct (c_find ns (cc_lists _ s1)) as [g1|] eqn:Hf1.
    2:{ exfalso. assert (Hne : c_find ns (cc_lists _ s) <> None) by (rewrite Hf; discriminate). apply (proj2 (c_find_keys ns _ _ Hk)) in Hne. contradiction. }
    unfold cc_nfree. rewrite Hf1. destruct (Z.eqb_spec (gfree g1) 0) as [E0|E0].
    + eexists _, _, _. split; [reflexivity|exact He1].
    + assert (Hp1 : 0 < gfree g1).
      { destruct Hc1 as (Hinv1 & HL1 & _). destruct (find_rel _ _ _ _ _ HL1 Hf1) as (l1 & Hfl1 & Hgr1 & _). destruct (GR_list _ _ Hgr1) as (_ & _ & En). cbn in En.
        destruct (find_list_In _ _ _ Hfl1) as [Hin _]. destruct (capacity_is_exact sp1 l1 Hinv1 Hin) as (_ & H0 & _). lia. }
      destruct (Htake s1 sp1 g1 Hc1 He1 Hf1 Hp1) as (s' & x & Ht & He). rewrite Ht. eexists _, _, _. split; [reflexivity|exact He].
Qed.

Lemma dealloc_ext (s : cpool) size bytes p (s' : cpool) r evs : cc_dealloc _ gns gstep bkt s size bytes p = Some (s', r, evs) -> Ext s -> Ext s'.
Proof.
  unfold cc_dealloc, cc_list_step. destruct (_ || _); [discriminate|]. destruct (c_find (bkt size) (cc_lists _ s)) as [g|] eqn:Hf; [|discriminate].
  destruct (gstep g _) as [[g' res]|] eqn:Hs; [|discriminate]. intros H Hext. inversion H; subst s' r evs.
  apply (ext_same s); try reflexivity; [exact Hext|]. cbn [cc_with cc_lists]. apply (c_set_keys g' _ g). rewrite (gstep_ns _ _ _ _ Hs). destruct (c_find_in _ _ _ Hf) as [_ E]. rewrite E. exact Hf.
Qed.

(* histories of node requests and releases: every request of a supported size is described, whatever the block source answers
   (fresh aligned blocks of the size asked for, below 2^64) and wherever it fails; releases are of memory that is out *)
Fixpoint node_history_ok (s : cpool) (sp : ast) (os : list coll_op) : Prop :=
  match os with
  | [] => True
  | o :: tl =>
      match o with
      | CAllocNode size answer => 0 < size <= cc_max _ s /\ (forall addr, answer = Some addr -> CWB sp addr (ar_next (cc_ar _ s))) /\ ar_next (cc_ar _ s) < 2^64
      | CTryAllocNode size => 0 < size <= cc_max _ s
      | CDealloc size bytes p => cc_dealloc _ gns gstep bkt s size bytes p <> None
      | _ => False
      end /\
      forall s' r evs sp', cc_step _ gns gfree gstep bkt gusable s o = Some (s', r, evs) -> acc_op sp (cc_spec_op bkt o) evs r = Some sp' -> node_history_ok s' sp' tl
  end.

Theorem node_history_progress : forall os (s : cpool) sp, CPR s sp -> Ext s -> node_history_ok s sp os ->
  exists s' tr sp', cc_run _ gns gfree gstep bkt gusable s os = Some (s', tr) /\ run sp tr = Some sp' /\ CPR s' sp' /\ Ext s'.
Proof.
  induction os as [|o tl IH]; intros s sp Hcpr Hext Hok.
  - exists s, [], sp. split; [reflexivity|]. split; [reflexivity|]. split; assumption.
  - destruct Hok as [Ho Hnext].
    assert (Hstep : exists s1 r evs, cc_step _ gns gfree gstep bkt gusable s o = Some (s1, r, evs) /\ Ext s1 /\ coll_answer_ok s sp o).
    { destruct o as [size answer|size|size bytes a1 a2|size bytes|size bytes p]; cbn [cc_step coll_answer_ok]; try contradiction.
      - destruct Ho as (Hs & Hwb & Hn). destruct (alloc_node_progress _ _ _ _ Hcpr Hext Hs Hwb Hn) as (s1 & r & evs & H1 & H2). exists s1, r, evs. split; [exact H1|]. split; [exact H2|exact Hwb].
      - destruct (try_alloc_node_progress _ _ _ Hcpr Hext Ho) as (s1 & r & evs & H1 & H2). exists s1, r, evs. split; [exact H1|]. split; [exact H2|exact I].
      - destruct (cc_dealloc _ gns gstep bkt s size bytes p) as [[[s1 r] evs]|] eqn:Hd; [|contradiction]. exists s1, r, evs. split; [reflexivity|]. split; [exact (dealloc_ext _ _ _ _ _ _ _ Hd Hext)|exact I]. }
    destruct Hstep as (s1 & r & evs & Hst & Hext1 & Hans). destruct (coll_step_refines _ _ _ _ _ _ Hcpr Hans Hst) as (sp1 & Hacc & Hc1).
    destruct (IH s1 sp1 Hc1 Hext1 (Hnext _ _ _ _ Hst Hacc)) as (s' & tr & sp' & Hrun & Hr & Hc' & He').
    exists s', ((cc_spec_op bkt o, evs, r) :: tr), sp'. cbn [cc_run run]. rewrite Hst, Hrun, Hacc. split; [reflexivity|]. split; [exact Hr|]. split; assumption.
Qed.

(* the constructor establishes Ext *)
Theorem construct_ext mk nlists k fence max bs flsize flalign answer (s : cpool) evs :
  cc_construct _ gusable mk nlists k fence max bs flsize flalign answer = Some (s, true, evs) ->
  0 < max -> 0 <= bs < 2^64 -> 0 <= fence ->
  (forall m, Forall (fun g => gns g <= max) (mk m) /\ (1 <= length (mk m))%nat /\
             forall size, 0 < size <= max -> size <= bkt size /\ c_find (bkt size) (mk m) <> None) ->
  Ext s.
Proof.
  intros Hc Hmax Hbs Hfence Hmk. unfold cc_construct, cc_new_block, astep, ar_init in Hc. cbn [cc_ar ar_cache ar_kind ar_next ar_used] in Hc.
  destruct chdr_eq as (Eh & Eh16 & Emax).
  assert (Hshape : exists x m top', s = {| cc_ar := ar_set (ar_init k false bs) [(x, bs)] [] (match k with AGrow => 2 * bs | AFixed => 0 | AConst => bs end);
                                          cc_top := top'; cc_lists := mk m; cc_fence := fence; cc_max := max |} /\
                                     (max <=? gusable max (cc_defcap _ {| cc_ar := ar_set (ar_init k false bs) [(x, bs)] [] (match k with AGrow => 2 * bs | AFixed => 0 | AConst => bs end);
                                          cc_top := top'; cc_lists := mk m; cc_fence := fence; cc_max := max |})) = true).
  { destruct (match k with AFixed => (bs =? 0) | _ => false end) eqn:Hfix.
    { exfalso. assert (E : exists s0 e0, Some (s, true, evs) = Some (s0, false, e0)) by (rewrite <- Hc; destruct k; try discriminate; rewrite Hfix; eexists _, _; reflexivity).
      destruct E as (s0 & e0 & E). inversion E. }
    destruct answer as [x|].
    2:{ exfalso. assert (E : exists s0 e0, Some (s, true, evs) = Some (s0, false, e0)) by (rewrite <- Hc; destruct k; try rewrite Hfix; eexists _, _; reflexivity).
        destruct E as (s0 & e0 & E). inversion E. }
    set (a' := ar_set (ar_init k false bs) [(x, bs)] [] (match k with AGrow => 2 * bs | AFixed => 0 | AConst => bs end)).
    assert (Hc' : Some (s, true, evs) =
       match fs_alloc fence (b_mem (x, bs)) (b_end (x, bs)) (Z.of_nat nlists * flsize) flalign with
       | Some (m, top') => Some ({| cc_ar := a'; cc_top := top'; cc_lists := mk m; cc_fence := fence; cc_max := max |},
                                 max <=? gusable max (cc_defcap _ {| cc_ar := a'; cc_top := top'; cc_lists := mk m; cc_fence := fence; cc_max := max |}),
                                 [EUp (b_mem (x, bs) - hdrZ) (b_usable (x, bs) + hdrZ)] ++ [EResv m (Z.of_nat nlists * flsize)])
       | None => None end).
    { rewrite <- Hc. destruct k; try rewrite Hfix; reflexivity. }
    destruct (fs_alloc fence (b_mem (x, bs)) (b_end (x, bs)) (Z.of_nat nlists * flsize) flalign) as [[m top']|]; [|discriminate].
    inversion Hc' as [[E1 E2 E3]]. exists x, m, top'. split; [reflexivity|]. symmetry. exact E2. }
  destruct Hshape as (x & m & top' & -> & Hflag). apply Z.leb_le in Hflag. destruct (Hmk m) as (Hall & Hlen & Hb).
  unfold Ext. cbn [cc_lists cc_max cc_ar ar_set ar_kind ar_next ar_used ar_init].
  split; [exact Hall|]. split; [exact Hmax|]. split.
  { split; [exact Hflag|]. unfold cc_defcap, cc_overhead. cbn [cc_ar cc_lists cc_fence ar_set ar_used]. unfold b_usable. cbn [snd]. rewrite Emax, Eh16.
    set (n := Z.of_nat (length (mk m))). assert (1 <= n) by (unfold n; lia). set (ov := if fence =? 0 then 0 else 2 * fence + 16).
    assert (0 <= ov) by (unfold ov; destruct (Z.eqb_spec fence 0); lia).
    destruct (Z.ltb_spec ov (bs - 16)); [|rewrite Zdiv_0_l; lia]. assert ((bs - 16 - ov) / n <= bs - 16 - ov) by (apply Z.div_le_upper_bound; nia). lia. }
  split; [exact Hb|]. split; [exact Hlen|].
  destruct k; [intros b rest E; inversion E; subst; cbn [snd]; lia|reflexivity|intros b rest E; inversion E; subst; cbn [snd]; lia].
Qed.

(* ---------- array requests are always described ---------- *)
Hypothesis gprog_arr : forall g s bytes, GR g s -> gns g < bytes -> exists g' res, gstep g (UAllocArr bytes) = Some (g', res).
Hypothesis gprog_arr_after_ins : forall g1 rs l g2 m cap bytes, GR g1 {| us_rs := rs; us_l := l |} -> gstep g1 (UIns m cap) = Some (g2, None) ->
  gns g1 < bytes -> slots_needed (gns g1) bytes <= cap / gns g1 -> exists g' x, gstep g2 (UAllocArr bytes) = Some (g', Some x).
Hypothesis gusable_mult : forall ns k, 0 < ns -> 1 <= k -> k * ns < 2^64 -> ns <= gusable ns (k * ns).

Lemma list_step_keys (s : cpool) ns o (s' : cpool) res : cc_list_step _ gns gstep s ns o = Some (s', res) ->
  map gns (cc_lists _ s') = map gns (cc_lists _ s) /\ cc_ar _ s' = cc_ar _ s /\ cc_fence _ s' = cc_fence _ s /\ cc_max _ s' = cc_max _ s.
Proof.
  unfold cc_list_step. destruct (c_find ns (cc_lists _ s)) as [g|] eqn:Hf; [|discriminate]. destruct (gstep g o) as [[g' r]|] eqn:Hs; [|discriminate].
  intros H; inversion H; subst s' res. cbn [cc_with cc_lists cc_ar cc_fence cc_max]. split; [|repeat split].
  apply (c_set_keys g' _ g). rewrite (gstep_ns _ _ _ _ Hs). destruct (c_find_in _ _ _ Hf) as [_ E]. rewrite E. exact Hf.
Qed.

Lemma take_array_progress (s : cpool) sp ns bytes g : CPR s sp -> Ext s -> c_find ns (cc_lists _ s) = Some g ->
  exists s' res, cc_take_array _ gns gfree gstep s ns bytes = Some (s', res) /\ Ext s'.
Proof.
  intros Hcpr Hext Hf. unfold cc_take_array, cc_nfree. rewrite Hf. destruct (Z.eqb_spec (gfree g) 0) as [E0|E0]; [exists s, None; split; [reflexivity|exact Hext]|].
  pose proof Hcpr as (Hinv & HL & _). destruct (find_rel _ _ _ _ _ HL Hf) as (l & Hfl & Hgr & Eg).
  assert (Hpos : 0 < gfree g).
  { destruct (GR_list _ _ Hgr) as (_ & _ & En). cbn in En. destruct (find_list_In _ _ _ Hfl) as [Hin _]. destruct (capacity_is_exact sp l Hinv Hin) as (_ & H0 & _). lia. }
  assert (Hk : forall (s' : cpool) o r, cc_list_step _ gns gstep s ns o = Some (s', r) -> Ext s').
  { intros s' o r H. destruct (list_step_keys _ _ _ _ _ H) as (H1 & H2 & H3 & H4). apply (ext_same s); assumption. }
  destruct (Z.leb_spec bytes ns).
  - assert (Hn : cc_nfree _ gns gfree s ns = Some (gfree g)) by (unfold cc_nfree; rewrite Hf; reflexivity).
    destruct (take_progress _ _ _ _ Hcpr Hn Hpos) as (s' & x & Ht). rewrite Ht. exists s', (Some x). split; [reflexivity|].
    unfold cc_take_node in Ht. destruct (cc_list_step _ gns gstep s ns UAlloc) as [[s1 [x1|]]|] eqn:Hls; inversion Ht; subst s1 x1. exact (Hk _ _ _ Hls).
  - destruct (gprog_arr g _ bytes Hgr ltac:(lia)) as (g' & res & Hs).
    assert (Hls : cc_list_step _ gns gstep s ns (UAllocArr bytes) = Some (cc_with _ s (cc_ar _ s) (cc_top _ s) (c_set g' (cc_lists _ s)), res)) by (unfold cc_list_step; rewrite Hf, Hs; reflexivity).
    rewrite Hls. eexists _, _. split; [reflexivity|exact (Hk _ _ _ Hls)].
Qed.

Lemma roundup_facts bytes ns : 0 < ns -> 0 < bytes -> let c := (bytes + ns - 1) / ns * ns in bytes <= c <= bytes + ns - 1 /\ 1 <= (bytes + ns - 1) / ns /\ c / ns = (bytes + ns - 1) / ns.
Proof.
  intros Hns Hb. cbv zeta. pose proof (Z.div_mod (bytes + ns - 1) ns ltac:(lia)) as Hd. pose proof (Z.mod_pos_bound (bytes + ns - 1) ns Hns) as Hm.
  set (q := (bytes + ns - 1) / ns) in *. split; [nia|]. split; [nia|]. apply Z.div_mul. lia.
Qed.

Definition array_answers_ok64 (s : cpool) (sp : ast) (size : Z) (answer1 answer2 : option Z) : Prop :=
  (forall addr, answer1 = Some addr -> CWB sp addr (ar_next (cc_ar _ s))) /\ ar_next (cc_ar _ s) < 2^64 /\
  (forall s1 ev1 sp1, cc_grow _ gns gstep gusable s (bkt size) (cc_defcap _ s) answer1 = Some (s1, true, ev1) -> acc_evs sp ev1 = Some sp1 ->
     (forall addr, answer2 = Some addr -> CWB sp1 addr (ar_next (cc_ar _ s1))) /\ ar_next (cc_ar _ s1) < 2^64).

Theorem alloc_array_progress (s : cpool) sp size bytes a1 a2 : CPR s sp -> Ext s -> 0 < size <= cc_max _ s -> size <= bytes ->
  array_answers_ok64 s sp size a1 a2 ->
  exists s' r evs, cc_alloc_array _ gns gfree gstep bkt gusable s size bytes a1 a2 = Some (s', r, evs) /\ Ext s'.
Proof.
  intros Hcpr Hext Hsize Hbytes (Hwb1 & Hn64 & Hwb2). pose proof Hext as (_ & _ & _ & H4 & _). destruct (H4 size Hsize) as [Hge Hfind].
  unfold cc_alloc_array.
  assert (Hg : (size <=? 0) || (cc_max _ s <? size) || (bkt size <? size) || (bytes <? size) = false).
  { repeat (apply orb_false_iff; split); [apply Z.leb_gt|apply Z.ltb_ge|apply Z.ltb_ge|apply Z.ltb_ge]; lia. }
  rewrite Hg. set (ns := bkt size) in *. destruct (c_find ns (cc_lists _ s)) as [g|] eqn:Hf; [|contradiction].
  destruct (take_array_progress _ _ _ bytes _ Hcpr Hext Hf) as (s0 & res0 & Ht0 & He0). rewrite Ht0.
  destruct res0 as [x|]; [eexists _, _, _; split; [reflexivity|exact He0]|]. clear Ht0 He0 s0.
  destruct (grow_progress _ _ _ _ _ Hcpr Hext Hf Hwb1 Hn64) as (s1 & ok & ev1 & Hgr & He1 & Hnode). rewrite Hgr.
  destruct ok; [|eexists _, _, _; split; [reflexivity|exact He1]].
  destruct (grow_refines _ _ _ _ _ _ _ _ Hcpr (defcap_nonneg _ _ Hcpr) Hwb1 Hgr) as (sp1 & Ha1 & Hc1 & Hfe1 & _).
  destruct (Hnode eq_refl) as (n1 & Hn1 & Hp1). unfold cc_nfree in Hn1. destruct (c_find ns (cc_lists _ s1)) as [g1|] eqn:Hf1; [|discriminate].
  destruct (take_array_progress _ _ _ bytes _ Hc1 He1 Hf1) as (s2 & res1 & Ht1 & He2). rewrite Ht1.
  destruct res1 as [x|]; [eexists _, _, _; split; [reflexivity|exact He2]|]. clear Ht1 He2 s2.
  destruct chdr_eq as (Eh & Eh16 & Emax). rewrite Emax.
  set (ov := 2 * cc_fence _ s + 16 + ns). set (next := ar_next_block_size (cc_ar _ s1) mod 2 ^ 64).
  destruct (Z.ltb_spec (if ov <? next then next - ov else 0) bytes) as [Hbad|Hfits]; [eexists _, _, _; split; [reflexivity|exact He1]|].
  assert (Hns : 0 < ns) by (destruct Hc1 as (_ & HL1 & _); destruct (find_rel _ _ _ _ _ HL1 Hf1) as (l1 & _ & Hgr1 & Eg1); rewrite <- Eg1; exact (GR_pos _ _ Hgr1)).
  assert (Hb0 : 0 < bytes) by lia.
  destruct (roundup_facts bytes ns Hns Hb0) as (Hc3 & Hq & Hdiv). cbv zeta in Hc3, Hdiv. set (cap3 := (bytes + ns - 1) / ns * ns) in *.
  assert (Hnext : ov < next /\ bytes <= next - ov) by (destruct (Z.ltb_spec ov next); lia). destruct Hnext as [Hov Hbn].
  assert (Hnext64 : next < 2^64) by (unfold next; apply Z.mod_pos_bound; lia).
  assert (Hfence : 0 <= cc_fence _ s) by apply Hcpr.
  destruct (Hwb2 s1 ev1 sp1 Hgr Ha1) as [Hwb2' Hn642].
  destruct (grow_progress_gen s1 sp1 ns g1 cap3 a2 Hc1 He1 Hf1 Hwb2' Hn642) as (s3 & ok2 & ev2 & Hgr2 & He3 & Hnode2).
  - lia.
  - unfold cap3. apply gusable_mult; [exact Hns|exact Hq|]. fold cap3. unfold ov in *. lia.
  - intros Hnf x Hx Hx0. rewrite fs_alloc_none_iff. intros [H0|Hbig]; [lia|].
    assert (Hcache : ar_cache (cc_ar _ s1) = []) by apply Hc1.
    assert (Enx : ar_next_block_size (cc_ar _ s1) = ar_next (cc_ar _ s1) - 16) by (unfold ar_next_block_size; rewrite Hcache, Eh16; reflexivity).
    assert (Hge16 : 16 <= ar_next (cc_ar _ s1)).
    { assert (Hfr : Fresh s1 sp1) by apply Hc1. destruct Hfr as (b & rest & Hbu & Htb & _). destruct He1 as (_ & _ & _ & _ & _ & Hnx).
      unfold b_mem, b_end in Htb. destruct (ar_kind (cc_ar _ s1)); [specialize (Hnx b rest Hbu)|contradiction|specialize (Hnx b rest Hbu)]; lia. }
    assert (Enext : next = ar_next (cc_ar _ s1) - 16) by (unfold next; rewrite Enx; apply Z.mod_small; lia).
    pose proof (align_off_bounds (x + 16 + cc_fence _ s1) 16 ltac:(lia)) as Hob. rewrite Hfe1 in *. unfold ov in *. lia.
  - rewrite Hgr2. destruct ok2; [|eexists _, _, _; split; [reflexivity|exact He3]].
    assert (Hcap0 : 0 <= cap3) by lia.
    destruct (grow_refines _ _ _ _ _ _ _ _ Hc1 Hcap0 Hwb2' Hgr2) as (sp3 & Ha3 & Hc3' & _).
    destruct (Hnode2 eq_refl) as ((n3 & Hn3 & Hp3) & (ga & gb & m & rs & l & Hga & Ega & Hins & Hfb)).
    assert (Hfinal : exists s' x, cc_take_array _ gns gfree gstep s3 ns bytes = Some (s', Some x) /\ Ext s').
    { unfold cc_take_array. rewrite Hn3. destruct (Z.eqb_spec n3 0); [lia|].
      assert (Hk : forall (s' : cpool) o r, cc_list_step _ gns gstep s3 ns o = Some (s', r) -> Ext s').
      { intros s' o r H. destruct (list_step_keys _ _ _ _ _ H) as (K1 & K2 & K3 & K4). apply (ext_same s3); assumption. }
      destruct (Z.leb_spec bytes ns).
      - destruct (take_progress _ _ _ _ Hc3' Hn3 Hp3) as (s' & x & Ht). rewrite Ht. exists s', x. split; [reflexivity|].
        unfold cc_take_node in Ht. destruct (cc_list_step _ gns gstep s3 ns UAlloc) as [[sx [x1|]]|] eqn:Hls; inversion Ht; subst sx x1. exact (Hk _ _ _ Hls).
      - destruct (gprog_arr_after_ins ga rs l gb m cap3 bytes Hga Hins ltac:(lia)) as (g' & x & Hs).
        { rewrite Ega, Hdiv. unfold slots_needed. destruct (Z.leb_spec bytes ns); lia. }
        assert (Hls : cc_list_step _ gns gstep s3 ns (UAllocArr bytes) = Some (cc_with _ s3 (cc_ar _ s3) (cc_top _ s3) (c_set g' (cc_lists _ s3)), Some x)) by (unfold cc_list_step; rewrite Hfb, Hs; reflexivity).
        rewrite Hls. eexists _, _. split; [reflexivity|exact (Hk _ _ _ Hls)]. }
    destruct Hfinal as (s' & x & Ht & He'). rewrite Ht. eexists _, _, _. split; [reflexivity|exact He'].
Qed.

Theorem try_alloc_array_progress (s : cpool) sp size bytes : CPR s sp -> Ext s -> 0 < size <= cc_max _ s -> size <= bytes ->
  exists s' r evs, cc_try_alloc_array _ gns gfree gstep bkt gusable s size bytes = Some (s', r, evs) /\ Ext s'.
Proof.
  intros Hcpr Hext Hsize Hbytes. pose proof Hext as (_ & _ & _ & H4 & _). destruct (H4 size Hsize) as [Hge Hfind].
  unfold cc_try_alloc_array.
  assert (Hg : (size <=? 0) || (cc_max _ s <? size) || (bkt size <? size) || (bytes <? size) = false).
  { repeat (apply orb_false_iff; split); [apply Z.leb_gt|apply Z.ltb_ge|apply Z.ltb_ge|apply Z.ltb_ge]; lia. }
  rewrite Hg. set (ns := bkt size) in *. destruct (c_find ns (cc_lists _ s)) as [g|] eqn:Hf; [|contradiction].
  unfold cc_nfree at 1. rewrite Hf. destruct (0 <? gfree g).
  - destruct (take_array_progress _ _ _ bytes _ Hcpr Hext Hf) as (s' & res & Ht & He). rewrite Ht. destruct res; eexists _, _, _; (split; [reflexivity|exact He]).
  - destruct (try_reserve_progress _ _ _ _ Hcpr Hext Hf) as (s1 & ev1 & Htr & Hk & Ha & Hfe & Hm). rewrite Htr.
    destruct (try_reserve_refines _ _ _ _ _ _ Hcpr (defcap_nonneg _ _ Hcpr) Htr) as (sp1 & _ & Hc1 & _).
    assert (He1 : Ext s1) by (apply (ext_same s); assumption).
    destruct (c_find ns (cc_lists _ s1)) as [g1|] eqn:Hf1.
    2:{ exfalso. assert (Hne : c_find ns (cc_lists _ s) <> None) by (rewrite Hf; discriminate). apply (proj2 (c_find_keys ns _ _ Hk)) in Hne. contradiction. }
    destruct (take_array_progress _ _ _ bytes _ Hc1 He1 Hf1) as (s' & res & Ht & He). rewrite Ht. destruct res; eexists _, _, _; (split; [reflexivity|exact He]).
Qed.

(* histories of requests of every kind and releases: nothing is undescribed *)
Fixpoint request_history_ok (s : cpool) (sp : ast) (os : list coll_op) : Prop :=
  match os with
  | [] => True
  | o :: tl =>
      match o with
      | CAllocNode size answer => 0 < size <= cc_max _ s /\ (forall addr, answer = Some addr -> CWB sp addr (ar_next (cc_ar _ s))) /\ ar_next (cc_ar _ s) < 2^64
      | CTryAllocNode size => 0 < size <= cc_max _ s
      | CAllocArray size bytes a1 a2 => 0 < size <= cc_max _ s /\ size <= bytes /\ array_answers_ok64 s sp size a1 a2
      | CTryAllocArray size bytes => 0 < size <= cc_max _ s /\ size <= bytes
      | CDealloc size bytes p => cc_dealloc _ gns gstep bkt s size bytes p <> None
      end /\
      forall s' r evs sp', cc_step _ gns gfree gstep bkt gusable s o = Some (s', r, evs) -> acc_op sp (cc_spec_op bkt o) evs r = Some sp' -> request_history_ok s' sp' tl
  end.

Theorem request_history_progress : forall os (s : cpool) sp, CPR s sp -> Ext s -> request_history_ok s sp os ->
  exists s' tr sp', cc_run _ gns gfree gstep bkt gusable s os = Some (s', tr) /\ run sp tr = Some sp' /\ CPR s' sp' /\ Ext s'.
Proof.
  induction os as [|o tl IH]; intros s sp Hcpr Hext Hok.
  - exists s, [], sp. split; [reflexivity|]. split; [reflexivity|]. split; assumption.
  - destruct Hok as [Ho Hnext].
    assert (Hstep : exists s1 r evs, cc_step _ gns gfree gstep bkt gusable s o = Some (s1, r, evs) /\ Ext s1 /\ coll_answer_ok s sp o).
    { destruct o as [size answer|size|size bytes a1 a2|size bytes|size bytes p]; cbn [cc_step coll_answer_ok].
      - destruct Ho as (Hs & Hwb & Hn). destruct (alloc_node_progress _ _ _ _ Hcpr Hext Hs Hwb Hn) as (s1 & r & evs & H1 & H2). exists s1, r, evs. split; [exact H1|]. split; [exact H2|exact Hwb].
      - destruct (try_alloc_node_progress _ _ _ Hcpr Hext Ho) as (s1 & r & evs & H1 & H2). exists s1, r, evs. split; [exact H1|]. split; [exact H2|exact I].
      - destruct Ho as (Hs & Hb & Hans). destruct (alloc_array_progress _ _ _ _ _ _ Hcpr Hext Hs Hb Hans) as (s1 & r & evs & H1 & H2). exists s1, r, evs. split; [exact H1|]. split; [exact H2|].
        destruct Hans as (Ha1 & _ & Ha2). split; [exact Ha1|]. intros s2 ev1 sp1 Hg He. exact (proj1 (Ha2 s2 ev1 sp1 Hg He)).
      - destruct Ho as (Hs & Hb). destruct (try_alloc_array_progress _ _ _ _ Hcpr Hext Hs Hb) as (s1 & r & evs & H1 & H2). exists s1, r, evs. split; [exact H1|]. split; [exact H2|exact I].
      - destruct (cc_dealloc _ gns gstep bkt s size bytes p) as [[[s1 r] evs]|] eqn:Hd; [|contradiction]. exists s1, r, evs. split; [reflexivity|]. split; [exact (dealloc_ext _ _ _ _ _ _ _ Hd Hext)|exact I]. }
    destruct Hstep as (s1 & r & evs & Hst & Hext1 & Hans). destruct (coll_step_refines _ _ _ _ _ _ Hcpr Hans Hst) as (sp1 & Hacc & Hc1).
    destruct (IH s1 sp1 Hc1 Hext1 (Hnext _ _ _ _ Hst Hacc)) as (s' & tr & sp' & Hrun & Hr & Hc' & He').
    exists s', ((cc_spec_op bkt o, evs, r) :: tr), sp'. cbn [cc_run run]. rewrite Hst, Hrun, Hacc. split; [reflexivity|]. split; [exact Hr|]. split; assumption.
Qed.

End CollProofs.
