(* C15 -- leak reporting is exact: net bytes on destruction, silence when balanced.  Statements only.
   Leak.v models detail::object_leak_checker as used by memory_pool, memory_pool_collection and memory_stack
   (the traits pass size for nodes and count*size for arrays on both sides); tied to the code by replaying
   histories with a capturing leak handler. *)
From Coq Require Import ZArith List Bool.
From FM Require Import Leak LeakProofs.
Import ListNotations.
Local Open Scope Z_scope.

(* any history of allocations and releases (any sizes) with moves at arbitrary points, then destruction:
   the handler is called at destruction exactly once with the exact net amount iff it is non-zero; a move
   construction reports nothing and carries the count along; a move assignment reports exactly the
   outstanding amount of the allocator that is overwritten *)
Theorem C15_leak_report_exact : forall ops, alive_ops ops ->
  l_reports (lrun (ops ++ [LDestroy])) = assigned_over ops ++ (if net ops =? 0 then [] else [net ops]).
Proof. exact leak_exact. Qed.
Print Assumptions C15_leak_report_exact.

Theorem C15_balanced_history_is_silent : forall ops, alive_ops ops -> net ops = 0 -> assigned_over ops = [] ->
  l_reports (lrun (ops ++ [LDestroy])) = [].
Proof. exact balanced_is_silent. Qed.
Print Assumptions C15_balanced_history_is_silent.

Theorem C15_nothing_reported_after_destruction : forall ops more, alive_ops ops ->
  l_reports (lrun (ops ++ [LDestroy] ++ more)) = l_reports (lrun (ops ++ [LDestroy])).
Proof. exact destroyed_is_silent. Qed.
Print Assumptions C15_nothing_reported_after_destruction.

(* the stateless low-level allocators: every allocator object of a type shares one count, one counter object per translation
   unit; static initialisation creates the k counters, the program allocates and releases, static destruction destroys the
   counters: exactly one report, made by the last counter to go, of the exact net -- and none if the net is zero *)
Theorem C15_process_wide_report_exact : forall k body, (0 < k)%nat -> forallb is_traffic body = true ->
  g_reports (gl_run (repeat GCounterCtor k ++ body ++ repeat GCounterDtor k)) = if gnet body =? 0 then [] else [gnet body].
Proof. exact global_report_exact. Qed.
Print Assumptions C15_process_wide_report_exact.

Example C15_nonvacuous :
  l_reports (lrun [LAlloc 16; LAlloc 10; LAlloc 24; LDealloc 16; LMoveConstruct; LMoveAssignOnto 1; LAlloc 16; LMoveAssignOnto 0; LDestroy]) = [1; 50].
Proof. vm_compute. reflexivity. Qed.
