From Coq Require Import ZArith List Bool Arith Lia.
From FM Require Import Container.
Import ListNotations.

(* ---------- (1) equality ---------- *)
(* == is true exactly when memory from one may be released through the other *)
(* operator== only exists between std_allocators over the same allocator type: handles of one kind *)
Definition same_kind (a b : handle) : bool :=
  match a, b with HRef _, HRef _ | HStateless _, HStateless _ | HAny _, HAny _ => true | _, _ => false end.

Theorem heq_iff_same_resource a b : same_kind a b = true -> heq true a b = same_resource a b.
Proof.
  destruct a as [x|t|x], b as [y|u|y]; cbn; intros H; try discriminate; reflexivity.
Qed.

(* as it was: type-erased handles compared equal whatever they referred to *)
Theorem any_equality_refuted : exists a b, heq false a b = true /\ same_resource a b = false.
Proof. exists (HAny 1), (HAny 2). split; reflexivity. Qed.

(* ---------- (2) protocol ---------- *)
Lemma cget_cset_same w i c : i < length w -> cget (cset w i c) i = c.
Proof. revert i. induction w as [|x w IH]; intros [|i] H; cbn in *; try lia; [reflexivity|apply IH; lia]. Qed.
Lemma cset_length w i c : length (cset w i c) = length w.
Proof. revert i. induction w as [|x w IH]; intros [|i]; cbn; try reflexivity; rewrite IH; reflexivity. Qed.

Lemma world_ok_get w i : world_ok w = true -> cont_ok (cget w i) = true.
Proof.
  unfold world_ok, cget. revert i. induction w as [|x w IH]; intros [|i] H; cbn in *; try reflexivity.
  - apply andb_true_iff in H. tauto.
  - apply andb_true_iff in H. apply IH. tauto.
Qed.
Lemma world_ok_set w i c : world_ok w = true -> cont_ok c = true -> world_ok (cset w i c) = true.
Proof.
  unfold world_ok. revert i. induction w as [|x w IH]; intros [|i] H Hc; cbn in *; try reflexivity.
  - apply andb_true_iff in H. apply andb_true_iff. tauto.
  - apply andb_true_iff in H. apply andb_true_iff. split; [tauto|apply IH; tauto].
Qed.

Lemma releases_ok c : cont_ok c = true -> forallb rel_ok (releases_of c) = true.
Proof.
  unfold cont_ok, releases_of. induction (k_nodes c) as [|n tl IH]; cbn; [reflexivity|]. intros H. apply andb_true_iff in H as [H1 H2].
  apply andb_true_iff. split; [unfold rel_ok; cbn; assumption|apply IH; assumption].
Qed.
Lemma fresh_ok a n : forallb (Nat.eqb a) (fresh a n) = true.
Proof. induction n; cbn; [reflexivity|]. rewrite Nat.eqb_refl. assumption. Qed.

Definition all_true : traits := {| pocca := true; pocma := true; pocs := true |}.

(* with the traits the library declares (all three propagate), every container keeps only nodes of its own allocator, and
   every node is given back to the allocator it came from -- for any program over any number of containers and allocators *)
Theorem step_keeps_origin w o w' r : world_ok w = true -> kstep all_true w o = Some (w', r) ->
  world_ok w' = true /\ forallb rel_ok r = true.
Proof.
  intros W. destruct o as [i|i|s d|s d|a b|s d|i]; cbn [kstep all_true pocca pocma pocs orb].
  - destruct (Nat.ltb i (length w)); [|discriminate]. intros H. injection H as <- <-. split; [|reflexivity].
    apply world_ok_set; [assumption|]. unfold cont_ok. cbn. rewrite Nat.eqb_refl. apply (world_ok_get w i W).
  - destruct (Nat.ltb i (length w)); [|discriminate]. pose proof (world_ok_get w i W) as Hc. unfold cont_ok in Hc.
    destruct (k_nodes (cget w i)) as [|n tl] eqn:E; intros H; injection H as <- <-; [split; [assumption|reflexivity]|].
    cbn in Hc. apply andb_true_iff in Hc as [H1 H2]. split; [apply world_ok_set; [assumption|unfold cont_ok; cbn; assumption]|cbn; unfold rel_ok; cbn; rewrite H1; reflexivity].
  - destruct (_ && _ && _); [|discriminate]. intros H. injection H as <- <-. split; [|apply releases_ok, world_ok_get; assumption].
    apply world_ok_set; [assumption|]. unfold cont_ok. cbn. apply fresh_ok.
  - destruct (_ && _ && _); [|discriminate]. intros H. injection H as <- <-. split; [|apply releases_ok, world_ok_get; assumption].
    apply world_ok_set; [apply world_ok_set; [assumption|]|reflexivity]. unfold cont_ok. cbn. apply (world_ok_get w s W).
  - destruct (_ && _ && _); [|discriminate]. intros H. injection H as <- <-. split; [|reflexivity].
    apply world_ok_set; [apply world_ok_set; [assumption|]|]; unfold cont_ok; cbn; [apply (world_ok_get w b W)|apply (world_ok_get w a W)].
  - destruct (_ && _ && _); [|discriminate]. destruct (Nat.eqb_spec (k_alloc (cget w s)) (k_alloc (cget w d))) as [E|]; [|discriminate].
    intros H. injection H as <- <-. split; [|reflexivity].
    apply world_ok_set; [apply world_ok_set; [assumption|]|reflexivity]. unfold cont_ok. cbn. rewrite forallb_app. apply andb_true_iff. split.
    + pose proof (world_ok_get w s W) as Hs. unfold cont_ok in Hs. rewrite <- E. assumption.
    + apply (world_ok_get w d W).
  - destruct (Nat.ltb i (length w)); [|discriminate]. intros H. injection H as <- <-. split; [|apply releases_ok, world_ok_get; assumption].
    apply world_ok_set; [assumption|reflexivity].
Qed.

Theorem every_node_returns_to_its_allocator : forall os w w' r, world_ok w = true -> krun all_true w os = Some (w', r) ->
  world_ok w' = true /\ forallb rel_ok r = true.
Proof.
  induction os as [|o tl IH]; intros w w' r W H; cbn in H.
  - injection H as <- <-. split; [assumption|reflexivity].
  - destruct (kstep all_true w o) as [[w1 r1]|] eqn:S; [|discriminate]. destruct (krun all_true w1 tl) as [[w2 r2]|] eqn:R; [|discriminate].
    injection H as <- <-. destruct (step_keeps_origin _ _ _ _ W S) as [W1 R1]. destruct (IH _ _ _ W1 R) as [W2 R2]. split; [assumption|].
    rewrite forallb_app, R1, R2. reflexivity.
Qed.

(* without propagation on swap the same program releases a node through the wrong allocator *)
Theorem swap_without_propagation_refuted :
  exists os w' r, krun {| pocca := true; pocma := true; pocs := false |} [{| k_alloc := 1; k_nodes := [] |}; {| k_alloc := 2; k_nodes := [] |}] os = Some (w', r) /\ forallb rel_ok r = false.
Proof. exists [CInsert 0; CSwap 0 1; CClear 1]. eexists. eexists. split; [vm_compute; reflexivity|reflexivity]. Qed.

(* ---------- (3) node sizes ---------- *)
Local Open Scope Z_scope.
Ltac Zify.zify_post_hook ::= Z.div_mod_to_equations.

(* if the generated base constant covers header and padding for that alignment, the promised size covers the node, for every size *)
Theorem promised_covers_layout header halign base sizeT alignT :
  0 < alignT -> 0 < halign -> halign <= 8 -> alignT <= 8 -> (8 mod alignT = 0) -> (8 mod halign = 0) -> 0 <= header -> 0 <= sizeT -> sizeT mod alignT = 0 ->
  round_up header alignT <= base ->
  node_layout header halign sizeT alignT <= promised base sizeT.
Proof.
  intros Ha Hh Hh8 Ha8 D1 D2 H0 Hs Hm Hb. unfold node_layout, promised, round_up in *.
  assert (Hal : Z.max halign alignT <= 8) by (apply Z.max_lub; assumption).
  assert (Hdiv : 8 mod (Z.max halign alignT) = 0) by (destruct (Z.max_spec halign alignT) as [[_ ->]|[_ ->]]; assumption).
  set (al := Z.max halign alignT) in *. assert (0 < al) by (unfold al; apply Z.max_lt_iff; left; assumption).
  set (x := (header + alignT - 1) / alignT * alignT + sizeT) in *.
  assert (x <= base + sizeT) by lia.
  (* rounding up to al is below rounding up to 8 (a multiple of al) of something at least as big *)
  assert (R1 : (x + al - 1) / al * al <= (x + 8 - 1) / 8 * 8).
  { assert (E8 : 8 = al * (8 / al)) by (rewrite (Z.div_mod 8 al) at 1 by lia; lia).
    set (k := 8 / al) in *. assert (0 < k) by nia.
    assert (M : ((x + 8 - 1) / 8 * 8) mod al = 0). { rewrite E8 at 3. rewrite Z.mul_assoc, Z.mul_comm, Z.mul_assoc. apply Z.mod_mul. lia. }
    assert (G : x <= (x + 8 - 1) / 8 * 8) by lia.
    (* the least multiple of al that is >= x is <= any multiple of al that is >= x *)
    set (y := (x + 8 - 1) / 8 * 8) in *. clearbody y.
    assert (exists q, y = q * al) as (q & ->). { exists (y / al). rewrite (Z.div_mod y al) at 1 by lia. lia. }
    assert ((x + al - 1) / al < q + 1); [|nia].
    apply Z.div_lt_upper_bound; [lia|]. nia. }
  assert (R2 : (x + 8 - 1) / 8 * 8 <= (base + sizeT + 8 - 1) / 8 * 8).
  { apply Z.mul_le_mono_nonneg_r; [lia|]. apply Z.div_le_mono; lia. }
  lia.
Qed.
