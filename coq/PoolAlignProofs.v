(* C02 for pools: every node a list hands out is aligned to the alignment the list promises
   (alignment_for(node size), the generated kernel function), for intrusive and small lists. *)
From Coq Require Import ZArith NArith List Bool Lia ZifyBool ZifyN.
From FM Require Import Wrap Bits GenArith ArithModel ArithProofs FixedStack FixedStackProofs SmallCarve CapacityProofs PoolSpec SlotProofs ListLib PoolSpecProofs.
Import ListNotations.
Local Open Scope Z_scope.
Ltac Zify.zify_post_hook ::= Z.div_mod_to_equations.

(* alignment_for(ns) is one of 1,2,4,8,16 and divides ns *)
Lemma al_of_cases ns : 0 < ns < 2^64 ->
  (al_of ns = 1 \/ al_of ns = 2 \/ al_of ns = 4 \/ al_of ns = 8 \/ al_of ns = 16) /\ ns mod al_of ns = 0.
Proof.
  intros Hns. unfold al_of.
  destruct (alignment_for_divides (Z.to_N ns) ltac:(lia) ltac:(lia)) as (k & Ea & Ed & _).
  rewrite Ea.
  assert (Hk : (k = 0 \/ k = 1 \/ k = 2 \/ k = 3 \/ 4 <= k)%N) by lia.
  assert (D : forall j, (j <= k)%N -> ns mod Z.of_N (2^j) = 0).
  { intros j Hj. assert (E : (2^k = 2^j * 2^(k-j))%N) by (rewrite <- N.pow_add_r; f_equal; lia).
    pose proof (pow2_pos j). pose proof (pow2_pos (k - j)).
    apply N.mod_divide in Ed; [|lia]. destruct Ed as [c Hc].
    assert (ns = Z.of_N c * Z.of_N (2^(k-j)) * Z.of_N (2^j)) by (rewrite <- !N2Z.inj_mul; lia).
    rewrite H1. apply Z.mod_mul. lia. }
  destruct Hk as [->|[->|[->|[->|Hk]]]].
  - cbn. split; [tauto|]. apply Z.mod_1_r.
  - cbn. split; [tauto|]. apply (D 1%N). lia.
  - cbn. split; [tauto|]. apply (D 2%N). lia.
  - cbn. split; [tauto|]. apply (D 3%N). lia.
  - assert (16 <= 2^k)%N by (change 16%N with (2^4)%N; apply pow2_le_mono; assumption).
    rewrite N.min_r by assumption. cbn. split; [tauto|]. apply (D 4%N). assumption.
Qed.

Definition range_align (l : lst) : Z := match l_kind l with LIntrusive => al_of (l_ns l) | LSmall => maxalZ end.

(* every range handed to a list starts at an address the list's nodes can be aligned from *)
Definition AInv (s : ast) : Prop :=
  forall x l, In x (a_ranges s) -> find_list (fst x) (a_lists s) = Some l -> fst (snd x) mod range_align l = 0.

Lemma ainv_init ls : AInv (mk_ast ls).
Proof. intros x l []. Qed.

Lemma acc_ev_ainv s e s' : Inv s -> AInv s -> acc_ev s e = Some s' -> AInv s'.
Proof.
  intros I A H. destruct e as [addr size| |k mem size|mem size]; cbn in H.
  - destruct (_ && _) in H; [|discriminate]. injection H as <-. exact A.
  - injection H as <-. exact A.
  - destruct (find_list k (a_lists s)) as [l|] eqn:F; [|discriminate].
    destruct (_ && _) eqn:C in H; [|discriminate]. injection H as <-.
    apply andb_true_iff in C as [_ C3]. apply Z.eqb_eq in C3.
    destruct (find_list_In _ _ _ F) as [Fin Fns].
    intros x l1 Hx F1. cbn in Hx, F1.
    destruct (Z.eq_dec (fst x) k) as [E|E].
    + rewrite E in F1. rewrite find_set_same in F1; [|reflexivity|exists l; assumption]. injection F1 as <-.
      unfold range_align; cbn. destruct Hx as [<-|Hx]; cbn.
      * exact C3.
      * specialize (A x l Hx). rewrite E in A. specialize (A F). unfold range_align in A. rewrite Fns in A. exact A.
    + destruct Hx as [<-|Hx]; [cbn in E; congruence|].
      rewrite find_set_other in F1 by (cbn; congruence). apply (A x l1 Hx F1).
  - destruct (range_ok s (mem, size)); [|discriminate]. injection H as <-.
    intros x l1 Hx F1. cbn in Hx, F1. destruct Hx as [<-|Hx]; [|apply (A x l1 Hx F1)].
    cbn in F1. exfalso. destruct (find_list_In _ _ _ F1) as [Lin Lns].
    destruct I as [_ Il _ _ _ _]. rewrite Forall_forall in Il. pose proof (ns_ok_pos _ _ (li_ns _ _ (Il l1 Lin))). lia.
Qed.

Lemma acc_evs_ainv : forall es s s', Inv s -> AInv s -> acc_evs s es = Some s' -> AInv s'.
Proof.
  induction es as [|e es IH]; cbn; intros s s' I A H; [injection H as <-; assumption|].
  destruct (acc_ev s e) as [s1|] eqn:E; [|discriminate].
  eapply IH; [eapply acc_ev_inv; eassumption|eapply acc_ev_ainv; eassumption|assumption].
Qed.

Lemma with_list_ainv s l l' : AInv s -> find_list (l_ns l) (a_lists s) = Some l -> l_ns l' = l_ns l -> l_kind l' = l_kind l ->
  AInv (with_list s l').
Proof.
  intros A F En Ek x l1 Hx F1. cbn in Hx, F1.
  destruct (Z.eq_dec (l_ns l') (fst x)) as [E|E].
  - rewrite <- E in F1. rewrite find_set_same in F1; [|reflexivity|exists l; rewrite En; assumption]. injection F1 as <-.
    unfold range_align. rewrite Ek, En. apply (A x l Hx). rewrite <- E, En. exact F.
  - rewrite find_set_other in F1 by assumption. apply (A x l1 Hx F1).
Qed.

Lemma acc_op_ainv s o evs r s' : Inv s -> AInv s -> acc_op s o evs r = Some s' -> AInv s'.
Proof.
  intros I A H. destruct o as [try_ array ns bytes|ns bytes p]; cbn [acc_op] in H.
  - destruct (find_list ns (a_lists s)) as [l0|] eqn:F0; [|discriminate].
    destruct (_ || _) in H; [discriminate|].
    destruct (acc_evs s evs) as [s1|] eqn:E; [|discriminate].
    pose proof (acc_evs_inv _ _ _ I E) as I1. pose proof (acc_evs_ainv _ _ _ I A E) as A1.
    destruct r as [p| | | |]; try discriminate.
    + destruct (find_list ns (a_lists s1)) as [l|] eqn:F1; [|discriminate].
      destruct (take_slots (a_ranges s1) l p (slots_needed ns bytes)) as [l'|] eqn:T; [|discriminate].
      injection H as <-. destruct (find_list_In _ _ _ F1) as [Lin Lns].
      assert (HL : LInv (a_ranges s1) l) by (destruct I1 as [_ Il _ _ _ _]; rewrite Forall_forall in Il; apply Il; assumption).
      destruct (take_slots_linv _ _ _ _ _ HL T) as (_ & En & Ek & _).
      apply (with_list_ainv s1 l l'); [assumption|rewrite Lns; assumption|assumption|assumption].
    + destruct (try_ && _) in H; [|discriminate]. injection H as <-. assumption.
    + destruct try_; [discriminate|]. injection H as <-. assumption.
  - destruct evs; [|destruct r; discriminate].
    destruct r; try discriminate.
    + destruct (find_list ns (a_lists s)) as [l|] eqn:F; [|discriminate].
      destruct (give_slots l p (slots_needed ns bytes)) as [l'|] eqn:G; [|discriminate].
      injection H as <-. destruct (find_list_In _ _ _ F) as [Lin Lns].
      assert (HL : LInv (a_ranges s) l) by (destruct I as [_ Il _ _ _ _]; rewrite Forall_forall in Il; apply Il; assumption).
      destruct (give_slots_linv _ _ _ _ _ HL G) as (_ & En & Ek & _).
      apply (with_list_ainv s l l'); [assumption|rewrite Lns; assumption|assumption|assumption].
    + injection H as <-. assumption.
Qed.

Lemma run_ainv : forall h s s', Inv s -> AInv s -> run s h = Some s' -> AInv s'.
Proof.
  induction h as [|[[o evs] r] h IH]; cbn; intros s s' I A H; [injection H as <-; assumption|].
  destruct (acc_op s o evs r) as [s1|] eqn:E; [|discriminate].
  eapply IH; [eapply acc_op_inv; eassumption|eapply acc_op_ainv; eassumption|assumption].
Qed.

(* small-list nodes: range start 16-aligned, stride a multiple of the node alignment *)
Lemma small_stride_aligned ns : 1 <= ns < 2^64 -> s_stride cmoZ mxZ caZ ns mod al_of ns = 0.
Proof.
  intros Hns. destruct (al_of_cases ns ltac:(lia)) as [Hc Hd].
  change cmoZ with 32. change mxZ with 255. change caZ with 8.
  unfold s_stride, s_total, align_off in *.
  destruct Hc as [E|[E|[E|[E|E]]]]; rewrite E in *; lia.
Qed.

Theorem live_slot_aligned s l a : Inv s -> AInv s -> In l (a_lists s) -> l_ns l < 2^64 -> In a (live_slots l) ->
  a mod al_of (l_ns l) = 0.
Proof.
  intros I A Hin Hlt Ha. pose proof I as [Ik Il _ _ Ip _]. rewrite Forall_forall in Il, Ip.
  destruct (Il l Hin) as [N1 _ S1 _ _ _].
  destruct (slot_of_witness _ _ _ (S1 a Ha)) as (x & Hx & Kx & Sx).
  pose proof (find_list_complete (l_ns l) (a_lists s) l Ik Hin eq_refl) as F. rewrite <- Kx in F.
  pose proof (A x l Hx F) as Hal. unfold range_align in Hal.
  pose proof (ns_ok_pos _ _ N1) as Hpos.
  destruct (al_of_cases (l_ns l) ltac:(lia)) as [Hc Hd].
  assert (Hap : 0 < al_of (l_ns l)) by lia.
  destruct (l_kind l) eqn:K.
  - eapply slot_aligned_intr; [exact Hpos|exact Hap|exact Hal|exact Hd|exact Sx].
  - cbn in N1. destruct (islot_small (l_ns l) N1 (snd x) a Sx) as (c & i & _ & _ & -> & _).
    pose proof (small_stride_aligned (l_ns l) ltac:(lia)) as Hst.
    change maxalZ with 16 in Hal.
    set (al := al_of (l_ns l)) in *. set (st := s_stride cmoZ mxZ caZ (l_ns l)) in *.
    apply Z.mod_divide in Hst; [|lia]. apply Z.mod_divide in Hd; [|lia].
    assert (Hm : (al | fst (snd x))). { apply Z.mod_divide in Hal; [|lia]. destruct Hal as [q Hq]. destruct Hc as [E|[E|[E|[E|E]]]]; rewrite E; exists (q * (16 / al)); rewrite Hq, E; cbn; lia. }
    assert (H32 : (al | 32)) by (destruct Hc as [E|[E|[E|[E|E]]]]; rewrite E; [exists 32|exists 16|exists 8|exists 4|exists 2]; reflexivity).
    apply Z.mod_divide; [lia|].
    repeat apply Z.divide_add_r; try assumption; apply Z.divide_mul_r; assumption.
Qed.
