(* the collection model instantiated: memory_pool_collection<node_pool, ...> over the intrusive list (configurations without
   the double-free check) and memory_pool_collection<array_pool, ...> / node_pool with the check over the address-ordered
   list; identity_buckets and log2_buckets *)
From Coq Require Import ZArith NArith List Bool Lia.
From FM Require Import GenArith ArithModel FixedStack SmallCarve PoolSpec Stack Arena UnorderedList UnorderedRefine OrderedList OrderedRefine SmallList CollExec.
Import ListNotations.
Local Open Scope Z_scope.

(* free_list_array::get: identity_buckets / log2_buckets with min_element_size 8 (both lists) *)
Definition coll_bkt_me (me : N) (log2 : bool) (size : Z) : Z :=
  Z.of_N ((if log2 then log2_bucket_node_size else identity_bucket_node_size) me (Z.to_N size)).
Definition coll_bkt := coll_bkt_me 8%N.
(* usable_size(size) of the two linked lists (whole nodes): the function generated from the source; both lists have the same body *)
Definition intr_usable (ns size : Z) : Z := Z.of_N (free_list_usable_size (Z.to_N ns) (Z.to_N size)).
(* the node sizes of the lists the array constructs for a maximum: size_from_index(i + min_size_index), i < no_elements *)
Definition coll_sizes_me (me : N) (log2 : bool) (max : Z) : list Z :=
  let ifs := if log2 then log2_index_from_size else identity_index_from_size in
  let sfi := if log2 then log2_size_from_index else identity_size_from_index in
  let mn := ifs me in
  let n := (ifs (Z.to_N max) - mn + 1)%N in
  map (fun i => Z.of_N (sfi (N.of_nat i + mn)%N)) (seq 0 (N.to_nat n)).
Definition coll_sizes := coll_sizes_me 8%N.
Definition coll_max (log2 : bool) (max : Z) : Z := last (coll_sizes log2 max) 0.

Definition ug_ns (g : ug) : Z := u_ns (ug_l g).
Definition ug_free (g : ug) : Z := u_capacity (ug_l g).
Definition ug_empty (ns : Z) : ug := {| ug_l := u_empty ns; ug_live := [] |}.
Definition ucoll := cpool ug.
Definition uc_step (log2 : bool) : ucoll -> coll_op -> option (ucoll * obs * list ev) := cc_step ug ug_ns ug_free ugstep (coll_bkt log2) intr_usable.
Definition uc_reserve (log2 : bool) := cc_reserve_op ug ug_ns ugstep (coll_bkt log2) intr_usable.
Definition uc_run (log2 : bool) := cc_run ug ug_ns ug_free ugstep (coll_bkt log2) intr_usable.
Definition uc_construct (log2 : bool) (k : akind) (fence max block_size : Z) (answer : option Z) :=
  cc_construct ug intr_usable (fun _ => map ug_empty (coll_sizes log2 max)) (length (coll_sizes log2 max)) k fence (coll_max log2 max) block_size 24 8 answer.

(* the address-ordered list; its sentinels live in the list object, i.e. in the list array inside the first block *)
Definition og_ns (g : og) : Z := nsz (og_l g).
Definition og_free (g : og) : Z := o_capacity (og_l g).
Definition o_of_u (o : u_op) : o_op :=
  match o with UIns m s => OIns m s | UAlloc => OAllocN | UAllocArr b => OAllocArr b | UDealloc p => ODeallocN p | UDeallocArr p b => ODeallocArr p b end.
Definition og_step (g : og) (o : u_op) : option (og * option Z) := ogstep false false g (o_of_u o).
Definition ocoll := cpool og.
Definition oc_step (log2 : bool) : ocoll -> coll_op -> option (ocoll * obs * list ev) := cc_step og og_ns og_free og_step (coll_bkt log2) intr_usable.
Definition oc_reserve (log2 : bool) := cc_reserve_op og og_ns og_step (coll_bkt log2) intr_usable.
Definition oc_run (log2 : bool) := cc_run og og_ns og_free og_step (coll_bkt log2) intr_usable.
Fixpoint og_array (m : Z) (sizes : list Z) : list og :=
  match sizes with [] => [] | ns :: tl => {| og_l := o_empty m (m + 8) ns; og_live := [] |} :: og_array (m + 48) tl end.
Definition oc_construct (log2 : bool) (k : akind) (fence max block_size : Z) (answer : option Z) :=
  cc_construct og intr_usable (fun m => og_array m (coll_sizes log2 max)) (length (coll_sizes log2 max)) k fence (coll_max log2 max) block_size 48 8 answer.


(* ---------- memory_pool_collection<small_node_pool, ...>: the chunked list (SmallList.v); no arrays ---------- *)
Definition sg_ns (g : smg) : Z := sm_ns (g_l g).
Definition sg_free (g : smg) : Z := sm_capacity (g_l g).
Definition sg_step (g : smg) (o : u_op) : option (smg * option Z) :=
  match o with
  | UIns m s => match gstep g (GIns m s) with Some g' => Some (g', None) | None => None end
  | UAlloc => match gstep g GAlloc with Some g' => Some (g', hd_error (g_live g')) | None => None end
  | UDealloc p => match gstep g (GDealloc p) with Some g' => Some (g', None) | None => None end
  | UAllocArr _ | UDeallocArr _ _ => None
  end.
(* usable_size(size): the function generated from the source -- counted only where the carving model finds a node in the
   range (the two are different formulas in the source; a range on which they disagree would show up as a divergence of the
   lock-step, and as an assertion of small_free_memory_list::insert) *)
Definition small_usable (ns size : Z) : Z :=
  if (0 <? s_nodes cmoZ mxZ caZ ns size) && (0 <? size) then Z.of_N (small_list_usable_size (Z.to_N ns) (Z.to_N size)) else 0.
Definition sg_empty (ns : Z) : smg := {| g_l := sm_empty ns; g_live := [] |}.
Definition scoll := cpool smg.
Definition sc_step (log2 : bool) : scoll -> coll_op -> option (scoll * obs * list ev) := cc_step smg sg_ns sg_free sg_step (coll_bkt_me 1%N log2) small_usable.
Definition sc_reserve (log2 : bool) := cc_reserve_op smg sg_ns sg_step (coll_bkt_me 1%N log2) small_usable.
Definition sc_run (log2 : bool) := cc_run smg sg_ns sg_free sg_step (coll_bkt_me 1%N log2) small_usable.
Definition sc_max (log2 : bool) (max : Z) : Z := last (coll_sizes_me 1%N log2 max) 0.
Definition sc_construct (log2 : bool) (k : akind) (fence max block_size : Z) (answer : option Z) :=
  cc_construct smg small_usable (fun _ => map sg_empty (coll_sizes_me 1%N log2 max)) (length (coll_sizes_me 1%N log2 max)) k fence (sc_max log2 max) block_size 56 8 answer.
