From Coq Require Import List Bool Arith Lia.
From FM Require Import Threading.
Import ListNotations.

Definition prog_of (x : tstate) : list block := match x with Idle r | Holding _ r | Inside _ r | InsideU r => r end.
Definition holds (x : tstate) : bool := match x with Holding _ _ | Inside _ _ => true | _ => false end.
Definition clean (x : tstate) : Prop := all_locked (prog_of x) = true /\ match x with InsideU _ => False | _ => True end.

(* the invariant: the mutex owner is the only thread that is not idle *)
Definition TInv (s : cstate) : Prop :=
  (forall t, clean (threads s t)) /\
  match owner s with
  | None => forall t, holds (threads s t) = false
  | Some o => holds (threads s o) = true /\ forall t, t <> o -> holds (threads s t) = false
  end.

Lemma upd_same t x f : upd t x f t = x. Proof. unfold upd. rewrite Nat.eqb_refl. reflexivity. Qed.
Lemma upd_other t i x f : i <> t -> upd t x f i = f i.
Proof. intros H. unfold upd. destruct (Nat.eqb_spec i t); [contradiction|reflexivity]. Qed.

Lemma start_inv progs : (forall t, all_locked (progs t) = true) -> TInv (start progs).
Proof. intros H. split; cbn; [intros t; split; [apply H|exact I]|intros t; reflexivity]. Qed.

Lemma cstep_inv s t s' : TInv s -> cstep s t = Some s' -> TInv s'.
Proof.
  intros [Hc Ho] H. unfold cstep in H.
  pose proof (Hc t) as [Hp Hx].
  destruct (threads s t) as [[|[k|] rest]|[|k] rest|k rest|rest] eqn:Et; cbn in Hp, Hx; try discriminate; try contradiction.
  - (* lock *)
    destruct (owner s) as [o|] eqn:Eo; [discriminate|]. injection H as <-. split; cbn.
    + intros i. destruct (Nat.eq_dec i t) as [->|Hne]; [rewrite upd_same; split; [cbn; exact Hp|exact I]|rewrite upd_other by assumption; apply Hc].
    + split; [rewrite upd_same; reflexivity|]. intros i Hi. rewrite upd_other by assumption. apply Ho.
  - (* unlock *)
    injection H as <-. destruct (owner s) as [o|] eqn:Eo.
    + destruct Ho as [Ho1 Ho2]. assert (t = o). { destruct (Nat.eq_dec t o); [assumption|]. specialize (Ho2 t n). rewrite Et in Ho2. discriminate. }
      subst o. split; cbn.
      * intros i. destruct (Nat.eq_dec i t) as [->|Hne]; [rewrite upd_same; split; [exact Hp|exact I]|rewrite upd_other by assumption; apply Hc].
      * intros i. destruct (Nat.eq_dec i t) as [->|Hne]; [rewrite upd_same; reflexivity|rewrite upd_other by assumption; apply Ho2; assumption].
    + specialize (Ho t). rewrite Et in Ho. discriminate.
  - (* enter *)
    injection H as <-. split; cbn.
    + intros i. destruct (Nat.eq_dec i t) as [->|Hne]; [rewrite upd_same; split; [exact Hp|exact I]|rewrite upd_other by assumption; apply Hc].
    + destruct (owner s) as [o|]; [|specialize (Ho t); rewrite Et in Ho; discriminate].
      destruct Ho as [Ho1 Ho2]. assert (t = o). { destruct (Nat.eq_dec t o); [assumption|]. specialize (Ho2 t n). rewrite Et in Ho2. discriminate. }
      subst o. split; [rewrite upd_same; reflexivity|]. intros i Hi. rewrite upd_other by assumption. apply Ho2. assumption.
  - (* leave *)
    injection H as <-. split; cbn.
    + intros i. destruct (Nat.eq_dec i t) as [->|Hne]; [rewrite upd_same; split; [exact Hp|exact I]|rewrite upd_other by assumption; apply Hc].
    + destruct (owner s) as [o|]; [|specialize (Ho t); rewrite Et in Ho; discriminate].
      destruct Ho as [Ho1 Ho2]. assert (t = o). { destruct (Nat.eq_dec t o); [assumption|]. specialize (Ho2 t n). rewrite Et in Ho2. discriminate. }
      subst o. split; [rewrite upd_same; reflexivity|]. intros i Hi. rewrite upd_other by assumption. apply Ho2. assumption.
Qed.

Lemma crun_inv : forall sched s, TInv s -> TInv (crun s sched).
Proof.
  induction sched as [|t sched IH]; intros s I; cbn; [assumption|]. apply IH.
  destruct (cstep s t) as [s'|] eqn:E; [eapply cstep_inv; eassumption|assumption].
Qed.

(* C13: any number of threads, any programs built from locking members and lock() proxies, any schedule:
   at most one thread is inside the wrapped allocator, and it owns the mutex *)
Theorem mutual_exclusion progs sched : (forall t, all_locked (progs t) = true) ->
  let s := crun (start progs) sched in
  (forall t1 t2, is_inside (threads s t1) = true -> is_inside (threads s t2) = true -> t1 = t2) /\
  (forall t, is_inside (threads s t) = true -> owner s = Some t).
Proof.
  intros Hp. cbv zeta. pose proof (crun_inv sched _ (start_inv progs Hp)) as [Hc Ho].
  set (s := crun (start progs) sched) in *.
  assert (Hin : forall t, is_inside (threads s t) = true -> holds (threads s t) = true).
  { intros t H. destruct (Hc t) as [_ Hx]. destruct (threads s t); cbn in *; try discriminate; try reflexivity. contradiction. }
  destruct (owner s) as [o|].
  - destruct Ho as [Ho1 Ho2]. split.
    + intros t1 t2 H1 H2. apply Hin in H1, H2.
      destruct (Nat.eq_dec t1 o) as [->|N1]; destruct (Nat.eq_dec t2 o) as [->|N2]; try reflexivity.
      * rewrite (Ho2 t2 N2) in H2. discriminate.
      * rewrite (Ho2 t1 N1) in H1. discriminate.
      * rewrite (Ho2 t1 N1) in H1. discriminate.
    + intros t H. apply Hin in H. destruct (Nat.eq_dec t o) as [->|N]; [reflexivity|]. rewrite (Ho2 t N) in H. discriminate.
  - split; intros; exfalso; [apply Hin in H|apply Hin in H]; rewrite Ho in H; discriminate.
Qed.

(* without the lock the property fails: two threads calling a member that does not lock overlap *)
Theorem unlocked_member_refuted : exists progs sched t1 t2,
  let s := crun (start progs) sched in
  t1 <> t2 /\ is_inside (threads s t1) = true /\ is_inside (threads s t2) = true.
Proof. exists (fun _ => [BUnlocked]), [0; 1], 0, 1. cbn. repeat split; discriminate. Qed.

(* ---------- the wrapped allocator sees a serial history ---------- *)
Lemma inside_iff s : TInv s -> forall t, is_inside (threads s t) = true <-> inside_now s = Some t.
Proof.
  intros [Hc Ho] t. unfold inside_now. split.
  - intros H. assert (Hh : holds (threads s t) = true).
    { destruct (Hc t) as [_ Hx]. destruct (threads s t); cbn in *; try discriminate; try reflexivity. contradiction. }
    destruct (owner s) as [o|]; [|rewrite Ho in Hh; discriminate]. destruct Ho as [Ho1 Ho2].
    destruct (Nat.eq_dec t o) as [->|N]; [rewrite H; reflexivity|]. rewrite (Ho2 t N) in Hh. discriminate.
  - destruct (owner s) as [o|]; [|discriminate]. destruct (is_inside (threads s o)) eqn:E; [|discriminate]. intros H. inversion H; subst. exact E.
Qed.

Lemma inside_now_char s c : TInv s -> (forall t, is_inside (threads s t) = true <-> c = Some t) -> inside_now s = c.
Proof.
  intros Hi Hc. destruct (inside_now s) as [o|] eqn:E.
  - apply (inside_iff s Hi) in E. apply Hc in E. congruence.
  - destruct c as [t|]; [|reflexivity]. assert (is_inside (threads s t) = true) by (apply Hc; reflexivity).
    apply (inside_iff s Hi) in H. congruence.
Qed.

Lemma cstep_others s t s' : cstep s t = Some s' -> forall i, i <> t -> threads s' i = threads s i.
Proof.
  intros H i Hi. unfold cstep in H.
  destruct (threads s t) as [[|[k|] rest]|[|k] rest|k rest|rest]; try discriminate;
    try (destruct (owner s); try discriminate); injection H as <-; cbn [threads]; apply upd_other; exact Hi.
Qed.

Theorem serial_history : forall sched s, TInv s -> serial (inside_now s) (ctrace s sched).
Proof.
  induction sched as [|t sched IH]; intros s Hi; cbn [ctrace]; [exact I|].
  destruct (cstep s t) as [s'|] eqn:E; [|apply IH; exact Hi].
  pose proof (cstep_inv s t s' Hi E) as Hi'. pose proof (cstep_others s t s' E) as Hoth.
  specialize (IH s' Hi'). unfold pass_event.
  destruct (is_inside (threads s t)) eqn:B; destruct (is_inside (threads s' t)) eqn:A; cbn [app serial].
  - (* stays inside *)
    replace (inside_now s) with (inside_now s'); [exact IH|]. apply inside_now_char; [exact Hi'|]. intros i. rewrite <- (inside_iff s Hi i).
    destruct (Nat.eq_dec i t) as [->|N]; [rewrite A, B; tauto|rewrite (Hoth i N); tauto].
  - (* leaves *)
    split; [apply (inside_iff s Hi); exact B|].
    replace (inside_now s') with (@None nat) in IH; [exact IH|]. symmetry. apply inside_now_char; [exact Hi'|]. intros i. split; [|discriminate].
    intros Hin. exfalso. destruct (Nat.eq_dec i t) as [->|N]; [congruence|]. rewrite (Hoth i N) in Hin.
    apply (inside_iff s Hi) in Hin. apply (inside_iff s Hi) in B. congruence.
  - (* enters *)
    split.
    + apply inside_now_char; [exact Hi|]. intros i. split; [|discriminate]. intros Hin. exfalso.
      destruct (Nat.eq_dec i t) as [->|N]; [congruence|]. rewrite <- (Hoth i N) in Hin.
      apply (inside_iff s' Hi') in Hin. apply (inside_iff s' Hi') in A. congruence.
    + replace (Some t) with (inside_now s'); [exact IH|]. apply (inside_iff s' Hi'). exact A.
  - (* no pass event *)
    replace (inside_now s) with (inside_now s'); [exact IH|]. apply inside_now_char; [exact Hi'|]. intros i. rewrite <- (inside_iff s Hi i).
    destruct (Nat.eq_dec i t) as [->|N]; [rewrite A, B; tauto|rewrite (Hoth i N); tauto].
Qed.

(* C13: from the start, under any schedule, the passes through the wrapped allocator form a serial history: what the wrapped
   allocator sees is one call after the other, so everything proved about sequential histories (C01..C07) applies to it *)
Theorem wrapped_allocator_sees_serial_history progs sched : (forall t, all_locked (progs t) = true) -> serial None (ctrace (start progs) sched).
Proof. intros Hp. apply (serial_history sched (start progs) (start_inv progs Hp)). Qed.

(* ... and the hypothesis is needed here too *)
Theorem unlocked_member_not_serial : exists progs sched, ~ serial None (ctrace (start progs) sched).
Proof. exists (fun _ => [BUnlocked]), [0; 1]. cbn. intros [_ [H _]]. discriminate. Qed.
