(* The Exec model of the address-ordered free list (OrderedList.v: sentinels, cursor, position search, array search) refines
   the Spec list of PoolSpec.v over every history of inserts, node and array allocations and releases. *)
From Coq Require Import ZArith NArith List Bool Lia Arith Permutation.
From FM Require Import GenArith FixedStack SmallCarve PoolSpec OrderedList OrderedListProofs UnorderedList UnorderedListProofs UnorderedRefine.
Import ListNotations.
Local Open Scope Z_scope.

Lemma block_nodes_ublock : forall cnt m step, block_nodes cnt m step = ublock cnt m step.
Proof. induction cnt as [|c IH]; intros m step; cbn [block_nodes ublock]; [reflexivity|]. rewrite IH. reflexivity. Qed.

Lemma sorted_nodup ns : sorted ns -> NoDup ns.
Proof.
  intros H. apply sorted_SS in H. induction H as [|x l Hss IH Hall]; constructor; [|exact IH].
  intros Hin. rewrite Forall_forall in Hall. specialize (Hall x Hin). lia.
Qed.

(* ---------- insert ---------- *)
Theorem insert_valid asserts dbl l m size : OInv l -> (1 <= Z.to_nat (size / nsz l))%nat ->
  (forall x, In x (nodes l) -> x < m \/ m + Z.of_nat (Z.to_nat (size / nsz l)) * nsz l <= x) ->
  exists l', o_insert asserts dbl l m size = Ret l' /\ OInv l' /\ nsz l' = nsz l /\
             (forall x, In x (nodes l') <-> In x (block_nodes (Z.to_nat (size / nsz l)) m (nsz l)) \/ In x (nodes l)) /\
             n_of l' = (n_of l + Z.to_nat (size / nsz l))%nat.
Proof.
  intros (Hso & Hc & Hp & Hn) Hcnt Hfree. set (cnt := Z.to_nat (size / nsz l)) in *.
  assert (Hm : ~ In m (nodes l)). { intros Hin. destruct (Hfree m Hin) as [H|H]; [lia|]. assert (0 < Z.of_nat cnt * nsz l) by nia. lia. }
  assert (Hm' : forall a, (1 <= a <= n_of l)%nat -> ext l a <> m).
  { intros a Ha E. apply Hm. rewrite <- E, ext_node by assumption. apply nth_In. unfold n_of in *. lia. }
  destruct (find_pos_correct l m asserts dbl Hso Hp Hm' Hc) as (k & Hk & Hk1 & Hk2 & Hk3).
  unfold o_insert. fold cnt. rewrite Hk. eexists. split; [reflexivity|].
  set (blk := block_nodes cnt m (nsz l)).
  assert (Lb : length blk = cnt). { unfold blk. rewrite block_nodes_ublock. apply ublock_length. }
  assert (L : length (insert_at (nodes l) k blk) = (n_of l + cnt)%nat).
  { unfold insert_at. rewrite !app_length, firstn_length, skipn_length, Lb. unfold n_of in *. lia. }
  unfold OInv. cbn [nodes set_nodes ldp pb pe nsz n_of]. split; [|split; [reflexivity|split]].
  - split; [apply block_fits_sorted; assumption|]. split; [|split; assumption].
    unfold n_of, set_nodes. cbn [nodes]. rewrite L. destruct (Nat.ltb_spec k (ldp l)); lia.
  - intros x. unfold insert_at. rewrite !in_app_iff. split.
    + intros [Hx|[Hx|Hx]]; [right; apply (in_firstn' _ _ k); assumption|left; assumption|right; apply (in_skipn' _ _ k); assumption].
    + intros [Hx|Hx]; [right; left; assumption|].
      rewrite <- (firstn_skipn k (nodes l)) in Hx. apply in_app_iff in Hx as [Hx|Hx]; [left; assumption|right; right; assumption].
  - unfold n_of, set_nodes. cbn [nodes]. exact L.
Qed.

(* ---------- array allocation takes exactly one run ---------- *)
Lemma run_len_consecutive : forall ns step k, (S k < run_len ns step)%nat -> nth (S k) ns 0 = nth k ns 0 + step.
Proof.
  induction ns as [|x tl IH]; intros step k H; [cbn in H; lia|].
  cbn [run_len] in H. destruct tl as [|y tl']; [lia|]. destruct (Z.eqb_spec (x + step) y) as [E|E]; [|lia].
  destruct k as [|k]; [cbn; lia|]. cbn [nth]. apply (IH step k). lia.
Qed.

Lemma find_run_run : forall fuel ns step need idx i, find_run fuel ns step need idx = Some i ->
  (idx <= i)%nat /\ (need <= run_len (skipn (i - idx) ns) step)%nat.
Proof.
  induction fuel as [|f IH]; intros ns step need idx i H; cbn in H; [discriminate|].
  destruct ns as [|x tl]; [discriminate|]. set (r := run_len (x :: tl) step) in *.
  destruct (Nat.leb_spec need r).
  - injection H as <-. rewrite Nat.sub_diag. cbn [skipn]. split; [lia|assumption].
  - apply IH in H. destruct H as [H1 H2]. split; [lia|]. rewrite skipn_skipn' in H2. replace (i - idx)%nat with (r + (i - (idx + r)))%nat by lia. exact H2.
Qed.

Lemma o_alloc_array_perm l bytes x l' : OInv l -> nsz l < bytes -> o_alloc_array l bytes = Some (x, l') ->
  Permutation (nodes l) (ublock (nodes_for l bytes) x (nsz l) ++ nodes l') /\ nsz l' = nsz l /\ (ldp l' <= n_of l')%nat /\ pb l' = pb l /\ pe l' = pe l.
Proof.
  intros (Hso & Hc & Hp & Hn) Hb. unfold o_alloc_array. destruct (Z.leb_spec bytes (nsz l)); [lia|].
  destruct (find_run (S (n_of l)) (nodes l) (nsz l) (nodes_for l bytes) 0) as [i|] eqn:F; [|discriminate].
  intros Heq. injection Heq as <- <-. pose proof (find_run_bound _ _ _ _ _ _ F) as [_ Fb]. apply find_run_run in F as [_ Fr]. rewrite Nat.sub_0_r in Fb, Fr.
  set (need := nodes_for l bytes) in *. set (ns := nodes l) in *.
  assert (Hcnt : (1 <= need)%nat).
  { unfold need, nodes_for. assert (1 <= (bytes + nsz l - 1) / nsz l) by (apply Z.div_le_lower_bound; lia). lia. }
  assert (Run : forall k, (k < need)%nat -> nth (i + k) ns 0 = nth i ns 0 + Z.of_nat k * nsz l).
  { induction k as [|k IH]; intros Hk; [rewrite Nat.add_0_r; lia|].
    pose proof (run_len_consecutive (skipn i ns) (nsz l) k ltac:(lia)) as C. rewrite !nth_skipn' in C.
    replace (i + S k)%nat with (i + S k)%nat by lia. rewrite C, IH by lia. lia. }
  assert (Split : ns = firstn i ns ++ firstn need (skipn i ns) ++ skipn (i + need) ns).
  { rewrite <- (firstn_skipn i ns) at 1. f_equal. rewrite <- (firstn_skipn need (skipn i ns)) at 1. f_equal. apply skipn_skipn'. }
  assert (Blk : firstn need (skipn i ns) = ublock need (nth i ns 0) (nsz l)).
  { apply firstn_run_is_ublock; [rewrite skipn_length; lia|]. intros k Hk. rewrite nth_skipn'. apply Run. exact Hk. }
  cbn [nodes set_nodes nsz ldp n_of pb pe]. split; [|split; [reflexivity|split; [|split; reflexivity]]].
  - rewrite Split at 1. rewrite Blk. rewrite app_assoc. eapply Permutation_trans; [apply Permutation_app_tail; apply Permutation_app_comm|].
    rewrite <- app_assoc. apply Permutation_refl.
  - assert (Hlen : length (firstn i ns ++ skipn (i + need) ns) = (length ns - need)%nat) by (rewrite app_length, firstn_length, skipn_length; lia).
    assert (Hc' : (ldp l <= length ns)%nat) by exact Hc.
    match goal with |- (_ <= n_of (set_nodes l ?x ?c))%nat => change (n_of (set_nodes l x c)) with (length x) end. rewrite Hlen.
    match goal with |- ((if ?b1 then i else if ?b2 then i else if ?b3 then (ldp l - need)%nat else ldp l) <= _)%nat =>
      destruct b1 eqn:E1; [clear E1; lia|destruct b2 eqn:E2; [clear E1 E2; lia|destruct b3 eqn:E3]] end.
    + clear E1 E2 E3. lia.
    + apply Nat.eqb_neq in E2. apply Nat.ltb_ge in E3.
      destruct (Nat.lt_ge_cases (ldp l) i) as [Hlt|Hge]; [clear E1; lia|]. exfalso.
      (* the cursor's successor would lie inside the run: the first test would have caught it *)
      assert (H1 : ext l (S i) <= ext l (S (ldp l))).
      { destruct (Nat.eq_dec (ldp l) i) as [->|]; [lia|]. apply Z.lt_le_incl. apply ext_mono; [exact Hso|lia|lia|unfold n_of; change (nodes l) with ns; lia]. }
      assert (H2 : ext l (S (ldp l)) <= ext l (i + need)).
      { destruct (Nat.eq_dec (S (ldp l)) (i + need)) as [->|]; [lia|]. apply Z.lt_le_incl. apply ext_mono; [exact Hso|lia|lia|unfold n_of; change (nodes l) with ns; lia]. }
      change (if (i <? n_of l)%nat then nth i ns 0 else pe l) with (ext l (S i)) in E1.
      change (if (ldp l <? n_of l)%nat then nth (ldp l) ns 0 else pe l) with (ext l (S (ldp l))) in E1.
      apply andb_false_iff in E1. destruct E1 as [E1|E1]; apply Z.leb_gt in E1; lia.
Qed.

(* ---------- histories of the Exec list, with the nodes and arrays its user holds ---------- *)
Record og := { og_l : olist; og_live : list (Z * Z) }.
Inductive o_op := OIns (m size : Z) | OAllocN | OAllocArr (bytes : Z) | ODeallocN (p : Z) | ODeallocArr (p bytes : Z).

Definition ogstep (asserts dbl : bool) (g : og) (o : o_op) : option (og * option Z) :=
  let l := og_l g in let ns := nsz l in
  match o with
  | OIns m size =>
      if (1 <=? size / ns) && forallb (outside m (size / ns) ns) (ulive_slots ns (og_live g) ++ nodes l)
      then match o_insert asserts dbl l m size with Ret l' => Some ({| og_l := l'; og_live := og_live g |}, None) | _ => None end
      else None
  | OAllocN => match o_alloc l with Some (x, l') => Some ({| og_l := l'; og_live := (x, 1) :: og_live g |}, Some x) | None => None end
  | OAllocArr bytes =>
      if ns <? bytes
      then match o_alloc_array l bytes with
           | Some (x, l') => Some ({| og_l := l'; og_live := (x, Z.of_nat (nodes_for l bytes)) :: og_live g |}, Some x)
           | None => Some (g, None)
           end
      else None
  | ODeallocN p =>
      match remove_alloc p 1 (og_live g) with
      | Some live' => match o_dealloc asserts dbl l p with Ret l' => Some ({| og_l := l'; og_live := live' |}, None) | _ => None end
      | None => None
      end
  | ODeallocArr p bytes =>
      if ns <? bytes
      then match remove_alloc p (Z.of_nat (nodes_for l bytes)) (og_live g) with
           | Some live' => match o_dealloc_array asserts dbl l p bytes with Ret l' => Some ({| og_l := l'; og_live := live' |}, None) | _ => None end
           | None => None
           end
      else None
  end.

Definition o_us_op (o : o_op) : u_op :=
  match o with OIns m s => UIns m s | OAllocN => UAlloc | OAllocArr b => UAllocArr b | ODeallocN p => UDealloc p | ODeallocArr p b => UDeallocArr p b end.

Fixpoint ocorun (asserts dbl : bool) (g : og) (s : uspec) (os : list o_op) : option (og * uspec) :=
  match os with
  | [] => Some (g, s)
  | o :: tl => match ogstep asserts dbl g o with
               | Some (g', res) => match us_step s (o_us_op o) res with Some s' => ocorun asserts dbl g' s' tl | None => None end
               | None => None
               end
  end.
Fixpoint ogrun (asserts dbl : bool) (g : og) (os : list o_op) : option og :=
  match os with [] => Some g | o :: tl => match ogstep asserts dbl g o with Some (g', _) => ogrun asserts dbl g' tl | None => None end end.

Definition o_capacity (l : olist) : Z := Z.of_nat (n_of l).

Definition OR (g : og) (s : uspec) : Prop :=
  let ns := nsz (og_l g) in
  OInv (og_l g) /\ us_l s = ul ns (og_live g) (o_capacity (og_l g)) /\
  NoDup (ulive_slots ns (og_live g) ++ nodes (og_l g)) /\
  (forall a, In a (ulive_slots ns (og_live g) ++ nodes (og_l g)) <-> uslotb (us_rs s) ns a = true) /\
  apart ns (ulive_slots ns (og_live g) ++ nodes (og_l g)).

Lemma set_iff_perm (a b : list Z) : NoDup a -> NoDup b -> (forall x, In x a <-> In x b) -> Permutation a b.
Proof. intros Ha Hb H. apply NoDup_Permutation; assumption. Qed.

Lemma onodes_for_slots l bytes : 0 < nsz l -> nsz l < bytes -> slots_needed (nsz l) bytes = Z.of_nat (nodes_for l bytes) /\ (2 <= nodes_for l bytes)%nat.
Proof.
  intros Hns Hb. unfold slots_needed, nodes_for. destruct (Z.leb_spec bytes (nsz l)); [lia|].
  assert (2 <= (bytes + nsz l - 1) / nsz l) by (apply Z.div_le_lower_bound; lia). rewrite Z2Nat.id by lia. split; [reflexivity|lia].
Qed.

Theorem ostep_refines asserts dbl g s o g' res : OR g s -> ogstep asserts dbl g o = Some (g', res) ->
  exists s', us_step s (o_us_op o) res = Some s' /\ OR g' s'.
Proof.
  intros (Hinv & Hl & Hnd & Hiff & Hap) Hstep. cbv zeta in *. destruct s as [rs l]. cbn [us_l us_rs] in *. subst l.
  pose proof Hinv as (Hso & Hc & Hp & Hns). set (ns := nsz (og_l g)) in *.
  destruct o as [m size| |bytes|p|p bytes]; cbn [ogstep o_us_op] in Hstep |- *; change (nsz (og_l g)) with ns in Hstep.
  - (* insert *)
    destruct ((1 <=? size / ns) && forallb _ _) eqn:Hpre; [|discriminate].
    apply andb_prop in Hpre. destruct Hpre as [Hq Hall]. apply Z.leb_le in Hq. rewrite forallb_forall in Hall.
    set (cnt := Z.to_nat (size / ns)) in *. set (blk := ublock cnt m ns).
    assert (Hcnt : Z.of_nat cnt = size / ns) by (unfold cnt; lia).
    assert (Hfar : forall a b, In a (ulive_slots ns (og_live g) ++ nodes (og_l g)) -> In b blk -> a + ns <= b \/ b + ns <= a).
    { intros a b Ha Hb. specialize (Hall a Ha). unfold outside in Hall. apply (ublock_in_iff _ _ _ _ Hns) in Hb. rewrite Hcnt in Hb. destruct Hb as [Hb1 Hb2].
      apply Z.mod_divide in Hb2; [|lia]. destruct Hb2 as [q Eq].
      apply orb_prop in Hall. destruct Hall as [H|H]; [apply Z.leb_le in H; left; lia|apply Z.leb_le in H; right]. assert (q < size / ns) by nia. nia. }
    assert (Hout : forall a, In a (ulive_slots ns (og_live g) ++ nodes (og_l g)) -> ~ In a blk).
    { intros a Ha Hb. destruct (Hfar a a Ha Hb); lia. }
    assert (Hfree : forall x, In x (nodes (og_l g)) -> x < m \/ m + Z.of_nat cnt * ns <= x).
    { intros x Hx. specialize (Hall x ltac:(apply in_or_app; right; exact Hx)). unfold outside in Hall. rewrite Hcnt. apply orb_prop in Hall. destruct Hall as [H|H]; [apply Z.leb_le in H; left; lia|apply Z.leb_le in H; right; exact H]. }
    destruct (insert_valid asserts dbl (og_l g) m size Hinv ltac:(fold ns; fold cnt; lia) Hfree) as (l' & El' & Hinv' & Ens' & Hnodes & Hn').
    fold ns in Hnodes, Hn'. fold cnt in Hnodes, Hn'. rewrite El' in Hstep. inversion Hstep; subst g' res; clear Hstep.
    rewrite block_nodes_ublock in Hnodes. fold blk in Hnodes.
    cbn [us_step us_l us_rs ul l_kind l_ns l_allocs l_nfree].
    exists {| us_rs := (ns, (m, size)) :: rs; us_l := ul ns (og_live g) (o_capacity l') |}. split.
    { unfold ul. do 3 f_equal. unfold nodes_of, l_nodes, o_capacity. cbn [snd]. rewrite Hn'. unfold o_capacity. lia. }
    unfold OR. cbn [og_l og_live us_l us_rs]. rewrite Ens'. fold ns.
    split; [exact Hinv'|]. split; [reflexivity|].
    assert (Hperm : Permutation (nodes l') (blk ++ nodes (og_l g))).
    { apply set_iff_perm; [apply sorted_nodup; destruct Hinv' as (S' & _); exact S'| |intros x; rewrite (Hnodes x), in_app_iff; tauto].
      apply NoDup_app_iff'. split; [apply ublock_nodup; exact Hns|]. split; [apply sorted_nodup; exact Hso|]. intros x Hx Hx'. apply (Hout x); [apply in_or_app; right; exact Hx'|exact Hx]. }
    assert (Hperm2 : Permutation (ulive_slots ns (og_live g) ++ nodes l') (blk ++ ulive_slots ns (og_live g) ++ nodes (og_l g))).
    { eapply Permutation_trans; [apply Permutation_app_head; exact Hperm|]. apply Permutation_app_swap_app. }
    assert (Hnd2 : NoDup (blk ++ ulive_slots ns (og_live g) ++ nodes (og_l g))).
    { apply NoDup_app_iff'. split; [apply ublock_nodup; exact Hns|]. split; [exact Hnd|]. intros x Hx Hx'. apply (Hout x Hx' Hx). }
    split; [eapply Permutation_NoDup; [apply Permutation_sym; exact Hperm2|exact Hnd2]|]. split.
    + intros a.
      assert (Hin : In a (ulive_slots ns (og_live g) ++ nodes l') <-> In a blk \/ In a (ulive_slots ns (og_live g) ++ nodes (og_l g))).
      { split; [intros H; apply (Permutation_in _ Hperm2) in H; apply in_app_or in H; exact H|intros H; apply (Permutation_in _ (Permutation_sym Hperm2)); apply in_or_app; exact H]. }
      rewrite Hin. unfold uslotb, slot_of. cbn [existsb fst snd ul l_ns l_kind]. rewrite Z.eqb_refl. cbn [andb].
      fold (slot_of rs (ul ns [] 0) a). fold (uslotb rs ns a). rewrite orb_true_iff, <- (Hiff a), (is_slot_intrusive ns m size a Hns ltac:(pose proof (Z.mul_div_le size ns Hns); nia)). fold cnt. fold blk. tauto.
    + intros a b Ha Hb Hab.
      assert (Hcase : forall c, In c (ulive_slots ns (og_live g) ++ nodes l') -> In c blk \/ In c (ulive_slots ns (og_live g) ++ nodes (og_l g))).
      { intros c Hcin. apply (Permutation_in _ Hperm2) in Hcin. apply in_app_or in Hcin. exact Hcin. }
      destruct (Hcase a Ha) as [A|A]; destruct (Hcase b Hb) as [B|B].
      * apply (ublock_in_iff _ _ _ _ Hns) in A. apply (ublock_in_iff _ _ _ _ Hns) in B. destruct A as [_ A]. destruct B as [_ B].
        apply Z.mod_divide in A; [|lia]. apply Z.mod_divide in B; [|lia]. destruct A as [qa Ea]. destruct B as [qb Eb]. assert (qa <> qb) by (intros ->; lia). nia.
      * destruct (Hfar b a B A); lia.
      * exact (Hfar a b A B).
      * apply Hap; assumption.
  - (* allocate a node *)
    destruct (o_alloc (og_l g)) as [[x l']|] eqn:E; [|discriminate]. inversion Hstep; subst g' res; clear Hstep.
    destruct (alloc_inv _ _ _ Hinv E) as (Hinv' & En).
    assert (Ens : nsz l' = ns) by (unfold o_alloc in E; destruct (nodes (og_l g)); [discriminate|]; inversion E; reflexivity).
    cbn [us_step us_l us_rs]. unfold o_capacity, n_of.
    pose proof (take_block rs ns (og_live g) (nodes (og_l g)) x 1 ltac:(lia) Hnd Hiff) as Ht. change (Z.of_nat 1) with 1 in Ht.
    rewrite Ht; [|cbn [ublock]; intros a [<-|[]]; rewrite En; left; reflexivity|rewrite En; cbn [length]; lia].
    eexists. split; [reflexivity|]. unfold OR. cbn [og_l og_live us_l us_rs]. rewrite Ens.
    split; [exact Hinv'|]. split; [unfold ul, o_capacity, n_of; f_equal; rewrite En; cbn [length]; lia|].
    apply (moved_keeps_invariant ns rs (og_live g) ((x, 1) :: og_live g) (nodes (og_l g)) (nodes l')); [|exact Hnd|exact Hiff|exact Hap].
    rewrite En. unfold ulive_slots at 1. cbn [flat_map fst snd]. change (Z.to_nat 1) with 1%nat. cbn [ublock app].
    fold (ulive_slots ns (og_live g)). apply Permutation_middle.
  - (* allocate an array *)
    destruct (Z.ltb_spec ns bytes) as [Hb|Hb]; [|discriminate].
    destruct (o_alloc_array (og_l g) bytes) as [[x l']|] eqn:E.
    + inversion Hstep; subst g' res; clear Hstep.
      destruct (alloc_array_inv _ _ _ _ Hinv Hb E) as (Hso' & _ & Hcap & _).
      destruct (o_alloc_array_perm _ _ _ _ Hinv Hb E) as (Hperm & Ens & Hc' & Epb & Epe). fold ns in Ens, Hperm.
      destruct (onodes_for_slots (og_l g) bytes Hns Hb) as [Hsn Hk2]. fold ns in Hsn.
      set (need := nodes_for (og_l g) bytes) in *.
      cbn [us_step us_l us_rs ul l_ns]. rewrite Hsn. unfold o_capacity, n_of.
      rewrite (take_block rs ns (og_live g) (nodes (og_l g)) x need ltac:(lia) Hnd Hiff).
      2:{ intros a Ha. eapply Permutation_in; [apply Permutation_sym; exact Hperm|]. apply in_or_app. left. exact Ha. }
      2:{ rewrite (Permutation_length Hperm), app_length, ublock_length. lia. }
      eexists. split; [reflexivity|]. unfold OR. cbn [og_l og_live us_l us_rs]. rewrite Ens.
      split; [unfold OInv; rewrite Ens, Epb, Epe; repeat split; assumption|].
      split; [unfold ul, o_capacity; f_equal; pose proof (Permutation_length Hperm) as HL; rewrite app_length, ublock_length in HL; unfold n_of in *; lia|].
      apply (moved_keeps_invariant ns rs (og_live g) ((x, Z.of_nat need) :: og_live g) (nodes (og_l g)) (nodes l')); [|exact Hnd|exact Hiff|exact Hap].
      unfold ulive_slots at 1. cbn [flat_map fst snd]. rewrite Nat2Z.id. fold (ulive_slots ns (og_live g)).
      rewrite <- app_assoc. eapply Permutation_trans; [apply Permutation_app_swap_app|]. apply Permutation_app_head. apply Permutation_sym. exact Hperm.
    + inversion Hstep; subst g' res; clear Hstep. cbn [us_step]. eexists. split; [reflexivity|]. unfold OR. cbn [us_l us_rs]. fold ns. repeat split; try assumption; apply Hiff.
  - (* release a node *)
    destruct (remove_alloc p 1 (og_live g)) as [live'|] eqn:E; [|discriminate].
    pose proof (remove_alloc_perm _ _ _ _ E) as Hpl. pose proof (ulive_slots_perm ns _ _ Hpl) as Hps.
    unfold ulive_slots at 2 in Hps. cbn [flat_map fst snd] in Hps. change (Z.to_nat 1) with 1%nat in Hps. cbn [ublock app] in Hps. fold (ulive_slots ns live') in Hps.
    assert (Hpn : ~ In p (nodes (og_l g))).
    { intros Hin. eapply (nodup_app_not_in _ _ p Hnd Hin). eapply Permutation_in; [apply Permutation_sym; exact Hps|]. left. reflexivity. }
    destruct (dealloc_valid asserts dbl (og_l g) p Hinv Hpn) as (l' & El' & Hinv' & Hnodes & Hn').
    rewrite El' in Hstep. inversion Hstep; subst g' res; clear Hstep.
    assert (Ens : nsz l' = ns).
    { unfold o_dealloc in El'. destruct (find_pos asserts dbl (og_l g) p); try discriminate. inversion El'; reflexivity. }
    cbn [us_step us_l us_rs]. unfold give_slots. cbn [l_allocs ul]. rewrite E.
    eexists. split; [reflexivity|]. unfold OR. cbn [og_l og_live us_l us_rs]. rewrite Ens.
    split; [exact Hinv'|]. split; [unfold ul, o_capacity; cbn [l_kind l_ns l_nfree]; f_equal; rewrite Hn'; unfold o_capacity; lia|].
    apply (moved_keeps_invariant ns rs (og_live g) live' (nodes (og_l g)) (nodes l')); [|exact Hnd|exact Hiff|exact Hap].
    assert (Hpn' : Permutation (nodes l') (p :: nodes (og_l g))).
    { apply set_iff_perm; [apply sorted_nodup; destruct Hinv' as (S' & _); exact S'|constructor; [exact Hpn|apply sorted_nodup; exact Hso]|].
      intros x. rewrite (Hnodes x). cbn [In]. split; intros [H|H]; auto. }
    eapply Permutation_trans; [apply Permutation_app_head; exact Hpn'|]. eapply Permutation_trans; [apply Permutation_sym; apply Permutation_middle|]. cbn [app].
    apply Permutation_sym. eapply Permutation_trans; [apply Permutation_app_tail; exact Hps|]. apply Permutation_refl.
  - (* release an array *)
    destruct (Z.ltb_spec ns bytes) as [Hb|Hb]; [|discriminate].
    destruct (onodes_for_slots (og_l g) bytes Hns Hb) as [Hsn Hk2]. fold ns in Hsn.
    set (need := nodes_for (og_l g) bytes) in *.
    destruct (remove_alloc p (Z.of_nat need) (og_live g)) as [live'|] eqn:E; [|discriminate].
    pose proof (remove_alloc_perm _ _ _ _ E) as Hpl. pose proof (ulive_slots_perm ns _ _ Hpl) as Hps.
    unfold ulive_slots at 2 in Hps. cbn [flat_map fst snd] in Hps. rewrite Nat2Z.id in Hps. fold (ulive_slots ns live') in Hps.
    assert (Hblk_live : forall a, In a (ublock need p ns) -> In a (ulive_slots ns (og_live g))).
    { intros a Ha. eapply Permutation_in; [apply Permutation_sym; exact Hps|]. apply in_or_app. left. exact Ha. }
    assert (Hfree : forall x, In x (nodes (og_l g)) -> x < p \/ p + Z.of_nat need * ns <= x).
    { intros x Hx. destruct (apart_from_block ns p need x Hns ltac:(lia)) as [H|H]; [|left; lia|right; exact H].
      intros i Hi. assert (Hin : In (p + i * ns) (ublock need p ns)).
      { apply (ublock_in_iff _ _ _ _ Hns). split; [nia|]. replace (p + i * ns - p) with (i * ns) by ring. apply Z_mod_mult. }
      assert (x <> p + i * ns). { intros ->. eapply (nodup_app_not_in _ _ _ Hnd Hx). apply Hblk_live. exact Hin. }
      destruct (Hap x (p + i * ns)); [apply in_or_app; right; exact Hx|apply in_or_app; left; apply Hblk_live; exact Hin|assumption|left; lia|right; lia]. }
    destruct (dealloc_array_valid asserts dbl (og_l g) p bytes Hinv Hb Hfree) as (l' & El' & Hinv' & Hnodes & Hn'). fold need in Hnodes, Hn'. fold ns in Hnodes.
    rewrite El' in Hstep. inversion Hstep; subst g' res; clear Hstep.
    assert (Ens : nsz l' = ns).
    { unfold o_dealloc_array in El'. change (nsz (og_l g)) with ns in El'. destruct (Z.leb_spec bytes ns); [lia|]. destruct (find_pos asserts dbl (og_l g) p); try discriminate. inversion El'; reflexivity. }
    cbn [us_step us_l us_rs ul l_ns]. rewrite Hsn. unfold give_slots. cbn [l_allocs ul]. rewrite E.
    eexists. split; [reflexivity|]. unfold OR. cbn [og_l og_live us_l us_rs]. rewrite Ens.
    split; [exact Hinv'|]. split; [unfold ul, o_capacity; cbn [l_kind l_ns l_nfree]; f_equal; rewrite Hn'; unfold o_capacity; lia|].
    rewrite block_nodes_ublock in Hnodes.
    apply (moved_keeps_invariant ns rs (og_live g) live' (nodes (og_l g)) (nodes l')); [|exact Hnd|exact Hiff|exact Hap].
    assert (Hpn' : Permutation (nodes l') (ublock need p ns ++ nodes (og_l g))).
    { apply set_iff_perm; [apply sorted_nodup; destruct Hinv' as (S' & _); exact S'| |intros x; rewrite (Hnodes x), in_app_iff; tauto].
      apply NoDup_app_iff'. split; [apply ublock_nodup; exact Hns|]. split; [apply sorted_nodup; exact Hso|]. intros x Hx Hx'.
      eapply (nodup_app_not_in _ _ _ Hnd Hx'). apply Hblk_live. exact Hx. }
    eapply Permutation_trans; [apply Permutation_app_head; exact Hpn'|].
    eapply Permutation_trans; [apply Permutation_app_swap_app|]. rewrite app_assoc. apply Permutation_app_tail. apply Permutation_sym. exact Hps.
Qed.

Theorem orun_refines asserts dbl : forall os g0 s0 g, OR g0 s0 -> ogrun asserts dbl g0 os = Some g -> exists s, ocorun asserts dbl g0 s0 os = Some (g, s) /\ OR g s.
Proof.
  induction os as [|o tl IH]; intros g0 s0 g Hr Hrun; cbn [ogrun ocorun] in *.
  - inversion Hrun; subst. eauto.
  - destruct (ogstep asserts dbl g0 o) as [[g1 res]|] eqn:E; [|discriminate].
    destruct (ostep_refines asserts dbl g0 s0 o g1 res Hr E) as (s1 & Es & Hr1). rewrite Es. apply IH; assumption.
Qed.

Lemma oempty_R pb0 pe0 ns : pb0 < pe0 -> 0 < ns -> OR {| og_l := o_empty pb0 pe0 ns; og_live := [] |} {| us_rs := []; us_l := ul ns [] 0 |}.
Proof.
  intros Hp Hns. unfold OR. cbn [og_l og_live us_l us_rs o_empty nsz nodes ulive_slots flat_map app].
  split; [unfold OInv; cbn [nodes ldp pb pe nsz n_of length o_empty]; split; [intros i j Hij; cbn [length] in Hij; lia|repeat split; lia]|]. split; [reflexivity|]. split; [constructor|]. split; [|intros a b []].
  intros a. cbn. split; [intros []|discriminate].
Qed.

(* whatever the address-ordered list does -- in every debug configuration, with its sentinels anywhere relative to the pool's
   memory -- over a history of inserts, node and array allocations (refused ones included) and releases within the interface's
   preconditions, the Spec accepts it, with equal free counts *)
Theorem ordered_list_refines_spec asserts dbl pb0 pe0 ns os g : pb0 < pe0 -> 0 < ns ->
  ogrun asserts dbl {| og_l := o_empty pb0 pe0 ns; og_live := [] |} os = Some g ->
  exists s, ocorun asserts dbl {| og_l := o_empty pb0 pe0 ns; og_live := [] |} {| us_rs := []; us_l := ul ns [] 0 |} os = Some (g, s) /\
            l_nfree (us_l s) = o_capacity (og_l g) /\ l_allocs (us_l s) = og_live g.
Proof.
  intros Hp Hns Hrun. destruct (orun_refines asserts dbl os _ _ g (oempty_R pb0 pe0 ns Hp Hns) Hrun) as (s & Hc & (Hg & Hl & _)).
  exists s. split; [exact Hc|]. rewrite Hl. split; reflexivity.
Qed.

Example ordered_refinement_nonvacuous :
  match ogrun true true {| og_l := o_empty 100 108 16; og_live := [] |} [OIns 1024 160; OAllocN; OAllocArr 40; ODeallocN 1024; OAllocArr 1000; ODeallocArr 1040 40; OIns 4096 64; OAllocN] with
  | Some g => og_live g = [(1024, 1)] /\ o_capacity (og_l g) = 13
  | None => False
  end.
Proof. vm_compute. split; reflexivity. Qed.
