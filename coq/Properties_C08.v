(* C08 -- composable deallocation recognises exactly its own memory; fallback trees release to the serving leaf.
   Statements only.  Compose.v: ownership test of arena-based allocators and fallback trees of any depth;
   ShapesC08.v: obligation computed on the call shapes regenerated from fallback_allocator's source. *)
From Coq Require Import ZArith List Bool.
From FM Require Import Compose ComposeProofs ShapesC08.
Import ListNotations.
Local Open Scope Z_scope.

(* the ownership test is true exactly for addresses inside a held block (half-open) *)
Theorem C08_owns_iff_inside_a_held_block : forall bs p,
  owns_blocks bs p = true <-> exists b, In b bs /\ fst b <= p < fst b + snd b.
Proof. exact owns_iff. Qed.
Print Assumptions C08_owns_iff_inside_a_held_block.

Theorem C08_own_memory_is_recognised : forall bs blk p, In blk bs -> fst blk <= p < fst blk + snd blk -> owns_blocks bs p = true.
Proof. exact own_memory_owned. Qed.
Print Assumptions C08_own_memory_is_recognised.

(* a sibling's non-empty allocation is never recognised, wherever the sibling's block lies (also directly behind or before an own block) *)
Theorem C08_sibling_memory_is_refused : forall mine theirs blk p size,
  (forall a b, In a mine -> In b theirs -> ranges_apart a b) ->
  In blk theirs -> fst blk <= p -> p + size <= fst blk + snd blk -> 0 < size ->
  owns_blocks mine p = false.
Proof. exact sibling_memory_not_owned. Qed.
Print Assumptions C08_sibling_memory_is_refused.

Theorem C08_one_past_the_end_is_refused : forall bs b, In b bs -> 0 <= snd b ->
  (forall c, In c bs -> ranges_apart b c \/ c = b) -> (forall c, In c bs -> fst c <> fst b + snd b \/ snd c = 0) ->
  owns_blocks bs (fst b + snd b) = false.
Proof. exact one_past_end_not_owned. Qed.
Print Assumptions C08_one_past_the_end_is_refused.

(* try_deallocate on a fallback tree: true exactly for memory of one of its leaves *)
Theorem C08_tree_try_deallocate_iff_some_leaf_owns : forall owns t p,
  (exists l, try_dealloc_leaf owns t p = Some l) <-> exists l, In l (leaves t) /\ owns l p = true.
Proof. exact try_dealloc_iff. Qed.
Print Assumptions C08_tree_try_deallocate_iff_some_leaf_owns.

(* deallocate on a fallback tree of any shape and depth hands the memory to the one leaf that owns it ... *)
Theorem C08_release_goes_to_owner : forall owns t p l, In l (leaves t) -> owns l p = true ->
  (forall l', In l' (leaves t) -> owns l' p = true -> l' = l) -> dealloc_leaf owns t p = l.
Proof. exact dealloc_goes_to_owner. Qed.
Print Assumptions C08_release_goes_to_owner.

(* ... which is the leaf that served the allocation *)
Theorem C08_release_goes_to_server : forall can owns t p,
  owns (alloc_leaf can t) p = true -> (forall l', In l' (leaves t) -> owns l' p = true -> l' = alloc_leaf can t) ->
  dealloc_leaf owns t p = alloc_leaf can t.
Proof. exact release_goes_to_server. Qed.
Print Assumptions C08_release_goes_to_server.

(* the source: each of the eight members of fallback_allocator asks the default allocator's composable function first and
   only on failure calls the fallback's function of the same kind (node stays node, array stays array) with the same arguments *)
Theorem C08_fallback_members_keep_call_shape : fallback_ok = true.
Proof. exact C08_shapes_hold. Qed.
Print Assumptions C08_fallback_members_keep_call_shape.

Example C08_nonvacuous :
  let t := FFallback (FFallback (FLeaf 0) (FLeaf 1)) (FLeaf 2) in
  let owns := fun (l : nat) (p : Z) => owns_blocks (nth l [[(100, 50)]; [(150, 50)]; [(200, 100); (400, 10)]] []) p in
  (dealloc_leaf owns t 149, dealloc_leaf owns t 150, dealloc_leaf owns t 405, try_dealloc_leaf owns t 300, alloc_leaf (fun l => Nat.eqb l 1) t)
  = (0%nat, 1%nat, 2%nat, None, 1%nat).
Proof. vm_compute. reflexivity. Qed.
