(* C19 -- size and alignment arithmetic is correct for every input.
   Only statements; each is closed by an exported lemma of ArithProofs.v, which is about GenArith.v,
   the file regenerated from the C++ source on every run. *)
From Coq Require Import NArith.
From FM Require Import Wrap GenArith ArithModel ArithProofs.
Local Open Scope N_scope.

Theorem C19_is_valid_alignment : forall x, x < 2^64 ->
  (is_valid_alignment x = true <-> exists k, x = 2^k).
Proof. exact is_valid_alignment_spec. Qed.
Print Assumptions C19_is_valid_alignment.

Theorem C19_round_up_multiple_ge_lt : forall k size, k < 64 -> size + 2^k <= 2^64 ->
  let r := round_up_to_multiple_of_alignment size (2^k) in
  r mod 2^k = 0 /\ size <= r /\ r < size + 2^k.
Proof. exact round_up_spec. Qed.
Print Assumptions C19_round_up_multiple_ge_lt.

Theorem C19_round_up_least : forall k size m, k < 64 -> size + 2^k <= 2^64 ->
  size <= m -> m mod 2^k = 0 -> round_up_to_multiple_of_alignment size (2^k) <= m.
Proof. exact round_up_least. Qed.
Print Assumptions C19_round_up_least.

(* outside the no-wrap guard the result is characterised, not hidden *)
Theorem C19_round_up_wrap_characterised : forall k size, k < 64 -> size < 2^64 ->
  round_up_to_multiple_of_alignment size (2^k) =
    let t := (size + 2^k + 2^64 - 1) mod 2^64 in t - t mod 2^k.
Proof. exact round_up_wrap_char. Qed.
Print Assumptions C19_round_up_wrap_characterised.

Theorem C19_align_offset_value : forall k a, k < 64 -> a < 2^64 ->
  align_offset a (2^k) = (2^k - a mod 2^k) mod 2^k.
Proof. exact align_offset_spec. Qed.
Print Assumptions C19_align_offset_value.

Theorem C19_align_offset_aligns : forall k a, k < 64 -> a < 2^64 ->
  let d := align_offset a (2^k) in (a + d) mod 2^k = 0 /\ d < 2^k.
Proof. exact align_offset_aligns. Qed.
Print Assumptions C19_align_offset_aligns.

Theorem C19_align_offset_least : forall k a d', k < 64 -> a < 2^64 ->
  (a + d') mod 2^k = 0 -> align_offset a (2^k) <= d'.
Proof. exact align_offset_least. Qed.
Print Assumptions C19_align_offset_least.

Theorem C19_is_aligned : forall k a, k < 64 -> a < 2^64 ->
  (is_aligned a (2^k) = true <-> a mod 2^k = 0).
Proof. exact is_aligned_spec. Qed.
Print Assumptions C19_is_aligned.

Theorem C19_alignment_for : forall s, 0 < s -> s < 2^64 ->
  exists k, alignment_for s = N.min (2^k) 16 /\ s mod 2^k = 0 /\ s mod 2^(k+1) <> 0.
Proof. exact alignment_for_divides. Qed.
Print Assumptions C19_alignment_for.

Theorem C19_ilog2_floor : forall x, 1 <= x -> x < 2^64 ->
  ilog2 x = N.log2 x /\ 2^(ilog2 x) <= x < 2^(ilog2 x + 1).
Proof. intros x H1 Hx. split; [exact (ilog2_spec x H1 Hx) | exact (ilog2_floor x H1 Hx)]. Qed.
Print Assumptions C19_ilog2_floor.

Theorem C19_ilog2_ceil : forall x, 1 <= x -> x < 2^64 -> ilog2_ceil x = N.log2_up x.
Proof. exact ilog2_ceil_spec. Qed.
Print Assumptions C19_ilog2_ceil.

Theorem C19_ilog2_ceil_ceiling : forall x, 2 <= x -> x < 2^64 ->
  2^(ilog2_ceil x - 1) < x <= 2^(ilog2_ceil x).
Proof. exact ilog2_ceil_ceiling. Qed.
Print Assumptions C19_ilog2_ceil_ceiling.

Theorem C19_bucket_identity : forall m s, identity_bucket_node_size m s = N.max s m.
Proof. exact bucket_identity_spec. Qed.
Print Assumptions C19_bucket_identity.

Theorem C19_bucket_log2 : forall m s, 1 <= m -> m <= 2^63 -> 1 <= s -> s <= 2^63 ->
  let b := log2_bucket_node_size m s in
  s <= b /\ (N.log2_up m <= N.log2_up s -> b < 2 * s) /\ (N.log2_up s < N.log2_up m -> b = 2^(N.log2_up m)).
Proof. exact bucket_log2_spec. Qed.
Print Assumptions C19_bucket_log2.

(* non-vacuity: concrete instances of the hypotheses and of the conclusions *)
Example C19_nonvacuous :
  round_up_to_multiple_of_alignment 17 (2^4) = 32 /\ align_offset 4097 (2^12) = 4095 /\
  alignment_for 24 = 8 /\ ilog2 1000 = 9 /\ ilog2_ceil 1025 = 11 /\
  round_up_to_multiple_of_alignment (2^64 - 3) (2^4) = 0 /\   (* the characterised wrap case *)
  log2_bucket_node_size 8 100 = 128 /\ log2_bucket_node_size 8 3 = 8 /\ identity_bucket_node_size 8 3 = 8.
Proof. vm_compute. repeat split; reflexivity. Qed.
