(* CollExecProofs instantiated: the collection over the intrusive list and over the address-ordered list refines the Spec *)
From Coq Require Import ZArith NArith List Bool Lia.
From FM Require Import Wrap GenArith ArithModel FixedStack SmallCarve PoolSpec SlotProofs ListLib PoolSpecProofs Stack Arena
     UnorderedList UnorderedListProofs UnorderedRefine OrderedList OrderedListProofs OrderedRefine InvalidRelease SmallList SmallListProofs SmallRefine CapacityProofs PoolExecProofs OrderedPoolExecProofs CollExec CollExecProofs CollInst CollSizes.
Import ListNotations.
Local Open Scope Z_scope.

Lemma intr_usable_nodes ns (m : Z) size : 0 < ns -> ns <= intr_usable ns size -> 0 < nodes_of LIntrusive ns (m, size) /\ 0 < size.
Proof.
  unfold intr_usable, free_list_usable_size. cbn [nodes_of snd]. unfold l_nodes. intros Hns H.
  destruct (Z.ltb_spec 0 size) as [Hs|Hs].
  - split; [|assumption]. destruct (Z.ltb_spec 0 (size / ns)) as [|Hd]; [assumption|exfalso].
    assert (E : (Z.to_N size / Z.to_N ns = 0)%N).
    { apply N.div_small. assert (size < ns) by (destruct (Z.ltb_spec size ns); [assumption|]; assert (1 <= size / ns) by (apply Z.div_le_lower_bound; lia); lia). lia. }
    rewrite E in H. unfold wmul64 in H. rewrite N.mul_0_l in H. cbn in H. lia.
  - exfalso. replace (Z.to_N size) with 0%N in H by lia. rewrite N.div_0_l in H by lia. unfold wmul64 in H. rewrite N.mul_0_l in H. cbn in H. lia.
Qed.

(* ---------- the intrusive list ---------- *)
Lemma ur_list g s : UR g s -> l_kind (us_l s) = LIntrusive /\ l_ns (us_l s) = ug_ns g /\ l_nfree (us_l s) = ug_free g.
Proof. intros (_ & -> & _). repeat split. Qed.
Lemma ur_pos g s : UR g s -> 0 < ug_ns g.
Proof. intros ((_ & H) & _). exact H. Qed.
Lemma ugstep_ns g o g' res : ugstep g o = Some (g', res) -> ug_ns g' = ug_ns g.
Proof.
  unfold ugstep, ug_ns. destruct o as [m size| |bytes|p|p bytes].
  - destruct (_ && _); [|discriminate]. intros H; inversion H; reflexivity.
  - unfold u_alloc. destruct (u_nodes (ug_l g)); [discriminate|]. intros H; inversion H; reflexivity.
  - destruct (_ <? _); [|discriminate]. unfold u_alloc_array. destruct (_ <=? _).
    + unfold u_alloc. destruct (u_nodes (ug_l g)); intros H; inversion H; reflexivity.
    + destruct (u_find _ _ _ _ _); intros H; inversion H; reflexivity.
  - destruct (remove_alloc _ _ _); [|discriminate]. intros H; inversion H; reflexivity.
  - destruct (_ <? _); [|discriminate]. destruct (remove_alloc _ _ _); [|discriminate]. intros H; inversion H. cbn [ug_l]. unfold u_dealloc_array. destruct (_ <=? _); reflexivity.
Qed.
Lemma ur_ranges g rs rs' l : (forall a, kslotb LIntrusive rs (ug_ns g) a = kslotb LIntrusive rs' (ug_ns g) a) ->
  UR g {| us_rs := rs; us_l := l |} -> UR g {| us_rs := rs'; us_l := l |}.
Proof.
  intros Heq (H1 & H2 & H3 & H4 & H5). unfold UR. cbn [us_rs us_l] in *. split; [exact H1|]. split; [exact H2|]. split; [exact H3|]. split; [|exact H5].
  intros a. unfold ug_ns in Heq. rewrite <- Heq. apply H4.
Qed.

Definition UCPR := CPR ug ug_ns UR.

Definition ucoll_answer_ok (log2 : bool) := coll_answer_ok ug ug_ns ugstep (coll_bkt log2) intr_usable.
Definition ucoll_answers_ok (log2 : bool) := coll_answers_ok ug ug_ns ug_free ugstep (coll_bkt log2) intr_usable.

Theorem ucoll_step_refines log2 s sp o s' r evs : UCPR s sp -> ucoll_answer_ok log2 s sp o ->
  uc_step log2 s o = Some (s', r, evs) -> exists sp', acc_op sp (cc_spec_op (coll_bkt log2) o) evs r = Some sp' /\ UCPR s' sp'.
Proof. apply (coll_step_refines ug ug_ns ug_free ugstep (coll_bkt log2) intr_usable LIntrusive UR ur_list ur_pos ustep_refines intr_usable_nodes ugstep_ns ur_ranges). Qed.

Theorem ucoll_refines_spec log2 os s sp s' tr : UCPR s sp -> ucoll_answers_ok log2 s sp os ->
  uc_run log2 s os = Some (s', tr) -> exists sp', run sp tr = Some sp' /\ UCPR s' sp'.
Proof. apply (coll_refines_spec ug ug_ns ug_free ugstep (coll_bkt log2) intr_usable LIntrusive UR ur_list ur_pos ustep_refines intr_usable_nodes ugstep_ns ur_ranges). Qed.

(* ---------- the address-ordered list ---------- *)
Lemma or_list g s : OR g s -> l_kind (us_l s) = LIntrusive /\ l_ns (us_l s) = og_ns g /\ l_nfree (us_l s) = og_free g.
Proof. intros (_ & -> & _). repeat split. Qed.
Lemma or_pos g s : OR g s -> 0 < og_ns g.
Proof. intros ((_ & _ & _ & H) & _). exact H. Qed.
Lemma o_us_of_u o : o_us_op (o_of_u o) = o.
Proof. destruct o; reflexivity. Qed.
Lemma og_step_refines g s o g' res : OR g s -> og_step g o = Some (g', res) -> exists s', us_step s o res = Some s' /\ OR g' s'.
Proof. intros Hr Hs. unfold og_step in Hs. destruct (ostep_refines _ _ _ _ _ _ _ Hr Hs) as (s' & Hu & Hr'). rewrite o_us_of_u in Hu. exists s'. split; assumption. Qed.
Lemma res_set_nsz (r : res olist) l l' : (forall x, r = Ret x -> nsz x = nsz l) -> r = Ret l' -> nsz l' = nsz l.
Proof. intros H E. apply H. exact E. Qed.
Lemma og_step_ns g o g' res : og_step g o = Some (g', res) -> og_ns g' = og_ns g.
Proof.
  unfold og_step, ogstep, og_ns. destruct o as [m size| |bytes|p|p bytes]; cbn [o_of_u].
  - destruct (_ && _); [|discriminate]. unfold o_insert. destruct (find_pos _ _ _ _); try discriminate. intros H; inversion H; reflexivity.
  - unfold o_alloc. destruct (nodes (og_l g)); [discriminate|]. intros H; inversion H; reflexivity.
  - destruct (_ <? _); [|discriminate]. unfold o_alloc_array. destruct (_ <=? _).
    + unfold o_alloc. destruct (nodes (og_l g)); intros H; inversion H; reflexivity.
    + destruct (find_run _ _ _ _ _); intros H; inversion H; reflexivity.
  - destruct (remove_alloc _ _ _); [|discriminate]. unfold o_dealloc. destruct (find_pos _ _ _ _); try discriminate. intros H; inversion H; reflexivity.
  - destruct (_ <? _); [|discriminate]. destruct (remove_alloc _ _ _); [|discriminate]. unfold o_dealloc_array, o_dealloc. destruct (_ <=? _); destruct (find_pos _ _ _ _); try discriminate; intros H; inversion H; reflexivity.
Qed.
Lemma or_ranges g rs rs' l : (forall a, kslotb LIntrusive rs (og_ns g) a = kslotb LIntrusive rs' (og_ns g) a) ->
  OR g {| us_rs := rs; us_l := l |} -> OR g {| us_rs := rs'; us_l := l |}.
Proof.
  intros Heq (H1 & H2 & H3 & H4 & H5). unfold OR. cbn [us_rs us_l] in *. split; [exact H1|]. split; [exact H2|]. split; [exact H3|]. split; [|exact H5].
  intros a. unfold og_ns in Heq. rewrite <- Heq. apply H4.
Qed.

Definition OCPR := CPR og og_ns OR.
Definition ocoll_answer_ok (log2 : bool) := coll_answer_ok og og_ns og_step (coll_bkt log2) intr_usable.
Definition ocoll_answers_ok (log2 : bool) := coll_answers_ok og og_ns og_free og_step (coll_bkt log2) intr_usable.

Theorem ocoll_step_refines log2 s sp o s' r evs : OCPR s sp -> ocoll_answer_ok log2 s sp o ->
  oc_step log2 s o = Some (s', r, evs) -> exists sp', acc_op sp (cc_spec_op (coll_bkt log2) o) evs r = Some sp' /\ OCPR s' sp'.
Proof. apply (coll_step_refines og og_ns og_free og_step (coll_bkt log2) intr_usable LIntrusive OR or_list or_pos og_step_refines intr_usable_nodes og_step_ns or_ranges). Qed.

Theorem ocoll_refines_spec log2 os s sp s' tr : OCPR s sp -> ocoll_answers_ok log2 s sp os ->
  oc_run log2 s os = Some (s', tr) -> exists sp', run sp tr = Some sp' /\ OCPR s' sp'.
Proof. apply (coll_refines_spec og og_ns og_free og_step (coll_bkt log2) intr_usable LIntrusive OR or_list or_pos og_step_refines intr_usable_nodes og_step_ns or_ranges). Qed.

(* ---------- the constructors ---------- *)
Definition coll_spec_lists (log2 : bool) (max : Z) : list lst := map (fun ns => ul ns [] 0) (coll_sizes log2 max).

Lemma coll_spec_inv log2 max : sizes_okb (coll_sizes log2 max) = true -> Inv (mk_ast (coll_spec_lists log2 max)).
Proof.
  intros H. destruct (sizes_ok_spec _ H) as (Hn & Hf & _). apply init_inv.
  - unfold coll_spec_lists. rewrite map_map. cbn [ul l_ns]. rewrite map_id. exact Hn.
  - unfold coll_spec_lists. rewrite Forall_map. eapply Forall_impl; [|exact Hf]. cbn. intros a Ha. repeat split. lia.
Qed.

Lemma ug_array_rel : forall sizes, Forall (fun x => 8 <= x < 2^64) sizes ->
  Forall2 (fun g l => UR g {| us_rs := []; us_l := l |}) (map ug_empty sizes) (map (fun ns => ul ns [] 0) sizes) /\
  Forall (fun g => ug_ns g < 2^64) (map ug_empty sizes).
Proof.
  induction sizes as [|ns tl IH]; intros Hf; cbn; [split; constructor|]. inversion Hf as [|? ? Hns Hf']; subst. destruct (IH Hf') as [H1 H2].
  split; constructor; try assumption; [apply uempty_R; lia|unfold ug_ns; cbn; lia].
Qed.

Theorem uc_construct_refines log2 k fence max bs answer s ok evs :
  sizes_okb (coll_sizes log2 max) = true -> 0 <= fence ->
  (forall addr, answer = Some addr -> CWB (mk_ast (coll_spec_lists log2 max)) addr bs) ->
  uc_construct log2 k fence max bs answer = Some (s, ok, evs) ->
  exists sp, acc_evs (mk_ast (coll_spec_lists log2 max)) evs = Some sp /\ (ok = true -> UCPR s sp).
Proof.
  intros Hs Hfence Hwb Hc. destruct (sizes_ok_spec _ Hs) as (Hn & Hf & Hlen). unfold uc_construct in Hc.
  apply (construct_refines ug ug_ns ug_free ugstep (coll_bkt log2) intr_usable LIntrusive UR ur_list ur_pos ustep_refines intr_usable_nodes ugstep_ns ur_ranges _ _ _ _ _ _ _ _ _ _ _ _ (coll_spec_lists log2 max) (coll_spec_inv _ _ Hs)) in Hc; try assumption; try lia.
  - intros _. apply (ug_array_rel _ Hf).
  - intros _. apply (ug_array_rel _ Hf).
Qed.

Lemma og_array_rel : forall sizes m, Forall (fun x => 8 <= x < 2^64) sizes ->
  Forall2 (fun g l => OR g {| us_rs := []; us_l := l |}) (og_array m sizes) (map (fun ns => ul ns [] 0) sizes) /\
  Forall (fun g => og_ns g < 2^64) (og_array m sizes).
Proof.
  induction sizes as [|ns tl IH]; intros m Hf; cbn; [split; constructor|]. inversion Hf as [|? ? Hns Hf']; subst. destruct (IH (m + 48) Hf') as [H1 H2].
  split; constructor; try assumption; [apply oempty_R; lia|unfold og_ns; cbn; lia].
Qed.

Theorem oc_construct_refines log2 k fence max bs answer s ok evs :
  sizes_okb (coll_sizes log2 max) = true -> 0 <= fence ->
  (forall addr, answer = Some addr -> CWB (mk_ast (coll_spec_lists log2 max)) addr bs) ->
  oc_construct log2 k fence max bs answer = Some (s, ok, evs) ->
  exists sp, acc_evs (mk_ast (coll_spec_lists log2 max)) evs = Some sp /\ (ok = true -> OCPR s sp).
Proof.
  intros Hs Hfence Hwb Hc. destruct (sizes_ok_spec _ Hs) as (Hn & Hf & Hlen). unfold oc_construct in Hc.
  apply (construct_refines og og_ns og_free og_step (coll_bkt log2) intr_usable LIntrusive OR or_list or_pos og_step_refines intr_usable_nodes og_step_ns or_ranges _ _ _ _ _ _ _ _ _ _ _ _ (coll_spec_lists log2 max) (coll_spec_inv _ _ Hs)) in Hc; try assumption; try lia.
  - intros m. apply (og_array_rel _ m Hf).
  - intros m. apply (og_array_rel _ m Hf).
Qed.

(* ---------- the chunked list of small_node_pool ---------- *)
Definition SGR (g : smg) (s : uspec) : Prop := R g {| ss_rs := us_rs s; ss_l := us_l s |}.
Definition SCPR := CPR smg sg_ns SGR.
Definition scoll_answer_ok (log2 : bool) := coll_answer_ok smg sg_ns sg_step (coll_bkt_me 1%N log2) small_usable.
Definition scoll_answers_ok (log2 : bool) := coll_answers_ok smg sg_ns sg_free sg_step (coll_bkt_me 1%N log2) small_usable.

Lemma sgr_list g s : SGR g s -> l_kind (us_l s) = LSmall /\ l_ns (us_l s) = sg_ns g /\ l_nfree (us_l s) = sg_free g.
Proof. intros (_ & H & _). cbn [ss_l] in H. rewrite H. repeat split. Qed.
Lemma sgr_pos g s : SGR g s -> 0 < sg_ns g.
Proof. intros (((H & _) & _) & _). exact H. Qed.
Lemma sg_step_refines g s o g' res : SGR g s -> sg_step g o = Some (g', res) -> exists s', us_step s o res = Some s' /\ SGR g' s'.
Proof.
  intros Hr Hs. unfold sg_step in Hs. destruct s as [rs l]. unfold SGR in *. cbn [us_rs us_l] in *.
  destruct o as [m size| |bytes|p|p bytes]; try discriminate.
  - destruct (gstep g (GIns m size)) as [g1|] eqn:E; [|discriminate]. inversion Hs; subst g1 res; clear Hs.
    destruct (step_refines _ _ _ _ Hr E) as (s' & Hss & Hr'). cbn [ss_step ss_l ss_rs] in Hss. inversion Hss; subst s'; clear Hss.
    eexists. split; [cbn [us_step us_l us_rs]; reflexivity|]. cbn [us_rs us_l]. exact Hr'.
  - destruct (gstep g GAlloc) as [g1|] eqn:E; [|discriminate]. inversion Hs; subst g1 res; clear Hs.
    destruct (step_refines _ _ _ _ Hr E) as (s' & Hss & Hr'). cbn [ss_step ss_l ss_rs result_of] in Hss. cbn [us_step us_l us_rs].
    destruct (hd_error (g_live g')) as [x|]; [|discriminate]. destruct (take_slots rs l x 1) as [l'|]; [|discriminate]. inversion Hss; subst s'; clear Hss.
    eexists. split; [reflexivity|]. cbn [us_rs us_l]. exact Hr'.
  - destruct (gstep g (GDealloc p)) as [g1|] eqn:E; [|discriminate]. inversion Hs; subst g1 res; clear Hs.
    destruct (step_refines _ _ _ _ Hr E) as (s' & Hss & Hr'). cbn [ss_step ss_l ss_rs] in Hss. cbn [us_step us_l us_rs].
    destruct (give_slots l p 1) as [l'|]; [|discriminate]. inversion Hss; subst s'; clear Hss.
    eexists. split; [reflexivity|]. cbn [us_rs us_l]. exact Hr'.
Qed.
Lemma small_usable_nodes ns (m : Z) size : 0 < ns -> ns <= small_usable ns size -> 0 < nodes_of LSmall ns (m, size) /\ 0 < size.
Proof.
  unfold small_usable. cbn [nodes_of snd]. intros Hns H. destruct (Z.ltb_spec 0 (s_nodes cmoZ mxZ caZ ns size)); cbn [andb] in H; [|lia].
  destruct (Z.ltb_spec 0 size); [split; assumption|lia].
Qed.
Lemma sg_step_ns g o g' res : sg_step g o = Some (g', res) -> sg_ns g' = sg_ns g.
Proof.
  unfold sg_step, gstep, sg_ns. destruct o as [m size| |bytes|p|p bytes]; try discriminate.
  - destruct (_ && _); [|discriminate]. intros H; inversion H; reflexivity.
  - destruct (_ <? _); [|discriminate]. unfold sm_alloc. destruct (find_chunk (g_l g)) as [[|i]|]; try discriminate.
    destruct (nth_error _ _) as [c|]; [|discriminate]. destruct (c_free c); [discriminate|]. intros H; inversion H; reflexivity.
  - destruct (existsb _ _); [|discriminate]. unfold sm_dealloc. destruct (chunk_index _ _ _); [|discriminate]. destruct (nth_error _ _); [|discriminate]. intros H; inversion H; reflexivity.
Qed.
Lemma sgr_ranges g rs rs' l : (forall a, kslotb LSmall rs (sg_ns g) a = kslotb LSmall rs' (sg_ns g) a) ->
  SGR g {| us_rs := rs; us_l := l |} -> SGR g {| us_rs := rs'; us_l := l |}.
Proof.
  intros Heq (H1 & H2 & H3 & H4). unfold SGR, R in *. cbn [us_rs us_l ss_rs ss_l] in *. split; [exact H1|]. split; [exact H2|].
  assert (Hslot : forall a, slot_of rs' l a = slot_of rs l a).
  { intros a. rewrite H2. symmetry. apply Heq. }
  split.
  - intros a Ha. rewrite Hslot. apply H3. exact Ha.
  - intros a. rewrite (H4 a). unfold in_free. rewrite Hslot. reflexivity.
Qed.

Theorem scoll_step_refines log2 s sp o s' r evs : SCPR s sp -> scoll_answer_ok log2 s sp o ->
  sc_step log2 s o = Some (s', r, evs) -> exists sp', acc_op sp (cc_spec_op (coll_bkt_me 1%N log2) o) evs r = Some sp' /\ SCPR s' sp'.
Proof. apply (coll_step_refines smg sg_ns sg_free sg_step (coll_bkt_me 1%N log2) small_usable LSmall SGR sgr_list sgr_pos sg_step_refines small_usable_nodes sg_step_ns sgr_ranges). Qed.

Theorem scoll_refines_spec log2 os s sp s' tr : SCPR s sp -> scoll_answers_ok log2 s sp os ->
  sc_run log2 s os = Some (s', tr) -> exists sp', run sp tr = Some sp' /\ SCPR s' sp'.
Proof. apply (coll_refines_spec smg sg_ns sg_free sg_step (coll_bkt_me 1%N log2) small_usable LSmall SGR sgr_list sgr_pos sg_step_refines small_usable_nodes sg_step_ns sgr_ranges). Qed.

Definition scoll_spec_lists (log2 : bool) (max : Z) : list lst := map (fun ns => sl ns [] 0) (coll_sizes_me 1%N log2 max).
Definition ssizes_okb (l : list Z) : bool := incb 0 l && forallb (fun x => x <? 18446744073709551616) l && negb (Nat.eqb (length l) 0).
Lemma ssizes_ok_spec l : ssizes_okb l = true -> NoDup l /\ Forall (fun x => 1 <= x < 2^64) l /\ (0 < length l)%nat.
Proof.
  unfold ssizes_okb. intros H. apply andb_true_iff in H as [H H3]. apply andb_true_iff in H as [H1 H2]. destruct (incb_spec _ _ H1) as [Hf Hn].
  split; [exact Hn|]. split.
  - rewrite forallb_forall in H2. rewrite Forall_forall in *. intros x Hx. specialize (Hf x Hx). specialize (H2 x Hx). apply Z.ltb_lt in H2. change (2^64) with 18446744073709551616. lia.
  - destruct l; [discriminate|cbn; lia].
Qed.
Theorem scoll_sizes_ok_upto_256 : forall log2 max, 1 <= max <= 256 -> ssizes_okb (coll_sizes_me 1%N log2 max) = true.
Proof.
  assert (H : forallb (fun b => forallb (fun i => ssizes_okb (coll_sizes_me 1%N b (Z.of_nat i))) (seq 1 256)) [true; false] = true) by (vm_compute; reflexivity).
  intros log2 max Hm. rewrite forallb_forall in H. assert (Hb : In log2 [true; false]) by (destruct log2; cbn; auto).
  specialize (H log2 Hb). rewrite forallb_forall in H. replace max with (Z.of_nat (Z.to_nat max)) by lia. apply H. apply in_seq. lia.
Qed.

Lemma sg_array_rel : forall sizes, Forall (fun x => 1 <= x < 2^64) sizes ->
  Forall2 (fun g l => SGR g {| us_rs := []; us_l := l |}) (map sg_empty sizes) (map (fun ns => sl ns [] 0) sizes) /\
  Forall (fun g => sg_ns g < 2^64) (map sg_empty sizes).
Proof.
  induction sizes as [|ns tl IH]; intros Hf; cbn; [split; constructor|]. inversion Hf as [|? ? Hns Hf']; subst. destruct (IH Hf') as [H1 H2].
  split; constructor; try assumption; [unfold SGR; cbn [us_rs us_l]; apply empty_R; lia|unfold sg_ns; cbn; lia].
Qed.

Theorem sc_construct_refines log2 k fence max bs answer s ok evs :
  ssizes_okb (coll_sizes_me 1%N log2 max) = true -> 0 <= fence ->
  (forall addr, answer = Some addr -> CWB (mk_ast (scoll_spec_lists log2 max)) addr bs) ->
  sc_construct log2 k fence max bs answer = Some (s, ok, evs) ->
  exists sp, acc_evs (mk_ast (scoll_spec_lists log2 max)) evs = Some sp /\ (ok = true -> SCPR s sp).
Proof.
  intros Hs Hfence Hwb Hc. destruct (ssizes_ok_spec _ Hs) as (Hn & Hf & Hlen). unfold sc_construct in Hc.
  assert (Hinv : Inv (mk_ast (scoll_spec_lists log2 max))).
  { apply init_inv.
    - unfold scoll_spec_lists. rewrite map_map. cbn [sl l_ns]. rewrite map_id. exact Hn.
    - unfold scoll_spec_lists. rewrite Forall_map. eapply Forall_impl; [|exact Hf]. cbn. intros a Ha. repeat split. lia. }
  apply (construct_refines smg sg_ns sg_free sg_step (coll_bkt_me 1%N log2) small_usable LSmall SGR sgr_list sgr_pos sg_step_refines small_usable_nodes sg_step_ns sgr_ranges _ _ _ _ _ _ _ _ _ _ _ _ (scoll_spec_lists log2 max) Hinv) in Hc; try assumption; try lia.
  - intros _. apply (sg_array_rel _ Hf).
  - intros _. apply (sg_array_rel _ Hf).
Qed.

(* ---------- the Spec-level theorems read on the three Exec collections ---------- *)
Definition served_covered (sp' : ast) (ns bytes x : Z) : Prop :=
  exists l', find_list ns (a_lists sp') = Some l' /\
    1 <= slots_needed ns bytes /\ bytes <= slots_needed ns bytes * ns /\ In (x, slots_needed ns bytes) (l_allocs l') /\
    (forall i, (i < Z.to_nat (slots_needed ns bytes))%nat -> In (x + Z.of_nat i * ns) (live_slots l')).
Definition allocations_kept (sp sp' : ast) : Prop := forall key,
  match find_list key (a_lists sp), find_list key (a_lists sp') with
  | Some l, Some l' => l_allocs l' = l_allocs l /\ l_nfree l <= l_nfree l'
  | None, None => True
  | _, _ => False
  end.

Theorem ucoll_served_request_covered log2 s sp o s' x evs : UCPR s sp -> ucoll_answer_ok log2 s sp o ->
  uc_step log2 s o = Some (s', ObsOk x, evs) -> forall try_ arr ns bytes, cc_spec_op (coll_bkt log2) o = OAlloc try_ arr ns bytes -> 0 <= bytes ->
  exists sp', UCPR s' sp' /\ served_covered sp' ns bytes x.
Proof.
  intros H1 H2 H3 try_ arr ns bytes H4 H5.
  destruct (coll_served_request_covered ug ug_ns ug_free ugstep (coll_bkt log2) intr_usable LIntrusive UR ur_list ur_pos ustep_refines intr_usable_nodes ugstep_ns ur_ranges _ _ _ _ _ _ H1 H2 H3 _ _ _ _ H4 H5) as (sp' & l' & Ha & Hb).
  exists sp'. split; [exact Ha|exists l'; exact Hb].
Qed.
Theorem ocoll_served_request_covered log2 s sp o s' x evs : OCPR s sp -> ocoll_answer_ok log2 s sp o ->
  oc_step log2 s o = Some (s', ObsOk x, evs) -> forall try_ arr ns bytes, cc_spec_op (coll_bkt log2) o = OAlloc try_ arr ns bytes -> 0 <= bytes ->
  exists sp', OCPR s' sp' /\ served_covered sp' ns bytes x.
Proof.
  intros H1 H2 H3 try_ arr ns bytes H4 H5.
  destruct (coll_served_request_covered og og_ns og_free og_step (coll_bkt log2) intr_usable LIntrusive OR or_list or_pos og_step_refines intr_usable_nodes og_step_ns or_ranges _ _ _ _ _ _ H1 H2 H3 _ _ _ _ H4 H5) as (sp' & l' & Ha & Hb).
  exists sp'. split; [exact Ha|exists l'; exact Hb].
Qed.
Theorem scoll_served_request_covered log2 s sp o s' x evs : SCPR s sp -> scoll_answer_ok log2 s sp o ->
  sc_step log2 s o = Some (s', ObsOk x, evs) -> forall try_ arr ns bytes, cc_spec_op (coll_bkt_me 1%N log2) o = OAlloc try_ arr ns bytes -> 0 <= bytes ->
  exists sp', SCPR s' sp' /\ served_covered sp' ns bytes x.
Proof.
  intros H1 H2 H3 try_ arr ns bytes H4 H5.
  destruct (coll_served_request_covered smg sg_ns sg_free sg_step (coll_bkt_me 1%N log2) small_usable LSmall SGR sgr_list sgr_pos sg_step_refines small_usable_nodes sg_step_ns sgr_ranges _ _ _ _ _ _ H1 H2 H3 _ _ _ _ H4 H5) as (sp' & l' & Ha & Hb).
  exists sp'. split; [exact Ha|exists l'; exact Hb].
Qed.

Theorem ucoll_outcome_discipline log2 s sp o s' r evs : UCPR s sp -> ucoll_answer_ok log2 s sp o ->
  uc_step log2 s o = Some (s', r, evs) -> forall try_ arr ns bytes, cc_spec_op (coll_bkt log2) o = OAlloc try_ arr ns bytes ->
  (try_ = true -> r <> ObsThrow /\ existsb is_up evs = false) /\ (try_ = false -> r <> ObsNull) /\
  (r = ObsNull \/ r = ObsThrow -> exists sp', UCPR s' sp' /\ allocations_kept sp sp').
Proof. apply (coll_outcome_discipline ug ug_ns ug_free ugstep (coll_bkt log2) intr_usable LIntrusive UR ur_list ur_pos ustep_refines intr_usable_nodes ugstep_ns ur_ranges). Qed.
Theorem ocoll_outcome_discipline log2 s sp o s' r evs : OCPR s sp -> ocoll_answer_ok log2 s sp o ->
  oc_step log2 s o = Some (s', r, evs) -> forall try_ arr ns bytes, cc_spec_op (coll_bkt log2) o = OAlloc try_ arr ns bytes ->
  (try_ = true -> r <> ObsThrow /\ existsb is_up evs = false) /\ (try_ = false -> r <> ObsNull) /\
  (r = ObsNull \/ r = ObsThrow -> exists sp', OCPR s' sp' /\ allocations_kept sp sp').
Proof. apply (coll_outcome_discipline og og_ns og_free og_step (coll_bkt log2) intr_usable LIntrusive OR or_list or_pos og_step_refines intr_usable_nodes og_step_ns or_ranges). Qed.
Theorem scoll_outcome_discipline log2 s sp o s' r evs : SCPR s sp -> scoll_answer_ok log2 s sp o ->
  sc_step log2 s o = Some (s', r, evs) -> forall try_ arr ns bytes, cc_spec_op (coll_bkt_me 1%N log2) o = OAlloc try_ arr ns bytes ->
  (try_ = true -> r <> ObsThrow /\ existsb is_up evs = false) /\ (try_ = false -> r <> ObsNull) /\
  (r = ObsNull \/ r = ObsThrow -> exists sp', SCPR s' sp' /\ allocations_kept sp sp').
Proof. apply (coll_outcome_discipline smg sg_ns sg_free sg_step (coll_bkt_me 1%N log2) small_usable LSmall SGR sgr_list sgr_pos sg_step_refines small_usable_nodes sg_step_ns sgr_ranges). Qed.

(* ---------- C04 / C05 read on the three Exec collections ---------- *)
Definition list_has_no_allocations (sp' : ast) (key : Z) : Prop := forall l', find_list key (a_lists sp') = Some l' -> l_allocs l' = [].

Theorem ucoll_capacity_never_lost log2 os s sp s' tr : UCPR s sp -> ucoll_answers_ok log2 s sp os -> uc_run log2 s os = Some (s', tr) ->
  exists sp', run sp tr = Some sp' /\ UCPR s' sp' /\
    forall key n n', cc_nfree ug ug_ns ug_free s key = Some n -> cc_nfree ug ug_ns ug_free s' key = Some n' -> list_has_no_allocations sp' key -> n <= n'.
Proof. apply (coll_capacity_never_lost ug ug_ns ug_free ugstep (coll_bkt log2) intr_usable LIntrusive UR ur_list ur_pos ustep_refines intr_usable_nodes ugstep_ns ur_ranges). Qed.
Theorem ocoll_capacity_never_lost log2 os s sp s' tr : OCPR s sp -> ocoll_answers_ok log2 s sp os -> oc_run log2 s os = Some (s', tr) ->
  exists sp', run sp tr = Some sp' /\ OCPR s' sp' /\
    forall key n n', cc_nfree og og_ns og_free s key = Some n -> cc_nfree og og_ns og_free s' key = Some n' -> list_has_no_allocations sp' key -> n <= n'.
Proof. apply (coll_capacity_never_lost og og_ns og_free og_step (coll_bkt log2) intr_usable LIntrusive OR or_list or_pos og_step_refines intr_usable_nodes og_step_ns or_ranges). Qed.
Theorem scoll_capacity_never_lost log2 os s sp s' tr : SCPR s sp -> scoll_answers_ok log2 s sp os -> sc_run log2 s os = Some (s', tr) ->
  exists sp', run sp tr = Some sp' /\ SCPR s' sp' /\
    forall key n n', cc_nfree smg sg_ns sg_free s key = Some n -> cc_nfree smg sg_ns sg_free s' key = Some n' -> list_has_no_allocations sp' key -> n <= n'.
Proof. apply (coll_capacity_never_lost smg sg_ns sg_free sg_step (coll_bkt_me 1%N log2) small_usable LSmall SGR sgr_list sgr_pos sg_step_refines small_usable_nodes sg_step_ns sgr_ranges). Qed.

Theorem ucoll_destruction_returns_every_block s sp : UCPR s sp ->
  ar_destroy_calls (cc_ar _ s) = map (fun b => UFree (fst b) (snd b)) (a_held sp) /\ destroy_ok sp (a_held sp) = true.
Proof. intros H. exact (coll_destruction_returns_every_block _ _ _ _ _ H). Qed.
Theorem ocoll_destruction_returns_every_block s sp : OCPR s sp ->
  ar_destroy_calls (cc_ar _ s) = map (fun b => UFree (fst b) (snd b)) (a_held sp) /\ destroy_ok sp (a_held sp) = true.
Proof. intros H. exact (coll_destruction_returns_every_block _ _ _ _ _ H). Qed.
Theorem scoll_destruction_returns_every_block s sp : SCPR s sp ->
  ar_destroy_calls (cc_ar _ s) = map (fun b => UFree (fst b) (snd b)) (a_held sp) /\ destroy_ok sp (a_held sp) = true.
Proof. intros H. exact (coll_destruction_returns_every_block _ _ _ _ _ H). Qed.

(* ---------- progress, for the collection over the intrusive list: node requests never reach an assertion ---------- *)
Lemma ur_prog_alloc g s : UR g s -> 0 < ug_free g -> exists g' x, ugstep g UAlloc = Some (g', Some x).
Proof.
  intros _ Hpos. unfold ug_free, u_capacity in Hpos. cbn [ugstep]. unfold u_alloc. destruct (u_nodes (ug_l g)) as [|x tl]; [cbn in Hpos; lia|]. eexists _, _. reflexivity.
Qed.
Lemma ur_prog_ins g rs l m size : UR g {| us_rs := rs; us_l := l |} -> 0 < size -> ug_ns g <= intr_usable (ug_ns g) size ->
  (forall x, In x rs -> 0 < snd (snd x) /\ (fst (snd x) + snd (snd x) <= m \/ m + size <= fst (snd x))) ->
  exists g', ugstep g (UIns m size) = Some (g', None).
Proof.
  intros Hur Hsize _ Hdis. cbn [ugstep]. pose proof Hur as ((_ & Hns) & _).
  assert (Hall : forallb (outside m (size / u_ns (ug_l g)) (u_ns (ug_l g))) (ulive_slots (u_ns (ug_l g)) (ug_live g) ++ u_nodes (ug_l g)) = true).
  { apply forallb_forall. intros a Ha. destruct (known_inside _ _ _ _ Hur Ha) as (r & Hr & Hlo & Hhi). destruct (Hdis _ Hr) as [_ Hd]. cbn [snd fst] in Hd.
    unfold outside. apply orb_true_iff. destruct Hd as [Hd|Hd]; [left; apply Z.leb_le; lia|right; apply Z.leb_le].
    assert (size / u_ns (ug_l g) * u_ns (ug_l g) <= size) by (pose proof (Z.mul_div_le size (u_ns (ug_l g)) Hns); lia). lia. }
  rewrite Hall. destruct (Z.leb_spec 0 size); [|lia]. cbn [andb]. eexists. reflexivity.
Qed.
Lemma intr_usable_eq ns size : 0 < ns -> 0 <= size < 2^64 -> intr_usable ns size = size / ns * ns.
Proof.
  intros Hns Hs. unfold intr_usable, free_list_usable_size.
  assert (Hle : size / ns * ns <= size) by (pose proof (Z.mul_div_le size ns Hns); lia). assert (0 <= size / ns) by (apply Z.div_pos; lia).
  rewrite wmul64_small.
  - rewrite N2Z.inj_mul, N2Z.inj_div, !Z2N.id by lia. reflexivity.
  - apply N2Z.inj_lt. rewrite N2Z.inj_mul, N2Z.inj_div, !Z2N.id by lia. change (Z.of_N (2^64)) with (2^64). lia.
Qed.
Lemma intr_usable_ge ns size : 0 < ns -> 0 <= size < 2^64 -> (ns <= intr_usable ns size <-> ns <= size).
Proof.
  intros Hns Hs. rewrite intr_usable_eq by assumption. split; intros H.
  - pose proof (Z.mul_div_le size ns Hns). lia.
  - assert (1 <= size / ns) by (apply Z.div_le_lower_bound; lia). nia.
Qed.
Lemma intr_usable_mono_ns ns ns' size : 0 <= size < 2^64 -> 0 < ns <= ns' -> ns' <= intr_usable ns' size -> ns <= intr_usable ns size.
Proof. intros Hs Hn H. pose proof (proj1 (intr_usable_ge ns' size ltac:(lia) Hs) H) as H'. apply (proj2 (intr_usable_ge ns size ltac:(lia) Hs)). lia. Qed.
Lemma intr_usable_mono_size ns s1 s2 : 0 <= s1 <= s2 -> s2 < 2^64 -> ns <= intr_usable ns s1 -> ns <= intr_usable ns s2.
Proof.
  intros Hs H2 H. destruct (Z.ltb_spec 0 ns) as [Hns|Hns].
  - pose proof (proj1 (intr_usable_ge ns s1 Hns ltac:(lia)) H) as H'. apply (proj2 (intr_usable_ge ns s2 Hns ltac:(lia))). lia.
  - assert (0 <= intr_usable ns s2) by (unfold intr_usable; lia). lia.
Qed.

Definition UExt (log2 : bool) := Ext ug ug_ns (coll_bkt log2) intr_usable.

Theorem ucoll_alloc_node_progress log2 s sp size answer : UCPR s sp -> UExt log2 s -> 0 < size <= cc_max _ s ->
  (forall addr, answer = Some addr -> CWB sp addr (ar_next (cc_ar _ s))) -> ar_next (cc_ar _ s) < 2^64 ->
  exists s' r evs, uc_step log2 s (CAllocNode size answer) = Some (s', r, evs) /\ UExt log2 s'.
Proof.
  apply (alloc_node_progress ug ug_ns ug_free ugstep (coll_bkt log2) intr_usable LIntrusive UR ur_list ur_pos ustep_refines intr_usable_nodes ugstep_ns ur_ranges
           ur_prog_alloc ur_prog_ins intr_usable_mono_ns intr_usable_mono_size).
Qed.
Theorem ucoll_try_alloc_node_progress log2 s sp size : UCPR s sp -> UExt log2 s -> 0 < size <= cc_max _ s ->
  exists s' r evs, uc_step log2 s (CTryAllocNode size) = Some (s', r, evs) /\ UExt log2 s'.
Proof.
  apply (try_alloc_node_progress ug ug_ns ug_free ugstep (coll_bkt log2) intr_usable LIntrusive UR ur_list ur_pos ustep_refines intr_usable_nodes ugstep_ns ur_ranges
           ur_prog_alloc ur_prog_ins intr_usable_mono_ns intr_usable_mono_size).
Qed.
Definition unode_history_ok (log2 : bool) := node_history_ok ug ug_ns ug_free ugstep (coll_bkt log2) intr_usable.
Theorem ucoll_node_history_progress log2 os s sp : UCPR s sp -> UExt log2 s -> unode_history_ok log2 s sp os ->
  exists s' tr sp', uc_run log2 s os = Some (s', tr) /\ run sp tr = Some sp' /\ UCPR s' sp' /\ UExt log2 s'.
Proof.
  apply (node_history_progress ug ug_ns ug_free ugstep (coll_bkt log2) intr_usable LIntrusive UR ur_list ur_pos ustep_refines intr_usable_nodes ugstep_ns ur_ranges
           ur_prog_alloc ur_prog_ins intr_usable_mono_ns intr_usable_mono_size).
Qed.

Lemma c_find_map_empty ns : forall sizes, existsb (Z.eqb ns) sizes = true -> c_find ug ug_ns ns (map ug_empty sizes) <> None.
Proof.
  induction sizes as [|x tl IH]; cbn; [discriminate|]. unfold ug_ns at 1. cbn [ug_empty ug_l u_empty u_ns]. intros H.
  destruct (Z.eqb_spec x ns) as [E|E]; [discriminate|]. destruct (Z.eqb_spec ns x) as [E'|E']; [congruence|]. cbn [orb] in H. apply IH. exact H.
Qed.

Theorem uc_construct_ext log2 k fence max bs answer s evs : uc_construct log2 k fence max bs answer = Some (s, true, evs) ->
  bucket_table_okb log2 max = true -> 0 <= bs < 2^64 -> 0 <= fence -> UExt log2 s.
Proof.
  intros Hc Hok Hbs Hfence. unfold uc_construct in Hc. unfold bucket_table_okb in Hok. apply andb_true_iff in Hok as [Hok H3]. apply andb_true_iff in Hok as [H1 H2].
  apply Z.ltb_lt in H1. rewrite forallb_forall in H2, H3.
  apply (construct_ext ug ug_ns (coll_bkt log2) intr_usable LIntrusive intr_usable_nodes intr_usable_mono_ns intr_usable_mono_size _ _ _ _ _ _ _ _ _ _ _ Hc H1 Hbs Hfence).
  intros _. split; [|split].
  - rewrite Forall_map. rewrite Forall_forall. intros x Hx. unfold ug_ns. cbn. apply Z.leb_le. apply H2. exact Hx.
  - rewrite map_length. destruct (coll_sizes log2 max) as [|x tl] eqn:E; [|cbn; lia]. unfold coll_max in H1. rewrite E in H1. cbn in H1. lia.
  - intros size Hs. assert (Hin : In (Z.to_nat size) (seq 1 (Z.to_nat (coll_max log2 max)))) by (apply in_seq; lia).
    specialize (H3 _ Hin). cbv zeta in H3. rewrite Z2Nat.id in H3 by lia. apply andb_true_iff in H3 as [Ha Hb]. split; [apply Z.leb_le; exact Ha|apply c_find_map_empty; exact Hb].
Qed.

(* ---------- the same for the collection over the address-ordered list ---------- *)
Lemma or_prog_alloc g s : OR g s -> 0 < og_free g -> exists g' x, og_step g UAlloc = Some (g', Some x).
Proof.
  intros _ Hpos. unfold og_free, o_capacity, n_of in Hpos. unfold og_step. cbn [o_of_u ogstep]. unfold o_alloc. destruct (nodes (og_l g)) as [|x tl]; [cbn in Hpos; lia|]. eexists _, _. reflexivity.
Qed.
Lemma or_prog_ins g rs l m size : OR g {| us_rs := rs; us_l := l |} -> 0 < size -> og_ns g <= intr_usable (og_ns g) size ->
  (forall x, In x rs -> 0 < snd (snd x) /\ (fst (snd x) + snd (snd x) <= m \/ m + size <= fst (snd x))) ->
  exists g', og_step g (UIns m size) = Some (g', None).
Proof.
  intros Hor Hsize Hus Hdis. unfold og_step. cbn [o_of_u ogstep]. pose proof Hor as (Hinv & _). pose proof Hinv as (_ & _ & _ & Hns).
  destruct (intr_usable_nodes (og_ns g) m size Hns Hus) as [Hn _]. cbn [nodes_of snd] in Hn. unfold SmallCarve.l_nodes, og_ns in Hn.
  set (ns := nsz (og_l g)) in *. assert (Hle : size / ns * ns <= size) by (pose proof (Z.mul_div_le size ns Hns); lia).
  assert (Hall : forallb (outside m (size / ns) ns) (ulive_slots ns (og_live g) ++ nodes (og_l g)) = true).
  { apply forallb_forall. intros a Ha. destruct (oknown_inside _ _ _ a Hor Ha) as (r & Hr & Hlo & Hhi). fold ns in Hr, Hhi. destruct (Hdis _ Hr) as [_ Hd]. cbn [snd fst] in Hd.
    unfold outside. apply orb_true_iff. destruct Hd as [Hd|Hd]; [left; apply Z.leb_le; lia|right; apply Z.leb_le; lia]. }
  rewrite Hall. destruct (Z.leb_spec 1 (size / ns)); [|lia]. cbn [andb].
  destruct (insert_valid false false (og_l g) m size Hinv) as (l' & Hl' & _).
  - fold ns. lia.
  - intros x Hx. fold ns. rewrite forallb_forall in Hall. assert (Hin : In x (ulive_slots ns (og_live g) ++ nodes (og_l g))) by (apply in_or_app; right; exact Hx).
    specialize (Hall x Hin). unfold outside in Hall. apply orb_true_iff in Hall. rewrite Z2Nat.id by lia. destruct Hall as [H1|H1]; apply Z.leb_le in H1; [left; lia|right; lia].
  - rewrite Hl'. eexists. reflexivity.
Qed.

Definition OExt (log2 : bool) := Ext og og_ns (coll_bkt log2) intr_usable.
Definition onode_history_ok (log2 : bool) := node_history_ok og og_ns og_free og_step (coll_bkt log2) intr_usable.
Theorem ocoll_node_history_progress log2 os s sp : OCPR s sp -> OExt log2 s -> onode_history_ok log2 s sp os ->
  exists s' tr sp', oc_run log2 s os = Some (s', tr) /\ run sp tr = Some sp' /\ OCPR s' sp' /\ OExt log2 s'.
Proof.
  apply (node_history_progress og og_ns og_free og_step (coll_bkt log2) intr_usable LIntrusive OR or_list or_pos og_step_refines intr_usable_nodes og_step_ns or_ranges
           or_prog_alloc or_prog_ins intr_usable_mono_ns intr_usable_mono_size).
Qed.

Lemma c_find_og_array ns : forall sizes m, existsb (Z.eqb ns) sizes = true -> c_find og og_ns ns (og_array m sizes) <> None.
Proof.
  induction sizes as [|x tl IH]; intros m; cbn; [discriminate|]. unfold og_ns at 1. cbn [og_l o_empty nsz]. intros H.
  destruct (Z.eqb_spec x ns) as [E|E]; [discriminate|]. destruct (Z.eqb_spec ns x) as [E'|E']; [congruence|]. cbn [orb] in H. apply IH. exact H.
Qed.
Lemma og_array_props : forall sizes m mx, (forall x, In x sizes -> x <= mx) -> Forall (fun g => og_ns g <= mx) (og_array m sizes) /\ length (og_array m sizes) = length sizes.
Proof.
  induction sizes as [|x tl IH]; intros m mx H; cbn; [split; [constructor|reflexivity]|]. destruct (IH (m + 48) mx (fun y Hy => H y (or_intror Hy))) as [H1 H2].
  split; [constructor; [unfold og_ns; cbn; apply H; left; reflexivity|exact H1]|rewrite H2; reflexivity].
Qed.
Theorem oc_construct_ext log2 k fence max bs answer s evs : oc_construct log2 k fence max bs answer = Some (s, true, evs) ->
  bucket_table_okb log2 max = true -> 0 <= bs < 2^64 -> 0 <= fence -> OExt log2 s.
Proof.
  intros Hc Hok Hbs Hfence. unfold oc_construct in Hc. unfold bucket_table_okb in Hok. apply andb_true_iff in Hok as [Hok H3]. apply andb_true_iff in Hok as [H1 H2].
  apply Z.ltb_lt in H1. rewrite forallb_forall in H2, H3.
  apply (construct_ext og og_ns (coll_bkt log2) intr_usable LIntrusive intr_usable_nodes intr_usable_mono_ns intr_usable_mono_size _ _ _ _ _ _ _ _ _ _ _ Hc H1 Hbs Hfence).
  intros m. destruct (og_array_props (coll_sizes log2 max) m (coll_max log2 max) (fun x Hx => proj1 (Z.leb_le _ _) (H2 x Hx))) as [Ha Hb]. split; [exact Ha|split].
  - rewrite Hb. destruct (coll_sizes log2 max) as [|x tl] eqn:E; [|cbn; lia]. unfold coll_max in H1. rewrite E in H1. cbn in H1. lia.
  - intros size Hs. assert (Hin : In (Z.to_nat size) (seq 1 (Z.to_nat (coll_max log2 max)))) by (apply in_seq; lia).
    specialize (H3 _ Hin). cbv zeta in H3. rewrite Z2Nat.id in H3 by lia. apply andb_true_iff in H3 as [Hx Hy]. split; [apply Z.leb_le; exact Hx|apply c_find_og_array; exact Hy].
Qed.

(* ---------- array requests: progress for the collection over the intrusive list ---------- *)
Lemma ur_prog_arr g s bytes : UR g s -> ug_ns g < bytes -> exists g' res, ugstep g (UAllocArr bytes) = Some (g', res).
Proof.
  intros _ Hb. cbn [ugstep]. unfold ug_ns in Hb. destruct (Z.ltb_spec (u_ns (ug_l g)) bytes); [|lia].
  destruct (u_alloc_array (ug_l g) bytes) as [[x l']|]; eexists _, _; reflexivity.
Qed.
Lemma link_run_cons2 x y tl step : link_run (x :: y :: tl) step = if x + step =? y then S (link_run (y :: tl) step) else 1%nat.
Proof. reflexivity. Qed.
Lemma link_run_ublock : forall cnt m step rest, 0 < step -> (1 <= cnt)%nat -> (cnt <= link_run (ublock cnt m step ++ rest) step)%nat.
Proof.
  induction cnt as [|c IH]; intros m step rest Hs Hc; [lia|]. destruct c as [|c].
  - cbn. destruct rest as [|y tl]; [lia|]. destruct (m + step =? y); lia.
  - change (ublock (S (S c)) m step ++ rest) with (m :: (m + step) :: (ublock c (m + step + step) step ++ rest)).
    rewrite link_run_cons2, Z.eqb_refl. specialize (IH (m + step) step rest Hs ltac:(lia)).
    change (ublock (S c) (m + step) step ++ rest) with ((m + step) :: (ublock c (m + step + step) step ++ rest)) in IH. lia.
Qed.
Lemma ur_prog_arr_after_ins g1 rs l g2 m cap bytes : UR g1 {| us_rs := rs; us_l := l |} -> ugstep g1 (UIns m cap) = Some (g2, None) ->
  ug_ns g1 < bytes -> slots_needed (ug_ns g1) bytes <= cap / ug_ns g1 -> exists g' x, ugstep g2 (UAllocArr bytes) = Some (g', Some x).
Proof.
  intros Hur Hins Hb Hfit. pose proof Hur as ((_ & Hns) & _). unfold ug_ns in *. cbn [ugstep] in Hins.
  destruct (_ && _) in Hins; [|discriminate]. inversion Hins; subst g2; clear Hins. cbn [ugstep ug_l ug_live].
  unfold u_alloc_array, u_nodes_for, u_insert. cbn [u_ns u_nodes].
  set (ns := u_ns (ug_l g1)) in *. destruct (Z.ltb_spec ns bytes); [|lia]. destruct (Z.leb_spec bytes ns); [lia|].
  assert (Esl : slots_needed ns bytes = (bytes + ns - 1) / ns) by (unfold slots_needed; destruct (Z.leb_spec bytes ns); [lia|reflexivity]). rewrite Esl in Hfit.
  set (need := Z.to_nat ((bytes + ns - 1) / ns)). set (cnt := Z.to_nat (cap / ns)).
  assert (Hq : 1 <= (bytes + ns - 1) / ns) by (apply Z.div_le_lower_bound; lia).
  assert (Hnc : (1 <= need <= cnt)%nat) by (unfold need, cnt; lia).
  pose proof (link_run_ublock cnt m ns (u_nodes (ug_l g1)) Hns ltac:(lia)) as Hrun.
  assert (Hfind : u_find (S (length (ublock cnt m ns ++ u_nodes (ug_l g1)))) (ublock cnt m ns ++ u_nodes (ug_l g1)) ns need 0 = Some 0%nat).
  { cbn [u_find]. destruct (ublock cnt m ns ++ u_nodes (ug_l g1)) as [|y tl] eqn:E.
    - destruct cnt; [lia|]. cbn in E. discriminate.
    - destruct (Nat.leb_spec need (link_run (y :: tl) ns)); [reflexivity|lia]. }
  rewrite Hfind. eexists _, _. reflexivity.
Qed.
Lemma intr_usable_mult ns k : 0 < ns -> 1 <= k -> k * ns < 2^64 -> ns <= intr_usable ns (k * ns).
Proof. intros Hns Hk Hb. apply (proj2 (intr_usable_ge ns (k * ns) Hns ltac:(nia))). nia. Qed.

Definition uarray_answers_ok64 (log2 : bool) := array_answers_ok64 ug ug_ns ugstep (coll_bkt log2) intr_usable.
Theorem ucoll_alloc_array_progress log2 s sp size bytes a1 a2 : UCPR s sp -> UExt log2 s -> 0 < size <= cc_max _ s -> size <= bytes ->
  uarray_answers_ok64 log2 s sp size a1 a2 ->
  exists s' r evs, uc_step log2 s (CAllocArray size bytes a1 a2) = Some (s', r, evs) /\ UExt log2 s'.
Proof.
  apply (alloc_array_progress ug ug_ns ug_free ugstep (coll_bkt log2) intr_usable LIntrusive UR ur_list ur_pos ustep_refines intr_usable_nodes ugstep_ns ur_ranges
           ur_prog_alloc ur_prog_ins intr_usable_mono_ns intr_usable_mono_size ur_prog_arr ur_prog_arr_after_ins intr_usable_mult).
Qed.

(* ---------- reserve() on the three collections ---------- *)
Theorem ucoll_reserve_refines log2 s sp size cap answer s2 ok evs : UCPR s sp -> 0 <= cap ->
  (forall addr, answer = Some addr -> CWB sp addr (ar_next (cc_ar _ s))) -> uc_reserve log2 s size cap answer = Some (s2, ok, evs) ->
  exists sp2, acc_evs sp evs = Some sp2 /\ UCPR s2 sp2 /\ (ok = true -> exists m, In (EIns (coll_bkt log2 size) m cap) evs).
Proof. apply (reserve_op_refines ug ug_ns ug_free ugstep (coll_bkt log2) intr_usable LIntrusive UR ur_list ur_pos ustep_refines intr_usable_nodes ugstep_ns ur_ranges). Qed.
Theorem ocoll_reserve_refines log2 s sp size cap answer s2 ok evs : OCPR s sp -> 0 <= cap ->
  (forall addr, answer = Some addr -> CWB sp addr (ar_next (cc_ar _ s))) -> oc_reserve log2 s size cap answer = Some (s2, ok, evs) ->
  exists sp2, acc_evs sp evs = Some sp2 /\ OCPR s2 sp2 /\ (ok = true -> exists m, In (EIns (coll_bkt log2 size) m cap) evs).
Proof. apply (reserve_op_refines og og_ns og_free og_step (coll_bkt log2) intr_usable LIntrusive OR or_list or_pos og_step_refines intr_usable_nodes og_step_ns or_ranges). Qed.
Theorem scoll_reserve_refines log2 s sp size cap answer s2 ok evs : SCPR s sp -> 0 <= cap ->
  (forall addr, answer = Some addr -> CWB sp addr (ar_next (cc_ar _ s))) -> sc_reserve log2 s size cap answer = Some (s2, ok, evs) ->
  exists sp2, acc_evs sp evs = Some sp2 /\ SCPR s2 sp2 /\ (ok = true -> exists m, In (EIns (coll_bkt_me 1%N log2 size) m cap) evs).
Proof. apply (reserve_op_refines smg sg_ns sg_free sg_step (coll_bkt_me 1%N log2) small_usable LSmall SGR sgr_list sgr_pos sg_step_refines small_usable_nodes sg_step_ns sgr_ranges). Qed.

(* ---------- array requests: progress for the collection over the address-ordered list ---------- *)
Lemma run_len_cons2 x y tl step : run_len (x :: y :: tl) step = if x + step =? y then S (run_len (y :: tl) step) else 1%nat.
Proof. reflexivity. Qed.
Lemma run_len_pos x tl step : (1 <= run_len (x :: tl) step)%nat.
Proof. destruct tl as [|y tl]; [cbn; lia|]. rewrite run_len_cons2. destruct (_ =? _); lia. Qed.
Lemma run_len_le_length : forall ns step, (run_len ns step <= length ns)%nat.
Proof. induction ns as [|x tl IH]; intros step; [cbn; lia|]. destruct tl as [|y tl]; [cbn; lia|]. rewrite run_len_cons2. specialize (IH step). destruct (_ =? _); cbn [length] in *; lia. Qed.

Lemma run_len_ge : forall ns step n, (1 <= n <= length ns)%nat -> (forall k, (S k < n)%nat -> nth (S k) ns 0 = nth k ns 0 + step) -> (n <= run_len ns step)%nat.
Proof.
  induction ns as [|x tl IH]; intros step n Hn Hc; [cbn in Hn; lia|]. destruct tl as [|y tl].
  - cbn in *. lia.
  - rewrite run_len_cons2. destruct n as [|[|n]]; [lia|destruct (_ =? _); lia|].
    pose proof (Hc 0%nat ltac:(lia)) as H0. cbn in H0. rewrite <- H0, Z.eqb_refl.
    assert (S n <= run_len (y :: tl) step)%nat; [|lia]. apply IH; [cbn [length] in *; lia|]. intros k Hk. apply (Hc (S k)). lia.
Qed.

Lemma nth_block_nodes : forall cnt m step j, (j < cnt)%nat -> nth j (block_nodes cnt m step) 0 = m + Z.of_nat j * step.
Proof. induction cnt as [|c IH]; intros m step j Hj; [lia|]. destruct j as [|j]; cbn [block_nodes nth]; [lia|]. rewrite IH by lia. lia. Qed.
Lemma length_block_nodes cnt m step : length (block_nodes cnt m step) = cnt.
Proof. revert m. induction cnt as [|c IH]; intros m; cbn; [reflexivity|rewrite IH; reflexivity]. Qed.

(* a run that reaches into a block of consecutive nodes runs through all of it *)
Lemma run_through_block pre post cnt m step : (1 <= cnt)%nat ->
  (length pre < run_len (pre ++ block_nodes cnt m step ++ post) step)%nat -> (length pre + cnt <= run_len (pre ++ block_nodes cnt m step ++ post) step)%nat.
Proof.
  intros Hc Hr. set (ns := pre ++ block_nodes cnt m step ++ post) in *.
  assert (Hlen : (length pre + cnt <= length ns)%nat) by (unfold ns; rewrite !app_length, length_block_nodes; lia).
  apply run_len_ge; [lia|]. intros k Hk. destruct (Nat.lt_ge_cases (S k) (run_len ns step)) as [Hlt|Hge]; [apply run_len_consecutive; exact Hlt|].
  assert (Hkp : (length pre <= k)%nat) by lia.
  unfold ns. rewrite !(app_nth2 pre) by lia. rewrite !app_nth1 by (rewrite length_block_nodes; lia). rewrite !nth_block_nodes by lia. replace (S k - length pre)%nat with (S (k - length pre)) by lia. rewrite Nat2Z.inj_succ. ring.
Qed.

Lemma find_run_block post cnt m step need : (1 <= need <= cnt)%nat -> forall fuel pre idx, (length pre < fuel)%nat ->
  exists i, find_run fuel (pre ++ block_nodes cnt m step ++ post) step need idx = Some i.
Proof.
  intros Hn. induction fuel as [|f IH]; intros pre idx Hf; [lia|]. cbn [find_run].
  destruct (pre ++ block_nodes cnt m step ++ post) as [|x tl] eqn:E.
  { exfalso. apply (f_equal (@length Z)) in E. rewrite !app_length, length_block_nodes in E. cbn in E. lia. }
  rewrite <- E. destruct (Nat.leb_spec need (run_len (pre ++ block_nodes cnt m step ++ post) step)) as [|Hlt]; [eexists; reflexivity|].
  set (r := run_len (pre ++ block_nodes cnt m step ++ post) step) in *.
  assert (Hr1 : (1 <= r)%nat) by (unfold r; rewrite E; apply run_len_pos).
  assert (Hpre : (r <= length pre)%nat).
  { destruct (Nat.le_gt_cases r (length pre)) as [|Hgt]; [assumption|]. pose proof (run_through_block pre post cnt m step ltac:(lia) Hgt). fold r in H. lia. }
  assert (Hsk : skipn r (pre ++ block_nodes cnt m step ++ post) = skipn r pre ++ block_nodes cnt m step ++ post).
  { rewrite skipn_app. replace (r - length pre)%nat with 0%nat by lia. reflexivity. }
  rewrite Hsk. apply IH. rewrite skipn_length. lia.
Qed.

Lemma or_prog_arr g s bytes : OR g s -> og_ns g < bytes -> exists g' res, og_step g (UAllocArr bytes) = Some (g', res).
Proof.
  intros _ Hb. unfold og_step. cbn [o_of_u ogstep]. unfold og_ns in Hb. destruct (Z.ltb_spec (nsz (og_l g)) bytes); [|lia].
  destruct (o_alloc_array (og_l g) bytes) as [[x l']|]; eexists _, _; reflexivity.
Qed.
Lemma or_prog_arr_after_ins g1 rs l g2 m cap bytes : OR g1 {| us_rs := rs; us_l := l |} -> og_step g1 (UIns m cap) = Some (g2, None) ->
  og_ns g1 < bytes -> slots_needed (og_ns g1) bytes <= cap / og_ns g1 -> exists g' x, og_step g2 (UAllocArr bytes) = Some (g', Some x).
Proof.
  intros Hor Hins Hb Hfit. pose proof Hor as ((_ & _ & _ & Hns) & _). unfold og_ns, og_step in *. cbn [o_of_u ogstep] in Hins.
  destruct (_ && _) in Hins; [|discriminate]. unfold o_insert in Hins. destruct (find_pos false false (og_l g1) m) as [k| | | |] eqn:Hk; try discriminate.
  inversion Hins; subst g2; clear Hins. cbn [o_of_u ogstep og_l og_live]. cbn [set_nodes nsz].
  set (ns := nsz (og_l g1)) in *. destruct (Z.ltb_spec ns bytes); [|lia]. unfold o_alloc_array. cbn [set_nodes nsz nodes]. fold ns. destruct (Z.leb_spec bytes ns); [lia|].
  unfold nodes_for, n_of. cbn [set_nodes nsz nodes]. fold ns.
  assert (Esl : slots_needed ns bytes = (bytes + ns - 1) / ns) by (unfold slots_needed; destruct (Z.leb_spec bytes ns); [lia|reflexivity]). rewrite Esl in Hfit.
  assert (Hq : 1 <= (bytes + ns - 1) / ns) by (apply Z.div_le_lower_bound; lia).
  unfold insert_at.
  destruct (find_run_block (skipn k (nodes (og_l g1))) (Z.to_nat (cap / ns)) m ns (Z.to_nat ((bytes + ns - 1) / ns)) ltac:(lia)
              (S (length (firstn k (nodes (og_l g1)) ++ block_nodes (Z.to_nat (cap / ns)) m ns ++ skipn k (nodes (og_l g1))))) (firstn k (nodes (og_l g1))) 0%nat) as (i & Hi).
  { rewrite !app_length. lia. }
  rewrite Hi. eexists _, _. reflexivity.
Qed.

Definition oarray_answers_ok64 (log2 : bool) := array_answers_ok64 og og_ns og_step (coll_bkt log2) intr_usable.
Theorem ocoll_alloc_array_progress log2 s sp size bytes a1 a2 : OCPR s sp -> OExt log2 s -> 0 < size <= cc_max _ s -> size <= bytes ->
  oarray_answers_ok64 log2 s sp size a1 a2 ->
  exists s' r evs, oc_step log2 s (CAllocArray size bytes a1 a2) = Some (s', r, evs) /\ OExt log2 s'.
Proof.
  apply (alloc_array_progress og og_ns og_free og_step (coll_bkt log2) intr_usable LIntrusive OR or_list or_pos og_step_refines intr_usable_nodes og_step_ns or_ranges
           or_prog_alloc or_prog_ins intr_usable_mono_ns intr_usable_mono_size or_prog_arr or_prog_arr_after_ins intr_usable_mult).
Qed.

(* ---------- every history of requests and releases: nothing is undescribed (intrusive and ordered list) ---------- *)
Definition urequest_history_ok (log2 : bool) := request_history_ok ug ug_ns ug_free ugstep (coll_bkt log2) intr_usable.
Theorem ucoll_request_history_progress log2 os s sp : UCPR s sp -> UExt log2 s -> urequest_history_ok log2 s sp os ->
  exists s' tr sp', uc_run log2 s os = Some (s', tr) /\ run sp tr = Some sp' /\ UCPR s' sp' /\ UExt log2 s'.
Proof.
  apply (request_history_progress ug ug_ns ug_free ugstep (coll_bkt log2) intr_usable LIntrusive UR ur_list ur_pos ustep_refines intr_usable_nodes ugstep_ns ur_ranges
           ur_prog_alloc ur_prog_ins intr_usable_mono_ns intr_usable_mono_size ur_prog_arr ur_prog_arr_after_ins intr_usable_mult).
Qed.
Definition orequest_history_ok (log2 : bool) := request_history_ok og og_ns og_free og_step (coll_bkt log2) intr_usable.
Theorem ocoll_request_history_progress log2 os s sp : OCPR s sp -> OExt log2 s -> orequest_history_ok log2 s sp os ->
  exists s' tr sp', oc_run log2 s os = Some (s', tr) /\ run sp tr = Some sp' /\ OCPR s' sp' /\ OExt log2 s'.
Proof.
  apply (request_history_progress og og_ns og_free og_step (coll_bkt log2) intr_usable LIntrusive OR or_list or_pos og_step_refines intr_usable_nodes og_step_ns or_ranges
           or_prog_alloc or_prog_ins intr_usable_mono_ns intr_usable_mono_size or_prog_arr or_prog_arr_after_ins intr_usable_mult).
Qed.
