(* memory_pool<node_pool> over an uncached arena: Exec model of its node operations, built from the Exec models of the
   arena (Arena.v) and of the intrusive free list (UnorderedList.v).  Each operation also yields the events the Spec
   (PoolSpec.acc_op) is given for it: upstream allocations and the ranges handed to the list. *)
From Coq Require Import ZArith NArith List Bool Lia.
From FM Require Import GenArith FixedStack SmallCarve PoolSpec Stack Arena UnorderedList UnorderedRefine.
Import ListNotations.
Local Open Scope Z_scope.

Record upool := { up_ar : arena; up_g : ug }.
Definition up_ns (s : upool) : Z := u_ns (ug_l (up_g s)).

(* allocate_node(): if (free_list_.empty()) allocate_block();  return free_list_.allocate();
   allocate_block(): mem = arena_.allocate_block(); free_list_.insert(mem.memory, mem.size) *)
Definition up_alloc_node (s : upool) (answer : option Z) : upool * obs * list ev :=
  let g := up_g s in let l := ug_l g in
  match u_nodes l with
  | _ :: _ =>
      match u_alloc l with
      | Some (x, l') => ({| up_ar := up_ar s; up_g := {| ug_l := l'; ug_live := (x, 1) :: ug_live g |} |}, ObsOk x, [])
      | None => (s, ObsThrow, [])
      end
  | [] =>
      match astep (up_ar s) ABlock answer with
      | (a', ABlk m sz, _) =>
          let l1 := u_insert l m sz in
          let evs := [EUp (m - hdrZ) (sz + hdrZ); EIns (u_ns l) m sz] in
          match u_alloc l1 with
          | Some (x, l') => ({| up_ar := a'; up_g := {| ug_l := l'; ug_live := (x, 1) :: ug_live g |} |}, ObsOk x, evs)
          | None => ({| up_ar := a'; up_g := {| ug_l := l1; ug_live := ug_live g |} |}, ObsThrow, evs)   (* a block without room for one node *)
          end
      | (a', AThrowUpstream, _) => ({| up_ar := a'; up_g := g |}, ObsThrow, [EUpFail])
      | (a', _, _) => ({| up_ar := a'; up_g := g |}, ObsThrow, [])
      end
  end.

(* try_allocate_node(): never grows *)
Definition up_try_alloc_node (s : upool) : upool * obs * list ev :=
  let g := up_g s in
  match u_alloc (ug_l g) with
  | Some (x, l') => ({| up_ar := up_ar s; up_g := {| ug_l := l'; ug_live := (x, 1) :: ug_live g |} |}, ObsOk x, [])
  | None => (s, ObsNull, [])
  end.

(* deallocate_node(ptr) of a node that is out *)
Definition up_dealloc_node (s : upool) (p : Z) : option (upool * obs * list ev) :=
  let g := up_g s in
  match remove_alloc p 1 (ug_live g) with
  | Some live' => Some ({| up_ar := up_ar s; up_g := {| ug_l := u_dealloc (ug_l g) p; ug_live := live' |} |}, ObsTrue, [])
  | None => None
  end.

Definition up_init (k : akind) (ns block_size : Z) : upool :=
  {| up_ar := ar_init k false block_size; up_g := {| ug_l := u_empty ns; ug_live := [] |} |}.

(* ---------- the constructor and the array operations ---------- *)
(* allocate_block(): a block from the arena goes to the list *)
Definition up_grow (s : upool) (answer : option Z) : upool * bool * list ev :=
  match astep (up_ar s) ABlock answer with
  | (a', ABlk m sz, _) =>
      ({| up_ar := a'; up_g := {| ug_l := u_insert (ug_l (up_g s)) m sz; ug_live := ug_live (up_g s) |} |}, true,
       [EUp (m - hdrZ) (sz + hdrZ); EIns (up_ns s) m sz])
  | (a', AThrowUpstream, _) => ({| up_ar := a'; up_g := up_g s |}, false, [EUpFail])
  | (a', _, _) => ({| up_ar := a'; up_g := up_g s |}, false, [])
  end.
(* memory_pool(node_size, block_size): the first block is taken at once *)
Definition up_construct (k : akind) (ns block_size : Z) (answer : option Z) : upool * bool * list ev :=
  up_grow (up_init k ns block_size) answer.

(* allocate_array(n, node_size) on count*size bytes: mem = empty ? nullptr : list.allocate(bytes);
   if (!mem) { allocate_block(); mem = list.allocate(bytes); if (!mem) throw bad_array_size; } *)
Definition up_take_array (s : upool) (bytes : Z) : option (upool * Z) :=
  let g := up_g s in let l := ug_l g in
  match u_nodes l with
  | [] => None
  | _ :: _ =>
      match u_alloc_array l bytes with
      | Some (x, l') => Some ({| up_ar := up_ar s; up_g := {| ug_l := l'; ug_live := (x, slots_needed (u_ns l) bytes) :: ug_live g |} |}, x)
      | None => None
      end
  end.
Definition up_alloc_array (s : upool) (bytes : Z) (answer : option Z) : upool * obs * list ev :=
  match up_take_array s bytes with
  | Some (s', x) => (s', ObsOk x, [])
  | None =>
      match up_grow s answer with
      | (s1, true, evs) => match up_take_array s1 bytes with Some (s', x) => (s', ObsOk x, evs) | None => (s1, ObsThrow, evs) end
      | (s1, false, evs) => (s1, ObsThrow, evs)
      end
  end.
Definition up_try_alloc_array (s : upool) (bytes : Z) : upool * obs * list ev :=
  match up_take_array s bytes with Some (s', x) => (s', ObsOk x, []) | None => (s, ObsNull, []) end.
Definition up_dealloc_array (s : upool) (p bytes : Z) : option (upool * obs * list ev) :=
  let g := up_g s in let l := ug_l g in
  match remove_alloc p (slots_needed (u_ns l) bytes) (ug_live g) with
  | Some live' => Some ({| up_ar := up_ar s; up_g := {| ug_l := u_dealloc_array l p bytes; ug_live := live' |} |}, ObsTrue, [])
  | None => None
  end.

(* ---------- histories ---------- *)
Inductive pool_op :=
  | PAllocNode (answer : option Z) | PTryAllocNode | PDeallocNode (p : Z)
  | PAllocArray (bytes : Z) (answer : option Z) | PTryAllocArray (bytes : Z) | PDeallocArray (p bytes : Z).
Definition spec_op_of (ns : Z) (o : pool_op) : op :=
  match o with
  | PAllocNode _ => OAlloc false false ns ns
  | PTryAllocNode => OAlloc true false ns ns
  | PDeallocNode p => ODealloc ns ns p
  | PAllocArray bytes _ => OAlloc false true ns bytes
  | PTryAllocArray bytes => OAlloc true true ns bytes
  | PDeallocArray p bytes => ODealloc ns bytes p
  end.
Definition up_step (s : upool) (o : pool_op) : option (upool * obs * list ev) :=
  match o with
  | PAllocNode answer => Some (up_alloc_node s answer)
  | PTryAllocNode => Some (up_try_alloc_node s)
  | PDeallocNode p => up_dealloc_node s p
  | PAllocArray bytes answer => Some (up_alloc_array s bytes answer)
  | PTryAllocArray bytes => Some (up_try_alloc_array s bytes)
  | PDeallocArray p bytes => up_dealloc_array s p bytes
  end.
Definition answer_of_op (o : pool_op) : option Z := match o with PAllocNode a | PAllocArray _ a => a | _ => None end.
(* the pool's run together with the trace the Spec is shown: (operation, events, result) per step *)
Fixpoint up_run (s : upool) (os : list pool_op) : option (upool * list (op * list ev * obs)) :=
  match os with
  | [] => Some (s, [])
  | o :: tl => match up_step s o with
               | Some (s', r, evs) => match up_run s' tl with Some (s'', tr) => Some (s'', (spec_op_of (up_ns s) o, evs, r) :: tr) | None => None end
               | None => None
               end
  end.
