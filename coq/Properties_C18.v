(* C18 -- capacity figures are truthful.  Statements only; the formulas are the ones translated from the
   C++ source on this run (GenArith.v). *)
From Coq Require Import ZArith NArith List Bool.
From FM Require Import Wrap GenArith FixedStack SmallCarve CapacityProofs PoolSpec SlotProofs ListLib PoolSpecProofs Stack StackProofs.
Import ListNotations.
Local Open Scope Z_scope.

(* a block of min_block_size(node size, n) bytes makes the intrusive lists link exactly n nodes *)
Theorem C18_node_list_min_block_size_suffices : forall ns n, (1 <= n)%N -> (N.max ns 8 * n < 2^64)%N ->
  l_nodes (Z.of_N (N.max ns 8)) (Z.of_N (free_list_min_block_size ns n)) = Z.of_N n.
Proof. exact free_list_min_block_suffices. Qed.
Print Assumptions C18_node_list_min_block_size_suffices.

Theorem C18_array_list_min_block_size_suffices : forall ns n, (1 <= n)%N -> (N.max ns 8 * n < 2^64)%N ->
  l_nodes (Z.of_N (N.max ns 8)) (Z.of_N (ordered_list_min_block_size ns n)) = Z.of_N n.
Proof. exact ordered_list_min_block_suffices. Qed.
Print Assumptions C18_array_list_min_block_size_suffices.

(* ... and the small list at least n, for every node size and every count (chunking, padding and the
   unsigned-char node counter included) *)
Theorem C18_small_list_min_block_size_suffices : forall ns n, (1 <= ns)%N -> (1 <= n)%N -> (n < 2^40)%N -> (ns < 2^16)%N ->
  Z.of_N n <= s_nodes 32 255 8 (Z.of_N ns) (Z.of_N (small_list_min_block_size ns n)).
Proof. exact small_min_block_suffices. Qed.
Print Assumptions C18_small_list_min_block_size_suffices.

(* the formula found at the pinned commit is refuted: node size 1, 510 nodes *)
Theorem C18_small_list_original_formula_refuted : exists ns n, 1 <= ns /\ 1 <= n /\
  s_nodes 32 255 8 ns (small_min_block_orig ns n) < n.
Proof. exact small_min_block_orig_refuted. Qed.
Print Assumptions C18_small_list_original_formula_refuted.

Theorem C18_remainder_chunk_fits_counter : forall ns size, 1 <= ns -> 0 <= size ->
  32 + ns <= s_rem 32 255 8 ns size -> (s_rem 32 255 8 ns size - 32) / ns <= 255.
Proof. exact rem_chunk_fits_uchar. Qed.
Print Assumptions C18_remainder_chunk_fits_counter.

(* memory_arena / memory_stack: min_block_size(b) leaves exactly b usable bytes after the block header *)
Theorem C18_arena_min_block_size_exact : forall b, (b + 16 < 2^64)%N ->
  (arena_min_block_size b - implementation_offset = b)%N.
Proof. exact arena_min_block_size_exact. Qed.
Print Assumptions C18_arena_min_block_size_exact.

(* counters move exactly: pool capacity = nodes linked - nodes handed out, each operation by its node count *)
Theorem C18_pool_capacity_exact : forall s l, PoolSpecProofs.Inv s -> In l (a_lists s) ->
  l_nfree l = nodes_sum (a_ranges s) l - k_sum (l_allocs l) /\ 0 <= l_nfree l /\
  (l_allocs l = [] -> l_nfree l = nodes_sum (a_ranges s) l).
Proof. exact capacity_is_exact. Qed.
Print Assumptions C18_pool_capacity_exact.

Theorem C18_pool_step_moves_exactly : forall s o evs r s', PoolSpecProofs.Inv s -> acc_op s o evs r = Some s' ->
  match o with
  | ODealloc ns bytes p =>
      r = ObsTrue ->
      exists l l', find_list ns (a_lists s) = Some l /\ find_list ns (a_lists s') = Some l' /\
                   l_nfree l' = l_nfree l + slots_needed ns bytes
  | OAlloc _ _ ns bytes =>
      forall p, r = ObsOk p -> evs = [] ->
      exists l l', find_list ns (a_lists s) = Some l /\ find_list ns (a_lists s') = Some l' /\
                   l_nfree l' = l_nfree l - slots_needed ns bytes
  end.
Proof. exact step_moves_exactly. Qed.
Print Assumptions C18_pool_step_moves_exactly.

(* stack: an allocation in the current block consumes exactly fence + padding + size + fence bytes of capacity_left *)
Theorem C18_stack_capacity_moves_exactly : forall fence s size al p top',
  0 < al -> 0 <= fence -> 0 <= size ->
  fs_alloc fence (s_top s) (cur_end s) size al = Some (p, top') ->
  top' - s_top s = fence + align_off (s_top s + fence) al + size + fence.
Proof.
  exact stack_capacity_delta.
Qed.
Print Assumptions C18_stack_capacity_moves_exactly.
