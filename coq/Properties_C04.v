(* C04 -- memory returned to a pool is reusable: no capacity is lost over any history.
   Statements only.  PoolSpec.v is the Spec-layer model of the free lists behind memory_pool and
   memory_pool_collection; implementation logs (results, ranges handed to the lists via the guarded insert
   hook, upstream calls, capacity figures after every operation) are replayed against acc_op. *)
From Coq Require Import ZArith List Bool.
From FM Require Import FixedStack SmallCarve PoolSpec SlotProofs ListLib PoolSpecProofs OrderedList OrderedListProofs UnorderedList UnorderedListProofs InvalidRelease SmallList SmallListProofs SmallRefine UnorderedRefine OrderedRefine CollExec CollExecProofs CollInst CollSizes CollInstProofs Arena Stack.
Import ListNotations.
Local Open Scope Z_scope.

(* the invariant holds after every accepted history *)
Theorem C04_invariant_reachable : forall h s s', Inv s -> run s h = Some s' -> Inv s'.
Proof. exact run_inv. Qed.
Print Assumptions C04_invariant_reachable.

(* the capacity figure is exact: nodes ever linked minus nodes handed out, never negative *)
Theorem C04_capacity_is_exact : forall s l, Inv s -> In l (a_lists s) ->
  l_nfree l = nodes_sum (a_ranges s) l - k_sum (l_allocs l) /\ 0 <= l_nfree l /\
  (l_allocs l = [] -> l_nfree l = nodes_sum (a_ranges s) l).
Proof. exact capacity_is_exact. Qed.
Print Assumptions C04_capacity_is_exact.

(* every operation moves the free count by exactly the nodes the request occupies: ceil(bytes / node size) *)
Theorem C04_step_moves_exactly : forall s o evs r s', Inv s -> acc_op s o evs r = Some s' ->
  match o with
  | ODealloc ns bytes p =>
      r = ObsTrue ->
      exists l l', find_list ns (a_lists s) = Some l /\ find_list ns (a_lists s') = Some l' /\
                   l_nfree l' = l_nfree l + slots_needed ns bytes
  | OAlloc _ _ ns bytes =>
      forall p, r = ObsOk p -> evs = [] ->
      exists l l', find_list ns (a_lists s) = Some l /\ find_list ns (a_lists s') = Some l' /\
                   l_nfree l' = l_nfree l - slots_needed ns bytes
  end.
Proof. exact step_moves_exactly. Qed.
Print Assumptions C04_step_moves_exactly.

(* after ANY history -- any interleaving of node and array requests and releases, any sizes, any number of
   cycles -- once everything taken from a list has been released its capacity is at least what it was *)
Theorem C04_capacity_never_lost : forall h s s' key l l', Inv s -> run s h = Some s' ->
  find_list key (a_lists s) = Some l -> find_list key (a_lists s') = Some l' ->
  l_allocs l' = [] -> l_nfree l <= l_nfree l'.
Proof. exact capacity_never_lost. Qed.
Print Assumptions C04_capacity_never_lost.

(* a single-node request never makes the pool grow (no upstream call, no new range) while the list holds a node *)
Theorem C04_node_request_grows_only_when_empty : forall s try_ ns bytes evs r s' l0,
  acc_op s (OAlloc try_ false ns bytes) evs r = Some s' -> find_list ns (a_lists s) = Some l0 ->
  0 < l_nfree l0 -> existsb is_grow evs = false.
Proof. exact node_request_grows_only_when_empty. Qed.
Print Assumptions C04_node_request_grows_only_when_empty.

(* a node that was released can be had again: a composable single-node request is refused only when the list is empty *)
Theorem C04_single_node_refusal_means_empty : forall s ns bytes evs s',
  acc_op s (OAlloc true false ns bytes) evs ObsNull = Some s' ->
  exists l0, find_list ns (a_lists s) = Some l0 /\ l_nfree l0 <= 0.
Proof. exact single_node_refusal_means_empty. Qed.
Print Assumptions C04_single_node_refusal_means_empty.

(* the address-ordered list itself (Exec model of ordered_free_memory_list): releasing an array puts every node the array
   occupied (ceil(bytes / node size) of them) back on the list, sorted, whatever the cursor and the sentinel addresses *)
Theorem C04_ordered_array_release_returns_every_node : forall asserts dbl l m bytes, OInv l -> nsz l < bytes ->
  (forall x, In x (nodes l) -> x < m \/ m + Z.of_nat (nodes_for l bytes) * nsz l <= x) ->
  exists l', o_dealloc_array asserts dbl l m bytes = Ret l' /\ OInv l' /\
             (forall x, In x (nodes l') <-> In x (block_nodes (nodes_for l bytes) m (nsz l)) \/ In x (nodes l)) /\
             n_of l' = (n_of l + nodes_for l bytes)%nat.
Proof. exact dealloc_array_valid. Qed.
Print Assumptions C04_ordered_array_release_returns_every_node.

(* ... and an array allocation takes exactly that many nodes, all of which were on the list *)
Theorem C04_ordered_array_allocation_takes_listed_nodes : forall l bytes x l', OInv l -> nsz l < bytes -> o_alloc_array l bytes = Some (x, l') ->
  sorted (nodes l') /\ In x (nodes l) /\ n_of l' = (n_of l - nodes_for l bytes)%nat /\ (forall y, In y (nodes l') -> In y (nodes l)).
Proof. exact alloc_array_inv. Qed.
Print Assumptions C04_ordered_array_allocation_takes_listed_nodes.

(* the unordered (singly linked) list: an array release puts back ceil(bytes / node size) nodes, each once; an array
   allocation takes that many nodes that were all on the list and are consecutive in memory, none of which stays on it *)
Theorem C04_unordered_array_release_returns_every_node : forall l m bytes, UInv l -> u_ns l < bytes ->
  (forall x, In x (u_nodes l) -> x < m \/ m + Z.of_nat (u_nodes_for l bytes) * u_ns l <= x) ->
  UInv (u_dealloc_array l m bytes) /\ u_capacity (u_dealloc_array l m bytes) = u_capacity l + Z.of_nat (u_nodes_for l bytes).
Proof. exact u_dealloc_array_inv. Qed.
Print Assumptions C04_unordered_array_release_returns_every_node.

Theorem C04_unordered_array_allocation_takes_a_listed_run : forall l bytes x l', UInv l -> u_ns l < bytes -> u_alloc_array l bytes = Some (x, l') ->
  UInv l' /\ u_capacity l' = u_capacity l - Z.of_nat (u_nodes_for l bytes) /\
  (forall k, (k < u_nodes_for l bytes)%nat -> In (x + Z.of_nat k * u_ns l) (u_nodes l) /\ ~ In (x + Z.of_nat k * u_ns l) (u_nodes l')).
Proof. exact u_alloc_array_inv. Qed.
Print Assumptions C04_unordered_array_allocation_takes_a_listed_run.

(* the small free list (Exec model of detail::small_free_memory_list).  While capacity is left, allocate() finds a chunk with a
   free node -- the search (allocation cursor, deallocation cursor, then outwards round the ring of chunks) cannot miss one,
   so it ends -- and takes exactly one node off the free chains; capacity drops by one, the layout is unchanged *)
Theorem C04_small_list_allocate_takes_one_free_node : forall l, SmInv l -> 0 < sm_capacity l ->
  exists p l', sm_alloc l = Some (p, l') /\ SmInv l' /\ sm_capacity l' = sm_capacity l - 1 /\
               Permutation.Permutation (free_addrs (sm_ns l) (sm_chunks l)) (p :: free_addrs (sm_ns l') (sm_chunks l')) /\
               sm_ns l' = sm_ns l /\ map c_mem (sm_chunks l') = map c_mem (sm_chunks l) /\ map c_nodes (sm_chunks l') = map c_nodes (sm_chunks l).
Proof. exact sm_alloc_spec. Qed.
Print Assumptions C04_small_list_allocate_takes_one_free_node.

Theorem C04_small_list_chunk_search_finds_room : forall l q, (sm_ac l < ring_size l)%nat -> has_room l q = true ->
  exists p, find_chunk l = Some p /\ has_room l p = true.
Proof. exact find_chunk_complete. Qed.
Print Assumptions C04_small_list_chunk_search_finds_room.

(* a released node goes back on the chain of its chunk: it is free again, exactly once, and capacity rises by one *)
Theorem C04_small_list_release_returns_the_node : forall l p c, SmInv l -> In c (sm_chunks l) -> c_from (sm_ns l) c p = true -> (p - c_mem c) mod sm_ns l = 0 ->
  ~ In p (free_addrs (sm_ns l) (sm_chunks l)) ->
  exists l', sm_dealloc l p = Some l' /\ SmInv l' /\ sm_capacity l' = sm_capacity l + 1 /\
             Permutation.Permutation (free_addrs (sm_ns l') (sm_chunks l')) (p :: free_addrs (sm_ns l) (sm_chunks l)) /\
             sm_ns l' = sm_ns l /\ map c_mem (sm_chunks l') = map c_mem (sm_chunks l) /\ map c_nodes (sm_chunks l') = map c_nodes (sm_chunks l).
Proof. exact sm_dealloc_spec. Qed.
Print Assumptions C04_small_list_release_returns_the_node.

(* no operation within the preconditions gets stuck, over any history *)
Theorem C04_small_list_history_invariant : forall os g g', GInv g -> grun g os = Some g' -> GInv g'.
Proof. exact grun_inv. Qed.
Print Assumptions C04_small_list_history_invariant.

Theorem C04_small_list_progress : forall g o, GInv g ->
  match o with
  | GIns mem size => True
  | GAlloc => 0 < sm_capacity (g_l g) -> exists g', gstep g o = Some g'
  | GDealloc p => In p (g_live g) -> exists g', gstep g o = Some g'
  end.
Proof. exact gstep_progress. Qed.
Print Assumptions C04_small_list_progress.

(* Exec refines Spec, list level.  Over every history of inserts, allocations and releases within the interface's preconditions
   the small list (SmallList.v) and the intrusive list (UnorderedList.v, node and array requests, refused array requests
   included) do only what the Spec list of PoolSpec.v accepts: every node or array handed out passes take_slots (free slots
   of inserted ranges), every release passes give_slots, and the Spec's free count is the list's capacity.  The theorems
   above about accepted Spec histories therefore apply to every history of these lists, not only to replayed ones. *)
Theorem C04_small_list_refines_spec : forall ns os g, 0 < ns -> grun {| g_l := sm_empty ns; g_live := [] |} os = Some g ->
  exists s, corun {| g_l := sm_empty ns; g_live := [] |} {| ss_rs := []; ss_l := sl ns [] 0 |} os = Some (g, s) /\
            l_nfree (ss_l s) = sm_capacity (g_l g) /\ live_slots (ss_l s) = g_live g.
Proof. exact small_list_refines_spec. Qed.
Print Assumptions C04_small_list_refines_spec.

(* the nodes the chunks of an inserted block offer are exactly the slots the Spec attributes to that range *)
Theorem C04_small_list_carves_the_spec_slots : forall ns mem size a, 1 <= ns -> 0 <= size ->
  In a (free_addrs ns (carve ns mem size)) <-> is_slot LSmall ns (mem, size) a = true.
Proof. exact carve_slots. Qed.
Print Assumptions C04_small_list_carves_the_spec_slots.

Theorem C04_unordered_list_refines_spec : forall ns os g, 0 < ns -> ugrun {| ug_l := u_empty ns; ug_live := [] |} os = Some g ->
  exists s, ucorun {| ug_l := u_empty ns; ug_live := [] |} {| us_rs := []; us_l := ul ns [] 0 |} os = Some (g, s) /\
            l_nfree (us_l s) = u_capacity (ug_l g) /\ l_allocs (us_l s) = ug_live g.
Proof. exact unordered_list_refines_spec. Qed.
Print Assumptions C04_unordered_list_refines_spec.

(* ... and so does the address-ordered list (OrderedList.v), in every debug configuration and with its sentinels anywhere *)
Theorem C04_ordered_list_refines_spec : forall asserts dbl pb0 pe0 ns os g, pb0 < pe0 -> 0 < ns ->
  ogrun asserts dbl {| og_l := o_empty pb0 pe0 ns; og_live := [] |} os = Some g ->
  exists s, ocorun asserts dbl {| og_l := o_empty pb0 pe0 ns; og_live := [] |} {| us_rs := []; us_l := ul ns [] 0 |} os = Some (g, s) /\
            l_nfree (us_l s) = o_capacity (og_l g) /\ l_allocs (us_l s) = og_live g.
Proof. exact ordered_list_refines_spec. Qed.
Print Assumptions C04_ordered_list_refines_spec.

(* non-vacuity: an accepted history on a 16-byte list: insert 10 nodes, take a 3x8-byte array (2 nodes) and a node, give both back *)
Example C04_nonvacuous :
  let s0 := mk_ast [mk_list LIntrusive 16] in
  match run s0 [(OAlloc false false 16 16, [EUp 65536 176; EIns 16 65552 160], ObsOk 65552);
                (OAlloc false true 16 24, [], ObsOk 65568);
                (ODealloc 16 24 65568, [], ObsTrue); (ODealloc 16 16 65552, [], ObsTrue)] with
  | Some s => capacity_nodes s 16 = Some 10
  | None => False
  end.
Proof. vm_compute. reflexivity. Qed.

(* the Exec models of memory_pool_collection (CollExec.v, all three list types): over any history no list loses capacity -- once
   everything taken from a list has been released, its pool_capacity_left is at least what it was before the history *)
Theorem C04_collection_exec_capacity_never_lost : forall log2 os s sp s' tr, UCPR s sp -> ucoll_answers_ok log2 s sp os -> uc_run log2 s os = Some (s', tr) ->
  exists sp', PoolSpecProofs.run sp tr = Some sp' /\ UCPR s' sp' /\
    forall key n n', cc_nfree ug ug_ns ug_free s key = Some n -> cc_nfree ug ug_ns ug_free s' key = Some n' -> list_has_no_allocations sp' key -> n <= n'.
Proof. exact ucoll_capacity_never_lost. Qed.
Print Assumptions C04_collection_exec_capacity_never_lost.
Theorem C04_ordered_collection_exec_capacity_never_lost : forall log2 os s sp s' tr, OCPR s sp -> ocoll_answers_ok log2 s sp os -> oc_run log2 s os = Some (s', tr) ->
  exists sp', PoolSpecProofs.run sp tr = Some sp' /\ OCPR s' sp' /\
    forall key n n', cc_nfree og og_ns og_free s key = Some n -> cc_nfree og og_ns og_free s' key = Some n' -> list_has_no_allocations sp' key -> n <= n'.
Proof. exact ocoll_capacity_never_lost. Qed.
Print Assumptions C04_ordered_collection_exec_capacity_never_lost.
Theorem C04_small_collection_exec_capacity_never_lost : forall log2 os s sp s' tr, SCPR s sp -> scoll_answers_ok log2 s sp os -> sc_run log2 s os = Some (s', tr) ->
  exists sp', PoolSpecProofs.run sp tr = Some sp' /\ SCPR s' sp' /\
    forall key n n', cc_nfree smg sg_ns sg_free s key = Some n -> cc_nfree smg sg_ns sg_free s' key = Some n' -> list_has_no_allocations sp' key -> n <= n'.
Proof. exact scoll_capacity_never_lost. Qed.
Print Assumptions C04_small_collection_exec_capacity_never_lost.

(* memory_pool_collection::reserve (all three list types): the model's reserve -- reserve_memory and insert -- is accepted by the Spec,
   and when it succeeds the reserved range has been handed to the pool of that size (nothing is taken from the block and lost) *)
Theorem C04_collection_exec_reserve_reaches_the_pool : forall log2 s sp size cap answer s2 ok evs, UCPR s sp -> 0 <= cap ->
  (forall addr, answer = Some addr -> CWB sp addr (ar_next (cc_ar _ s))) -> uc_reserve log2 s size cap answer = Some (s2, ok, evs) ->
  exists sp2, acc_evs sp evs = Some sp2 /\ UCPR s2 sp2 /\ (ok = true -> exists m, In (EIns (coll_bkt log2 size) m cap) evs).
Proof. exact ucoll_reserve_refines. Qed.
Print Assumptions C04_collection_exec_reserve_reaches_the_pool.
Theorem C04_ordered_collection_exec_reserve_reaches_the_pool : forall log2 s sp size cap answer s2 ok evs, OCPR s sp -> 0 <= cap ->
  (forall addr, answer = Some addr -> CWB sp addr (ar_next (cc_ar _ s))) -> oc_reserve log2 s size cap answer = Some (s2, ok, evs) ->
  exists sp2, acc_evs sp evs = Some sp2 /\ OCPR s2 sp2 /\ (ok = true -> exists m, In (EIns (coll_bkt log2 size) m cap) evs).
Proof. exact ocoll_reserve_refines. Qed.
Print Assumptions C04_ordered_collection_exec_reserve_reaches_the_pool.
Theorem C04_small_collection_exec_reserve_reaches_the_pool : forall log2 s sp size cap answer s2 ok evs, SCPR s sp -> 0 <= cap ->
  (forall addr, answer = Some addr -> CWB sp addr (ar_next (cc_ar _ s))) -> sc_reserve log2 s size cap answer = Some (s2, ok, evs) ->
  exists sp2, acc_evs sp evs = Some sp2 /\ SCPR s2 sp2 /\ (ok = true -> exists m, In (EIns (coll_bkt_me 1%N log2 size) m cap) evs).
Proof. exact scoll_reserve_refines. Qed.
Print Assumptions C04_small_collection_exec_reserve_reaches_the_pool.
