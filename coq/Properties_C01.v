(* C01 -- live allocations never overlap and lie inside memory the allocator owns.
   Statements only, one group per allocator family; the models are tied to the code by replay of
   implementation logs (see the evidence file for what was replayed on this run). *)
From Coq Require Import ZArith List Bool.
From FM Require Import FixedStack SmallCarve PoolSpec SlotProofs ListLib PoolSpecProofs Stack StackProofs Iteration IterationProofs InvalidRelease SmallList SmallListProofs Stack Arena UnorderedList UnorderedRefine PoolExec PoolExecProofs SmallRefine SmallPoolExec SmallPoolExecProofs OrderedList OrderedRefine OrderedPoolExec OrderedPoolExecProofs CollExec CollExecProofs CollInst CollSizes CollInstProofs.
Import ListNotations.
Local Open Scope Z_scope.

(* ----- pools and pool collections (all three free lists, any number of buckets) ----- *)
(* any two nodes handed out and not yet released -- of the same or of different buckets -- are disjoint *)
Theorem C01_pool_live_nodes_disjoint : forall s l1 l2 a b, PoolSpecProofs.Inv s -> In l1 (a_lists s) -> In l2 (a_lists s) ->
  In a (live_slots l1) -> In b (live_slots l2) -> (l_ns l1 <> l_ns l2 \/ a <> b) ->
  a + l_ns l1 <= b \/ b + l_ns l2 <= a.
Proof. exact live_slots_apart. Qed.
Print Assumptions C01_pool_live_nodes_disjoint.

(* ... and lie in the usable part (after the arena header) of an upstream block the allocator holds *)
Theorem C01_pool_live_nodes_inside_held_blocks : forall s l a, PoolSpecProofs.Inv s -> In l (a_lists s) -> In a (live_slots l) ->
  exists b, In b (a_held s) /\ fst b + hdrZ <= a /\ a + l_ns l <= fst b + snd b.
Proof. exact live_slot_inside_held. Qed.
Print Assumptions C01_pool_live_nodes_inside_held_blocks.

Theorem C01_pool_invariant_every_history : forall (h : list PoolSpecProofs.step) (s s' : ast), PoolSpecProofs.Inv s -> PoolSpecProofs.run s h = Some s' -> PoolSpecProofs.Inv s'.
Proof. exact PoolSpecProofs.run_inv. Qed.
Print Assumptions C01_pool_invariant_every_history.

(* the node geometry behind it: every node a list links from a range lies inside the range, two different nodes
   of one range are a node size apart -- intrusive lists and the chunked small list, every node size *)
Theorem C01_list_nodes_inside_range : forall k ns r a, ns_ok k ns -> 0 <= snd r -> is_slot k ns r a = true ->
  fst r <= a /\ a + ns <= fst r + snd r.
Proof. exact slot_inside. Qed.
Print Assumptions C01_list_nodes_inside_range.

Theorem C01_list_nodes_apart : forall k ns r a b, ns_ok k ns -> 0 <= snd r ->
  is_slot k ns r a = true -> is_slot k ns r b = true -> a <> b -> a + ns <= b \/ b + ns <= a.
Proof. exact slot_apart. Qed.
Print Assumptions C01_list_nodes_apart.

(* ----- memory_stack ----- *)
Theorem C01_stack_allocation_disjoint_inside : forall fence, 0 <= fence -> forall s size al ans s' out calls w,
  SInv s -> 0 <= size -> 0 < al -> answer_ok s ans ->
  step fence s (SAlloc size al) ans = (s', out, calls, w) ->
  SInv s' /\
  match out with
  | SOk p => p <> 0 /\ p mod al = 0 /\
             (exists b, In b (s_used s') /\ b_mem b <= p /\ p + size <= b_end b) /\
             Forall (adisj (p, size)) (s_live s) /\ s_live s' = (p, size) :: s_live s
  | SThrowUpstream | SThrowFixed | SThrowBadSize => s_live s' = s_live s
  | _ => False
  end.
Proof. exact alloc_spec. Qed.
Print Assumptions C01_stack_allocation_disjoint_inside.

Theorem C01_stack_try_allocation_disjoint_inside : forall fence, 0 <= fence -> forall s size al s' out calls w,
  SInv s -> 0 <= size -> 0 < al ->
  step fence s (STry size al) None = (s', out, calls, w) ->
  calls = [] /\ SInv s' /\
  match out with
  | SOk p => p <> 0 /\ p mod al = 0 /\ (exists b, In b (s_used s') /\ b_mem b <= p /\ p + size <= b_end b) /\
             Forall (adisj (p, size)) (s_live s) /\ s_live s' = (p, size) :: s_live s
  | SNull => s' = s
  | _ => False
  end.
Proof. exact try_spec. Qed.
Print Assumptions C01_stack_try_allocation_disjoint_inside.

(* ----- iteration_allocator<N>, every N ----- *)
Theorem C01_iteration_allocation_disjoint_inside : forall fence fill, 0 <= fence -> forall s thr size al p,
  IterationProofs.Inv s -> 0 <= size -> 0 < al ->
  snd (it_step fence fill s (IAlloc thr size al)) = IOk p ->
  p <> 0 /\ p mod al = 0 /\ rstart s (icur s) <= p /\ p + size <= rstart s (S (icur s)) /\
  ibase s <= p /\ p + size <= ibase s + isize s /\
  forall a, In a (ilive s) -> a_ptr a + a_size a <= p \/ p + size <= a_ptr a.
Proof. exact alloc_ok. Qed.
Print Assumptions C01_iteration_allocation_disjoint_inside.

(* the allocator never writes into an allocation that stays live (iteration allocator write events) *)
Theorem C01_iteration_live_memory_unmodified : forall fence fill, 0 <= fence -> forall s o, IterationProofs.Inv s -> IterationProofs.op_ok o ->
  forall w a, In w (it_writes fence s o) -> In a (ilive (fst (it_step fence fill s o))) ->
    (match o with IAlloc _ _ _ => In a (ilive s) | INext => True end) ->
    snd w <= 0 \/ a_ptr a + a_size a <= fst w \/ fst w + snd w <= a_ptr a.
Proof. exact writes_avoid_live. Qed.
Print Assumptions C01_iteration_live_memory_unmodified.

(* ----- the small free list itself (Exec model of detail::small_free_memory_list: chunk list, free chains, cursors) ----- *)
(* after any history of insert / allocate / deallocate within the interface's preconditions, starting from the empty list:
   the nodes that are out are pairwise disjoint, none of them is on a free chain, and the node handed out next is disjoint
   from every one of them *)
Theorem C01_small_list_live_nodes_disjoint : forall ns os g, 0 < ns -> grun {| g_l := sm_empty ns; g_live := [] |} os = Some g ->
  NoDup (g_live g) /\
  (forall a b, In a (g_live g) -> In b (g_live g) -> a <> b -> a + ns <= b \/ b + ns <= a) /\
  (forall a, In a (g_live g) -> ~ In a (free_addrs (sm_ns (g_l g)) (sm_chunks (g_l g)))) /\
  (forall g' , gstep g GAlloc = Some g' -> exists p, g_live g' = p :: g_live g /\ forall a, In a (g_live g) -> p + ns <= a \/ a + ns <= p).
Proof. exact small_list_live_nodes_disjoint. Qed.
Print Assumptions C01_small_list_live_nodes_disjoint.

(* every node the list ever hands out lies inside memory given to insert(): the nodes a block adds are inside that block *)
Theorem C01_small_list_nodes_inside_inserted_memory : forall l mem size, SmInv l -> 0 < size ->
  (forall c, In c (sm_chunks l) -> c_end (sm_ns l) c <= mem \/ mem + size <= c_mem c - sm_cmo) ->
  let l' := sm_insert l mem size in
  SmInv l' /\ sm_capacity l' = sm_capacity l + s_nodes sm_cmo sm_cmax sm_calign (sm_ns l) size /\
  (exists new, Permutation.Permutation (free_addrs (sm_ns l') (sm_chunks l')) (new ++ free_addrs (sm_ns l) (sm_chunks l)) /\
               forall a, In a new -> mem <= a /\ a + sm_ns l <= mem + size).
Proof. exact sm_insert_spec. Qed.
Print Assumptions C01_small_list_nodes_inside_inserted_memory.

(* ----- Exec refines Spec, pool level: memory_pool<node_pool> over an uncached arena (PoolExec.v, built from the Exec models of
   the arena and of the intrusive list) ----- *)
(* one operation (node or array request through the throwing or the composable member, or a release): from related states,
   with any upstream answer that is a fresh aligned block with room for a node (answer_ok), the Spec accepts the events and the
   result the Exec pool produces, and the states are related again *)
Theorem C01_pool_exec_step_refines_spec : forall s sp o s' r evs, PR s sp -> 0 < up_ns s < 2^64 -> pool_answer_ok s sp o ->
  up_step s o = Some (s', r, evs) -> exists sp', acc_op sp (spec_op_of (up_ns s) o) evs r = Some sp' /\ PR s' sp'.
Proof. exact step_refines_pool. Qed.
Print Assumptions C01_pool_exec_step_refines_spec.

(* every history of the Exec pool over an upstream source that behaves is a history the Spec accepts: the theorems above about
   accepted histories (disjoint live nodes inside held blocks, and C02..C04, C18) hold for all of them *)
Theorem C01_pool_exec_refines_spec : forall os s sp s' tr, PR s sp -> 0 < up_ns s < 2^64 -> answers_ok s sp os ->
  up_run s os = Some (s', tr) -> exists sp', PoolSpecProofs.run sp tr = Some sp' /\ PR s' sp'.
Proof. exact pool_refines_spec. Qed.
Print Assumptions C01_pool_exec_refines_spec.

Theorem C01_pool_exec_initial_state_related : forall k ns bs, 0 < ns -> PR (up_init k ns bs) (mk_ast [ul ns [] 0]).
Proof. exact init_PR. Qed.
Print Assumptions C01_pool_exec_initial_state_related.

(* the same for memory_pool<small_node_pool> (SmallPoolExec.v: arena + small list; no arrays): every operation, for any upstream
   answer that is a fresh aligned block whose chunks hold at least one node, is accepted by the Spec; hence every history *)
Theorem C01_small_pool_exec_step_refines_spec : forall s sp o s' r evs, SPR s sp -> 1 <= sp_ns s -> sp_answer_ok s sp o ->
  sp_step s o = Some (s', r, evs) -> exists sp', acc_op sp (sp_spec_op (sp_ns s) o) evs r = Some sp' /\ SPR s' sp'.
Proof. exact small_pool_step_refines. Qed.
Print Assumptions C01_small_pool_exec_step_refines_spec.

Theorem C01_small_pool_exec_refines_spec : forall os s sp s' tr, SPR s sp -> 1 <= sp_ns s -> sp_answers_ok s sp os ->
  sp_run s os = Some (s', tr) -> exists sp', PoolSpecProofs.run sp tr = Some sp' /\ SPR s' sp'.
Proof. exact small_pool_refines_spec. Qed.
Print Assumptions C01_small_pool_exec_refines_spec.

(* the same for memory_pool<array_pool>, and memory_pool<node_pool> when the double-free check is compiled in (OrderedPoolExec.v:
   arena + address-ordered list with its two cursors): every operation is accepted by the Spec, hence every history; the
   constructor's state is related to the Spec's initial state after its first block *)
Theorem C01_ordered_pool_exec_step_refines_spec : forall s sp o s' r evs, OPR s sp -> 0 < op_ns s < 2^64 -> op_answer_ok s sp o ->
  op_step s o = Some (s', r, evs) -> exists sp', acc_op sp (op_spec_op (op_ns s) o) evs r = Some sp' /\ OPR s' sp'.
Proof. exact ordered_pool_step_refines. Qed.
Print Assumptions C01_ordered_pool_exec_step_refines_spec.

Theorem C01_ordered_pool_exec_refines_spec : forall os s sp s' tr, OPR s sp -> 0 < op_ns s < 2^64 -> op_answers_ok s sp os ->
  op_run s os = Some (s', tr) -> exists sp', PoolSpecProofs.run sp tr = Some sp' /\ OPR s' sp'.
Proof. exact ordered_pool_refines_spec. Qed.
Print Assumptions C01_ordered_pool_exec_refines_spec.

Theorem C01_ordered_pool_exec_constructor_related : forall k pb0 pe0 ns bs answer s ok evs, pb0 < pe0 -> 0 < ns < 2^64 ->
  (forall addr, answer = Some addr -> OWB (mk_ast [ul ns [] 0]) addr bs /\ ns <= bs - hdr) ->
  op_construct k pb0 pe0 ns bs answer = (s, ok, evs) -> exists sp, acc_evs (mk_ast [ul ns [] 0]) evs = Some sp /\ OPR s sp.
Proof. exact op_construct_refines. Qed.
Print Assumptions C01_ordered_pool_exec_constructor_related.

(* memory_pool_collection (CollExec.v: arena + the fixed stack carving the current block + the array of free lists; reserve_memory,
   try_reserve_memory, insert_rest and the three growth stages of allocate_array), over the intrusive list (node_pool) and over
   the address-ordered list (array_pool; node_pool with the double-free check), identity and log2 buckets: every operation the
   model describes is accepted by the Spec with the model's events and result, hence every history; the constructor's state is
   related to the Spec's initial state after its first block and the reservation of the list array *)
Theorem C01_collection_exec_step_refines_spec : forall log2 s sp o s' r evs, UCPR s sp -> ucoll_answer_ok log2 s sp o ->
  uc_step log2 s o = Some (s', r, evs) -> exists sp', acc_op sp (cc_spec_op (coll_bkt log2) o) evs r = Some sp' /\ UCPR s' sp'.
Proof. exact ucoll_step_refines. Qed.
Print Assumptions C01_collection_exec_step_refines_spec.

Theorem C01_collection_exec_refines_spec : forall log2 os s sp s' tr, UCPR s sp -> ucoll_answers_ok log2 s sp os ->
  uc_run log2 s os = Some (s', tr) -> exists sp', PoolSpecProofs.run sp tr = Some sp' /\ UCPR s' sp'.
Proof. exact ucoll_refines_spec. Qed.
Print Assumptions C01_collection_exec_refines_spec.

Theorem C01_collection_exec_constructor_related : forall log2 k fence max bs answer s ok evs,
  sizes_okb (coll_sizes log2 max) = true -> 0 <= fence ->
  (forall addr, answer = Some addr -> CWB (mk_ast (coll_spec_lists log2 max)) addr bs) ->
  uc_construct log2 k fence max bs answer = Some (s, ok, evs) ->
  exists sp, acc_evs (mk_ast (coll_spec_lists log2 max)) evs = Some sp /\ (ok = true -> UCPR s sp).
Proof. exact uc_construct_refines. Qed.
Print Assumptions C01_collection_exec_constructor_related.

Theorem C01_ordered_collection_exec_step_refines_spec : forall log2 s sp o s' r evs, OCPR s sp -> ocoll_answer_ok log2 s sp o ->
  oc_step log2 s o = Some (s', r, evs) -> exists sp', acc_op sp (cc_spec_op (coll_bkt log2) o) evs r = Some sp' /\ OCPR s' sp'.
Proof. exact ocoll_step_refines. Qed.
Print Assumptions C01_ordered_collection_exec_step_refines_spec.

Theorem C01_ordered_collection_exec_refines_spec : forall log2 os s sp s' tr, OCPR s sp -> ocoll_answers_ok log2 s sp os ->
  oc_run log2 s os = Some (s', tr) -> exists sp', PoolSpecProofs.run sp tr = Some sp' /\ OCPR s' sp'.
Proof. exact ocoll_refines_spec. Qed.
Print Assumptions C01_ordered_collection_exec_refines_spec.

Theorem C01_ordered_collection_exec_constructor_related : forall log2 k fence max bs answer s ok evs,
  sizes_okb (coll_sizes log2 max) = true -> 0 <= fence ->
  (forall addr, answer = Some addr -> CWB (mk_ast (coll_spec_lists log2 max)) addr bs) ->
  oc_construct log2 k fence max bs answer = Some (s, ok, evs) ->
  exists sp, acc_evs (mk_ast (coll_spec_lists log2 max)) evs = Some sp /\ (ok = true -> OCPR s sp).
Proof. exact oc_construct_refines. Qed.
Print Assumptions C01_ordered_collection_exec_constructor_related.

(* the table of list node sizes meets the constructor theorems' premise for every max_node_size up to 256, both bucket policies *)
Theorem C01_collection_size_table_ok : forall log2 max, 1 <= max <= 256 -> sizes_okb (coll_sizes log2 max) = true.
Proof. exact coll_sizes_ok_upto_256. Qed.
Print Assumptions C01_collection_size_table_ok.


(* the same for memory_pool_collection<small_node_pool> over the chunked list (no arrays) *)
Theorem C01_small_collection_exec_step_refines_spec : forall log2 s sp o s' r evs, SCPR s sp -> scoll_answer_ok log2 s sp o ->
  sc_step log2 s o = Some (s', r, evs) -> exists sp', acc_op sp (cc_spec_op (coll_bkt_me 1%N log2) o) evs r = Some sp' /\ SCPR s' sp'.
Proof. exact scoll_step_refines. Qed.
Print Assumptions C01_small_collection_exec_step_refines_spec.

Theorem C01_small_collection_exec_refines_spec : forall log2 os s sp s' tr, SCPR s sp -> scoll_answers_ok log2 s sp os ->
  sc_run log2 s os = Some (s', tr) -> exists sp', PoolSpecProofs.run sp tr = Some sp' /\ SCPR s' sp'.
Proof. exact scoll_refines_spec. Qed.
Print Assumptions C01_small_collection_exec_refines_spec.

Theorem C01_small_collection_exec_constructor_related : forall log2 k fence max bs answer s ok evs,
  ssizes_okb (coll_sizes_me 1%N log2 max) = true -> 0 <= fence ->
  (forall addr, answer = Some addr -> CWB (mk_ast (scoll_spec_lists log2 max)) addr bs) ->
  sc_construct log2 k fence max bs answer = Some (s, ok, evs) ->
  exists sp, acc_evs (mk_ast (scoll_spec_lists log2 max)) evs = Some sp /\ (ok = true -> SCPR s sp).
Proof. exact sc_construct_refines. Qed.
Print Assumptions C01_small_collection_exec_constructor_related.

Theorem C01_small_collection_size_table_ok : forall log2 max, 1 <= max <= 256 -> ssizes_okb (coll_sizes_me 1%N log2 max) = true.
Proof. exact scoll_sizes_ok_upto_256. Qed.
Print Assumptions C01_small_collection_size_table_ok.

(* a history of the real allocator (configuration base, identity buckets, max 64, block 4096 at 65600) computed by the model:
   constructor, seven requests -- addresses, ranges and the remaining capacity are those the implementation logged *)
Example C01_collection_exec_nonvacuous :
  match uc_construct false AGrow 0 64 4096 (Some 65600) with
  | Some (s, ok, evs) =>
      ok = true /\ evs = [EUp 65600 4096; EResv 65616 1368] /\
      match uc_run false s [CAllocNode 8 None; CAllocNode 16 None; CAllocNode 64 None; CAllocNode 9 None; CAllocArray 16 48 None None; CTryAllocNode 24; CAllocNode 8 None] with
      | Some (s', tr) => map (fun x => snd x) tr = [ObsOk 66992; ObsOk 67072; ObsOk 67152; ObsOk 67232; ObsOk 67088; ObsOk 67312; ObsOk 67000] /\
                         cc_capacity_left _ s' = 2313 /\ match acc_evs (mk_ast (coll_spec_lists false 64)) evs with Some sp0 => PoolSpecProofs.run sp0 tr <> None | None => False end
      | None => False
      end
  | None => False
  end.
Proof. vm_compute. repeat split; discriminate. Qed.

Example C01_pool_exec_nonvacuous :
  match up_run (up_init AGrow 16 176) [PAllocNode (Some 65536); PAllocNode None; PTryAllocNode; PDeallocNode 65552; PAllocNode None; PAllocArray 40 None; PDeallocArray 65600 40; PTryAllocArray 4000] with
  | Some (s, tr) => ug_live (up_g s) = [(65552, 1); (65584, 1); (65568, 1)] /\ length tr = 8%nat /\
                    PoolSpecProofs.run (mk_ast [ul 16 [] 0]) tr <> None
  | None => False
  end.
Proof. vm_compute. repeat split; discriminate. Qed.

Example C01_small_list_nonvacuous :
  match grun {| g_l := sm_empty 8; g_live := [] |} [GIns 4096 80; GIns 0 64; GAlloc; GAlloc; GAlloc; GAlloc; GAlloc; GDealloc 4128; GAlloc; GIns 8192 3000; GAlloc] with
  | Some g => g_live g = [4136; 4128; 56; 48; 40; 32] /\ sm_capacity (g_l g) = 6 + 4 + 255 + 112 - 6
  | None => False
  end.
Proof. vm_compute. split; reflexivity. Qed.

