(* C09 obligations computed on the call-shape table regenerated from the wrapper class templates. *)
From Coq Require Import String List Bool.
From FM Require Import GenShapes ShapesLib ShapesCommon.
Import ListNotations.
Local Open Scope string_scope.

(* ---------- tracked_allocator (C09) ---------- *)
Definition tracker_name (n : string) : string :=
  if smem n ["allocate_node"; "try_allocate_node"] then "on_node_allocation"
  else if smem n ["allocate_array"; "try_allocate_array"] then "on_array_allocation"
  else if smem n ["deallocate_node"; "try_deallocate_node"] then "on_node_deallocation" else "on_array_deallocation".
Definition tracker_args (n : string) (ps : list string) : list string :=
  if smem "ptr" ps then ps else "mem" :: ps.
Definition count_calls (c : string) (m : member) : nat := length (filter (fun x => seqb (fst x) c) (calls_of m)).

(* forwards once to the same-named function of the wrapped allocator with the same arguments, and tells the tracker once,
   with the same arguments; the composable members tell it only inside the success branch *)
Definition tracked_member_ok (np : string * list string) : bool :=
  let '(n, ps) := np in
  exactly_one "tracked_allocator" n &&
  forallb (fun m =>
    slist_eqb (m_params m) ps &&
    has_call n ("get_allocator()" :: ps) m && Nat.eqb (count_calls n m) 1 &&
    has_call (tracker_name n) (tracker_args n ps) m && Nat.eqb (count_calls (tracker_name n) m) 1 &&
    (if smem n ["try_allocate_node"; "try_allocate_array"] then has_call_in (tracker_name n) (tracker_args n ps) (inside_if "mem" (m_events m))
     else if smem n ["try_deallocate_node"; "try_deallocate_array"] then has_call_in (tracker_name n) (tracker_args n ps) (inside_if "res" (m_events m))
     else true))
    (mem_of "tracked_allocator" n).
Definition tracked_ok : bool := forallb tracked_member_ok alloc_members.

(* ---------- aligned_allocator (C09) ---------- *)
(* every member raises the alignment to the minimum (never lowers it: only under min_alignment_ > alignment) and forwards
   once to the same-named function with otherwise unchanged arguments -- the same on allocation and on release *)
Definition aligned_member_ok (np : string * list string) : bool :=
  let '(n, ps) := np in
  exactly_one "aligned_allocator" n &&
  forallb (fun m =>
    slist_eqb (m_params m) ps &&
    has_if "(min_alignment_>alignment)" m &&
    existsb (fun e => match e with SAssign a b => seqb a "alignment" && seqb b "min_alignment_" | _ => false end) (inside_if "(min_alignment_>alignment)" (m_events m)) &&
    Nat.eqb (length (filter (fun e => match e with SAssign a _ => seqb a "alignment" | _ => false end) (m_events m))) 1 &&
    has_call n ("get_allocator()" :: ps) m && Nat.eqb (count_calls n m) 1)
    (mem_of "aligned_allocator" n).
Definition aligned_ok : bool := forallb aligned_member_ok alloc_members.

(* ---------- allocator_storage (C09): one forwarded call with the same arguments ---------- *)
Definition storage_member_forwards (np : string * list string) : bool :=
  let '(n, ps) := np in
  negb (is_nil (mem_of "allocator_storage" n)) &&
  forallb (fun m => slist_eqb (m_params m) ps && has_call n ("alloc" :: ps) m && Nat.eqb (count_calls n m) 1) (mem_of "allocator_storage" n).
Definition storage_forwards_ok : bool := forallb storage_member_forwards alloc_members.

(* ---------- binary_segregator (C09): the release repeats the allocation's decision with the same arguments ---------- *)
Definition seg_pair_ok (a d decide : string) (ps dps : list string) (dargs : list string) : bool :=
  let cond := "get_segregatable()." ++ decide ++ "(" ++ String.concat "," dargs ++ ")" in
  exactly_one "binary_segregator" a && exactly_one "binary_segregator" d &&
  forallb (fun m => has_if cond m && has_call_in a ("get_segregatable_allocator()" :: ps) (inside_if cond (m_events m)) && has_call a ("get_fallback_allocator()" :: ps) m) (mem_of "binary_segregator" a) &&
  forallb (fun m => has_if cond m && has_call_in d ("get_segregatable_allocator()" :: dps) (inside_if cond (m_events m)) && has_call d ("get_fallback_allocator()" :: dps) m) (mem_of "binary_segregator" d).
Definition segregator_ok : bool :=
  seg_pair_ok "allocate_node" "deallocate_node" "use_allocate_node" node_params dnode_params node_params &&
  seg_pair_ok "allocate_array" "deallocate_array" "use_allocate_array" array_params ["array"; "count"; "size"; "alignment"] array_params.

(* ---------- memory_resource_adapter and std_allocator (C09): node/array decision repeated identically ---------- *)
Definition resource_adapter_ok : bool :=
  forallb (fun m => has_call "max_node_size" ["*this"] m && has_if "(bytes<=max)" m &&
                    has_call_in "allocate_node" ["*this"; "bytes"; "alignment"] (inside_if "(bytes<=max)" (m_events m)) &&
                    has_call "allocate_array" ["*this"; "n"; "max"; "alignment"] m) (mem_of "memory_resource_adapter" "do_allocate") &&
  forallb (fun m => has_call "max_node_size" ["*this"] m && has_if "(bytes<=max)" m &&
                    has_call_in "deallocate_node" ["*this"; "p"; "bytes"; "alignment"] (inside_if "(bytes<=max)" (m_events m)) &&
                    has_call "deallocate_array" ["*this"; "p"; "n"; "max"; "alignment"] m) (mem_of "memory_resource_adapter" "do_deallocate") &&
  exactly_one "memory_resource_adapter" "do_allocate" && exactly_one "memory_resource_adapter" "do_deallocate".

Definition std_allocator_ok : bool :=
  existsb (fun m => seqb (m_name m) "allocate_impl" && has_if "(n==1)" m &&
                    has_call_in "allocate_node" ["sizeof(T)"; "alignof(T)"] (inside_if "(n==1)" (m_events m)) && has_call "allocate_array" ["n"; "sizeof(T)"; "alignof(T)"] m)
          (filter (fun m => seqb (m_class m) "std_allocator") members) &&
  existsb (fun m => seqb (m_name m) "deallocate_impl" && has_if "(n==1)" m &&
                    has_call_in "deallocate_node" ["ptr"; "sizeof(T)"; "alignof(T)"] (inside_if "(n==1)" (m_events m)) && has_call "deallocate_array" ["ptr"; "n"; "sizeof(T)"; "alignof(T)"] m)
          (filter (fun m => seqb (m_class m) "std_allocator") members).

(* ---------- type-erased reference storage (C09): count == 1 is a node, on allocation and on release alike ---------- *)
Definition any_member_ok (n node arr : string) (pre ps : list string) : bool :=
  exactly_one "basic_allocator" n &&
  forallb (fun m => slist_eqb (m_params m) ps && has_if "(count==1)" m &&
     has_call_in node (pre ++ filter (fun p => negb (seqb p "count")) ps) (then_branch "(count==1)" (m_events m)) &&
     has_call_in arr (pre ++ ps) (else_branch "(count==1)" (m_events m)) &&
     Nat.eqb (length (calls_in (then_branch "(count==1)" (m_events m)))) 1 && Nat.eqb (length (calls_in (else_branch "(count==1)" (m_events m)))) 1)
    (mem_of "basic_allocator" n).
Definition any_ok : bool :=
  any_member_ok "allocate_impl" "allocate_node" "allocate_array" ["alloc"] array_params &&
  any_member_ok "deallocate_impl" "deallocate_node" "deallocate_array" ["alloc"] darray_params &&
  any_member_ok "try_allocate_impl" "try_allocate_node" "try_allocate_array" ["{{}}"; "alloc"] array_params &&
  any_member_ok "try_deallocate_impl" "try_deallocate_node" "try_deallocate_array" ["{{}}"; "alloc"] darray_params.

(* ---------- deleters (C09): what was allocated as a node of sizeof(T) / an array of size_ elements is released as exactly that ---------- *)
Definition is_sizeof_value (a : string) : bool := String.prefix "sizeof(" a && (match index 0 "value_type" a with Some _ => true | None => false end).
Definition is_alignof_value (a : string) : bool := String.prefix "alignof(" a && (match index 0 "value_type" a with Some _ => true | None => false end).
Definition dealloc_calls (m : member) : list (string * list string) :=
  filter (fun x => seqb (fst x) "deallocate_node" || seqb (fst x) "deallocate_array") (calls_of m).
Definition single_release (c : string) (ok : string * list string -> bool) : bool :=
  match mem_of c "operator()" with
  | [m] => match dealloc_calls m with [x] => ok x | _ => false end
  | _ => false
  end.
Definition node_by_type (x : string * list string) : bool :=
  seqb (fst x) "deallocate_node" && match snd x with [p; s; a] => seqb p "pointer" && is_sizeof_value s && is_alignof_value a | _ => false end.
Definition array_by_type (x : string * list string) : bool :=
  seqb (fst x) "deallocate_array" && match snd x with [p; n; s; a] => seqb p "pointer" && seqb n "size_" && is_sizeof_value s && is_alignof_value a | _ => false end.
Definition node_by_stored (x : string * list string) : bool :=
  seqb (fst x) "deallocate_node" && match snd x with [p; s; a] => seqb p "pointer" && seqb s "derived_size_" && seqb a "derived_alignment_" | _ => false end.
Definition deleters_ok : bool :=
  single_release "allocator_deallocator" node_by_type && single_release "allocator_deleter" node_by_type &&
  single_release "allocator_deallocator#partial" array_by_type && single_release "allocator_deleter#partial" array_by_type &&
  single_release "allocator_polymorphic_deallocator" node_by_stored && single_release "allocator_polymorphic_deleter" node_by_stored.

Theorem C09_shapes_hold : tracked_ok && aligned_ok && storage_forwards_ok && segregator_ok && resource_adapter_ok && std_allocator_ok && any_ok && deleters_ok = true.
Proof. vm_compute. reflexivity. Qed.
