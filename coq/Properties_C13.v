(* C13 -- thread_safe_allocator serialises all access to the wrapped allocator.  Statements only.
   (1) the lock table: computed on GenShapes.v, which is regenerated from allocator_storage.hpp and
       threading.hpp on every run; (2) the interleaving theorem over Threading.v for any number of threads and
       any schedule.  Assumed, not proved: std::mutex provides mutual exclusion and the atomic steps of the
       model are sequentially consistent. *)
From Coq Require Import String List Bool Arith.
From FM Require Import GenShapes ShapesLib ShapesC13 Threading ThreadingProofs.
Import ListNotations.

(* all eleven forwarding members (throwing, composable and size queries) take the lock before they reach the wrapped
   allocator; nothing else forwards; lock() hands allocator and mutex to a proxy that locks on construction,
   unlocks on destruction iff it still owns, and is emptied by a move *)
Theorem C13_lock_table : lock_table_ok && no_unlisted_forwarder && lock_member_ok && proxy_ok = true.
Proof. exact lock_table_holds. Qed.
Print Assumptions C13_lock_table.

(* any number of threads, any programs made of locking members and lock() proxies with any number of passes, any schedule:
   at most one thread is inside the wrapped allocator and it owns the mutex *)
Theorem C13_mutual_exclusion : forall progs sched, (forall t, all_locked (progs t) = true) ->
  let s := crun (start progs) sched in
  (forall t1 t2, is_inside (threads s t1) = true -> is_inside (threads s t2) = true -> t1 = t2) /\
  (forall t, is_inside (threads s t) = true -> owner s = Some t).
Proof. exact mutual_exclusion. Qed.
Print Assumptions C13_mutual_exclusion.

(* the hypothesis is needed: a single member that forwards without the lock lets two threads overlap *)
Theorem C13_unlocked_member_refuted : exists progs sched t1 t2,
  let s := crun (start progs) sched in
  t1 <> t2 /\ is_inside (threads s t1) = true /\ is_inside (threads s t2) = true.
Proof. exact unlocked_member_refuted. Qed.
Print Assumptions C13_unlocked_member_refuted.

(* what the wrapped allocator sees: the passes through it (thread t enters / thread t leaves) form a serial history under
   every schedule -- an enter is only ever followed by the leave of the same thread.  The wrapped allocator therefore goes
   through a sequential history, which is what the theorems of C01..C07 quantify over ("keeps C01") *)
Theorem C13_wrapped_allocator_sees_serial_history : forall progs sched, (forall t, all_locked (progs t) = true) ->
  serial None (ctrace (start progs) sched).
Proof. exact wrapped_allocator_sees_serial_history. Qed.
Print Assumptions C13_wrapped_allocator_sees_serial_history.

Theorem C13_unlocked_member_not_serial : exists progs sched, ~ serial None (ctrace (start progs) sched).
Proof. exact unlocked_member_not_serial. Qed.
Print Assumptions C13_unlocked_member_not_serial.

Example C13_serial_nonvacuous :
  ctrace (start (fun t => if Nat.ltb t 3 then [BLocked 1; BLocked 2] else [])) [0; 1; 0; 2; 0; 0; 1; 1; 1; 2; 2] = [(0, true); (0, false); (1, true); (1, false)].
Proof. vm_compute. reflexivity. Qed.

Example C13_nonvacuous :
  let s := crun (start (fun t => if Nat.ltb t 3 then [BLocked 1; BLocked 2] else [])) [0; 1; 0; 2; 0; 0; 1; 1] in
  owner s = Some 1 /\ is_inside (threads s 1) = true /\ is_inside (threads s 0) = false.
Proof. vm_compute. repeat split; reflexivity. Qed.
