(* free_memory_list (src/detail/free_list.cpp): Exec model of the singly linked intrusive list.
   The state is the list of free node addresses in link order (first_ first). *)
From Coq Require Import ZArith List Bool Lia Arith.
Import ListNotations.
Local Open Scope Z_scope.

Record ulist := { u_nodes : list Z; u_ns : Z }.

Fixpoint ublock (count : nat) (m step : Z) : list Z :=
  match count with O => [] | S c => m :: ublock c (m + step) step end.

(* insert(mem, size) and deallocate(ptr, n) for n > node size: the block's nodes, ascending, in front of the old list *)
Definition u_insert (l : ulist) (m size : Z) : ulist :=
  {| u_nodes := ublock (Z.to_nat (size / u_ns l)) m (u_ns l) ++ u_nodes l; u_ns := u_ns l |}.

Definition u_dealloc (l : ulist) (m : Z) : ulist := {| u_nodes := m :: u_nodes l; u_ns := u_ns l |}.

Definition u_nodes_for (l : ulist) (bytes : Z) : nat := Z.to_nat ((bytes + u_ns l - 1) / u_ns l).

Definition u_dealloc_array (l : ulist) (m bytes : Z) : ulist :=
  if bytes <=? u_ns l then u_dealloc l m
  else {| u_nodes := ublock (u_nodes_for l bytes) m (u_ns l) ++ u_nodes l; u_ns := u_ns l |}.

Definition u_alloc (l : ulist) : option (Z * ulist) :=
  match u_nodes l with [] => None | x :: tl => Some (x, {| u_nodes := tl; u_ns := u_ns l |}) end.

(* list_search_array: walk the links; a run is a maximal stretch in which each node is followed (in link order) by the node
   directly behind it in memory; the first run of enough nodes is taken from its start *)
Fixpoint link_run (ns : list Z) (step : Z) : nat :=
  match ns with
  | [] => O
  | x :: tl => match tl with
               | y :: _ => if x + step =? y then S (link_run tl step) else 1%nat
               | [] => 1%nat
               end
  end.

Fixpoint u_find (fuel : nat) (ns : list Z) (step : Z) (need : nat) (idx : nat) : option nat :=
  match fuel with
  | O => None
  | S f => match ns with
           | [] => None
           | _ :: _ => let r := link_run ns step in
                       if Nat.leb need r then Some idx else u_find f (skipn r ns) step need (idx + r)%nat
           end
  end.

Definition u_alloc_array (l : ulist) (bytes : Z) : option (Z * ulist) :=
  if bytes <=? u_ns l then u_alloc l
  else
    let need := u_nodes_for l bytes in
    match u_find (S (length (u_nodes l))) (u_nodes l) (u_ns l) need 0%nat with
    | None => None
    | Some i => Some (nth i (u_nodes l) 0, {| u_nodes := firstn i (u_nodes l) ++ skipn (i + need) (u_nodes l); u_ns := u_ns l |})
    end.

Definition u_empty (ns : Z) : ulist := {| u_nodes := []; u_ns := ns |}.
Definition u_capacity (l : ulist) : Z := Z.of_nat (length (u_nodes l)).
