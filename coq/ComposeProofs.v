From Coq Require Import ZArith List Bool Lia ZifyBool.
From FM Require Import Compose.
Import ListNotations.
Local Open Scope Z_scope.
Ltac Zify.zify_post_hook ::= Z.div_mod_to_equations.

(* ---------- C09: no wrapper shrinks a request or lowers its alignment, for every composition ---------- *)
Definition wrapper_ok (w : wrapper) : Prop :=
  match w with WResource max => 0 < max | WStd sT aT => 0 < sT /\ 0 < aT | _ => True end.

(* the raw-allocator wrappers (everything but the two adapters that re-shape the request) keep kind, count and size,
   never lower the alignment; the re-shaping adapters cover at least the bytes asked for *)
Definition reshaping (w : wrapper) : bool := match w with WStd _ _ | WResource _ | WAny | WNodeOnly => true | _ => false end.
Definition adapting (w : wrapper) : bool := match w with WStd _ _ | WResource _ => true | _ => false end.

Lemma through_plain w c : reshaping w = false ->
  lc_kind (through w c) = lc_kind c /\ lc_count (through w c) = lc_count c /\ lc_size (through w c) = lc_size c /\
  lc_align c <= lc_align (through w c).
Proof.
  destruct w; cbn; intros H; try discriminate; repeat split; try lia.
  destruct (Z.gtb_spec min_alignment (lc_align c)); lia.
Qed.

Theorem forward_plain : forall ws c, forallb (fun w => negb (reshaping w)) ws = true ->
  lc_kind (forward ws c) = lc_kind c /\ lc_count (forward ws c) = lc_count c /\ lc_size (forward ws c) = lc_size c /\
  lc_align c <= lc_align (forward ws c).
Proof.
  induction ws as [|w ws IH]; intros c H; cbn in *; [repeat split; lia|].
  apply andb_true_iff in H as [Hw Hws]. apply negb_true_iff in Hw.
  destruct (through_plain w c Hw) as (K & C & S & A).
  destruct (IH (through w c) Hws) as (K' & C' & S' & A'). unfold forward in *. repeat split; try congruence. lia.
Qed.

(* with the type-erased storage in the chain the kind may change (array of one -> node), the bytes and the alignment bound do not *)
Lemma through_bytes w c : adapting w = false -> bytes_of (through w c) = bytes_of c /\ lc_align c <= lc_align (through w c).
Proof.
  destruct w; cbn; intros H; try discriminate; unfold bytes_of; cbn; try (split; lia).
  - destruct (lc_kind c) eqn:K; [rewrite K; split; lia|]. destruct (Z.eqb_spec (lc_count c) 1) as [E|E]; cbn; [rewrite E; split; lia|rewrite K; split; lia].
  - split; [reflexivity|]. destruct (Z.gtb_spec min_alignment (lc_align c)); lia.
  - destruct (lc_kind c) eqn:K; cbn; [rewrite K; split; lia|split; lia].
Qed.

Theorem forward_bytes : forall ws c, forallb (fun w => negb (adapting w)) ws = true ->
  bytes_of (forward ws c) = bytes_of c /\ lc_align c <= lc_align (forward ws c).
Proof.
  induction ws as [|w ws IH]; intros c H; cbn in *; [split; lia|].
  apply andb_true_iff in H as [Hw Hws]. apply negb_true_iff in Hw.
  destruct (through_bytes w c Hw) as (B & A). destruct (IH (through w c) Hws) as (B' & A'). unfold forward in *. split; [congruence|lia].
Qed.

(* memory_resource_adapter: the node or array it asks for covers the bytes requested, at the requested alignment *)
Theorem resource_covers max c : 0 < max -> 0 <= lc_size c ->
  lc_size c <= bytes_of (through (WResource max) c) /\ lc_align (through (WResource max) c) = lc_align c.
Proof.
  intros Hm Hs. cbn. destruct (Z.leb_spec (lc_size c) max); cbn; [split; [lia|reflexivity]|].
  split; [|reflexivity]. unfold bytes_of; cbn. destruct (Z.eqb_spec (lc_size c mod max) 0); nia.
Qed.

(* std_allocator: n objects of T are n * sizeof T bytes at alignof T, as one node (n = 1) or one array *)
Theorem std_covers sT aT c : 1 <= lc_count c ->
  bytes_of (through (WStd sT aT) c) = lc_count c * sT /\ lc_align (through (WStd sT aT) c) = aT.
Proof.
  intros Hn. cbn. destruct (Z.eqb_spec (lc_count c) 1) as [E|E]; cbn; unfold bytes_of; cbn; [rewrite E|]; split; try lia; reflexivity.
Qed.

(* allocators that only define the node functions (memory_resource_allocator): the traits turn an array into one node request
   for count * size bytes at the same alignment; a node request is passed on unchanged *)
Theorem node_only_covers c :
  lc_kind (through WNodeOnly c) = KNode /\ lc_size (through WNodeOnly c) = bytes_of c /\ lc_align (through WNodeOnly c) = lc_align c /\
  lc_leaf (through WNodeOnly c) = lc_leaf c.
Proof. cbn. unfold bytes_of. destruct (lc_kind c) eqn:K; cbn; rewrite ?K; repeat split; reflexivity. Qed.

(* release: forward is a function of the request alone, so the same user request reaches the leaf with the same
   (leaf, kind, count, size, alignment) on allocation and on release *)
Theorem release_matches ws c1 c2 : c1 = c2 -> forward ws c1 = forward ws c2.
Proof. intros ->. reflexivity. Qed.

(* the segregator's decision is a function of (kind, count, size) only *)
Theorem segregator_decision t c c' : lc_kind c = lc_kind c' -> lc_count c = lc_count c' -> lc_size c = lc_size c' ->
  lc_leaf (through (WSegregator t) c) = lc_leaf (through (WSegregator t) c').
Proof. intros K C S. cbn. rewrite K, C, S. reflexivity. Qed.

(* ---------- C08: a fallback tree of any depth releases to the leaf that served ---------- *)
Lemma try_dealloc_in owns t p l : try_dealloc_leaf owns t p = Some l -> In l (leaves t) /\ owns l p = true.
Proof.
  induction t as [id|d IHd f IHf]; cbn.
  - destruct (owns id p) eqn:E; [|discriminate]. intros H. assert (id = l) by congruence. subst l. split; [left; reflexivity|assumption].
  - destruct (try_dealloc_leaf owns d p) as [l'|] eqn:Ed.
    + intros H. assert (l' = l) by congruence. subst l'. destruct (IHd eq_refl) as [H1 H2]. split; [apply in_app_iff; left; assumption|assumption].
    + intros H. destruct (IHf H) as [H1 H2]. split; [apply in_app_iff; right; assumption|assumption].
Qed.

Lemma try_dealloc_finds owns t p l : In l (leaves t) -> owns l p = true -> (forall l', In l' (leaves t) -> owns l' p = true -> l' = l) ->
  try_dealloc_leaf owns t p = Some l.
Proof.
  induction t as [id|d IHd f IHf]; cbn; intros Hin Ho Hu.
  - destruct Hin as [->|[]]. rewrite Ho. reflexivity.
  - apply in_app_iff in Hin. destruct (try_dealloc_leaf owns d p) as [l'|] eqn:Ed.
    + destruct (try_dealloc_in _ _ _ _ Ed) as [H1 H2]. f_equal. apply Hu; [apply in_app_iff; left; assumption|assumption].
    + destruct Hin as [Hin|Hin].
      * exfalso. assert (X : @None nat = Some l).
        { apply IHd; [assumption|assumption|]. intros l' H1 H2. apply Hu; [apply in_app_iff; left; assumption|assumption]. }
        discriminate X.
      * apply IHf; [assumption|assumption|]. intros l' H1 H2. apply Hu; [apply in_app_iff; right; assumption|assumption].
Qed.

(* if p is owned by exactly one leaf of the tree (each leaf recognises exactly its own memory, memories are disjoint),
   then deallocate hands p to that leaf -- whatever the shape and depth of the tree *)
Theorem dealloc_goes_to_owner owns t p l : In l (leaves t) -> owns l p = true ->
  (forall l', In l' (leaves t) -> owns l' p = true -> l' = l) -> dealloc_leaf owns t p = l.
Proof.
  induction t as [id|d IHd f IHf]; cbn; intros Hin Ho Hu.
  - destruct Hin as [->|[]]. reflexivity.
  - apply in_app_iff in Hin. destruct (try_dealloc_leaf owns d p) as [l'|] eqn:Ed.
    + destruct (try_dealloc_in _ _ _ _ Ed) as [H1 H2]. apply Hu; [apply in_app_iff; left; assumption|assumption].
    + destruct Hin as [Hin|Hin].
      * assert (X : try_dealloc_leaf owns d p = Some l).
        { apply try_dealloc_finds; [assumption|assumption|]. intros l' H1 H2. apply Hu; [apply in_app_iff; left; assumption|assumption]. }
        congruence.
      * apply IHf; [assumption|assumption|]. intros l' H1 H2. apply Hu; [apply in_app_iff; right; assumption|assumption].
Qed.

(* the allocation is served by a leaf of the tree; so with the above: served leaf = releasing leaf *)
Theorem alloc_leaf_in can t : In (alloc_leaf can t) (leaves t).
Proof.
  induction t as [id|d IHd f IHf]; cbn; [left; reflexivity|].
  destruct (try_alloc_leaf can d) as [l|] eqn:E; [|apply in_app_iff; right; assumption].
  apply in_app_iff. left. clear -E. revert l E. induction d as [id|d1 IH1 d2 IH2]; cbn; intros l E.
  - destruct (can id); [injection E as <-; left; reflexivity|discriminate].
  - destruct (try_alloc_leaf can d1) as [l1|] eqn:E1; [injection E as <-; apply in_app_iff; left; apply IH1; reflexivity|apply in_app_iff; right; apply IH2; assumption].
Qed.

(* try_deallocate on a tree is true exactly for memory of one of its leaves, and false changes nothing (it is a pure query here) *)
Theorem try_dealloc_iff owns t p : (exists l, try_dealloc_leaf owns t p = Some l) <-> exists l, In l (leaves t) /\ owns l p = true.
Proof.
  split.
  - intros (l & H). exists l. apply (try_dealloc_in _ _ _ _ H).
  - intros (l & Hin & Ho). induction t as [id|d IHd f IHf]; cbn in *.
    + destruct Hin as [->|[]]. rewrite Ho. eauto.
    + apply in_app_iff in Hin. destruct (try_dealloc_leaf owns d p) as [l'|]; [eauto|]. destruct Hin as [Hin|Hin]; [destruct (IHd Hin) as (x & Hx); discriminate|apply IHf; assumption].
Qed.

(* ---------- ownership: an arena recognises exactly the addresses inside its own blocks ---------- *)
Definition ranges_apart (a b : Z * Z) : Prop := fst a + snd a <= fst b \/ fst b + snd b <= fst a.

Theorem owns_iff bs p : owns_blocks bs p = true <-> exists b, In b bs /\ fst b <= p < fst b + snd b.
Proof.
  unfold owns_blocks. rewrite existsb_exists. split; intros (b & Hin & H); exists b; (split; [assumption|]);
  unfold in_usable in *; [apply andb_true_iff in H as [H1 H2]|apply andb_true_iff]; lia.
Qed.

(* memory handed out by a sibling lies inside one of the sibling's blocks (C01 live_slot_inside_held); the blocks of two
   allocators come from the upstream source and never overlap: then no address of a sibling's non-empty allocation is
   owned -- including allocations that begin exactly at the end of an own block or end exactly where one begins *)
Theorem sibling_memory_not_owned mine theirs blk p size :
  (forall a b, In a mine -> In b theirs -> ranges_apart a b) ->
  In blk theirs -> fst blk <= p -> p + size <= fst blk + snd blk -> 0 < size ->
  owns_blocks mine p = false.
Proof.
  intros Hap Hin H1 H2 Hs. destruct (owns_blocks mine p) eqn:E; [|reflexivity].
  apply owns_iff in E as (b & Hb & Hr). destruct (Hap b blk Hb Hin) as [H|H]; lia.
Qed.

(* the one-past-the-end address of an own block is not owned unless another own block starts there *)
Theorem one_past_end_not_owned bs b : In b bs -> 0 <= snd b ->
  (forall c, In c bs -> ranges_apart b c \/ c = b) -> (forall c, In c bs -> fst c <> fst b + snd b \/ snd c = 0) ->
  owns_blocks bs (fst b + snd b) = false.
Proof.
  intros Hin Hs Hap Hne. destruct (owns_blocks bs (fst b + snd b)) eqn:E; [|reflexivity].
  apply owns_iff in E as (c & Hc & Hr). destruct (Hap c Hc) as [[H|H]|Heq]; [lia| |subst c; lia].
  destruct (Hne c Hc) as [H'|H']; lia.
Qed.

(* own memory: every address inside an allocation that lies in a held block is owned *)
Theorem own_memory_owned bs blk p : In blk bs -> fst blk <= p < fst blk + snd blk -> owns_blocks bs p = true.
Proof. intros Hin H. apply owns_iff. exists blk. split; assumption. Qed.

(* served leaf = releasing leaf, for a tree of any shape and depth *)
Theorem release_goes_to_server can owns t p :
  owns (alloc_leaf can t) p = true -> (forall l', In l' (leaves t) -> owns l' p = true -> l' = alloc_leaf can t) ->
  dealloc_leaf owns t p = alloc_leaf can t.
Proof. intros Ho Hu. apply dealloc_goes_to_owner; [apply alloc_leaf_in|assumption|assumption]. Qed.
