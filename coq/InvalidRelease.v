(* C16: the checks on releases that are not list searches: small_free_memory_list::deallocate's three tests,
   the LIFO tests of the static / virtual / fixed block sources.  (The ordered list's double-release test is the
   position search of OrderedList.v; memory_stack::unwind's tests are in Stack.v.) *)
From Coq Require Import ZArith List Bool Lia.
Import ListNotations.
Local Open Scope Z_scope.

(* ---------- small_free_memory_list ---------- *)
(* a chunk: address of its node memory, number of nodes, indices on its free chain (first_free first) *)
Record chunk := { c_mem : Z; c_nodes : Z; c_free : list Z }.
Record slist := { sl_ns : Z; sl_chunks : list chunk; sl_dc : Z }.
(* sl_dc: address of the chunk header dealloc_chunk_ points to (the search splits the chunk list there) *)

Inductive sres := SmOk (l : slist) | SmReported | SmAbort | SmCrash.

Definition c_from (ns : Z) (c : chunk) (p : Z) : bool := (c_mem c <=? p) && (p <? c_mem c + c_nodes c * ns).

Fixpoint put_free (ns p : Z) (cs : list chunk) : list chunk :=
  match cs with
  | [] => []
  | c :: tl => if c_from ns c p then {| c_mem := c_mem c; c_nodes := c_nodes c; c_free := (p - c_mem c) / ns :: c_free c |} :: tl
               else c :: put_free ns p tl
  end.

(* deallocate(mem): chunk ownership, stride, membership (double-free option), then the node goes on its chunk's chain *)
Definition s_dealloc (ptr_check dbl : bool) (l : slist) (p : Z) : sres :=
  match find (fun c => c_from (sl_ns l) c p) (sl_chunks l) with
  | None => if p =? sl_dc l then SmAbort                    (* neither half is chosen: unreachable-code abort *)
            else if ptr_check then SmReported else SmCrash  (* chunk == nullptr is dereferenced *)
  | Some c =>
      let off := p - c_mem c in
      if ptr_check && negb (off mod sl_ns l =? 0) then SmReported
      else if ptr_check && dbl && existsb (Z.eqb (off / sl_ns l)) (c_free c) then SmReported
      else SmOk {| sl_ns := sl_ns l; sl_chunks := put_free (sl_ns l) p (sl_chunks l); sl_dc := c_mem c - 32 |}
  end.

(* ---------- LIFO block sources ---------- *)
(* static_block_allocator: blocks of size bs are carved upwards from base; cur is the next free address *)
Record lifo := { lf_base : Z; lf_cur : Z; lf_bs : Z }.
Inductive lres := LOk (s : lifo) | LReported.
Definition static_dealloc (ptr_check : bool) (s : lifo) (mem size : Z) : lres :=
  if ptr_check && negb (mem + size =? lf_cur s) then LReported
  else LOk {| lf_base := lf_base s; lf_cur := lf_cur s - lf_bs s; lf_bs := lf_bs s |}.
Definition virtual_dealloc (ptr_check : bool) (s : lifo) (mem : Z) : lres :=
  if ptr_check && negb (mem =? lf_cur s - lf_bs s) then LReported
  else LOk {| lf_base := lf_base s; lf_cur := lf_cur s - lf_bs s; lf_bs := lf_bs s |}.
Definition lifo_alloc (s : lifo) : Z * lifo := (lf_cur s, {| lf_base := lf_base s; lf_cur := lf_cur s + lf_bs s; lf_bs := lf_bs s |}).

(* fixed_block_allocator: block_size_ is 0 exactly while its one block is out *)
Definition fixed_dealloc (ptr_check : bool) (block_size_ : Z) (size : Z) : option Z :=
  if ptr_check && negb (block_size_ =? 0) then None (* reported *) else Some size.
