(* The Exec model of memory_pool<node_pool> refines the Spec: for every state related to a Spec state, every node operation
   -- with any upstream answer that is a fresh, aligned block -- is accepted by PoolSpec.acc_op with the events and the
   result the Exec model produces, and the relation holds again afterwards.  Everything proved about accepted Spec
   histories (C01..C04, C18) therefore holds for every history of the Exec pool. *)
From Coq Require Import ZArith NArith List Bool Lia Permutation.
From FM Require Import Wrap GenArith FixedStack SmallCarve PoolSpec SlotProofs ListLib PoolSpecProofs PoolAlignProofs Stack Arena
     UnorderedList UnorderedListProofs UnorderedRefine PoolExec.
Import ListNotations.
Local Open Scope Z_scope.

Definition PR (s : upool) (sp : ast) : Prop :=
  exists l, a_lists sp = [l] /\ Inv sp /\ UR (up_g s) {| us_rs := a_ranges sp; us_l := l |} /\
            a_held sp = ar_used (up_ar s) /\ ar_cache (up_ar s) = [] /\ ar_cached (up_ar s) = false.

(* what the Spec demands of an upstream block (acc_ev, EUp): positive address, larger than the arena header, aligned for
   max_align_t, disjoint from every block held *)
Definition WB (sp : ast) (addr size : Z) : Prop :=
  (0 <? addr) && (hdrZ <? size) && (addr mod maxalZ =? 0) && forallb (r_disj (addr, size)) (a_held sp) = true.

Lemma hdr_eq : hdrZ = hdr /\ hdr = 16 /\ maxalZ = 16.
Proof. repeat split; vm_compute; reflexivity. Qed.

Lemma list_ns_of_UR g rs l : UR g {| us_rs := rs; us_l := l |} -> l = ul (u_ns (ug_l g)) (ug_live g) (u_capacity (ug_l g)).
Proof. intros (_ & Hl & _). exact Hl. Qed.

(* every node the list knows (free or out) lies inside one of the ranges it was given *)
Lemma known_inside g rs l a : UR g {| us_rs := rs; us_l := l |} ->
  In a (ulive_slots (u_ns (ug_l g)) (ug_live g) ++ u_nodes (ug_l g)) ->
  exists r, In (u_ns (ug_l g), r) rs /\ fst r <= a /\ a + u_ns (ug_l g) <= fst r + snd r.
Proof.
  intros (Hinv & Hl & Hnd & Hiff & Hap) Ha. cbn [us_rs us_l] in *. apply Hiff in Ha. unfold uslotb, slot_of in Ha.
  apply existsb_exists in Ha. destruct Ha as [[t r] [Hx Hs]]. cbn [fst snd ul l_ns l_kind] in Hs. apply andb_prop in Hs. destruct Hs as [Ht Hs].
  apply Z.eqb_eq in Ht. subst t. exists r. split; [exact Hx|]. destruct Hinv as [_ Hns]. apply slot_inside_intr; assumption.
Qed.

Lemma single_find l : find_list (l_ns l) [l] = Some l.
Proof. cbn. rewrite Z.eqb_refl. reflexivity. Qed.
Lemma single_set l l' : l_ns l' = l_ns l -> set_list l' [l] = [l'].
Proof. intros E. cbn. rewrite E, Z.eqb_refl. reflexivity. Qed.

(* ---------- releasing a node ---------- *)
Theorem dealloc_node_refines s sp p s' r evs : PR s sp -> up_dealloc_node s p = Some (s', r, evs) ->
  exists sp', acc_op sp (ODealloc (up_ns s) (up_ns s) p) evs r = Some sp' /\ PR s' sp'.
Proof.
  intros (l & Hls & Hinv & Hur & Hheld & Hc & Hcd) Hstep. unfold up_dealloc_node in Hstep.
  destruct (remove_alloc p 1 (ug_live (up_g s))) as [live'|] eqn:E; [|discriminate]. inversion Hstep; subst s' r evs; clear Hstep.
  assert (Hg : ugstep (up_g s) (UDealloc p) = Some ({| ug_l := u_dealloc (ug_l (up_g s)) p; ug_live := live' |}, None)) by (cbn [ugstep]; rewrite E; reflexivity).
  destruct (ustep_refines _ _ _ _ _ Hur Hg) as (u' & Hu & Hur'). cbn [us_step us_l us_rs] in Hu.
  destruct (give_slots l p 1) as [l'|] eqn:G; [|discriminate]. inversion Hu; subst u'; clear Hu.
  pose proof (list_ns_of_UR _ _ _ Hur) as El. assert (Ens : l_ns l = up_ns s) by (rewrite El; reflexivity).
  assert (Ens' : l_ns l' = l_ns l) by (unfold give_slots in G; destruct (remove_alloc p 1 (l_allocs l)); [|discriminate]; inversion G; reflexivity).
  assert (Hacc : acc_op sp (ODealloc (up_ns s) (up_ns s) p) [] ObsTrue = Some (with_list sp l')).
  { unfold acc_op. rewrite Hls, <- Ens, single_find. unfold slots_needed. rewrite Z.leb_refl. rewrite G. reflexivity. }
  pose proof (acc_op_inv _ _ _ _ _ Hinv Hacc) as Hinv'.
  assert (Hw : with_list sp l' = {| a_lists := [l']; a_ranges := a_ranges sp; a_held := a_held sp |}) by (unfold with_list; rewrite Hls, (single_set l l' Ens'); reflexivity).
  rewrite Hw in *. eexists. split; [exact Hacc|].
  exists l'. cbn [a_lists a_ranges a_held up_g up_ar]. split; [reflexivity|]. split; [exact Hinv'|]. split; [exact Hur'|]. split; [exact Hheld|]. split; assumption.
Qed.

(* ---------- try_allocate_node ---------- *)
Theorem try_alloc_node_refines s sp s' r evs : PR s sp -> up_try_alloc_node s = (s', r, evs) ->
  exists sp', acc_op sp (OAlloc true false (up_ns s) (up_ns s)) evs r = Some sp' /\ PR s' sp'.
Proof.
  intros (l & Hls & Hinv & Hur & Hheld & Hc & Hcd) Hstep. unfold up_try_alloc_node in Hstep.
  pose proof (list_ns_of_UR _ _ _ Hur) as El. assert (Ens : l_ns l = up_ns s) by (rewrite El; reflexivity).
  destruct (u_alloc (ug_l (up_g s))) as [[x l1]|] eqn:E; inversion Hstep; subst s' r evs; clear Hstep.
  - assert (Hg : ugstep (up_g s) UAlloc = Some ({| ug_l := l1; ug_live := (x, 1) :: ug_live (up_g s) |}, Some x)) by (cbn [ugstep]; rewrite E; reflexivity).
    destruct (ustep_refines _ _ _ _ _ Hur Hg) as (u' & Hu & Hur'). cbn [us_step us_l us_rs] in Hu.
    destruct (take_slots (a_ranges sp) l x 1) as [l'|] eqn:T; [|discriminate]. inversion Hu; subst u'; clear Hu.
    assert (Ens' : l_ns l' = l_ns l) by (unfold take_slots in T; destruct (_ && _) in T; [|discriminate]; inversion T; reflexivity).
    assert (Hacc : acc_op sp (OAlloc true false (up_ns s) (up_ns s)) [] (ObsOk x) = Some (with_list sp l')).
    { unfold acc_op. rewrite Hls, <- Ens, single_find. cbn [existsb andb orb negb acc_evs]. rewrite andb_false_r. cbn [orb].
      rewrite Hls, single_find. unfold slots_needed. rewrite Z.leb_refl, T. reflexivity. }
    pose proof (acc_op_inv _ _ _ _ _ Hinv Hacc) as Hinv'.
    assert (Hw : with_list sp l' = {| a_lists := [l']; a_ranges := a_ranges sp; a_held := a_held sp |}) by (unfold with_list; rewrite Hls, (single_set l l' Ens'); reflexivity).
    rewrite Hw in *. eexists. split; [exact Hacc|].
    exists l'. cbn [a_lists a_ranges a_held up_g up_ar]. split; [reflexivity|]. split; [exact Hinv'|]. split; [exact Hur'|]. split; [exact Hheld|]. split; assumption.
  - (* refused: the list is empty *)
    assert (Hempty : l_nfree l = 0).
    { rewrite El. cbn [ul l_nfree]. unfold u_alloc in E. unfold u_capacity. destruct (u_nodes (ug_l (up_g s))); [reflexivity|discriminate]. }
    assert (Hacc : acc_op sp (OAlloc true false (up_ns s) (up_ns s)) [] ObsNull = Some sp).
    { unfold acc_op. rewrite Hls, <- Ens, single_find. cbn [existsb andb orb negb acc_evs]. rewrite andb_false_r. cbn [orb]. rewrite Hempty. reflexivity. }
    exists sp. split; [exact Hacc|]. exists l. split; [exact Hls|]. split; [exact Hinv|]. split; [exact Hur|]. split; [exact Hheld|]. split; assumption.
Qed.

(* ---------- allocate_node, with growth ---------- *)
Lemma acc_op_alloc_unfold sp l ns evs x sp1 l1 l' :
  a_lists sp = [l] -> l_ns l = ns -> ((0 <? l_nfree l) && existsb is_grow evs = false) ->
  acc_evs sp evs = Some sp1 -> a_lists sp1 = [l1] -> l_ns l1 = ns -> take_slots (a_ranges sp1) l1 x 1 = Some l' ->
  acc_op sp (OAlloc false false ns ns) evs (ObsOk x) = Some (with_list sp1 l').
Proof.
  intros Hls Ens Hg Hev Hls1 Ens1 T. unfold acc_op. rewrite Hls, <- Ens, single_find. cbn [negb andb orb]. rewrite Hg. cbn [orb].
  rewrite Hev, Hls1. rewrite Ens, <- Ens1, single_find. unfold slots_needed. rewrite Z.leb_refl, T. reflexivity.
Qed.

Theorem alloc_node_refines s sp answer s' r evs : PR s sp -> 0 < up_ns s < 2^64 ->
  (forall addr, answer = Some addr -> WB sp addr (ar_next (up_ar s)) /\ up_ns s <= ar_next (up_ar s) - hdr) ->
  up_alloc_node s answer = (s', r, evs) ->
  exists sp', acc_op sp (OAlloc false false (up_ns s) (up_ns s)) evs r = Some sp' /\ PR s' sp'.
Proof.
  intros (l & Hls & Hinv & Hur & Hheld & Hc & Hcd) Hnsr Hwb Hstep. unfold up_alloc_node in Hstep.
  pose proof (list_ns_of_UR _ _ _ Hur) as El. assert (Ens : l_ns l = up_ns s) by (rewrite El; reflexivity).
  destruct hdr_eq as (Eh & Eh16 & Emax).
  destruct (u_nodes (ug_l (up_g s))) as [|n0 ntl] eqn:En.
  - (* the list is empty: a block is taken from the arena *)
    assert (Hempty : l_nfree l = 0) by (rewrite El; cbn [ul l_nfree]; unfold u_capacity; rewrite En; reflexivity).
    unfold astep in Hstep. rewrite Hc in Hstep.
    destruct (match ar_kind (up_ar s) with AFixed => (ar_next (up_ar s) =? 0) | _ => false end) eqn:Hfix.
    { (* fixed source whose block is out *)
      assert (Hs : (s', r, evs) = ({| up_ar := up_ar s; up_g := up_g s |}, ObsThrow, [])).
      { rewrite <- Hstep. destruct (ar_kind (up_ar s)); try discriminate. rewrite Hfix. reflexivity. }
      inversion Hs; subst s' r evs; clear Hs Hstep.
      assert (Hacc : acc_op sp (OAlloc false false (up_ns s) (up_ns s)) [] ObsThrow = Some sp).
      { unfold acc_op. rewrite Hls, <- Ens, single_find. cbn [existsb andb orb negb acc_evs]. rewrite andb_false_r. reflexivity. }
      exists sp. split; [exact Hacc|]. exists l. cbn [up_ar up_g]. split; [exact Hls|]. split; [exact Hinv|]. split; [exact Hur|]. split; [exact Hheld|]. split; assumption. }
    assert (Hstep' : (s', r, evs) =
      match answer with
      | None => ({| up_ar := up_ar s; up_g := up_g s |}, ObsThrow, [EUpFail])
      | Some x =>
          let b := (x, ar_next (up_ar s)) in
          let a' := ar_set (up_ar s) (b :: ar_used (up_ar s)) [] (match ar_kind (up_ar s) with AGrow => 2 * ar_next (up_ar s) | AFixed => 0 | AConst => ar_next (up_ar s) end) in
          let l1 := u_insert (ug_l (up_g s)) (b_mem b) (b_usable b) in
          let ev2 := [EUp (b_mem b - hdrZ) (b_usable b + hdrZ); EIns (u_ns (ug_l (up_g s))) (b_mem b) (b_usable b)] in
          match u_alloc l1 with
          | Some (x0, l') => ({| up_ar := a'; up_g := {| ug_l := l'; ug_live := (x0, 1) :: ug_live (up_g s) |} |}, ObsOk x0, ev2)
          | None => ({| up_ar := a'; up_g := {| ug_l := l1; ug_live := ug_live (up_g s) |} |}, ObsThrow, ev2)
          end
      end).
    { rewrite <- Hstep. destruct (ar_kind (up_ar s)); try (rewrite Hfix); destruct answer; reflexivity. }
    clear Hstep. destruct answer as [x|].
    + (* the source answered *)
      destruct (Hwb x eq_refl) as [Hw Hroom]. cbv zeta in Hstep'.
      set (nx := ar_next (up_ar s)) in *. set (ns := up_ns s) in *.
      unfold b_mem, b_usable in Hstep'. cbn [fst snd] in Hstep'.
      replace (x + hdr - hdrZ) with x in Hstep' by lia. replace (nx - hdr + hdrZ) with nx in Hstep' by lia.
      set (m := x + hdr) in *. set (sz := nx - hdr) in *.
      (* the Spec accepts the upstream block ... *)
      assert (Hup : acc_ev sp (EUp x nx) = Some {| a_lists := a_lists sp; a_ranges := a_ranges sp; a_held := (x, nx) :: a_held sp |}).
      { cbn [acc_ev]. unfold WB in Hw. rewrite Hw. reflexivity. }
      set (sp1 := {| a_lists := a_lists sp; a_ranges := a_ranges sp; a_held := (x, nx) :: a_held sp |}) in *.
      pose proof (acc_ev_inv _ _ _ Hinv Hup) as Hinv1.
      unfold WB in Hw. apply andb_prop in Hw. destruct Hw as [Hw W4]. apply andb_prop in Hw. destruct Hw as [Hw W3]. apply andb_prop in Hw. destruct Hw as [W1 W2].
      apply Z.ltb_lt in W1. apply Z.ltb_lt in W2. apply Z.eqb_eq in W3. rewrite forallb_forall in W4.
      (* ... the new block is disjoint from every range the list has *)
      assert (Hfresh : forall y, In y (a_ranges sp) -> rng_disj (m, sz) (snd y)).
      { intros y Hy. destruct Hinv as [_ _ _ _ _ Ii]. rewrite Forall_forall in Ii. destruct (Ii y Hy) as (b & Hb & Hin).
        specialize (W4 b Hb). apply r_disj_spec in W4. unfold rng_disj, rng_inside, usable in *. cbn [fst snd] in *. unfold m, sz. lia. }
      (* the list's insert precondition *)
      assert (Hq : 1 <= sz / ns) by (apply Z.div_le_lower_bound; unfold sz, ns in *; lia).
      assert (Hpre : forallb (outside m (sz / ns) ns) (ulive_slots ns (ug_live (up_g s)) ++ u_nodes (ug_l (up_g s))) = true).
      { apply forallb_forall. intros a Ha. destruct (known_inside _ _ _ a Hur Ha) as (rr & Hr & R1 & R2). change (u_ns (ug_l (up_g s))) with ns in Hr, R2.
        specialize (Hfresh (ns, rr) Hr). unfold rng_disj in Hfresh. cbn [fst snd] in Hfresh. unfold outside.
        pose proof (Z.mul_div_le sz ns ltac:(lia)). apply orb_true_intro. destruct Hfresh as [F|F]; [right; apply Z.leb_le; nia|left; apply Z.leb_le; lia]. }
      assert (Hg1 : ugstep (up_g s) (UIns m sz) = Some ({| ug_l := u_insert (ug_l (up_g s)) m sz; ug_live := ug_live (up_g s) |}, None)).
      { cbn [ugstep]. change (u_ns (ug_l (up_g s))) with ns. rewrite Hpre. destruct (Z.leb_spec 0 sz); [reflexivity|unfold sz in *; lia]. }
      destruct (ustep_refines _ _ _ _ _ Hur Hg1) as (u1 & Hu1 & Hur1). cbn [us_step us_l us_rs] in Hu1. inversion Hu1; subst u1; clear Hu1.
      rewrite Ens in Hur1. fold ns in Hur1.
      set (l1 := {| l_kind := l_kind l; l_ns := ns; l_allocs := l_allocs l; l_nfree := l_nfree l + nodes_of (l_kind l) ns (m, sz) |}) in *.
      (* the Spec accepts the range *)
      assert (Hkind : l_kind l = LIntrusive) by (rewrite El; reflexivity).
      assert (Hins : acc_ev sp1 (EIns ns m sz) = Some {| a_lists := [l1]; a_ranges := (ns, (m, sz)) :: a_ranges sp; a_held := (x, nx) :: a_held sp |}).
      { cbn [acc_ev]. unfold sp1 at 1. cbn [a_lists]. rewrite Hls. rewrite <- Ens at 1. rewrite single_find.
        assert (Hn : 0 <? nodes_of (l_kind l) ns (m, sz) = true) by (rewrite Hkind; unfold nodes_of, l_nodes; cbn [snd]; apply Z.ltb_lt; lia).
        assert (Hrok : range_ok sp1 (m, sz) = true).
        { unfold range_ok. cbn [snd fst]. apply andb_true_intro. split; [apply andb_true_intro; split|].
          - apply Z.ltb_lt. unfold sz, ns in *. lia.
          - apply existsb_exists. exists (x, nx). split; [left; reflexivity|]. apply r_inside_spec. unfold rng_inside, usable. cbn [fst snd]. unfold m, sz. lia.
          - apply forallb_forall. intros y Hy. apply r_disj_spec. apply Hfresh. exact Hy. }
        assert (Hal : (m mod (match l_kind l with LIntrusive => al_of ns | LSmall => maxalZ end) =? 0) = true).
        { rewrite Hkind. apply Z.eqb_eq. destruct (al_of_cases ns Hnsr) as [Hcases _]. unfold m. rewrite Eh16.
          assert (x mod 16 = 0) by lia. apply Z.mod_divide in H; [|lia]. destruct H as [q Hq']. 
          destruct Hcases as [->|[->|[->|[->| ->]]]]; apply Z.mod_divide; try lia; [exists (16 * q + 16)|exists (8 * q + 8)|exists (4 * q + 4)|exists (2 * q + 2)|exists (q + 1)]; lia. }
        rewrite Hn, Hrok, Hal. cbn [andb]. unfold sp1. cbn [a_lists a_ranges a_held]. rewrite Hls. fold l1. rewrite (single_set l l1 ltac:(unfold l1; cbn [l_ns]; lia)). reflexivity. }
      set (sp2 := {| a_lists := [l1]; a_ranges := (ns, (m, sz)) :: a_ranges sp; a_held := (x, nx) :: a_held sp |}) in *.
      (* the node that allocate() returns *)
      destruct (u_alloc (u_insert (ug_l (up_g s)) m sz)) as [[x0 l2]|] eqn:Ea.
      2:{ exfalso. unfold u_alloc, u_insert in Ea. cbn [u_nodes u_ns] in Ea. change (u_ns (ug_l (up_g s))) with ns in Ea. destruct (Z.to_nat (sz / ns)) eqn:Eq; [lia|]. cbn [ublock app] in Ea. discriminate. }
      inversion Hstep'; subst s' r evs; clear Hstep'.
      assert (Hg2 : ugstep {| ug_l := u_insert (ug_l (up_g s)) m sz; ug_live := ug_live (up_g s) |} UAlloc = Some ({| ug_l := l2; ug_live := (x0, 1) :: ug_live (up_g s) |}, Some x0)).
      { cbn [ugstep ug_l ug_live]. rewrite Ea. reflexivity. }
      destruct (ustep_refines _ _ _ _ _ Hur1 Hg2) as (u2 & Hu2 & Hur2). cbn [us_step us_l us_rs] in Hu2.
      destruct (take_slots ((ns, (m, sz)) :: a_ranges sp) l1 x0 1) as [l'|] eqn:T; [|discriminate]. inversion Hu2; subst u2; clear Hu2.
      assert (Ens' : l_ns l' = ns) by (unfold take_slots in T; destruct (_ && _) in T; [|discriminate]; inversion T; reflexivity).
      assert (Hevs : acc_evs sp [EUp x nx; EIns ns m sz] = Some sp2) by (cbn [acc_evs]; rewrite Hup, Hins; reflexivity).
      assert (Hacc : acc_op sp (OAlloc false false ns ns) [EUp x nx; EIns ns m sz] (ObsOk x0) = Some (with_list sp2 l')).
      { apply (acc_op_alloc_unfold sp l ns _ x0 sp2 l1 l' Hls Ens); [rewrite Hempty; reflexivity|exact Hevs|reflexivity|reflexivity|exact T]. }
      pose proof (acc_op_inv _ _ _ _ _ Hinv Hacc) as Hinv'.
      assert (Hw : with_list sp2 l' = {| a_lists := [l']; a_ranges := (ns, (m, sz)) :: a_ranges sp; a_held := (x, nx) :: a_held sp |}).
      { unfold with_list, sp2. cbn [a_lists a_ranges a_held]. rewrite (single_set l1 l' ltac:(rewrite Ens'; reflexivity)). reflexivity. }
      rewrite Hw in *. fold ns. eexists. split; [exact Hacc|].
      exists l'. cbn [a_lists a_ranges a_held up_g up_ar ar_set ar_used ar_cache ar_cached]. split; [reflexivity|]. split; [exact Hinv'|]. split; [exact Hur2|].
      split; [rewrite Hheld; reflexivity|]. split; [reflexivity|exact Hcd].
    + (* the source failed *)
      inversion Hstep'; subst s' r evs; clear Hstep'.
      assert (Hacc : acc_op sp (OAlloc false false (up_ns s) (up_ns s)) [EUpFail] ObsThrow = Some sp).
      { unfold acc_op. rewrite Hls, <- Ens, single_find. rewrite Hempty. cbn [existsb andb orb negb acc_evs acc_ev Z.ltb Z.compare is_up]. reflexivity. }
      exists sp. split; [exact Hacc|]. exists l. cbn [up_ar up_g]. split; [exact Hls|]. split; [exact Hinv|]. split; [exact Hur|]. split; [exact Hheld|]. split; assumption.
  - (* the list has a node *)
    destruct (u_alloc (ug_l (up_g s))) as [[x l1]|] eqn:E.
    2:{ exfalso. unfold u_alloc in E. rewrite En in E. discriminate. }
    inversion Hstep; subst s' r evs; clear Hstep.
    assert (Hg : ugstep (up_g s) UAlloc = Some ({| ug_l := l1; ug_live := (x, 1) :: ug_live (up_g s) |}, Some x)) by (cbn [ugstep]; rewrite E; reflexivity).
    destruct (ustep_refines _ _ _ _ _ Hur Hg) as (u' & Hu & Hur'). cbn [us_step us_l us_rs] in Hu.
    destruct (take_slots (a_ranges sp) l x 1) as [l'|] eqn:T; [|discriminate]. inversion Hu; subst u'; clear Hu.
    assert (Ens' : l_ns l' = l_ns l) by (unfold take_slots in T; destruct (_ && _) in T; [|discriminate]; inversion T; reflexivity).
    assert (Hacc : acc_op sp (OAlloc false false (up_ns s) (up_ns s)) [] (ObsOk x) = Some (with_list sp l')).
    { apply (acc_op_alloc_unfold sp l (up_ns s) [] x sp l l' Hls Ens); [cbn [existsb]; apply andb_false_r|reflexivity|exact Hls|exact Ens|exact T]. }
    pose proof (acc_op_inv _ _ _ _ _ Hinv Hacc) as Hinv'.
    assert (Hw : with_list sp l' = {| a_lists := [l']; a_ranges := a_ranges sp; a_held := a_held sp |}) by (unfold with_list; rewrite Hls, (single_set l l' Ens'); reflexivity).
    rewrite Hw in *. eexists. split; [exact Hacc|].
    exists l'. cbn [a_lists a_ranges a_held up_g up_ar]. split; [reflexivity|]. split; [exact Hinv'|]. split; [exact Hur'|]. split; [exact Hheld|]. split; assumption.
Qed.

Lemma init_PR k ns bs : 0 < ns -> PR (up_init k ns bs) (mk_ast [ul ns [] 0]).
Proof.
  intros Hns. exists (ul ns [] 0). cbn [mk_ast a_lists a_ranges a_held up_init up_ar up_g ar_init ar_used ar_cache ar_cached].
  split; [reflexivity|]. split.
  - apply init_inv; [cbn; constructor; [intros []|constructor]|]. constructor; [|constructor]. cbn. repeat split; lia.
  - split; [apply uempty_R; exact Hns|]. repeat split.
Qed.


(* ---------- growth on its own, the constructor, the array operations ---------- *)
Theorem grow_refines s sp answer s1 ok evs : PR s sp -> 0 < up_ns s < 2^64 ->
  (forall addr, answer = Some addr -> WB sp addr (ar_next (up_ar s)) /\ up_ns s <= ar_next (up_ar s) - hdr) ->
  up_grow s answer = (s1, ok, evs) ->
  exists sp1, acc_evs sp evs = Some sp1 /\ PR s1 sp1 /\ up_ns s1 = up_ns s /\
              (ok = true -> u_nodes (ug_l (up_g s1)) <> [] /\ existsb is_up evs = true) /\ (ok = false -> s1 = s /\ sp1 = sp) /\
              (answer = None -> forallb (fun e => match e with EUp _ _ => false | _ => true end) evs = true).
Proof.
  intros (l & Hls & Hinv & Hur & Hheld & Hc & Hcd) Hnsr Hwb Hstep. unfold up_grow in Hstep.
  pose proof (list_ns_of_UR _ _ _ Hur) as El. assert (Ens : l_ns l = up_ns s) by (rewrite El; reflexivity).
  destruct hdr_eq as (Eh & Eh16 & Emax).
  unfold astep in Hstep. rewrite Hc in Hstep.
  destruct (match ar_kind (up_ar s) with AFixed => (ar_next (up_ar s) =? 0) | _ => false end) eqn:Hfix.
  { assert (Hs : (s1, ok, evs) = ({| up_ar := up_ar s; up_g := up_g s |}, false, [])).
    { rewrite <- Hstep. destruct (ar_kind (up_ar s)); try discriminate. rewrite Hfix. reflexivity. }
    inversion Hs; subst s1 ok evs; clear Hs Hstep. exists sp. cbn [acc_evs]. split; [reflexivity|].
    assert (Es : {| up_ar := up_ar s; up_g := up_g s |} = s) by (destruct s; reflexivity). rewrite Es.
    split; [exists l; split; [exact Hls|]; split; [exact Hinv|]; split; [exact Hur|]; split; [exact Hheld|]; split; assumption|].
    split; [reflexivity|]. split; [discriminate|]. split; [intros _; split; reflexivity|reflexivity]. }
  assert (Hstep' : (s1, ok, evs) =
    match answer with
    | None => ({| up_ar := up_ar s; up_g := up_g s |}, false, [EUpFail])
    | Some x =>
        let b := (x, ar_next (up_ar s)) in
        let a' := ar_set (up_ar s) (b :: ar_used (up_ar s)) [] (match ar_kind (up_ar s) with AGrow => 2 * ar_next (up_ar s) | AFixed => 0 | AConst => ar_next (up_ar s) end) in
        ({| up_ar := a'; up_g := {| ug_l := u_insert (ug_l (up_g s)) (b_mem b) (b_usable b); ug_live := ug_live (up_g s) |} |}, true,
         [EUp (b_mem b - hdrZ) (b_usable b + hdrZ); EIns (up_ns s) (b_mem b) (b_usable b)])
    end).
  { rewrite <- Hstep. destruct (ar_kind (up_ar s)); try (rewrite Hfix); destruct answer; reflexivity. }
  clear Hstep. destruct answer as [x|].
  - destruct (Hwb x eq_refl) as [Hw Hroom]. cbv zeta in Hstep'.
    set (nx := ar_next (up_ar s)) in *. set (ns := up_ns s) in *.
    unfold b_mem, b_usable in Hstep'. cbn [fst snd] in Hstep'.
    replace (x + hdr - hdrZ) with x in Hstep' by lia. replace (nx - hdr + hdrZ) with nx in Hstep' by lia.
    set (m := x + hdr) in *. set (sz := nx - hdr) in *. inversion Hstep'; subst s1 ok evs; clear Hstep'.
    assert (Hup : acc_ev sp (EUp x nx) = Some {| a_lists := a_lists sp; a_ranges := a_ranges sp; a_held := (x, nx) :: a_held sp |}).
    { cbn [acc_ev]. unfold WB in Hw. rewrite Hw. reflexivity. }
    set (sp1 := {| a_lists := a_lists sp; a_ranges := a_ranges sp; a_held := (x, nx) :: a_held sp |}) in *.
    unfold WB in Hw. apply andb_prop in Hw. destruct Hw as [Hw W4]. apply andb_prop in Hw. destruct Hw as [Hw W3]. apply andb_prop in Hw. destruct Hw as [W1 W2].
    apply Z.ltb_lt in W1. apply Z.ltb_lt in W2. apply Z.eqb_eq in W3. rewrite forallb_forall in W4.
    assert (Hfresh : forall y, In y (a_ranges sp) -> rng_disj (m, sz) (snd y)).
    { intros y Hy. destruct Hinv as [_ _ _ _ _ Ii]. rewrite Forall_forall in Ii. destruct (Ii y Hy) as (b & Hb & Hin).
      specialize (W4 b Hb). apply r_disj_spec in W4. unfold rng_disj, rng_inside, usable in *. cbn [fst snd] in *. unfold m, sz. lia. }
    assert (Hq : 1 <= sz / ns) by (apply Z.div_le_lower_bound; unfold sz, ns in *; lia).
    assert (Hpre : forallb (outside m (sz / ns) ns) (ulive_slots ns (ug_live (up_g s)) ++ u_nodes (ug_l (up_g s))) = true).
    { apply forallb_forall. intros a Ha. destruct (known_inside _ _ _ a Hur Ha) as (rr & Hr & R1 & R2). change (u_ns (ug_l (up_g s))) with ns in Hr, R2.
      specialize (Hfresh (ns, rr) Hr). unfold rng_disj in Hfresh. cbn [fst snd] in Hfresh. unfold outside.
      pose proof (Z.mul_div_le sz ns ltac:(lia)). apply orb_true_intro. destruct Hfresh as [F|F]; [right; apply Z.leb_le; nia|left; apply Z.leb_le; lia]. }
    assert (Hg1 : ugstep (up_g s) (UIns m sz) = Some ({| ug_l := u_insert (ug_l (up_g s)) m sz; ug_live := ug_live (up_g s) |}, None)).
    { cbn [ugstep]. change (u_ns (ug_l (up_g s))) with ns. rewrite Hpre. destruct (Z.leb_spec 0 sz); [reflexivity|unfold sz in *; lia]. }
    destruct (ustep_refines _ _ _ _ _ Hur Hg1) as (u1 & Hu1 & Hur1). cbn [us_step us_l us_rs] in Hu1. inversion Hu1; subst u1; clear Hu1.
    rewrite Ens in Hur1. fold ns in Hur1.
    set (l1 := {| l_kind := l_kind l; l_ns := ns; l_allocs := l_allocs l; l_nfree := l_nfree l + nodes_of (l_kind l) ns (m, sz) |}) in *.
    assert (Hkind : l_kind l = LIntrusive) by (rewrite El; reflexivity).
    assert (Hins : acc_ev sp1 (EIns ns m sz) = Some {| a_lists := [l1]; a_ranges := (ns, (m, sz)) :: a_ranges sp; a_held := (x, nx) :: a_held sp |}).
    { cbn [acc_ev]. unfold sp1 at 1. cbn [a_lists]. rewrite Hls. rewrite <- Ens at 1. rewrite single_find.
      assert (Hn : 0 <? nodes_of (l_kind l) ns (m, sz) = true) by (rewrite Hkind; unfold nodes_of, l_nodes; cbn [snd]; apply Z.ltb_lt; lia).
      assert (Hrok : range_ok sp1 (m, sz) = true).
      { unfold range_ok. cbn [snd fst]. apply andb_true_intro. split; [apply andb_true_intro; split|].
        - apply Z.ltb_lt. unfold sz, ns in *. lia.
        - apply existsb_exists. exists (x, nx). split; [left; reflexivity|]. apply r_inside_spec. unfold rng_inside, usable. cbn [fst snd]. unfold m, sz. lia.
        - apply forallb_forall. intros y Hy. apply r_disj_spec. apply Hfresh. exact Hy. }
      assert (Hal : (m mod (match l_kind l with LIntrusive => al_of ns | LSmall => maxalZ end) =? 0) = true).
      { rewrite Hkind. apply Z.eqb_eq. destruct (al_of_cases ns Hnsr) as [Hcases _]. unfold m. rewrite Eh16.
        assert (x mod 16 = 0) by lia. apply Z.mod_divide in H; [|lia]. destruct H as [q Hq'].
        destruct Hcases as [->|[->|[->|[->| ->]]]]; apply Z.mod_divide; try lia; [exists (16 * q + 16)|exists (8 * q + 8)|exists (4 * q + 4)|exists (2 * q + 2)|exists (q + 1)]; lia. }
      rewrite Hn, Hrok, Hal. cbn [andb]. unfold sp1. cbn [a_lists a_ranges a_held]. rewrite Hls. fold l1. rewrite (single_set l l1 ltac:(unfold l1; cbn [l_ns]; lia)). reflexivity. }
    set (sp2 := {| a_lists := [l1]; a_ranges := (ns, (m, sz)) :: a_ranges sp; a_held := (x, nx) :: a_held sp |}) in *.
    assert (Hevs : acc_evs sp [EUp x nx; EIns ns m sz] = Some sp2) by (cbn [acc_evs]; rewrite Hup, Hins; reflexivity).
    exists sp2. split; [exact Hevs|]. split.
    { exists l1. pose proof (acc_evs_inv _ _ _ Hinv Hevs) as Hinv2. unfold sp2 in *. cbn [a_lists a_ranges a_held up_g up_ar ar_set ar_used ar_cache ar_cached]. split; [reflexivity|]. split; [exact Hinv2|]. split; [exact Hur1|].
      split; [rewrite Hheld; reflexivity|]. split; [reflexivity|exact Hcd]. }
    split; [reflexivity|]. split; [intros _; split; [|reflexivity]|split; [discriminate|discriminate]].
    cbn [up_g ug_l u_insert u_nodes]. change (u_ns (ug_l (up_g s))) with ns. destruct (Z.to_nat (sz / ns)) eqn:Eq; [lia|]. cbn [ublock app]. discriminate.
  - inversion Hstep'; subst s1 ok evs; clear Hstep'. exists sp. split; [reflexivity|].
    assert (Es : {| up_ar := up_ar s; up_g := up_g s |} = s) by (destruct s; reflexivity). rewrite Es.
    split; [exists l; split; [exact Hls|]; split; [exact Hinv|]; split; [exact Hur|]; split; [exact Hheld|]; split; assumption|].
    split; [reflexivity|]. split; [discriminate|]. split; [intros _; split; reflexivity|reflexivity].
Qed.

Lemma acc_op_array_unfold sp l ns try_ bytes evs x sp1 l1 l' :
  a_lists sp = [l] -> l_ns l = ns -> (try_ && existsb is_up evs = false) ->
  acc_evs sp evs = Some sp1 -> a_lists sp1 = [l1] -> l_ns l1 = ns -> take_slots (a_ranges sp1) l1 x (slots_needed ns bytes) = Some l' ->
  acc_op sp (OAlloc try_ true ns bytes) evs (ObsOk x) = Some (with_list sp1 l').
Proof.
  intros Hls Ens Hg Hev Hls1 Ens1 T. unfold acc_op. rewrite Hls, <- Ens, single_find. cbn [negb andb orb]. rewrite Hg.
  rewrite Hev, Hls1. rewrite Ens, <- Ens1, single_find. rewrite Ens1, T. reflexivity.
Qed.

(* taking an array (or, for a request of at most one node, a node) from the list *)
Lemma take_array_refines s sp bytes s' x : PR s sp -> up_take_array s bytes = Some (s', x) ->
  exists l l', a_lists sp = [l] /\ l_ns l = up_ns s /\ take_slots (a_ranges sp) l x (slots_needed (up_ns s) bytes) = Some l' /\
               PR s' {| a_lists := [l']; a_ranges := a_ranges sp; a_held := a_held sp |} /\ up_ns s' = up_ns s.
Proof.
  intros (l & Hls & Hinv & Hur & Hheld & Hc & Hcd) Hstep. unfold up_take_array in Hstep.
  pose proof (list_ns_of_UR _ _ _ Hur) as El. assert (Ens : l_ns l = up_ns s) by (rewrite El; reflexivity).
  pose proof Hur as (Huinv & _). destruct Huinv as [_ Hns].
  destruct (u_nodes (ug_l (up_g s))) as [|n0 ntl] eqn:En; [discriminate|].
  destruct (u_alloc_array (ug_l (up_g s)) bytes) as [[x0 l2]|] eqn:Ea; [|discriminate]. inversion Hstep; subst s' x0; clear Hstep.
  assert (Hfin : forall k, ugstep (up_g s) k = Some ({| ug_l := l2; ug_live := (x, slots_needed (u_ns (ug_l (up_g s))) bytes) :: ug_live (up_g s) |}, Some x) ->
                 us_step {| us_rs := a_ranges sp; us_l := l |} k (Some x) =
                   match take_slots (a_ranges sp) l x (slots_needed (up_ns s) bytes) with Some l' => Some {| us_rs := a_ranges sp; us_l := l' |} | None => None end ->
                 exists l0 l', a_lists sp = [l0] /\ l_ns l0 = up_ns s /\ take_slots (a_ranges sp) l0 x (slots_needed (up_ns s) bytes) = Some l' /\
                   PR {| up_ar := up_ar s; up_g := {| ug_l := l2; ug_live := (x, slots_needed (u_ns (ug_l (up_g s))) bytes) :: ug_live (up_g s) |} |}
                      {| a_lists := [l']; a_ranges := a_ranges sp; a_held := a_held sp |} /\
                   up_ns {| up_ar := up_ar s; up_g := {| ug_l := l2; ug_live := (x, slots_needed (u_ns (ug_l (up_g s))) bytes) :: ug_live (up_g s) |} |} = up_ns s).
  { intros k Hk Hus. destruct (ustep_refines _ _ _ _ _ Hur Hk) as (u' & Hu & Hur'). rewrite Hus in Hu.
    destruct (take_slots (a_ranges sp) l x (slots_needed (up_ns s) bytes)) as [l'|] eqn:T; [|discriminate]. inversion Hu; subst u'; clear Hu.
    exists l, l'. split; [exact Hls|]. split; [exact Ens|]. split; [exact T|].
    assert (Ens' : l_ns l' = l_ns l) by (unfold take_slots in T; destruct (_ && _) in T; [|discriminate]; inversion T; reflexivity).
    assert (Hacc : acc_op sp (OAlloc false true (up_ns s) bytes) [] (ObsOk x) = Some (with_list sp l')).
    { apply (acc_op_array_unfold sp l (up_ns s) false bytes [] x sp l l' Hls Ens); [reflexivity|reflexivity|exact Hls|exact Ens|exact T]. }
    pose proof (acc_op_inv _ _ _ _ _ Hinv Hacc) as Hinv'.
    assert (Hw : with_list sp l' = {| a_lists := [l']; a_ranges := a_ranges sp; a_held := a_held sp |}) by (unfold with_list; rewrite Hls, (single_set l l' Ens'); reflexivity).
    rewrite Hw in Hinv'. split.
    - exists l'. cbn [a_lists a_ranges a_held up_g up_ar]. split; [reflexivity|]. split; [exact Hinv'|]. split; [exact Hur'|]. split; [exact Hheld|]. split; assumption.
    - destruct Hur' as ((_ & _) & Hl' & _). cbn [us_l ug_l] in Hl'. unfold up_ns. cbn [up_g ug_l].
      assert (E1 : l_ns l' = u_ns l2) by (rewrite Hl'; reflexivity). rewrite <- E1, Ens', Ens. reflexivity. }
  destruct (Z.leb_spec bytes (u_ns (ug_l (up_g s)))) as [Hb|Hb].
  - apply (Hfin UAlloc).
    + unfold u_alloc_array in Ea. destruct (Z.leb_spec bytes (u_ns (ug_l (up_g s)))); [|lia].
      cbn [ugstep]. rewrite Ea. unfold slots_needed. destruct (Z.leb_spec bytes (u_ns (ug_l (up_g s)))); [reflexivity|lia].
    + cbn [us_step us_l us_rs]. unfold slots_needed, up_ns. destruct (Z.leb_spec bytes (u_ns (ug_l (up_g s)))); [reflexivity|lia].
  - apply (Hfin (UAllocArr bytes)).
    + cbn [ugstep]. destruct (Z.ltb_spec (u_ns (ug_l (up_g s))) bytes); [|lia]. rewrite Ea.
      destruct (nodes_for_slots (ug_l (up_g s)) bytes Hns Hb) as [Hsn _]. rewrite Hsn. reflexivity.
    + cbn [us_step us_l us_rs]. rewrite Ens. reflexivity.
Qed.

Lemma take_none_keeps s bytes : up_take_array s bytes = None -> True.
Proof. trivial. Qed.

Theorem try_alloc_array_refines s sp bytes s' r evs : PR s sp -> up_try_alloc_array s bytes = (s', r, evs) ->
  exists sp', acc_op sp (OAlloc true true (up_ns s) bytes) evs r = Some sp' /\ PR s' sp'.
Proof.
  intros Hpr Hstep. unfold up_try_alloc_array in Hstep. destruct (up_take_array s bytes) as [[s1 x]|] eqn:E; inversion Hstep; subst s' r evs; clear Hstep.
  - destruct (take_array_refines s sp bytes s1 x Hpr E) as (l & l' & Hls & Ens & T & Hpr' & _).
    assert (Ens' : l_ns l' = l_ns l) by (unfold take_slots in T; destruct (_ && _) in T; [|discriminate]; inversion T; reflexivity).
    assert (Hw : with_list sp l' = {| a_lists := [l']; a_ranges := a_ranges sp; a_held := a_held sp |}) by (unfold with_list; rewrite Hls, (single_set l l' Ens'); reflexivity).
    eexists. split; [|exact Hpr']. rewrite <- Hw.
    apply (acc_op_array_unfold sp l (up_ns s) true bytes [] x sp l l' Hls Ens); [reflexivity|reflexivity|exact Hls|exact Ens|exact T].
  - destruct Hpr as (l & Hls & Hrest). pose proof Hrest as (_ & Hur & _). pose proof (list_ns_of_UR _ _ _ Hur) as El.
    assert (Ens : l_ns l = up_ns s) by (rewrite El; reflexivity).
    exists sp. split; [|exists l; split; [exact Hls|exact Hrest]].
    unfold acc_op. rewrite Hls, <- Ens, single_find. cbn [negb andb orb existsb acc_evs]. reflexivity.
Qed.

Theorem alloc_array_refines s sp bytes answer s' r evs : PR s sp -> 0 < up_ns s < 2^64 ->
  (forall addr, answer = Some addr -> WB sp addr (ar_next (up_ar s)) /\ up_ns s <= ar_next (up_ar s) - hdr) ->
  up_alloc_array s bytes answer = (s', r, evs) ->
  exists sp', acc_op sp (OAlloc false true (up_ns s) bytes) evs r = Some sp' /\ PR s' sp'.
Proof.
  intros Hpr Hnsr Hwb Hstep. unfold up_alloc_array in Hstep.
  destruct (up_take_array s bytes) as [[s1 x]|] eqn:E.
  - inversion Hstep; subst s' r evs; clear Hstep.
    destruct (take_array_refines s sp bytes s1 x Hpr E) as (l & l' & Hls & Ens & T & Hpr' & _).
    assert (Ens' : l_ns l' = l_ns l) by (unfold take_slots in T; destruct (_ && _) in T; [|discriminate]; inversion T; reflexivity).
    assert (Hw : with_list sp l' = {| a_lists := [l']; a_ranges := a_ranges sp; a_held := a_held sp |}) by (unfold with_list; rewrite Hls, (single_set l l' Ens'); reflexivity).
    eexists. split; [|exact Hpr']. rewrite <- Hw.
    apply (acc_op_array_unfold sp l (up_ns s) false bytes [] x sp l l' Hls Ens); [reflexivity|reflexivity|exact Hls|exact Ens|exact T].
  - destruct (up_grow s answer) as [[s1 ok] evs1] eqn:G.
    destruct (grow_refines s sp answer s1 ok evs1 Hpr Hnsr Hwb G) as (sp1 & Hevs & Hpr1 & Ens1 & _).
    pose proof Hpr as (l & Hls & _ & Hur & _). pose proof (list_ns_of_UR _ _ _ Hur) as El. assert (Ens : l_ns l = up_ns s) by (rewrite El; reflexivity).
    assert (Hthrow : acc_op sp (OAlloc false true (up_ns s) bytes) evs1 ObsThrow = Some sp1).
    { unfold acc_op. rewrite Hls, <- Ens, single_find. cbn [negb andb orb]. rewrite Hevs. reflexivity. }
    destruct ok.
    + destruct (up_take_array s1 bytes) as [[s2 x]|] eqn:E2; inversion Hstep; subst s' r evs; clear Hstep.
      * destruct (take_array_refines s1 sp1 bytes s2 x Hpr1 E2) as (l1 & l' & Hls1 & Ens1' & T & Hpr' & _). rewrite Ens1 in *.
        assert (Ens' : l_ns l' = l_ns l1) by (unfold take_slots in T; destruct (_ && _) in T; [|discriminate]; inversion T; reflexivity).
        assert (Hw : with_list sp1 l' = {| a_lists := [l']; a_ranges := a_ranges sp1; a_held := a_held sp1 |}) by (unfold with_list; rewrite Hls1, (single_set l1 l' Ens'); reflexivity).
        eexists. split; [|exact Hpr']. rewrite <- Hw.
        apply (acc_op_array_unfold sp l (up_ns s) false bytes evs1 x sp1 l1 l' Hls Ens); [reflexivity|exact Hevs|exact Hls1|exact Ens1'|exact T].
      * exists sp1. split; [exact Hthrow|exact Hpr1].
    + inversion Hstep; subst s' r evs; clear Hstep. exists sp1. split; [exact Hthrow|exact Hpr1].
Qed.

Theorem dealloc_array_refines s sp p bytes s' r evs : PR s sp -> up_dealloc_array s p bytes = Some (s', r, evs) ->
  exists sp', acc_op sp (ODealloc (up_ns s) bytes p) evs r = Some sp' /\ PR s' sp'.
Proof.
  intros (l & Hls & Hinv & Hur & Hheld & Hc & Hcd) Hstep. unfold up_dealloc_array in Hstep.
  pose proof (list_ns_of_UR _ _ _ Hur) as El. assert (Ens : l_ns l = up_ns s) by (rewrite El; reflexivity).
  pose proof Hur as (Huinv & _). destruct Huinv as [_ Hns].
  destruct (remove_alloc p (slots_needed (u_ns (ug_l (up_g s))) bytes) (ug_live (up_g s))) as [live'|] eqn:E; [|discriminate]. inversion Hstep; subst s' r evs; clear Hstep.
  assert (Hk : exists k, ugstep (up_g s) k = Some ({| ug_l := u_dealloc_array (ug_l (up_g s)) p bytes; ug_live := live' |}, None) /\
                         us_step {| us_rs := a_ranges sp; us_l := l |} k None =
                           match give_slots l p (slots_needed (up_ns s) bytes) with Some l' => Some {| us_rs := a_ranges sp; us_l := l' |} | None => None end).
  { destruct (Z.leb_spec bytes (u_ns (ug_l (up_g s)))) as [Hb|Hb].
    - exists (UDealloc p). unfold slots_needed in E. destruct (Z.leb_spec bytes (u_ns (ug_l (up_g s)))); [|lia]. split.
      + cbn [ugstep]. rewrite E. unfold u_dealloc_array. destruct (Z.leb_spec bytes (u_ns (ug_l (up_g s)))); [reflexivity|lia].
      + cbn [us_step us_l us_rs]. unfold slots_needed, up_ns. destruct (Z.leb_spec bytes (u_ns (ug_l (up_g s)))); [reflexivity|lia].
    - exists (UDeallocArr p bytes). destruct (nodes_for_slots (ug_l (up_g s)) bytes Hns Hb) as [Hsn _]. split.
      + cbn [ugstep]. destruct (Z.ltb_spec (u_ns (ug_l (up_g s))) bytes); [|lia]. rewrite <- Hsn, E. reflexivity.
      + cbn [us_step us_l us_rs]. rewrite Ens. reflexivity. }
  destruct Hk as (k & Hk & Hus). destruct (ustep_refines _ _ _ _ _ Hur Hk) as (u' & Hu & Hur'). rewrite Hus in Hu.
  destruct (give_slots l p (slots_needed (up_ns s) bytes)) as [l'|] eqn:G; [|discriminate]. inversion Hu; subst u'; clear Hu.
  assert (Ens' : l_ns l' = l_ns l) by (unfold give_slots in G; destruct (remove_alloc p _ (l_allocs l)); [|discriminate]; inversion G; reflexivity).
  assert (Hacc : acc_op sp (ODealloc (up_ns s) bytes p) [] ObsTrue = Some (with_list sp l')).
  { unfold acc_op. rewrite Hls, <- Ens, single_find. rewrite Ens, G. reflexivity. }
  pose proof (acc_op_inv _ _ _ _ _ Hinv Hacc) as Hinv'.
  assert (Hw : with_list sp l' = {| a_lists := [l']; a_ranges := a_ranges sp; a_held := a_held sp |}) by (unfold with_list; rewrite Hls, (single_set l l' Ens'); reflexivity).
  rewrite Hw in *. eexists. split; [exact Hacc|].
  exists l'. cbn [a_lists a_ranges a_held up_g up_ar]. split; [reflexivity|]. split; [exact Hinv'|]. split; [exact Hur'|]. split; [exact Hheld|]. split; assumption.
Qed.

(* the constructor: the first block goes to the list before anything is asked for *)
Theorem construct_refines k ns bs answer s ok evs : 0 < ns < 2^64 ->
  (forall addr, answer = Some addr -> WB (mk_ast [ul ns [] 0]) addr bs /\ ns <= bs - hdr) ->
  up_construct k ns bs answer = (s, ok, evs) ->
  exists sp, acc_evs (mk_ast [ul ns [] 0]) evs = Some sp /\ PR s sp.
Proof.
  intros Hns Hwb Hc. unfold up_construct in Hc.
  destruct (grow_refines (up_init k ns bs) (mk_ast [ul ns [] 0]) answer s ok evs (init_PR k ns bs ltac:(lia)) Hns Hwb Hc) as (sp & Hev & Hpr & _).
  exists sp. split; assumption.
Qed.

(* ---------- histories ---------- *)
Definition pool_answer_ok (s : upool) (sp : ast) (o : pool_op) : Prop :=
  match answer_of_op o with Some addr => WB sp addr (ar_next (up_ar s)) /\ up_ns s <= ar_next (up_ar s) - hdr | None => True end.

Theorem step_refines_pool s sp o s' r evs : PR s sp -> 0 < up_ns s < 2^64 -> pool_answer_ok s sp o ->
  up_step s o = Some (s', r, evs) -> exists sp', acc_op sp (spec_op_of (up_ns s) o) evs r = Some sp' /\ PR s' sp'.
Proof.
  intros Hpr Hns Hok Hstep. unfold pool_answer_ok in Hok. destruct o as [answer| |p|bytes answer|bytes|p bytes]; cbn [up_step spec_op_of answer_of_op] in *.
  - inversion Hstep as [H1]. apply (alloc_node_refines s sp answer s' r evs Hpr Hns); [|exact H1]. intros addr ->. exact Hok.
  - inversion Hstep as [H1]. apply (try_alloc_node_refines s sp s' r evs Hpr H1).
  - apply (dealloc_node_refines s sp p s' r evs Hpr Hstep).
  - inversion Hstep as [H1]. apply (alloc_array_refines s sp bytes answer s' r evs Hpr Hns); [|exact H1]. intros addr ->. exact Hok.
  - inversion Hstep as [H1]. apply (try_alloc_array_refines s sp bytes s' r evs Hpr H1).
  - apply (dealloc_array_refines s sp p bytes s' r evs Hpr Hstep).
Qed.

Lemma u_alloc_ns l x l' : u_alloc l = Some (x, l') -> u_ns l' = u_ns l.
Proof. unfold u_alloc. destruct (u_nodes l); [discriminate|]. intros H; inversion H; reflexivity. Qed.
Lemma u_alloc_array_ns l bytes x l' : u_alloc_array l bytes = Some (x, l') -> u_ns l' = u_ns l.
Proof.
  unfold u_alloc_array. destruct (bytes <=? u_ns l); [apply u_alloc_ns|].
  destruct (u_find _ _ _ _ _); [|discriminate]. intros H; inversion H; reflexivity.
Qed.
Lemma u_dealloc_array_ns l p bytes : u_ns (u_dealloc_array l p bytes) = u_ns l.
Proof. unfold u_dealloc_array. destruct (bytes <=? u_ns l); reflexivity. Qed.
Lemma up_take_ns s bytes s' x : up_take_array s bytes = Some (s', x) -> up_ns s' = up_ns s.
Proof.
  unfold up_take_array, up_ns. destruct (u_nodes (ug_l (up_g s))); [discriminate|].
  destruct (u_alloc_array (ug_l (up_g s)) bytes) as [[x0 l']|] eqn:E; [|discriminate]. intros H; inversion H; subst. cbn [up_g ug_l]. eapply u_alloc_array_ns; eauto.
Qed.
Lemma up_grow_ns s answer s1 ok evs : up_grow s answer = (s1, ok, evs) -> up_ns s1 = up_ns s.
Proof.
  unfold up_grow, up_ns. destruct (astep (up_ar s) ABlock answer) as [[a' out] calls]. destruct out; intros H; inversion H; reflexivity.
Qed.

Lemma up_ns_step s o s' r evs : up_step s o = Some (s', r, evs) -> up_ns s' = up_ns s.
Proof.
  destruct o as [answer| |p|bytes answer|bytes|p bytes]; cbn [up_step].
  - intros H. inversion H as [H1]; clear H. unfold up_alloc_node in H1. unfold up_ns.
    destruct (u_nodes (ug_l (up_g s))) eqn:En.
    + destruct (astep (up_ar s) ABlock answer) as [[a' out] calls]. destruct out; try (inversion H1; reflexivity).
      destruct (u_alloc (u_insert (ug_l (up_g s)) mem size)) as [[x l']|] eqn:E; inversion H1; cbn [up_g ug_l]; [|reflexivity].
      rewrite (u_alloc_ns _ _ _ E). reflexivity.
    + destruct (u_alloc (ug_l (up_g s))) as [[x l']|] eqn:E; inversion H1; cbn [up_g ug_l]; [|reflexivity]. exact (u_alloc_ns _ _ _ E).
  - intros H. inversion H as [H1]; clear H. unfold up_try_alloc_node in H1. unfold up_ns.
    destruct (u_alloc (ug_l (up_g s))) as [[x l']|] eqn:E; inversion H1; cbn [up_g ug_l]; [|reflexivity]. exact (u_alloc_ns _ _ _ E).
  - unfold up_dealloc_node. destruct (remove_alloc p 1 (ug_live (up_g s))); [|discriminate]. intros H. inversion H. reflexivity.
  - intros H. inversion H as [H1]; clear H. unfold up_alloc_array in H1.
    destruct (up_take_array s bytes) as [[s1 x]|] eqn:E; [inversion H1; subst; exact (up_take_ns _ _ _ _ E)|].
    destruct (up_grow s answer) as [[s1 ok] evs1] eqn:G. pose proof (up_grow_ns _ _ _ _ _ G) as Eg.
    destruct ok; [|inversion H1; subst; exact Eg].
    destruct (up_take_array s1 bytes) as [[s2 x]|] eqn:E2; inversion H1; subst; [rewrite (up_take_ns _ _ _ _ E2)|]; exact Eg.
  - intros H. inversion H as [H1]; clear H. unfold up_try_alloc_array in H1.
    destruct (up_take_array s bytes) as [[s1 x]|] eqn:E; inversion H1; subst; [exact (up_take_ns _ _ _ _ E)|reflexivity].
  - unfold up_dealloc_array. destruct (remove_alloc p _ (ug_live (up_g s))); [|discriminate]. intros H. inversion H. unfold up_ns. cbn [up_g ug_l]. apply u_dealloc_array_ns.
Qed.

Fixpoint answers_ok (s : upool) (sp : ast) (os : list pool_op) : Prop :=
  match os with
  | [] => True
  | o :: tl => pool_answer_ok s sp o /\
      forall s' r evs sp', up_step s o = Some (s', r, evs) -> acc_op sp (spec_op_of (up_ns s) o) evs r = Some sp' -> answers_ok s' sp' tl
  end.

(* every history of the Exec pool -- node and array requests through the throwing and the composable members, releases, any
   upstream source that behaves -- is a history the Spec accepts *)
Theorem pool_refines_spec : forall os s sp s' tr, PR s sp -> 0 < up_ns s < 2^64 -> answers_ok s sp os ->
  up_run s os = Some (s', tr) -> exists sp', run sp tr = Some sp' /\ PR s' sp'.
Proof.
  induction os as [|o tl IH]; intros s sp s' tr Hpr Hns Hok Hrun; cbn [up_run] in Hrun.
  - inversion Hrun; subst. exists sp. split; [reflexivity|exact Hpr].
  - destruct (up_step s o) as [[[s1 r] evs]|] eqn:E; [|discriminate].
    destruct (up_run s1 tl) as [[s2 tr1]|] eqn:E2; [|discriminate]. inversion Hrun; subst s' tr; clear Hrun.
    destruct Hok as [Hok1 Hok2].
    destruct (step_refines_pool s sp o s1 r evs Hpr Hns Hok1 E) as (sp1 & Hacc & Hpr1).
    cbn [run]. rewrite Hacc. apply (IH s1 sp1 s2 tr1 Hpr1); [rewrite (up_ns_step _ _ _ _ _ E); exact Hns|exact (Hok2 _ _ _ _ E Hacc)|exact E2].
Qed.
