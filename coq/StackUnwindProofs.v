(* C06 / C01 for memory_stack::unwind: what an unwind writes (the freed-memory fill of the range above the marker and of the
   blocks it drops) never meets an allocation that survives it.  Needs one more ghost fact about a marker than StackProofs:
   no live allocation straddles it ("clean"), which holds for every marker taken by top() and is preserved by every operation. *)
From Coq Require Import ZArith List Bool Lia Arith.
From FM Require Import FixedStack FixedStackProofs Stack ListLib StackProofs.
Import ListNotations.
Local Open Scope Z_scope.

Definition mclean (s : sst) (gm : gmarker) : Prop :=
  match snd gm with
  | hb :: _ => b_mem hb <= m_top (fst gm) <= b_end hb /\
               Forall (fun a => in_block hb a -> fst a + snd a <= m_top (fst gm) \/ m_top (fst gm) <= fst a) (s_live s)
  | [] => False
  end.

Lemma apart b1 b2 : bdisj b1 b2 -> b_end b1 < b_mem b2 \/ b_end b2 < b_mem b1.
Proof. unfold bdisj, b_end, b_mem, hdr. lia. Qed.

Lemma in_pairwise (l : list blk) b1 b2 : pairwise bdisj l -> In b1 l -> In b2 l -> b1 = b2 \/ bdisj b1 b2.
Proof.
  induction l as [|x l IH]; cbn; [intros _ []|]. intros [Hx Hl] [->|H1] [->|H2].
  - left; reflexivity.
  - right. rewrite Forall_forall in Hx. apply Hx. assumption.
  - right. apply bdisj_sym. rewrite Forall_forall in Hx. apply Hx. assumption.
  - apply IH; assumption.
Qed.

(* an allocation that lives in block b' and is kept by an unwind to (hb :: rest, top): it is in hb below top, or in an older block *)
Lemma keep_where used hb rest top a b' : pairwise bdisj used -> In b' used -> In hb used -> (forall b, In b rest -> In b used) ->
  0 <= snd a -> in_block b' a -> keep (hb :: rest) top a = true -> (b' = hb /\ fst a < top) \/ In b' rest.
Proof.
  intros Hd Hb' Hhb Hrest Hsz [I1 I2] K. cbn [keep] in K. apply orb_true_iff in K as [K|K].
  - apply andb_true_iff in K as [K1 K2]. unfold in_blk in K1. apply andb_true_iff in K1 as [K1a K1b].
    left. split; [|lia]. destruct (in_pairwise _ _ _ Hd Hb' Hhb) as [E|D]; [assumption|]. apply apart in D. lia.
  - apply existsb_exists in K as (b & Hb & K). unfold in_blk in K. apply andb_true_iff in K as [Ka Kb].
    right. destruct (in_pairwise _ _ _ Hd Hb' (Hrest b Hb)) as [E|D]; [subst; assumption|]. apply apart in D. lia.
Qed.

Section U.
Variable fence : Z.

Theorem unwind_writes_avoid_kept s gm : SInv s -> mvalid s gm -> mclean s gm ->
  let r := step fence s (SUnwind (fst gm)) None in
  Forall (fun wr => Forall (adisj wr) (s_live (fst (fst (fst r))))) (snd r).
Proof.
  intros [Hne Hblk Hdis Htop Hlive Hld] V C. destruct gm as [m blocks]. cbn [fst snd] in *.
  destruct V as (upper & Eu & Hb & Hl & He & Ht). unfold mclean in C. cbn [fst snd] in C.
  destruct blocks as [|hb rest]; [contradiction|]. destruct C as [[Cm1 Cm2] Cl].
  apply pairwise_app_inv in Hdis as [Hdu _].
  assert (Hin_hb : In hb (s_used s)) by (rewrite Eu; apply in_app_iff; right; left; reflexivity).
  assert (Hin_rest : forall b, In b rest -> In b (s_used s)) by (intros b Hbr; rewrite Eu; apply in_app_iff; right; right; assumption).
  (* every kept allocation: where it lies *)
  assert (Kept : forall a, In a (filter (keep (hb :: rest) (m_top m)) (s_live s)) ->
                 0 <= snd a /\ exists b', In b' (s_used s) /\ in_block b' a /\ ((b' = hb /\ fst a + snd a <= m_top m) \/ In b' rest)).
  { intros a Ha. apply filter_In in Ha as [Ha K]. rewrite Forall_forall in Hlive. destruct (Hlive a Ha) as (Hsz & b' & Hb' & Hib & _).
    split; [assumption|]. exists b'. split; [assumption|]. split; [assumption|].
    destruct (keep_where _ _ _ _ _ _ Hdu Hb' Hin_hb Hin_rest Hsz Hib K) as [[-> Hlt]|Hr]; [|right; assumption].
    left. split; [reflexivity|]. rewrite Forall_forall in Cl. destruct (Cl a Ha Hib); lia. }
  (* a kept allocation is away from any range inside hb at or above the marker, and from any dropped block *)
  assert (AboveMarker : forall len, 0 <= len -> m_top m + len <= b_end hb ->
            Forall (adisj (m_top m, len)) (filter (keep (hb :: rest) (m_top m)) (s_live s))).
  { intros len Hlen Hend. rewrite Forall_forall. intros a Ha. destruct (Kept a Ha) as (Hsz & b' & Hb' & [I1 I2] & [[-> Hle]|Hr]); unfold adisj; cbn [fst snd].
    - right. assumption.
    - destruct (in_pairwise _ _ _ Hdu Hb' Hin_hb) as [E|D].
      + (* b' = hb would put hb twice on the list: its range is not disjoint from itself *)
        subst b'. exfalso. rewrite Eu in Hdu. apply pairwise_app_inv in Hdu as [_ Hdb]. cbn in Hdb. destruct Hdb as [Hf _]. rewrite Forall_forall in Hf.
        specialize (Hf hb Hr). rewrite Forall_forall in Hblk. assert (blk_ok hb) by (apply Hblk; apply in_app_iff; left; assumption).
        unfold bdisj, blk_ok, hdr in *. lia.
      + apply apart in D. unfold b_end, b_mem in *. lia. }
  unfold step. rewrite Eu, app_length, Hl.
  replace (length upper + S (m_index m) - 1)%nat with (length upper + m_index m)%nat by lia.
  destruct (Nat.ltb_spec (length upper + m_index m) (m_index m)) as [Hlt|Hge]; [destruct upper; cbn in Hlt; lia|].
  replace (length upper + m_index m - m_index m)%nat with (length upper) by lia.
  destruct upper as [|u0 upper].
  - cbn [length app] in *. specialize (Ht eq_refl). destruct (Z.ltb_spec (s_top s) (m_top m)); [lia|].
    cbn [fst snd set_alloc s_live]. constructor; [|constructor].
    apply AboveMarker; [lia|]. rewrite Eu in Htop. cbn in Htop. lia.
  - change (length (u0 :: upper)) with (S (length upper)). change (S (length upper)) with (length (u0 :: upper)).
    rewrite drop_blocks_app. rewrite He. cbn [b_end]. rewrite Z.eqb_refl. cbn [negb fst snd set_alloc s_live].
    constructor.
    + apply AboveMarker; unfold b_end in *; lia.
    + rewrite firstn_app, firstn_all, Nat.sub_diag. cbn [firstn]. rewrite app_nil_r.
      rewrite Forall_forall. intros wr Hwr. apply in_map_iff in Hwr as (d & <- & Hd).
      rewrite Forall_forall. intros a Ha. destruct (Kept a Ha) as (Hsz & b' & Hb' & [I1 I2] & Hwhere).
      assert (Hdin : In d (s_used s)) by (rewrite Eu; apply in_app_iff; left; assumption).
      assert (Hb'blocks : In b' (hb :: rest)) by (destruct Hwhere as [[-> _]|Hr]; [left; reflexivity|right; assumption]).
      destruct (in_pairwise _ _ _ Hdu Hdin Hb') as [E|D].
      * (* a dropped block is not one of the kept ones *)
        subst b'. exfalso. rewrite Eu in Hdu. clear -Hdu Hd Hb'blocks Hblk Hdin.
        assert (X : forall (l1 l2 : list blk) x, pairwise bdisj (l1 ++ l2) -> In x l1 -> In x l2 -> bdisj x x).
        { induction l1 as [|y l1 IH]; cbn; [intros l2 x _ []|]. intros l2 x [Hy Hl] [->|H1] H2.
          - rewrite Forall_forall in Hy. apply Hy. apply in_app_iff. right. assumption.
          - eapply IH; eassumption. }
        specialize (X _ _ d Hdu Hd Hb'blocks). rewrite Forall_forall in Hblk. assert (blk_ok d) by (apply Hblk; apply in_app_iff; left; assumption).
        unfold bdisj, blk_ok, hdr in *. lia.
      * apply apart in D. unfold adisj, b_usable, b_mem, b_end, hdr in *. cbn [fst snd]. lia.
Qed.
End U.

(* ================= every marker taken by top() is clean, and stays so ================= *)
Require Import Permutation.

Lemma clean_sub s s' gm : mclean s gm -> (forall a, In a (s_live s') -> In a (s_live s)) -> mclean s' gm.
Proof.
  unfold mclean. destruct (snd gm) as [|hb rest]; [tauto|]. intros [Hm Hl] Hsub. split; [assumption|].
  rewrite Forall_forall in *. intros a Ha. apply Hl, Hsub, Ha.
Qed.

Lemma clean_add s s' gm p size : mclean s gm -> s_live s' = (p, size) :: s_live s ->
  (match snd gm with hb :: _ => in_block hb (p, size) -> p + size <= m_top (fst gm) \/ m_top (fst gm) <= p | [] => True end) -> mclean s' gm.
Proof.
  unfold mclean. destruct (snd gm) as [|hb rest]; [tauto|]. intros [Hm Hl] E Hnew. split; [assumption|]. rewrite E. constructor; assumption.
Qed.

(* where a new allocation lands *)
Section P.
Variable fence : Z.
Hypothesis Hfence : 0 <= fence.

Lemma alloc_position s size al ans s' p calls w : SInv s -> 0 <= size -> 0 < al -> answer_ok s ans ->
  step fence s (SAlloc size al) ans = (s', SOk p, calls, w) ->
  (s_used s' = s_used s /\ s_top s <= p /\ p + size <= cur_end s) \/
  (exists b, s_used s' = b :: s_used s /\ in_block b (p, size) /\ Forall (bdisj b) (s_used s)).
Proof.
  intros I Hs Hal Ha. rewrite step_alloc_eq. destruct (need_grow fence s size al) eqn:G.
  - unfold take_block. destruct I as [Hne Hblk Hdis Htop Hlive Hld].
    destruct (s_cache s) as [|b c] eqn:Ec.
    + destruct (s_kind s) eqn:K, (s_next s =? 0) eqn:N, ans as [a|]; try discriminate; unfold grow_into;
        (destruct (_ >? _) eqn:Gt; intros H; [discriminate|]; injection H as <- <- <- <-; right; eexists; cbn [s_used set_alloc]; split; [reflexivity|];
         destruct Ha as (Ha0 & Hnx & Hdj); split; [|apply Forall_app in Hdj; tauto];
         pose proof (align_off_bounds (b_mem (a, s_next s) + fence) al Hal); unfold in_block, b_usable, b_mem, b_end in *; cbn [fst snd] in *; lia).
    + unfold grow_into. destruct (_ >? _) eqn:Gt; intros H; [discriminate|]. injection H as <- <- <- <-. right. exists b. cbn [s_used set_alloc]. split; [reflexivity|].
      split.
      * pose proof (align_off_bounds (b_mem b + fence) al Hal). unfold in_block, b_usable, b_mem, b_end in *; cbn [fst snd] in *; lia.
      * (* a cached block is disjoint from every used block *)
        clear -Hdis. induction (s_used s) as [|u us IH]; [constructor|]. cbn in Hdis. destruct Hdis as [Hu Hrest]. constructor.
        -- apply bdisj_sym. rewrite Forall_forall in Hu. apply Hu. apply in_app_iff. right. left. reflexivity.
        -- apply IH. assumption.
  - unfold alloc_here. intros H. injection H as <- <- <- <-. left. cbn [s_used set_alloc]. split; [reflexivity|].
    pose proof (align_off_bounds (s_top s + fence) al Hal). unfold need_grow in G. apply orb_false_iff in G as [_ G2]. rewrite Z.gtb_ltb, Z.ltb_ge in G2. split; lia.
Qed.

Lemma distinct_blocks (l1 l2 : list blk) x : pairwise bdisj (l1 ++ l2) -> Forall blk_ok (l1 ++ l2) -> In x l1 -> In x l2 -> False.
Proof.
  intros Hd Hb H1 H2. assert (X : bdisj x x).
  { clear Hb. revert Hd H1. induction l1 as [|y l1 IH]; cbn; [intros _ []|]. intros [Hy Hl] [->|H1].
    - rewrite Forall_forall in Hy. apply Hy. apply in_app_iff. right. assumption.
    - apply IH; assumption. }
  rewrite Forall_forall in Hb. assert (blk_ok x) by (apply Hb; apply in_app_iff; left; assumption). unfold bdisj, blk_ok, hdr in *. lia.
Qed.

(* an allocation in the current block at or above the top is clean for every valid marker *)
Lemma bump_is_clean s gm p size : SInv s -> mvalid s gm -> 0 <= size -> s_top s <= p ->
  (match s_used s with hb0 :: _ => p + size <= b_end hb0 | [] => False end) ->
  match snd gm with hb :: _ => in_block hb (p, size) -> p + size <= m_top (fst gm) \/ m_top (fst gm) <= p | [] => True end.
Proof.
  intros [Hne Hblk Hdis Htop Hlive Hld] V Hs Hp Hend. destruct gm as [m blocks]. cbn [fst snd]. destruct V as (upper & Eu & Hb & Hl & He & Ht).
  destruct blocks as [|hb rest]; [exact I|]. intros [I1 I2]. cbn [fst snd] in *.
  destruct upper as [|u0 upper].
  - right. specialize (Ht eq_refl). lia.
  - (* the marker's block is an older one: the new allocation is not in it *)
    exfalso. rewrite Eu in Htop, Hend. cbn in Htop, Hend.
    apply pairwise_app_inv in Hdis as [Hdu _]. rewrite Eu in Hdu.
    assert (D : bdisj u0 hb). { cbn in Hdu. destruct Hdu as [Hf _]. rewrite Forall_forall in Hf. apply Hf. apply in_app_iff. right. left. reflexivity. }
    apply apart in D. lia.
Qed.
End P.

(* ---------- the stack invariant survives unwind and shrink_to_fit ---------- *)
Lemma pairwise_perm (l l' : list blk) : Permutation l l' -> pairwise bdisj l -> pairwise bdisj l'.
Proof.
  intros P. induction P as [|x l l' P IH|x y l|l l' l'' P1 IH1 P2 IH2]; cbn.
  - tauto.
  - intros [Hx Hl]. split; [eapply Permutation_Forall; eassumption|apply IH; assumption].
  - intros [Hy [Hx Hl]]. inversion Hy as [|? ? Hyx Hyl]; subst. split; [constructor; [apply bdisj_sym; assumption|assumption]|split; assumption].
  - intros H. apply IH2, IH1, H.
Qed.

Lemma in_skipn_in {A} (l : list A) k x : In x (skipn k l) -> In x l.
Proof. intros H. rewrite <- (firstn_skipn k l). apply in_app_iff. right. assumption. Qed.

Lemma pairwise_filter {A} (R : A -> A -> Prop) f (l : list A) : pairwise R l -> pairwise R (filter f l).
Proof.
  induction l as [|a l IH]; cbn; [tauto|]. intros [Ha Hl]. destruct (f a); cbn; [split; [|apply IH; assumption]|apply IH; assumption].
  rewrite Forall_forall in *. intros x Hx. apply filter_In in Hx as [Hx _]. apply Ha, Hx.
Qed.

Section Inv.
Variable fence : Z.
Hypothesis Hfence : 0 <= fence.

Lemma unwind_sinv s gm : SInv s -> mvalid s gm -> mclean s gm -> SInv (fst (fst (fst (step fence s (SUnwind (fst gm)) None)))).
Proof.
  intros I V C. pose proof I as [Hne Hblk Hdis Htop Hlive Hld].
  destruct (unwind_valid fence s gm Hne V) as (cache' & Es & _ & _ & dropped & Eu & Ec). rewrite Es. clear Es.
  destruct gm as [m blocks]. cbn [fst snd] in *. unfold mclean in C. cbn [fst snd] in C. destruct blocks as [|hb rest]; [contradiction|]. destruct C as [Cm Cl].
  assert (P : Permutation (s_used s ++ s_cache s) ((hb :: rest) ++ cache')).
  { rewrite Eu, Ec. rewrite <- app_assoc. eapply Permutation_trans; [apply Permutation_app_swap_app|].
    apply Permutation_app_head. apply Permutation_app_tail. apply Permutation_rev. }
  apply pairwise_app_inv in Hdis as Hdu. destruct Hdu as [Hdu _].
  assert (Hin_hb : In hb (s_used s)) by (rewrite Eu; apply in_app_iff; right; left; reflexivity).
  assert (Hin_rest : forall b, In b rest -> In b (s_used s)) by (intros b Hbr; rewrite Eu; apply in_app_iff; right; right; assumption).
  constructor; cbn [set_alloc s_used s_cache s_top s_live].
  - discriminate.
  - eapply Permutation_Forall; eassumption.
  - eapply pairwise_perm; eassumption.
  - exact Cm.
  - rewrite Forall_forall. intros a Ha. apply filter_In in Ha as [Ha K]. rewrite Forall_forall in Hlive. destruct (Hlive a Ha) as (Hsz & b' & Hb' & Hib & _).
    split; [assumption|].
    destruct (keep_where _ _ _ _ _ _ Hdu Hb' Hin_hb Hin_rest Hsz Hib K) as [[-> Hlt]|Hr].
    + exists hb. split; [left; reflexivity|]. split; [assumption|]. intros _. rewrite Forall_forall in Cl. destruct (Cl a Ha Hib); lia.
    + exists b'. split; [right; assumption|]. split; [assumption|]. intros ->. exfalso.
      rewrite Eu in Hdu. apply pairwise_app_inv in Hdu as [_ Hdb]. rewrite Forall_forall in Hblk.
      apply (distinct_blocks [hb] rest hb); [exact Hdb| |left; reflexivity|assumption].
      rewrite Forall_forall. intros x Hx. apply Hblk. apply in_app_iff. left. rewrite Eu. apply in_app_iff. right. exact Hx.
  - apply pairwise_filter. assumption.
Qed.

Lemma shrink_sinv s : SInv s -> SInv (fst (fst (fst (step fence s SShrink None)))).
Proof.
  intros [Hne Hblk Hdis Htop Hlive Hld]. cbn. constructor; cbn [set_alloc s_used s_cache s_top s_live]; try assumption.
  - rewrite app_nil_r. apply Forall_app in Hblk. tauto.
  - rewrite app_nil_r. apply pairwise_app_inv in Hdis. tauto.
Qed.

(* ---------- the combined invariant along histories ---------- *)
Definition CInv (st : sst * list gmarker) : Prop := SInv (fst st) /\ MInv st /\ Forall (mclean (fst st)) (snd st).

Definition answer_fine (st : sst * list gmarker) (o : hop) : Prop :=
  match o with HAlloc _ _ ans => answer_ok (fst st) ans | _ => True end.

Theorem hstep_cinv st o : CInv st -> op_ok o -> answer_fine st o -> CInv (fst (fst (fst (hstep fence st o)))).
Proof.
  intros (I & M & Cl) Hok Hans. pose proof (hstep_inv fence Hfence st o M Hok) as M'.
  destruct st as [s ms]. cbn [fst snd] in *. split; [|split; [exact M'|]]; destruct o as [size al ans|size al| |k|]; cbn [hstep] in *.
  - destruct (step fence s (SAlloc size al) ans) as [[[s' out] c] w] eqn:E. cbn [fst]. destruct Hok as [Hs Hal].
    destruct (alloc_spec fence Hfence s size al ans s' out c w I Hs Hal Hans E) as [I' _]. exact I'.
  - destruct (step fence s (STry size al) None) as [[[s' out] c] w] eqn:E. cbn [fst]. destruct Hok as [Hs Hal].
    destruct (try_spec fence Hfence s size al s' out c w I Hs Hal E) as (_ & I' & _). exact I'.
  - exact I.
  - destruct (nth_error (rev ms) k) as [gm|] eqn:En; [|exact I].
    destruct (step fence s (SUnwind (fst gm)) None) as [[[s' out] c] w] eqn:E. cbn [fst].
    assert (Hin : In gm ms) by (apply in_rev; eapply nth_error_In; eassumption).
    destruct M as (_ & Mv & _). rewrite Forall_forall in Mv, Cl.
    pose proof (unwind_sinv s gm I (Mv gm Hin) (Cl gm Hin)) as X. rewrite E in X. exact X.
  - destruct (step fence s SShrink None) as [[[s' out] c] w] eqn:E. cbn [fst]. pose proof (shrink_sinv s I) as X. rewrite E in X. exact X.
  - (* clean markers after an allocation *)
    destruct (step fence s (SAlloc size al) ans) as [[[s' out] c] w] eqn:E. cbn [fst snd]. destruct Hok as [Hs Hal].
    destruct (alloc_spec fence Hfence s size al ans s' out c w I Hs Hal Hans E) as [I' Hout].
    destruct M as (_ & Mv & _). rewrite Forall_forall in *. intros gm Hgm.
    destruct out as [p| | | | | | |]; try contradiction; try (eapply clean_sub; [apply Cl, Hgm|intros a Ha; rewrite Hout in Ha; exact Ha]).
    destruct Hout as (_ & _ & _ & _ & El).
    eapply clean_add; [apply Cl, Hgm|exact El|].
    destruct (alloc_position fence Hfence s size al ans s' p c w I Hs Hal Hans E) as [(Eu & Hp & Hce)|(b & Eu & Hib & Hdj)].
    + apply (bump_is_clean s gm p size I (Mv gm Hgm) Hs Hp). unfold cur_end in *. destruct (s_used s) eqn:Eus0; [destruct I as [Hne0 _ _ _ _ _]; congruence|assumption].
    + (* a fresh block: no marker lives there *)
      destruct gm as [m blocks]. cbn [fst snd]. destruct (Mv (m, blocks) Hgm) as (upper & Eus & Hb & _). destruct blocks as [|hb rest]; [exact Logic.I|].
      intros Hin. exfalso. rewrite Forall_forall in Hdj. cbn [fst] in Eus. assert (D : bdisj b hb) by (apply Hdj; rewrite Eus; apply in_app_iff; right; left; reflexivity).
      apply apart in D. unfold in_block in *. cbn [fst snd] in *. lia.
  - destruct (step fence s (STry size al) None) as [[[s' out] c] w] eqn:E. cbn [fst snd]. destruct Hok as [Hs Hal].
    destruct (try_spec fence Hfence s size al s' out c w I Hs Hal E) as (_ & I' & Hout).
    destruct M as (_ & Mv & _). rewrite Forall_forall in *. intros gm Hgm.
    destruct out as [p| | | | | | |]; try contradiction; [|subst s'; apply Cl, Hgm].
    destruct Hout as (_ & _ & _ & _ & El). eapply clean_add; [apply Cl, Hgm|exact El|].
    unfold step in E. destruct (fs_alloc fence (s_top s) (cur_end s) size al) as [[p0 top']|] eqn:F; [|discriminate]. injection E as <- <- <- <-.
    apply fs_alloc_spec in F; try assumption. destruct F as (_ & Hlo & _ & _ & -> & Hend).
    apply (bump_is_clean s gm p0 size I (Mv gm Hgm) Hs); [lia|]. unfold cur_end in Hend. destruct (s_used s) eqn:Eus0; [destruct I as [Hne0 _ _ _ _ _]; congruence|lia].
  - (* a new marker is clean *)
    constructor; [|exact Cl]. unfold mclean. cbn [fst snd top_marker m_top]. destruct I as [Hne Hblk Hdis Htop Hlive Hld].
    destruct (s_used s) as [|hb u] eqn:Eu; [contradiction|]. split; [exact Htop|].
    rewrite Forall_forall in *. intros a Ha [I1 I2]. destruct (Hlive a Ha) as (Hsz & b & Hb & [J1 J2] & Hh). left.
    destruct Hb as [<-|Hb]; [apply Hh; reflexivity|]. exfalso. cbn in Hdis. destruct Hdis as [Hf _]. rewrite Forall_forall in Hf.
    assert (D : bdisj hb b) by (apply Hf; apply in_app_iff; left; assumption). apply apart in D. lia.
  - destruct (nth_error (rev ms) k) as [gm|] eqn:En; [|exact Cl].
    destruct (step fence s (SUnwind (fst gm)) None) as [[[s' out] c] w] eqn:E. cbn [fst snd].
    assert (Hin : In gm ms) by (apply in_rev; eapply nth_error_In; eassumption).
    destruct M as (Hne & Mv & _). rewrite Forall_forall in Mv.
    destruct (unwind_valid fence s gm Hne (Mv gm Hin)) as (cache' & Es & _). rewrite E in Es. cbn [fst] in Es.
    rewrite Forall_forall in *. intros g Hg. eapply clean_sub; [apply Cl; eapply in_skipn_in; exact Hg|].
    intros a Ha. rewrite Es in Ha. cbn [set_alloc s_live] in Ha. apply filter_In in Ha. tauto.
  - destruct (step fence s SShrink None) as [[[s' out] c] w] eqn:E. cbn [fst snd]. cbn in E. injection E as <- _ _ _.
    rewrite Forall_forall in *. intros gm Hgm. eapply clean_sub; [apply Cl, Hgm|]. cbn. tauto.
Qed.
End Inv.

Section Hist.
Variable fence : Z.
Hypothesis Hfence : 0 <= fence.

(* every request of the history is well-formed and every upstream answer is a fresh block *)
Fixpoint hall (st : sst * list gmarker) (h : list hop) : Prop :=
  match h with
  | [] => True
  | o :: tl => op_ok o /\ answer_fine st o /\ hall (fst (fst (fst (hstep fence st o)))) tl
  end.

Theorem hrun_cinv : forall h st, CInv st -> hall st h -> CInv (hrun fence st h).
Proof.
  induction h as [|o tl IH]; intros st C H; cbn in *; [exact C|]. destruct H as (Hok & Ha & Htl).
  apply IH; [apply hstep_cinv; assumption|exact Htl].
Qed.

(* C06: whatever happened since the stack was created -- unwinding to any marker that is still valid writes (the freed-memory
   fill of the range above the marker and of the dropped blocks) only outside every allocation that survives the unwind *)
Theorem older_allocations_untouched st0 h : CInv st0 -> hall st0 h ->
  let st1 := hrun fence st0 h in
  forall gm, In gm (snd st1) ->
    let r := step fence (fst st1) (SUnwind (fst gm)) None in
    Forall (fun wr => Forall (adisj wr) (s_live (fst (fst (fst r))))) (snd r).
Proof.
  intros C H st1 gm Hgm. destruct (hrun_cinv h st0 C H) as (I & (Hne & Mv & _) & Cl). fold st1 in I, Mv, Cl.
  rewrite Forall_forall in Mv, Cl. apply unwind_writes_avoid_kept; [exact I|apply Mv, Hgm|apply Cl, Hgm].
Qed.

(* a freshly constructed stack satisfies the invariant *)
Lemma init_cinv k bs a s calls : 0 < a -> hdr < bs -> init k bs (Some a) = Some (s, calls) -> CInv (s, []).
Proof.
  intros Ha Hb H. cbn in H. injection H as <- _. split; [|split; [split; [discriminate|split; constructor]|constructor]].
  constructor; cbn; try discriminate; try constructor; try constructor; try exact I.
  - unfold blk_ok. cbn. lia.
  - unfold b_mem, b_end, hdr in *. cbn. lia.
  - unfold b_mem, b_end, hdr in *. cbn. lia.
  - unfold b_mem, b_end, hdr in *. cbn. lia.
Qed.
End Hist.
