(* small_free_memory_list::insert -- how a block is carved into chunks (hand-written from
   src/detail/small_free_list.cpp, executable; tied to the code by the C18 enumeration of real lists).
   Parameters: cmo = chunk_memory_offset, ca = alignof(chunk), mx = chunk_max_nodes. *)
From Coq Require Import ZArith Lia Bool.
From FM Require Import FixedStack.
Local Open Scope Z_scope.

Definition s_total (cmo mx ns : Z) : Z := cmo + ns * mx.
Definition s_stride (cmo mx ca ns : Z) : Z := s_total cmo mx ns + align_off (s_total cmo mx ns) ca.
Definition s_nochunks (cmo mx ca ns size : Z) : Z := size / s_stride cmo mx ca ns.
Definition s_rem (cmo mx ca ns size : Z) : Z := size mod s_stride cmo mx ca ns.
(* chunk(total_memory, node_size): no_nodes = static_cast<unsigned char>((total_memory - cmo) / node_size) *)
Definition s_rem_nodes (cmo mx ca ns size : Z) : Z :=
  if cmo + ns <=? s_rem cmo mx ca ns size then ((s_rem cmo mx ca ns size - cmo) / ns) mod 256 else 0.
Definition s_nodes (cmo mx ca ns size : Z) : Z :=
  mx * s_nochunks cmo mx ca ns size + s_rem_nodes cmo mx ca ns size.

(* address of node i of chunk c, relative to the inserted memory *)
Definition s_node_addr (cmo mx ca ns c i : Z) : Z := c * s_stride cmo mx ca ns + cmo + i * ns.

(* number of nodes an intrusive list (free_memory_list / ordered_free_memory_list) links from size bytes *)
Definition l_nodes (ns size : Z) : Z := size / ns.
