From Coq Require Import ZArith List Bool Lia.
From FM Require Import Debug.
Import ListNotations.
Local Open Scope Z_scope.

(* debug_is_filled finds the FIRST differing byte, for every length *)
Lemma is_filled_some m v : forall n a d, is_filled m a n v = Some d ->
  a <= d < a + Z.of_nat n /\ m d <> v /\ forall j, a <= j < d -> m j = v.
Proof.
  induction n as [|n IH]; intros a d H; cbn [is_filled] in H; [discriminate|].
  destruct (Z.eqb_spec (m a) v) as [E|E].
  - destruct (IH _ _ H) as (H1 & H2 & H3). split; [lia|]. split; [assumption|].
    intros j Hj. destruct (Z.eq_dec j a) as [->|]; [assumption|]. apply H3. lia.
  - injection H as <-. split; [lia|]. split; [assumption|]. intros j Hj. lia.
Qed.

Lemma is_filled_none m v : forall n a, is_filled m a n v = None <-> forall j, a <= j < a + Z.of_nat n -> m j = v.
Proof.
  induction n as [|n IH]; intros a; cbn [is_filled].
  - split; [intros _ j Hj; lia|reflexivity].
  - destruct (Z.eqb_spec (m a) v) as [E|E].
    + rewrite IH. split.
      * intros H j Hj. destruct (Z.eq_dec j a) as [->|]; [assumption|]. apply H. lia.
      * intros H j Hj. apply H. lia.
    + split; [discriminate|]. intros H. exfalso. apply E. apply H. lia.
Qed.

Theorem is_filled_first m a n v d :
  is_filled m a n v = Some d <-> (a <= d < a + Z.of_nat n /\ m d <> v /\ forall j, a <= j < d -> m j = v).
Proof.
  split; [apply is_filled_some|].
  intros (H1 & H2 & H3). destruct (is_filled m a n v) as [d'|] eqn:E.
  - destruct (is_filled_some _ _ _ _ _ E) as (G1 & G2 & G3).
    destruct (Z.lt_trichotomy d d') as [L|[->|L]]; [|reflexivity|].
    + exfalso. apply H2. apply G3. lia.
    + exfalso. apply G2. apply H3. lia.
  - exfalso. apply H2. rewrite is_filled_none in E. apply E. lia.
Qed.

Lemma fill_in m a n v x : a <= x < a + n -> fill m a n v x = v.
Proof. intros H. unfold fill. destruct (Z.leb_spec a x), (Z.ltb_spec x (a + n)); cbn; try lia; reflexivity. Qed.
Lemma fill_out m a n v x : x < a \/ a + n <= x -> fill m a n v x = m x.
Proof. intros H. unfold fill. destruct (Z.leb_spec a x), (Z.ltb_spec x (a + n)); cbn; try lia; reflexivity. Qed.

(* fill patterns are exact: after debug_fill_new the node carries the new-memory pattern, both fences the fence pattern, nothing else changed *)
Theorem fill_new_exact m mem size fence x : 0 <= size -> 0 <= fence ->
  let '(m', node) := fill_new m mem size fence in
  node = mem + fence /\
  (mem <= x < mem + fence -> m' x = magic_fence) /\
  (node <= x < node + size -> m' x = magic_new) /\
  (node + size <= x < node + size + fence -> m' x = magic_fence) /\
  (x < mem \/ node + size + fence <= x -> m' x = m x).
Proof.
  intros Hs Hf. unfold fill_new. cbv zeta. split; [reflexivity|]. repeat split; intros H.
  - rewrite fill_out, fill_out, fill_in by lia. reflexivity.
  - rewrite fill_out, fill_in by lia. reflexivity.
  - rewrite fill_in by lia. reflexivity.
  - rewrite !fill_out by lia. reflexivity.
Qed.

(* released memory carries the freed pattern over the whole node; the fences and everything else are left as they are *)
Theorem fill_free_exact m node size fence x : 0 <= size -> 0 <= fence ->
  let m' := fst (fst (fill_free m node size fence)) in
  (node <= x < node + size -> m' x = magic_freed) /\ (x < node \/ node + size <= x -> m' x = m x).
Proof.
  intros Hs Hf. cbn. split; intros H; [apply fill_in|apply fill_out]; assumption.
Qed.

Lemma apply_writes_outside ws : forall m x, (forall w, In w ws -> fst w <> x) -> apply_writes m ws x = m x.
Proof.
  induction ws as [|[a v] ws IH]; intros m x H; cbn; [reflexivity|].
  rewrite IH by (intros w Hw; apply H; right; assumption).
  destruct (Z.eqb_spec x a) as [->|]; [exfalso; apply (H (a, v)); [left; reflexivity|reflexivity]|reflexivity].
Qed.

(* C17: the complete characterisation of what release reports.
   Front fence first, then back fence; each reported with the address of its first byte that is not the fence
   pattern; a fence whose bytes all still carry the pattern is not reported. *)
Theorem release_reports m node size fence : 0 <= size -> 0 <= fence ->
  let calls := snd (fst (fill_free m node size fence)) in
  let front := is_filled m (node - fence) (Z.to_nat fence) magic_fence in
  let back := is_filled m (node + size) (Z.to_nat fence) magic_fence in
  calls = (match front with Some d => [(node, size, d)] | None => [] end) ++
          (match back with Some d => [(node, size, d)] | None => [] end).
Proof.
  intros Hs Hf. cbn.
  (* the freed-pattern fill of the node does not touch the fences *)
  assert (E : forall a n, (a + Z.of_nat n <= node \/ node + size <= a) ->
              is_filled (fill m node size magic_freed) a n magic_fence = is_filled m a n magic_fence).
  { intros a n. revert a. induction n as [|n IH]; intros a H; cbn [is_filled]; [reflexivity|].
    rewrite fill_out by lia. rewrite IH by lia. reflexivity. }
  rewrite !E by (rewrite ?Z2Nat.id by lia; lia). reflexivity.
Qed.

(* any fence byte that differs from the pattern at release time is reported, front fence first *)
Theorem fence_corruption_detected m node size fence d : 0 <= size -> 0 <= fence ->
  (node - fence <= d < node \/ node + size <= d < node + size + fence) -> m d <> magic_fence ->
  exists d0, hd_error (snd (fst (fill_free m node size fence))) = Some (node, size, d0) /\ m d0 <> magic_fence /\
             ((node - fence <= d0 < node /\ forall j, node - fence <= j < d0 -> m j = magic_fence) \/
              (node + size <= d0 < node + size + fence /\ (forall j, node - fence <= j < node -> m j = magic_fence) /\
               forall j, node + size <= j < d0 -> m j = magic_fence)).
Proof.
  intros Hs Hf Hd Hm. rewrite release_reports by assumption. cbv zeta.
  destruct (is_filled m (node - fence) (Z.to_nat fence) magic_fence) as [d1|] eqn:E1.
  - apply is_filled_some in E1. rewrite Z2Nat.id in E1 by lia. destruct E1 as (A & B & C).
    exists d1. split; [reflexivity|]. split; [assumption|]. left. split; [lia|assumption].
  - rewrite is_filled_none in E1. rewrite Z2Nat.id in E1 by lia.
    destruct (is_filled m (node + size) (Z.to_nat fence) magic_fence) as [d2|] eqn:E2.
    + apply is_filled_some in E2. rewrite Z2Nat.id in E2 by lia. destruct E2 as (A & B & C).
      exists d2. split; [reflexivity|]. split; [assumption|]. right. split; [lia|]. split; [intros j Hj; apply E1; lia|assumption].
    + rewrite is_filled_none in E2. rewrite Z2Nat.id in E2 by lia. exfalso. apply Hm.
      destruct Hd as [Hd|Hd]; [apply E1|apply E2]; lia.
Qed.

(* writes confined to the node are never reported *)
Theorem inbounds_never_reported m0 raw size fence ws : 0 <= size -> 0 <= fence ->
  (forall w, In w ws -> raw + fence <= fst w < raw + fence + size) ->
  lowlevel_cycle m0 raw size fence ws = [].
Proof.
  intros Hs Hf Hw. unfold lowlevel_cycle.
  destruct (fill_new m0 raw size fence) as [m1 node] eqn:Efn.
  assert (En : node = raw + fence) by (unfold fill_new in Efn; injection Efn as _ <-; reflexivity).
  rewrite release_reports by assumption. cbv zeta.
  assert (F : forall x, (raw <= x < raw + fence \/ node + size <= x < node + size + fence) -> apply_writes m1 ws x = magic_fence).
  { intros x Hx. rewrite apply_writes_outside by (intros w Hin; specialize (Hw w Hin); lia).
    pose proof (fill_new_exact m0 raw size fence x Hs Hf) as FN. rewrite Efn in FN. destruct FN as (_ & F1 & _ & F3 & _).
    destruct Hx; [apply F1|apply F3]; lia. }
  replace (is_filled (apply_writes m1 ws) (node - fence) (Z.to_nat fence) magic_fence) with (@None Z).
  2:{ symmetry. apply is_filled_none. rewrite Z2Nat.id by lia. intros j Hj. apply F. lia. }
  replace (is_filled (apply_writes m1 ws) (node + size) (Z.to_nat fence) magic_fence) with (@None Z).
  2:{ symmetry. apply is_filled_none. rewrite Z2Nat.id by lia. intros j Hj. apply F. lia. }
  reflexivity.
Qed.
