(* C17 -- fences catch every overflow beside low-level allocations; fill patterns exact.  Statements only.
   Debug.v is a byte-level executable model of debug_fill / debug_is_filled / debug_fill_new / debug_fill_free
   and of the [fence | node | fence] layout of the low-level allocators; tied to the code by replaying fence
   corruption experiments on heap, malloc, new and virtual memory allocators. *)
From Coq Require Import ZArith List Bool.
From FM Require Import Debug DebugProofs.
Import ListNotations.
Local Open Scope Z_scope.

(* debug_is_filled returns exactly the first byte that differs, for every memory content and length *)
Theorem C17_is_filled_finds_first : forall m a n v d,
  is_filled m a n v = Some d <-> (a <= d < a + Z.of_nat n /\ m d <> v /\ forall j, a <= j < d -> m j = v).
Proof. exact is_filled_first. Qed.
Print Assumptions C17_is_filled_finds_first.

Theorem C17_is_filled_none_iff_all_equal : forall m v n a,
  is_filled m a n v = None <-> forall j, a <= j < a + Z.of_nat n -> m j = v.
Proof. exact is_filled_none. Qed.
Print Assumptions C17_is_filled_none_iff_all_equal.

(* what release reports, completely: front fence then back fence, each with its first byte off the pattern *)
Theorem C17_release_reports : forall m node size fence, 0 <= size -> 0 <= fence ->
  let calls := snd (fst (fill_free m node size fence)) in
  let front := is_filled m (node - fence) (Z.to_nat fence) magic_fence in
  let back := is_filled m (node + size) (Z.to_nat fence) magic_fence in
  calls = (match front with Some d => [(node, size, d)] | None => [] end) ++
          (match back with Some d => [(node, size, d)] | None => [] end).
Proof. exact release_reports. Qed.
Print Assumptions C17_release_reports.

(* every byte offset, every byte value other than the pattern, any number of corrupted bytes, any fence size:
   the overflow handler is called, first for the first corrupted byte of the front fence if there is one,
   otherwise for the first corrupted byte of the back fence *)
Theorem C17_fence_corruption_detected : forall m node size fence d, 0 <= size -> 0 <= fence ->
  (node - fence <= d < node \/ node + size <= d < node + size + fence) -> m d <> magic_fence ->
  exists d0, hd_error (snd (fst (fill_free m node size fence))) = Some (node, size, d0) /\ m d0 <> magic_fence /\
             ((node - fence <= d0 < node /\ forall j, node - fence <= j < d0 -> m j = magic_fence) \/
              (node + size <= d0 < node + size + fence /\ (forall j, node - fence <= j < node -> m j = magic_fence) /\
               forall j, node + size <= j < d0 -> m j = magic_fence)).
Proof. exact fence_corruption_detected. Qed.
Print Assumptions C17_fence_corruption_detected.

(* in-bounds writes, whatever they are, are never reported *)
Theorem C17_inbounds_never_reported : forall m0 raw size fence ws, 0 <= size -> 0 <= fence ->
  (forall w, In w ws -> raw + fence <= fst w < raw + fence + size) ->
  lowlevel_cycle m0 raw size fence ws = [].
Proof. exact inbounds_never_reported. Qed.
Print Assumptions C17_inbounds_never_reported.

(* fill patterns are exact *)
Theorem C17_fill_new_exact : forall m mem size fence x, 0 <= size -> 0 <= fence ->
  let '(m', node) := fill_new m mem size fence in
  node = mem + fence /\
  (mem <= x < mem + fence -> m' x = magic_fence) /\
  (node <= x < node + size -> m' x = magic_new) /\
  (node + size <= x < node + size + fence -> m' x = magic_fence) /\
  (x < mem \/ node + size + fence <= x -> m' x = m x).
Proof. exact fill_new_exact. Qed.
Print Assumptions C17_fill_new_exact.

Theorem C17_fill_free_exact : forall m node size fence x, 0 <= size -> 0 <= fence ->
  let m' := fst (fst (fill_free m node size fence)) in
  (node <= x < node + size -> m' x = magic_freed) /\ (x < node \/ node + size <= x -> m' x = m x).
Proof. exact fill_free_exact. Qed.
Print Assumptions C17_fill_free_exact.

Example C17_nonvacuous :
  map (fun c => snd c) (lowlevel_cycle (fun _ => 0) 1000 32 16 [(1016 + 34, 1); (1016 + 33, 2); (1016 - 3, 9); (1016 + 5, 253)]) = [1013; 1049].
Proof. vm_compute. reflexivity. Qed.
