(* memory_stack Exec model: markers, unwinding, block discipline. *)
From Coq Require Import ZArith NArith List Bool Lia Arith ZifyBool ZifyNat.
From FM Require Import Wrap GenArith FixedStack FixedStackProofs Stack ListLib.
Import ListNotations.
Local Open Scope Z_scope.

Lemma hdr_is_generated : hdr = Z.of_N implementation_offset.
Proof. reflexivity. Qed.

(* ---------- histories with a harness-style marker table ---------- *)
Inductive hop :=
  | HAlloc (size al : Z) (answer : option Z)
  | HTry (size al : Z)
  | HTop
  | HUnwind (k : nat)        (* k-th marker still valid, oldest = 0; discards the newer ones *)
  | HShrink.

Definition gmarker := (marker * list blk)%type.     (* marker + ghost: the used stack when it was taken *)

(* markers are kept newest first *)
Definition hstep (fence : Z) (st : sst * list gmarker) (o : hop) : (sst * list gmarker) * sout * list ucall * list (Z * Z) :=
  let '(s, ms) := st in
  match o with
  | HAlloc size al ans => let '(s', out, c, w) := step fence s (SAlloc size al) ans in ((s', ms), out, c, w)
  | HTry size al => let '(s', out, c, w) := step fence s (STry size al) None in ((s', ms), out, c, w)
  | HTop => ((s, (top_marker s, s_used s) :: ms), SMarker (top_marker s), [], [])
  | HUnwind k =>
      let n := length ms in
      match nth_error (rev ms) k with
      | None => ((s, ms), SDone, [], [])
      | Some gm => let '(s', out, c, w) := step fence s (SUnwind (fst gm)) None in
                   ((s', skipn (n - S k) ms), out, c, w)
      end
  | HShrink => let '(s', out, c, w) := step fence s SShrink None in ((s', ms), out, c, w)
  end.

Fixpoint hrun (fence : Z) (st : sst * list gmarker) (h : list hop) : sst * list gmarker :=
  match h with [] => st | o :: tl => hrun fence (fst (fst (fst (hstep fence st o)))) tl end.

(* ---------- validity of a marker in a state ---------- *)
Definition mvalid (s : sst) (gm : gmarker) : Prop :=
  let '(m, blocks) := gm in
  exists upper, s_used s = upper ++ blocks /\ blocks <> [] /\ length blocks = S (m_index m) /\
                m_end m = (match blocks with b :: _ => b_end b | [] => 0 end) /\
                (upper = [] -> m_top m <= s_top s).

(* a newer marker is at or above every older one *)
Definition mge (newer older : gmarker) : Prop :=
  exists up, snd newer = up ++ snd older /\ (up = [] -> m_top (fst older) <= m_top (fst newer)).

Fixpoint msorted (ms : list gmarker) : Prop :=
  match ms with [] => True | m :: tl => Forall (fun o => mge m o) tl /\ msorted tl end.

Definition MInv (st : sst * list gmarker) : Prop :=
  s_used (fst st) <> [] /\ Forall (mvalid (fst st)) (snd st) /\ msorted (snd st).

Lemma drop_blocks_app upper blocks cache :
  drop_blocks (length upper) (upper ++ blocks) cache = (blocks, rev upper ++ cache).
Proof.
  revert cache. induction upper as [|b u IH]; intros cache; cbn; [destruct blocks; reflexivity|].
  rewrite IH. rewrite <- app_assoc. reflexivity.
Qed.

Section Run.
Variable fence : Z.
Hypothesis Hfence : 0 <= fence.

Definition op_ok (o : hop) : Prop :=
  match o with HAlloc size al _ | HTry size al => 0 <= size /\ 0 < al | _ => True end.

(* what unwinding to a valid marker computes *)
Lemma unwind_valid s gm : s_used s <> [] -> mvalid s gm ->
  exists cache', fst (fst (fst (step fence s (SUnwind (fst gm)) None))) =
                   set_alloc s (snd gm) cache' (m_top (fst gm)) (s_next s)
                             (filter (keep (snd gm) (m_top (fst gm))) (s_live s)) /\
                 snd (fst (fst (step fence s (SUnwind (fst gm)) None))) = SDone /\
                 snd (fst (step fence s (SUnwind (fst gm)) None)) = [] /\
                 (exists dropped, s_used s = dropped ++ snd gm /\ cache' = rev dropped ++ s_cache s).
Proof.
  intros Hne V. destruct gm as [m blocks]. cbn [fst snd]. destruct V as (upper & Eu & Hb & Hl & He & Ht).
  unfold step. rewrite Eu, app_length, Hl.
  replace (length upper + S (m_index m) - 1)%nat with (length upper + m_index m)%nat by lia.
  destruct (Nat.ltb_spec (length upper + m_index m) (m_index m)) as [Hlt|Hge].
  - destruct upper; cbn in Hlt; lia.
  - replace (length upper + m_index m - m_index m)%nat with (length upper) by lia.
    destruct upper as [|u0 upper].
    + cbn [length app]. specialize (Ht eq_refl).
      destruct (Z.ltb_spec (s_top s) (m_top m)); [lia|].
      exists (s_cache s). cbn. repeat split; try reflexivity.
      exists []. split; reflexivity.
    + change (length (u0 :: upper)) with (S (length upper)).
      change (S (length upper)) with (length (u0 :: upper)).
      rewrite drop_blocks_app.
      destruct blocks as [|b0 blocks]; [contradiction|].
      rewrite He, Z.eqb_refl. cbn [negb].
      exists (rev (u0 :: upper) ++ s_cache s). cbn [fst snd]. repeat split; try reflexivity.
      exists (u0 :: upper). split; reflexivity.
Qed.

Lemma mvalid_cons_block s gm b cache top next live :
  mvalid s gm -> mvalid (set_alloc s (b :: s_used s) cache top next live) gm.
Proof.
  destruct gm as [m blocks]. intros (upper & Eu & Hb & Hl & He & Ht). exists (b :: upper). cbn. rewrite Eu.
  repeat split; try assumption; try reflexivity. discriminate.
Qed.

Lemma mvalid_bump s gm cache top next live :
  mvalid s gm -> s_top s <= top -> mvalid (set_alloc s (s_used s) cache top next live) gm.
Proof.
  destruct gm as [m blocks]. intros (upper & Eu & Hb & Hl & He & Ht) Hle. exists upper. cbn.
  repeat split; try assumption. intros E. specialize (Ht E). lia.
Qed.

Lemma alloc_preserves s size al ans gm : 0 <= size -> 0 < al -> mvalid s gm ->
  mvalid (fst (fst (fst (step fence s (SAlloc size al) ans)))) gm /\
  (s_used s <> [] -> s_used (fst (fst (fst (step fence s (SAlloc size al) ans)))) <> []).
Proof.
  intros Hs Hal V. unfold step.
  pose proof (align_off_bounds (s_top s + fence) al Hal) as Hob.
  destruct ((s_top s =? 0) || _) eqn:G.
  - unfold take_block. destruct (s_cache s) as [|b c].
    + destruct (s_kind s), (s_next s =? 0), ans; cbn; try (split; [assumption|tauto]);
        match goal with |- context [if ?c then _ else _] => destruct c end; cbn; (split; [apply mvalid_cons_block; assumption|discriminate]).
    + cbn. match goal with |- context [if ?c then _ else _] => destruct c end; cbn; (split; [apply mvalid_cons_block; assumption|discriminate]).
  - cbn. split; [|tauto]. apply mvalid_bump; [assumption|lia].
Qed.

Lemma try_preserves s size al gm : 0 <= size -> 0 < al -> mvalid s gm ->
  mvalid (fst (fst (fst (step fence s (STry size al) None)))) gm /\
  s_used (fst (fst (fst (step fence s (STry size al) None)))) = s_used s.
Proof.
  intros Hs Hal V. unfold step.
  destruct (fs_alloc fence (s_top s) (cur_end s) size al) as [[p top']|] eqn:E; cbn; [|split; [assumption|reflexivity]].
  apply fs_alloc_spec in E; try assumption. split; [|reflexivity]. apply mvalid_bump; [assumption|lia].
Qed.

Lemma alloc_used_ne s size al ans : s_used s <> [] -> s_used (fst (fst (fst (step fence s (SAlloc size al) ans)))) <> [].
Proof.
  intros Hne. unfold step. destruct ((s_top s =? 0) || _).
  - unfold take_block. destruct (s_cache s) as [|b c].
    + destruct (s_kind s), (s_next s =? 0), ans; cbn; try assumption;
        match goal with |- context [if ?c then _ else _] => destruct c end; cbn; discriminate.
    + cbn. match goal with |- context [if ?c then _ else _] => destruct c end; cbn; discriminate.
  - cbn. assumption.
Qed.

Lemma try_used_eq s size al : s_used (fst (fst (fst (step fence s (STry size al) None)))) = s_used s.
Proof. unfold step. destruct (fs_alloc fence (s_top s) (cur_end s) size al) as [[p top']|]; reflexivity. Qed.

Lemma mge_trans a b c : mge a b -> mge b c -> mge a c.
Proof.
  intros (u1 & E1 & T1) (u2 & E2 & T2). exists (u1 ++ u2). rewrite E1, E2, app_assoc. split; [reflexivity|].
  intros E. apply app_eq_nil in E as [-> ->]. specialize (T1 eq_refl). specialize (T2 eq_refl). lia.
Qed.

Lemma msorted_skipn n ms : msorted ms -> msorted (skipn n ms).
Proof.
  revert ms. induction n as [|n IH]; intros ms H; [exact H|]. destruct ms as [|m ms]; [exact H|]. cbn. apply IH. apply H.
Qed.

Lemma nth_rev_skipn {A} (ms : list A) k x : nth_error (rev ms) k = Some x ->
  exists newer older, ms = newer ++ x :: older /\ skipn (length ms - S k) ms = x :: older /\ length older = k.
Proof.
  intros H. assert (Hk : (k < length ms)%nat) by (rewrite <- rev_length; apply nth_error_Some; congruence).
  apply nth_error_split in H as (l1 & l2 & E & Hl).
  assert (E' : ms = rev l2 ++ x :: rev l1).
  { rewrite <- (rev_involutive ms), E, rev_app_distr. cbn. rewrite <- app_assoc. reflexivity. }
  exists (rev l2), (rev l1). split; [assumption|]. split; [|rewrite rev_length; assumption].
  rewrite E' at 2. rewrite E', app_length. cbn. rewrite !rev_length, Hl.
  replace (length l2 + S k - S k)%nat with (length (rev l2)) by (rewrite rev_length; lia).
  rewrite skipn_app, skipn_all, Nat.sub_diag. reflexivity.
Qed.

Theorem hstep_inv st o : MInv st -> op_ok o -> MInv (fst (fst (fst (hstep fence st o)))).
Proof.
  destruct st as [s ms]. intros (Hne & Hv & Hs) Hok. destruct o as [size al ans|size al| |k|]; cbn [hstep].
  - destruct Hok as [H1 H2].
    destruct (step fence s (SAlloc size al) ans) as [[[s' out] c] w] eqn:E. cbn.
    assert (Es : s' = fst (fst (fst (step fence s (SAlloc size al) ans)))) by (rewrite E; reflexivity).
    unfold MInv; cbn. split; [rewrite Es; apply alloc_used_ne; assumption|].
    split; [|assumption]. rewrite Forall_forall in *. intros gm Hgm. rewrite Es. apply alloc_preserves; try assumption. apply Hv. assumption.
  - destruct Hok as [H1 H2].
    destruct (step fence s (STry size al) None) as [[[s' out] c] w] eqn:E. cbn.
    assert (Es : s' = fst (fst (fst (step fence s (STry size al) None)))) by (rewrite E; reflexivity).
    unfold MInv; cbn. split; [rewrite Es, try_used_eq; assumption|].
    split; [|assumption]. rewrite Forall_forall in *. intros gm Hgm. rewrite Es. apply try_preserves; try assumption. apply Hv. assumption.
  - unfold MInv; cbn. split; [assumption|]. split.
    + constructor; [|assumption]. exists []. cbn. destruct (s_used s) as [|b u] eqn:Eu; [contradiction|].
      repeat split; try reflexivity; try discriminate; try lia; try (cbn; rewrite Nat.sub_0_r; reflexivity).
      unfold cur_end. rewrite Eu. reflexivity.
    + split; [|assumption]. rewrite Forall_forall in *. intros [m blocks] Hgm.
      destruct (Hv _ Hgm) as (upper & Eu & Hb & Hl & He & Ht). exists upper. cbn. split; [assumption|]. cbn in Ht. exact Ht.
  - destruct (nth_error (rev ms) k) as [gm|] eqn:En; [|cbn; repeat split; assumption].
    destruct (nth_rev_skipn ms k gm En) as (newer & older & Ems & Esk & Hlen).
    assert (Hgv : mvalid s gm) by (rewrite Forall_forall in Hv; apply Hv; rewrite Ems; apply in_app_iff; right; left; reflexivity).
    destruct (unwind_valid s gm Hne Hgv) as (cache' & E1 & E2 & E3 & _).
    destruct (step fence s (SUnwind (fst gm)) None) as [[[s' out] c] w]. cbn in E1, E2, E3 |- *. subst s'.
    rewrite Esk.
    assert (Hs' : msorted (gm :: older)) by (rewrite <- Esk; apply msorted_skipn; assumption).
    destruct gm as [m blocks]. destruct Hgv as (upper & Eu & Hb & Hl & He & Ht).
    unfold MInv; cbn [fst snd set_alloc s_used]. split; [assumption|]. split; [|assumption].
    constructor.
    + exists []. cbn. repeat split; try assumption; try reflexivity; try lia.
    + destruct Hs' as [Hge _]. rewrite Forall_forall in *. intros [m1 b1] Hin. specialize (Hge _ Hin).
      destruct Hge as (up & Eup & Tup). cbn in Eup, Tup.
      assert (V1 : mvalid s (m1, b1)) by (apply Hv; rewrite Ems; apply in_app_iff; right; right; assumption).
      destruct V1 as (upper1 & Eu1 & Hb1 & Hl1 & He1 & Ht1).
      exists up. cbn. repeat split; try assumption.
  - destruct (step fence s SShrink None) as [[[s' out] c] w] eqn:E. cbn in E. injection E as <- _ _ _. cbn.
    unfold MInv; cbn. split; [assumption|]. split; [|assumption].
    rewrite Forall_forall in *. intros [m blocks] Hgm. destruct (Hv _ Hgm) as (upper & Eu & Hb & Hl & He & Ht).
    exists upper. cbn. repeat split; assumption.
Qed.

Lemma hrun_inv : forall h st, MInv st -> Forall op_ok h -> MInv (hrun fence st h).
Proof.
  induction h as [|o h IH]; intros st I Hok; cbn; [assumption|]. inversion Hok; subst.
  apply IH; [apply hstep_inv; assumption|assumption].
Qed.

(* C06: whatever happened since a marker was taken (allocations, growth, nested markers and unwinds,
   shrink_to_fit), unwinding to it gives back exactly the block stack and the top of that moment *)
Theorem unwind_restores s0 h : s_used s0 <> [] -> Forall op_ok h ->
  let st1 := hrun fence (s0, [(top_marker s0, s_used s0)]) h in
  forall gm, In gm (snd st1) ->
    let s2 := fst (fst (fst (step fence (fst st1) (SUnwind (fst gm)) None))) in
    s_used s2 = snd gm /\ s_top s2 = m_top (fst gm) /\
    snd (fst (fst (step fence (fst st1) (SUnwind (fst gm)) None))) = SDone /\
    snd (fst (step fence (fst st1) (SUnwind (fst gm)) None)) = [].
Proof.
  intros Hne Hok st1 gm Hin.
  assert (I0 : MInv (s0, [(top_marker s0, s_used s0)])).
  { unfold MInv; cbn. split; [assumption|]. split; [|split; [constructor|exact Logic.I]].
    constructor; [|constructor]. exists []. cbn. unfold cur_end. destruct (s_used s0) as [|b u]; [contradiction|].
    repeat split; try reflexivity; try discriminate; try lia; try (cbn; rewrite Nat.sub_0_r; reflexivity). }
  pose proof (hrun_inv h _ I0 Hok) as (Hne1 & Hv1 & _). fold st1 in Hne1, Hv1.
  rewrite Forall_forall in Hv1. destruct (unwind_valid (fst st1) gm Hne1 (Hv1 gm Hin)) as (cache' & E1 & E2 & E3 & _).
  cbv zeta. rewrite E1. cbn. repeat split; assumption.
Qed.
End Run.

(* ---------- markers are ordered consistently with the order in which they were taken ---------- *)
Definition marker_le (a b : marker) : Prop :=
  (m_index a < m_index b)%nat \/ (m_index a = m_index b /\ m_top a <= m_top b).

Lemma mge_marker_le (newer older : gmarker) :
  length (snd newer) = S (m_index (fst newer)) -> length (snd older) = S (m_index (fst older)) ->
  mge newer older -> marker_le (fst older) (fst newer).
Proof.
  intros L1 L2 (up & E & T). rewrite E, app_length in L1. destruct up as [|u up].
  - right. cbn in L1. split; [lia|]. apply T. reflexivity.
  - left. cbn in L1. lia.
Qed.

Section Order.
Variable fence : Z.
Hypothesis Hfence : 0 <= fence.

Theorem markers_totally_ordered s0 h : s_used s0 <> [] -> Forall op_ok h ->
  let st1 := hrun fence (s0, []) h in
  forall newer older rest1 rest2, snd st1 = rest1 ++ newer :: rest2 -> In older rest2 ->
    marker_le (fst older) (fst newer).
Proof.
  intros Hne Hok st1 newer older rest1 rest2 E Hin.
  assert (I0 : MInv (s0, [])) by (unfold MInv; cbn; repeat split; [assumption|constructor]).
  pose proof (hrun_inv fence Hfence h _ I0 Hok) as (_ & Hv & Hs). fold st1 in Hv, Hs.
  rewrite E in Hs, Hv.
  assert (Hs2 : msorted (newer :: rest2)).
  { clear -Hs. induction rest1 as [|x r IH]; [exact Hs|]. apply IH. apply Hs. }
  destruct Hs2 as [Hge _]. rewrite Forall_forall in Hge, Hv.
  assert (V1 : mvalid (fst st1) newer) by (apply Hv; apply in_app_iff; right; left; reflexivity).
  assert (V2 : mvalid (fst st1) older) by (apply Hv; apply in_app_iff; right; right; assumption).
  destruct newer as [m1 b1], older as [m2 b2].
  destruct V1 as (_ & _ & _ & L1 & _). destruct V2 as (_ & _ & _ & L2 & _).
  apply mge_marker_le; [exact L1|exact L2|]. apply Hge. assumption.
Qed.
End Order.

(* ---------- C05 for the stack: upstream blocks are a LIFO; everything goes back exactly once ---------- *)
(* blocks held, oldest first: the used stack bottom-up, then the cache in reuse order *)
Definition order (s : sst) : list blk := rev (s_used s) ++ s_cache s.

(* replay of upstream calls against the list of blocks held (oldest first): an allocation appends,
   a release must give back the newest block, with its address and size *)
Fixpoint apply_calls (held : list blk) (cs : list ucall) : option (list blk) :=
  match cs with
  | [] => Some held
  | UAlloc size (Some a) :: tl => apply_calls (held ++ [(a, size)]) tl
  | UAlloc _ None :: tl => apply_calls held tl
  | UFree a size :: tl =>
      match rev held with
      | (a0, s0) :: r => if (a0 =? a) && (s0 =? size) then apply_calls (rev r) tl else None
      | [] => None
      end
  end.

Lemma apply_free_all : forall (l held : list blk),
  apply_calls (held ++ l) (map (fun b => UFree (fst b) (snd b)) (rev l)) = Some held.
Proof.
  induction l as [|b l IH] using rev_ind; intros held; cbn; [rewrite app_nil_r; reflexivity|].
  rewrite rev_app_distr. cbn. rewrite app_assoc, rev_app_distr. cbn. destruct b as [a sz]. cbn.
  rewrite !Z.eqb_refl. cbn. rewrite rev_involutive. apply IH.
Qed.

Lemma drop_blocks_order : forall n used cache used' cache',
  drop_blocks n used cache = (used', cache') -> rev used' ++ cache' = rev used ++ cache.
Proof.
  induction n as [|n IH]; intros used cache used' cache' H; cbn in H; [injection H as <- <-; reflexivity|].
  destruct used as [|b u]; [injection H as <- <-; reflexivity|].
  apply IH in H. rewrite H. cbn. rewrite <- app_assoc. reflexivity.
Qed.

Section Blocks.
Variable fence : Z.

Theorem step_lifo s o ans : 
  let '(s', out, calls, w) := step fence s o ans in
  apply_calls (order s) calls = Some (order s').
Proof.
  destruct o as [size al|size al| |m|]; unfold step.
  - destruct ((s_top s =? 0) || _).
    + unfold take_block, order. destruct (s_cache s) as [|b c] eqn:Ec.
      * destruct (s_kind s), (s_next s =? 0), ans; cbn; rewrite ?Ec, ?app_nil_r; try reflexivity;
          match goal with |- context [if ?c then _ else _] => destruct c end; cbn; rewrite ?Ec, ?app_nil_r; reflexivity.
      * match goal with |- context [if ?c then _ else _] => destruct c end; cbn; rewrite ?Ec, <- ?app_assoc; reflexivity.
    + cbn. reflexivity.
  - destruct (fs_alloc fence (s_top s) (cur_end s) size al) as [[p top']|]; reflexivity.
  - reflexivity.
  - destruct (Nat.ltb _ _); [reflexivity|].
    destruct (length (s_used s) - 1 - m_index m)%nat eqn:En.
    + destruct (s_top s <? m_top m); reflexivity.
    + destruct (drop_blocks (S n) (s_used s) (s_cache s)) as [used cache] eqn:Ed.
      apply drop_blocks_order in Ed.
      destruct (negb _); cbn; unfold order; cbn; rewrite Ed; reflexivity.
  - cbn. unfold order; cbn. rewrite app_nil_r. apply apply_free_all.
Qed.

(* destruction returns every block still held, newest first, and nothing else *)
Theorem destroy_returns_all s : apply_calls (order s) (destroy_calls s) = Some [].
Proof.
  unfold destroy_calls, order.
  replace (map (fun b => UFree (fst b) (snd b)) (rev (s_cache s)) ++ map (fun b => UFree (fst b) (snd b)) (s_used s))
    with (map (fun b => UFree (fst b) (snd b)) (rev (rev (s_used s) ++ s_cache s))).
  - apply (apply_free_all (rev (s_used s) ++ s_cache s) []).
  - rewrite rev_app_distr, rev_involutive, map_app. reflexivity.
Qed.

(* cached blocks are reused before the upstream source is asked: an upstream allocation only happens with an empty cache *)
Theorem upstream_only_when_cache_empty s o ans :
  let '(s', out, calls, w) := step fence s o ans in
  (exists sz a, In (UAlloc sz a) calls) -> s_cache s = [].
Proof.
  destruct o as [size al|size al| |m|]; unfold step.
  - destruct ((s_top s =? 0) || _).
    + unfold take_block. destruct (s_cache s) as [|b c] eqn:Ec.
      * intros; destruct (s_kind s), (s_next s =? 0), ans; cbn; try reflexivity; try (match goal with |- context [if ?c then _ else _] => destruct c end); reflexivity.
      * match goal with |- context [if ?c then _ else _] => destruct c end; cbn; intros (sz & a & []).
    + cbn. intros (sz & a & []).
  - destruct (fs_alloc fence (s_top s) (cur_end s) size al) as [[p top']|]; cbn; intros (sz & a & []).
  - cbn. intros (sz & a & []).
  - destruct (Nat.ltb _ _); [cbn; intros (sz & a & [])|].
    destruct (length (s_used s) - 1 - m_index m)%nat.
    + destruct (s_top s <? m_top m); cbn; intros (sz & a & []).
    + destruct (drop_blocks (S n) (s_used s) (s_cache s)) as [used cache].
      destruct (negb _); cbn; intros (sz & a & []).
  - cbn. intros (sz & a & Hin). apply in_map_iff in Hin as (b & Hb & _). discriminate.
Qed.
End Blocks.

(* ---------- C01/C02/C03 for the stack: where allocations lie ---------- *)
Definition bdisj (a b : blk) : Prop := fst a + snd a <= fst b \/ fst b + snd b <= fst a.
Definition adisj (a b : Z * Z) : Prop := fst a + snd a <= fst b \/ fst b + snd b <= fst a.

Definition blk_ok (b : blk) : Prop := 0 < fst b /\ hdr < snd b.
Definition in_block (b : blk) (a : Z * Z) : Prop := b_mem b <= fst a /\ fst a + snd a <= b_end b.

Record SInv (s : sst) : Prop := {
  si_ne    : s_used s <> [];
  si_blk   : Forall blk_ok (s_used s ++ s_cache s);
  si_disj  : pairwise bdisj (s_used s ++ s_cache s);
  si_top   : match s_used s with b :: _ => b_mem b <= s_top s <= b_end b | [] => False end;
  si_live  : Forall (fun a => 0 <= snd a /\ exists b, In b (s_used s) /\ in_block b a /\
                               (match s_used s with hb :: _ => b = hb -> fst a + snd a <= s_top s | [] => True end)) (s_live s);
  si_ldisj : pairwise adisj (s_live s) }.

Definition answer_ok (s : sst) (ans : option Z) : Prop :=
  match ans with
  | None => True
  | Some a => 0 < a /\ hdr < s_next s /\ Forall (bdisj (a, s_next s)) (s_used s ++ s_cache s)
  end.

Lemma pairwise_app_inv {A} (R : A -> A -> Prop) (l1 l2 : list A) : pairwise R (l1 ++ l2) -> pairwise R l1 /\ pairwise R l2.
Proof.
  induction l1 as [|a l1 IH]; cbn; [tauto|]. intros [Ha Hl]. apply Forall_app in Ha as [Ha1 Ha2].
  destruct (IH Hl) as [H1 H2]. tauto.
Qed.

Lemma bdisj_sym a b : bdisj a b -> bdisj b a. Proof. unfold bdisj; tauto. Qed.

Section Alloc.
Variable fence : Z.
Hypothesis Hfence : 0 <= fence.

(* an allocation in the current block: p >= top, hence above everything live there *)
Lemma bump_inv s p size top' : SInv s -> 0 <= size -> s_top s <= p -> p + size <= top' ->
  (match s_used s with b :: _ => top' <= b_end b | [] => False end) ->
  SInv (set_alloc s (s_used s) (s_cache s) top' (s_next s) ((p, size) :: s_live s)) /\
  Forall (adisj (p, size)) (s_live s).
Proof.
  intros [Hne Hb Hd Ht Hl Hld] Hs Hp Htop He.
  destruct (s_used s) as [|hb u] eqn:Eu; [contradiction|].
  assert (Hdis : Forall (adisj (p, size)) (s_live s)).
  { rewrite Forall_forall in *. intros a Ha. destruct (Hl a Ha) as (Hsz & b & Hbin & [Hi1 Hi2] & Hh).
    unfold adisj; cbn. destruct Hbin as [<-|Hbin].
    - specialize (Hh eq_refl). right. lia.
    - (* older block: disjoint from the current one *)
      cbn in Hd. destruct Hd as [Hd _]. rewrite Forall_forall in Hd.
      assert (bdisj hb b) by (apply Hd; apply in_app_iff; left; assumption).
      unfold bdisj, b_mem, b_end, hdr in *. lia. }
  split; [|assumption]. constructor; cbn; try assumption; try discriminate.
  - lia.
  - constructor.
    + cbn. split; [assumption|]. exists hb. split; [left; reflexivity|]. split; [unfold in_block; cbn; lia|]. intros _. lia.
    + rewrite Forall_forall in *. intros a Ha. destruct (Hl a Ha) as (Hsz & b & Hbin & Hi & Hh).
      split; [assumption|]. exists b. split; [assumption|]. split; [assumption|]. intros E. specialize (Hh E). lia.
  - split; assumption.
Qed.

Theorem alloc_spec s size al ans s' out calls w : SInv s -> 0 <= size -> 0 < al -> answer_ok s ans ->
  step fence s (SAlloc size al) ans = (s', out, calls, w) ->
  SInv s' /\
  match out with
  | SOk p => p <> 0 /\ p mod al = 0 /\
             (exists b, In b (s_used s') /\ b_mem b <= p /\ p + size <= b_end b) /\
             Forall (adisj (p, size)) (s_live s) /\ s_live s' = (p, size) :: s_live s
  | SThrowUpstream | SThrowFixed | SThrowBadSize => s_live s' = s_live s
  | _ => False
  end.
Proof.
  intros I Hs Hal Hans H. unfold step in H.
  pose proof (align_off_bounds (s_top s + fence) al Hal) as Hob.
  pose proof (align_off_aligns (s_top s + fence) al Hal) as Hoa.
  destruct I as [Hne Hb Hd Ht Hl Hld] eqn:EI. clear EI.
  destruct ((s_top s =? 0) || _) eqn:G.
  - unfold take_block in H.
    assert (Grow : forall b cache next calls0,
              blk_ok b -> Forall (bdisj b) (s_used s ++ cache) -> Forall blk_ok (s_used s ++ cache) -> pairwise bdisj (s_used s ++ cache) ->
              (if fence + align_off (b_mem b + fence) al + size + fence >? b_usable b
               then (set_alloc s (b :: s_used s) cache (b_mem b) next (s_live s), SThrowBadSize, calls0, [(b_mem b, b_usable b)])
               else (set_alloc s (b :: s_used s) cache (b_mem b + fence + align_off (b_mem b + fence) al + size + fence) next
                               ((b_mem b + fence + align_off (b_mem b + fence) al, size) :: s_live s),
                     SOk (b_mem b + fence + align_off (b_mem b + fence) al), calls0, [(b_mem b, b_usable b)])) = (s', out, calls, w) ->
              SInv s' /\ match out with
                         | SOk p => p <> 0 /\ p mod al = 0 /\ (exists b, In b (s_used s') /\ b_mem b <= p /\ p + size <= b_end b) /\
                                    Forall (adisj (p, size)) (s_live s) /\ s_live s' = (p, size) :: s_live s
                         | SThrowUpstream | SThrowFixed | SThrowBadSize => s_live s' = s_live s
                         | _ => False end).
    { intros b cache next calls0 Hbok Hbd Hball Hpw E.
      pose proof (align_off_bounds (b_mem b + fence) al Hal) as Hob2.
      pose proof (align_off_aligns (b_mem b + fence) al Hal) as Hoa2.
      destruct Hbok as [Hb1 Hb2]. unfold b_mem, b_usable, b_end, hdr in *.
      assert (LiveOld : Forall (fun a => 0 <= snd a /\ exists b0, In b0 (b :: s_used s) /\ in_block b0 a /\ (b0 = b -> fst a + snd a <= fst b + 16)) (s_live s)).
      { rewrite Forall_forall in *. intros a Ha. destruct (Hl a Ha) as (Hsz & b0 & Hb0 & Hi & _).
        split; [assumption|]. exists b0. split; [right; assumption|]. split; [assumption|].
        intros ->. exfalso. (* b is disjoint from every block in use, so it cannot hold an old allocation *)
        assert (bdisj b b) by (apply Hbd; apply in_app_iff; left; assumption). unfold bdisj in *. lia. }
      assert (LiveDisj : forall p, fst b + 16 <= p -> p + size <= fst b + snd b -> Forall (adisj (p, size)) (s_live s)).
      { intros p Hp1 Hp2. rewrite Forall_forall in *. intros a Ha. destruct (Hl a Ha) as (Hsz & b0 & Hb0 & [Hi1 Hi2] & _).
        assert (bdisj b b0) by (apply Hbd; apply in_app_iff; left; assumption).
        unfold adisj, bdisj, b_mem, b_end, hdr in *; cbn. lia. }
      destruct (Z.gtb_spec (fence + align_off (fst b + 16 + fence) al + size + fence) (snd b - 16)) as [Hbig|Hfit];
        injection E as <- <- <- <-.
      - split; [|reflexivity]. constructor; cbn; try discriminate.
        + constructor; [split; assumption|assumption].
        + split; assumption.
        + unfold b_mem, b_end, hdr. lia.
        + rewrite Forall_forall in *. intros a Ha. destruct (LiveOld a Ha) as (Hsz & b0 & Hb0 & Hi & Hh).
          split; [assumption|]. exists b0. split; [assumption|]. split; [assumption|]. unfold b_mem, hdr. exact Hh.
        + assumption.
      - set (p := fst b + 16 + fence + align_off (fst b + 16 + fence) al) in *.
        assert (Hp1 : fst b + 16 <= p) by (unfold p; lia).
        assert (Hp2 : p + size + fence <= fst b + snd b) by (unfold p; lia).
        split.
        + constructor; cbn; try discriminate.
          * constructor; [split; assumption|assumption].
          * split; assumption.
          * unfold b_mem, b_end, hdr. lia.
          * constructor.
            -- cbn. split; [assumption|]. exists b. split; [left; reflexivity|]. split; [unfold in_block, b_mem, b_end, hdr; cbn; lia|]. intros _. lia.
            -- rewrite Forall_forall in *. intros a Ha. destruct (LiveOld a Ha) as (Hsz & b0 & Hb0 & Hi & Hh).
               split; [assumption|]. exists b0. split; [assumption|]. split; [assumption|]. intros E. specialize (Hh E). lia.
          * split; [apply LiveDisj; lia|assumption].
        + split; [lia|]. split; [unfold p; replace (fst b + 16 + fence + align_off (fst b + 16 + fence) al) with ((fst b + 16 + fence) + align_off (fst b + 16 + fence) al) by lia; exact Hoa2|].
          split; [exists b; split; [left; reflexivity|unfold b_mem, b_end, hdr; lia]|]. split; [apply LiveDisj; lia|reflexivity]. }
    destruct (s_cache s) as [|b c] eqn:Ec.
    + destruct (s_kind s) eqn:Ek; destruct (s_next s =? 0) eqn:En; destruct ans as [a|];
        try (injection H as <- <- <- <-; split; [constructor; rewrite ?Ec; assumption|reflexivity]).
      all: cbn in Hans; destruct Hans as (Ha0 & Hn & Hdj); rewrite Ec in *.
      all: eapply (Grow (a, s_next s) []); try eassumption; try (split; assumption).
    + assert (Hbok : blk_ok b) by (rewrite Forall_forall in Hb; apply Hb; apply in_app_iff; right; left; reflexivity).
      assert (Hsplit : Forall (bdisj b) (s_used s ++ c) /\ Forall blk_ok (s_used s ++ c) /\ pairwise bdisj (s_used s ++ c)).
      { clear -Hb Hd. induction (s_used s) as [|x u IH]; cbn in *.
        - destruct Hd as [Hd1 Hd2]. inversion Hb; subst. repeat split; assumption.
        - destruct Hd as [Hd1 Hd2]. inversion Hb as [|? ? Hx Hb']; subst. destruct (IH Hb' Hd2) as (I1 & I2 & I3).
          apply Forall_app in Hd1 as [Hd1a Hd1b]. inversion Hd1b as [|? ? Hxb Hd1c]; subst.
          split; [constructor; [apply bdisj_sym; assumption|assumption]|]. split; [constructor; assumption|].
          split; [apply Forall_app; split; assumption|assumption]. }
      destruct Hsplit as (S1 & S2 & S3). eapply (Grow b c); eassumption.
  - apply orb_false_iff in G as [G1 G2]. apply Z.eqb_neq in G1.
    destruct (Z.gtb_spec (fence + align_off (s_top s + fence) al + size + fence) (cur_end s - s_top s)) as [|Hfit]; [discriminate|].
    injection H as <- <- <- <-.
    set (p := s_top s + fence + align_off (s_top s + fence) al) in *.
    assert (I2 : SInv s) by (constructor; assumption).
    destruct (s_used s) as [|hb u] eqn:Eu; [contradiction|]. unfold cur_end in Hfit. rewrite Eu in Hfit.
    destruct (bump_inv s p size (p + size + fence) I2 Hs ltac:(unfold p; lia) ltac:(lia) ltac:(rewrite Eu; unfold p; lia)) as [I' Hdj].
    rewrite Eu in I'. split; [exact I'|].
    assert (Hpos : 0 < s_top s).
    { cbn in Hb. inversion Hb as [|? ? [Hb1 _] _]; subst. unfold b_mem, hdr in Ht. lia. }
    split; [unfold p; lia|]. split; [unfold p; replace (s_top s + fence + align_off (s_top s + fence) al) with ((s_top s + fence) + align_off (s_top s + fence) al) by lia; exact Hoa|].
    split; [exists hb; split; [left; reflexivity|unfold p; lia]|]. split; [exact Hdj|reflexivity].
Qed.

(* try_allocate: never an upstream call, never an exception; null leaves everything as it was *)
Theorem try_spec s size al s' out calls w : SInv s -> 0 <= size -> 0 < al ->
  step fence s (STry size al) None = (s', out, calls, w) ->
  calls = [] /\ SInv s' /\
  match out with
  | SOk p => p <> 0 /\ p mod al = 0 /\ (exists b, In b (s_used s') /\ b_mem b <= p /\ p + size <= b_end b) /\
             Forall (adisj (p, size)) (s_live s) /\ s_live s' = (p, size) :: s_live s
  | SNull => s' = s
  | _ => False
  end.
Proof.
  intros I Hs Hal H. unfold step in H.
  destruct (fs_alloc fence (s_top s) (cur_end s) size al) as [[p top']|] eqn:E; injection H as <- <- <- <-.
  - split; [reflexivity|]. apply fs_alloc_spec in E; try assumption. destruct E as (Hne & Hlo & Hhi & Hmod & Htop & Hend).
    pose proof I as [Hne' Hb _ Ht _ _].
    destruct (s_used s) as [|hb u] eqn:Eu; [contradiction|]. unfold cur_end in Hend. rewrite Eu in Hend.
    destruct (bump_inv s p size top' I Hs ltac:(lia) ltac:(lia) ltac:(rewrite Eu; lia)) as [I' Hdj].
    assert (Hpos : 0 < s_top s).
    { cbn in Hb. inversion Hb as [|? ? [Hb1 _] _]; subst. unfold b_mem, hdr in Ht. lia. }
    rewrite Eu in I'. split; [exact I'|]. split; [lia|]. split; [assumption|].
    split; [exists hb; split; [left; reflexivity|lia]|]. split; [exact Hdj|reflexivity].
  - split; [reflexivity|]. split; [assumption|reflexivity].
Qed.
End Alloc.

(* ---------- C06: replay equality ---------- *)
(* After unwinding to a marker, the same sequence of requests is served at the same addresses as the first
   time, entirely from the cache (no upstream call), as long as the cache has not been purged. *)

(* the allocate path of step, named piecewise (definitionally equal, see step_alloc_eq) *)
Definition need_grow (fence : Z) (s : sst) (size al : Z) : bool :=
  (s_top s =? 0) || (fence + align_off (s_top s + fence) al + size + fence >? cur_end s - s_top s).

Definition grow_into (fence : Z) (s : sst) (b : blk) (cache : list blk) (next : Z) (calls : list ucall) (size al : Z)
  : sst * sout * list ucall * list (Z * Z) :=
  let top := b_mem b in
  let offset' := align_off (top + fence) al in
  let needed := fence + offset' + size + fence in
  if needed >? b_usable b then
    (set_alloc s (b :: s_used s) cache top next (s_live s), SThrowBadSize, calls, [(b_mem b, b_usable b)])
  else
    let p := top + fence + offset' in
    (set_alloc s (b :: s_used s) cache (p + size + fence) next ((p, size) :: s_live s), SOk p, calls, [(b_mem b, b_usable b)]).

Definition alloc_here (fence : Z) (s : sst) (size al : Z) : sst * sout * list ucall * list (Z * Z) :=
  let offset := align_off (s_top s + fence) al in
  let p := s_top s + fence + offset in
  (set_alloc s (s_used s) (s_cache s) (p + size + fence) (s_next s) ((p, size) :: s_live s), SOk p, [],
   [(s_top s, p + size + fence - s_top s)]).

Lemma step_alloc_eq fence s size al ans :
  step fence s (SAlloc size al) ans =
  if need_grow fence s size al then
    match take_block s ans with
    | inr e => (s, e, (match e with SThrowUpstream => [UAlloc (s_next s) None] | _ => [] end), [])
    | inl None => (s, SNull, [], [])
    | inl (Some (b, cache, next, calls)) => grow_into fence s b cache next calls size al
    end
  else alloc_here fence s size al.
Proof. reflexivity. Qed.

Theorem release_only_on_shrink fence s o ans :
  let '(s', out, calls, w) := step fence s o ans in
  o = SShrink \/ forallb (fun c => match c with UFree _ _ => false | _ => true end) calls = true.
Proof.
  destruct o as [size al|size al| |m|]; unfold step.
  - destruct ((s_top s =? 0) || _).
    + unfold take_block. destruct (s_cache s) as [|b c].
      * destruct (s_kind s), (s_next s =? 0), ans; cbn; try (right; reflexivity);
          match goal with |- context [if ?c then _ else _] => destruct c end; right; reflexivity.
      * match goal with |- context [if ?c then _ else _] => destruct c end; right; reflexivity.
    + right. reflexivity.
  - destruct (fs_alloc fence (s_top s) (cur_end s) size al) as [[p top']|]; right; reflexivity.
  - right. reflexivity.
  - destruct (Nat.ltb _ _); [right; reflexivity|].
    destruct (length (s_used s) - 1 - m_index m)%nat.
    + destruct (s_top s <? m_top m); right; reflexivity.
    + destruct (drop_blocks (S n) (s_used s) (s_cache s)) as [used cache].
      destruct (negb _); right; reflexivity.
  - left. reflexivity.
Qed.

Opaque step.

Definition proj_s (r : sst * sout * list ucall * list (Z * Z)) : sst := fst (fst (fst r)).
Definition proj_o (r : sst * sout * list ucall * list (Z * Z)) : sout := snd (fst (fst r)).
Definition proj_c (r : sst * sout * list ucall * list (Z * Z)) : list ucall := snd (fst r).

Definition no_source_failure (o : sout) : Prop := o <> SThrowUpstream /\ o <> SThrowFixed.

(* what growing into block b produces depends on the block and the request only *)
Lemma grow_into_facts fence s b cache next calls size al :
  s_used (proj_s (grow_into fence s b cache next calls size al)) = b :: s_used s /\
  s_cache (proj_s (grow_into fence s b cache next calls size al)) = cache /\
  proj_c (grow_into fence s b cache next calls size al) = calls /\
  no_source_failure (proj_o (grow_into fence s b cache next calls size al)).
Proof.
  unfold grow_into, proj_s, proj_o, proj_c, no_source_failure. cbv zeta.
  destruct (_ >? _); cbn; repeat split; try reflexivity; discriminate.
Qed.

Lemma grow_into_same fence s1 s2 b c1 c2 n1 n2 k1 k2 size al :
  proj_o (grow_into fence s1 b c1 n1 k1 size al) = proj_o (grow_into fence s2 b c2 n2 k2 size al) /\
  s_top (proj_s (grow_into fence s1 b c1 n1 k1 size al)) = s_top (proj_s (grow_into fence s2 b c2 n2 k2 size al)).
Proof.
  unfold grow_into, proj_s, proj_o. cbv zeta. destruct (_ >? _); cbn; split; reflexivity.
Qed.

Definition areq := (Z * Z * option Z)%type.       (* size, alignment, answer of the upstream call if one is made *)

Definition taken_of (s s' : sst) : list blk :=
  if Nat.eqb (length (s_used s')) (S (length (s_used s))) then [hd (0, 0) (s_used s')] else [].

Fixpoint arun (fence : Z) (s : sst) (rs : list areq) : sst * list sout * list blk :=
  match rs with
  | [] => (s, [], [])
  | (size, al, ans) :: tl =>
      let r := step fence s (SAlloc size al) ans in
      let '(sf, outs, cs) := arun fence (proj_s r) tl in (sf, proj_o r :: outs, taken_of s (proj_s r) ++ cs)
  end.

Section Replay.
Variable fence : Z.

(* the second run sees the blocks the first run consumed at the front of its cache *)
Definition sim (sa sb : sst) (G : list blk) : Prop :=
  s_used sa = s_used sb /\ s_top sa = s_top sb /\ exists R, s_cache sb = G ++ R.

Lemma taken_cons s b u : taken_of s {| s_used := b :: s_used s; s_cache := u; s_top := 0; s_next := 0; s_kind := SrcGrow; s_live := [] |} = [b].
Proof. unfold taken_of. cbn. rewrite Nat.eqb_refl. reflexivity. Qed.

Lemma taken_of_push s s' b : s_used s' = b :: s_used s -> taken_of s s' = [b].
Proof. intros E. unfold taken_of. rewrite E. cbn. rewrite Nat.eqb_refl. reflexivity. Qed.

Lemma taken_of_same s s' : s_used s' = s_used s -> taken_of s s' = [].
Proof. intros E. unfold taken_of. rewrite E. destruct (Nat.eqb_spec (length (s_used s)) (S (length (s_used s)))); [lia|reflexivity]. Qed.

Lemma alloc_step_sim sa sb size al ans G G' :
  sim sa sb G ->
  no_source_failure (proj_o (step fence sa (SAlloc size al) ans)) ->
  G = taken_of sa (proj_s (step fence sa (SAlloc size al) ans)) ++ G' ->
  proj_o (step fence sb (SAlloc size al) None) = proj_o (step fence sa (SAlloc size al) ans) /\
  proj_c (step fence sb (SAlloc size al) None) = [] /\
  sim (proj_s (step fence sa (SAlloc size al) ans)) (proj_s (step fence sb (SAlloc size al) None)) G' /\
  taken_of sb (proj_s (step fence sb (SAlloc size al) None)) = taken_of sa (proj_s (step fence sa (SAlloc size al) ans)).
Proof.
  intros (Eu & Et & R & Ec) Hn EG. rewrite !step_alloc_eq in *.
  assert (Eg : need_grow fence sb size al = need_grow fence sa size al).
  { unfold need_grow, cur_end. rewrite Eu, Et. reflexivity. }
  rewrite Eg. destruct (need_grow fence sa size al).
  - (* the first run took a block b (from its cache or from upstream); the second finds b at the head of its cache *)
    assert (Hb : exists b ca na ka, take_block sa ans = inl (Some (b, ca, na, ka))).
    { unfold take_block in *. destruct (s_cache sa) as [|b c]; [|eauto].
      destruct (s_kind sa), (s_next sa =? 0), ans; cbn in Hn; try (exfalso; destruct Hn; congruence); eauto. }
    destruct Hb as (b & ca & na & ka & Eta). rewrite Eta in *.
    destruct (grow_into_facts fence sa b ca na ka size al) as (F1 & F2 & F3 & F4).
    rewrite (taken_of_push sa _ b F1) in EG. cbn in EG. subst G.
    unfold take_block. rewrite Ec. cbn [app].
    destruct (grow_into_facts fence sb b (G' ++ R) (s_next sb) [] size al) as (H1 & H2 & H3 & H4).
    destruct (grow_into_same fence sb sa b (G' ++ R) ca (s_next sb) na [] ka size al) as [S1 S2].
    split; [exact S1|]. split; [exact H3|]. split.
    + unfold sim. rewrite F1, H1, Eu. split; [reflexivity|]. split; [symmetry; exact S2|]. exists R. exact H2.
    + rewrite (taken_of_push sb _ b H1), (taken_of_push sa _ b F1). reflexivity.
  - unfold alloc_here, proj_s, proj_o, proj_c in *. cbn in *. rewrite taken_of_same in EG by reflexivity. cbn in EG. subst G'.
    rewrite Et. split; [reflexivity|]. split; [reflexivity|]. split.
    + unfold sim; cbn. split; [assumption|]. split; [reflexivity|]. exists R. assumption.
    + rewrite !taken_of_same by reflexivity. reflexivity.
Qed.

Theorem replay_from_cache : forall rs sa sb sf outs G,
  sim sa sb G -> arun fence sa rs = (sf, outs, G) -> Forall no_source_failure outs ->
  exists sf', arun fence sb (map (fun r => (fst (fst r), snd (fst r), None)) rs) = (sf', outs, G) /\
              s_used sf' = s_used sf /\ s_top sf' = s_top sf.
Proof.
  induction rs as [|[[size al] ans] rs IH]; intros sa sb sf outs G S H Hok; cbn [arun map fst snd] in H |- *.
  - injection H as <- <- <-. exists sb. split; [reflexivity|]. destruct S as (E1 & E2 & _). split; symmetry; assumption.
  - destruct (arun fence (proj_s (step fence sa (SAlloc size al) ans)) rs) as [[sf0 outs0] cons0] eqn:Er.
    injection H as <- <- <-. inversion Hok as [|? ? Hn Hok']; subst.
    destruct (alloc_step_sim sa sb size al ans _ cons0 S Hn eq_refl) as (Eo & Ecalls & S' & Etk).
    destruct (IH _ _ _ _ _ S' Er Hok') as (sf' & Er' & Eu' & Et').
    exists sf'. rewrite Er', Eo, Etk. split; [reflexivity|split; assumption].
Qed.

(* the blocks the first run took are exactly what it pushed on the used stack *)
Lemma step_alloc_used s size al ans :
  s_used (proj_s (step fence s (SAlloc size al) ans)) = s_used s \/
  exists b, s_used (proj_s (step fence s (SAlloc size al) ans)) = b :: s_used s.
Proof.
  rewrite step_alloc_eq. destruct (need_grow fence s size al).
  - destruct (take_block s ans) as [[[[[b ca] na] ka]|]|e]; [|left; reflexivity|left; reflexivity].
    right. exists b. apply grow_into_facts.
  - left. reflexivity.
Qed.

Lemma arun_used : forall rs s sf outs G, arun fence s rs = (sf, outs, G) -> s_used sf = rev G ++ s_used s.
Proof.
  induction rs as [|[[size al] ans] rs IH]; intros s sf outs G H; cbn [arun] in H; cbv zeta in H.
  - injection H as <- <- <-. reflexivity.
  - destruct (arun fence (proj_s (step fence s (SAlloc size al) ans)) rs) as [[sf0 outs0] cons0] eqn:Er.
    injection H as <- <- <-. rewrite (IH _ _ _ _ Er).
    destruct (step_alloc_used s size al ans) as [E|(b & E)].
    + rewrite (taken_of_same _ _ E), E. reflexivity.
    + rewrite (taken_of_push _ _ b E), E. cbn [app rev]. rewrite <- app_assoc. reflexivity.
Qed.

Lemma arun_top_mono : forall rs s sf outs G, 0 <= fence -> Forall (fun r => 0 <= fst (fst r) /\ 0 < snd (fst r)) rs ->
  arun fence s rs = (sf, outs, G) -> G = [] -> s_top s <= s_top sf.
Proof.
  induction rs as [|[[size al] ans] rs IH]; intros s sf outs G Hf Hr H EG; cbn [arun] in H; cbv zeta in H.
  - injection H as <- _ _. lia.
  - destruct (arun fence (proj_s (step fence s (SAlloc size al) ans)) rs) as [[sf0 outs0] cons0] eqn:Er.
    injection H as <- <- <-. apply app_eq_nil in EG as [E1 E2]. inversion Hr as [|? ? [Hs Hal] Hr']; subst. cbn [fst snd] in Hs, Hal.
    specialize (IH _ _ _ _ Hf Hr' Er eq_refl).
    assert (s_top s <= s_top (proj_s (step fence s (SAlloc size al) ans))); [|lia].
    rewrite step_alloc_eq in *. destruct (need_grow fence s size al).
    + destruct (take_block s ans) as [[[[[b ca] na] ka]|]|e]; [|cbn; lia|cbn; lia].
      exfalso. cbn [fst snd] in E1. rewrite (taken_of_push s _ b) in E1 by apply grow_into_facts. discriminate.
    + unfold alloc_here, proj_s. cbn [fst snd s_top set_alloc]. pose proof (align_off_bounds (s_top s + fence) al Hal). lia.
Qed.

(* C06: unwind to the marker taken before a sequence of allocations, then replay the sequence *)
Theorem replay_equal s rs s1 outs G : 0 <= fence -> s_used s <> [] ->
  Forall (fun r => 0 <= fst (fst r) /\ 0 < snd (fst r)) rs ->
  arun fence s rs = (s1, outs, G) -> Forall no_source_failure outs ->
  let s2 := proj_s (step fence s1 (SUnwind (top_marker s)) None) in
  s_used s2 = s_used s /\ s_top s2 = s_top s /\
  exists sf', arun fence s2 (map (fun r => (fst (fst r), snd (fst r), None)) rs) = (sf', outs, G) /\
              s_used sf' = s_used s1 /\ s_top sf' = s_top s1.
Proof.
  intros Hf Hne Hr H Hok. cbv zeta.
  pose proof (arun_used _ _ _ _ _ H) as Eu.
  assert (Hne1 : s_used s1 <> []) by (rewrite Eu; destruct (s_used s); [contradiction|]; destruct (rev G); discriminate).
  assert (V : mvalid s1 (top_marker s, s_used s)).
  { exists (rev G). split; [assumption|]. split; [assumption|].
    split; [unfold top_marker; cbn [m_index]; destruct (s_used s); [contradiction|cbn [length]; lia]|].
    split; [unfold top_marker, cur_end; cbn [m_end]; destruct (s_used s); [contradiction|reflexivity]|].
    intros E. cbn. apply (arun_top_mono rs s s1 outs G Hf Hr H).
    destruct G as [|g G]; [reflexivity|]. cbn in E. apply app_eq_nil in E as [_ E]. discriminate. }
  destruct (unwind_valid fence s1 (top_marker s, s_used s) Hne1 V) as (cache' & E1 & E2 & E3 & dropped & Ed1 & Ed2).
  cbn [fst snd] in *. unfold proj_s. rewrite E1. cbn [s_used s_top set_alloc].
  split; [reflexivity|]. split; [reflexivity|].
  assert (Edr : dropped = rev G) by (rewrite Eu in Ed1; apply app_inv_tail in Ed1; symmetry; assumption).
  apply (replay_from_cache rs s _ s1 outs G); [|assumption|assumption].
  unfold sim. cbn. split; [reflexivity|]. split; [reflexivity|]. exists (s_cache s1). rewrite Ed2, Edr, rev_involutive. reflexivity.
Qed.
End Replay.

Lemma stack_capacity_delta fence s size al p top' :
  0 < al -> 0 <= fence -> 0 <= size ->
  fs_alloc fence (s_top s) (cur_end s) size al = Some (p, top') ->
  top' - s_top s = fence + align_off (s_top s + fence) al + size + fence.
Proof. intros _ _ _ H. eapply fs_alloc_delta. exact H. Qed.
