From Coq Require Import ZArith List Bool Lia Arith.
From FM Require Import UnorderedList.
Import ListNotations.
Local Open Scope Z_scope.

Lemma NoDup_app_iff' (A : Type) (l1 l2 : list A) : NoDup l1 /\ NoDup l2 /\ (forall x, In x l1 -> In x l2 -> False) -> NoDup (l1 ++ l2).
Proof.
  induction l1 as [|a l1 IH]; cbn; [tauto|]. intros (H1 & H2 & H3). inversion H1; subst. constructor.
  - rewrite in_app_iff. intros [H|H]; [contradiction|]. apply (H3 a); [left; reflexivity|assumption].
  - apply IH. repeat split; [assumption|assumption|]. intros x Hx. apply H3. right. assumption.
Qed.
Lemma skipn_skipn2 (A : Type) (l : list A) : forall a b, skipn a (skipn b l) = skipn (b + a) l.
Proof. induction l as [|h t IH]; intros a b; [rewrite !skipn_nil; reflexivity|]. destruct b as [|b]; cbn; [reflexivity|apply IH]. Qed.

Lemma ublock_in cnt m step x : 0 < step -> In x (ublock cnt m step) -> m <= x < m + Z.of_nat cnt * step /\ (x - m) mod step = 0.
Proof.
  intros Hs. revert m. induction cnt as [|c IH]; intros m H; cbn in H; [destruct H|].
  destruct H as [<-|H]; [split; [lia|rewrite Z.sub_diag; reflexivity]|]. apply IH in H as [H1 H2]. split; [lia|].
  replace (x - m) with (x - (m + step) + 1 * step) by lia. rewrite Z.mod_add by lia. assumption.
Qed.

Lemma ublock_nodup cnt m step : 0 < step -> NoDup (ublock cnt m step).
Proof.
  intros Hs. revert m. induction cnt as [|c IH]; intros m; cbn; constructor; [|apply IH].
  intros H. apply ublock_in in H; [lia|assumption].
Qed.

Lemma ublock_length cnt m step : length (ublock cnt m step) = cnt.
Proof. revert m. induction cnt as [|c IH]; intros m; cbn; [reflexivity|rewrite IH; reflexivity]. Qed.

(* the invariant: no node is on the list twice *)
Definition UInv (l : ulist) : Prop := NoDup (u_nodes l) /\ 0 < u_ns l.

Theorem u_alloc_inv l x l' : UInv l -> u_alloc l = Some (x, l') -> UInv l' /\ u_nodes l = x :: u_nodes l' /\ ~ In x (u_nodes l').
Proof.
  intros [Hn Hs]. unfold u_alloc. destruct (u_nodes l) as [|h t] eqn:E; [discriminate|]. intros H. injection H as <- <-.
  inversion Hn; subst. repeat split; assumption.
Qed.

Theorem u_dealloc_inv l m : UInv l -> ~ In m (u_nodes l) -> UInv (u_dealloc l m) /\ u_capacity (u_dealloc l m) = u_capacity l + 1.
Proof. intros [Hn Hs] Hm. split; [split; [constructor; assumption|assumption]|]. unfold u_capacity. cbn. lia. Qed.

(* releasing an array puts every node it occupied back, once *)
Theorem u_dealloc_array_inv l m bytes : UInv l -> u_ns l < bytes ->
  (forall x, In x (u_nodes l) -> x < m \/ m + Z.of_nat (u_nodes_for l bytes) * u_ns l <= x) ->
  UInv (u_dealloc_array l m bytes) /\ u_capacity (u_dealloc_array l m bytes) = u_capacity l + Z.of_nat (u_nodes_for l bytes).
Proof.
  intros [Hn Hs] Hb Hfree. unfold u_dealloc_array. destruct (Z.leb_spec bytes (u_ns l)); [lia|]. split.
  - split; [|assumption]. cbn. apply NoDup_app_iff'. repeat split; [apply ublock_nodup; assumption|assumption|].
    intros x Hx Hx'. apply ublock_in in Hx as [Hx _]; [|assumption]. destruct (Hfree x Hx'); lia.
  - unfold u_capacity. cbn. rewrite app_length, ublock_length. lia.
Qed.

Lemma link_run_le ns step : (link_run ns step <= length ns)%nat.
Proof. induction ns as [|x tl IH]; cbn; [lia|]. destruct tl as [|y tl']; [cbn; lia|]. destruct (x + step =? y); cbn in *; lia. Qed.
Lemma link_run_pos x tl step : (1 <= link_run (x :: tl) step)%nat.
Proof. cbn. destruct tl as [|y tl']; [lia|]. destruct (x + step =? y); lia. Qed.

(* the first link_run nodes are consecutive in memory *)
Lemma link_run_consecutive : forall ns step k, (S k < link_run ns step)%nat -> nth (S k) ns 0 = nth k ns 0 + step.
Proof.
  induction ns as [|x tl IH]; intros step k H; cbn in H; [lia|].
  destruct tl as [|y tl']; [lia|]. destruct (Z.eqb_spec (x + step) y) as [E|E]; [|lia].
  destruct k as [|k]; [cbn; lia|]. cbn [nth]. apply (IH step k). lia.
Qed.

Lemma u_find_bound : forall fuel ns step need idx i, u_find fuel ns step need idx = Some i ->
  (idx <= i /\ i - idx + need <= length ns)%nat /\ (need <= link_run (skipn (i - idx) ns) step)%nat.
Proof.
  induction fuel as [|f IH]; intros ns step need idx i H; cbn in H; [discriminate|].
  destruct ns as [|x tl]; [discriminate|]. set (r := link_run (x :: tl) step) in *.
  pose proof (link_run_le (x :: tl) step) as Hr. fold r in Hr. pose proof (link_run_pos x tl step) as Hp. fold r in Hp.
  destruct (Nat.leb_spec need r).
  - injection H as <-. rewrite Nat.sub_diag. cbn [skipn]. fold r. lia.
  - apply IH in H as [[H1 H2] H3]. rewrite skipn_length in H2. split; [lia|].
    replace (i - idx)%nat with (r + (i - (idx + r)))%nat by lia.
    rewrite <- skipn_skipn2. exact H3.
Qed.

Lemma nth_skipn_plus (A : Type) (l : list A) d : forall k i, nth i (skipn k l) d = nth (k + i) l d.
Proof. induction l as [|h t IH]; intros k i; [rewrite skipn_nil; destruct i, k; reflexivity|]. destruct k as [|k]; cbn; [reflexivity|]. apply IH. Qed.
Lemma nth_firstn_lt (A : Type) (l : list A) d : forall k i, (i < k)%nat -> nth i (firstn k l) d = nth i l d.
Proof. induction l as [|h t IH]; intros k i H; [rewrite firstn_nil; reflexivity|]. destruct k as [|k]; [lia|]. destruct i as [|i]; cbn; [reflexivity|]. apply IH. lia. Qed.
Lemma NoDup_app_remove_middle (A : Type) (a b c : list A) : NoDup (a ++ b ++ c) -> NoDup (a ++ c).
Proof.
  induction a as [|x a IH]; cbn; intros H.
  - induction b as [|y b IHb]; cbn in *; [assumption|]. inversion H; subst. apply IHb. assumption.
  - inversion H as [|? ? Hx Hn]; subst. constructor; [|apply IH; assumption]. rewrite !in_app_iff in *. tauto.
Qed.
Lemma NoDup_app_mid_disjoint (A : Type) (a b c : list A) : NoDup (a ++ b ++ c) -> forall x, In x b -> In x (a ++ c) -> False.
Proof.
  induction a as [|y a IH]; cbn; intros H x Hb Hc.
  - induction b as [|z b IHb]; [destruct Hb|]. cbn in H. inversion H as [|? ? Hz Hn]; subst. destruct Hb as [->|Hb]; [apply Hz; apply in_app_iff; right; assumption|apply IHb; assumption].
  - inversion H as [|? ? Hy Hn]; subst. destruct Hc as [->|Hc]; [apply Hy; apply in_app_iff; right; apply in_app_iff; left; assumption|eapply IH; eassumption].
Qed.

(* an array allocation takes `need` nodes that were all on the list, consecutive in memory; the rest stays duplicate-free *)
Theorem u_alloc_array_inv l bytes x l' : UInv l -> u_ns l < bytes -> u_alloc_array l bytes = Some (x, l') ->
  UInv l' /\ u_capacity l' = u_capacity l - Z.of_nat (u_nodes_for l bytes) /\
  (forall k, (k < u_nodes_for l bytes)%nat -> In (x + Z.of_nat k * u_ns l) (u_nodes l) /\ ~ In (x + Z.of_nat k * u_ns l) (u_nodes l')).
Proof.
  intros [Hn Hs] Hb. unfold u_alloc_array. destruct (Z.leb_spec bytes (u_ns l)); [lia|].
  destruct (u_find (S (length (u_nodes l))) (u_nodes l) (u_ns l) (u_nodes_for l bytes) 0) as [i|] eqn:F; [|discriminate].
  intros Heq. injection Heq as <- <-. apply u_find_bound in F as [[_ F] R]. rewrite Nat.sub_0_r in F, R.
  set (need := u_nodes_for l bytes) in *. set (ns := u_nodes l) in *.
  (* the nodes of the run *)
  assert (Run : forall k, (k < need)%nat -> nth (i + k) ns 0 = nth i ns 0 + Z.of_nat k * u_ns l).
  { induction k as [|k IH]; intros Hk; [rewrite Nat.add_0_r; lia|].
    pose proof (link_run_consecutive (skipn i ns) (u_ns l) k) as C. assert (Hlt : (S k < link_run (skipn i ns) (u_ns l))%nat) by lia.
    specialize (C Hlt). rewrite !nth_skipn_plus in C. replace (i + S k)%nat with (i + S k)%nat by lia. rewrite C, IH by lia. lia. }
  assert (Split : ns = firstn i ns ++ firstn need (skipn i ns) ++ skipn (i + need) ns).
  { rewrite <- (firstn_skipn i ns) at 1. f_equal. rewrite <- (firstn_skipn need (skipn i ns)) at 1. f_equal. apply skipn_skipn2. }
  split; [split; [|assumption]|split].
  - cbn. rewrite Split in Hn. apply NoDup_app_remove_middle in Hn. exact Hn.
  - unfold u_capacity. cbn. rewrite app_length, firstn_length, skipn_length. fold ns. lia.
  - intros k Hk. rewrite <- Run by assumption. split; [apply nth_In; lia|]. cbn.
    intros Hin. rewrite Split in Hn. apply (NoDup_app_mid_disjoint _ _ _ _ Hn (nth (i + k) ns 0)); [|exact Hin].
    replace (nth (i + k) ns 0) with (nth k (firstn need (skipn i ns)) 0). { apply nth_In. rewrite firstn_length, skipn_length. lia. }
    rewrite nth_firstn_lt by assumption. apply nth_skipn_plus.
Qed.
