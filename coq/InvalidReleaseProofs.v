From Coq Require Import ZArith List Bool Lia.
From FM Require Import InvalidRelease Stack FixedStack.
Import ListNotations.
Local Open Scope Z_scope.
Ltac Zify.zify_post_hook ::= Z.div_mod_to_equations.

(* ---------- small list ---------- *)
Lemma find_none_iff (l : slist) p : find (fun c => c_from (sl_ns l) c p) (sl_chunks l) = None <-> forall c, In c (sl_chunks l) -> c_from (sl_ns l) c p = false.
Proof.
  split.
  - intros H c Hc. apply (find_none _ _ H c Hc).
  - intros H. destruct (find _ _) as [c|] eqn:E; [|reflexivity]. apply find_some in E as [Hc Hf]. rewrite (H c Hc) in Hf. discriminate.
Qed.

(* a pointer outside the node memory of every chunk (before, behind, between chunks, inside a chunk header) is reported *)
Theorem small_outside_reported dbl l p : (forall c, In c (sl_chunks l) -> p < c_mem c \/ c_mem c + c_nodes c * sl_ns l <= p) ->
  s_dealloc true dbl l p = (if p =? sl_dc l then SmAbort else SmReported).
Proof.
  intros H. unfold s_dealloc. assert (E : find (fun c => c_from (sl_ns l) c p) (sl_chunks l) = None).
  { apply find_none_iff. intros c Hc. unfold c_from. destruct (H c Hc); [apply andb_false_iff; left; apply Z.leb_gt; lia|apply andb_false_iff; right; apply Z.ltb_ge; lia]. }
  rewrite E. reflexivity.
Qed.

(* inside a chunk but not on a node boundary *)
Theorem small_misaligned_reported dbl l p c : find (fun c => c_from (sl_ns l) c p) (sl_chunks l) = Some c ->
  (p - c_mem c) mod sl_ns l <> 0 -> s_dealloc true dbl l p = SmReported.
Proof.
  intros E H. unfold s_dealloc. rewrite E. cbn [andb]. destruct (Z.eqb_spec ((p - c_mem c) mod sl_ns l) 0); [contradiction|reflexivity].
Qed.

(* a node that is already on its chunk's free chain (double-free option on) *)
Theorem small_double_reported l p c : find (fun c => c_from (sl_ns l) c p) (sl_chunks l) = Some c ->
  In ((p - c_mem c) / sl_ns l) (c_free c) -> s_dealloc true true l p = SmReported.
Proof.
  intros E H. unfold s_dealloc. rewrite E. cbn [andb]. destruct (negb _); [reflexivity|].
  assert (X : existsb (Z.eqb ((p - c_mem c) / sl_ns l)) (c_free c) = true) by (apply existsb_exists; eexists; split; [exact H|apply Z.eqb_refl]).
  rewrite X. reflexivity.
Qed.

(* a valid release -- a node of some chunk, on a boundary, not free -- is never reported, in any configuration *)
Theorem small_valid_accepted ptr dbl l p c : find (fun c => c_from (sl_ns l) c p) (sl_chunks l) = Some c ->
  (p - c_mem c) mod sl_ns l = 0 -> ~ In ((p - c_mem c) / sl_ns l) (c_free c) ->
  exists l', s_dealloc ptr dbl l p = SmOk l'.
Proof.
  intros E Hb Hf. unfold s_dealloc. rewrite E. rewrite Hb. cbn [Z.eqb negb]. rewrite andb_false_r.
  assert (X : existsb (Z.eqb ((p - c_mem c) / sl_ns l)) (c_free c) = false).
  { destruct (existsb _ _) eqn:Ex; [|reflexivity]. apply existsb_exists in Ex as (x & Hx & Hxe). apply Z.eqb_eq in Hxe. subst x. contradiction. }
  rewrite X, andb_false_r. eexists. reflexivity.
Qed.

(* a report leaves the list as it was: the result carries no new state (SmReported has none) -- stated for the record *)
Theorem small_reported_is_not_ok ptr dbl l p : s_dealloc ptr dbl l p = SmReported -> forall l', s_dealloc ptr dbl l p <> SmOk l'.
Proof. intros H l' H'. rewrite H in H'. discriminate. Qed.

(* ---------- LIFO sources ---------- *)
(* after k blocks were acquired, block i (0-based) can be returned only if it is the newest *)
Theorem static_out_of_order_reported base bs k i : 0 < bs -> 0 <= i -> i < k - 1 ->
  static_dealloc true {| lf_base := base; lf_cur := base + k * bs; lf_bs := bs |} (base + i * bs) bs = LReported.
Proof.
  intros Hb Hi Hk. unfold static_dealloc. cbn [lf_cur andb]. destruct (Z.eqb_spec (base + i * bs + bs) (base + k * bs)) as [E|E]; [exfalso; nia|reflexivity].
Qed.
Theorem static_newest_accepted ptr base bs k : 0 < bs -> 1 <= k ->
  static_dealloc ptr {| lf_base := base; lf_cur := base + k * bs; lf_bs := bs |} (base + (k - 1) * bs) bs
  = LOk {| lf_base := base; lf_cur := base + (k - 1) * bs; lf_bs := bs |}.
Proof.
  intros Hb Hk. unfold static_dealloc. cbn [lf_cur lf_bs lf_base]. destruct (Z.eqb_spec (base + (k - 1) * bs + bs) (base + k * bs)) as [E|E]; [|exfalso; lia].
  rewrite andb_false_r. f_equal. f_equal. lia.
Qed.
Theorem virtual_out_of_order_reported base bs k i : 0 < bs -> 0 <= i -> i < k - 1 ->
  virtual_dealloc true {| lf_base := base; lf_cur := base + k * bs; lf_bs := bs |} (base + i * bs) = LReported.
Proof.
  intros Hb Hi Hk. unfold virtual_dealloc. cbn [lf_cur lf_bs andb]. destruct (Z.eqb_spec (base + i * bs) (base + k * bs - bs)) as [E|E]; [exfalso; nia|reflexivity].
Qed.
Theorem virtual_newest_accepted ptr base bs k : 0 < bs -> 1 <= k ->
  virtual_dealloc ptr {| lf_base := base; lf_cur := base + k * bs; lf_bs := bs |} (base + (k - 1) * bs)
  = LOk {| lf_base := base; lf_cur := base + (k - 1) * bs; lf_bs := bs |}.
Proof.
  intros Hb Hk. unfold virtual_dealloc. cbn [lf_cur lf_bs lf_base]. destruct (Z.eqb_spec (base + (k - 1) * bs) (base + k * bs - bs)) as [E|E]; [|exfalso; lia].
  rewrite andb_false_r. f_equal. f_equal. lia.
Qed.
Theorem fixed_return_without_loan_reported bs size : bs <> 0 -> fixed_dealloc true bs size = None.
Proof. intros H. unfold fixed_dealloc. cbn [andb]. destruct (Z.eqb_spec bs 0); [contradiction|reflexivity]. Qed.
Theorem fixed_return_accepted ptr size : fixed_dealloc ptr 0 size = Some size.
Proof. unfold fixed_dealloc. cbn. rewrite andb_false_r. reflexivity. Qed.

(* ---------- memory_stack::unwind to a marker above the top: reported, stack unchanged ---------- *)
Theorem unwind_later_block_reported fence s m answer : (length (s_used s) - 1 < m_index m)%nat ->
  step fence s (SUnwind m) answer = (s, SReported, [], []).
Proof. intros H. cbn [step]. destruct (Nat.ltb_spec (length (s_used s) - 1) (m_index m)); [reflexivity|lia]. Qed.

Theorem unwind_same_block_above_top_reported fence s m answer : m_index m = (length (s_used s) - 1)%nat -> s_top s < m_top m ->
  step fence s (SUnwind m) answer = (s, SReported, [], []).
Proof.
  intros Hi Ht. cbn [step]. rewrite Hi. destruct (Nat.ltb_spec (length (s_used s) - 1) (length (s_used s) - 1)); [lia|].
  rewrite Nat.sub_diag. destruct (Z.ltb_spec (s_top s) (m_top m)); [reflexivity|lia].
Qed.
