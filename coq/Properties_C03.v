(* C03 -- allocation failure is always signalled, never returned as null or absorbed.  Statements only. *)
From Coq Require Import ZArith List Bool.
From FM Require Import FixedStack SmallCarve PoolSpec SlotProofs ListLib PoolSpecProofs Stack StackProofs Arena ArenaProofs Iteration IterationProofs NewLoop NewLoopProofs InvalidRelease SmallList SmallRefine OrderedList OrderedRefine CollExec CollExecProofs CollInst CollSizes CollInstProofs UnorderedList UnorderedRefine.
Import ListNotations.
Local Open Scope Z_scope.

(* pools / collections: a throwing function never yields null, a try_ function never throws and never
   reaches the upstream source -- an implementation log that does otherwise is rejected by the model *)
Theorem C03_pool_outcome_discipline : forall s try_ array ns bytes evs r s',
  acc_op s (OAlloc try_ array ns bytes) evs r = Some s' ->
  (try_ = true -> r <> ObsThrow /\ existsb is_up evs = false) /\
  (try_ = false -> r <> ObsNull).
Proof. exact outcome_discipline. Qed.
Print Assumptions C03_pool_outcome_discipline.

(* a refused request (null or exception, with the upstream failing or not) leaves every earlier allocation in place
   and takes no capacity away; the invariant -- hence C01/C02 for all later requests -- still holds *)
Theorem C03_pool_refused_request_keeps_allocations : forall s try_ array ns bytes evs r s' key,
  acc_op s (OAlloc try_ array ns bytes) evs r = Some s' -> r = ObsNull \/ r = ObsThrow ->
  match find_list key (a_lists s), find_list key (a_lists s') with
  | Some l, Some l' => l_allocs l' = l_allocs l /\ l_nfree l <= l_nfree l'
  | None, None => True
  | _, _ => False
  end.
Proof. exact refused_request_keeps_allocations. Qed.
Print Assumptions C03_pool_refused_request_keeps_allocations.

Theorem C03_pool_invariant_after_any_outcome : forall s o evs r s', PoolSpecProofs.Inv s -> acc_op s o evs r = Some s' -> PoolSpecProofs.Inv s'.
Proof. exact acc_op_inv. Qed.
Print Assumptions C03_pool_invariant_after_any_outcome.

(* memory_stack: the throwing allocate ends in a pointer or one of three exceptions, never null; whatever the
   outcome and whatever the upstream answered, the invariant holds afterwards and live allocations are kept *)
Theorem C03_stack_allocate_never_null : forall fence, 0 <= fence -> forall s size al ans s' out calls w,
  SInv s -> 0 <= size -> 0 < al -> answer_ok s ans ->
  step fence s (SAlloc size al) ans = (s', out, calls, w) ->
  SInv s' /\
  match out with
  | SOk p => p <> 0 /\ p mod al = 0 /\
             (exists b, In b (s_used s') /\ b_mem b <= p /\ p + size <= b_end b) /\
             Forall (adisj (p, size)) (s_live s) /\ s_live s' = (p, size) :: s_live s
  | SThrowUpstream | SThrowFixed | SThrowBadSize => s_live s' = s_live s
  | _ => False
  end.
Proof. exact alloc_spec. Qed.
Print Assumptions C03_stack_allocate_never_null.

(* try_allocate: no upstream call, no exception; null changes nothing at all *)
Theorem C03_stack_try_never_grows : forall fence, 0 <= fence -> forall s size al s' out calls w,
  SInv s -> 0 <= size -> 0 < al ->
  step fence s (STry size al) None = (s', out, calls, w) ->
  calls = [] /\ SInv s' /\
  match out with
  | SOk p => p <> 0 /\ p mod al = 0 /\ (exists b, In b (s_used s') /\ b_mem b <= p /\ p + size <= b_end b) /\
             Forall (adisj (p, size)) (s_live s) /\ s_live s' = (p, size) :: s_live s
  | SNull => s' = s
  | _ => False
  end.
Proof. exact try_spec. Qed.
Print Assumptions C03_stack_try_never_grows.

(* arena: a failing block source leaves the arena exactly as it was *)
Theorem C03_arena_source_failure_changes_nothing : forall a ans,
  snd (fst (astep a ABlock ans)) = AThrowUpstream \/ snd (fst (astep a ABlock ans)) = AThrowFixed ->
  fst (fst (astep a ABlock ans)) = a.
Proof. exact ar_failure_unchanged. Qed.
Print Assumptions C03_arena_source_failure_changes_nothing.

(* iteration allocator: a request that does not fit is refused (exception / null) and changes nothing *)
Theorem C03_iteration_refusal_changes_nothing : forall fence fill s thr size al,
  snd (it_step fence fill s (IAlloc thr size al)) = (if thr then IThrow else INull) ->
  fst (it_step fence fill s (IAlloc thr size al)) = s.
Proof. exact alloc_fail_unchanged. Qed.
Print Assumptions C03_iteration_refusal_changes_nothing.
(* new_allocator when the system refuses (NewLoop.v: the retry loop of the new_handler protocol under lowlevel_allocator).
   Whatever the installed handlers do -- throw, uninstall themselves, install another handler further down a finite chain, or
   make memory available -- a refused request ends in a pointer or in out_of_memory with its handler called once: never in a
   null result, never in an endless loop ... *)
Theorem C03_new_allocator_failure_is_signalled : forall table avail cur fuel, descending table ->
  (match cur with Some h => h + 3 | None => 2 end <= fuel)%nat ->
  fst (ll_allocate fuel table avail cur) = LPtr \/ fst (ll_allocate fuel table avail cur) = LThrowOom 1%nat.
Proof. exact failure_is_signalled. Qed.
Print Assumptions C03_new_allocator_failure_is_signalled.

(* ... and no handler is called a second time: the handler is looked up again on every round *)
Theorem C03_new_allocator_calls_no_handler_twice : forall table fuel avail cur, descending table ->
  strictly_desc (snd (ll_allocate fuel table avail cur)).
Proof. exact no_handler_called_twice. Qed.
Print Assumptions C03_new_allocator_calls_no_handler_twice.

(* the Exec models of memory_pool_collection (CollExec.v, all three list types): try_ functions never throw and never reach the
   block source, throwing functions never return null, and a refused request leaves every list's allocations as they were *)
Theorem C03_collection_exec_outcome_discipline : forall log2 s sp o s' r evs, UCPR s sp -> ucoll_answer_ok log2 s sp o ->
  uc_step log2 s o = Some (s', r, evs) -> forall try_ arr ns bytes, cc_spec_op (coll_bkt log2) o = OAlloc try_ arr ns bytes ->
  (try_ = true -> r <> ObsThrow /\ existsb is_up evs = false) /\ (try_ = false -> r <> ObsNull) /\
  (r = ObsNull \/ r = ObsThrow -> exists sp', UCPR s' sp' /\ allocations_kept sp sp').
Proof. exact ucoll_outcome_discipline. Qed.
Print Assumptions C03_collection_exec_outcome_discipline.
Theorem C03_ordered_collection_exec_outcome_discipline : forall log2 s sp o s' r evs, OCPR s sp -> ocoll_answer_ok log2 s sp o ->
  oc_step log2 s o = Some (s', r, evs) -> forall try_ arr ns bytes, cc_spec_op (coll_bkt log2) o = OAlloc try_ arr ns bytes ->
  (try_ = true -> r <> ObsThrow /\ existsb is_up evs = false) /\ (try_ = false -> r <> ObsNull) /\
  (r = ObsNull \/ r = ObsThrow -> exists sp', OCPR s' sp' /\ allocations_kept sp sp').
Proof. exact ocoll_outcome_discipline. Qed.
Print Assumptions C03_ordered_collection_exec_outcome_discipline.
Theorem C03_small_collection_exec_outcome_discipline : forall log2 s sp o s' r evs, SCPR s sp -> scoll_answer_ok log2 s sp o ->
  sc_step log2 s o = Some (s', r, evs) -> forall try_ arr ns bytes, cc_spec_op (coll_bkt_me 1%N log2) o = OAlloc try_ arr ns bytes ->
  (try_ = true -> r <> ObsThrow /\ existsb is_up evs = false) /\ (try_ = false -> r <> ObsNull) /\
  (r = ObsNull \/ r = ObsThrow -> exists sp', SCPR s' sp' /\ allocations_kept sp sp').
Proof. exact scoll_outcome_discipline. Qed.
Print Assumptions C03_small_collection_exec_outcome_discipline.

(* progress of the Exec collection over the intrusive list (memory_pool_collection<node_pool, ...> without the double-free check):
   in every state a history of node requests and releases can reach from a constructed collection, allocate_node and
   try_allocate_node of any supported size are described by the model -- none of the implementation's internal assertions
   (a reservation that does not fit into a fresh block, a list left without a node after growth, a null from the list) can be
   reached -- whatever the block source answers (fresh aligned blocks of the size asked for, below 2^64) and wherever it fails.
   UExt: what the constructor establishes beyond the relation (the largest list gets a node out of a default reservation, every
   supported size has its list, the next block is at least as large as the current one) *)
Theorem C03_collection_exec_allocate_node_always_described : forall log2 s sp size answer, UCPR s sp -> UExt log2 s -> 0 < size <= cc_max _ s ->
  (forall addr, answer = Some addr -> CWB sp addr (ar_next (cc_ar _ s))) -> ar_next (cc_ar _ s) < 2^64 ->
  exists s' r evs, uc_step log2 s (CAllocNode size answer) = Some (s', r, evs) /\ UExt log2 s'.
Proof. exact ucoll_alloc_node_progress. Qed.
Print Assumptions C03_collection_exec_allocate_node_always_described.

Theorem C03_collection_exec_try_allocate_node_always_described : forall log2 s sp size, UCPR s sp -> UExt log2 s -> 0 < size <= cc_max _ s ->
  exists s' r evs, uc_step log2 s (CTryAllocNode size) = Some (s', r, evs) /\ UExt log2 s'.
Proof. exact ucoll_try_alloc_node_progress. Qed.
Print Assumptions C03_collection_exec_try_allocate_node_always_described.

Theorem C03_collection_exec_node_histories_never_stuck : forall log2 os s sp, UCPR s sp -> UExt log2 s -> unode_history_ok log2 s sp os ->
  exists s' tr sp', uc_run log2 s os = Some (s', tr) /\ PoolSpecProofs.run sp tr = Some sp' /\ UCPR s' sp' /\ UExt log2 s'.
Proof. exact ucoll_node_history_progress. Qed.
Print Assumptions C03_collection_exec_node_histories_never_stuck.

Theorem C03_collection_exec_constructor_establishes_progress_invariant : forall log2 k fence max bs answer s evs,
  uc_construct log2 k fence max bs answer = Some (s, true, evs) -> bucket_table_okb log2 max = true -> 0 <= bs < 2^64 -> 0 <= fence -> UExt log2 s.
Proof. exact uc_construct_ext. Qed.
Print Assumptions C03_collection_exec_constructor_establishes_progress_invariant.

(* the premise about the bucket table holds for every max_node_size up to 64, both policies *)
Theorem C03_collection_bucket_table_ok : forall log2 max, 1 <= max <= 64 -> bucket_table_okb log2 max = true.
Proof. exact bucket_table_ok_upto_64. Qed.
Print Assumptions C03_collection_bucket_table_ok.

(* the same progress for the collection over the address-ordered list (array_pool; node_pool with the double-free check): histories
   of node requests and releases never reach an assertion, the constructor establishes the invariant *)
Theorem C03_ordered_collection_exec_node_histories_never_stuck : forall log2 os s sp, OCPR s sp -> OExt log2 s -> onode_history_ok log2 s sp os ->
  exists s' tr sp', oc_run log2 s os = Some (s', tr) /\ PoolSpecProofs.run sp tr = Some sp' /\ OCPR s' sp' /\ OExt log2 s'.
Proof. exact ocoll_node_history_progress. Qed.
Print Assumptions C03_ordered_collection_exec_node_histories_never_stuck.

Theorem C03_ordered_collection_exec_constructor_establishes_progress_invariant : forall log2 k fence max bs answer s evs,
  oc_construct log2 k fence max bs answer = Some (s, true, evs) -> bucket_table_okb log2 max = true -> 0 <= bs < 2^64 -> 0 <= fence -> OExt log2 s.
Proof. exact oc_construct_ext. Qed.
Print Assumptions C03_ordered_collection_exec_constructor_establishes_progress_invariant.

(* the premises are met by a real history: the collection of the C01 example (identity buckets, max 64, block 4096 at 65600) satisfies
   the invariant after construction, and the seven node requests of that example form a history the theorem covers *)
Example C03_collection_progress_nonvacuous :
  match uc_construct false AGrow 0 64 4096 (Some 65600) with
  | Some (s, true, evs) => bucket_table_okb false 64 = true /\
      uc_run false s [CAllocNode 8 None; CAllocNode 16 None; CAllocNode 64 None; CTryAllocNode 24; CAllocNode 8 None] <> None
  | _ => False
  end.
Proof. vm_compute. split; [reflexivity|discriminate]. Qed.

(* array requests (collection over the intrusive list): allocate_array of any supported element size is described in every state
   the invariant holds in -- after its three growth stages no assertion is reachable: the default reservation and the
   reservation of the array's own size both fit into a fresh block whenever the size check lets them through, and the freshly
   inserted nodes contain the run the final search needs -- and the invariant holds afterwards *)
Theorem C03_collection_exec_allocate_array_always_described : forall log2 s sp size bytes a1 a2, UCPR s sp -> UExt log2 s -> 0 < size <= cc_max _ s -> size <= bytes ->
  uarray_answers_ok64 log2 s sp size a1 a2 ->
  exists s' r evs, uc_step log2 s (CAllocArray size bytes a1 a2) = Some (s', r, evs) /\ UExt log2 s'.
Proof. exact ucoll_alloc_array_progress. Qed.
Print Assumptions C03_collection_exec_allocate_array_always_described.

(* the same for array requests of the collection over the address-ordered list (array_pool): the block inserted by the last growth
   stage sits in the list as a run of consecutive nodes, which the run search finds wherever it starts *)
Theorem C03_ordered_collection_exec_allocate_array_always_described : forall log2 s sp size bytes a1 a2, OCPR s sp -> OExt log2 s -> 0 < size <= cc_max _ s -> size <= bytes ->
  oarray_answers_ok64 log2 s sp size a1 a2 ->
  exists s' r evs, oc_step log2 s (CAllocArray size bytes a1 a2) = Some (s', r, evs) /\ OExt log2 s'.
Proof. exact ocoll_alloc_array_progress. Qed.
Print Assumptions C03_ordered_collection_exec_allocate_array_always_described.

(* every history of node and array requests (throwing and composable) and releases of memory that is out, from a constructed collection
   over the intrusive or the address-ordered list: every step is described by the model -- no assertion of the implementation is
   reachable --, accepted by the Spec, and the invariants hold at the end *)
Theorem C03_collection_exec_histories_never_stuck : forall log2 os s sp, UCPR s sp -> UExt log2 s -> urequest_history_ok log2 s sp os ->
  exists s' tr sp', uc_run log2 s os = Some (s', tr) /\ PoolSpecProofs.run sp tr = Some sp' /\ UCPR s' sp' /\ UExt log2 s'.
Proof. exact ucoll_request_history_progress. Qed.
Print Assumptions C03_collection_exec_histories_never_stuck.
Theorem C03_ordered_collection_exec_histories_never_stuck : forall log2 os s sp, OCPR s sp -> OExt log2 s -> orequest_history_ok log2 s sp os ->
  exists s' tr sp', oc_run log2 s os = Some (s', tr) /\ PoolSpecProofs.run sp tr = Some sp' /\ OCPR s' sp' /\ OExt log2 s'.
Proof. exact ocoll_request_history_progress. Qed.
Print Assumptions C03_ordered_collection_exec_histories_never_stuck.
