(* Spec-layer model of the free lists behind memory_pool and memory_pool_collection.
   Observation-guarded: every step takes what the implementation was observed to do (result address, the
   ranges handed to a free list -- reported by the guarded insert hook --, upstream calls) and answers
   "is that allowed here, and what is the state now".  Executable; no proofs in this file. *)
From Coq Require Import ZArith NArith List Bool Lia.
From FM Require Import Wrap GenArith FixedStack SmallCarve.
Import ListNotations.
Local Open Scope Z_scope.

(* constants come from the generated file, so a change in the source shows up here *)
Definition cmoZ : Z := Z.of_N chunk_memory_offset.
Definition mxZ  : Z := Z.of_N chunk_max_nodes.
Definition caZ  : Z := Z.of_N alignof_foonathan__memory__detail__chunk_base.
Definition hdrZ : Z := Z.of_N implementation_offset.          (* arena block header *)
Definition maxalZ : Z := Z.of_N max_alignment.

Inductive lkind := LIntrusive | LSmall.

Definition range := (Z * Z)%type.                              (* (start, length) *)
Definition r_disj (a b : range) : bool := (fst a + snd a <=? fst b) || (fst b + snd b <=? fst a).
Definition r_inside (a b : range) : bool := (fst b <=? fst a) && (fst a + snd a <=? fst b + snd b).

(* number of nodes the list links when handed r *)
Definition nodes_of (k : lkind) (ns : Z) (r : range) : Z :=
  match k with
  | LIntrusive => l_nodes ns (snd r)
  | LSmall => s_nodes cmoZ mxZ caZ ns (snd r)
  end.

(* is address a the start of a node that inserting r created? *)
Definition is_slot (k : lkind) (ns : Z) (r : range) (a : Z) : bool :=
  let off := a - fst r in
  match k with
  | LIntrusive => (0 <=? off) && (off mod ns =? 0) && (off / ns <? snd r / ns)
  | LSmall =>
      let st := s_stride cmoZ mxZ caZ ns in
      let c := off / st in let q := off mod st in
      let nch := s_nochunks cmoZ mxZ caZ ns (snd r) in
      let cnt := if c <? nch then mxZ else if c =? nch then s_rem_nodes cmoZ mxZ caZ ns (snd r) else 0 in
      (0 <=? off) && (cmoZ <=? q) && ((q - cmoZ) mod ns =? 0) && ((q - cmoZ) / ns <? cnt)
  end.

(* alignment the list promises for its nodes *)
Definition al_of (ns : Z) : Z := Z.of_N (alignment_for (Z.to_N ns)).

Record lst := { l_kind : lkind; l_ns : Z; l_allocs : list (Z * Z) (* address, slots *); l_nfree : Z }.

Definition slots_needed (ns bytes : Z) : Z := if bytes <=? ns then 1 else (bytes + ns - 1) / ns.

Fixpoint slot_addrs (ns p : Z) (k : nat) : list Z :=
  match k with O => [] | S k' => p :: slot_addrs ns (p + ns) k' end.

Definition live_slots (l : lst) : list Z :=
  flat_map (fun a => slot_addrs (l_ns l) (fst a) (Z.to_nat (snd a))) (l_allocs l).

Definition zmem (a : Z) (l : list Z) : bool := existsb (Z.eqb a) l.

(* every range ever handed to a list, newest first, tagged with the node size of the owning list
   (tag 0: memory reserved for the allocator's own data, e.g. the free-list array of a collection) *)
Definition tagged := (Z * range)%type.

Definition slot_of (rs : list tagged) (l : lst) (a : Z) : bool :=
  existsb (fun x => (fst x =? l_ns l) && is_slot (l_kind l) (l_ns l) (snd x) a) rs.

(* a node is on the free list iff it was created by some insert and is not handed out *)
Definition in_free (rs : list tagged) (l : lst) (a : Z) : bool := slot_of rs l a && negb (zmem a (live_slots l)).

Record ast := { a_lists : list lst; a_ranges : list tagged; a_held : list range (* upstream blocks, newest first *) }.

Fixpoint find_list (ns : Z) (ls : list lst) : option lst :=
  match ls with [] => None | l :: tl => if l_ns l =? ns then Some l else find_list ns tl end.
Fixpoint set_list (l' : lst) (ls : list lst) : list lst :=
  match ls with [] => [] | l :: tl => if l_ns l =? l_ns l' then l' :: tl else l :: set_list l' tl end.

(* ---- events reported while an operation runs ---- *)
Inductive ev :=
  | EUp (addr size : Z)            (* upstream allocation succeeded *)
  | EUpFail                         (* upstream allocation failed *)
  | EIns (ns mem size : Z)         (* range handed to the list with node size ns *)
  | EResv (mem size : Z).          (* range the allocator keeps for its own data *)

Definition usable (b : range) : range := (fst b + hdrZ, snd b - hdrZ).

Definition range_ok (s : ast) (r : range) : bool :=
  (0 <? snd r) && existsb (fun b => r_inside r (usable b)) (a_held s) && forallb (fun x => r_disj r (snd x)) (a_ranges s).

Definition acc_ev (s : ast) (e : ev) : option ast :=
  match e with
  | EUp addr size =>
      if (0 <? addr) && (hdrZ <? size) && (addr mod maxalZ =? 0) && forallb (r_disj (addr, size)) (a_held s)
      then Some {| a_lists := a_lists s; a_ranges := a_ranges s; a_held := (addr, size) :: a_held s |} else None
  | EUpFail => Some s
  | EResv mem size =>
      if range_ok s (mem, size)
      then Some {| a_lists := a_lists s; a_ranges := (0, (mem, size)) :: a_ranges s; a_held := a_held s |} else None
  | EIns ns mem size =>
      match find_list ns (a_lists s) with
      | None => None
      | Some l =>
          let r := (mem, size) in
          let n := nodes_of (l_kind l) ns r in
          if (0 <? n) && range_ok s r
             && (mem mod (match l_kind l with LIntrusive => al_of ns | LSmall => maxalZ end) =? 0)
          then Some {| a_lists := set_list {| l_kind := l_kind l; l_ns := ns; l_allocs := l_allocs l; l_nfree := l_nfree l + n |} (a_lists s);
                       a_ranges := (ns, r) :: a_ranges s; a_held := a_held s |}
          else None
      end
  end.

Fixpoint acc_evs (s : ast) (es : list ev) : option ast :=
  match es with [] => Some s | e :: tl => match acc_ev s e with None => None | Some s' => acc_evs s' tl end end.

(* ---- operations ---- *)
Inductive obs := ObsOk (p : Z) | ObsNull | ObsThrow | ObsTrue | ObsFalse.

Inductive op :=
  | OAlloc (try_ : bool) (array : bool) (ns bytes : Z)     (* ns: node size of the list that serves it *)
  | ODealloc (ns bytes p : Z).

Definition is_up (e : ev) : bool := match e with EUp _ _ | EUpFail => true | _ => false end.
Definition is_grow (e : ev) : bool := match e with EUp _ _ | EUpFail | EIns _ _ _ => true | _ => false end.

Definition take_slots (rs : list tagged) (l : lst) (p : Z) (k : Z) : option lst :=
  if (1 <=? k) && (k <=? l_nfree l) && forallb (in_free rs l) (slot_addrs (l_ns l) p (Z.to_nat k))
  then Some {| l_kind := l_kind l; l_ns := l_ns l; l_allocs := (p, k) :: l_allocs l; l_nfree := l_nfree l - k |}
  else None.

Fixpoint remove_alloc (p k : Z) (al : list (Z * Z)) : option (list (Z * Z)) :=
  match al with
  | [] => None
  | (q, j) :: tl => if (q =? p) && (j =? k) then Some tl
                    else match remove_alloc p k tl with None => None | Some tl' => Some ((q, j) :: tl') end
  end.

Definition give_slots (l : lst) (p : Z) (k : Z) : option lst :=
  match remove_alloc p k (l_allocs l) with
  | None => None
  | Some al => Some {| l_kind := l_kind l; l_ns := l_ns l; l_allocs := al; l_nfree := l_nfree l + k |}
  end.

Definition with_list (s : ast) (l' : lst) : ast :=
  {| a_lists := set_list l' (a_lists s); a_ranges := a_ranges s; a_held := a_held s |}.

(* one observed operation: its sub-events, then its result *)
Definition acc_op (s : ast) (o : op) (evs : list ev) (r : obs) : option ast :=
  match o with
  | OAlloc try_ array ns bytes =>
      match find_list ns (a_lists s) with
      | None => None
      | Some l0 =>
          (* a single-node request must be served from the list while it holds a node;
             a try_ request never reaches the upstream source *)
          if (negb array && (0 <? l_nfree l0) && existsb is_grow evs) || (try_ && existsb is_up evs) then None
          else
          match acc_evs s evs with
          | None => None
          | Some s1 =>
              match r with
              | ObsOk p =>
                  match find_list ns (a_lists s1) with
                  | None => None
                  | Some l =>
                      match take_slots (a_ranges s1) l p (slots_needed ns bytes) with
                      | None => None
                      | Some l' => Some (with_list s1 l')
                      end
                  end
              | ObsNull => if try_ && negb (negb array && (0 <? l_nfree l0)) then Some s1 else None
                  (* a throwing function never returns null; a try_ request for one node is refused only when the list is empty *)
              | ObsThrow => if try_ then None else Some s1    (* a try_ function never throws *)
              | _ => None
              end
          end
      end
  | ODealloc ns bytes p =>
      match evs, r, find_list ns (a_lists s) with
      | [], ObsTrue, Some l =>
          match give_slots l p (slots_needed ns bytes) with
          | None => None
          | Some l' => Some (with_list s l')
          end
      | [], ObsFalse, _ => Some s
      | _, _, _ => None
      end
  end.

(* destruction: every block goes back upstream, newest first, same address and size *)
Definition destroy_ok (s : ast) (downs : list range) : bool :=
  (length downs =? length (a_held s))%nat && forallb (fun x => (fst (fst x) =? fst (snd x)) && (snd (fst x) =? snd (snd x))) (combine downs (a_held s)).

Definition capacity_bytes (s : ast) (ns : Z) : option Z :=
  match find_list ns (a_lists s) with None => None | Some l => Some (l_nfree l * ns) end.
Definition capacity_nodes (s : ast) (ns : Z) : option Z :=
  match find_list ns (a_lists s) with None => None | Some l => Some (l_nfree l) end.

Definition mk_list (k : lkind) (ns : Z) : lst := {| l_kind := k; l_ns := ns; l_allocs := []; l_nfree := 0 |}.
Definition mk_ast (ls : list lst) : ast := {| a_lists := ls; a_ranges := []; a_held := [] |}.
