(* C14 -- temporary allocations end with their scope; each live thread has its own stack.  Statements only.
   Sequential part: a temporary_allocator is a marker taken at construction and an unwind to it at destruction (Stack.v).
   Concurrent part: TempList.v, one transition per shared-memory step of the global stack list. *)
From Coq Require Import ZArith List Bool.
From FM Require Import FixedStack Stack StackProofs TempList TempListProofs.
Import ListNotations.

(* whatever happened inside the scope -- allocations of any size, growth by any number of blocks, nested scopes --
   its end gives back the block stack and the top of the moment of its construction, without touching the upstream source *)
Theorem C14_scope_end_restores_the_stack : forall fence, (0 <= fence)%Z -> forall s0 h, s_used s0 <> [] -> Forall op_ok h ->
  let st1 := hrun fence (s0, [(top_marker s0, s_used s0)]) h in
  forall gm, In gm (snd st1) ->
    let s2 := fst (fst (fst (step fence (fst st1) (SUnwind (fst gm)) None))) in
    s_used s2 = snd gm /\ s_top s2 = m_top (fst gm) /\
    snd (fst (fst (step fence (fst st1) (SUnwind (fst gm)) None))) = SDone /\
    snd (fst (step fence (fst st1) (SUnwind (fst gm)) None)) = [].
Proof. exact unwind_restores. Qed.
Print Assumptions C14_scope_end_restores_the_stack.

(* every interleaving of any number of threads that start, ask for a stack (walking the list node by node, creating one
   when the walk is exhausted), create and destroy initializers and exit: no stack is held by two live threads *)
Theorem C14_no_two_live_threads_share_a_stack : forall es g, trun fixed_cfg init_gst es = Some g ->
  forall t u s, holdsP (tthreads g t) s -> holdsP (tthreads g u) s -> t = u.
Proof. exact no_two_threads_share_a_stack. Qed.
Print Assumptions C14_no_two_live_threads_share_a_stack.

(* a stack is marked in use exactly while a live thread holds it: stacks of finished threads (and of destroyed initializers)
   are free for the next thread that walks the list *)
Theorem C14_in_use_exactly_while_held : forall es g, trun fixed_cfg init_gst es = Some g ->
  forall s, in_use g s = true <-> exists t, holdsP (tthreads g t) s.
Proof. exact in_use_iff_held. Qed.
Print Assumptions C14_in_use_exactly_while_held.

(* a new stack is created only by a thread whose walk found every node in use *)
Theorem C14_creation_only_after_exhausted_walk : forall cf g t g', tstep cf g (EScan t) = Some g' -> nstacks g' = S (nstacks g) ->
  t_scan (tthreads g t) = Some [].
Proof. exact creation_only_after_exhausted_walk. Qed.
Print Assumptions C14_creation_only_after_exhausted_walk.

Theorem C14_program_exit_frees_everything : forall g m g', tstep fixed_cfg g (EProgramExit m) = Some g' -> freed g' = true.
Proof. exact program_exit_frees_everything. Qed.
Print Assumptions C14_program_exit_frees_everything.

(* the three design points are necessary: with any one of them as it was in the pinned tree the property fails *)
Theorem C14_initializer_destructor_must_forget_the_stack :
  exists es g, trun {| reset_ts := false; detect_adopt := true; always_destroy := true |} init_gst es = Some g /\ shared g = true.
Proof. exact initializer_dtor_refuted. Qed.
Print Assumptions C14_initializer_destructor_must_forget_the_stack.

Theorem C14_adopting_thread_must_arm_its_exit_detector :
  exists es g, trun {| reset_ts := true; detect_adopt := false; always_destroy := true |} init_gst es = Some g /\ stranded g = true.
Proof. exact adopt_without_detector_refuted. Qed.
Print Assumptions C14_adopting_thread_must_arm_its_exit_detector.

Theorem C14_destroy_must_not_depend_on_the_main_threads_stack :
  exists es g, trun {| reset_ts := true; detect_adopt := true; always_destroy := false |} init_gst es = Some g /\ freed g = false /\ nstacks g = 1.
Proof. exact destroy_gate_refuted. Qed.
Print Assumptions C14_destroy_must_not_depend_on_the_main_threads_stack.

Example C14_nonvacuous :
  match trun fixed_cfg init_gst [EStart 0; EStart 1; EStart 2; EGet 1; EGet 2; EScan 1; EScan 2; EStore 2; EStore 1; EExit 1; EStart 3; EGet 3; EScan 3; EScan 3; EStore 3] with
  | Some g => (nstacks g, t_ts (tthreads g 2), t_ts (tthreads g 3), in_use g 0, in_use g 1) = (2, Some 1, Some 0, true, true)
  | None => False
  end.
Proof. vm_compute. reflexivity. Qed.
