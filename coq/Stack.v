(* memory_stack<BlockAllocator> over a cached memory_arena: Exec model (deterministic, what the code does).
   Blocks are upstream blocks (address, size); their usable memory starts hdr bytes in. *)
From Coq Require Import ZArith List Bool Lia.
From FM Require Import FixedStack.
Import ListNotations.
Local Open Scope Z_scope.

Definition blk := (Z * Z)%type.
Definition hdr : Z := 16.                       (* memory_block_stack::implementation_offset(), bridged in StackProofs *)
Definition b_mem (b : blk) : Z := fst b + hdr.
Definition b_end (b : blk) : Z := fst b + snd b.
Definition b_usable (b : blk) : Z := snd b - hdr.

Inductive srckind := SrcGrow | SrcFixed.

Record sst := {
  s_used  : list blk;      (* arena used stack, current block first *)
  s_cache : list blk;      (* arena cache, next block to be reused first *)
  s_top   : Z;             (* fixed_memory_stack::cur_ *)
  s_next  : Z;             (* size of the next upstream block (growing: doubles; fixed: 0 once taken) *)
  s_kind  : srckind;
  s_live  : list (Z * Z)   (* ghost: allocations not yet unwound (address, size), newest first *)
}.

Record marker := { m_index : nat; m_top : Z; m_end : Z }.

Inductive sop :=
  | SAlloc (size al : Z)
  | STry (size al : Z)
  | STop
  | SUnwind (m : marker)
  | SShrink.

Inductive ucall := UAlloc (size : Z) (answer : option Z) | UFree (addr size : Z).

Inductive sout :=
  | SOk (p : Z) | SNull
  | SThrowUpstream          (* the upstream source threw (std::bad_alloc from the harness upstream) *)
  | SThrowFixed             (* out_of_fixed_memory from fixed_block_allocator *)
  | SThrowBadSize           (* bad_allocation_size: does not fit an empty block *)
  | SMarker (m : marker)
  | SDone
  | SReported.              (* invalid-pointer handler (unwind misuse) *)

Definition cur_end (s : sst) : Z := match s_used s with b :: _ => b_end b | [] => 0 end.
Definition capacity_left (s : sst) : Z := cur_end s - s_top s.
Definition next_capacity (s : sst) : Z :=
  match s_cache s with b :: _ => b_usable b | [] => s_next s - hdr end.

Definition top_marker (s : sst) : marker :=
  {| m_index := (length (s_used s) - 1)%nat; m_top := s_top s; m_end := cur_end s |}.

(* arena.allocate_block(): cache first, then upstream; answer = what the upstream call returns *)
Definition take_block (s : sst) (answer : option Z) : option (blk * list blk * Z * list ucall) + sout :=
  match s_cache s with
  | b :: c => inl (Some (b, c, s_next s, []))
  | [] =>
      match s_kind s, (s_next s =? 0) with
      | SrcFixed, true => inr SThrowFixed
      | _, _ =>
          match answer with
          | None => inr SThrowUpstream
          | Some a =>
              let b := (a, s_next s) in
              inl (Some (b, [], (match s_kind s with SrcGrow => 2 * s_next s | SrcFixed => 0 end), [UAlloc (s_next s) (Some a)]))
          end
      end
  end.

Definition set_alloc (s : sst) used cache top next live : sst :=
  {| s_used := used; s_cache := cache; s_top := top; s_next := next; s_kind := s_kind s; s_live := live |}.

Fixpoint drop_blocks (n : nat) (used cache : list blk) : list blk * list blk :=
  match n, used with
  | S n', b :: u => drop_blocks n' u (b :: cache)
  | _, _ => (used, cache)
  end.

Definition in_blk (b : blk) (a : Z * Z) : bool := (b_mem b <=? fst a) && (fst a <? b_end b).
(* which allocations survive an unwind to address top in the block that is current afterwards *)
Definition keep (used : list blk) (top : Z) (a : Z * Z) : bool :=
  match used with
  | [] => false
  | hb :: rest => (in_blk hb a && (fst a <? top)) || existsb (fun b => in_blk b a) rest
  end.

Definition step (fence : Z) (s : sst) (o : sop) (answer : option Z) : sst * sout * list ucall * list (Z * Z) :=
  match o with
  | SAlloc size al =>
      let offset := align_off (s_top s + fence) al in
      if (s_top s =? 0) || (fence + offset + size + fence >? cur_end s - s_top s) then
        match take_block s answer with
        | inr e => (s, e, (match e with SThrowUpstream => [UAlloc (s_next s) None] | _ => [] end), [])
        | inl None => (s, SNull, [], [])
        | inl (Some (b, cache, next, calls)) =>
            let top := b_mem b in
            let offset' := align_off (top + fence) al in
            let needed := fence + offset' + size + fence in
            if needed >? b_usable b then
              (set_alloc s (b :: s_used s) cache top next (s_live s), SThrowBadSize, calls, [(b_mem b, b_usable b)])
            else
              let p := top + fence + offset' in
              (set_alloc s (b :: s_used s) cache (p + size + fence) next ((p, size) :: s_live s), SOk p, calls,
               [(b_mem b, b_usable b)])
        end
      else
        let p := s_top s + fence + offset in
        (set_alloc s (s_used s) (s_cache s) (p + size + fence) (s_next s) ((p, size) :: s_live s), SOk p, [],
         [(s_top s, p + size + fence - s_top s)])
  | STry size al =>
      match fs_alloc fence (s_top s) (cur_end s) size al with
      | None => (s, SNull, [], [])
      | Some (p, top') =>
          (set_alloc s (s_used s) (s_cache s) top' (s_next s) ((p, size) :: s_live s), SOk p, [], [(s_top s, top' - s_top s)])
      end
  | STop => (s, SMarker (top_marker s), [], [])
  | SUnwind m =>
      let idx := (length (s_used s) - 1)%nat in
      if Nat.ltb idx (m_index m) then (s, SReported, [], [])
      else
        let n := (idx - m_index m)%nat in
        match n with
        | O => if s_top s <? m_top m then (s, SReported, [], [])
               else (set_alloc s (s_used s) (s_cache s) (m_top m) (s_next s)
                               (filter (keep (s_used s) (m_top m)) (s_live s)), SDone, [], [(m_top m, s_top s - m_top m)])
        | S _ =>
            let '(used, cache) := drop_blocks n (s_used s) (s_cache s) in
            let endc := match used with b :: _ => b_end b | [] => 0 end in
            if negb (m_end m =? endc) then
              (set_alloc s used cache (s_top s) (s_next s) (s_live s), SReported, [], [])
            else
              (set_alloc s used cache (m_top m) (s_next s) (filter (keep used (m_top m)) (s_live s)),
               SDone, [], (m_top m, m_end m - m_top m) :: map (fun b => (b_mem b, b_usable b)) (firstn n (s_used s)))
        end
  | SShrink =>
      (set_alloc s (s_used s) [] (s_top s) (s_next s) (s_live s), SDone,
       map (fun b => UFree (fst b) (snd b)) (rev (s_cache s)), [])
  end.

(* constructor: arena(block_size); stack_(arena_.allocate_block().memory) *)
Definition init (k : srckind) (block_size : Z) (answer : option Z) : option (sst * list ucall) :=
  match answer with
  | None => None
  | Some a => Some ({| s_used := [(a, block_size)]; s_cache := []; s_top := a + hdr;
                       s_next := (match k with SrcGrow => 2 * block_size | SrcFixed => 0 end); s_kind := k; s_live := [] |},
                    [UAlloc block_size (Some a)])
  end.

(* destructor: shrink_to_fit, then the used blocks newest first *)
Definition destroy_calls (s : sst) : list ucall :=
  map (fun b => UFree (fst b) (snd b)) (rev (s_cache s)) ++ map (fun b => UFree (fst b) (snd b)) (s_used s).
