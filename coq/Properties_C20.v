(* C20 -- object-creating helpers are exception safe at every constructor failure point.  Statements only.
   ExcSafety.v gives the control flow of the array-building helpers (allocate_unique<T[]> with detail::construct,
   the joint_array constructors with their builder inside joint_ptr::create; n = 1 covers allocate_unique<T>,
   allocate_shared and joint_ptr creation) as event lists; the harness compares the event list of the real helper,
   element by element, with the model for every length and every failing index. *)
From Coq Require Import List Bool Arith.
From FM Require Import ExcSafety ExcSafetyProofs.
Import ListNotations.

(* every length n, every failing index k < n: elements 0..k-1 are constructed once and destroyed once, nothing else
   is constructed or destroyed, memory is obtained once and released once, the exception is the last event *)
Theorem C20_failure_at_any_index : forall n k i, k < n ->
  let ev := create_array n (Some k) in
  count (is_cons i) ev = (if Nat.ltb i k then 1 else 0) /\
  count (is_dtor i) ev = (if Nat.ltb i k then 1 else 0) /\
  count is_alloc ev = 1 /\ count is_free ev = 1 /\ count is_throw ev = 1 /\ exists pre, ev = pre ++ [XThrow].
Proof. exact create_array_failure. Qed.
Print Assumptions C20_failure_at_any_index.

(* success: each element constructed once and later destroyed once; one allocation, one release, no exception *)
Theorem C20_success_balanced : forall n i,
  let ev := create_array n None in
  count (is_cons i) ev = (if Nat.ltb i n then 1 else 0) /\
  count (is_dtor i) ev = (if Nat.ltb i n then 1 else 0) /\
  count is_alloc ev = 1 /\ count is_free ev = 1 /\ count is_throw ev = 0.
Proof. exact create_array_success. Qed.
Print Assumptions C20_success_balanced.

Example C20_nonvacuous : create_array 4 (Some 2) = [XAlloc; XCons 0; XCons 1; XDtor 0; XDtor 1; XFree; XThrow].
Proof. reflexivity. Qed.
