(* C20 -- object-creating helpers are exception safe at every constructor failure point.  Statements only.
   ExcSafety.v gives the control flow of the array-building helpers (allocate_unique<T[]> with detail::construct,
   the joint_array constructors with their builder inside joint_ptr::create; n = 1 covers allocate_unique<T>,
   allocate_shared and joint_ptr creation) as event lists; the harness compares the event list of the real helper,
   element by element, with the model for every length and every failing index.
   JointExc.v does the same for allocate_joint, clone_joint and the move-with-allocator constructor of an object with a
   joint_array of n elements (ids count constructions from 1; fail is the 0-based index of the throwing construction,
   counted over the whole case, so that it can fall into the copy). *)
From Coq Require Import List Bool Arith.
From FM Require Import ExcSafety ExcSafetyProofs JointExc JointExcProofs.
Import ListNotations.

(* every length n, every failing index k < n: elements 0..k-1 are constructed once and destroyed once, nothing else
   is constructed or destroyed, memory is obtained once and released once, the exception is the last event *)
Theorem C20_failure_at_any_index : forall n k i, k < n ->
  let ev := create_array n (Some k) in
  count (is_cons i) ev = (if Nat.ltb i k then 1 else 0) /\
  count (is_dtor i) ev = (if Nat.ltb i k then 1 else 0) /\
  count is_alloc ev = 1 /\ count is_free ev = 1 /\ count is_throw ev = 1 /\ exists pre, ev = pre ++ [XThrow].
Proof. exact create_array_failure. Qed.
Print Assumptions C20_failure_at_any_index.

(* success: each element constructed once and later destroyed once; one allocation, one release, no exception *)
Theorem C20_success_balanced : forall n i,
  let ev := create_array n None in
  count (is_cons i) ev = (if Nat.ltb i n then 1 else 0) /\
  count (is_dtor i) ev = (if Nat.ltb i n then 1 else 0) /\
  count is_alloc ev = 1 /\ count is_free ev = 1 /\ count is_throw ev = 0.
Proof. exact create_array_success. Qed.
Print Assumptions C20_success_balanced.

(* joint helpers, every n, every failing index (also inside the copy of clone_joint / move), both flows: the elements
   1..built are constructed once and destroyed once, nothing else is; as many nodes are given back as were obtained;
   the exception appears exactly when a construction was told to fail *)
Theorem C20_joint_creation_and_copy_balanced : forall n fail post i,
  let ev := jx_case n fail post in
  jcount (is_jc i) ev = (if in_range 1 (jx_built n fail post) i then 1 else 0) /\
  jcount (is_jd i) ev = jcount (is_jc i) ev /\
  jcount is_ja ev = jcount is_jf ev /\
  jcount is_jt ev = (match fail with Some k => if Nat.ltb k (jx_total n post) then 1 else 0 | None => 0 end).
Proof. exact jx_case_balanced. Qed.
Print Assumptions C20_joint_creation_and_copy_balanced.

(* memory is there before anything is built and the last thing that happens is that a node goes back *)
Theorem C20_joint_memory_brackets_everything : forall n fail post, exists mid, jx_case n fail post = JxAlloc :: mid ++ [JxFree].
Proof. exact jx_case_brackets. Qed.
Print Assumptions C20_joint_memory_brackets_everything.

Example C20_joint_nonvacuous :
  jx_case 3 (Some 4) PCopy = [JxAlloc; JxC 1; JxC 2; JxC 3; JxAlloc; JxC 4; JxT; JxD 4; JxFree; JxD 1; JxD 2; JxD 3; JxFree].
Proof. reflexivity. Qed.

Example C20_nonvacuous : create_array 4 (Some 2) = [XAlloc; XCons 0; XCons 1; XDtor 0; XDtor 1; XFree; XThrow].
Proof. reflexivity. Qed.
