(* Proofs about the ordered list's position search: correct for every valid release (any sentinel addresses,
   any cursor position), and every double release is stopped. *)
From Coq Require Import ZArith List Bool Lia Arith.
From FM Require Import OrderedList.
Import ListNotations.
Local Open Scope Z_scope.

Definition sorted (ns : list Z) : Prop := forall i j, (i < j < length ns)%nat -> nth i ns 0 < nth j ns 0.

Lemma ext_node l a : (1 <= a <= n_of l)%nat -> ext l a = nth (a - 1) (nodes l) 0.
Proof.
  intros H. unfold ext. destruct a as [|i]; [lia|]. replace (S i - 1)%nat with i by lia.
  destruct (Nat.ltb_spec i (n_of l)); [reflexivity|lia].
Qed.

Lemma ext_end l : ext l (S (n_of l)) = pe l.
Proof. unfold ext. destruct (Nat.ltb_spec (n_of l) (n_of l)); [lia|reflexivity]. Qed.

Lemma ext_mono l a b : sorted (nodes l) -> (1 <= a)%nat -> (a < b)%nat -> (b <= n_of l)%nat -> ext l a < ext l b.
Proof. intros S Ha Hab Hb. rewrite !ext_node by lia. apply S. unfold n_of in *. lia. Qed.

Lemma ext_lt_inv l a b : sorted (nodes l) -> (1 <= a <= n_of l)%nat -> (1 <= b <= n_of l)%nat -> ext l a < ext l b -> (a < b)%nat.
Proof.
  intros S Ha Hb H. destruct (Nat.lt_ge_cases a b) as [|Hge]; [assumption|].
  destruct (Nat.eq_dec a b) as [->|]; [lia|].
  assert (ext l b < ext l a) by (apply ext_mono; [assumption|lia..]). lia.
Qed.

Section Walk.
Variable l : olist.
Variable m : Z.
Variable dbl : bool.
Hypothesis Hs : sorted (nodes l).

Definition good (k : nat) := (1 <= k)%nat /\ (S k <= n_of l)%nat /\ ext l k < m < ext l (S k).

(* ---- valid release: m is not a node of the list ---- *)
Section Valid.
Hypothesis Hm : forall a, (1 <= a <= n_of l)%nat -> ext l a <> m.

Lemma walk_step fuel a b : (1 <= a)%nat -> (a < b)%nat -> (b <= n_of l)%nat -> ext l a < m < ext l b ->
  walk (S fuel) dbl l m a b = walk fuel dbl l m (S a) (b - 1)%nat.
Proof.
  intros Ha Hab Hb [H1 H2]. cbn [walk].
  destruct (Z.gtb_spec (ext l a) m); [lia|]. destruct (Z.ltb_spec (ext l b) m); [lia|].
  assert (E1 : (ext l a =? m) = false) by (apply Z.eqb_neq, Hm; lia).
  assert (E2 : (ext l b =? m) = false) by (apply Z.eqb_neq, Hm; lia).
  rewrite E1, E2. cbn [orb]. rewrite andb_false_r.
  destruct (Z.ltb_spec (ext l a) (ext l b)); [reflexivity|].
  assert (ext l a < ext l b) by (apply ext_mono; [assumption|lia..]). lia.
Qed.

Lemma walk_correct : forall fuel a b, (1 <= a)%nat -> (a < b)%nat -> (b <= n_of l)%nat -> ext l a < m < ext l b ->
  (fuel > b - a)%nat -> exists k, walk fuel dbl l m a b = Ret k /\ (a <= k < b)%nat /\ good k.
Proof.
  induction fuel as [|fuel IH]; intros a b Ha Hab Hb Hmab Hf; [lia|].
  rewrite walk_step by assumption. destruct fuel as [|fuel']; [lia|].
  destruct (Z.gtb_spec (ext l (S a)) m) as [G|G].
  - exists a. split.
    + cbn [walk]. destruct (Z.gtb_spec (ext l (S a)) m); [f_equal; lia|lia].
    + unfold good. repeat split; lia.
  - assert (ext l (S a) <> m). { destruct (Nat.eq_dec (S a) b) as [E|E]; [rewrite E; lia|]. apply Hm. lia. }
    destruct (Z.ltb_spec (ext l (b - 1)%nat) m) as [B|B].
    + exists (b - 1)%nat. split.
      * cbn [walk]. destruct (Z.gtb_spec (ext l (S a)) m); [lia|]. destruct (Z.ltb_spec (ext l (b - 1)%nat) m); [reflexivity|lia].
      * unfold good. replace (S (b - 1)) with b by lia. repeat split; lia.
    + assert (ext l (b - 1)%nat <> m). { destruct (Nat.eq_dec (b - 1) a) as [E|E]; [rewrite E; lia|]. apply Hm. lia. }
      assert (Hlt : (S a < b - 1)%nat).
      { apply (ext_lt_inv l); try assumption.
        - split; [lia|]. destruct (Nat.eq_dec (S a) b) as [E|]; [|lia]. exfalso. rewrite E in G. lia.
        - split; [|lia]. destruct (Nat.eq_dec (b - 1) a) as [E|]; [|lia]. exfalso. rewrite E in B. lia.
        - lia. }
      destruct (IH (S a) (b - 1)%nat) as (k & Hk & Hr & Hg); try lia.
      exists k. split; [exact Hk|]. split; [lia|exact Hg].
Qed.
End Valid.

(* ---- double release: m is the node at index j inside the interval searched ---- *)
Lemma walk_double : forall fuel a b j, (1 <= a)%nat -> (a <= j <= b)%nat -> (b <= n_of l)%nat -> ext l j = m ->
  (fuel > b - a)%nat -> walk fuel true l m a b = Reported.
Proof.
  induction fuel as [|fuel IH]; intros a b j Ha Hj Hb Hjm Hf; [lia|].
  cbn [walk].
  assert (Ha' : ext l a <= m). { destruct (Nat.eq_dec a j) as [->|]; [lia|]. assert (ext l a < ext l j) by (apply ext_mono; [assumption|lia..]). lia. }
  assert (Hb' : m <= ext l b). { destruct (Nat.eq_dec j b) as [->|]; [lia|]. assert (ext l j < ext l b) by (apply ext_mono; [assumption|lia..]). lia. }
  destruct (Z.gtb_spec (ext l a) m); [lia|]. destruct (Z.ltb_spec (ext l b) m); [lia|].
  cbn [andb]. destruct (Z.eqb_spec (ext l a) m) as [E1|E1]; [reflexivity|]. destruct (Z.eqb_spec (ext l b) m) as [E2|E2]; [reflexivity|]. cbn [orb].
  assert (a <> j) by (intros ->; lia). assert (j <> b) by (intros ->; lia).
  destruct (Z.ltb_spec (ext l a) (ext l b)); [|reflexivity].
  apply (IH (S a) (b - 1)%nat j); lia.
Qed.
End Walk.

(* ---- find_pos on valid releases ---- *)
Section FP.
Variable l : olist.
Variable m : Z.
Variable asserts dbl : bool.
Hypothesis Hs : sorted (nodes l).
Hypothesis Hpb : pb l < pe l.
Hypothesis Hm : forall a, (1 <= a <= n_of l)%nat -> ext l a <> m.
Hypothesis Hldp : (ldp l <= n_of l)%nat.

Let n := n_of l.

Definition position_ok (k : nat) : Prop := (k <= n)%nat /\ (k = 0%nat \/ ext l k < m) /\ (k = n \/ m < ext l (S k)).

Lemma interval_correct a b : (1 <= a)%nat -> (a < b)%nat -> (b <= n)%nat -> ext l a < m < ext l b ->
  exists k, interval asserts dbl l m a b = Ret k /\ (a <= k < b)%nat /\ good l m k.
Proof.
  clear Hldp. intros Ha Hab Hb H. unfold interval.
  assert (E : (ext l a <? m) && (m <? ext l b) = true).
  { apply andb_true_iff. split; apply Z.ltb_lt; lia. }
  rewrite E. cbn [negb]. rewrite andb_false_r.
  apply walk_correct; try assumption; unfold n in *; lia.
Qed.

Theorem find_pos_correct : exists k, find_pos asserts dbl l m = Ret k /\ position_ok k.
Proof.
  unfold find_pos. fold n. generalize Hldp. generalize (ldp l). intros c Hc.
  destruct (Nat.eq_dec n 0) as [Hn0|Hn0].
  - assert (E1 : ext l 1 = pe l) by (rewrite <- ext_end; fold n; rewrite Hn0; reflexivity).
    assert (E0 : ext l n = pb l) by (rewrite Hn0; reflexivity).
    rewrite E1. destruct (Z.gtb_spec (pe l) m) as [G|G].
    + exists 0%nat. split; [reflexivity|]. unfold position_ok. repeat split; lia.
    + rewrite E0. destruct (Z.ltb_spec (pb l) m) as [B|B]; [|lia].
      exists n. split; [reflexivity|]. unfold position_ok. rewrite Hn0. repeat split; lia.
  - assert (Hn1 : (1 <= n)%nat) by lia.
    destruct (Z.gtb_spec (ext l 1) m) as [G|G].
    + exists 0%nat. split; [reflexivity|]. unfold position_ok. repeat split; lia.
    + assert (F1 : ext l 1 < m). { assert (ext l 1 <> m) by (apply Hm; unfold n in *; lia). lia. }
      destruct (Z.ltb_spec (ext l n) m) as [B|B].
      * exists n. split; [reflexivity|]. unfold position_ok. repeat split; lia.
      * assert (Fn : m < ext l n). { assert (ext l n <> m) by (apply Hm; unfold n in *; lia). lia. }
        assert (Hn2 : (1 < n)%nat) by (apply (ext_lt_inv l); unfold n in *; try assumption; lia).
        destruct (Z.ltb_spec (ext l c) m) as [C1|C1]; destruct (Z.ltb_spec m (ext l (S c))) as [C2|C2]; cbn [andb].
        { assert (Hl1 : (1 <= c)%nat \/ c = 0%nat) by lia.
          assert (Hl2 : (c < n)%nat). { destruct (Nat.eq_dec c n) as [E|E]; [|unfold n in *; lia]. exfalso. rewrite E in C1. lia. }
          exists c. split; [reflexivity|]. unfold position_ok. repeat split; try lia. }
        { destruct (Nat.eqb_spec (S c) (S n)) as [E|E]; cbn [orb andb].
          - exfalso. injection E as E. rewrite E in C1. lia.
          - destruct (Z.ltb_spec m (ext l (S c))) as [C3|C3]; [lia|]. cbn [orb].
            assert (Hl2 : (c < n)%nat) by (unfold n in *; lia).
            assert (Hne : ext l (S c) <> m) by (apply Hm; unfold n in *; lia).
            destruct (Z.gtb_spec m (ext l (S c))) as [C4|C4]; [|lia].
            assert (Hlt : (S c < n)%nat) by (apply (ext_lt_inv l); unfold n in *; try assumption; lia).
            destruct (interval_correct (S c) n) as (k & Hk & Hr & Hg); try lia.
            exists k. split; [exact Hk|]. destruct Hg as (G1 & G2 & G3). unfold position_ok. unfold n in *. repeat split; try lia. }
        { cbn [andb]. rewrite orb_true_r.
          assert (Hl1 : (1 <= c)%nat). { destruct c as [|q]; [|lia]. exfalso. lia. }
          assert (Hne : ext l c <> m) by (apply Hm; unfold n in *; lia).
          assert (Hlt : (1 < c)%nat) by (apply (ext_lt_inv l); unfold n in *; try assumption; lia).
          destruct (interval_correct 1%nat c) as (k & Hk & Hr & Hg); unfold n in *; try lia.
          exists k. split; [exact Hk|]. destruct Hg as (G1 & G2 & G3). unfold position_ok. unfold n in *. repeat split; try lia. }
        { destruct (Nat.eqb_spec (S c) (S n)) as [E|E]; cbn [orb andb].
          - injection E as E.
            destruct (interval_correct 1%nat c) as (k & Hk & Hr & Hg); unfold n in *; try lia.
            { rewrite E. lia. }
            exists k. split; [exact Hk|]. destruct Hg as (G1 & G2 & G3). unfold position_ok. unfold n in *. repeat split; try lia.
          - assert (Hl2 : (c < n)%nat) by (unfold n in *; lia).
            destruct c as [|q].
            + destruct (Z.ltb_spec m (ext l 1)) as [C3|C3]; [lia|]. cbn [orb].
              destruct (Z.gtb_spec m (ext l 1)) as [C4|C4]; [|lia].
              destruct (interval_correct 1%nat n) as (k & Hk & Hr & Hg); try lia.
              exists k. split; [exact Hk|]. destruct Hg as (G1 & G2 & G3). unfold position_ok. unfold n in *. repeat split; try lia.
            + exfalso. assert (ext l (S q) < ext l (S (S q))) by (apply ext_mono; unfold n in *; try assumption; lia). lia. }
Qed.
End FP.

(* ---- find_pos on a double release ---- *)
Section Dbl.
Variable l : olist.
Variable asserts : bool.
Hypothesis Hs : sorted (nodes l).
Hypothesis Hldp : (ldp l <= n_of l)%nat.
(* the begin sentinel's address is not the address of a node (it lives in the list object) *)
Hypothesis Hpb : forall a, (1 <= a <= n_of l)%nat -> ext l a <> pb l.

Let n := n_of l.

Theorem double_release_stopped j : (1 <= j <= n)%nat ->
  find_pos asserts true l (ext l j) = Reported \/ find_pos asserts true l (ext l j) = Unreachable \/ find_pos asserts true l (ext l j) = AssertFail.
Proof.
  intros Hj. set (m := ext l j). unfold find_pos. fold n. generalize Hldp. generalize (ldp l). intros c Hc.
  assert (H1 : ext l 1 <= m). { destruct (Nat.eq_dec 1 j) as [<-|]; [unfold m; lia|]. assert (ext l 1 < ext l j) by (apply ext_mono; unfold n in *; try assumption; lia). unfold m; lia. }
  assert (Hn : m <= ext l n). { destruct (Nat.eq_dec j n) as [->|]; [unfold m; lia|]. assert (ext l j < ext l n) by (apply ext_mono; unfold n in *; try assumption; lia). unfold m; lia. }
  destruct (Z.gtb_spec (ext l 1) m); [lia|]. destruct (Z.ltb_spec (ext l n) m); [lia|].
  (* third branch: between the cached pair -- impossible for a node of the list *)
  assert (T : (ext l c <? m) && (m <? ext l (S c)) = false).
  { apply andb_false_iff. destruct (Z.ltb_spec (ext l c) m) as [C1|C1]; [|left; reflexivity]. right. apply Z.ltb_ge.
    destruct (Nat.eq_dec c n) as [E|E].
    - exfalso. rewrite E in C1. lia.
    - destruct c as [|q].
      + (* cursor at the begin sentinel: last_dealloc is the first node *) lia.
      + assert (Hq : (S q < j)%nat) by (apply (ext_lt_inv l); unfold n in *; try assumption; lia).
        destruct (Nat.eq_dec (S (S q)) j) as [<-|]; [unfold m; lia|].
        assert (ext l (S (S q)) < ext l j) by (apply ext_mono; unfold n in *; try assumption; lia). unfold m; lia. }
  rewrite T.
  unfold interval.
  destruct (Nat.eqb_spec (S c) (S n)) as [E|E]; cbn [orb].
  - injection E as E. destruct (asserts && negb ((ext l 1 <? m) && (m <? ext l c))); [right; right; reflexivity|].
    left. apply (walk_double l m Hs _ 1%nat c j); unfold n in *; try lia; reflexivity.
  - destruct (Z.ltb_spec m (ext l (S c))) as [C3|C3].
    + destruct (asserts && negb ((ext l 1 <? m) && (m <? ext l c))); [right; right; reflexivity|].
      left. assert (Hjc : (j <= c)%nat).
      { destruct (Nat.le_gt_cases j c); [assumption|]. exfalso.
        destruct (Nat.eq_dec j (S c)) as [E'|E']; [unfold m in C3; rewrite E' in C3; lia|].
        assert (ext l (S c) < ext l j) by (apply ext_mono; unfold n in *; try assumption; lia). unfold m in C3; lia. }
      apply (walk_double l m Hs _ 1%nat c j); unfold n in *; try lia; reflexivity.
    + destruct (Z.gtb_spec m (ext l (S c))) as [C4|C4]; [|right; left; reflexivity].
      destruct (asserts && negb ((ext l (S c) <? m) && (m <? ext l n))); [right; right; reflexivity|].
      left. assert (Hjc : (S c <= j)%nat).
      { destruct (Nat.le_gt_cases (S c) j); [assumption|]. exfalso.
        destruct c as [|q]; [lia|].
        assert (Hq : (j <= S q)%nat) by lia.
        destruct (Nat.eq_dec j (S q)) as [E'|E'].
        - assert (ext l (S q) < ext l (S (S q))) by (apply ext_mono; unfold n in *; try assumption; lia). unfold m in C4. rewrite E' in C4. lia.
        - assert (ext l j < ext l (S (S q))) by (apply ext_mono; unfold n in *; try assumption; lia). unfold m in C4. lia. }
      apply (walk_double l m Hs _ (S c) n j); unfold n in *; try lia; reflexivity.
Qed.
End Dbl.

(* ================= the list stays sorted and the cursor stays inside, for every operation ================= *)
Require Import Sorting.Sorted.

Lemma SS_app (a b : list Z) : StronglySorted Z.lt (a ++ b) <-> StronglySorted Z.lt a /\ StronglySorted Z.lt b /\ (forall x y, In x a -> In y b -> x < y).
Proof.
  induction a as [|h a IH]; cbn.
  - split; [intros H; repeat split; [constructor|assumption|intros x y []]|intros (_ & H & _); assumption].
  - split.
    + intros H. inversion H as [|? ? Hs Hf]; subst. apply IH in Hs as (Sa & Sb & Hab). rewrite Forall_app in Hf. destruct Hf as [Fa Fb].
      repeat split; [constructor; assumption|assumption|]. intros x y [<-|Hx] Hy; [rewrite Forall_forall in Fb; apply Fb; assumption|apply Hab; assumption].
    + intros (Sa & Sb & Hab). inversion Sa as [|? ? Hs Hf]; subst. constructor.
      * apply IH. repeat split; [assumption|assumption|]. intros x y Hx Hy. apply Hab; [right; assumption|assumption].
      * rewrite Forall_app. split; [assumption|]. rewrite Forall_forall. intros y Hy. apply Hab; [left; reflexivity|assumption].
Qed.

Lemma sorted_SS ns : sorted ns <-> StronglySorted Z.lt ns.
Proof.
  induction ns as [|h t IH].
  - split; [constructor|intros _ i j H; cbn in H; lia].
  - split.
    + intros H. constructor.
      * apply IH. intros i j Hij. apply (H (S i) (S j)). cbn. lia.
      * rewrite Forall_forall. intros x Hx. destruct (In_nth _ _ 0 Hx) as (i & Hi & <-). apply (H 0%nat (S i)). cbn. lia.
    + intros H. inversion H as [|? ? Hs Hf]; subst. apply IH in Hs. rewrite Forall_forall in Hf.
      intros i j Hij. destruct i as [|i]; destruct j as [|j]; try lia; cbn [nth].
      * apply Hf. apply nth_In. cbn in Hij. lia.
      * apply Hs. cbn in Hij. lia.
Qed.

Lemma nth_firstn' (A : Type) (l : list A) d : forall k i, (i < k)%nat -> nth i (firstn k l) d = nth i l d.
Proof. induction l as [|h t IH]; intros k i H; [rewrite firstn_nil; reflexivity|]. destruct k as [|k]; [lia|]. destruct i as [|i]; cbn; [reflexivity|]. apply IH. lia. Qed.
Lemma nth_skipn' (A : Type) (l : list A) d : forall k i, nth i (skipn k l) d = nth (k + i) l d.
Proof. induction l as [|h t IH]; intros k i; [rewrite skipn_nil; destruct i, k; reflexivity|]. destruct k as [|k]; cbn; [reflexivity|]. apply IH. Qed.
Lemma in_firstn' (A : Type) (l : list A) k x : In x (firstn k l) -> In x l.
Proof. intros H. rewrite <- (firstn_skipn k l). apply in_app_iff. left. assumption. Qed.
Lemma in_skipn' (A : Type) (l : list A) k x : In x (skipn k l) -> In x l.
Proof. intros H. rewrite <- (firstn_skipn k l). apply in_app_iff. right. assumption. Qed.

Lemma sorted_nth_le ns i j : sorted ns -> (i <= j < length ns)%nat -> nth i ns 0 <= nth j ns 0.
Proof. intros S H. destruct (Nat.eq_dec i j) as [->|]; [lia|]. assert (nth i ns 0 < nth j ns 0) by (apply S; lia). lia. Qed.

Lemma in_firstn_le ns k x : sorted ns -> (1 <= k <= length ns)%nat -> In x (firstn k ns) -> x <= nth (k - 1) ns 0.
Proof.
  intros S Hk Hx. destruct (In_nth _ _ 0 Hx) as (i & Hi & <-). rewrite firstn_length in Hi.
  assert (i < k)%nat by lia. rewrite nth_firstn' by assumption. apply sorted_nth_le; [assumption|lia].
Qed.

Lemma in_skipn_ge ns k y : sorted ns -> (k < length ns)%nat -> In y (skipn k ns) -> nth k ns 0 <= y.
Proof.
  intros S Hk Hy. destruct (In_nth _ _ 0 Hy) as (i & Hi & <-). rewrite skipn_length in Hi.
  rewrite nth_skipn'. apply sorted_nth_le; [assumption|lia].
Qed.

Lemma sorted_firstn ns k : sorted ns -> sorted (firstn k ns).
Proof. rewrite !sorted_SS. intros H. rewrite <- (firstn_skipn k ns) in H. apply SS_app in H. tauto. Qed.
Lemma sorted_skipn ns k : sorted ns -> sorted (skipn k ns).
Proof. rewrite !sorted_SS. intros H. rewrite <- (firstn_skipn k ns) in H. apply SS_app in H. tauto. Qed.

(* a block [lo, hi) put between index k and k+1 keeps the list sorted when it fits into that gap *)
Lemma insert_sorted ns k blk lo hi : sorted ns -> (k <= length ns)%nat ->
  (k = 0%nat \/ nth (k - 1) ns 0 < lo) -> (k = length ns \/ hi <= nth k ns 0) ->
  sorted blk -> (forall x, In x blk -> lo <= x < hi) -> sorted (insert_at ns k blk).
Proof.
  intros S Hk Hlo Hhi Sb Hb. unfold insert_at. apply sorted_SS. apply SS_app. repeat split.
  - apply sorted_SS, sorted_firstn, S.
  - apply SS_app. repeat split; [apply sorted_SS, Sb|apply sorted_SS, sorted_skipn, S|].
    intros x y Hx Hy. destruct Hhi as [->|Hhi]; [rewrite skipn_all in Hy; destruct Hy|].
    destruct (Nat.eq_dec k (length ns)) as [->|]; [rewrite skipn_all in Hy; destruct Hy|].
    assert (nth k ns 0 <= y) by (apply in_skipn_ge; [assumption|lia|assumption]). specialize (Hb x Hx). lia.
  - intros x y Hx Hy. destruct Hlo as [->|Hlo]; [destruct Hx|].
    destruct (Nat.eq_dec k 0) as [->|]; [destruct Hx|].
    assert (x <= nth (k - 1) ns 0) by (apply in_firstn_le; [assumption|lia|assumption]).
    apply in_app_iff in Hy as [Hy|Hy].
    + specialize (Hb y Hy). lia.
    + destruct (Nat.eq_dec k (length ns)) as [->|]; [rewrite skipn_all in Hy; destruct Hy|].
      assert (nth k ns 0 <= y) by (apply in_skipn_ge; [assumption|lia|assumption]).
      assert (nth (k - 1) ns 0 < nth k ns 0) by (apply S; lia). lia.
Qed.

Lemma block_nodes_spec cnt m step x : 0 < step -> In x (block_nodes cnt m step) -> m <= x < m + Z.of_nat cnt * step.
Proof.
  intros Hs. revert m. induction cnt as [|c IH]; intros m H; cbn in H; [destruct H|].
  destruct H as [<-|H]; [lia|]. apply IH in H. lia.
Qed.

Lemma block_nodes_sorted cnt m step : 0 < step -> sorted (block_nodes cnt m step).
Proof.
  intros Hs. apply sorted_SS. revert m. induction cnt as [|c IH]; intros m; cbn; [constructor|].
  constructor; [apply IH|]. rewrite Forall_forall. intros x Hx. apply block_nodes_spec in Hx; [lia|assumption].
Qed.

Definition OInv (l : olist) : Prop := sorted (nodes l) /\ (ldp l <= n_of l)%nat /\ pb l < pe l /\ 0 < nsz l.

(* a valid release of one node: m is not on the list *)
Theorem dealloc_valid asserts dbl l m : OInv l -> ~ In m (nodes l) ->
  exists l', o_dealloc asserts dbl l m = Ret l' /\ OInv l' /\ (forall x, In x (nodes l') <-> x = m \/ In x (nodes l)) /\ n_of l' = S (n_of l).
Proof.
  intros (Hso & Hc & Hp & Hn) Hm.
  assert (Hm' : forall a, (1 <= a <= n_of l)%nat -> ext l a <> m).
  { intros a Ha E. apply Hm. rewrite <- E, ext_node by assumption. apply nth_In. unfold n_of in *. lia. }
  destruct (find_pos_correct l m asserts dbl Hso Hp Hm' Hc) as (k & Hk & Hk1 & Hk2 & Hk3).
  unfold o_dealloc. rewrite Hk. eexists. split; [reflexivity|]. cbn [nodes set_nodes ldp pb pe nsz n_of]. unfold OInv. cbn [nodes set_nodes ldp pb pe nsz n_of].
  assert (L : length (insert_at (nodes l) k [m]) = S (n_of l)).
  { unfold insert_at. rewrite !app_length, firstn_length, skipn_length. cbn. unfold n_of in *. lia. }
  repeat split; try assumption.
  - apply (insert_sorted _ _ _ m (m + 1)); try assumption.
    + destruct Hk2 as [->|Hk2]; [left; reflexivity|]. destruct (Nat.eq_dec k 0) as [->|]; [left; reflexivity|]. right. rewrite <- ext_node by (unfold n_of in *; lia). assumption.
    + destruct Hk3 as [->|Hk3]; [left; reflexivity|]. destruct (Nat.eq_dec k (n_of l)) as [->|]; [left; reflexivity|]. right.
      assert (E : ext l (S k) = nth k (nodes l) 0) by (rewrite ext_node; [f_equal; lia|unfold n_of in *; lia]). rewrite <- E. lia.
    + intros i j H. cbn in H. lia.
    + intros x [<-|[]]. lia.
  - unfold n_of, set_nodes. cbn [nodes]. rewrite L. lia.
  - unfold insert_at. rewrite !in_app_iff. cbn. intros [H|[[<-|[]]|H]]; [right; apply (in_firstn' _ _ k); assumption|left; reflexivity|right; apply (in_skipn' _ _ k); assumption].
  - unfold insert_at. rewrite !in_app_iff. cbn. intros [->|H]; [right; left; left; reflexivity|].
    rewrite <- (firstn_skipn k (nodes l)) in H. apply in_app_iff in H as [H|H]; [left; assumption|right; right; assumption].
Qed.

(* a release of a node that is on the list never goes through (double-free checking on) *)
Theorem dealloc_double_stopped asserts l m : OInv l -> In m (nodes l) ->
  o_dealloc asserts true l m = Reported \/ o_dealloc asserts true l m = Unreachable \/ o_dealloc asserts true l m = AssertFail.
Proof.
  intros (Hso & Hc & _) Hin. destruct (In_nth _ _ 0 Hin) as (i & Hi & E).
  assert (Em : m = ext l (S i)). { rewrite ext_node; [replace (S i - 1)%nat with i by lia; symmetry; assumption|unfold n_of; lia]. }
  unfold o_dealloc. rewrite Em.
  destruct (double_release_stopped l asserts Hso Hc (S i)) as [H|[H|H]]; [unfold n_of; lia|rewrite H; tauto..].
Qed.

(* allocation keeps the invariant *)
Theorem alloc_inv l x l' : OInv l -> o_alloc l = Some (x, l') -> OInv l' /\ nodes l = x :: nodes l'.
Proof.
  intros (Hso & Hc & Hp & Hn). unfold o_alloc. destruct (nodes l) as [|h t] eqn:E; [discriminate|]. intros H. injection H as <- <-.
  unfold OInv. cbn [nodes set_nodes ldp pb pe nsz n_of]. repeat split; try assumption.
  - apply sorted_SS in Hso. inversion Hso; subst. apply sorted_SS. assumption.
  - unfold n_of in *. cbn [nodes set_nodes]. rewrite E in Hc. cbn in Hc. destruct (Nat.leb_spec (ldp l) 1); lia.
Qed.

(* ================= arrays and inserted blocks ================= *)
(* a block of cnt nodes [m, m + cnt*step) that meets no node of the list lands in one gap and keeps the list sorted *)
Lemma block_fits_sorted l k cnt m :
  sorted (nodes l) -> 0 < nsz l -> (k <= n_of l)%nat ->
  (k = 0%nat \/ ext l k < m) -> (k = n_of l \/ m < ext l (S k)) ->
  (forall x, In x (nodes l) -> x < m \/ m + Z.of_nat cnt * nsz l <= x) ->
  sorted (insert_at (nodes l) k (block_nodes cnt m (nsz l))).
Proof.
  intros Hs Hn Hk Hlo Hhi Hfree. apply (insert_sorted _ _ _ m (m + Z.of_nat cnt * nsz l)); try assumption.
  - destruct Hlo as [->|Hlo]; [left; reflexivity|]. destruct (Nat.eq_dec k 0) as [->|]; [left; reflexivity|]. right. rewrite <- ext_node by (unfold n_of in *; lia). assumption.
  - destruct Hhi as [->|Hhi]; [left; reflexivity|]. destruct (Nat.eq_dec k (n_of l)) as [->|]; [left; reflexivity|]. right.
    assert (E : ext l (S k) = nth k (nodes l) 0) by (rewrite ext_node; [f_equal; lia|unfold n_of in *; lia]). rewrite <- E.
    assert (Hin : In (ext l (S k)) (nodes l)) by (rewrite E; apply nth_In; unfold n_of in *; lia).
    destruct (Hfree _ Hin); lia.
  - apply block_nodes_sorted. assumption.
  - intros x Hx. apply block_nodes_spec in Hx; assumption.
Qed.

(* releasing an array (deallocate(ptr, n)): every node the array occupied is on the list afterwards, the list stays sorted,
   the cursor stays inside *)
Theorem dealloc_array_valid asserts dbl l m bytes : OInv l -> nsz l < bytes ->
  (forall x, In x (nodes l) -> x < m \/ m + Z.of_nat (nodes_for l bytes) * nsz l <= x) ->
  exists l', o_dealloc_array asserts dbl l m bytes = Ret l' /\ OInv l' /\
             (forall x, In x (nodes l') <-> In x (block_nodes (nodes_for l bytes) m (nsz l)) \/ In x (nodes l)) /\
             n_of l' = (n_of l + nodes_for l bytes)%nat.
Proof.
  intros (Hso & Hc & Hp & Hn) Hb Hfree.
  assert (Hcnt : (1 <= nodes_for l bytes)%nat).
  { unfold nodes_for. assert (1 <= (bytes + nsz l - 1) / nsz l) by (apply Z.div_le_lower_bound; lia). lia. }
  assert (Hm : ~ In m (nodes l)). { intros Hin. destruct (Hfree m Hin) as [H|H]; [lia|]. assert (0 < Z.of_nat (nodes_for l bytes) * nsz l) by nia. lia. }
  assert (Hm' : forall a, (1 <= a <= n_of l)%nat -> ext l a <> m).
  { intros a Ha E. apply Hm. rewrite <- E, ext_node by assumption. apply nth_In. unfold n_of in *. lia. }
  destruct (find_pos_correct l m asserts dbl Hso Hp Hm' Hc) as (k & Hk & Hk1 & Hk2 & Hk3).
  unfold o_dealloc_array. destruct (Z.leb_spec bytes (nsz l)); [lia|]. rewrite Hk. eexists. split; [reflexivity|].
  set (blk := block_nodes (nodes_for l bytes) m (nsz l)).
  assert (Lb : length blk = nodes_for l bytes). { unfold blk. generalize (nodes_for l bytes) m. induction n as [|n IH]; intros m0; cbn; [reflexivity|rewrite IH; reflexivity]. }
  assert (L : length (insert_at (nodes l) k blk) = (n_of l + nodes_for l bytes)%nat).
  { unfold insert_at. rewrite !app_length, firstn_length, skipn_length, Lb. unfold n_of in *. lia. }
  unfold OInv. cbn [nodes set_nodes ldp pb pe nsz n_of]. repeat split; try assumption.
  - apply block_fits_sorted; assumption.
  - unfold n_of, set_nodes. cbn [nodes]. rewrite L. lia.
  - unfold insert_at. rewrite !in_app_iff. intros [Hx|[Hx|Hx]]; [right; apply (in_firstn' _ _ k); assumption|left; assumption|right; apply (in_skipn' _ _ k); assumption].
  - unfold insert_at. rewrite !in_app_iff. intros [Hx|Hx]; [right; left; assumption|].
    rewrite <- (firstn_skipn k (nodes l)) in Hx. apply in_app_iff in Hx as [Hx|Hx]; [left; assumption|right; right; assumption].
Qed.

(* releasing, as an array, memory whose first node is on the list never goes through (double-free checking on):
   the position search runs before anything is written, and it is the search that meets the node *)
Theorem dealloc_array_double_stopped asserts l m bytes : OInv l -> In m (nodes l) ->
  o_dealloc_array asserts true l m bytes = Reported \/ o_dealloc_array asserts true l m bytes = Unreachable \/ o_dealloc_array asserts true l m bytes = AssertFail.
Proof.
  intros HI Hin. unfold o_dealloc_array. destruct (bytes <=? nsz l); [apply dealloc_double_stopped; assumption|].
  pose proof (dealloc_double_stopped asserts l m HI Hin) as H. unfold o_dealloc in H.
  destruct (find_pos asserts true l m) as [k| | | |]; try tauto.
  destruct H as [H|[H|H]]; discriminate.
Qed.

Lemma skipn_skipn' (A : Type) (l : list A) : forall a b, skipn a (skipn b l) = skipn (b + a) l.
Proof. induction l as [|h t IH]; intros a b; [rewrite !skipn_nil; reflexivity|]. destruct b as [|b]; cbn; [reflexivity|apply IH]. Qed.

(* allocate(n): what is taken is a run of consecutive nodes that were all on the list, and the rest stays sorted *)
Lemma sorted_remove_middle ns i cnt : sorted ns -> sorted (firstn i ns ++ skipn (i + cnt) ns).
Proof.
  intros H. apply sorted_SS. apply sorted_SS in H. rewrite <- (firstn_skipn i ns) in H. apply SS_app in H as (Ha & Hb & Hab).
  replace (skipn (i + cnt) ns) with (skipn cnt (skipn i ns)) by (apply skipn_skipn').
  apply SS_app. repeat split; [assumption|apply sorted_SS, sorted_skipn, sorted_SS; assumption|].
  intros x y Hx Hy. apply Hab; [assumption|apply (in_skipn' _ _ cnt); assumption].
Qed.

Lemma run_len_le ns step : (run_len ns step <= length ns)%nat.
Proof. induction ns as [|x tl IH]; cbn; [lia|]. destruct tl as [|y tl']; [cbn; lia|]. destruct (x + step =? y); cbn in *; lia. Qed.

Lemma find_run_bound : forall fuel ns step need idx i, find_run fuel ns step need idx = Some i -> (idx <= i /\ i - idx + need <= length ns)%nat.
Proof.
  induction fuel as [|f IH]; intros ns step need idx i H; cbn in H; [discriminate|].
  destruct ns as [|x tl]; [discriminate|]. set (r := run_len (x :: tl) step) in *.
  destruct (Nat.leb_spec need r).
  - injection H as <-. pose proof (run_len_le (x :: tl) step) as Hr. fold r in Hr. lia.
  - apply IH in H. rewrite skipn_length in H. assert (Hr1 : (1 <= r)%nat). { unfold r. cbn. destruct tl as [|y tl']; [lia|]. destruct (x + step =? y); lia. }
    pose proof (run_len_le (x :: tl) step) as Hr. fold r in Hr. lia.
Qed.

Theorem alloc_array_inv l bytes x l' : OInv l -> nsz l < bytes -> o_alloc_array l bytes = Some (x, l') ->
  sorted (nodes l') /\ In x (nodes l) /\ n_of l' = (n_of l - nodes_for l bytes)%nat /\ (forall y, In y (nodes l') -> In y (nodes l)).
Proof.
  intros (Hso & Hc & Hp & Hn) Hb. unfold o_alloc_array. destruct (Z.leb_spec bytes (nsz l)); [lia|].
  destruct (find_run (S (n_of l)) (nodes l) (nsz l) (nodes_for l bytes) 0) as [i|] eqn:F; [|discriminate].
  intros Heq. injection Heq as <- <-. apply find_run_bound in F as [_ F]. rewrite Nat.sub_0_r in F.
  assert (Hcnt : (1 <= nodes_for l bytes)%nat).
  { unfold nodes_for. assert (1 <= (bytes + nsz l - 1) / nsz l) by (apply Z.div_le_lower_bound; lia). lia. }
  cbn [nodes set_nodes n_of]. repeat split.
  - apply sorted_remove_middle. assumption.
  - apply nth_In. lia.
  - unfold n_of, set_nodes. cbn [nodes]. rewrite app_length, firstn_length, skipn_length. unfold n_of in *. lia.
  - intros y Hy. apply in_app_iff in Hy as [Hy|Hy]; [apply (in_firstn' _ _ i); assumption|apply (in_skipn' _ _ (i + nodes_for l bytes)); assumption].
Qed.

(* the premises of the array double-release theorem are met by a concrete list (six free nodes in two runs, cursor in the
   middle), and the three outcomes it allows all occur: a middle node is reported, the most recently freed one ends in the
   unreachable-code abort *)
Example array_double_release_nonvacuous :
  let l := {| pb := 100000; pe := 100008; nodes := [256; 272; 288; 304; 320; 400]; ldp := 3%nat; nsz := 16 |} in
  OInv l /\ In 272 (nodes l) /\ o_dealloc_array false true l 272 32 = Reported /\ o_dealloc_array false true l 304 48 = Unreachable
  /\ o_dealloc_array false true l 256 48 = Reported.
Proof.
  cbv zeta. split; [|split; [cbn; tauto|split; [|split]; vm_compute; reflexivity]].
  unfold OInv. cbn [nodes ldp pb pe nsz n_of length]. split; [|split; [lia|split; lia]].
  apply sorted_SS. repeat (constructor; [|repeat (constructor; try lia)]). constructor.
Qed.
