(* C20, joint helpers: event lists of joint_ptr creation (allocate_joint), clone_joint and the move-with-allocator
   constructor for an object that owns one joint_array<Elem> of n elements (joint_allocator.hpp: joint_ptr::create with its
   catch block, the joint_array constructors with their builder, ~joint_array).  Element ids count constructions from 1;
   the construction with 0-based index `fail` (counted over the whole case) throws. *)
From Coq Require Import List Arith Bool Lia.
Import ListNotations.

Inductive jxev := JxAlloc | JxFree | JxC (id : nat) | JxD (id : nat) | JxT.

(* one object: the node is obtained, the array is built element by element; when an element throws, the builder destroys
   the elements built so far (first to last), create()'s catch block gives the node back and rethrows *)
Definition jx_object (start n : nat) (fail : option nat) : list jxev * bool :=
  match fail with
  | Some k => if (start <=? k) && (k <? start + n)
              then ([JxAlloc] ++ map JxC (seq (S start) (k - start)) ++ [JxT] ++ map JxD (seq (S start) (k - start)) ++ [JxFree], false)
              else ([JxAlloc] ++ map JxC (seq (S start) n), true)
  | None => ([JxAlloc] ++ map JxC (seq (S start) n), true)
  end.
(* reset(): ~joint_array destroys first to last, then the node goes back *)
Definition jx_destroy (start n : nat) : list jxev := map JxD (seq (S start) n) ++ [JxFree].

Inductive jpost := PNone | PCopy.   (* PCopy: clone_joint or the move-with-allocator constructor: a second object, element-wise *)
Definition jx_case (n : nat) (fail : option nat) (post : jpost) : list jxev :=
  let '(e1, ok1) := jx_object 0 n fail in
  if ok1 then
    match post with
    | PNone => e1 ++ jx_destroy 0 n
    | PCopy => let '(e2, ok2) := jx_object n n fail in
               if ok2 then e1 ++ e2 ++ jx_destroy n n ++ jx_destroy 0 n else e1 ++ e2 ++ jx_destroy 0 n
    end
  else e1.

Definition jcount (p : jxev -> bool) (l : list jxev) : nat := length (filter p l).
Definition is_jc (i : nat) (e : jxev) := match e with JxC j => Nat.eqb i j | _ => false end.
Definition is_jd (i : nat) (e : jxev) := match e with JxD j => Nat.eqb i j | _ => false end.
Definition is_ja (e : jxev) := match e with JxAlloc => true | _ => false end.
Definition is_jf (e : jxev) := match e with JxFree => true | _ => false end.
Definition is_jt (e : jxev) := match e with JxT => true | _ => false end.
(* how many elements are built in all: up to the failing one *)
Definition jx_total (n : nat) (post : jpost) : nat := match post with PNone => n | PCopy => 2 * n end.
Definition jx_built (n : nat) (fail : option nat) (post : jpost) : nat :=
  match fail with Some k => Nat.min k (jx_total n post) | None => jx_total n post end.
