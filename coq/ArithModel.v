(* Hand-written executable definitions next to the generated kernel (no proofs here, so that the model
   still extracts and runs when a proof breaks). *)
From Coq Require Import NArith Bool.
From FM Require Import Wrap GenArith.
Local Open Scope N_scope.

(* free_list_array::get (a class-template member, hand-modelled; tied to the code by the C19 differential run):
   i = index_from_size(node_size); if (i < min_size_index) i = min_size_index; return array_[i - min_size_index]
   whose list was constructed with node size size_from_index(i). *)
Definition bucket_index (index_from_size : N -> N) (min_size_index : N) (s : N) : N :=
  let i := index_from_size s in if i <? min_size_index then min_size_index else i.

Definition identity_bucket_node_size (min_element_size s : N) : N :=
  identity_size_from_index (bucket_index identity_index_from_size (identity_index_from_size min_element_size) s).

Definition log2_bucket_node_size (min_element_size s : N) : N :=
  log2_size_from_index (bucket_index log2_index_from_size (log2_index_from_size min_element_size) s).

