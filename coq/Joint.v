(* Joint allocations: the object of size sT sits at the start of one upstream node of sT + cap bytes; everything
   joint_allocator / joint_array hand out is bumped from the cap bytes behind it (fixed_memory_stack, fence 0). *)
From Coq Require Import ZArith List Bool Lia.
From FM Require Import FixedStack.
Import ListNotations.
Local Open Scope Z_scope.

Record jst := { j_obj : Z; j_sT : Z; j_cap : Z; j_top : Z; j_pieces : list (Z * Z) (* address, size; newest first *) }.

Definition j_mem (s : jst) : Z := j_obj s + j_sT s.            (* detail::get_memory *)
Definition j_end (s : jst) : Z := j_obj s + j_sT s + j_cap s.

Definition j_init (obj sT cap : Z) : jst := {| j_obj := obj; j_sT := sT; j_cap := cap; j_top := obj + sT; j_pieces := [] |}.

Inductive jop :=
  | JAlloc (size al : Z)          (* joint_allocator::allocate_node / joint_array allocation *)
  | JBump (n : Z)                 (* joint_array range constructor: one more element *)
  | JDealloc (ptr size : Z).      (* joint_allocator::deallocate_node *)
Inductive jout := JOk (p : Z) | JThrow | JDone.

Definition j_set (s : jst) top pieces := {| j_obj := j_obj s; j_sT := j_sT s; j_cap := j_cap s; j_top := top; j_pieces := pieces |}.

Definition jstep (s : jst) (o : jop) : jst * jout :=
  match o with
  | JAlloc size al =>
      match fs_alloc 0 (j_top s) (j_end s) size al with
      | None => (s, JThrow)
      | Some (p, top') => (j_set s top' ((p, size) :: j_pieces s), JOk p)
      end
  | JBump n =>
      if n >? j_end s - j_top s then (s, JThrow)
      else (j_set s (j_top s + n) (match j_pieces s with (p, sz) :: tl => (p, sz + n) :: tl | [] => [] end), JDone)
  | JDealloc ptr size =>
      if ptr + size =? j_top s then (j_set s ptr (match j_pieces s with _ :: tl => tl | [] => [] end), JDone)
      else (s, JDone)
  end.

(* what reset()/the destructor passes to the leaf allocator *)
Definition j_release_params (s : jst) : Z * Z := (j_obj s, j_sT s + (j_end s - j_mem s)).
(* additional size clone_joint asks for *)
Definition j_clone_size (s : jst) : Z := j_top s - j_mem s.
Definition j_capacity_left (s : jst) : Z := j_end s - j_top s.
