(* iteration_allocator<N>: executable model (Exec layer = what the code does, deterministic). *)
From Coq Require Import ZArith List Lia Bool Arith.
From FM Require Import FixedStack.
Import ListNotations.
Local Open Scope Z_scope.

(* block_start(i) - block_.memory = i * size / N   (GenArith.iteration_block_start, bridged in IterationProofs) *)
Definition istart (size : Z) (n i : nat) : Z := Z.of_nat i * size / Z.of_nat n.

Record arec := { a_ptr : Z; a_size : Z; a_reg : nat }.

Record ist := { ibase : Z; isize : Z; iN : nat; itops : nat -> Z; icur : nat; ilive : list arec }.

Definition rstart (s : ist) (i : nat) : Z := ibase s + istart (isize s) (iN s) i.
Definition upd (i : nat) (x : Z) (f : nat -> Z) : nat -> Z := fun j => if Nat.eqb j i then x else f j.

(* constructor: stacks_[i] starts at block_start(i) *)
Definition it_init (base size : Z) (n : nat) : ist :=
  {| ibase := base; isize := size; iN := n; itops := fun i => base + istart size n i; icur := 0%nat; ilive := [] |}.

Inductive iop := IAlloc (throwing : bool) (size al : Z) | INext.
Inductive iout := IOk (p : Z) | INull | IThrow | INextOut (cur : nat) | ICrash.

Definition it_step (fence : Z) (fill : bool) (s : ist) (o : iop) : ist * iout :=
  match o with
  | IAlloc thr size al =>
      let top := itops s (icur s) in
      match fs_alloc fence top (rstart s (S (icur s))) size al with
      | None => (s, if thr then IThrow else INull)
      | Some (p, top') =>
          ({| ibase := ibase s; isize := isize s; iN := iN s; itops := upd (icur s) top' (itops s); icur := icur s;
              ilive := {| a_ptr := p; a_size := size; a_reg := icur s |} :: ilive s |}, IOk p)
      end
  | INext =>
      let c := (S (icur s) mod iN s)%nat in
      (* stacks_[c].unwind(block_start(c)): debug_fill(top, cur_ - top) -- a negative length is a crash *)
      if fill && (itops s c <? rstart s c) then (s, ICrash)
      else
      ({| ibase := ibase s; isize := isize s; iN := iN s; itops := upd c (rstart s c) (itops s); icur := c;
          ilive := filter (fun a => negb (Nat.eqb (a_reg a) c)) (ilive s) |}, INextOut c)
  end.

(* bytes the allocator writes during a step (fences, padding, fill patterns) *)
Definition it_writes (fence : Z) (s : ist) (o : iop) : list (Z * Z) :=
  match o with
  | IAlloc _ size al =>
      match fs_alloc fence (itops s (icur s)) (rstart s (S (icur s))) size al with
      | None => []
      | Some (p, top') => [fs_alloc_writes (itops s (icur s)) top']
      end
  | INext => let c := (S (icur s) mod iN s)%nat in [(rstart s c, itops s c - rstart s c)]
  end.

Definition it_capacity_left (s : ist) (i : nat) : Z := rstart s (S i) - itops s i.

Fixpoint it_run (fence : Z) (fill : bool) (s : ist) (ops : list iop) : ist :=
  match ops with [] => s | o :: tl => it_run fence fill (fst (it_step fence fill s o)) tl end.

(* the constructor as it was before the repair (regions i * (size / N)); kept for the refutation theorem *)
Definition it_init_orig (base size : Z) (n : nat) : ist :=
  {| ibase := base; isize := size; iN := n; itops := fun i => base + Z.of_nat i * (size / Z.of_nat n); icur := 0%nat; ilive := [] |}.
