(* C12 -- moving an allocator transfers all its memory; the moved-from object is harmless.  Statements only.
   Move.v: objects in slots own upstream blocks; move construction, move assignment, swap, growth, destruction. *)
From Coq Require Import ZArith List Bool Permutation.
From FM Require Import Move MoveProofs DeepTracker DeepTrackerProofs.
Import ListNotations.
Local Open Scope Z_scope.

(* one step: owned before + acquired = returned upstream + owned afterwards (as multisets) *)
Theorem C12_every_operation_conserves_blocks : forall w o w' r, mstep w o = Some (w', r) ->
  Permutation (acquired_by o ++ owned w) (r ++ owned w').
Proof. exact step_conserves. Qed.
Print Assumptions C12_every_operation_conserves_blocks.

(* any history of constructions, growth, moves, move assignments (onto live or moved-from targets), swaps and destructions,
   with moves at every position: no block is returned twice and none is both returned and still owned *)
Theorem C12_no_block_is_returned_twice : forall os w' r, mrun [] os = Some (w', r) -> NoDup (flat_map acquired_by os) -> NoDup (r ++ owned w').
Proof. exact no_double_release. Qed.
Print Assumptions C12_no_block_is_returned_twice.

(* ... and once every object is gone every block has been returned exactly once: nothing leaks *)
Theorem C12_every_block_is_returned_exactly_once : forall os w' r, mrun [] os = Some (w', r) -> owned w' = [] -> NoDup (flat_map acquired_by os) ->
  Permutation (flat_map acquired_by os) r /\ NoDup r.
Proof. exact every_block_returned_exactly_once. Qed.
Print Assumptions C12_every_block_is_returned_exactly_once.

Theorem C12_move_construction_transfers_everything : forall w i j w' r, mstep w (MMoveCons i j) = Some (w', r) ->
  r = [] /\ owned_slot (get w' j) = owned_slot (get w i) /\ get w' i = SObj true [].
Proof. exact move_construct_transfers. Qed.
Print Assumptions C12_move_construction_transfers_everything.

(* move assignment: the target's own blocks go back (once), it takes over the source's, the source keeps nothing *)
Theorem C12_move_assignment_transfers_everything : forall w i j w' r, mstep w (MMoveAssign i j) = Some (w', r) ->
  r = owned_slot (get w j) /\ owned_slot (get w' j) = owned_slot (get w i) /\ get w' i = SObj true [].
Proof. exact move_assign_transfers. Qed.
Print Assumptions C12_move_assignment_transfers_everything.

Theorem C12_swap_exchanges_completely : forall w i j w' r, mstep w (MSwap i j) = Some (w', r) ->
  r = [] /\ get w' j = get w i /\ get w' i = get w j.
Proof. exact swap_exchanges. Qed.
Print Assumptions C12_swap_exchanges_completely.

(* a moved-from object can be destroyed and assigned to; neither touches a block *)
Theorem C12_moved_from_is_harmless : forall w k, get w k = SObj true [] ->
  (exists w', mstep w (MDel k) = Some (w', [])) /\
  (forall i, i <> k -> forall m b, get w i = SObj m b -> exists w', mstep w (MMoveAssign i k) = Some (w', [])).
Proof. exact moved_from_is_harmless. Qed.
Print Assumptions C12_moved_from_is_harmless.

Example C12_nonvacuous :
  mrun [] [MNew 0 [100]; MGrow 0 [200]; MNew 1 [300]; MMoveAssign 0 1; MMoveCons 1 2; MSwap 0 2; MNew 3 [400]; MMoveAssign 3 2; MDel 0; MDel 1; MDel 2; MDel 3]
  = Some ([SEmpty; SEmpty; SEmpty; SEmpty], [300; 200; 100; 400]).
Proof. vm_compute. reflexivity. Qed.

(* ---- deeply tracked allocators: the pointer the block source deep inside holds to the tracker (DeepTracker.v) ---- *)
(* after every history of constructions, move constructions, move assignments, swaps (through a temporary) and destructions
   each object's deep pointer refers to the tracker inside that very object: growth and shrinking are never reported to the
   tracker of a moved-from, destroyed or temporary object, and never to none *)
Theorem C12_deep_tracker_follows_every_move : forall os w k m, dt_run true tw_empty os = Some w -> w k = TObj (Some m) -> m = k /\ w m <> TEmpty.
Proof. exact deep_pointer_never_dangles. Qed.
Print Assumptions C12_deep_tracker_follows_every_move.

Theorem C12_deep_tracker_never_null : forall os w k, dt_run true tw_empty os = Some w -> w k <> TObj None.
Proof. exact deep_pointer_never_null. Qed.
Print Assumptions C12_deep_tracker_never_null.

(* the statement is about the set_tracker call in the move assignment: without it the model reports to a destroyed object *)
Theorem C12_deep_tracker_needs_the_repointing_refuted :
  exists w, dt_run false tw_empty [TNew 0; TNew 1; TMoveAssign 0 1; TDel 0]%nat = Some w /\ w 1%nat = TObj (Some 0%nat) /\ w 0%nat = TEmpty.
Proof. exact moveassign_without_repoint_refuted. Qed.
Print Assumptions C12_deep_tracker_needs_the_repointing_refuted.
