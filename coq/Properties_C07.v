(* C07 -- iteration allocator: memory lives exactly N iterations; regions are disjoint.
   Statements only.  The model (Iteration.v) is executable and tied to the code by lock-step replay;
   its region formula is the generated block_start (block_start_is_kernel). *)
From Coq Require Import ZArith NArith List Bool.
From FM Require Import GenArith FixedStack Iteration IterationProofs.
Import ListNotations.
Local Open Scope Z_scope.

(* for every N >= 1 and every block size: the N regions tile the block exactly *)
Theorem C07_regions_partition : forall S n, (0 < n)%nat -> 0 <= S ->
  istart S n 0 = 0 /\ istart S n n = S /\
  (forall i j, (i < j)%nat -> (j <= n)%nat -> istart S n (Datatypes.S i) <= istart S n j) /\
  (forall i, (i < n)%nat -> 0 <= istart S n i /\ istart S n (Datatypes.S i) <= S).
Proof. exact regions_partition. Qed.
Print Assumptions C07_regions_partition.

(* the region formula of the model is the block_start translated from the source on this run *)
Theorem C07_region_formula_is_source : forall base size n i, (0 < n)%nat -> 0 <= size -> 0 <= base -> (i <= n)%nat ->
  base + size < 2^64 -> Z.of_nat n * size < 2^64 ->
  Z.of_N (iteration_block_start (Z.to_N base) (Z.to_N size) (N.of_nat n) (N.of_nat i)) = base + istart size n i.
Proof. exact block_start_is_kernel. Qed.
Print Assumptions C07_region_formula_is_source.

(* the invariant holds initially and after every operation sequence of any length *)
Theorem C07_invariant_reachable : forall fence fill base size n ops, 0 <= fence ->
  (0 < n)%nat -> 0 <= size -> 0 < base -> Forall op_ok ops ->
  Inv (it_run fence fill (it_init base size n) ops).
Proof. intros. apply run_inv; [assumption| |assumption]. apply init_inv; assumption. Qed.
Print Assumptions C07_invariant_reachable.

(* a served request lies in the current region, is aligned, inside the block, and overlaps nothing live *)
Theorem C07_allocation_in_region_disjoint : forall fence fill, 0 <= fence -> forall s thr size al p,
  Inv s -> 0 <= size -> 0 < al ->
  snd (it_step fence fill s (IAlloc thr size al)) = IOk p ->
  p <> 0 /\ p mod al = 0 /\ rstart s (icur s) <= p /\ p + size <= rstart s (S (icur s)) /\
  ibase s <= p /\ p + size <= ibase s + isize s /\
  forall a, In a (ilive s) -> a_ptr a + a_size a <= p \/ p + size <= a_ptr a.
Proof. exact alloc_ok. Qed.
Print Assumptions C07_allocation_in_region_disjoint.

(* memory obtained in one iteration is still live after any operations containing fewer than N switches *)
Theorem C07_lifetime_N_iterations : forall fence fill, 0 <= fence -> forall s thr size al p ops,
  Inv s -> 0 <= size -> 0 < al ->
  snd (it_step fence fill s (IAlloc thr size al)) = IOk p -> Forall op_ok ops ->
  (count_next ops < iN s)%nat ->
  In {| a_ptr := p; a_size := size; a_reg := icur s |}
     (ilive (it_run fence fill (fst (it_step fence fill s (IAlloc thr size al))) ops)).
Proof. exact fresh_allocation_lives_N. Qed.
Print Assumptions C07_lifetime_N_iterations.

(* ... and while it is live no byte of it is written by the allocator *)
Theorem C07_live_memory_unmodified : forall fence fill, 0 <= fence -> forall s o, Inv s -> op_ok o ->
  forall w a, In w (it_writes fence s o) -> In a (ilive (fst (it_step fence fill s o))) ->
    (match o with IAlloc _ _ _ => In a (ilive s) | INext => True end) ->
    snd w <= 0 \/ a_ptr a + a_size a <= fst w \/ fst w + snd w <= a_ptr a.
Proof. exact writes_avoid_live. Qed.
Print Assumptions C07_live_memory_unmodified.

(* switching to an iteration makes that region's full capacity available again *)
Theorem C07_switch_restores_capacity : forall fence fill s s' c, Inv s ->
  it_step fence fill s INext = (s', INextOut c) ->
  icur s' = c /\ c = (S (icur s) mod iN s)%nat /\ it_capacity_left s' c = rstart s (S c) - rstart s c.
Proof. exact switch_full_capacity. Qed.
Print Assumptions C07_switch_restores_capacity.

(* next_iteration never takes the crashing path (negative fill length) from a reachable state *)
Theorem C07_switch_never_crashes : forall fence fill s, Inv s -> snd (it_step fence fill s INext) <> ICrash.
Proof. exact next_never_crashes. Qed.
Print Assumptions C07_switch_never_crashes.

(* a failed request changes nothing *)
Theorem C07_failed_request_changes_nothing : forall fence fill s thr size al,
  snd (it_step fence fill s (IAlloc thr size al)) = (if thr then IThrow else INull) ->
  fst (it_step fence fill s (IAlloc thr size al)) = s.
Proof. exact alloc_fail_unchanged. Qed.
Print Assumptions C07_failed_request_changes_nothing.

(* the constructor as found at the pinned commit (regions i*(size/N)) violates the invariant: N = 3, size = 1025 *)
Theorem C07_original_constructor_refuted : exists size n i, (i < n)%nat /\
  itops (it_init_orig 4096 size n) i < rstart (it_init_orig 4096 size n) i /\
  snd (it_step 0 true (fst (it_step 0 true (it_init_orig 4096 size n) INext)) INext) = ICrash.
Proof. exact ctor_region_refuted. Qed.
Print Assumptions C07_original_constructor_refuted.

(* non-vacuity: a concrete reachable state with live allocations in two regions *)
Example C07_nonvacuous :
  let s := it_run 8 true (it_init 65536 1025 3) [IAlloc true 10 8; IAlloc true 100 16; INext; IAlloc false 300 1] in
  length (ilive s) = 3%nat /\ icur s = 1%nat /\ it_capacity_left s 1 = 342 - 8 - 300 - 8.
Proof. vm_compute. repeat split; reflexivity. Qed.
